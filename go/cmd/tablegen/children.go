package main

// C07 (and every model that walks the tree through Children()): the Children()
// methods of ast/node.go, translated SYMBOLICALLY.  A Children method builds a
// []Node out of the receiver's fields; its translation is the list of
// selectors, in order:
//
//	(0, F)  the node n.F                       []Node{n.F}, append(v, n.F), v[i] = n.F
//	(1, F)  the nodes of the slice n.F         return n.F, for _, c := range n.F { v = append(v, c) }
//	(2, F)  the node n.F when it is not nil    if n.F != nil { v = append(v, n.F) }
//	(3, F)  n.F.Children()                     return n.F.Children()
//	(4, F)  the values of the map n.F in       keys collected from the map, sort.Strings(keys),
//	        sorted key order                   for _, k := range keys { v = append(v, n.F[k]) }
//
// Output: Definition ast_children : list (bstr * list (N * bstr)) (receiver type -> selectors).
// Proofs/SourceTieChildren.v interprets the selectors on the model's node type and
// proves that Model/Compile.v's [children] (hence the view of Model/RefView.v,
// Proofs/CheckerCompileTie.v) is that list for every node.  Any other statement
// shape is reported as untranslatable, never guessed.

import (
	"fmt"
	"go/ast"
	"go/token"
	"sort"
	"strings"
)

func init() {
	register("80-ast-children", (*gen).astChildren)
}

type chSel struct {
	tag   int
	field string
	set   bool // for make([]Node, k): slot assigned
}

type chState struct {
	g     *gen
	typ   string
	recv  string
	vars  map[string][]chSel // slice builders
	keys  map[string]string  // keys variable -> map field it was collected from
	sortd map[string]bool    // keys variable has been sorted
	bad   bool
}

func (s *chState) fail(format string, args ...interface{}) {
	if !s.bad {
		s.g.fail("children: ast/node.go: (%s).Children: %s", s.typ, fmt.Sprintf(format, args...))
	}
	s.bad = true
}

// recvField recognises <recv>.<F>.
func (s *chState) recvField(e ast.Expr) (string, bool) {
	sel, ok := e.(*ast.SelectorExpr)
	if !ok {
		return "", false
	}
	id, ok := sel.X.(*ast.Ident)
	if !ok || id.Name != s.recv {
		return "", false
	}
	return sel.Sel.Name, true
}

func isNodeSlice(e ast.Expr) bool {
	at, ok := e.(*ast.ArrayType)
	if !ok || at.Len != nil {
		return false
	}
	id, ok := at.Elt.(*ast.Ident)
	return ok && id.Name == "Node"
}

// value of an expression of type []Node
func (s *chState) sliceExpr(e ast.Expr) ([]chSel, bool) {
	switch e := e.(type) {
	case *ast.Ident:
		if v, ok := s.vars[e.Name]; ok {
			for _, x := range v {
				if !x.set {
					return nil, false
				}
			}
			return v, true
		}
	case *ast.SelectorExpr:
		if f, ok := s.recvField(e); ok {
			return []chSel{{1, f, true}}, true
		}
	case *ast.CompositeLit:
		if !isNodeSlice(e.Type) {
			return nil, false
		}
		var out []chSel
		for _, el := range e.Elts {
			f, ok := s.recvField(el)
			if !ok {
				return nil, false
			}
			out = append(out, chSel{0, f, true})
		}
		return out, true
	case *ast.CallExpr:
		// <recv>.<F>.Children()
		if sel, ok := e.Fun.(*ast.SelectorExpr); ok && sel.Sel.Name == "Children" && len(e.Args) == 0 {
			if f, ok := s.recvField(sel.X); ok {
				return []chSel{{3, f, true}}, true
			}
		}
		// make([]Node, k, ...)
		if id, ok := e.Fun.(*ast.Ident); ok && id.Name == "make" && len(e.Args) >= 2 && isNodeSlice(e.Args[0]) {
			if n, ok := intLit(e.Args[1]); ok && n >= 0 && n < 16 {
				return make([]chSel, n), true
			}
		}
	}
	return nil, false
}

// v = append(v, X): the element appended, given the loop variables in scope
func (s *chState) appendTo(st ast.Stmt, elemOf map[string]chSel) (string, chSel, bool) {
	as, ok := st.(*ast.AssignStmt)
	if !ok || as.Tok != token.ASSIGN || len(as.Lhs) != 1 || len(as.Rhs) != 1 {
		return "", chSel{}, false
	}
	lhs, ok := as.Lhs[0].(*ast.Ident)
	if !ok {
		return "", chSel{}, false
	}
	call, ok := as.Rhs[0].(*ast.CallExpr)
	if !ok || len(call.Args) != 2 || call.Ellipsis != token.NoPos {
		return "", chSel{}, false
	}
	if fn, ok := call.Fun.(*ast.Ident); !ok || fn.Name != "append" {
		return "", chSel{}, false
	}
	if a0, ok := call.Args[0].(*ast.Ident); !ok || a0.Name != lhs.Name {
		return "", chSel{}, false
	}
	switch x := call.Args[1].(type) {
	case *ast.Ident:
		if sel, ok := elemOf[x.Name]; ok {
			return lhs.Name, sel, true
		}
	case *ast.SelectorExpr:
		if f, ok := s.recvField(x); ok {
			return lhs.Name, chSel{0, f, true}, true
		}
	case *ast.IndexExpr:
		// <recv>.<M>[k] with k ranging over the sorted keys of that map
		if f, ok := s.recvField(x.X); ok {
			if k, ok := x.Index.(*ast.Ident); ok {
				if sel, ok := elemOf["["+k.Name+"]"]; ok && sel.field == f {
					return lhs.Name, sel, true
				}
			}
		}
	}
	return "", chSel{}, false
}

func (s *chState) stmt(st ast.Stmt) (ret []chSel, done bool) {
	switch st := st.(type) {
	case *ast.ReturnStmt:
		if len(st.Results) == 1 {
			if v, ok := s.sliceExpr(st.Results[0]); ok {
				return v, true
			}
		}
		s.fail("return of an unsupported shape")
	case *ast.DeclStmt:
		gd, ok := st.Decl.(*ast.GenDecl)
		if !ok || gd.Tok != token.VAR || len(gd.Specs) != 1 {
			s.fail("unsupported declaration")
			return
		}
		vs := gd.Specs[0].(*ast.ValueSpec)
		if len(vs.Names) != 1 || len(vs.Values) > 1 {
			s.fail("unsupported declaration")
			return
		}
		name := vs.Names[0].Name
		if len(vs.Values) == 0 {
			if vs.Type != nil && isNodeSlice(vs.Type) {
				s.vars[name] = []chSel{}
				return
			}
			s.fail("declaration of %s", name)
			return
		}
		s.define(name, vs.Values[0])
	case *ast.AssignStmt:
		if st.Tok == token.DEFINE && len(st.Lhs) == 1 && len(st.Rhs) == 1 {
			if id, ok := st.Lhs[0].(*ast.Ident); ok {
				s.define(id.Name, st.Rhs[0])
				return
			}
		}
		// v[i] = <recv>.<F>
		if st.Tok == token.ASSIGN && len(st.Lhs) == 1 && len(st.Rhs) == 1 {
			if ix, ok := st.Lhs[0].(*ast.IndexExpr); ok {
				if id, ok := ix.X.(*ast.Ident); ok {
					if v, ok := s.vars[id.Name]; ok {
						if i, ok := intLit(ix.Index); ok && int(i) < len(v) && !v[i].set {
							if f, ok := s.recvField(st.Rhs[0]); ok {
								v[i] = chSel{0, f, true}
								return
							}
						}
					}
				}
			}
		}
		if name, sel, ok := s.appendTo(st, nil); ok {
			if _, isVar := s.vars[name]; isVar {
				s.vars[name] = append(s.vars[name], sel)
				return
			}
		}
		s.fail("unsupported assignment")
	case *ast.IfStmt:
		// if <recv>.<F> != nil { v = append(v, <recv>.<F>) }
		if st.Init == nil && st.Else == nil && len(st.Body.List) == 1 {
			if be, ok := st.Cond.(*ast.BinaryExpr); ok && be.Op == token.NEQ {
				if f, ok := s.recvField(be.X); ok {
					if id, ok := be.Y.(*ast.Ident); ok && id.Name == "nil" {
						if name, sel, ok := s.appendTo(st.Body.List[0], nil); ok && sel.tag == 0 && sel.field == f {
							if _, isVar := s.vars[name]; isVar {
								s.vars[name] = append(s.vars[name], chSel{2, f, true})
								return
							}
						}
					}
				}
			}
		}
		s.fail("unsupported if")
	case *ast.RangeStmt:
		if len(st.Body.List) != 1 {
			s.fail("unsupported loop body")
			return
		}
		// for k := range <recv>.<M> { keys = append(keys, k) }
		if f, ok := s.recvField(st.X); ok && st.Value == nil {
			if k, ok := st.Key.(*ast.Ident); ok && k.Name != "_" {
				if name, sel, ok := s.appendTo(st.Body.List[0], map[string]chSel{k.Name: {9, f, true}}); ok && sel.tag == 9 {
					if src, isKeys := s.keys[name]; isKeys && src == "" {
						s.keys[name] = f
						return
					}
				}
			}
		}
		// for _, c := range <recv>.<Fs> { v = append(v, c) }
		if f, ok := s.recvField(st.X); ok && st.Value != nil {
			if k, ok := st.Key.(*ast.Ident); ok && k.Name == "_" {
				if c, ok := st.Value.(*ast.Ident); ok {
					if name, sel, ok := s.appendTo(st.Body.List[0], map[string]chSel{c.Name: {1, f, true}}); ok && sel.tag == 1 {
						if _, isVar := s.vars[name]; isVar {
							s.vars[name] = append(s.vars[name], sel)
							return
						}
					}
				}
			}
		}
		// for _, k := range keys { v = append(v, <recv>.<M>[k]) }   (keys collected from M and sorted)
		if ks, ok := st.X.(*ast.Ident); ok && st.Value != nil {
			if f, isKeys := s.keys[ks.Name]; isKeys && f != "" && s.sortd[ks.Name] {
				if k0, ok := st.Key.(*ast.Ident); ok && k0.Name == "_" {
					if k, ok := st.Value.(*ast.Ident); ok {
						if name, sel, ok := s.appendTo(st.Body.List[0], map[string]chSel{"[" + k.Name + "]": {4, f, true}}); ok && sel.tag == 4 {
							if _, isVar := s.vars[name]; isVar {
								s.vars[name] = append(s.vars[name], sel)
								return
							}
						}
					}
				}
			}
		}
		s.fail("unsupported loop")
	case *ast.ExprStmt:
		// sort.Strings(keys)
		if call, ok := st.X.(*ast.CallExpr); ok && len(call.Args) == 1 {
			if sel, ok := call.Fun.(*ast.SelectorExpr); ok && sel.Sel.Name == "Strings" {
				if pk, ok := sel.X.(*ast.Ident); ok && pk.Name == "sort" {
					if ks, ok := call.Args[0].(*ast.Ident); ok {
						if f, isKeys := s.keys[ks.Name]; isKeys && f != "" {
							s.sortd[ks.Name] = true
							return
						}
					}
				}
			}
		}
		s.fail("unsupported call statement")
	default:
		s.fail("unsupported statement")
	}
	return
}

func (s *chState) define(name string, val ast.Expr) {
	// keys := make([]string, 0, ...)
	if call, ok := val.(*ast.CallExpr); ok {
		if id, ok := call.Fun.(*ast.Ident); ok && id.Name == "make" && len(call.Args) >= 2 {
			if at, ok := call.Args[0].(*ast.ArrayType); ok && at.Len == nil {
				if el, ok := at.Elt.(*ast.Ident); ok && el.Name == "string" {
					if n, ok := intLit(call.Args[1]); ok && n == 0 {
						s.keys[name] = ""
						return
					}
				}
			}
		}
	}
	if v, ok := s.sliceExpr(val); ok {
		s.vars[name] = append([]chSel{}, v...)
		return
	}
	s.fail("initialiser of %s", name)
}

func (g *gen) astChildren() {
	type entry struct {
		typ  string
		sels []chSel
	}
	var entries []entry
	for _, d := range g.file("ast/node.go").Decls {
		fd, ok := d.(*ast.FuncDecl)
		if !ok || fd.Name.Name != "Children" || fd.Recv == nil || len(fd.Recv.List) != 1 || fd.Body == nil {
			continue
		}
		t := fd.Recv.List[0].Type
		if st, ok := t.(*ast.StarExpr); ok {
			t = st.X
		}
		id, ok := t.(*ast.Ident)
		if !ok || len(fd.Recv.List[0].Names) != 1 {
			g.fail("children: ast/node.go: a Children method with an unsupported receiver")
			continue
		}
		s := &chState{g: g, typ: id.Name, recv: fd.Recv.List[0].Names[0].Name,
			vars: map[string][]chSel{}, keys: map[string]string{}, sortd: map[string]bool{}}
		var result []chSel
		finished := false
		for i, st := range fd.Body.List {
			r, done := s.stmt(st)
			if s.bad {
				break
			}
			if done {
				if i != len(fd.Body.List)-1 {
					s.fail("statements after return")
				}
				result, finished = r, true
				break
			}
		}
		if s.bad {
			continue
		}
		if !finished {
			s.fail("no return")
			continue
		}
		entries = append(entries, entry{id.Name, result})
	}
	if len(entries) == 0 {
		g.fail("children: ast/node.go: no Children methods found")
	}
	sort.Slice(entries, func(i, j int) bool { return entries[i].typ < entries[j].typ })
	g.p("(* ast/node.go: the Children() methods, as selectors over the receiver's fields: (0,F) the node n.F;\n")
	g.p("   (1,F) the nodes of the slice n.F; (2,F) n.F when not nil; (3,F) n.F.Children(); (4,F) the values of the map n.F by sorted key *)\n")
	g.p("Definition ast_children : list (bstr * list (N * bstr)) := [\n")
	js := map[string][]string{}
	for i, e := range entries {
		var parts []string
		for _, x := range e.sels {
			parts = append(parts, fmt.Sprintf("(%d, %s)", x.tag, coqBytes(x.field)))
			js[e.typ] = append(js[e.typ], fmt.Sprintf("%d:%s", x.tag, x.field))
		}
		sep := ";"
		if i == len(entries)-1 {
			sep = ""
		}
		g.p("  (%s, [%s])%s   (* %s *)\n", coqBytes(e.typ), strings.Join(parts, "; "), sep, e.typ)
	}
	g.p("].\n\n")
	g.js["ast_children"] = js
}
