package main

// Soft tie (never an alarm): a hash of the printed, comment-free syntax tree of every
// function and method of robfig/soy's non-test sources.  bin/check compares the hashes
// of the functions in a property's anchor files with the baseline recorded when the
// hand-written models were last reviewed (bin/fnhash_baseline.json); a changed function
// only raises the case budget of that property's correspondence and is named in the
// evidence ("model possibly stale: parse.lexCss changed").

import (
	"bytes"
	"crypto/sha256"
	"encoding/hex"
	"go/ast"
	"go/parser"
	"go/printer"
	"go/token"
	"os"
	"path/filepath"
	"strings"
)

func init() { register("99-fnhash", (*gen).fnHashes) }

func (g *gen) fnHashes() {
	hashes := map[string]string{}
	filepath.Walk(g.repo, func(path string, info os.FileInfo, err error) error {
		if err != nil {
			return nil
		}
		if info.IsDir() {
			if n := info.Name(); n == ".git" || n == "testdata" || n == "lib" {
				return filepath.SkipDir
			}
			return nil
		}
		if !strings.HasSuffix(path, ".go") || strings.HasSuffix(path, "_test.go") || strings.Contains(info.Name(), "verif") || info.Name() == "scope_hook_off.go" {
			return nil
		}
		fset := token.NewFileSet()
		f, err := parser.ParseFile(fset, path, nil, 0) // comments dropped
		if err != nil {
			return nil
		}
		rel, _ := filepath.Rel(g.repo, path)
		for _, d := range f.Decls {
			fd, ok := d.(*ast.FuncDecl)
			if !ok {
				continue
			}
			name := fd.Name.Name
			if fd.Recv != nil && len(fd.Recv.List) == 1 {
				var b bytes.Buffer
				printer.Fprint(&b, fset, fd.Recv.List[0].Type)
				name = "(" + b.String() + ")." + name
			}
			var b bytes.Buffer
			printer.Fprint(&b, fset, fd)
			h := sha256.Sum256(b.Bytes())
			hashes[rel+":"+name] = hex.EncodeToString(h[:8])
		}
		return nil
	})
	g.js["function_hashes"] = hashes
}
