package main

import (
	"go/ast"
)

func init() {
	register("16-jsescape-callee", (*gen).jsEscapeCallee)
	register("16-json-nil-collections", (*gen).jsonNilCollections)
}

// jsonNilCollections reads whether data.List and data.Map have a MarshalJSON method.  Without one
// (the pinned tree) encoding/json writes a nil []Value and a nil map as null; the repair
// notes/pending/C16-json-nil-list.diff adds methods that write [] and {} (Model/JsonEncode.v nil_null).
func (g *gen) jsonNilCollections() {
	const rel = "data/value.go"
	l := g.method(rel, "List", "MarshalJSON") != nil
	m := g.method(rel, "Map", "MarshalJSON") != nil
	if l != m {
		g.fail("data/value.go: exactly one of List and Map has a MarshalJSON method (Model/JsonEncode.v has one flag for both)")
	}
	if g.method(rel, "Undefined", "MarshalJSON") == nil || g.method(rel, "Null", "MarshalJSON") == nil {
		g.fail("data/value.go: Undefined / Null have no MarshalJSON method (Model/JsonEncode.v writes null for both)")
	}
	v := "true"
	if l {
		v = "false"
	}
	g.p("(* data.List / data.Map have no MarshalJSON method: a nil list or map is written as null by json.Marshal *)\n")
	g.p("Definition json_nil_null : bool := %s.\n\n", v)
	g.js["json_nil_null"] = !l
}

// jsEscapeCallee reads WHICH escaper the two places that write the inside of a
// JavaScript string literal call:
//
//	soyhtml/directives.go directiveEscapeJsString:  return data.String(<callee>(value.String()))
//	soyjs/exec.go: every <callee>(s.wr, ...) that writes literal text
//
// text/template's JSEscape/JSEscapeString (the pinned tree) writes a
// non-printable rune above U+FFFF with five or six hex digits; the repair
// notes/pending/C16-jsstr-astral-surrogate-pair.diff routes both places through
// internal/jsescape, which writes a surrogate pair of \uXXXX escapes.  The flag
// selects the model (Model/JsEscape.v js_escape_soy); the model itself is tied by
// the byte-level correspondence.  Any other callee is reported, never guessed.
func (g *gen) jsEscapeCallee() {
	sel := func(e ast.Expr) string {
		if s, ok := e.(*ast.SelectorExpr); ok {
			if x, ok := s.X.(*ast.Ident); ok {
				return x.Name + "." + s.Sel.Name
			}
		}
		return ""
	}
	htmlPair, jsPair := false, false
	// ---- soyhtml ----
	fd := g.funcDecl("soyhtml/directives.go", "directiveEscapeJsString")
	callee := ""
	if fd != nil && fd.Body != nil && len(fd.Body.List) == 1 {
		if rs, ok := fd.Body.List[0].(*ast.ReturnStmt); ok && len(rs.Results) == 1 {
			if conv, ok := rs.Results[0].(*ast.CallExpr); ok && sel(conv.Fun) == "data.String" && len(conv.Args) == 1 {
				if call, ok := conv.Args[0].(*ast.CallExpr); ok && len(call.Args) == 1 {
					if arg, ok := call.Args[0].(*ast.CallExpr); ok && sel(arg.Fun) == "value.String" && len(arg.Args) == 0 {
						callee = sel(call.Fun)
					}
				}
			}
		}
	}
	switch callee {
	case "template.JSEscapeString":
	case "jsescape.String":
		htmlPair = true
	default:
		g.fail("directiveEscapeJsString: body is not `return data.String(F(value.String()))` with F = template.JSEscapeString or jsescape.String (found %q)", callee)
	}
	// ---- soyjs ----
	lib, own := 0, 0
	ast.Inspect(g.file("soyjs/exec.go"), func(n ast.Node) bool {
		if c, ok := n.(*ast.CallExpr); ok {
			switch sel(c.Fun) {
			case "template.JSEscape", "template.JSEscapeString":
				lib++
			case "jsescape.Write", "jsescape.String":
				own++
			}
		}
		return true
	})
	switch {
	case lib > 0 && own == 0:
	case own > 0 && lib == 0:
		jsPair = true
	default:
		g.fail("soyjs/exec.go: string literals are written by %d calls of text/template's escaper and %d calls of internal/jsescape (expected all of one kind)", lib, own)
	}
	// ---- the helper, when used, must be the one the model describes ----
	if htmlPair || jsPair {
		const rel = "internal/jsescape/jsescape.go"
		fs := g.funcDecl(rel, "String")
		seen := map[string]bool{}
		if fs != nil {
			ast.Inspect(fs, func(n ast.Node) bool {
				if c, ok := n.(*ast.CallExpr); ok {
					seen[sel(c.Fun)] = true
				}
				return true
			})
		}
		for _, want := range []string{"template.JSEscapeString", "utf16.EncodeRune", "unicode.IsPrint"} {
			if !seen[want] {
				g.fail("%s: String does not call %s (not the helper Model/JsEscape.v js_escape_pair describes)", rel, want)
			}
		}
	}
	b := func(x bool) string {
		if x {
			return "true"
		}
		return "false"
	}
	g.p("(* which escaper writes the inside of a JavaScript string literal: false = text/template (a non-printable rune above\n")
	g.p("   U+FFFF gets five or six hex digits), true = internal/jsescape (surrogate pair of four-digit escapes) *)\n")
	g.p("Definition jsstr_pair_html : bool := %s.   (* soyhtml directiveEscapeJsString *)\n", b(htmlPair))
	g.p("Definition jsstr_pair_js : bool := %s.     (* soyjs/exec.go literal writers *)\n\n", b(jsPair))
	g.js["jsstr_pair_html"] = htmlPair
	g.js["jsstr_pair_js"] = jsPair
}
