package main

// Differential test of gotrans: the fixture functions of ./gtfix are run in Go on a grid of inputs, translated to
// Gallina, and a Coq file of `Example`s (translated function applied to the input = the value Go computed, or None
// where Go panicked) is checked by coqc with vm_compute.  Needs coqc and a built /verif Coq tree (Model/Bytes.vo);
// skipped otherwise.  Run:  cd go && go test -modfile ../build/go.mod ./cmd/tablegen
// (VERIF_COQ=<dir of the Coq tree> overrides ../../../coq).

import (
	"fmt"
	"go/ast"
	"go/token"
	"os"
	"os/exec"
	"path/filepath"
	"strings"
	"testing"

	"soyverif/cmd/tablegen/gtfix"
)

// the decoder of Model/Utf8.v for the parameter f_utf8_DecodeRuneInString
const stDec = "(fun s => let '(r, w) := decode_rune s in (Z.of_N r, Z.of_nat w))"

func cz(n int64) string { return zLitInt(n) }
func cb(b bool) string  { return coqBool(b) }
func cs(s string) string {
	return bstrLit(s)
}
func czs(l []int) string {
	var p []string
	for _, x := range l {
		p = append(p, cz(int64(x)))
	}
	if len(p) == 0 {
		return "(@nil Z)"
	}
	return "[" + strings.Join(p, "; ") + "]"
}

// guard runs f and reports a panic as ok=false.
func guard(f func() string) (res string, ok bool) {
	defer func() {
		if recover() != nil {
			res, ok = "", false
		}
	}()
	return f(), true
}

type fixCase struct {
	args string // Coq arguments
	run  func() string
}

func TestGotransFixtures(t *testing.T) {
	ints := []int{-130, -129, -128, -7, -5, -4, -3, -2, -1, 0, 1, 2, 3, 4, 5, 6, 7, 100, 101, 127, 128, 255, 256, 1 << 31, 1<<32 - 1, 1<<63 - 1, -1 << 63}
	strs := []string{"", "a", "b", "ab", "x.", "ba!", "héllo", "....a"}
	cases := map[string][]fixCase{}
	add := func(name, args string, run func() string) {
		cases[name] = append(cases[name], fixCase{args, run})
	}
	for _, s := range strs {
		for _, n := range []int{0, 1, 2, 3, 4, 7} {
			s, n := s, n
			add("FallJoin", cs(s)+" "+cz(int64(n)), func() string { return cz(int64(gtfix.FallJoin(s, n))) })
		}
	}
	for _, s := range append(strs, "h\xffé!l", "\xe2\x82", "日本語l!x", "\xf0\x9f\x98\x80") {
		s := s
		for _, n := range []int{0, 3, 100} {
			n := n
			add("BufJoin", cs(s)+" "+cz(int64(n)), func() string { return cs(gtfix.BufJoin(s, n)) })
		}
		add("RuneSum", stDec+" "+cs(s), func() string { return cz(int64(gtfix.RuneSum(s))) })
		add("RuneIdx", stDec+" "+cs(s), func() string { return cz(int64(gtfix.RuneIdx(s))) })
	}
	{
		named := func(s string) gtfix.Named {
			if s == "<nil>" {
				return nil
			}
			return gtfix.Lit(s)
		}
		optS := func(s string) string {
			if s == "<nil>" {
				return "None"
			}
			return "(Some " + cs(s) + ")"
		}
		for _, a := range []string{"<nil>", "", "a'b"} {
			for _, l := range [][]string{nil, {"x"}, {"x", "", "yz"}, {"x", "<nil>"}} {
				a, l := a, l
				w := &gtfix.Wrap{Name: "n" + a, A: named(a), N: len(l) - 1}
				var elems []string
				for _, e := range l {
					w.L = append(w.L, named(e))
					elems = append(elems, optS(e))
				}
				ls := "(@nil (option bstr))"
				if len(elems) > 0 {
					ls = "[" + strings.Join(elems, "; ") + "]"
				}
				astr := cs(a)
				if a == "<nil>" {
					astr = cs("junk")
				}
				args := cb(a == "<nil>") + " " + astr + " " + ls + " " + cs(w.Name) + " " + cz(int64(w.N))
				add("ShowWrap", args, func() string { return cs(gtfix.ShowWrap(w)) })
			}
		}
	}
	for _, x := range ints {
		x := x
		add("Fall", cz(int64(x)), func() string { return cz(int64(gtfix.Fall(x))) })
		add("Shadow", cz(int64(x)), func() string { return cz(int64(gtfix.Shadow(x))) })
		add("DivRem", cz(int64(x)), func() string { return cz(int64(gtfix.DivRem(x))) })
		add("DivNeg", cz(int64(x)), func() string { return cz(int64(gtfix.DivNeg(x))) })
		add("Conv", cz(int64(x)), func() string { return cz(int64(gtfix.Conv(x))) })
		add("Const", cz(int64(x)), func() string { return cz(int64(gtfix.Const(x))) })
		add("Lookup", cz(int64(x)), func() string { return cz(int64(gtfix.Lookup(x))) })
		add("LookupZero", cz(int64(x)), func() string { return cz(int64(gtfix.LookupZero(x))) })
		add("Panics", cz(int64(x)), func() string { return cz(int64(gtfix.Panics(x))) })
		add("CallPartial", cz(int64(x)), func() string { return cz(int64(gtfix.CallPartial(x))) })
		if x >= -128 && x <= 127 {
			a := int8(x)
			add("Neg", cz(int64(a)), func() string { return cz(int64(gtfix.Neg(a))) })
			for _, y := range []int8{-128, -1, 0, 1, 100, 127} {
				y := y
				add("Wrap8", cz(int64(a))+" "+cz(int64(y)), func() string { return cz(int64(gtfix.Wrap8(a, y))) })
			}
		}
		if x >= 0 && x <= 255 {
			a := uint8(x)
			for _, y := range []uint8{0, 1, 0x0f, 0xf0, 0xaa, 255} {
				y := y
				add("AndNot", cz(int64(a))+" "+cz(int64(y)), func() string { return cz(int64(gtfix.AndNot(a, y))) })
			}
		}
		if x >= 0 && x <= 1<<32-1 {
			a := uint32(x)
			add("WrapU32", cz(int64(a)), func() string { return cz(int64(gtfix.WrapU32(a))) })
			add("ConvS", cz(int64(a)), func() string { return cz(int64(gtfix.ConvS(a))) })
			add("Shift", cz(int64(a)), func() string { return cz(int64(gtfix.Shift(a))) })
		}
		if x >= -1<<31 && x <= 1<<31-1 {
			a := int32(x)
			add("SShift", cz(int64(a)), func() string { return cz(int64(gtfix.SShift(a))) })
		}
		if x >= 0 && x <= 5 {
			k := gtfix.Kind(x)
			add("Kind.Next", cz(int64(k)), func() string { return cz(int64(k.Next())) })
			add("UseMethod", cz(int64(k)), func() string { return cz(int64(gtfix.UseMethod(k))) })
		}
		for _, y := range []int{-6, -5, 0, 1, 1<<63 - 1} {
			y := y
			add("Multi", cz(int64(x))+" "+cz(int64(y)), func() string {
				a, b := gtfix.Multi(x, y)
				return "(" + cz(int64(a)) + ", " + cz(int64(b)) + ")"
			})
			add("Nested", cz(int64(x))+" "+cz(int64(y)), func() string { return cz(int64(gtfix.Nested(x, y))) })
		}
		for _, xs := range [][]int{nil, {1}, {-5, 3, 200, 4}, {1 << 40, 0}} {
			xs := xs
			add("Find", czs(xs)+" "+cz(int64(x)), func() string { return cz(int64(gtfix.Find(xs, x))) })
		}
	}
	for _, x := range []int{-3, 0, 1, 2, 3, 4, 7, 8, 9, 27, 30, 97} {
		x := x
		add("SumTo", cz(int64(x)), func() string { return cz(int64(gtfix.SumTo(x))) })
		add("ErrF", cz(int64(x)), func() string {
			v, err := gtfix.ErrF(x)
			return "(" + cz(int64(v)) + ", " + cb(err != nil) + ")"
		})
		add("UseErr", cz(int64(x)), func() string { return cz(int64(gtfix.UseErr(x))) })
		add("Evens", cz(int64(x)), func() string { return czs(gtfix.Evens(x)) })
		add("Collatz", cz(int64(x)), func() string { return cz(int64(gtfix.Collatz(x))) })
		add("Nest", cz(int64(x)), func() string { return cz(int64(gtfix.Nest(x))) })
		for _, xs := range [][]int{nil, {1}, {-5, 3, 200, 4}, {7, 0, 7, -1, 2}} {
			xs := xs
			add("RangeSum", czs(xs)+" "+cz(int64(x)), func() string { return cz(int64(gtfix.RangeSum(xs, x))) })
			add("IndexWalk", czs(xs)+" "+cz(int64(x)), func() string { return cz(int64(gtfix.IndexWalk(xs, x))) })
			add("IndexWalkRet", czs(xs)+" "+cz(int64(x)), func() string { return cz(int64(gtfix.IndexWalkRet(xs, x))) })
			add("RevWalkA", czs(xs)+" "+cz(int64(x)), func() string { return cz(int64(gtfix.RevWalkA(xs, x))) })
			add("RevWalkB", czs(xs)+" "+cz(int64(x)), func() string { return cz(int64(gtfix.RevWalkB(xs, x))) })
			add("RevWalkC", czs(xs)+" "+cz(int64(x)), func() string { return cz(int64(gtfix.RevWalkC(xs, x))) })
			add("RevWalkIdx", czs(xs)+" "+cz(int64(x)), func() string { return cz(int64(gtfix.RevWalkIdx(xs, x))) })
		}
		add("Script", "(@nil (list (bstr * Z))) "+cz(int64(x))+" "+cs("k"), func() string {
			st := gtfix.NewStack(x)
			a, b, c, d := gtfix.Script(st, "k")
			return "((@nil (list (bstr * Z))), " + cz(int64(st.N())) + ", " + cz(int64(a)) + ", " + cz(int64(b)) + ", " + cz(int64(c)) + ", " + cz(int64(d)) + ")"
		})
	}
	for _, xs := range [][]int{nil, {1}, {1, -2}, {-5, 3, 200, 4}, {7, 0, 7, -1, 2}} {
		xs := xs
		add("RangeIdx", czs(xs), func() string { return cz(int64(gtfix.RangeIdx(xs))) })
	}
	for _, k := range []string{"k", "x", ""} {
		for _, mark := range []bool{false, true} {
			k, mark := k, mark
			add("Script2", "(@nil ((list (bstr * Z)) * bool)) "+cs(k)+" "+cb(mark), func() string {
				var f gtfix.Frames
				a, b := gtfix.Script2(&f, k, mark)
				return "((@nil ((list (bstr * Z)) * bool)), " + cz(int64(a)) + ", " + cz(int64(b)) + ")"
			})
			add("Script3", "(@nil ((list (bstr * Z)) * bool)) "+cs(k)+" "+cb(mark), func() string {
				var f gtfix.Frames
				a, b := gtfix.Script3(&f, k, mark)
				return "((@nil ((list (bstr * Z)) * bool)), " + cz(int64(a)) + ", " + cz(int64(b)) + ")"
			})
		}
	}
	for _, s := range strs {
		s := s
		for _, i := range []int{-1, 0, 1, 2, 4, 5} {
			i := i
			add("LastByte", cs(s)+" "+cz(int64(i)), func() string { return cz(int64(gtfix.LastByte(s, i))) })
		}
		add("TagStr", cs(s), func() string { return cz(int64(gtfix.TagStr(s))) })
		add("Strs", cs(s), func() string { return cz(int64(gtfix.Strs(s))) })
		for _, c := range []byte{'a', '.', 0xc3} {
			c := c
			add("FindByte", cs(s)+" "+cz(int64(c)), func() string { return cb(gtfix.FindByte(s, c)) })
		}
		for _, i := range []int{-1, 0, 1, 2, 5, 6, 101} {
			i := i
			add("ShortCircuit", cs(s)+" "+cz(int64(i)), func() string { return cb(gtfix.ShortCircuit(s, i)) })
			add("Partial", cs(s)+" "+cz(int64(i)), func() string { return cb(gtfix.Partial(s, i)) })
			add("OrPartial", cs(s)+" "+cz(int64(i)), func() string { return cb(gtfix.OrPartial(s, i)) })
			for _, j := range []int{-1, 0, 1, 3, 6, 7} {
				j := j
				add("Slice", cs(s)+" "+cz(int64(i))+" "+cz(int64(j)), func() string { return cs(gtfix.Slice(s, i, j)) })
			}
			// rec{pos, name}: the flattened fields are passed in field order (pos, name)
			add("UseRec", cz(int64(i))+" "+cs(s)+" "+cz(int64(i+1)), func() string { return cz(int64(gtfix.UseRec(gtfix.NewRec(i, s), i+1))) })
		}
		for _, m := range []map[string]int{nil, {"a": 1}, {"": 5, "ab": -3}} {
			m := m
			var rows []string
			for _, k := range []string{"", "a", "ab"} {
				if v, ok := m[k]; ok {
					rows = append(rows, "("+cs(k)+", "+cz(int64(v))+")")
				}
			}
			ms := "(@nil (bstr * Z))"
			if len(rows) > 0 {
				ms = "[" + strings.Join(rows, "; ") + "]"
			}
			add("IfInit", ms+" "+cs(s), func() string { return cz(int64(gtfix.IfInit(m, s))) })
		}
	}

	// translate
	g := &gen{repo: ".", fset: token.NewFileSet(), files: map[string]*ast.File{}, js: map[string]interface{}{}}
	st := g.gtState()
	st.cfgs["gtfix:Collatz"] = &gtCfg{fuel: map[int]string{1: "x + 200"}}
	st.cfgs["gtfix:LastByte"] = &gtCfg{fuel: map[int]string{1: "i + 2"}}
	var defs strings.Builder
	var examples strings.Builder
	n := 0
	var names []string
	for name := range cases {
		names = append(names, name)
	}
	sortStrings(names)
	for _, name := range names {
		st.pending = nil
		var fn *gtFn
		func() {
			defer func() {
				if r := recover(); r != nil {
					if ge, ok := r.(gtErr); ok {
						t.Fatalf("%s: %s", name, ge.msg)
					}
					panic(r)
				}
			}()
			fn = st.translate(g, "gtfix", name, nil)
		}()
		if fn.status != 2 {
			t.Fatalf("%s: not translated: %s", name, fn.err)
		}
		for _, txt := range st.pending {
			defs.WriteString(txt)
		}
		for _, c := range cases[name] {
			want, ok := guard(c.run)
			switch {
			case !ok && !fn.partial:
				t.Fatalf("%s %s: Go panics but the translation is total", name, c.args)
			case !ok:
				want = "None"
			case fn.partial:
				want = "Some " + paren(want)
			}
			n++
			fmt.Fprintf(&examples, "Example ex%d : %s %s = %s.\nProof. vm_compute. reflexivity. Qed.\n", n, fn.coqName, c.args, want)
		}
	}
	if len(g.problem) > 0 {
		t.Fatalf("problems: %v", g.problem)
	}
	src := "From Soy Require Import Model.Bytes Model.Utf8.\nOpen Scope N_scope.\n\n" + gtPrelude + gtPrelude2 + defs.String() + "\n" + examples.String()

	coqDir := os.Getenv("VERIF_COQ")
	if coqDir == "" {
		coqDir, _ = filepath.Abs("../../../coq")
	}
	if _, err := exec.LookPath("coqc"); err != nil {
		t.Skip("coqc not found")
	}
	if _, err := os.Stat(filepath.Join(coqDir, "Model", "Bytes.vo")); err != nil {
		t.Skip("no built Coq tree at " + coqDir)
	}
	dir := t.TempDir()
	file := filepath.Join(dir, "GtFix.v")
	if err := os.WriteFile(file, []byte(src), 0o644); err != nil {
		t.Fatal(err)
	}
	cmd := exec.Command("timeout", "600", "coqc", "-Q", coqDir, "Soy", file)
	out, err := cmd.CombinedOutput()
	if err != nil {
		keep := filepath.Join(os.TempDir(), "GtFix-failed.v")
		os.WriteFile(keep, []byte(src), 0o644)
		t.Fatalf("coqc rejects the translated fixtures (%d examples; file kept at %s):\n%s", n, keep, out)
	}
	t.Logf("%d examples over %d functions checked by coqc", n, len(names))
}

func sortStrings(l []string) {
	for i := 1; i < len(l); i++ {
		for j := i; j > 0 && l[j] < l[j-1]; j-- {
			l[j], l[j-1] = l[j-1], l[j]
		}
	}
}
