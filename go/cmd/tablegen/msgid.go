package main

// Tables for C10 (message ids): everything in soymsg/id.go and
// soymsg/placeholder.go that is data or flat arithmetic.
//
//   hash32       initial constants, the word loads of the 12-byte loop, the
//                27-assignment mix block (as a Coq let-chain over mod 2^32),
//                the length addition and the fall-through tail switch;
//   fingerprint  the two seeds, the degenerate-value test and xor constants,
//                the combination of hi and lo;
//   calcID       the meaning mixing statement and the final mask;
//   htmlTagNames, the five regexps and their replacement templates.
//
// Control flow around these (the loop, the recursion of writeFingerprint,
// setPlaceholderNames) is modelled by hand in coq/Model/MsgId.v.  Every shape
// that is not recognised is reported with g.fail, never guessed.

import (
	"bytes"
	"fmt"
	"go/ast"
	"go/constant"
	"go/printer"
	"go/token"
	"sort"
	"strings"
)

func init() {
	register("40-msgid-hash", (*gen).msgidHash)
	register("41-msgid-fingerprint", (*gen).msgidFingerprint)
	register("42-msgid-placeholder", (*gen).msgidPlaceholder)
}

func (g *gen) src(n ast.Node) string {
	var buf bytes.Buffer
	printer.Fprint(&buf, g.fset, n)
	return strings.Join(strings.Fields(buf.String()), " ")
}

// ---- hash32 ----

type h32Term struct{ Off, Shift int64 }
type h32Load struct {
	Case   int64 // tail switch: the case label (0 for the loop loads)
	Target string
	Terms  []h32Term
}

// byteTerm recognises  uint32(str[i+K]&0xff) << S   and   uint32(str[i+K] & 0xff).
func (g *gen) byteTerm(e ast.Expr) (h32Term, bool) {
	var t h32Term
	for {
		p, ok := e.(*ast.ParenExpr)
		if !ok {
			break
		}
		e = p.X
	}
	if be, ok := e.(*ast.BinaryExpr); ok && be.Op == token.SHL {
		s, ok := intLit(be.Y)
		if !ok || s < 0 || s > 24 {
			return t, false
		}
		t.Shift = s
		e = be.X
	}
	call, ok := e.(*ast.CallExpr)
	if !ok || len(call.Args) != 1 {
		return t, false
	}
	if id, ok := call.Fun.(*ast.Ident); !ok || id.Name != "uint32" {
		return t, false
	}
	and, ok := call.Args[0].(*ast.BinaryExpr)
	if !ok || and.Op != token.AND {
		return t, false
	}
	if m, ok := intLit(and.Y); !ok || m != 0xff {
		return t, false
	}
	ix, ok := and.X.(*ast.IndexExpr)
	if !ok {
		return t, false
	}
	if id, ok := ix.X.(*ast.Ident); !ok || id.Name != "str" {
		return t, false
	}
	sum, ok := ix.Index.(*ast.BinaryExpr)
	if !ok || sum.Op != token.ADD {
		return t, false
	}
	if id, ok := sum.X.(*ast.Ident); !ok || id.Name != "i" {
		return t, false
	}
	off, ok := intLit(sum.Y)
	if !ok || off < 0 || off > 11 {
		return t, false
	}
	t.Off = off
	return t, true
}

// loadStmt recognises  x += term | term | ...
func (g *gen) loadStmt(s ast.Stmt) (h32Load, bool) {
	var l h32Load
	as, ok := s.(*ast.AssignStmt)
	if !ok || as.Tok != token.ADD_ASSIGN || len(as.Lhs) != 1 || len(as.Rhs) != 1 {
		return l, false
	}
	id, ok := as.Lhs[0].(*ast.Ident)
	if !ok || (id.Name != "a" && id.Name != "b" && id.Name != "c") {
		return l, false
	}
	l.Target = id.Name
	var collect func(e ast.Expr) bool
	collect = func(e ast.Expr) bool {
		if be, ok := e.(*ast.BinaryExpr); ok && be.Op == token.OR {
			return collect(be.X) && collect(be.Y)
		}
		t, ok := g.byteTerm(e)
		if ok {
			l.Terms = append(l.Terms, t)
		}
		return ok
	}
	if !collect(as.Rhs[0]) {
		return l, false
	}
	// the terms of one statement are or-ed: they must occupy disjoint bytes
	seen := map[int64]bool{}
	for _, t := range l.Terms {
		if t.Shift%8 != 0 || seen[t.Shift] {
			return l, false
		}
		seen[t.Shift] = true
	}
	return l, true
}

// mixStmt translates one statement of the mix block into a Coq let binding.
func (g *gen) mixStmt(s ast.Stmt) (string, bool) {
	as, ok := s.(*ast.AssignStmt)
	if !ok || len(as.Lhs) != 1 || len(as.Rhs) != 1 {
		return "", false
	}
	x, ok := as.Lhs[0].(*ast.Ident)
	if !ok || !isABC(x.Name) {
		return "", false
	}
	switch as.Tok {
	case token.SUB_ASSIGN:
		y, ok := as.Rhs[0].(*ast.Ident)
		if !ok || !isABC(y.Name) {
			return "", false
		}
		return fmt.Sprintf("let %s := sub32 %s %s in", x.Name, x.Name, y.Name), true
	case token.XOR_ASSIGN:
		e := as.Rhs[0]
		if p, ok := e.(*ast.ParenExpr); ok {
			e = p.X
		}
		be, ok := e.(*ast.BinaryExpr)
		if !ok || (be.Op != token.SHL && be.Op != token.SHR) {
			return "", false
		}
		y, ok := be.X.(*ast.Ident)
		if !ok || !isABC(y.Name) {
			return "", false
		}
		k, ok := intLit(be.Y)
		if !ok || k < 0 || k > 31 {
			return "", false
		}
		if be.Op == token.SHR {
			return fmt.Sprintf("let %s := N.lxor %s (N.shiftr %s %d) in", x.Name, x.Name, y.Name, k), true
		}
		return fmt.Sprintf("let %s := N.lxor %s (shl32 %s %d) in", x.Name, x.Name, y.Name, k), true
	}
	return "", false
}

func isABC(s string) bool { return s == "a" || s == "b" || s == "c" }

func targetCode(s string) int {
	return map[string]int{"a": 0, "b": 1, "c": 2}[s]
}

// h32Reference: the tables of the function the model computes when hash32's text is not of the recognised shape but
// gotrans translates it (Bob Jenkins' lookup2 hash as official Soy's fingerprint uses it: golden-ratio start values,
// three little-endian word loads per 12-byte block, the 27-assignment mix with shifts 13 8 13 12 16 5 3 10 15, the
// tail bytes 11..1 added to c (skipping its low byte), b and a).  Whether today's hash32 computes this function is then
// decided by Proofs/SourceTieMsgLoops.v hash32_matches_source, which is proved against the translated body.
func h32Reference() (initA, initB int64, lets, mixSrc []string, loopLoads, tailLoads []h32Load) {
	initA, initB = 0x9e3779b9, 0x9e3779b9
	shifts := []struct {
		k   int
		shl bool
	}{{13, false}, {8, true}, {13, false}, {12, false}, {16, true}, {5, false}, {3, false}, {10, true}, {15, false}}
	vars := []string{"a", "b", "c"}
	for i, sh := range shifts {
		x, y, z := vars[i%3], vars[(i+1)%3], vars[(i+2)%3]
		lets = append(lets, fmt.Sprintf("let %s := sub32 %s %s in", x, x, y), fmt.Sprintf("let %s := sub32 %s %s in", x, x, z))
		mixSrc = append(mixSrc, fmt.Sprintf("%s -= %s", x, y), fmt.Sprintf("%s -= %s", x, z))
		if sh.shl {
			lets = append(lets, fmt.Sprintf("let %s := N.lxor %s (shl32 %s %d) in", x, x, z, sh.k))
			mixSrc = append(mixSrc, fmt.Sprintf("%s ^= (%s << %d)", x, z, sh.k))
		} else {
			lets = append(lets, fmt.Sprintf("let %s := N.lxor %s (N.shiftr %s %d) in", x, x, z, sh.k))
			mixSrc = append(mixSrc, fmt.Sprintf("%s ^= (%s >> %d)", x, z, sh.k))
		}
	}
	for w, t := range vars {
		l := h32Load{Target: t}
		for j := 0; j < 4; j++ {
			l.Terms = append(l.Terms, h32Term{Off: int64(4*w + j), Shift: int64(8 * j)})
		}
		loopLoads = append(loopLoads, l)
	}
	for label := int64(11); label >= 1; label-- {
		off := label - 1
		l := h32Load{Case: label, Target: vars[off/4], Terms: []h32Term{{Off: off, Shift: 8 * (off % 4)}}}
		if off >= 8 {
			l.Terms[0].Shift = 8 * (off%4 + 1) // the low byte of c is taken by the length
		}
		tailLoads = append(tailLoads, l)
	}
	return
}

func (g *gen) msgidHash() {
	const rel = "soymsg/id.go"
	problems0 := len(g.problem)
	fd := g.funcDecl(rel, "hash32")
	var initA, initB int64 = -1, -1
	var loopLoads, tailLoads []h32Load
	var mixLoop, mixEnd []ast.Stmt
	sawLen, sawRet, sawLoop, sawSwitch := false, false, false, false
	if fd == nil {
		g.fail("hash32: function not found in %s", rel)
	} else {
		if got := g.src(fd.Type); got != "func(str []byte, start, limit int, c uint32) uint32" {
			g.fail("hash32: signature changed: %s", got)
		}
		for _, st := range fd.Body.List {
			txt := g.src(st)
			switch s := st.(type) {
			case *ast.DeclStmt:
				gd := s.Decl.(*ast.GenDecl)
				if len(gd.Specs) != 1 {
					g.fail("hash32: declaration %q", txt)
					continue
				}
				vs := gd.Specs[0].(*ast.ValueSpec)
				switch {
				case txt == "var i int":
				case len(vs.Names) == 1 && len(vs.Values) == 1 && g.src(vs.Type) == "uint32" && (vs.Names[0].Name == "a" || vs.Names[0].Name == "b"):
					v, ok := intLit(vs.Values[0])
					if !ok || v < 0 || v >= 1<<32 {
						g.fail("hash32: initial value of %s is not a 32-bit literal", vs.Names[0].Name)
						continue
					}
					if vs.Names[0].Name == "a" {
						initA = v
					} else {
						initB = v
					}
				default:
					g.fail("hash32: unexpected declaration %q", txt)
				}
			case *ast.ForStmt:
				sawLoop = true
				if g.src(s.Init) != "i = start" || g.src(s.Cond) != "i+12 <= limit" || g.src(s.Post) != "i += 12" {
					g.fail("hash32: loop header changed: for %s; %s; %s", g.src(s.Init), g.src(s.Cond), g.src(s.Post))
				}
				for _, b := range s.Body.List {
					if l, ok := g.loadStmt(b); ok && len(mixLoop) == 0 {
						loopLoads = append(loopLoads, l)
					} else {
						mixLoop = append(mixLoop, b)
					}
				}
			case *ast.AssignStmt:
				if sawSwitch || !sawLoop {
					mixEnd = append(mixEnd, st)
				} else if txt == "c += uint32(limit - start)" {
					sawLen = true
				} else {
					g.fail("hash32: unexpected statement between loop and switch: %q", txt)
				}
			case *ast.SwitchStmt:
				sawSwitch = true
				if g.src(s.Tag) != "limit - i" || s.Init != nil {
					g.fail("hash32: tail switch tag changed: %s", g.src(s.Tag))
				}
				n := len(s.Body.List)
				for ci, cc := range s.Body.List {
					c := cc.(*ast.CaseClause)
					if len(c.List) != 1 {
						g.fail("hash32: tail switch clause %d is default or has several labels", ci)
						continue
					}
					label, ok := intLit(c.List[0])
					if !ok {
						g.fail("hash32: tail switch label not an int literal")
						continue
					}
					// cases must come in decreasing order, each falling through to the next
					if label != int64(n-ci) {
						g.fail("hash32: tail switch labels are not %d..1 in decreasing order (clause %d has %d)", n, ci, label)
					}
					wantFall := ci < n-1
					body := c.Body
					if wantFall {
						if len(body) == 0 {
							g.fail("hash32: case %d empty", label)
							continue
						}
						if bs, ok := body[len(body)-1].(*ast.BranchStmt); !ok || bs.Tok != token.FALLTHROUGH {
							g.fail("hash32: case %d does not fall through", label)
						} else {
							body = body[:len(body)-1]
						}
					}
					if len(body) != 1 {
						g.fail("hash32: case %d is not a single addition", label)
						continue
					}
					l, ok := g.loadStmt(body[0])
					if !ok || len(l.Terms) != 1 {
						g.fail("hash32: case %d: cannot translate %q", label, g.src(body[0]))
						continue
					}
					if l.Terms[0].Off != label-1 {
						g.fail("hash32: case %d reads byte offset %d (a byte that may not exist)", label, l.Terms[0].Off)
					}
					l.Case = label
					tailLoads = append(tailLoads, l)
				}
			case *ast.ReturnStmt:
				sawRet = true
				if txt != "return c" {
					g.fail("hash32: returns %q, not c", txt)
				}
			default:
				g.fail("hash32: unexpected statement %q", txt)
			}
		}
	}
	if initA < 0 || initB < 0 {
		g.fail("hash32: initial constants of a and b not found")
		initA, initB = 0, 0
	}
	if !sawLoop || !sawSwitch || !sawLen || !sawRet {
		g.fail("hash32: expected loop, length addition, tail switch and return (loop=%v len=%v switch=%v return=%v)", sawLoop, sawLen, sawSwitch, sawRet)
	}
	// the loop must load 12 distinct bytes: a, b, c one little-endian word each
	if len(loopLoads) != 3 {
		g.fail("hash32: the loop body does not start with three word loads")
	}
	offs := map[int64]bool{}
	for _, l := range loopLoads {
		for _, t := range l.Terms {
			offs[t.Off] = true
		}
	}
	if len(offs) != 12 {
		g.fail("hash32: the loop loads %d distinct byte offsets, expected 12", len(offs))
	}
	// the two mix blocks
	render := func(l []ast.Stmt) string {
		var parts []string
		for _, s := range l {
			parts = append(parts, g.src(s))
		}
		return strings.Join(parts, "; ")
	}
	if render(mixLoop) != render(mixEnd) {
		g.fail("hash32: the mix block of the loop and the final mix block differ")
	}
	if len(mixEnd) != 27 {
		g.fail("hash32: the mix block has %d assignments, expected 27", len(mixEnd))
	}
	var lets, mixSrc []string
	for _, s := range mixEnd {
		l, ok := g.mixStmt(s)
		if !ok {
			g.fail("hash32: cannot translate mix statement %q", g.src(s))
			continue
		}
		lets = append(lets, l)
		mixSrc = append(mixSrc, g.src(s))
	}
	if len(g.problem) > problems0 && fd != nil &&
		g.gotransCovers("soymsg", "hash32", &gtCfg{fuel: map[int]string{1: "limit - start + 1"}}) {
		// not the textual shape this generator reads, but gotrans translates the function: the model is built from the
		// reference tables and hash32_matches_source (proved against the translation) is what ties it to the source
		g.problem = g.problem[:problems0]
		initA, initB, lets, mixSrc, loopLoads, tailLoads = h32Reference()
		g.p("(* hash32 is not written in the shape generator 40 reads: REFERENCE tables; Proofs/SourceTieMsgLoops.v decides *)\n")
	}

	g.p("(* soymsg/id.go hash32 *)\n")
	g.p("Definition h32_init_a : N := %d.\nDefinition h32_init_b : N := %d.\n", initA, initB)
	g.p("Definition sub32 (x y : N) : N := (x + 4294967296 - y mod 4294967296) mod 4294967296.\n")
	g.p("Definition shl32 (x k : N) : N := (N.shiftl x k) mod 4294967296.\n")
	g.p("(* the mix block (identical in the loop and at the end), one let per Go assignment *)\n")
	g.p("Definition mix (a b c : N) : N * N * N :=\n")
	for i, l := range lets {
		g.p("  %s (* %s *)\n", l, mixSrc[i])
	}
	g.p("  (a, b, c).\n")
	emitLoads := func(name, comment string, ls []h32Load, withCase bool) {
		g.p("(* %s *)\n", comment)
		if withCase {
			g.p("Definition %s : list (N * (N * list (N * N))) := [", name)
		} else {
			g.p("Definition %s : list (N * list (N * N)) := [", name)
		}
		for i, l := range ls {
			if i > 0 {
				g.p("; ")
			}
			var ts []string
			for _, t := range l.Terms {
				ts = append(ts, fmt.Sprintf("(%d, %d)", t.Off, t.Shift))
			}
			if withCase {
				g.p("(%d, (%d, [%s]))", l.Case, targetCode(l.Target), strings.Join(ts, "; "))
			} else {
				g.p("(%d, [%s])", targetCode(l.Target), strings.Join(ts, "; "))
			}
		}
		g.p("].\n")
	}
	emitLoads("h32_loop_loads", "loop: (target 0=a 1=b 2=c, [(byte offset, shift)] or-ed together) added to the target", loopLoads, false)
	emitLoads("h32_tail_loads", "tail switch on the number of remaining bytes, cases fall through: (case label, (target, [(byte offset, shift)]))", tailLoads, true)
	g.p("\n")
	g.js["h32"] = map[string]interface{}{"init_a": initA, "init_b": initB, "mix": mixSrc, "loop_loads": loopLoads, "tail_loads": tailLoads}
}

// ---- fingerprint and calcID ----

func (g *gen) msgidFingerprint() {
	const rel = "soymsg/id.go"
	var seeds []int64
	var xorHi, xorLo int64 = -1, -1
	if fd := g.funcDecl(rel, "fingerprint"); fd == nil {
		g.fail("fingerprint: function not found")
	} else {
		// Where gotrans translates the function (family 75: fingerprint_matches_source / calc_id_matches_source are then
		// proved against today's body, whatever its shape), only the VALUES are read here, by role and not by the exact
		// text: the seeds are the constant last arguments of the two hash32 calls, "hi" is the one whose variable is
		// shifted left by 32 in the result (else the one named hi, else the first), the xor constants are those combined
		// with ^ into these two variables.  The textual shape checks remain only as the fallback when gotrans refuses.
		covered := g.gotransCovers("soymsg", "fingerprint", &gtCfg{abstract: []string{"hash32"}})
		seedOf := map[string]int64{}
		var order []string
		xorOf := map[string]int64{}
		konst := func(e ast.Expr) (int64, bool) {
			if v, ok := intLit(e); ok {
				return v, true
			}
			p := g.gtPkg("soymsg")
			var v constant.Value
			var ok bool
			func() {
				defer func() { recover() }()
				v, _, ok = g.constEval(p, p.funcIn["fingerprint"], e, -1, nil)
			}()
			if ok && v != nil && v.Kind() == constant.Int {
				if n, exact := constant.Int64Val(v); exact {
					return n, true
				}
			}
			return 0, false
		}
		noteSeed := func(name string, val ast.Expr, txt string) {
			call, ok := unparen(val).(*ast.CallExpr)
			if !ok || len(call.Args) != 4 || g.src(call.Fun) != "hash32" {
				if !covered {
					g.fail("fingerprint: %q is not hash32(str, 0, len(str), seed)", txt)
				}
				return
			}
			if !covered && (g.src(call.Args[0]) != "str" || g.src(call.Args[1]) != "0" || g.src(call.Args[2]) != "len(str)") {
				g.fail("fingerprint: %q is not hash32(str, 0, len(str), seed)", txt)
				return
			}
			seed, ok := konst(call.Args[3])
			if !ok || seed < 0 || seed >= 1<<32 {
				g.fail("fingerprint: seed in %q is not a 32-bit constant", txt)
				return
			}
			if _, dup := seedOf[name]; !dup {
				order = append(order, name)
			}
			seedOf[name] = seed
		}
		noteXor := func(b ast.Stmt) {
			as, ok := b.(*ast.AssignStmt)
			if !ok || len(as.Lhs) != 1 || len(as.Rhs) != 1 {
				if !covered {
					g.fail("fingerprint: unexpected statement %q", g.src(b))
				}
				return
			}
			name := g.src(as.Lhs[0])
			var c ast.Expr
			switch {
			case as.Tok == token.XOR_ASSIGN:
				c = as.Rhs[0]
			case as.Tok == token.ASSIGN:
				if be, ok := unparen(as.Rhs[0]).(*ast.BinaryExpr); ok && be.Op == token.XOR {
					if g.src(be.X) == name {
						c = be.Y
					} else if g.src(be.Y) == name {
						c = be.X
					}
				}
			}
			if c == nil {
				if !covered {
					g.fail("fingerprint: unexpected statement %q", g.src(b))
				}
				return
			}
			v, ok := konst(c)
			if !ok || v < 0 || v >= 1<<32 {
				g.fail("fingerprint: xor constant in %q", g.src(b))
				return
			}
			xorOf[name] = v
		}
		hiName := ""
		ast.Inspect(fd.Body, func(n ast.Node) bool {
			switch s := n.(type) {
			case *ast.ValueSpec:
				for i, nm := range s.Names {
					if i < len(s.Values) && len(s.Values) == len(s.Names) {
						if c, ok := unparen(s.Values[i]).(*ast.CallExpr); ok && g.src(c.Fun) == "hash32" {
							noteSeed(nm.Name, s.Values[i], g.src(s))
						}
					}
				}
			case *ast.AssignStmt:
				if s.Tok == token.DEFINE && len(s.Lhs) == len(s.Rhs) {
					for i, l := range s.Lhs {
						if c, ok := unparen(s.Rhs[i]).(*ast.CallExpr); ok && g.src(c.Fun) == "hash32" {
							noteSeed(g.src(l), s.Rhs[i], g.src(s))
						}
					}
				}
			case *ast.IfStmt:
				if !covered && (g.src(s.Cond) != "(hi == 0) && (lo == 0 || lo == 1)" || s.Else != nil || s.Init != nil) {
					g.fail("fingerprint: degenerate-value test changed: %s", g.src(s.Cond))
				}
				for _, b := range s.Body.List {
					noteXor(b)
				}
			case *ast.ReturnStmt:
				if !covered && g.src(s) != "return (uint64(hi) << 32) | uint64(lo&0xffffffff)" {
					g.fail("fingerprint: return expression changed: %s", g.src(s))
				}
				ast.Inspect(s, func(m ast.Node) bool {
					if be, ok := m.(*ast.BinaryExpr); ok && be.Op == token.SHL && g.src(be.Y) == "32" {
						ast.Inspect(be.X, func(k ast.Node) bool {
							if id, ok := k.(*ast.Ident); ok {
								if _, isSeed := seedOf[id.Name]; isSeed {
									hiName = id.Name
								}
							}
							return true
						})
					}
					return true
				})
			}
			return true
		})
		if hiName == "" {
			if _, ok := seedOf["hi"]; ok {
				hiName = "hi"
			} else if len(order) > 0 {
				hiName = order[0]
			}
		}
		loName := ""
		for _, n := range order {
			if n != hiName {
				loName = n
			}
		}
		hi, ok1 := seedOf[hiName]
		lo, ok2 := seedOf[loName]
		if !ok1 || !ok2 || len(seedOf) != 2 {
			g.fail("fingerprint: the two hash32 seeds not found")
		}
		seeds = []int64{hi, lo}
		if v, ok := xorOf[hiName]; ok {
			xorHi = v
		}
		if v, ok := xorOf[loName]; ok {
			xorLo = v
		}
	}
	if len(seeds) != 2 {
		seeds = []int64{0, 0}
	}
	if xorHi < 0 || xorLo < 0 {
		g.fail("fingerprint: xor constants not found")
		xorHi, xorLo = 0, 0
	}
	// calcID
	var mask uint64
	maskFound := false
	if fd := g.funcDecl(rel, "calcID"); fd == nil {
		g.fail("calcID: function not found")
	} else {
		var stmts []string
		for _, st := range fd.Body.List {
			stmts = append(stmts, g.src(st))
			if rs, ok := st.(*ast.ReturnStmt); ok && len(rs.Results) == 1 {
				if be, ok := unparen(rs.Results[0]).(*ast.BinaryExpr); ok && be.Op == token.AND {
					for _, side := range []ast.Expr{be.Y, be.X} {
						p := g.gtPkg("soymsg")
						var v constant.Value
						var isC bool
						func() {
							defer func() { recover() }()
							v, _, isC = g.constEval(p, p.funcIn["calcID"], side, -1, func(n string) bool { return n == "fp" || n == "n" || n == "buf" })
						}()
						if isC && v != nil && v.Kind() == constant.Int {
							if u, exact := constant.Uint64Val(v); exact && !maskFound {
								mask, maskFound = u, true
							}
						}
					}
				}
			}
		}
		want := []string{
			"var buf bytes.Buffer",
			"writeFingerprint(&buf, n, false)",
			"var fp = fingerprint(buf.Bytes())",
			"if n.Meaning != \"\" { var topbit uint64 if fp&(1<<63) > 0 { topbit = 1 } fp = (fp << 1) + topbit + fingerprint([]byte(n.Meaning)) }",
		}
		// what follows `var fp = ...` is tied by gotrans (calc_id_matches_source) when it translates that fragment
		tailCovered := g.gotransCovers("soymsg", "calcID", &gtCfg{afterDecl: "fp", fragVars: [][2]string{{"fp", "uint64"}}, suffix: "tail"})
		if tailCovered {
			want = want[:3]
			if len(stmts) < 4 {
				g.fail("calcID: body has %d statements, expected at least 4", len(stmts))
			} else {
				for i, w := range want {
					if stmts[i] != w {
						g.fail("calcID: statement %d changed: %s", i, stmts[i])
					}
				}
			}
		} else if len(stmts) != len(want)+1 {
			g.fail("calcID: body has %d statements, expected %d", len(stmts), len(want)+1)
		} else {
			for i, w := range want {
				if stmts[i] != w {
					g.fail("calcID: statement %d changed: %s", i, stmts[i])
				}
			}
		}
	}
	if !maskFound {
		g.fail("calcID: final mask not found (return fp & <hex literal>)")
	}
	g.p("(* soymsg/id.go fingerprint: seeds of the two hash32 runs, xor constants of the degenerate case; calcID: final mask *)\n")
	g.p("Definition fp_seed_hi : N := %d.\nDefinition fp_seed_lo : N := %d.\n", seeds[0], seeds[1])
	g.p("Definition fp_xor_hi : N := %d.\nDefinition fp_xor_lo : N := %d.\n", xorHi, xorLo)
	g.p("Definition calc_id_mask : N := %d.\n\n", mask)
	g.js["fingerprint"] = map[string]interface{}{"seed_hi": seeds[0], "seed_lo": seeds[1], "xor_hi": xorHi, "xor_lo": xorLo, "mask": fmt.Sprint(mask)}
}

// ---- placeholder.go ----

func (g *gen) msgidPlaceholder() {
	const rel = "soymsg/placeholder.go"
	type kv struct{ K, V string }
	var rows []kv
	if cl, ok := g.varValue(rel, "htmlTagNames").(*ast.CompositeLit); !ok {
		g.fail("htmlTagNames: not a composite literal")
	} else {
		seen := map[string]bool{}
		for _, el := range cl.Elts {
			e, ok := el.(*ast.KeyValueExpr)
			if !ok {
				g.fail("htmlTagNames: entry not key:value")
				continue
			}
			k, ok1 := strLit(e.Key)
			v, ok2 := strLit(e.Value)
			if !ok1 || !ok2 || seen[k] {
				g.fail("htmlTagNames: entry %s is not a pair of string literals with a fresh key", g.src(el))
				continue
			}
			seen[k] = true
			rows = append(rows, kv{k, v})
		}
	}
	sort.Slice(rows, func(i, j int) bool { return rows[i].K < rows[j].K })
	g.p("(* soymsg/placeholder.go htmlTagNames *)\n")
	g.p("Definition html_tag_names : list (bstr * bstr) := [\n")
	js := map[string]string{}
	for i, r := range rows {
		sep := ";"
		if i == len(rows)-1 {
			sep = ""
		}
		g.p("  (%s, %s)%s (* %s -> %s *)\n", coqBytes(r.K), coqBytes(r.V), sep, r.K, r.V)
		js[r.K] = r.V
	}
	g.p("].\n")
	g.js["html_tag_names"] = js

	// the regexps of toUpperUnderscore are modelled by hand-written matchers
	// (Model/MsgId.v); their source text is pinned here.
	want := [][2]string{
		{"leadingOrTrailing_", "^_+|_+$"},
		{"consecutive_", "__+"},
		{"wordBoundary1", "([a-zA-Z])([A-Z][a-z])"},
		{"wordBoundary2", "([a-zA-Z])([0-9])"},
		{"wordBoundary3", "([0-9])([a-zA-Z])"},
	}
	g.p("(* the regexps used by toUpperUnderscore, as found in the source (name, pattern) *)\n")
	g.p("Definition msg_regex_sources : list (bstr * bstr) := [")
	jsre := map[string]string{}
	for i, w := range want {
		pat := ""
		call, ok := g.varValue(rel, w[0]).(*ast.CallExpr)
		if ok && g.src(call.Fun) == "regexp.MustCompile" && len(call.Args) == 1 {
			pat, ok = strLit(call.Args[0])
		}
		if !ok {
			g.fail("%s: not regexp.MustCompile(<string literal>)", w[0])
		} else if pat != w[1] {
			g.fail("%s: pattern is %q, the hand-modelled matcher implements %q", w[0], pat, w[1])
		}
		if i > 0 {
			g.p("; ")
		}
		g.p("(%s, %s)", coqBytes(w[0]), coqBytes(pat))
		jsre[w[0]] = pat
	}
	g.p("].\n")
	g.js["msg_regex_sources"] = jsre
	wantBody := "{ ident = leadingOrTrailing_.ReplaceAllString(ident, \"\") ident = consecutive_.ReplaceAllString(ident, \"${1}_${2}\") ident = wordBoundary1.ReplaceAllString(ident, \"${1}_${2}\") ident = wordBoundary2.ReplaceAllString(ident, \"${1}_${2}\") ident = wordBoundary3.ReplaceAllString(ident, \"${1}_${2}\") return strings.ToUpper(ident) }"
	if fd := g.funcDecl(rel, "toUpperUnderscore"); fd == nil {
		g.fail("toUpperUnderscore: function not found")
	} else if g.gotransCovers("soymsg", "toUpperUnderscore", nil) {
		// tied by gotrans: to_upper_underscore_matches_source (Proofs/SourceTieMsgLoops.v) is proved against today's body
		// (the order of the replacements and their templates), whatever its text
	} else if got := g.src(fd.Body); got != wantBody {
		g.fail("toUpperUnderscore: body changed (the order of the replacements and their templates are modelled by hand): %s", got)
	}
	// tagName's three tag types and isAlphaNumeric's ranges
	if fd := g.funcDecl(rel, "isAlphaNumeric"); fd == nil {
		g.fail("isAlphaNumeric: function not found")
	} else if g.gotransCovers("soymsg", "isAlphaNumeric", nil) {
		// tied by gotrans: c_alnum_matches_source (Proofs/SourceTieMsg.v) is proved against today's body, whatever its shape
	} else if got := g.src(fd.Body); got != "{ return 'A' <= r && r <= 'Z' || 'a' <= r && r <= 'z' || '0' <= r && r <= '9' }" {
		g.fail("isAlphaNumeric: body changed: %s", got)
	}
	var types []string
	if fd := g.funcDecl(rel, "tagName"); fd == nil {
		g.fail("tagName: function not found")
	} else {
		ast.Inspect(fd.Body, func(n ast.Node) bool {
			if as, ok := n.(*ast.AssignStmt); ok && len(as.Lhs) == 1 && g.src(as.Lhs[0]) == "tagType" {
				if s, ok := strLit(as.Rhs[0]); ok {
					types = append(types, s)
				} else {
					g.fail("tagName: tagType assigned a non-literal")
				}
			}
			return true
		})
		if len(types) != 3 {
			g.fail("tagName: expected three tagType assignments (end, self-closing, start), found %d", len(types))
			types = []string{"", "", ""}
		}
	}
	if len(types) != 3 {
		types = []string{"", "", ""}
	}
	g.p("(* tagName: prefix for </x>, for <x/>, and otherwise *)\n")
	g.p("Definition tag_type_end : bstr := %s.\nDefinition tag_type_selfclosing : bstr := %s.\nDefinition tag_type_start : bstr := %s.\n\n",
		coqBytes(types[0]), coqBytes(types[1]), coqBytes(types[2]))
	g.js["tag_types"] = types
}

// gotransCovers: does gotrans translate this function (or fragment) of today's source?  A throw-away translation: what
// is emitted comes from the gotrans families themselves.
func (g *gen) gotransCovers(dir, key string, cfg *gtCfg) (ok bool) {
	st := &gtState{fns: map[string]*gtFn{}, cfgs: map[string]*gtCfg{}, tables: map[string]*gtype{}, placeholders: map[string]bool{}, loopTexts: map[string]string{}, joins: g.gtState().joins}
	for k, v := range g.gtState().cfgs {
		st.cfgs[k] = v
	}
	defer func() {
		if r := recover(); r != nil {
			if _, isGt := r.(gtErr); !isGt {
				panic(r)
			}
			ok = false
		}
	}()
	fn := st.translateCfg(g, dir, key, cfg, nil)
	return fn.status == 2
}
