package main

import (
	"fmt"
	"strings"
	"unicode"
)

func init() {
	register("16-unicode-isprint", (*gen).unicodeIsPrint)
}

// unicodeIsPrint evaluates the toolchain's unicode.IsPrint on every code
// point 0..0x10FFFF (plus the values text/template.JSEscape can pass: runes
// produced by utf8.DecodeRune are always in that interval) and emits the
// maximal true-ranges.  Nothing is guessed: this is the function JSEscape
// calls, evaluated, not a transcription of the Unicode tables.
func (g *gen) unicodeIsPrint() {
	type rg struct{ lo, hi rune }
	var rs []rg
	in := false
	var lo rune
	for r := rune(0); r <= unicode.MaxRune; r++ {
		p := unicode.IsPrint(r)
		if p && !in {
			in, lo = true, r
		}
		if !p && in {
			in = false
			rs = append(rs, rg{lo, r - 1})
		}
	}
	if in {
		rs = append(rs, rg{lo, unicode.MaxRune})
	}
	if len(rs) == 0 {
		g.fail("unicode.IsPrint: no printable code point found")
	}
	g.p("(* unicode.IsPrint of the Go toolchain (Unicode %s), evaluated on 0..0x10FFFF: maximal true-ranges (lo, hi) *)\n", unicode.Version)
	g.p("Definition is_print_ranges : list (N * N) := [\n")
	var sb strings.Builder
	js := make([][2]int, 0, len(rs))
	for i, r := range rs {
		if i > 0 {
			sb.WriteString("; ")
			if i%8 == 0 {
				sb.WriteString("\n ")
			}
		} else {
			sb.WriteString(" ")
		}
		fmt.Fprintf(&sb, "(%d, %d)", r.lo, r.hi)
		js = append(js, [2]int{int(r.lo), int(r.hi)})
	}
	g.p("%s\n].\n", sb.String())
	g.p("Definition is_print_tbl (r : N) : bool := existsb (fun p => (fst p <=? r) && (r <=? snd p)) is_print_ranges.\n\n")
	g.js["is_print_ranges"] = js
	g.js["unicode_version"] = unicode.Version
}
