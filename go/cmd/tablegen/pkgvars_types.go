package main

// C09, package-level state (see pkgvars.go): loading and type-checking the non-test sources of the
// repository with go/types, and the predicates on types the enumeration uses.
//
// Packages of the repository's module are parsed and type-checked from the -repo directory (non-test
// files; build constraints are honoured for one tag set at a time, see pvConfigs); every other import
// (standard library, third-party modules) comes from compiler export data: `go list -export -deps` run
// inside the repository (offline: GOFLAGS=-mod=mod GOPROXY=off), with the "source" importer as the
// fall-back.

import (
	"bytes"
	"fmt"
	"go/ast"
	"go/build"
	"go/importer"
	"go/parser"
	"go/token"
	"go/types"
	"io"
	"os"
	"os/exec"
	"path/filepath"
	"sort"
	"strings"
)

// one parsed source file (parsed once, shared by the tag sets)
type pvSrc struct {
	dir  string // package directory relative to the repository ("." for the root)
	base string // file name
	rel  string // repository-relative file name
	f    *ast.File
}

type pvPkg struct {
	dir   string
	path  string // import path
	srcs  []*pvSrc
	files []*ast.File
	pkg   *types.Package
	info  *types.Info
}

// the sources of the repository and the importer of everything else
type pvSources struct {
	g    *gen
	repo string
	mod  string // module path (go.mod), "github.com/robfig/soy"
	fset *token.FileSet
	srcs map[string][]*pvSrc // by directory
	dirs []string
	ext  types.Importer
}

// one type-checked view of the repository: the files matching one set of build tags
type pvWorld struct {
	*pvSources
	tags    []string
	ctx     build.Context
	pkgs    map[string]*pvPkg // by import path
	loading map[string]bool
	errs    []string
}

func pvGoEnv() []string {
	return append(os.Environ(), "GOFLAGS=-mod=mod", "GOPROXY=off", "GOSUMDB=off", "GOTOOLCHAIN=local")
}

func pvModulePath(repo string) string {
	bs, err := os.ReadFile(filepath.Join(repo, "go.mod"))
	if err == nil {
		for _, l := range strings.Split(string(bs), "\n") {
			l = strings.TrimSpace(l)
			if strings.HasPrefix(l, "module ") {
				return strings.Trim(strings.TrimSpace(strings.TrimPrefix(l, "module ")), `"`)
			}
		}
	}
	return "github.com/robfig/soy"
}

// pvLoadSources parses every non-test Go file of the repository (directories .git, testdata and lib are
// skipped, commands are included) and prepares the importer of the packages outside the module.
func pvLoadSources(g *gen) *pvSources {
	repo, err := filepath.Abs(g.repo)
	if err != nil {
		repo = g.repo
	}
	s := &pvSources{g: g, repo: repo, mod: pvModulePath(repo), fset: token.NewFileSet(), srcs: map[string][]*pvSrc{}}
	external := map[string]bool{}
	filepath.Walk(repo, func(path string, info os.FileInfo, err error) error {
		if err != nil {
			return nil
		}
		if info.IsDir() {
			if n := info.Name(); n == ".git" || n == "testdata" || n == "lib" {
				return filepath.SkipDir
			}
			return nil
		}
		if !strings.HasSuffix(path, ".go") || strings.HasSuffix(path, "_test.go") {
			return nil
		}
		f, err := parser.ParseFile(s.fset, path, nil, parser.ParseComments)
		if err != nil {
			g.fail("pkgvars: %s does not parse", path)
			return nil
		}
		rel, _ := filepath.Rel(repo, path)
		dir := filepath.Dir(rel)
		s.srcs[dir] = append(s.srcs[dir], &pvSrc{dir: dir, base: filepath.Base(rel), rel: rel, f: f})
		for _, im := range f.Imports {
			p := strings.Trim(im.Path.Value, "\"`")
			if !s.inModule(p) && p != "C" && p != "unsafe" {
				external[p] = true
			}
		}
		return nil
	})
	for d := range s.srcs {
		s.dirs = append(s.dirs, d)
		sort.Slice(s.srcs[d], func(i, j int) bool { return s.srcs[d][i].rel < s.srcs[d][j].rel })
	}
	sort.Strings(s.dirs)
	var paths []string
	for p := range external {
		paths = append(paths, p)
	}
	sort.Strings(paths)
	s.ext = s.externalImporter(paths)
	return s
}

func (s *pvSources) inModule(path string) bool {
	return path == s.mod || strings.HasPrefix(path, s.mod+"/")
}

func (s *pvSources) importPath(dir string) string {
	if dir == "." {
		return s.mod
	}
	return s.mod + "/" + filepath.ToSlash(dir)
}

// externalImporter: export data of the packages outside the module, located by `go list -export -deps`
// (compiled into the build cache when they are not there yet); the "source" importer when that fails.
func (s *pvSources) externalImporter(paths []string) types.Importer {
	source := func() types.Importer {
		build.Default.Dir = s.repo // go/build runs `go list` there to locate the packages of other modules
		for _, kv := range pvGoEnv()[len(os.Environ()):] {
			if i := strings.IndexByte(kv, '='); i > 0 {
				os.Setenv(kv[:i], kv[i+1:])
			}
		}
		return importer.ForCompiler(s.fset, "source", nil)
	}
	if len(paths) == 0 {
		return source()
	}
	args := append([]string{"list", "-e", "-export", "-deps", "-f", "{{.ImportPath}}\t{{.Export}}", "--"}, paths...)
	cmd := exec.Command("go", args...)
	cmd.Dir = s.repo
	cmd.Env = pvGoEnv()
	var stderr bytes.Buffer
	cmd.Stderr = &stderr
	out, err := cmd.Output()
	exports := map[string]string{}
	for _, l := range strings.Split(string(out), "\n") {
		if i := strings.IndexByte(l, '\t'); i > 0 && l[i+1:] != "" {
			exports[l[:i]] = l[i+1:]
		}
	}
	ok := err == nil
	for _, p := range paths {
		if exports[p] == "" {
			ok = false
		}
	}
	if !ok {
		return source()
	}
	lookup := func(path string) (io.ReadCloser, error) {
		f, ok := exports[path]
		if !ok {
			return nil, fmt.Errorf("no export data for %s", path)
		}
		return os.Open(f)
	}
	return importer.ForCompiler(s.fset, "gc", lookup)
}

// the file set of a directory under a tag set
func (s *pvSources) match(ctx *build.Context, dir string) []*pvSrc {
	var l []*pvSrc
	for _, src := range s.srcs[dir] {
		if ok, err := ctx.MatchFile(filepath.Join(s.repo, dir), src.base); ok && err == nil {
			l = append(l, src)
		}
	}
	return l
}

// pvConfigs: the tag sets to enumerate under.  The first is the default build plus the tag `verif` (the
// verification hooks of the repository, //go:build verif, are part of the reviewed sources); the plain
// default build follows when it selects other files (//go:build !verif).  A file no tag set selects is
// reported as untranslatable.
func (s *pvSources) configs() [][]string {
	cfgs := [][]string{{"verif"}}
	sets := func(tags []string) string {
		ctx := build.Default
		ctx.BuildTags = tags
		var b strings.Builder
		for _, d := range s.dirs {
			for _, src := range s.match(&ctx, d) {
				b.WriteString(src.rel + "\n")
			}
		}
		return b.String()
	}
	a, d := sets(cfgs[0]), sets(nil)
	if a != d {
		cfgs = append(cfgs, nil)
	}
	for _, dir := range s.dirs {
		for _, src := range s.srcs[dir] {
			if !strings.Contains(a, src.rel+"\n") && !strings.Contains(d, src.rel+"\n") {
				s.g.fail("pkgvars: %s is selected neither by the default build nor with the tag verif: not enumerated", src.rel)
			}
		}
	}
	return cfgs
}

func (s *pvSources) world(tags []string) *pvWorld {
	w := &pvWorld{pvSources: s, tags: tags, ctx: build.Default, pkgs: map[string]*pvPkg{}, loading: map[string]bool{}}
	w.ctx.BuildTags = tags
	for _, d := range s.dirs {
		w.load(s.importPath(d))
	}
	return w
}

func (w *pvWorld) Import(path string) (*types.Package, error) { return w.ImportFrom(path, w.repo, 0) }

func (w *pvWorld) ImportFrom(path, srcDir string, mode types.ImportMode) (*types.Package, error) {
	if path == "unsafe" {
		return types.Unsafe, nil
	}
	if w.inModule(path) {
		p := w.load(path)
		if p == nil || p.pkg == nil {
			return nil, fmt.Errorf("package %s of the repository cannot be loaded", path)
		}
		return p.pkg, nil
	}
	if from, ok := w.ext.(types.ImporterFrom); ok {
		return from.ImportFrom(path, w.repo, 0)
	}
	return w.ext.Import(path)
}

func (w *pvWorld) load(path string) *pvPkg {
	if p, ok := w.pkgs[path]; ok {
		return p
	}
	if w.loading[path] {
		w.errs = append(w.errs, "import cycle through "+path)
		return nil
	}
	w.loading[path] = true
	defer delete(w.loading, path)
	dir := filepath.FromSlash(strings.TrimPrefix(strings.TrimPrefix(path, w.mod), "/"))
	if dir == "" {
		dir = "."
	}
	p := &pvPkg{dir: dir, path: path, srcs: w.match(&w.ctx, dir)}
	w.pkgs[path] = p
	if len(p.srcs) == 0 {
		return p
	}
	for _, s := range p.srcs {
		p.files = append(p.files, s.f)
	}
	p.info = &types.Info{
		Types:      map[ast.Expr]types.TypeAndValue{},
		Defs:       map[*ast.Ident]types.Object{},
		Uses:       map[*ast.Ident]types.Object{},
		Implicits:  map[ast.Node]types.Object{},
		Selections: map[*ast.SelectorExpr]*types.Selection{},
	}
	cfg := types.Config{Importer: w, Error: func(err error) {
		if len(w.errs) < 8 {
			w.errs = append(w.errs, err.Error())
		}
	}}
	p.pkg, _ = cfg.Check(path, w.fset, p.files, p.info)
	return p
}

// the packages of this view, by directory
func (w *pvWorld) packages() []*pvPkg {
	var l []*pvPkg
	for _, p := range w.pkgs {
		if p.pkg != nil {
			l = append(l, p)
		}
	}
	sort.Slice(l, func(i, j int) bool { return l[i].dir < l[j].dir })
	return l
}

// ---------------------------------------------------------------------------------------------------
// predicates on types

func pvNamed(t types.Type) *types.Named {
	if a, ok := t.(*types.Alias); ok {
		t = types.Unalias(a)
	}
	n, _ := t.(*types.Named)
	return n
}

func pvPkgPathOf(n *types.Named) string {
	if n == nil || n.Obj() == nil || n.Obj().Pkg() == nil {
		return ""
	}
	return n.Obj().Pkg().Path()
}

type pvTypes struct {
	s      *pvSources
	refs   map[types.Type]bool
	shared map[types.Type]bool
}

func (s *pvSources) newTypes() *pvTypes {
	return &pvTypes{s: s, refs: map[types.Type]bool{}, shared: map[types.Type]bool{}}
}

// the packages whose types are the compiled, shared state of the renderer and the generator: syntax
// trees, the registry and its templates, message bundles
func (pt *pvTypes) sharedPkg(path string) bool {
	return path == pt.s.mod+"/ast" || path == pt.s.mod+"/template" || path == pt.s.mod+"/soymsg"
}

// carriesRefs: can a value of this type refer to memory outside itself (pointer, slice, map, channel,
// function, interface; a struct or array with such a component)?  Values of other types are copied.
func (pt *pvTypes) carriesRefs(t types.Type) bool {
	if t == nil {
		return false
	}
	if r, ok := pt.refs[t]; ok {
		return r
	}
	pt.refs[t] = true // a recursive type goes through a pointer, slice or map
	r := true
	switch u := t.Underlying().(type) {
	case *types.Basic:
		r = u.Kind() == types.UnsafePointer || u.Kind() == types.UntypedNil
	case *types.Struct:
		r = false
		for i := 0; i < u.NumFields(); i++ {
			if pt.carriesRefs(u.Field(i).Type()) {
				r = true
			}
		}
	case *types.Array:
		r = pt.carriesRefs(u.Elem())
	case *types.Tuple:
		r = false
		for i := 0; i < u.Len(); i++ {
			if pt.carriesRefs(u.At(i).Type()) {
				r = true
			}
		}
	}
	pt.refs[t] = r
	return r
}

// isShared: a named type of a shared package, or a pointer to / slice, array, map, channel of one
func (pt *pvTypes) isShared(t types.Type) bool {
	for i := 0; t != nil && i < 16; i++ {
		if n := pvNamed(t); n != nil {
			return pt.sharedPkg(pvPkgPathOf(n))
		}
		switch u := t.(type) {
		case *types.Pointer:
			t = u.Elem()
		case *types.Slice:
			t = u.Elem()
		case *types.Array:
			t = u.Elem()
		case *types.Map:
			t = u.Elem()
		case *types.Chan:
			t = u.Elem()
		default:
			return false
		}
	}
	return false
}

// sharedCapable: can a value of this type be part of the shared structures?  They consist of objects of
// the types the shared packages declare and of unnamed, basic and foreign types reachable from them; a
// value of a type another package of the repository declares (template data: data.Value, the renderer's
// own state) is not part of them, whatever it was loaded from.
func (pt *pvTypes) sharedCapable(t types.Type) bool {
	for i := 0; t != nil && i < 16; i++ {
		if n := pvNamed(t); n != nil {
			p := pvPkgPathOf(n)
			return !pt.s.inModule(p) || pt.sharedPkg(p)
		}
		switch u := t.(type) {
		case *types.Pointer:
			t = u.Elem()
		case *types.Slice:
			t = u.Elem()
		case *types.Array:
			t = u.Elem()
		case *types.Map:
			t = u.Elem()
		case *types.Chan:
			t = u.Elem()
		default:
			return true
		}
	}
	return true
}

// containsSync: a type of package sync / sync/atomic (pool: sync.Pool) inside t; types of other foreign
// packages are opaque (they are judged by the kind of their initialiser)
func (pt *pvTypes) containsSync(t types.Type, seen map[types.Type]bool) (sync, pool bool) {
	if t == nil || seen[t] {
		return
	}
	seen[t] = true
	if n := pvNamed(t); n != nil {
		switch p := pvPkgPathOf(n); {
		case p == "sync" || p == "sync/atomic":
			return true, p == "sync" && n.Obj().Name() == "Pool"
		case p != "" && !pt.s.inModule(p):
			return
		}
	}
	or := func(t types.Type) {
		s, p := pt.containsSync(t, seen)
		sync, pool = sync || s, pool || p
	}
	switch u := t.Underlying().(type) {
	case *types.Pointer:
		or(u.Elem())
	case *types.Slice:
		or(u.Elem())
	case *types.Array:
		or(u.Elem())
	case *types.Map:
		or(u.Key())
		or(u.Elem())
	case *types.Chan:
		or(u.Elem())
	case *types.Struct:
		for i := 0; i < u.NumFields(); i++ {
			or(u.Field(i).Type())
		}
	}
	return
}
