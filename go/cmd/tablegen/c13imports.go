package main

// C13: what the model of the ES6 import block (Model/Compile.v) takes from
// the source: soyjs.PrintDirectives (name -> JS name, CancelAutoescape), the
// names of soyjs.funcs, the three literals of the ES6 import line and the
// replacement ES6Identifier performs.

import (
	"go/ast"
	"go/token"
	"sort"
)

func init() { register("60-c13-js-imports", (*gen).c13JsImports) }

// flattenConcat returns the operands of a + b + c ... in order.
func flattenConcat(e ast.Expr) []ast.Expr {
	if be, ok := e.(*ast.BinaryExpr); ok && be.Op == token.ADD {
		return append(flattenConcat(be.X), flattenConcat(be.Y)...)
	}
	return []ast.Expr{e}
}

// isCallTo reports whether e is fn(<expr>) and returns the printed argument.
func callArg(e ast.Expr, fn string) (string, bool) {
	c, ok := e.(*ast.CallExpr)
	if !ok || len(c.Args) != 1 {
		return "", false
	}
	id, ok := c.Fun.(*ast.Ident)
	if !ok || id.Name != fn {
		return "", false
	}
	return exprText(c.Args[0]), true
}

func exprText(e ast.Expr) string {
	switch e := e.(type) {
	case *ast.Ident:
		return e.Name
	case *ast.SelectorExpr:
		return exprText(e.X) + "." + e.Sel.Name
	}
	return "?"
}

// importLine checks that the method returns ... "a" + ES6Identifier(x) + "b" + x + "c"
// as its last result and returns the three literals.
func (g *gen) importLine(method, arg string) (a, b, c string, ok bool) {
	const rel = "soyjs/formatters.go"
	fd := g.method(rel, "ES6Formatter", method)
	if fd == nil || fd.Body == nil || len(fd.Body.List) != 1 {
		g.fail("%s: ES6Formatter.%s is not a single return statement", rel, method)
		return
	}
	rs, isRet := fd.Body.List[0].(*ast.ReturnStmt)
	if !isRet || len(rs.Results) == 0 {
		g.fail("%s: ES6Formatter.%s is not a single return statement", rel, method)
		return
	}
	ops := flattenConcat(rs.Results[len(rs.Results)-1])
	if len(ops) != 5 {
		g.fail("%s: ES6Formatter.%s: import line is not lit + ES6Identifier(x) + lit + x + lit", rel, method)
		return
	}
	a, ok1 := strLit(ops[0])
	id, ok2 := callArg(ops[1], "ES6Identifier")
	b, ok3 := strLit(ops[2])
	x := exprText(ops[3])
	c, ok4 := strLit(ops[4])
	if !(ok1 && ok2 && ok3 && ok4) || id != arg || x != arg {
		g.fail("%s: ES6Formatter.%s: import line is not lit + ES6Identifier(%s) + lit + %s + lit", rel, method, arg, arg)
		return "", "", "", false
	}
	if method == "Call" {
		// first result: ES6Identifier(name)
		if first, ok := callArg(rs.Results[0], "ES6Identifier"); !ok || first != arg {
			g.fail("%s: ES6Formatter.Call: first result is not ES6Identifier(name)", rel)
			return "", "", "", false
		}
	}
	return a, b, c, true
}

func (g *gen) c13JsImports() {
	// ---- directives ----
	type dirEntry struct {
		Name   string
		JS     string
		Cancel bool
	}
	var dirs []dirEntry
	if cl, ok := g.varValue("soyjs/directives.go", "PrintDirectives").(*ast.CompositeLit); ok {
		for _, el := range cl.Elts {
			kv, ok := el.(*ast.KeyValueExpr)
			if !ok {
				g.fail("soyjs/directives.go: PrintDirectives entry not key:value")
				continue
			}
			name, ok1 := strLit(kv.Key)
			v, ok2 := kv.Value.(*ast.CompositeLit)
			if !ok1 || !ok2 || len(v.Elts) != 2 {
				g.fail("soyjs/directives.go: PrintDirectives entry not \"name\": {\"js\", bool}")
				continue
			}
			js, ok3 := strLit(v.Elts[0])
			id, ok4 := v.Elts[1].(*ast.Ident)
			if !ok3 || !ok4 || (id.Name != "true" && id.Name != "false") {
				g.fail("soyjs/directives.go: PrintDirectives[%q] not {\"js\", bool}", name)
				continue
			}
			dirs = append(dirs, dirEntry{name, js, id.Name == "true"})
		}
	} else {
		g.fail("soyjs/directives.go: PrintDirectives is not a composite literal")
	}
	sort.Slice(dirs, func(i, j int) bool { return dirs[i].Name < dirs[j].Name })
	g.p("(* soyjs/directives.go PrintDirectives: name -> (JS name, CancelAutoescape) *)\n")
	g.p("Definition c13_js_directives : list (bstr * (bstr * bool)) := [\n")
	for i, d := range dirs {
		sep := ";"
		if i == len(dirs)-1 {
			sep = ""
		}
		g.p("  (%s (* %s *), (%s (* %s *), %s))%s\n", coqBytes(d.Name), d.Name, coqBytes(d.JS), d.JS, coqBool(d.Cancel), sep)
	}
	g.p("].\n")
	g.js["c13_js_directives"] = dirs

	// ---- functions ----
	var names []string
	if cl, ok := g.varValue("soyjs/funcs.go", "funcs").(*ast.CompositeLit); ok {
		for _, el := range cl.Elts {
			v, ok := el.(*ast.CompositeLit)
			if !ok || len(v.Elts) < 1 {
				g.fail("soyjs/funcs.go: funcs entry is not {\"name\", fn, lens}")
				continue
			}
			name, ok := strLit(v.Elts[0])
			if !ok {
				g.fail("soyjs/funcs.go: funcs entry name is not a string literal")
				continue
			}
			names = append(names, name)
		}
	} else {
		g.fail("soyjs/funcs.go: funcs is not a composite literal")
	}
	sort.Strings(names)
	g.p("(* soyjs/funcs.go funcs: names *)\nDefinition c13_js_funcs : list bstr := [")
	for i, n := range names {
		if i > 0 {
			g.p("; ")
		}
		g.p("%s (* %s *)", coqBytes(n), n)
	}
	g.p("].\n")
	g.js["c13_js_funcs"] = names

	// ---- the ES6 import line and ES6Identifier ----
	a, b, c, ok := g.importLine("Call", "name")
	a2, b2, c2, ok2 := g.importLine("Directive", "dir.Name")
	a3, b3, c3, ok3 := g.importLine("Function", "fn.Name")
	if ok && ok2 && ok3 && (a != a2 || b != b2 || c != c2 || a != a3 || b != b3 || c != c3) {
		g.fail("soyjs/formatters.go: the import lines of Call, Directive and Function differ")
	}
	from, to := "", ""
	if fd := g.funcDecl("soyjs/formatters.go", "ES6Identifier"); fd != nil && fd.Body != nil && len(fd.Body.List) == 1 {
		if rs, isRet := fd.Body.List[0].(*ast.ReturnStmt); isRet && len(rs.Results) == 1 {
			if call, isCall := rs.Results[0].(*ast.CallExpr); isCall && exprText(call.Fun) == "strings.Replace" && len(call.Args) == 4 {
				f, ok1 := strLit(call.Args[1])
				t, ok2 := strLit(call.Args[2])
				n, ok3 := intLit(call.Args[3])
				if ok1 && ok2 && ok3 && n == -1 && len(f) == 1 && exprText(call.Args[0]) == "s" {
					from, to = f, t
				}
			}
		}
	}
	if from == "" {
		g.fail("soyjs/formatters.go: ES6Identifier is not strings.Replace(s, <1 byte>, <lit>, -1)")
		from = "."
	}
	g.p("(* soyjs/formatters.go: ES6Identifier replaces every [from] byte by [to]; the import line is a ++ id ++ b ++ name ++ c *)\n")
	g.p("Definition c13_es6_ident_from : N := %d.\n", from[0])
	g.p("Definition c13_es6_ident_to : bstr := %s.\n", coqBytes(to))
	g.p("Definition c13_es6_import_a : bstr := %s.\n", coqBytes(a))
	g.p("Definition c13_es6_import_b : bstr := %s.\n", coqBytes(b))
	g.p("Definition c13_es6_import_c : bstr := %s.\n\n", coqBytes(c))
	g.js["c13_es6"] = map[string]string{"from": from, "to": to, "a": a, "b": b, "c": c}
}
