package main

// Stability of the regenerated text.  The tables are emitted in SOME spelling: a set in some order, a boolean
// function as some expression.  Proofs should not depend on the spelling, but some do (a `rewrite` with
// `gen_isSpace ch` inside an unfolded `gen_isSpaceEOL`, a `cbv` that walks a list in order), and a spelling that
// changes with the shape of the Go source would turn a behaviour-preserving rewrite into a broken proof.  So the
// generators emit, whenever the new value IS the old value, the old text: the previous content of the -out file
// (the reviewed Tables.v of the unchanged tree) is read, and
//   * a boolean function whose previous body denotes the same function (compared on the complete domain: every
//     point of the rune domain, every assignment of the atoms) keeps the previous body;
//   * a list that is used as a set or as an association table with unique keys and has the same elements keeps
//     the previous order.
// Nothing is taken from the previous file but the spelling of a value that was established from the source in
// this run; a different value never keeps old text.  Without a previous file (or with -out unset) the canonical
// spelling is emitted.

import (
	"fmt"
	"os"
	"regexp"
	"sort"
	"strconv"
	"strings"
)

// prevTablesPath is set by main from -out.
var prevTablesPath string

var prevDefsCache map[string]string

// prevDef returns the body (text between `:=` and the final `.`) of a definition of the previous Tables.v.
func prevDef(name string) (string, bool) {
	if prevDefsCache == nil {
		prevDefsCache = map[string]string{}
		if prevTablesPath != "" {
			if bs, err := os.ReadFile(prevTablesPath); err == nil {
				re := regexp.MustCompile(`(?ms)^Definition ([A-Za-z0-9_']+)[^\n]*?:=(.*?)\.\n`)
				for _, m := range re.FindAllStringSubmatch(string(bs), -1) {
					if _, dup := prevDefsCache[m[1]]; !dup {
						prevDefsCache[m[1]] = strings.TrimSpace(m[2])
					}
				}
			}
		}
	}
	b, ok := prevDefsCache[name]
	return b, ok
}

// ---- the boolean fragment the generators emit ----

type cbNode struct {
	op   string // "lit" "int" "var" "negb" "||" "&&" "=?" "<=?" "<?" ">?" ">=?" "app"
	b    bool
	n    int64
	name string
	kids []*cbNode
}

var cbTok = regexp.MustCompile(`\(|\)|\|\||&&|<=\?|>=\?|=\?|<\?|>\?|-?\d+|[A-Za-z_][A-Za-z0-9_']*|\S`)

type cbParser struct {
	toks []string
	i    int
}

func (p *cbParser) peek() string {
	if p.i < len(p.toks) {
		return p.toks[p.i]
	}
	return ""
}

func (p *cbParser) next() string { t := p.peek(); p.i++; return t }

func isCbIdent(t string) bool {
	return t != "" && (t[0] == '_' || (t[0] >= 'a' && t[0] <= 'z') || (t[0] >= 'A' && t[0] <= 'Z'))
}

func (p *cbParser) atom() (*cbNode, error) {
	t := p.next()
	switch {
	case t == "(":
		if p.peek() == "negb" {
			p.next()
			x, err := p.atom()
			if err != nil {
				return nil, err
			}
			if p.next() != ")" {
				return nil, fmt.Errorf("expected )")
			}
			return &cbNode{op: "negb", kids: []*cbNode{x}}, nil
		}
		first, err := p.atom()
		if err != nil {
			return nil, err
		}
		switch t2 := p.peek(); t2 {
		case ")":
			p.next()
			return first, nil
		case "||", "&&", "=?", "<=?", "<?", ">?", ">=?":
			p.next()
			second, err := p.atom()
			if err != nil {
				return nil, err
			}
			if p.next() != ")" {
				return nil, fmt.Errorf("expected ) after a binary operation")
			}
			return &cbNode{op: t2, kids: []*cbNode{first, second}}, nil
		default:
			// application: (f a b ...)
			if first.op != "var" {
				return nil, fmt.Errorf("unexpected %q", t2)
			}
			app := &cbNode{op: "app", name: first.name}
			for p.peek() != ")" && p.peek() != "" {
				a, err := p.atom()
				if err != nil {
					return nil, err
				}
				app.kids = append(app.kids, a)
			}
			if p.next() != ")" {
				return nil, fmt.Errorf("expected ) after an application")
			}
			return app, nil
		}
	case t == "true" || t == "false":
		return &cbNode{op: "lit", b: t == "true"}, nil
	case isCbIdent(t):
		return &cbNode{op: "var", name: t}, nil
	default:
		if n, err := strconv.ParseInt(t, 10, 64); err == nil {
			return &cbNode{op: "int", n: n}, nil
		}
	}
	return nil, fmt.Errorf("unexpected token %q", t)
}

// parseCoqBool parses a body such as `((r =? 32) || (r =? 9))%Z`.
func parseCoqBool(s string) (*cbNode, error) {
	s = strings.TrimSpace(s)
	s = strings.TrimSuffix(s, "%Z")
	p := &cbParser{toks: cbTok.FindAllString(s, -1)}
	n, err := p.atom()
	if err != nil {
		return nil, err
	}
	if p.i != len(p.toks) {
		return nil, fmt.Errorf("trailing text %q", strings.Join(p.toks[p.i:], " "))
	}
	return n, nil
}

// cbEnv: integer variables, boolean atoms, unary predicates over an integer (extra leading arguments of an
// application, as in `gen_isAlphaNumeric uni_letter uni_digit r`, are ignored: the last argument is the point).
type cbEnv struct {
	ints  map[string]int64
	bools map[string]bool
	preds map[string]func(int64) bool
}

func (n *cbNode) evalInt(env *cbEnv) (int64, bool) {
	switch n.op {
	case "int":
		return n.n, true
	case "var":
		v, ok := env.ints[n.name]
		return v, ok
	}
	return 0, false
}

func (n *cbNode) evalBool(env *cbEnv) (bool, bool) {
	switch n.op {
	case "lit":
		return n.b, true
	case "var":
		v, ok := env.bools[n.name]
		return v, ok
	case "negb":
		v, ok := n.kids[0].evalBool(env)
		return !v, ok
	case "||", "&&":
		a, ok1 := n.kids[0].evalBool(env)
		b, ok2 := n.kids[1].evalBool(env)
		if n.op == "||" {
			return a || b, ok1 && ok2
		}
		return a && b, ok1 && ok2
	case "=?", "<=?", "<?", ">?", ">=?":
		a, ok1 := n.kids[0].evalInt(env)
		b, ok2 := n.kids[1].evalInt(env)
		if !ok1 || !ok2 {
			return false, false
		}
		switch n.op {
		case "=?":
			return a == b, true
		case "<=?":
			return a <= b, true
		case "<?":
			return a < b, true
		case ">?":
			return a > b, true
		}
		return a >= b, true
	case "app":
		f, ok := env.preds[n.name]
		if !ok || len(n.kids) == 0 {
			return false, false
		}
		x, ok := n.kids[len(n.kids)-1].evalInt(env)
		if !ok {
			return false, false
		}
		return f(x), true
	}
	return false, false
}

// keepRuneSpelling: body is the established spelling of a rune predicate with graph f over parameter p; when the
// previous Tables.v spells the same function (same graph on the whole rune domain), the previous spelling.
func keepRuneSpelling(defName, p, body string, f runePred, preds map[string]func(int64) bool) string {
	prev, ok := prevDef(defName)
	if !ok || strings.TrimSpace(prev) == strings.TrimSpace(body) {
		return body
	}
	node, err := parseCoqBool(prev)
	if err != nil {
		return body
	}
	env := &cbEnv{ints: map[string]int64{}, preds: preds}
	for r := int64(runeDomLo); r <= runeDomHi; r++ {
		env.ints[p] = r
		v, ok := node.evalBool(env)
		if !ok || v != f(r) {
			return body
		}
	}
	return strings.TrimSuffix(strings.TrimSpace(prev), "%Z")
}

// keepAtomSpelling: the same for a boolean function of a few boolean atoms (Truthy bodies, header_param_optional).
func keepAtomSpelling(defName, body string, atoms []string) string {
	prev, ok := prevDef(defName)
	if !ok || strings.TrimSpace(prev) == strings.TrimSpace(body) {
		return body
	}
	a, err1 := parseCoqBool(prev)
	b, err2 := parseCoqBool(body)
	if err1 != nil || err2 != nil {
		return body
	}
	for mask := 0; mask < 1<<len(atoms); mask++ {
		env := &cbEnv{bools: map[string]bool{}}
		for i, at := range atoms {
			env.bools[at] = mask&(1<<i) != 0
		}
		va, ok1 := a.evalBool(env)
		vb, ok2 := b.evalBool(env)
		if !ok1 || !ok2 || va != vb {
			return body
		}
	}
	return strings.TrimSpace(prev)
}

// splitCoqList splits the text of a list `[a; b; c]` at the top-level semicolons (comments removed).
func splitCoqList(s string) ([]string, bool) {
	s = regexp.MustCompile(`(?s)\(\*.*?\*\)`).ReplaceAllString(s, "")
	s = strings.TrimSpace(s)
	s = strings.TrimSuffix(s, "%Z")
	if !strings.HasPrefix(s, "[") || !strings.HasSuffix(s, "]") {
		return nil, false
	}
	s = s[1 : len(s)-1]
	var out []string
	depth, start := 0, 0
	for i, c := range s {
		switch c {
		case '(', '[':
			depth++
		case ')', ']':
			depth--
		case ';':
			if depth == 0 {
				out = append(out, strings.Join(strings.Fields(s[start:i]), " "))
				start = i + 1
			}
		}
	}
	if last := strings.Join(strings.Fields(s[start:]), " "); last != "" {
		out = append(out, last)
	}
	return out, true
}

// keepOrder: elems are the rendered elements of a list that is used as a set / a table with unique keys; when the
// previous Tables.v has the same elements, they are returned in the previous order.
func keepOrder(defName string, elems []string) []string {
	prev, ok := prevDef(defName)
	if !ok {
		return elems
	}
	old, ok := splitCoqList(prev)
	if !ok || len(old) != len(elems) {
		return elems
	}
	norm := func(s string) string { return strings.Join(strings.Fields(s), " ") }
	a := make([]string, len(elems))
	byNorm := map[string]string{}
	for i, e := range elems {
		a[i] = norm(e)
		byNorm[a[i]] = e
	}
	b := append([]string{}, old...)
	sa, sb := append([]string{}, a...), append([]string{}, b...)
	sort.Strings(sa)
	sort.Strings(sb)
	for i := range sa {
		if sa[i] != sb[i] || (i > 0 && sa[i] == sa[i-1]) {
			return elems
		}
	}
	out := make([]string, len(old))
	for i, o := range old {
		out[i] = byNorm[o]
	}
	return out
}
