package main

// ast/node.go: the String methods gotrans can translate today (Proofs/SourceTieAstPrint.v);
// the others are listed, with the translator feature each needs, in notes/astprint-gotrans.md.

func init() {
	var items []gtItem
	// leaf String methods: no interface-typed field, no accumulating loop, no fmt
	for _, r := range []string{"RawTextNode", "NamespaceNode", "TypeNode", "SoyDocParamNode", "LiteralNode", "DebuggerNode", "IdentNode",
		"MsgHtmlTagNode", "NullNode", "BoolNode", "IntNode", "StringNode", "GlobalNode", "DataRefIndexNode", "DataRefKeyNode"} {
		items = append(items, it("ast", r+".String"))
	}
	// a field of interface type (ast.Node / ast.ParentNode) read only through F.String() and F != nil: the parameters
	// m_n_F_nil / m_n_F_String
	for _, r := range []string{"DataRefExprNode", "LogNode", "MsgPlaceholderNode", "MsgPluralCaseNode", "CssNode", "IfCondNode", "ForNode"} {
		items = append(items, it("ast", r+".String"))
	}
	// fmt.Sprintf with a constant format over %s / %q (and the interface fields above)
	for _, r := range []string{"LetValueNode", "LetContentNode", "CallParamValueNode", "CallParamContentNode", "MsgNode"} {
		items = append(items, it("ast", r+".String"))
	}
	// a field that is a slice of nodes, ranged over and read through String(): the parameter ms_n_F_String
	for _, r := range []string{"FunctionNode", "ListLiteralNode", "SwitchCaseNode", "DataRefNode", "PrintDirectiveNode", "PrintNode", "SwitchNode", "MsgPluralNode", "SoyDocNode", "CallNode"} {
		items = append(items, it("ast", r+".String"))
	}
	items = append(items, tbl("ast", "binaryPrecedence"), it("ast", "BinaryOpNode.precedence"),
		cst("ast", "precTernary"), cst("ast", "precUnary"), cst("ast", "precPrimary"))
	gtFamily("78-gotrans-astprint", items)
}
