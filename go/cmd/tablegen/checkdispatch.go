package main

// C07 / C13: the dispatch of (*templateChecker).checkTemplate in
// parsepasses/datarefcheck.go, translated SYMBOLICALLY.  checkTemplate is a type
// switch over the node followed by "if the node is a ParentNode, recurse"; each
// clause is a short straight-line sequence of checker operations on fields of
// the node.  The translation of a clause is the list of its steps, in order,
// with the steps after the switch appended when the clause does not return:
//
//	(0, F)   tc.checkLet(node.F)
//	(1, "")  tc.recurse(node)               also: if parent, ok := node.(ast.ParentNode); ok { tc.recurse(parent) }
//	(2, F)   tc.vars = append(tc.vars, &binding{node.F, true, false})       a {let} binding
//	(3, F)   tc.vars = append(tc.vars, &binding{node.F, false, false})      a loop binding
//	(4, "")  tc.vars = tc.vars[:len(tc.vars)-1]
//	(5, F)   tc.checkTemplate(node.F)
//	(6, F)   if node.F != nil { tc.checkTemplate(node.F) }
//	(7, "")  tc.checkCall(node)
//	(8, F)   tc.visitKey(node.F)
//	(9, "")  tc.checkLoopFunc(node)
//	(10, M)  panic(fmt.Errorf(M)) / panic(M)      M = the message literal; ends the clause
//
// Output: src_check_dispatch : list (list bstr * list (N * bstr))  (the node types of a clause, without "*ast.",
// and its steps) and src_check_default (the steps for every other node type).  Proofs/CheckerDispatchTie.v
// interprets the steps over the state of Model/Compile.v and proves that check_body (one level of checkTemplate
// in the model of C13, to which Model/Checker.v of C07 is tied by Proofs/CheckerCompileTie.v) runs exactly the
// steps of the clause of the node's type.  Any other statement shape is reported as untranslatable, never guessed.

import (
	"fmt"
	"go/ast"
	"go/token"
	"strings"
)

func init() {
	register("81-check-dispatch", (*gen).checkDispatch)
}

type cdStep struct {
	tag int
	arg string
}

// symbolic values of the expressions a clause (or a helper method it calls) passes around
type cdVal struct {
	kind  string // "node", "field", "bool", "lenm1" (len(tc.vars) - 1), "str"
	field string
	b     bool
}

type cdState struct {
	g     *gen
	recv  string // the receiver of the method being translated
	depth int
	bad   bool
}

func (s *cdState) fail(format string, args ...interface{}) {
	if !s.bad {
		s.g.fail("check-dispatch: parsepasses/datarefcheck.go: checkTemplate: %s", fmt.Sprintf(format, args...))
	}
	s.bad = true
}

// recvSel recognises <recv>.<name>
func (s *cdState) recvSel(e ast.Expr, name string) bool {
	sel, ok := unparen(e).(*ast.SelectorExpr)
	if !ok || sel.Sel.Name != name {
		return false
	}
	return isIdent(sel.X, s.recv)
}

func (s *cdState) eval(e ast.Expr, env map[string]cdVal) (cdVal, bool) {
	switch e := unparen(e).(type) {
	case *ast.Ident:
		if v, ok := env[e.Name]; ok {
			return v, true
		}
		if e.Name == "true" || e.Name == "false" {
			return cdVal{kind: "bool", b: e.Name == "true"}, true
		}
	case *ast.SelectorExpr:
		if x, ok := s.eval(e.X, env); ok && x.kind == "node" {
			return cdVal{kind: "field", field: e.Sel.Name}, true
		}
	case *ast.BinaryExpr:
		// len(tc.vars) - 1
		if e.Op == token.SUB {
			if n, ok := intLit(e.Y); ok && n == 1 {
				if ln, ok := e.X.(*ast.CallExpr); ok && isIdent(ln.Fun, "len") && len(ln.Args) == 1 && s.recvSel(ln.Args[0], "vars") {
					return cdVal{kind: "lenm1"}, true
				}
			}
		}
	}
	return cdVal{}, false
}

// &binding{<name>, <let>, false} / &binding{name: ..., let: ..., used: false}
func (s *cdState) bindingLit(e ast.Expr, env map[string]cdVal) (cdVal, cdVal, bool) {
	ue, ok := e.(*ast.UnaryExpr)
	if !ok || ue.Op != token.AND {
		return cdVal{}, cdVal{}, false
	}
	cl, ok := ue.X.(*ast.CompositeLit)
	if !ok || !isIdent(cl.Type, "binding") || len(cl.Elts) != 3 {
		return cdVal{}, cdVal{}, false
	}
	parts := map[string]ast.Expr{}
	for i, el := range cl.Elts {
		if kv, ok := el.(*ast.KeyValueExpr); ok {
			k, ok := kv.Key.(*ast.Ident)
			if !ok {
				return cdVal{}, cdVal{}, false
			}
			parts[k.Name] = kv.Value
		} else {
			parts[[]string{"name", "let", "used"}[i]] = el
		}
	}
	if len(parts) != 3 || parts["name"] == nil || parts["let"] == nil || parts["used"] == nil {
		return cdVal{}, cdVal{}, false
	}
	name, ok1 := s.eval(parts["name"], env)
	let, ok2 := s.eval(parts["let"], env)
	used, ok3 := s.eval(parts["used"], env)
	if !ok1 || !ok2 || !ok3 || name.kind != "field" || let.kind != "bool" || used.kind != "bool" || used.b {
		return cdVal{}, cdVal{}, false
	}
	return name, let, true
}

// the checker's primitive methods: their bodies are the model's own definitions (Model/Compile.v)
var cdPrimitives = map[string]bool{"checkLet": true, "recurse": true, "checkTemplate": true, "checkCall": true, "visitKey": true, "checkLoopFunc": true}

// a call <recv>.<M>(args): a primitive becomes a step, any other method of the receiver's type is inlined
func (s *cdState) call(call *ast.CallExpr, env map[string]cdVal) (steps []cdStep, done bool, ok bool) {
	sel, isSel := call.Fun.(*ast.SelectorExpr)
	if !isSel || !isIdent(sel.X, s.recv) || call.Ellipsis != token.NoPos {
		return nil, false, false
	}
	m := sel.Sel.Name
	var args []cdVal
	for _, a := range call.Args {
		v, ok := s.eval(a, env)
		if !ok {
			s.fail("call of %s with an unsupported argument", m)
			return nil, false, true
		}
		args = append(args, v)
	}
	if cdPrimitives[m] {
		if len(args) == 1 {
			a := args[0]
			switch {
			case m == "checkLet" && a.kind == "field":
				return []cdStep{{0, a.field}}, false, true
			case m == "recurse" && a.kind == "node":
				return []cdStep{{1, ""}}, false, true
			case m == "checkTemplate" && a.kind == "field":
				return []cdStep{{5, a.field}}, false, true
			case m == "checkCall" && a.kind == "node":
				return []cdStep{{7, ""}}, false, true
			case m == "visitKey" && a.kind == "field":
				return []cdStep{{8, a.field}}, false, true
			case m == "checkLoopFunc" && a.kind == "node":
				return []cdStep{{9, ""}}, false, true
			}
		}
		s.fail("call of %s with an unsupported argument", m)
		return nil, false, true
	}
	// a helper method: inline its body with the parameters bound to the arguments
	fd := s.g.method("parsepasses/datarefcheck.go", "templateChecker", m)
	if fd == nil || fd.Body == nil || s.depth > 4 || len(fd.Recv.List[0].Names) != 1 || (fd.Type.Results != nil && len(fd.Type.Results.List) > 0) {
		s.fail("call of %s: not a method of templateChecker without results (or nested too deep)", m)
		return nil, false, true
	}
	inner := map[string]cdVal{}
	i := 0
	for _, f := range fd.Type.Params.List {
		for _, n := range f.Names {
			if i < len(args) {
				inner[n.Name] = args[i]
			}
			i++
		}
	}
	if i != len(args) {
		s.fail("call of %s: wrong number of arguments", m)
		return nil, false, true
	}
	saved := s.recv
	s.recv = fd.Recv.List[0].Names[0].Name
	s.depth++
	for j, st := range fd.Body.List {
		st2, d := s.stmt(st, inner)
		if s.bad {
			break
		}
		steps = append(steps, st2...)
		if d {
			// a helper that ends in return just ends; one that panics ends the clause
			if j != len(fd.Body.List)-1 {
				s.fail("call of %s: statements after return / panic", m)
			}
			if len(st2) > 0 && st2[len(st2)-1].tag == 10 {
				done = true
			}
			break
		}
	}
	s.depth--
	s.recv = saved
	return steps, done, true
}

// one statement of a clause; done = the clause ends here (return / panic)
func (s *cdState) stmt(st ast.Stmt, env map[string]cdVal) (steps []cdStep, done bool) {
	switch st := st.(type) {
	case *ast.ReturnStmt:
		if len(st.Results) == 0 {
			return nil, true
		}
		s.fail("return with a value")
	case *ast.DeclStmt:
		// var x = <expr>
		if gd, ok := st.Decl.(*ast.GenDecl); ok && gd.Tok == token.VAR && len(gd.Specs) == 1 {
			if vs, ok := gd.Specs[0].(*ast.ValueSpec); ok && len(vs.Names) == 1 && len(vs.Values) == 1 {
				if v, ok := s.eval(vs.Values[0], env); ok {
					env[vs.Names[0].Name] = v
					return nil, false
				}
			}
		}
		s.fail("unsupported declaration")
	case *ast.ExprStmt:
		if call, ok := st.X.(*ast.CallExpr); ok {
			if steps, done, ok := s.call(call, env); ok {
				return steps, done
			}
			// panic("lit") / panic(fmt.Errorf("lit"))
			if isIdent(call.Fun, "panic") && len(call.Args) == 1 {
				if m, ok := strLit(call.Args[0]); ok {
					return []cdStep{{10, m}}, true
				}
				if inner, ok := call.Args[0].(*ast.CallExpr); ok && len(inner.Args) == 1 {
					if sel, ok := inner.Fun.(*ast.SelectorExpr); ok && isIdent(sel.X, "fmt") && sel.Sel.Name == "Errorf" {
						if m, ok := strLit(inner.Args[0]); ok {
							return []cdStep{{10, m}}, true
						}
					}
				}
			}
		}
		s.fail("unsupported call statement")
	case *ast.AssignStmt:
		// x := <expr>
		if st.Tok == token.DEFINE && len(st.Lhs) == 1 && len(st.Rhs) == 1 {
			if id, ok := st.Lhs[0].(*ast.Ident); ok {
				if v, ok := s.eval(st.Rhs[0], env); ok {
					env[id.Name] = v
					return nil, false
				}
			}
		}
		if st.Tok != token.ASSIGN || len(st.Lhs) != 1 || len(st.Rhs) != 1 || !s.recvSel(st.Lhs[0], "vars") {
			s.fail("unsupported assignment")
			return
		}
		// tc.vars = tc.vars[:len(tc.vars)-1]
		if sl, ok := st.Rhs[0].(*ast.SliceExpr); ok && s.recvSel(sl.X, "vars") && sl.Low == nil && !sl.Slice3 && sl.High != nil {
			if v, ok := s.eval(sl.High, env); ok && v.kind == "lenm1" {
				return []cdStep{{4, ""}}, false
			}
		}
		// tc.vars = append(tc.vars, &binding{node.F, <let>, false})
		if call, ok := st.Rhs[0].(*ast.CallExpr); ok && isIdent(call.Fun, "append") && len(call.Args) == 2 && call.Ellipsis == token.NoPos && s.recvSel(call.Args[0], "vars") {
			if name, let, ok := s.bindingLit(call.Args[1], env); ok {
				if let.b {
					return []cdStep{{2, name.field}}, false
				}
				return []cdStep{{3, name.field}}, false
			}
		}
		s.fail("unsupported assignment to %s.vars", s.recv)
	case *ast.IfStmt:
		// if node.F != nil { tc.checkTemplate(node.F) }
		if st.Init == nil && st.Else == nil && len(st.Body.List) == 1 {
			if be, ok := st.Cond.(*ast.BinaryExpr); ok && be.Op == token.NEQ && isIdent(be.Y, "nil") {
				if f, ok := s.eval(be.X, env); ok && f.kind == "field" {
					if es, ok := st.Body.List[0].(*ast.ExprStmt); ok {
						if call, ok := es.X.(*ast.CallExpr); ok {
							if steps, _, ok := s.call(call, env); ok && len(steps) == 1 && steps[0].tag == 5 && steps[0].arg == f.field {
								return []cdStep{{6, f.field}}, false
							}
						}
					}
				}
			}
		}
		s.fail("unsupported if")
	default:
		s.fail("unsupported statement")
	}
	return
}

func (g *gen) checkDispatch() {
	type clause struct {
		types []string
		steps []cdStep
	}
	var clauses []clause
	var dflt []cdStep
	emit := func() {
		stepsOf := func(l []cdStep) string {
			var parts []string
			for _, x := range l {
				parts = append(parts, fmt.Sprintf("(%d, %s)", x.tag, coqBytes(x.arg)))
			}
			return "[" + strings.Join(parts, "; ") + "]"
		}
		g.p("(* parsepasses/datarefcheck.go: checkTemplate's type switch, clause by clause, as steps over the node's fields (see\n")
		g.p("   go/cmd/tablegen/checkdispatch.go for the step codes); a clause that does not return continues with the steps after the switch *)\n")
		g.p("Definition src_check_dispatch : list (list bstr * list (N * bstr)) := [\n")
		js := map[string][]string{}
		for i, c := range clauses {
			var ts []string
			for _, t := range c.types {
				ts = append(ts, coqBytes(t))
				for _, x := range c.steps {
					js[t] = append(js[t], fmt.Sprintf("%d:%s", x.tag, x.arg))
				}
			}
			sep := ";"
			if i == len(clauses)-1 {
				sep = ""
			}
			g.p("  ([%s], %s)%s   (* %s *)\n", strings.Join(ts, "; "), stepsOf(c.steps), sep, strings.Join(c.types, ", "))
		}
		g.p("].\n")
		g.p("Definition src_check_default : list (N * bstr) := %s.\n\n", stepsOf(dflt))
		for _, x := range dflt {
			js["default"] = append(js["default"], fmt.Sprintf("%d:%s", x.tag, x.arg))
		}
		g.js["check_dispatch"] = js
	}
	defer emit()

	fd := g.method("parsepasses/datarefcheck.go", "templateChecker", "checkTemplate")
	if fd == nil || fd.Body == nil || len(fd.Recv.List[0].Names) != 1 || len(fd.Type.Params.List) != 1 || len(fd.Type.Params.List[0].Names) != 1 {
		g.fail("check-dispatch: parsepasses/datarefcheck.go: (*templateChecker).checkTemplate(node) not found")
		return
	}
	s := &cdState{g: g, recv: fd.Recv.List[0].Names[0].Name}
	recvCall := func(e ast.Expr) (string, ast.Expr, bool) {
		call, ok := e.(*ast.CallExpr)
		if !ok || len(call.Args) != 1 {
			return "", nil, false
		}
		sel, ok := call.Fun.(*ast.SelectorExpr)
		if !ok || !isIdent(sel.X, s.recv) {
			return "", nil, false
		}
		return sel.Sel.Name, call.Args[0], true
	}
	param := fd.Type.Params.List[0].Names[0].Name
	// the binding struct: fields name, let, used in this order (the composite literals are unkeyed)
	okBinding := false
	for _, d := range g.file("parsepasses/datarefcheck.go").Decls {
		if gd, ok := d.(*ast.GenDecl); ok && gd.Tok == token.TYPE {
			for _, sp := range gd.Specs {
				if ts, ok := sp.(*ast.TypeSpec); ok && ts.Name.Name == "binding" {
					if stt, ok := ts.Type.(*ast.StructType); ok {
						var names []string
						for _, f := range stt.Fields.List {
							for _, n := range f.Names {
								names = append(names, n.Name)
							}
						}
						okBinding = strings.Join(names, ",") == "name,let,used"
					}
				}
			}
		}
	}
	if !okBinding {
		s.fail("type binding is not struct{name; let; used}")
		return
	}
	if len(fd.Body.List) != 2 {
		s.fail("the body is not a type switch followed by one if")
		return
	}
	// the steps after the switch: if parent, ok := <node>.(ast.ParentNode); ok { tc.recurse(parent) }
	var tail []cdStep
	{
		ifs, ok := fd.Body.List[1].(*ast.IfStmt)
		good := false
		if ok && ifs.Else == nil && len(ifs.Body.List) == 1 && isIdent(ifs.Cond, "ok") {
			if as, ok := ifs.Init.(*ast.AssignStmt); ok && as.Tok == token.DEFINE && len(as.Lhs) == 2 && len(as.Rhs) == 1 && isIdent(as.Lhs[1], "ok") {
				if ta, ok := as.Rhs[0].(*ast.TypeAssertExpr); ok && isIdent(ta.X, param) {
					if sel, ok := ta.Type.(*ast.SelectorExpr); ok && isIdent(sel.X, "ast") && sel.Sel.Name == "ParentNode" {
						if p, ok := as.Lhs[0].(*ast.Ident); ok {
							if es, ok := ifs.Body.List[0].(*ast.ExprStmt); ok {
								if m, arg, ok := recvCall(es.X); ok && m == "recurse" && isIdent(arg, p.Name) {
									good = true
								}
							}
						}
					}
				}
			}
		}
		if !good {
			s.fail("the statement after the switch is not `if parent, ok := node.(ast.ParentNode); ok { recurse(parent) }`")
			return
		}
		tail = []cdStep{{1, ""}}
	}
	sw, ok := fd.Body.List[0].(*ast.TypeSwitchStmt)
	if !ok || sw.Init != nil {
		s.fail("the first statement is not a type switch")
		return
	}
	as, ok := sw.Assign.(*ast.AssignStmt)
	if !ok || as.Tok != token.DEFINE || len(as.Lhs) != 1 || len(as.Rhs) != 1 {
		s.fail("type switch without a bound variable")
		return
	}
	ta, ok := as.Rhs[0].(*ast.TypeAssertExpr)
	if !ok || ta.Type != nil || !isIdent(ta.X, param) {
		s.fail("the type switch is not over the parameter")
		return
	}
	node := as.Lhs[0].(*ast.Ident).Name
	seen := map[string]bool{}
	for _, c := range sw.Body.List {
		cc := c.(*ast.CaseClause)
		var cl clause
		for _, t := range cc.List {
			name := ""
			if st, ok := t.(*ast.StarExpr); ok {
				if sel, ok := st.X.(*ast.SelectorExpr); ok && isIdent(sel.X, "ast") {
					name = sel.Sel.Name
				}
			}
			if name == "" || seen[name] {
				s.fail("a case that is not a list of distinct *ast.<Type>")
				return
			}
			seen[name] = true
			cl.types = append(cl.types, name)
		}
		done := false
		env := map[string]cdVal{node: {kind: "node"}}
		for i, st := range cc.Body {
			if _, isFall := st.(*ast.BranchStmt); isFall {
				s.fail("fallthrough / break in a clause")
				return
			}
			steps, d := s.stmt(st, env)
			if s.bad {
				return
			}
			cl.steps = append(cl.steps, steps...)
			if d {
				if i != len(cc.Body)-1 {
					s.fail("statements after return / panic")
					return
				}
				done = true
			}
		}
		if !done {
			cl.steps = append(cl.steps, tail...)
		}
		if cc.List == nil { // default:
			dflt = cl.steps
			seen["default"] = true
			continue
		}
		clauses = append(clauses, cl)
	}
	if !seen["default"] {
		dflt = tail
	}
}
