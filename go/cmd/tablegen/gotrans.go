package main

// gotrans: a small, general translator from a subset of Go (pure functions, loops with a
// stated bound, and effects on the receiver / arguments made explicit as extra results)
// to Gallina.  It is applied (gotrans_apply.go) to the small pure functions of robfig/soy
// that the hand-written Coq models mirror; every translated function is emitted as
//
//     Definition src_<pkg>_<name> ... := ...
//
// into Generated/Tables.v, and coq/Proofs/SourceTie*.v proves, for each of them, that the
// hand-written model equals the function as translated from TODAY's source.  A semantic
// change of such a function therefore breaks a machine-checked lemma; a change that leaves
// the subset is reported with g.fail("gotrans: <func>: <why>") for that function's
// generator only (bin/check charges a generator's failures to the properties whose
// closure mentions an identifier the generator defines).  Nothing is ever guessed.
//
// THE SUBSET
//   functions / methods whose body is built from
//     return e [, e]            if [init;] cond { ... } [else ...]
//     switch [init;] [tag] { case a, b: ...  default: ... }   (fallthrough, break)
//     switch x.(type) over a data.Value (the bound variable may not be used)
//     var x [T] [= e]    x := e    x = e    x op= e    x++    x--   (locals only: lets)
//     v, ok := m[k]      _, ok := v.(data.T)
//     for _, x := range xs { if cond { return e } }   (first match, over a slice: List.find)
//     for i := 0; i < len(s); i++ { if cond(s[i]) { return e } }  (same, over the bytes)
//     every other for / range-over-a-slice loop, with break and continue (LOOPS below)
//     x.f = e   x.f op= e   x.f++   m[k] = e   s[i] = e   s[i].f = e   *p = e   (STATE below)
//     calls of methods that do such things, as statements or as the whole right-hand side
//     append(s, x...)   make(map[K]V)   make([]T, 0, n)   map[K]V{k: v, ...}   T{...} for a struct of the subset
//     results of type error, as a bool "err != nil" (errors.New(msg) = true after evaluating msg, nil = false,
//       err != nil / err == nil; what the error says is not modelled)
//     r, size := utf8.DecodeRuneInString(s)   n, err := strconv.ParseInt(s, base, bits)   string([]rune)
//       (library functions that stay parameters: f_utf8_DecodeRuneInString, f_strconv_ParseInt, f_string_runes;
//        likewise strings.ToLower / ToUpper, x.M() on an interface parameter, v.String() of a data.Value)
//     log.Print* (skipped: the process log is not modelled), hooks named in the configuration
//     for i, ch := range s over the RUNES of a string (written out through utf8.DecodeRuneInString, see runeRange)
//     a local `var b bytes.Buffer` as the bytes written so far: b.WriteString(s) b.Write(p) b.WriteByte(c) b.Reset()
//       template.HTMLEscape(&b, p) (text/template; the escaping itself is the parameter f_template_HTMLEscape : bstr -> bstr)
//       b.String() b.Bytes() b.Len(); any other use of the variable is refused (copies and pointers would alias)
//     re.ReplaceAllString(s, repl) on a package-level `var re = regexp.MustCompile(<constant>)`: the parameter
//       re_<var>_ReplaceAllString : bstr -> bstr -> bstr (one per variable; the pattern text is emitted as src_<pkg>_<var>_pattern);
//       template.HTMLEscapeString as the parameter f_template_HTMLEscapeString
//     fields of /repo interface type of a struct parameter: n.F.M() and n.F ==/!= nil through the parameters m_n_F_nil,
//       m_n_F_M (a call on a nil field is None = Go's panic); a field that is a slice of nodes (of such an interface, or of
//       pointers to a /repo struct with a String method), ranged over and read through x.String() and len: the parameter
//       ms_n_F_String : list (option bstr) (None = a nil element)
//     fmt.Sprintf with a constant format of text, %%, %s (a string, or such a field: its String(), "%!s(<nil>)" when nil),
//       %d (an integer), %q (strconv.Quote as the parameter f_strconv_Quote)
//     package-level `var m = make(map[V]K)` that a func init() fills as the inverse of a map literal (and nothing
//       else touches): the inverse list, provided the literal's values are distinct
//     panic(...)  and calls of methods whose own body ends in panic (t.errorf ...)
//     local `const` declarations (the name stands for its value); a local strings.Builder like a bytes.Buffer;
//       strings.Join(strings.Split(s, old), new) as strings.Replace(s, old, new, -1)
//     NORMALISATIONS (gotrans_norm.go), so that two spellings of one thing give one Gallina shape:
//       for i := 0; i < len(xs); i++ { ... xs[i] ... } with i used only as xs[i] = the range loop over xs;
//       a receiver-changing call that is an operand of a return / assignment expression whose other leaves are
//       literals and variables it does not change is taken out in front of the statement;
//       an interface-typed parameter handed on to a helper (its m_<param>_<Method> become the caller's)
//     INTERFACE of what is emitted, kept stable under refactoring:
//       `lookup:` items (gotrans_apply.go): a map literal OR a function in its role -> src_<pkg>_<name>_at : Z -> Z;
//       every function over data.Value also as <name>_V with the WHOLE value vocabulary as parameters;
//       helpers that no lemma names get `Hint Unfold ... : src_helpers` (proofs say `autounfold with src_helpers`);
//       a fuel measure may say `@var` for "the one local variable the loop assigns"
//   over bool, the integer types (int, rune, byte, uint32, uint64, named ones such as
//   itemType, ast.Pos, ast.AutoescapeType), string, []byte, slices and maps of those,
//   struct parameters / receivers that are only read (field x.f becomes parameter v_x_f),
//   and data.Value as an abstract type V (kind test through a parameter val_kind : V -> Z,
//   data.Undefined{} / data.Null{} through parameters).
//   Expressions: == != < <= > >= && || ! + - * / % & | ^ << >> &^, conversions, len,
//   s[i], m[k] for parameter maps and package-level map literals, rune / string / int
//   literals, constants of /repo's const blocks (resolved to their values, iota included),
//   calls of other translated functions, and a fixed list of library functions
//   (strings.IndexRune / ContainsRune on a literal, strings.HasPrefix / HasSuffix,
//   bytes.HasPrefix / HasSuffix, strings.Replace(s, old, new, -1), strconv.Itoa,
//   unicode.IsLetter / IsDigit / IsSpace as function parameters uni_letter ...).
//
// SEMANTICS
//   * int and uint are 64 bits wide (the platforms the harness runs on); every Go integer is a Coq Z.  Comparisons and constants need no care.  + - * and
//     unary - on a typed integer are emitted with the wrap of that type written out
//     (go_wrap_s 64 (...) / go_wrap_u 32 (...)), << on every integer type likewise, a
//     narrowing conversion wraps, / and % are accepted only with a non-zero constant
//     divisor (Z.quot / Z.rem: Go truncates toward zero).  Constant expressions are
//     evaluated exactly (go/constant), as Go does.
//   * strings and []byte are bstr (list N, bytes); s[i] is Z.of_N of the byte.
//   * whatever can panic (index out of range, an explicit panic, t.errorf) makes the
//     function partial: its result type becomes `option T`, None = "Go panics".  && and ||
//     keep their short-circuit behaviour with respect to partial operands.
//   * maps are association lists (first match); package-level map literals are emitted as
//     src_<pkg>_<var> in source order (Go rejects duplicate constant keys).
//   * local variables and parameters are named v_<name>[_<version>]: an assignment is a
//     new let.  Everything else the translator binds lives in other name spaces (val_*, uni_*,
//     f_*, m_*, fld_*, o<n>, V), so no Go name can capture it.  Control flow is translated by continuation: `if c { A }; rest`
//     becomes `if c then [A; rest] else [rest]` when a branch can leave (return, break, continue, panic); when no branch
//     can, the if is an expression whose value is the tuple of the variables its branches assign, and rest follows once:
//     `let '(x, y) := (if c then [A; (x', y')] else (x, y)) in [rest]` (go_bind instead of let when A can panic).
//     The same for a switch statement none of whose clauses can leave (fallthrough is allowed: the next clause's body
//     is translated in place; break is not): `go_bind (let tag := e in if tag = k1 then [A1; A2; (x', y')] else if ...
//     else (x, y)) (fun '(x, y) => [rest])`, so what follows a falling-through switch is translated once, not per case.
//
// LOOPS
//   A loop becomes a top-level Fixpoint <function>_loop<k> (k = number of the loop in source
//   order; _v2 ... when the same loop is reached with different bindings).  Its parameters are,
//   in this order: the fuel, the implicit parameters, the variables the loop only reads (in
//   declaration order), the variables it assigns (its state, in declaration order).  It returns
//   option (go_flow State Result): go_exit st = the loop ended (condition false, or break) in
//   state st; go_ret r = a return statement ran; None = Go panics inside the loop OR THE FUEL RAN
//   OUT.  The fuel is
//     - S (Z.to_nat (b - a)) [+1 for <=] for `for i := a; i < b; i++` (and the mirrored i-- forms)
//       whose body assigns neither i nor anything b reads: provably enough, never exhausted;
//     - S (len xs) for `for i := range xs`; none at all for `for _, x := range xs` / `for i, x :=
//       range xs` (structural recursion over the list; xs is evaluated once, as in Go);
//     - for every other loop, the measure stated for it in gotrans_apply.go (gtCfg.fuel: a Go
//       expression over what is in scope at the loop, meaning "iterations + 1 at most").  A
//       measure that is too small makes the translation answer None where Go goes on; a lemma
//       `model = Some ...` about the function therefore also proves the measure sufficient, and
//       where a lemma states None it says which of the two it is.
//   Spellings of one loop are brought to ONE form first (gotrans_norm.go): an index walk that uses its index only as
//   xs[i] is the range loop over xs; a walk from the END of xs (`for i := range xs {.. xs[len(xs)-i-1] ..}`,
//   `for i := len(xs)-1; i >= 0; i--`, `for d := len(xs); d > 0; d-- {.. xs[d-1] ..}`) is the list loop over
//   `rev xs` -- with a key j counting from the end, and the counter defined from j in the body, when the counter is
//   used as a number too.
//   A method `func (s T) top() *E { return &s[len(s)-1] }` is a name for that element: x.top().f is x[len(x)-1].f
//   (only directly under a field selection; gotrans_norm.go placeCall).
//
// STATE
//   Go's effects on data the caller can see become results.  A function's changed state is
//     - the fields it assigns of a struct parameter passed by pointer (a method's receiver),
//     - a slice / map parameter whose ELEMENTS it assigns (by value or by pointer: the elements
//       are shared with the caller either way), or that it assigns through a pointer (*s = e),
//     - whatever the methods it calls on those change,
//   in parameter order, fields in field order; the translated function returns
//   (changed state ..., results ...).  A call of such a function is accepted as a statement or
//   as the whole right-hand side of an assignment / declaration, and rebinds the caller's names.
//   Maps are association lists: m[k] = v replaces the first entry for k or appends one
//   (go_map_set_*); only lookups observe a map, so the order is not observable.  A struct that
//   is an element of a slice or map is the tuple of its fields (all must be in the subset).
//   VALUE SEMANTICS, and what is refused to keep it faithful: the translation treats slices and
//   maps as values.  That is Go's behaviour as long as no two names reach the same backing
//   store while one of them is assigned through.  Therefore: `&x` and function literals are
//   refused; in a function that assigns elements, a local variable of slice / map type must be
//   fresh (make, a literal, append); a parameter may not be both reassigned and have its elements
//   assigned.  NOT checked (part of the trusted reading): that two parameters of one call do not
//   alias each other, and that append's possible reuse of the backing array is not observed
//   through an older slice.  s[lo:hi] on a slice answers None beyond len (Go allows up to cap,
//   which is not modelled).

import (
	"fmt"
	"go/ast"
	"go/constant"
	"go/parser"
	"go/token"
	"os"
	"path/filepath"
	"sort"
	"strings"
)

// ---------------------------------------------------------------------------------------
// types
// ---------------------------------------------------------------------------------------

type gkind int

const (
	kBool gkind = iota
	kInt
	kString // string and []byte
	kSlice
	kMap
	kValue // data.Value
	kStruct
	kOther // a type the subset does not cover (only harmful when used)
)

type gfield struct {
	name string
	typ  *gtype
}

type gtype struct {
	kind      gkind
	name      string // as written in Go, for messages
	bits      int    // kInt
	signed    bool   // kInt
	untyped   bool   // kInt / kBool / kString: untyped constant
	elem, key *gtype
	fields    []gfield
	valueKind int    // for the concrete data types Undefined ... Map: index in valueKinds, else -1
	isErr     bool   // the predeclared type error, as a bool: "is not nil" (what the error says is not modelled)
	ndir      string // named type of /repo: its package directory ...
	nname     string // ... and its name (methods are looked up under it)
}

var (
	tBool   = &gtype{kind: kBool, name: "bool", valueKind: -1}
	tString = &gtype{kind: kString, name: "string", valueKind: -1}
	tBytes  = &gtype{kind: kString, name: "[]byte", valueKind: -1}
	tValue  = &gtype{kind: kValue, name: "data.Value", valueKind: -1}
	tUInt   = &gtype{kind: kInt, name: "untyped int", bits: 0, signed: true, untyped: true, valueKind: -1}
	tErr    = &gtype{kind: kBool, name: "error", valueKind: -1, isErr: true}
	// a LOCAL bytes.Buffer, declared by `var x bytes.Buffer`: the bytes written so far (see bufferStmt)
	tBuffer = &gtype{kind: kString, name: "bytes.Buffer", valueKind: -1}
	// an element of a slice of nodes (a /repo interface with String() string, or a pointer to a /repo struct with a
	// String method) that is only asked for its String(): what String() returns, None for a nil element
	tStringer = &gtype{kind: kOther, name: "a node read through String()", valueKind: -1}
)

func intType(name string, bits int, signed bool) *gtype {
	return &gtype{kind: kInt, name: name, bits: bits, signed: signed, valueKind: -1}
}

var basicInts = map[string]*gtype{
	"int": intType("int", 64, true), "int8": intType("int8", 8, true), "int16": intType("int16", 16, true),
	"int32": intType("int32", 32, true), "int64": intType("int64", 64, true), "rune": intType("rune", 32, true),
	"uint": intType("uint", 64, false), "uint8": intType("uint8", 8, false), "byte": intType("byte", 8, false),
	"uint16": intType("uint16", 16, false), "uint32": intType("uint32", 32, false), "uint64": intType("uint64", 64, false),
}

func (t *gtype) coq() string {
	if t == tStringer {
		return "option bstr"
	}
	switch t.kind {
	case kBool:
		return "bool"
	case kInt:
		return "Z"
	case kString:
		return "bstr"
	case kSlice:
		return "list " + paren(t.elem.coq())
	case kMap:
		return "list (" + t.key.coq() + " * " + t.elem.coq() + ")"
	case kValue:
		return "V"
	case kStruct:
		// a struct as a value (an element of a slice or map): the tuple of its fields, in field order
		var fs []string
		for _, fl := range t.fields {
			fs = append(fs, paren(fl.typ.coq()))
		}
		if len(fs) == 0 {
			return "unit"
		}
		return strings.Join(fs, " * ")
	}
	return "UNSUPPORTED"
}

// storable: a type whose values can be elements of slices and maps: a supported type, or a struct of such fields.
func (t *gtype) storable() bool {
	if t == tStringer {
		return true
	}
	if t.kind == kStruct {
		if len(t.fields) == 0 {
			return false
		}
		for _, fl := range t.fields {
			if !fl.typ.supported() {
				return false
			}
		}
		return true
	}
	return t.supported()
}

func paren(s string) string {
	if strings.ContainsAny(s, " ") {
		return "(" + s + ")"
	}
	return s
}

func (t *gtype) supported() bool {
	switch t.kind {
	case kBool, kInt, kString, kValue:
		return true
	case kSlice:
		return t.elem.storable()
	case kMap:
		return t.key.supported() && t.elem.storable() && (t.key.kind == kInt || t.key.kind == kString)
	}
	return false
}

func (t *gtype) usesValue() bool {
	switch t.kind {
	case kValue:
		return true
	case kSlice:
		return t.elem.usesValue()
	case kMap:
		return t.elem.usesValue()
	case kStruct:
		for _, fl := range t.fields {
			if fl.typ.kind != kStruct && fl.typ.usesValue() {
				return true
			}
		}
	}
	return false
}

// ---------------------------------------------------------------------------------------
// packages of /repo, parsed syntactically
// ---------------------------------------------------------------------------------------

type constDecl struct {
	expr ast.Expr // may be nil only on error
	typ  ast.Expr // may be nil
	iota int
	file *ast.File
	busy bool
	done bool
	val  constant.Value
	gt   *gtype
}

type gpkg struct {
	dir     string // relative to the repo, e.g. "parse"
	name    string // last component
	files   []*ast.File
	consts  map[string]*constDecl
	types   map[string]*ast.TypeSpec
	typeIn  map[string]*ast.File
	vars    map[string]*ast.ValueSpec
	varIn   map[string]*ast.File
	funcs   map[string]*ast.FuncDecl // "name" or "Recv.name"
	funcIn  map[string]*ast.File
	problem string
}

var gtPkgs = map[*gen]map[string]*gpkg{}

func (g *gen) gtPkg(dir string) *gpkg {
	if gtPkgs[g] == nil {
		gtPkgs[g] = map[string]*gpkg{}
	}
	if p, ok := gtPkgs[g][dir]; ok {
		return p
	}
	p := &gpkg{dir: dir, name: filepath.Base(dir), consts: map[string]*constDecl{}, types: map[string]*ast.TypeSpec{}, typeIn: map[string]*ast.File{},
		vars: map[string]*ast.ValueSpec{}, varIn: map[string]*ast.File{}, funcs: map[string]*ast.FuncDecl{}, funcIn: map[string]*ast.File{}}
	gtPkgs[g][dir] = p
	ents, err := os.ReadDir(filepath.Join(g.repo, dir))
	if err != nil {
		p.problem = err.Error()
		return p
	}
	var names []string
	for _, e := range ents {
		n := e.Name()
		if e.IsDir() || !strings.HasSuffix(n, ".go") || strings.HasSuffix(n, "_test.go") {
			continue
		}
		names = append(names, n)
	}
	sort.Strings(names)
	for _, n := range names {
		f := g.file(filepath.ToSlash(filepath.Join(dir, n)))
		if f.Name == nil {
			p.problem = "parse error in " + n
			continue
		}
		if hasBuildConstraint(f) {
			continue // hook files (//go:build verif / !verif) define nothing the models mirror
		}
		p.files = append(p.files, f)
		for _, d := range f.Decls {
			switch d := d.(type) {
			case *ast.FuncDecl:
				key := d.Name.Name
				if d.Recv != nil && len(d.Recv.List) == 1 {
					key = recvTypeName(d) + "." + key
				}
				p.funcs[key] = d
				p.funcIn[key] = f
			case *ast.GenDecl:
				switch d.Tok {
				case token.TYPE:
					for _, s := range d.Specs {
						ts := s.(*ast.TypeSpec)
						p.types[ts.Name.Name] = ts
						p.typeIn[ts.Name.Name] = f
					}
				case token.VAR:
					for _, s := range d.Specs {
						vs := s.(*ast.ValueSpec)
						for _, n := range vs.Names {
							p.vars[n.Name] = vs
							p.varIn[n.Name] = f
						}
					}
				case token.CONST:
					var lastVals []ast.Expr
					var lastTyp ast.Expr
					for i, s := range d.Specs {
						vs := s.(*ast.ValueSpec)
						if len(vs.Values) > 0 {
							lastVals, lastTyp = vs.Values, vs.Type
						}
						for j, n := range vs.Names {
							cd := &constDecl{typ: lastTyp, iota: i, file: f}
							if j < len(lastVals) {
								cd.expr = lastVals[j]
							}
							p.consts[n.Name] = cd
						}
					}
				}
			}
		}
	}
	return p
}

func hasBuildConstraint(f *ast.File) bool {
	for _, cg := range f.Comments {
		if cg.Pos() > f.Package {
			break
		}
		for _, c := range cg.List {
			if strings.HasPrefix(c.Text, "//go:build") || strings.HasPrefix(c.Text, "// +build") {
				return true
			}
		}
	}
	return false
}

func recvTypeName(fd *ast.FuncDecl) string {
	t := fd.Recv.List[0].Type
	if st, ok := t.(*ast.StarExpr); ok {
		t = st.X
	}
	if id, ok := t.(*ast.Ident); ok {
		return id.Name
	}
	return "?"
}

const repoModule = "github.com/robfig/soy"

// importDir resolves a package qualifier used in file f to a directory of /repo ("" if it is not a /repo package)
// and to its import path.
func importOf(f *ast.File, qual string) (path string) {
	for _, im := range f.Imports {
		p := strings.Trim(im.Path.Value, "\"`")
		local := filepath.Base(p)
		if im.Name != nil {
			local = im.Name.Name
		}
		if local == qual {
			return p
		}
	}
	return ""
}

func repoDirOf(path string) (string, bool) {
	if path == repoModule {
		return ".", true
	}
	if strings.HasPrefix(path, repoModule+"/") {
		return strings.TrimPrefix(path, repoModule+"/"), true
	}
	return "", false
}

// ---------------------------------------------------------------------------------------
// type resolution
// ---------------------------------------------------------------------------------------

type gtErr struct{ msg string }

func gtFail(format string, args ...interface{}) { panic(gtErr{fmt.Sprintf(format, args...)}) }

func (g *gen) resolveType(p *gpkg, f *ast.File, e ast.Expr, depth int) *gtype {
	if depth > 20 {
		gtFail("type recursion")
	}
	switch x := e.(type) {
	case *ast.ParenExpr:
		return g.resolveType(p, f, x.X, depth+1)
	case *ast.Ident:
		switch x.Name {
		case "bool":
			return tBool
		case "string":
			return tString
		case "error":
			if _, shadowed := p.types["error"]; !shadowed {
				return tErr
			}
		}
		if t, ok := basicInts[x.Name]; ok {
			return t
		}
		if ts, ok := p.types[x.Name]; ok {
			if p.dir == "data" {
				if x.Name == "Value" {
					return tValue
				}
				if k := kindCode(x.Name); k >= 0 {
					u := *g.resolveType(p, p.typeIn[x.Name], ts.Type, depth+1)
					u.name = "data." + x.Name
					u.valueKind = k
					u.ndir, u.nname = p.dir, x.Name
					return &u
				}
			}
			u := *g.resolveType(p, p.typeIn[x.Name], ts.Type, depth+1)
			u.name = p.name + "." + x.Name
			u.ndir, u.nname = p.dir, x.Name
			return &u
		}
		return &gtype{kind: kOther, name: x.Name, valueKind: -1}
	case *ast.SelectorExpr:
		if q, ok := x.X.(*ast.Ident); ok {
			if dir, ok := repoDirOf(importOf(f, q.Name)); ok {
				p2 := g.gtPkg(dir)
				return g.resolveType(p2, nil, &ast.Ident{Name: x.Sel.Name}, depth+1)
			}
			if importOf(f, q.Name) == "" {
				// only reachable from a fragment configuration (Go itself rejects an unimported qualifier):
				// the qualifier names a directory of /repo
				if p2 := g.gtPkg(q.Name); len(p2.files) > 0 {
					return g.resolveType(p2, nil, &ast.Ident{Name: x.Sel.Name}, depth+1)
				}
			}
			if f != nil && importOf(f, q.Name) == "bytes" && x.Sel.Name == "Buffer" {
				return tBuffer
			}
			// a local strings.Builder is used through the same methods (it has no Bytes; Go rejects that call itself)
			if f != nil && importOf(f, q.Name) == "strings" && x.Sel.Name == "Builder" {
				return tBuffer
			}
			return &gtype{kind: kOther, name: q.Name + "." + x.Sel.Name, valueKind: -1}
		}
	case *ast.StarExpr:
		t := g.resolveType(p, f, x.X, depth+1)
		if t.kind == kStruct || ((t.kind == kSlice || t.kind == kMap) && t.nname != "") {
			return t // a pointer to a struct, or to a named slice / map type (a receiver): the pointee
		}
		return &gtype{kind: kOther, name: "*" + t.name, valueKind: -1}
	case *ast.ArrayType:
		if x.Len != nil {
			return &gtype{kind: kOther, name: "array", valueKind: -1}
		}
		el := g.resolveType(p, f, x.Elt, depth+1)
		if el.kind == kInt && el.bits == 8 && !el.signed {
			return tBytes
		}
		return &gtype{kind: kSlice, name: "[]" + el.name, elem: el, valueKind: -1}
	case *ast.Ellipsis:
		el := g.resolveType(p, f, x.Elt, depth+1)
		return &gtype{kind: kSlice, name: "..." + el.name, elem: el, valueKind: -1}
	case *ast.MapType:
		k := g.resolveType(p, f, x.Key, depth+1)
		v := g.resolveType(p, f, x.Value, depth+1)
		return &gtype{kind: kMap, name: "map[" + k.name + "]" + v.name, key: k, elem: v, valueKind: -1}
	case *ast.StructType:
		t := &gtype{kind: kStruct, name: "struct", valueKind: -1}
		for _, fl := range x.Fields.List {
			ft := g.resolveTypeSoft(p, f, fl.Type, depth+1)
			for _, n := range fl.Names {
				t.fields = append(t.fields, gfield{n.Name, ft})
			}
		}
		return t
	case *ast.InterfaceType, *ast.FuncType, *ast.ChanType:
		return &gtype{kind: kOther, name: "interface/func/chan", valueKind: -1}
	}
	return &gtype{kind: kOther, name: fmt.Sprintf("%T", e), valueKind: -1}
}

// resolveTypeSoft never fails (struct fields of types outside the subset are fine as long as they are not read).
func (g *gen) resolveTypeSoft(p *gpkg, f *ast.File, e ast.Expr, depth int) (t *gtype) {
	defer func() {
		if r := recover(); r != nil {
			if _, ok := r.(gtErr); !ok {
				panic(r)
			}
			t = &gtype{kind: kOther, name: "?", valueKind: -1}
		}
	}()
	return g.resolveType(p, f, e, depth)
}

// ---------------------------------------------------------------------------------------
// constants
// ---------------------------------------------------------------------------------------

var libConsts = map[string]int64{
	"utf8.RuneError": 0xFFFD, "utf8.MaxRune": 0x10FFFF, "utf8.UTFMax": 4, "utf8.RuneSelf": 0x80,
	"unicode.MaxRune": 0x10FFFF, "unicode.ReplacementChar": 0xFFFD,
	"math.MaxInt32": 1<<31 - 1, "math.MinInt32": -1 << 31, "math.MaxInt64": 1<<63 - 1, "math.MinInt64": -1 << 63,
	"math.MaxUint8": 255, "math.MaxUint32": 1<<32 - 1,
}

// constOf returns the value of the package-level constant name of p (ok=false if there is none).
func (g *gen) constOf(p *gpkg, name string) (constant.Value, *gtype, bool) {
	cd, ok := p.consts[name]
	if !ok {
		return nil, nil, false
	}
	if cd.done {
		return cd.val, cd.gt, true
	}
	if cd.busy {
		gtFail("constant %s.%s: initialisation cycle", p.name, name)
	}
	if cd.expr == nil {
		gtFail("constant %s.%s: no initialiser", p.name, name)
	}
	cd.busy = true
	v, t, isConst := g.constEval(p, cd.file, cd.expr, cd.iota, nil)
	cd.busy = false
	if !isConst {
		gtFail("constant %s.%s: initialiser is not a constant expression of the subset", p.name, name)
	}
	if cd.typ != nil {
		dt := g.resolveType(p, cd.file, cd.typ, 0)
		v, t = convertConst(v, t, dt, p.name+"."+name)
	}
	cd.val, cd.gt, cd.done = v, t, true
	return v, t, true
}

func convertConst(v constant.Value, from, to *gtype, what string) (constant.Value, *gtype) {
	switch to.kind {
	case kInt:
		if v.Kind() != constant.Int {
			gtFail("%s: constant %s converted to %s", what, v, to.name)
		}
		if to.bits > 0 && !fitsInt(v, to) {
			gtFail("%s: constant %s overflows %s", what, v, to.name)
		}
		return v, to
	case kBool:
		if v.Kind() == constant.Bool {
			return v, to
		}
	case kString:
		if v.Kind() == constant.String {
			return v, to
		}
	}
	gtFail("%s: constant conversion to %s is outside the subset", what, to.name)
	return nil, nil
}

func fitsInt(v constant.Value, t *gtype) bool {
	lo, hi := intRange(t)
	return constant.Compare(v, token.GEQ, lo) && constant.Compare(v, token.LEQ, hi)
}

func intRange(t *gtype) (lo, hi constant.Value) {
	one := constant.MakeInt64(1)
	if t.signed {
		h := constant.Shift(one, token.SHL, uint(t.bits-1))
		return constant.UnaryOp(token.SUB, h, 0), constant.BinaryOp(h, token.SUB, one)
	}
	return constant.MakeInt64(0), constant.BinaryOp(constant.Shift(one, token.SHL, uint(t.bits)), token.SUB, one)
}

// constEval evaluates e if it is a constant expression; locals (may be nil) are the names that are variables here.
func (g *gen) constEval(p *gpkg, f *ast.File, e ast.Expr, iota int, isVar func(string) bool) (constant.Value, *gtype, bool) {
	switch x := e.(type) {
	case *ast.ParenExpr:
		return g.constEval(p, f, x.X, iota, isVar)
	case *ast.BasicLit:
		switch x.Kind {
		case token.INT:
			v := constant.MakeFromLiteral(x.Value, token.INT, 0)
			if v.Kind() == constant.Int {
				return v, tUInt, true
			}
		case token.CHAR:
			v := constant.MakeFromLiteral(x.Value, token.CHAR, 0)
			if v.Kind() == constant.Int {
				return v, &gtype{kind: kInt, name: "untyped rune", bits: 0, signed: true, untyped: true, valueKind: -1}, true
			}
		case token.STRING:
			v := constant.MakeFromLiteral(x.Value, token.STRING, 0)
			if v.Kind() == constant.String {
				return v, &gtype{kind: kString, name: "untyped string", untyped: true, valueKind: -1}, true
			}
		}
		return nil, nil, false
	case *ast.Ident:
		if isVar != nil && isVar(x.Name) {
			return nil, nil, false
		}
		switch x.Name {
		case "true", "false":
			return constant.MakeBool(x.Name == "true"), &gtype{kind: kBool, name: "untyped bool", untyped: true, valueKind: -1}, true
		case "iota":
			if iota >= 0 {
				return constant.MakeInt64(int64(iota)), tUInt, true
			}
			return nil, nil, false
		}
		if v, t, ok := g.constOf(p, x.Name); ok {
			return v, t, true
		}
		return nil, nil, false
	case *ast.SelectorExpr:
		q, ok := x.X.(*ast.Ident)
		if !ok || (isVar != nil && isVar(q.Name)) || f == nil {
			return nil, nil, false
		}
		path := importOf(f, q.Name)
		if dir, ok := repoDirOf(path); ok {
			if v, t, ok := g.constOf(g.gtPkg(dir), x.Sel.Name); ok {
				return v, t, true
			}
			return nil, nil, false
		}
		if v, ok := libConsts[filepath.Base(path)+"."+x.Sel.Name]; ok && path != "" {
			return constant.MakeInt64(v), tUInt, true
		}
		return nil, nil, false
	case *ast.UnaryExpr:
		v, t, ok := g.constEval(p, f, x.X, iota, isVar)
		if !ok {
			return nil, nil, false
		}
		switch x.Op {
		case token.SUB, token.ADD:
			if v.Kind() == constant.Int {
				r := constant.UnaryOp(x.Op, v, 0)
				if !t.untyped && !fitsInt(r, t) {
					gtFail("constant expression overflows %s", t.name)
				}
				return r, t, true
			}
		case token.NOT:
			if v.Kind() == constant.Bool {
				return constant.UnaryOp(token.NOT, v, 0), t, true
			}
		case token.XOR:
			if v.Kind() == constant.Int && (t.untyped || t.signed) {
				return constant.UnaryOp(token.XOR, v, 0), t, true
			}
			if v.Kind() == constant.Int {
				return constant.UnaryOp(token.XOR, v, uint(t.bits)), t, true
			}
		}
		return nil, nil, false
	case *ast.BinaryExpr:
		a, ta, ok1 := g.constEval(p, f, x.X, iota, isVar)
		if !ok1 {
			return nil, nil, false
		}
		c, tc, ok2 := g.constEval(p, f, x.Y, iota, isVar)
		if !ok2 {
			return nil, nil, false
		}
		switch x.Op {
		case token.SHL, token.SHR:
			if a.Kind() != constant.Int || c.Kind() != constant.Int {
				return nil, nil, false
			}
			n, exact := constant.Uint64Val(c)
			if !exact || n > 512 {
				gtFail("constant shift count out of range")
			}
			r := constant.Shift(a, x.Op, uint(n))
			if !ta.untyped && !fitsInt(r, ta) {
				gtFail("constant expression overflows %s", ta.name)
			}
			return r, ta, true
		case token.EQL, token.NEQ, token.LSS, token.LEQ, token.GTR, token.GEQ:
			if a.Kind() != c.Kind() {
				return nil, nil, false
			}
			return constant.MakeBool(constant.Compare(a, x.Op, c)), &gtype{kind: kBool, name: "untyped bool", untyped: true, valueKind: -1}, true
		case token.LAND, token.LOR:
			if a.Kind() != constant.Bool || c.Kind() != constant.Bool {
				return nil, nil, false
			}
			return constant.BinaryOp(a, x.Op, c), ta, true
		}
		rt := ta
		if ta.untyped {
			rt = tc
		}
		switch {
		case a.Kind() == constant.Int && c.Kind() == constant.Int:
			op := x.Op
			switch op {
			case token.QUO:
				if constant.Sign(c) == 0 {
					gtFail("constant division by zero")
				}
				op = token.QUO_ASSIGN // integer division
			case token.REM:
				if constant.Sign(c) == 0 {
					gtFail("constant division by zero")
				}
			case token.ADD, token.SUB, token.MUL, token.AND, token.OR, token.XOR, token.AND_NOT:
			default:
				return nil, nil, false
			}
			r := constant.BinaryOp(a, op, c)
			if !rt.untyped && !fitsInt(r, rt) {
				gtFail("constant expression overflows %s", rt.name)
			}
			return r, rt, true
		case a.Kind() == constant.String && c.Kind() == constant.String && x.Op == token.ADD:
			return constant.BinaryOp(a, token.ADD, c), rt, true
		}
		return nil, nil, false
	case *ast.CallExpr:
		// a conversion T(const)
		if len(x.Args) != 1 || x.Ellipsis.IsValid() {
			return nil, nil, false
		}
		if !g.isTypeExpr(p, f, x.Fun, isVar) {
			return nil, nil, false
		}
		v, t, ok := g.constEval(p, f, x.Args[0], iota, isVar)
		if !ok {
			return nil, nil, false
		}
		dt := g.resolveType(p, f, x.Fun, 0)
		if dt.kind == kString && t.kind == kInt {
			return nil, nil, false // string(rune): not in the subset
		}
		if dt.kind == kString && dt == tBytes {
			return nil, nil, false // []byte("..."): a value, not a Go constant; handled as an expression
		}
		v2, t2 := convertConst(v, t, dt, "conversion")
		return v2, t2, true
	}
	return nil, nil, false
}

// isTypeExpr: does e denote a type (so that e(x) is a conversion)?
func (g *gen) isTypeExpr(p *gpkg, f *ast.File, e ast.Expr, isVar func(string) bool) bool {
	switch x := e.(type) {
	case *ast.ParenExpr:
		return g.isTypeExpr(p, f, x.X, isVar)
	case *ast.Ident:
		if isVar != nil && isVar(x.Name) {
			return false
		}
		if x.Name == "bool" || x.Name == "string" {
			return true
		}
		if _, ok := basicInts[x.Name]; ok {
			return true
		}
		if _, ok := p.funcs[x.Name]; ok {
			return false
		}
		_, ok := p.types[x.Name]
		return ok
	case *ast.SelectorExpr:
		q, ok := x.X.(*ast.Ident)
		if !ok || f == nil || (isVar != nil && isVar(q.Name)) {
			return false
		}
		if dir, ok := repoDirOf(importOf(f, q.Name)); ok {
			_, isT := g.gtPkg(dir).types[x.Sel.Name]
			return isT
		}
		return false
	case *ast.ArrayType:
		return true
	}
	return false
}

// gtParseExpr is used by fragments configured with a Go expression text.
func gtParseExpr(s string) ast.Expr {
	e, err := parser.ParseExpr(s)
	if err != nil {
		gtFail("internal: cannot parse %q", s)
	}
	return e
}
