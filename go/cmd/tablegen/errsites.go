package main

// parse/*.go: every place the parser raises an error (C19, parse half).
//
//   parser_error_sites         one row per (function, kind, argument, binding) with its number of
//                              occurrences:
//                                function the REVIEWED function (errSiteRoots: the functions of parse.go that
//                                         Proofs/ErrPosSites.v maps to model procedures) the site belongs to AFTER
//                                         INLINING: every other function of package parse that has the parser at
//                                         hand (receiver or parameter of type *tree) is a helper, and its sites --
//                                         and those of the helpers it calls -- are counted at each of its call
//                                         sites, in the reviewed function the chain of calls starts from.  A
//                                         function that nobody in the package calls and that is not reviewed
//                                         (an entry point, a new command) keeps its own name.
//                                kind     errorf | error | unexpected | expect | errorAt
//                                argument expect: the item type expected (a helper's parameter is replaced by what
//                                         the call site passes); errorAt: the token expression; else empty
//                                binding  unexpected: where the token complained about gets its value in the
//                                         function -- a sorted "+"-joined set of
//                                         next | expect | nextNonComment | peek | param
//                                         (a helper's parameter is replaced by the binding of the call site's
//                                         argument; anything else is reported as untranslatable: the model passes
//                                         `unexpected` the token a next()/expect() has just returned)
//                              The rows are a multiset: Proofs/ErrPosSites.v compares them with the reviewed list
//                              regardless of order.  The NAMES of local variables and of helpers do not occur.
//                              So splitting a helper off a reviewed function, inlining one, reordering functions
//                              or statements and renaming locals leave the table alone; a call site added anywhere
//                              (a new row or a larger count, under the reviewed function it is reached from) or a
//                              site that complains about another token (another binding) changes it.
//   parser_error_site_roots    errSiteRoots, so that the Coq side checks it is its own list of reviewed functions
//   parser_error_prefix_format the format errorAt prepends ("template %s:%d:%d: %s"), after checking that its
//                              arguments are t.name, lineNumber(tok.pos), columnNumber(tok.pos), format and
//                              that the same name / line / column go into errortypes.NewErrFilePosf
//   parser_errorf_token        the shape of errorf's choice of token, as a fixed string once checked:
//                              token[0], or token[peekCount-1] when peekCount > 0
//
// The reporting functions themselves (expect, unexpected, errorf, errorAt, error, recover) are not sites.
// Limits (reported as untranslatable, never guessed): a reporting method used as a value (`f := t.errorf`), the
// parser copied into another variable, a site in a method of another type that is handed the parser.

import (
	"bytes"
	"go/ast"
	"go/printer"
	"os"
	"path/filepath"
	"sort"
	"strings"
)

func init() {
	register("48-parser-error-sites", (*gen).parserErrorSites)
}

var errReporters = map[string]bool{"expect": true, "unexpected": true, "errorf": true, "errorAt": true, "error": true, "recover": true}
var errKinds = map[string]bool{"expect": true, "unexpected": true, "errorf": true, "errorAt": true, "error": true}
var errBinders = map[string]bool{"next": true, "expect": true, "nextNonComment": true, "peek": true}

// the reviewed functions: keys of cover_map in Proofs/ErrPosSites.v (checked there: roots_are_cover_map)
var errSiteRoots = []string{
	"textOrTag", "beginTag", "parsePrint", "parseAlias", "parseLet", "parseCss", "parseCall", "parseCallParams",
	"parseSwitch", "parseCase", "parseFor", "parseIf", "parseSoyDoc", "parseAttrs", "parseMsg", "parsePlural",
	"notmsg", "parseNamespace", "parseAutoescape", "parseTemplate", "parseHeaderParam", "boolAttr",
	"parseExprFirstTerm", "parseDataRef", "parseListOrMap", "parseListLiteral", "parseMapLiteral", "parseTernary",
	"newValueNode", "newFunctionNode",
}

func (g *gen) exprStr(e ast.Expr) string {
	var b bytes.Buffer
	printer.Fprint(&b, g.fset, e)
	return b.String()
}

// a function of package parse that has the parser at hand
type esFunc struct {
	name   string
	fd     *ast.FuncDecl
	trees  map[string]bool // receiver / parameters of type *tree
	params []string        // parameter names in order ("" for unnamed / variadic)
}

type esRow struct{ kind, arg, bind string }

// what a helper's parameter stands for at one call site
type esArg struct {
	bind   string // binding of the argument when it is a token the caller bound by next / expect / ...; "" unknown
	expr   string // the argument's text (a caller's parameter replaced in turn)
	hasTxt bool
}

type esCtx struct {
	g     *gen
	funcs map[string]*esFunc
	roots map[string]bool
}

func isTreeType(e ast.Expr) bool {
	if st, ok := e.(*ast.StarExpr); ok {
		e = st.X
	}
	id, ok := e.(*ast.Ident)
	return ok && id.Name == "tree"
}

// treeCall recognises <parser>.<name>(...) and returns name
func (f *esFunc) treeCall(e ast.Expr) (string, *ast.CallExpr) {
	c, ok := e.(*ast.CallExpr)
	if !ok {
		return "", nil
	}
	sel, ok := c.Fun.(*ast.SelectorExpr)
	if !ok {
		return "", nil
	}
	if id, ok := sel.X.(*ast.Ident); !ok || !f.trees[id.Name] {
		return "", nil
	}
	return sel.Sel.Name, c
}

func (f *esFunc) isParam(name string) bool {
	for _, p := range f.params {
		if p == name && p != "" {
			return true
		}
	}
	return false
}

// bindingOf: how the token expression e gets its value inside f (env: what f's parameters stand for when f is a
// helper being inlined)
func (c *esCtx) bindingOf(f *esFunc, e ast.Expr, env map[string]esArg) (string, bool) {
	if fn, call := f.treeCall(e); call != nil {
		if errBinders[fn] {
			return fn, true
		}
		return "", false
	}
	id, isId := e.(*ast.Ident)
	if !isId {
		return "", false
	}
	name := id.Name
	set := map[string]bool{}
	ok := true
	if f.isParam(name) {
		if a, has := env[name]; has {
			if a.bind == "" {
				ok = false
			}
			for _, x := range strings.Split(a.bind, "+") {
				if x != "" {
					set[x] = true
				}
			}
		} else {
			set["param"] = true
		}
	}
	note := func(rhs ast.Expr) {
		if fn, call := f.treeCall(rhs); call != nil && errBinders[fn] {
			set[fn] = true
		} else {
			ok = false
		}
	}
	ast.Inspect(f.fd.Body, func(n ast.Node) bool {
		switch s := n.(type) {
		case *ast.AssignStmt:
			for i, l := range s.Lhs {
				if id, isId := l.(*ast.Ident); isId && id.Name == name {
					if len(s.Rhs) == len(s.Lhs) {
						note(s.Rhs[i])
					} else {
						ok = false
					}
				}
			}
		case *ast.ValueSpec:
			for i, id := range s.Names {
				if id.Name == name {
					if i < len(s.Values) && len(s.Values) == len(s.Names) {
						note(s.Values[i])
					} else {
						ok = false
					}
				}
			}
		case *ast.RangeStmt:
			for _, l := range []ast.Expr{s.Key, s.Value} {
				if id, isId := l.(*ast.Ident); isId && id.Name == name {
					ok = false
				}
			}
		}
		return true
	})
	var l []string
	for k := range set {
		l = append(l, k)
	}
	sort.Strings(l)
	if len(l) == 0 {
		ok = false
	}
	return strings.Join(l, "+"), ok
}

// calleeOf: the helper or reviewed function of the package a call goes to ("" when it is none of ours)
func (c *esCtx) calleeOf(f *esFunc, call *ast.CallExpr) string {
	switch fun := call.Fun.(type) {
	case *ast.Ident:
		if h, ok := c.funcs[fun.Name]; ok && h.fd.Recv == nil {
			return fun.Name
		}
	case *ast.SelectorExpr:
		if id, ok := fun.X.(*ast.Ident); ok && f.trees[id.Name] {
			if h, ok := c.funcs[fun.Sel.Name]; ok && h.fd.Recv != nil {
				return fun.Sel.Name
			}
		}
	}
	return ""
}

// sites: the rows of f after inlining its helpers, in order of occurrence
func (c *esCtx) sites(f *esFunc, env map[string]esArg, stack map[string]bool, add func(esRow, int)) {
	g := c.g
	stack[f.name] = true
	defer delete(stack, f.name)
	callFuns := map[ast.Expr]bool{}
	ast.Inspect(f.fd.Body, func(n ast.Node) bool {
		switch s := n.(type) {
		case *ast.CallExpr:
			callFuns[s.Fun] = true
		case *ast.SelectorExpr:
			if id, ok := s.X.(*ast.Ident); ok && f.trees[id.Name] && errKinds[s.Sel.Name] && !callFuns[s] {
				g.fail("parser error sites: %s: %s.%s is used as a value", f.name, id.Name, s.Sel.Name)
			}
		case *ast.AssignStmt:
			for _, r := range s.Rhs {
				if id, ok := r.(*ast.Ident); ok && f.trees[id.Name] {
					g.fail("parser error sites: %s: the parser %s is copied into another variable", f.name, id.Name)
				}
			}
		case *ast.ValueSpec:
			for _, r := range s.Values {
				if id, ok := r.(*ast.Ident); ok && f.trees[id.Name] {
					g.fail("parser error sites: %s: the parser %s is copied into another variable", f.name, id.Name)
				}
			}
		}
		e, ok := n.(ast.Expr)
		if !ok {
			return true
		}
		call, isCall := e.(*ast.CallExpr)
		if !isCall {
			return true
		}
		fn, _ := f.treeCall(e)
		if !errKinds[fn] {
			// a call of a helper: its sites are counted here
			callee := c.calleeOf(f, call)
			if callee == "" || c.roots[callee] || errReporters[callee] || stack[callee] {
				return true
			}
			h := c.funcs[callee]
			henv := map[string]esArg{}
			for i, p := range h.params {
				if p == "" || i >= len(call.Args) || call.Ellipsis.IsValid() {
					continue
				}
				var a esArg
				if b, okb := c.bindingOf(f, call.Args[i], env); okb {
					a.bind = b
				}
				if id, isId := call.Args[i].(*ast.Ident); isId && f.isParam(id.Name) {
					if up, has := env[id.Name]; has && up.hasTxt {
						a.expr, a.hasTxt = up.expr, true
					}
				}
				if !a.hasTxt {
					a.expr, a.hasTxt = g.exprStr(call.Args[i]), true
				}
				henv[p] = a
			}
			c.sites(h, henv, stack, add)
			return true
		}
		r := esRow{kind: fn}
		argText := func(x ast.Expr) string {
			if id, isId := x.(*ast.Ident); isId && f.isParam(id.Name) {
				if a, has := env[id.Name]; has && a.hasTxt {
					return a.expr
				}
			}
			return g.exprStr(x)
		}
		switch fn {
		case "unexpected":
			if len(call.Args) != 2 {
				g.fail("parser error sites: %s: unexpected with %d arguments", f.name, len(call.Args))
				return true
			}
			b, okb := c.bindingOf(f, call.Args[0], env)
			if !okb {
				g.fail("parser error sites: %s: unexpected(%s, ..): the token is not only bound by next/expect/nextNonComment/peek or a parameter", f.name, g.exprStr(call.Args[0]))
			}
			r.bind = b
		case "expect":
			if len(call.Args) != 2 {
				g.fail("parser error sites: %s: expect with %d arguments", f.name, len(call.Args))
				return true
			}
			r.arg = argText(call.Args[0])
		case "errorAt":
			// outside the reporting functions nobody calls errorAt today; a new caller chooses its own token
			if len(call.Args) > 0 {
				r.arg = argText(call.Args[0])
			}
		}
		add(r, 1)
		return true
	})
}

func (g *gen) parserErrorSites() {
	c := &esCtx{g: g, funcs: map[string]*esFunc{}, roots: map[string]bool{}}
	for _, r := range errSiteRoots {
		c.roots[r] = true
	}
	dir := filepath.Dir(parserRel)
	ents, err := os.ReadDir(filepath.Join(g.repo, dir))
	if err != nil || g.file(parserRel) == nil || len(g.file(parserRel).Decls) == 0 {
		g.fail("parser error sites: cannot read %s", parserRel)
		g.p("Definition parser_error_sites : list (bstr * bstr * bstr * bstr * N) := [].\nDefinition parser_error_site_roots : list bstr := [].\n")
		g.p("Definition parser_error_prefix_format : bstr := [].\nDefinition parser_errorf_token : bstr := [].\n\n")
		return
	}
	var names []string // in source order, parse.go first
	rels := []string{parserRel}
	for _, e := range ents {
		n := e.Name()
		if e.IsDir() || !strings.HasSuffix(n, ".go") || strings.HasSuffix(n, "_test.go") || filepath.Join(dir, n) == parserRel {
			continue
		}
		rels = append(rels, filepath.Join(dir, n))
	}
	for _, rel := range rels {
		for _, d := range g.file(rel).Decls {
			fd, ok := d.(*ast.FuncDecl)
			if !ok || fd.Body == nil {
				continue
			}
			f := &esFunc{name: fd.Name.Name, fd: fd, trees: map[string]bool{}}
			onTree := fd.Recv == nil
			if fd.Recv != nil && len(fd.Recv.List) == 1 && isTreeType(fd.Recv.List[0].Type) {
				onTree = true
				for _, n := range fd.Recv.List[0].Names {
					f.trees[n.Name] = true
				}
			}
			if fd.Type.Params != nil {
				for _, fl := range fd.Type.Params.List {
					_, variadic := fl.Type.(*ast.Ellipsis)
					if len(fl.Names) == 0 {
						f.params = append(f.params, "")
					}
					for _, n := range fl.Names {
						if isTreeType(fl.Type) {
							f.trees[n.Name] = true
						}
						if variadic || n.Name == "_" {
							f.params = append(f.params, "")
						} else {
							f.params = append(f.params, n.Name)
						}
					}
				}
			}
			if len(f.trees) == 0 {
				continue // cannot raise a parser error
			}
			if !onTree {
				// a method of another type that is handed the parser: not followed
				has := false
				ast.Inspect(fd.Body, func(n ast.Node) bool {
					if e, ok := n.(ast.Expr); ok {
						if fn, call := f.treeCall(e); call != nil && errKinds[fn] {
							has = true
						}
					}
					return true
				})
				if has {
					g.fail("parser error sites: %s: %s is a method of another type that raises parser errors", rel, fd.Name.Name)
				}
				continue
			}
			if errReporters[f.name] && fd.Recv != nil {
				continue
			}
			if _, dup := c.funcs[f.name]; dup {
				g.fail("parser error sites: two functions named %s have the parser at hand", f.name)
				continue
			}
			c.funcs[f.name] = f
			names = append(names, f.name)
		}
	}
	// who is called inside the package (by something other than itself)
	called := map[string]bool{}
	for _, n := range names {
		f := c.funcs[n]
		ast.Inspect(f.fd.Body, func(x ast.Node) bool {
			if call, ok := x.(*ast.CallExpr); ok {
				if callee := c.calleeOf(f, call); callee != "" && callee != n {
					called[callee] = true
				}
			}
			return true
		})
	}
	type row struct{ fn, kind, arg, bind string }
	var order []row
	count := map[row]int{}
	emit := func(n string) {
		c.sites(c.funcs[n], map[string]esArg{}, map[string]bool{}, func(r esRow, k int) {
			rr := row{n, r.kind, r.arg, r.bind}
			if count[rr] == 0 {
				order = append(order, rr)
			}
			count[rr] += k
		})
	}
	for _, n := range errSiteRoots {
		if c.funcs[n] != nil {
			emit(n)
		}
	}
	for _, n := range names {
		if !c.roots[n] && !called[n] {
			emit(n)
		}
	}
	g.p("(* package parse: every errorf / error / unexpected / expect / errorAt call site outside the reporting functions,\n   helpers inlined into the reviewed functions: (function, kind, argument, binding of the token, occurrences) *)\n")
	g.p("Definition parser_error_sites : list (bstr * bstr * bstr * bstr * N) := [\n")
	var js [][]interface{}
	for i, r := range order {
		sep := ";"
		if i == len(order)-1 {
			sep = ""
		}
		g.p("  (%s, %s, %s, %s, %d)%s (* %s %s %s %s *)\n", coqBytes(r.fn), coqBytes(r.kind), coqBytes(r.arg), coqBytes(r.bind), count[r], sep, r.fn, r.kind, r.arg, r.bind)
		js = append(js, []interface{}{r.fn, r.kind, r.arg, r.bind, count[r]})
	}
	g.p("].\n")
	g.js["parser_error_sites"] = js
	g.p("Definition parser_error_site_roots : list bstr := [%s].\n", strings.Join(mapStr(errSiteRoots, coqBytes), "; "))
	g.js["parser_error_site_roots"] = errSiteRoots

	// ---- errorAt: the prefix and the triple handed to NewErrFilePosf ----
	format := ""
	if fd := g.method(parserRel, "tree", "errorAt"); fd == nil || fd.Body == nil {
		g.fail("parser error sites: tree.errorAt not found")
	} else {
		cs := g.canonText(fd, []string{"tok", "format", "args"}, nil)
		const line = "t.lex.lineNumber(tok.pos)"
		const col = "t.lex.columnNumber(tok.pos)"
		okPrefix, okPanic := false, false
		ast.Inspect(fd.Body, func(n ast.Node) bool {
			switch s := n.(type) {
			case *ast.AssignStmt:
				if len(s.Lhs) == 1 && len(s.Rhs) == 1 && cs(s.Lhs[0]) == "format" {
					if c, ok := s.Rhs[0].(*ast.CallExpr); ok && cs(c.Fun) == "fmt.Sprintf" && len(c.Args) == 5 {
						if lit, ok := strLit(c.Args[0]); ok && cs(c.Args[1]) == "t.name" && cs(c.Args[2]) == line &&
							cs(c.Args[3]) == col && cs(c.Args[4]) == "format" {
							format, okPrefix = lit, true
						}
					}
				}
			case *ast.CallExpr:
				if cs(s.Fun) == "errortypes.NewErrFilePosf" && len(s.Args) == 5 && s.Ellipsis.IsValid() {
					if cs(s.Args[0]) == "t.name" && cs(s.Args[1]) == line && cs(s.Args[2]) == col &&
						cs(s.Args[3]) == "format" && cs(s.Args[4]) == "args" {
						okPanic = true
					}
				}
			}
			return true
		})
		if !okPrefix {
			g.fail("parser error sites: errorAt: the prefix is not fmt.Sprintf(<literal>, t.name, lineNumber(tok.pos), columnNumber(tok.pos), format)")
		}
		if !okPanic {
			g.fail("parser error sites: errorAt: NewErrFilePosf is not given t.name, lineNumber(tok.pos), columnNumber(tok.pos), format, args...")
		}
	}
	g.p("Definition parser_error_prefix_format : bstr := %s. (* %q *)\n", coqBytes(format), format)
	g.js["parser_error_prefix_format"] = format

	// ---- errorf: which token ----
	shape := ""
	if fd := g.method(parserRel, "tree", "errorf"); fd == nil || fd.Body == nil {
		g.fail("parser error sites: tree.errorf not found")
	} else {
		// the one local (the token chosen) is called tok in the canonical text
		local := map[string]string{}
		if len(fd.Body.List) > 0 {
			switch s := fd.Body.List[0].(type) {
			case *ast.DeclStmt:
				if gd, ok := s.Decl.(*ast.GenDecl); ok && len(gd.Specs) == 1 {
					if vs, ok := gd.Specs[0].(*ast.ValueSpec); ok && len(vs.Names) == 1 {
						local[vs.Names[0].Name] = "tok"
					}
				}
			case *ast.AssignStmt:
				if id, ok := s.Lhs[0].(*ast.Ident); ok && len(s.Lhs) == 1 {
					local[id.Name] = "tok"
				}
			}
		}
		cs := g.canonText(fd, []string{"format", "args"}, local)
		var b bytes.Buffer
		for _, s := range fd.Body.List {
			b.WriteString(cs(s))
			b.WriteString("\n")
		}
		var code []string
		for _, ln := range strings.Split(b.String(), "\n") {
			if i := strings.Index(ln, "//"); i >= 0 {
				ln = ln[:i]
			}
			code = append(code, ln)
		}
		got := strings.Join(strings.Fields(strings.Join(code, " ")), " ")
		got = strings.Replace(got, "tok := t.token[0]", "var tok = t.token[0]", 1)
		want := "var tok = t.token[0] if t.peekCount > 0 { tok = t.token[t.peekCount-1] } t.errorAt(tok, format, args...)"
		if got != want {
			g.fail("parser error sites: errorf: body is not `tok = token[0]; if peekCount > 0 { tok = token[peekCount-1] }; errorAt(tok, ...)`: %s", got)
		} else {
			shape = "token[0] | token[peekCount-1] if peekCount > 0"
		}
	}
	g.p("Definition parser_errorf_token : bstr := %s. (* %s *)\n\n", coqBytes(shape), shape)
}

// canonText prints a node of fd with the receiver called t, the parameters called as given and the listed locals
// renamed (identifiers only: a field or method of that name is left alone)
func (g *gen) canonText(fd *ast.FuncDecl, params []string, locals map[string]string) func(ast.Node) string {
	ren := map[string]string{}
	if fd.Recv != nil && len(fd.Recv.List) == 1 && len(fd.Recv.List[0].Names) == 1 {
		ren[fd.Recv.List[0].Names[0].Name] = "t"
	}
	i := 0
	if fd.Type.Params != nil {
		for _, fl := range fd.Type.Params.List {
			for _, n := range fl.Names {
				if i < len(params) {
					ren[n.Name] = params[i]
				}
				i++
			}
		}
	}
	for k, v := range locals {
		ren[k] = v
	}
	return func(n ast.Node) string {
		// rename on a copy of the identifiers' names, then restore
		var touched []*ast.Ident
		var old []string
		skip := map[*ast.Ident]bool{}
		ast.Inspect(n, func(x ast.Node) bool {
			switch y := x.(type) {
			case *ast.SelectorExpr:
				skip[y.Sel] = true
			case *ast.KeyValueExpr:
				if id, ok := y.Key.(*ast.Ident); ok {
					skip[id] = true
				}
			case *ast.Ident:
				if to, ok := ren[y.Name]; ok && !skip[y] {
					touched = append(touched, y)
					old = append(old, y.Name)
					y.Name = to
				}
			}
			return true
		})
		var b bytes.Buffer
		printer.Fprint(&b, g.fset, n)
		for k, id := range touched {
			id.Name = old[k]
		}
		return b.String()
	}
}
