package main

// parse/parse.go: every place the parser raises an error (C19, parse half).
//
//   parser_error_sites         one row per (function, kind, argument, binding) with its number of
//                              occurrences, in source order of the functions:
//                                kind     errorf | error | unexpected | expect | errorAt
//                                argument unexpected: the token variable complained about;
//                                         expect: the item type expected; else empty
//                                binding  unexpected: where that variable gets its value in the function --
//                                         a sorted "+"-joined set of  next | expect | nextNonComment | peek | param
//                                         (anything else is reported as untranslatable: the model passes
//                                         `unexpected` the token a next()/expect() has just returned)
//                              A call site added to parse.go shows up as a new row (or a larger count):
//                              Proofs/ErrPosSites.v compares the rows with the reviewed list.
//   parser_error_prefix_format the format errorAt prepends ("template %s:%d:%d: %s"), after checking that its
//                              arguments are t.name, lineNumber(tok.pos), columnNumber(tok.pos), format and
//                              that the same name / line / column go into errortypes.NewErrFilePosf
//   parser_errorf_token        the shape of errorf's choice of token, as a fixed string once checked:
//                              token[0], or token[peekCount-1] when peekCount > 0
//
// The reporting functions themselves (expect, unexpected, errorf, errorAt, error, recover) are not sites.

import (
	"bytes"
	"go/ast"
	"go/printer"
	"sort"
	"strings"
)

func init() {
	register("48-parser-error-sites", (*gen).parserErrorSites)
}

var errReporters = map[string]bool{"expect": true, "unexpected": true, "errorf": true, "errorAt": true, "error": true, "recover": true}
var errKinds = map[string]bool{"expect": true, "unexpected": true, "errorf": true, "errorAt": true, "error": true}

func (g *gen) exprStr(e ast.Expr) string {
	var b bytes.Buffer
	printer.Fprint(&b, g.fset, e)
	return b.String()
}

// tCall recognises t.<name>(...) and returns name
func tCall(e ast.Expr) (string, *ast.CallExpr) {
	c, ok := e.(*ast.CallExpr)
	if !ok {
		return "", nil
	}
	sel, ok := c.Fun.(*ast.SelectorExpr)
	if !ok {
		return "", nil
	}
	if id, ok := sel.X.(*ast.Ident); !ok || id.Name != "t" {
		return "", nil
	}
	return sel.Sel.Name, c
}

// bindingsOf: how the variable [name] gets its value inside fd
func (g *gen) bindingsOf(fd *ast.FuncDecl, name string) (string, bool) {
	set := map[string]bool{}
	ok := true
	if fd.Type.Params != nil {
		for _, f := range fd.Type.Params.List {
			for _, n := range f.Names {
				if n.Name == name {
					set["param"] = true
				}
			}
		}
	}
	note := func(rhs ast.Expr) {
		fn, _ := tCall(rhs)
		switch fn {
		case "next", "expect", "nextNonComment", "peek":
			set[fn] = true
		default:
			ok = false
		}
	}
	ast.Inspect(fd.Body, func(n ast.Node) bool {
		switch s := n.(type) {
		case *ast.AssignStmt:
			for i, l := range s.Lhs {
				if id, isId := l.(*ast.Ident); isId && id.Name == name && len(s.Rhs) == len(s.Lhs) {
					note(s.Rhs[i])
				}
			}
		case *ast.ValueSpec:
			for i, id := range s.Names {
				if id.Name == name {
					if i < len(s.Values) {
						note(s.Values[i])
					} else {
						ok = false
					}
				}
			}
		}
		return true
	})
	var l []string
	for k := range set {
		l = append(l, k)
	}
	sort.Strings(l)
	if len(l) == 0 {
		ok = false
	}
	return strings.Join(l, "+"), ok
}

func (g *gen) parserErrorSites() {
	f := g.file(parserRel)
	if f == nil {
		g.fail("parser error sites: cannot read %s", parserRel)
		g.p("Definition parser_error_sites : list (bstr * bstr * bstr * bstr * N) := [].\n")
		g.p("Definition parser_error_prefix_format : bstr := [].\nDefinition parser_errorf_token : bstr := [].\n\n")
		return
	}
	type row struct{ fn, kind, arg, bind string }
	var order []row
	count := map[row]int{}
	for _, d := range f.Decls {
		fd, ok := d.(*ast.FuncDecl)
		if !ok || fd.Body == nil || errReporters[fd.Name.Name] {
			continue
		}
		ast.Inspect(fd.Body, func(n ast.Node) bool {
			e, ok := n.(ast.Expr)
			if !ok {
				return true
			}
			fn, call := tCall(e)
			if call == nil || !errKinds[fn] {
				return true
			}
			r := row{fn: fd.Name.Name, kind: fn}
			switch fn {
			case "unexpected":
				if len(call.Args) != 2 {
					g.fail("parser error sites: %s: unexpected with %d arguments", fd.Name.Name, len(call.Args))
					return true
				}
				id, isId := call.Args[0].(*ast.Ident)
				if !isId {
					g.fail("parser error sites: %s: unexpected(%s, ..): the token is not a variable", fd.Name.Name, g.exprStr(call.Args[0]))
					return true
				}
				r.arg = id.Name
				b, okb := g.bindingsOf(fd, id.Name)
				if !okb {
					g.fail("parser error sites: %s: unexpected(%s, ..): %s is not only bound by next/expect/nextNonComment/peek or a parameter", fd.Name.Name, id.Name, id.Name)
				}
				r.bind = b
			case "expect":
				if len(call.Args) != 2 {
					g.fail("parser error sites: %s: expect with %d arguments", fd.Name.Name, len(call.Args))
					return true
				}
				r.arg = g.exprStr(call.Args[0])
			case "errorAt":
				// outside the reporting functions nobody calls errorAt today; a new caller chooses its own token
				r.arg = g.exprStr(call.Args[0])
			}
			if count[r] == 0 {
				order = append(order, r)
			}
			count[r]++
			return true
		})
	}
	g.p("(* parse/parse.go: every errorf / error / unexpected / expect / errorAt call site outside the reporting functions:\n   (function, kind, argument, binding of the token variable, occurrences) *)\n")
	g.p("Definition parser_error_sites : list (bstr * bstr * bstr * bstr * N) := [\n")
	var js [][]interface{}
	for i, r := range order {
		sep := ";"
		if i == len(order)-1 {
			sep = ""
		}
		g.p("  (%s, %s, %s, %s, %d)%s (* %s %s %s %s *)\n", coqBytes(r.fn), coqBytes(r.kind), coqBytes(r.arg), coqBytes(r.bind), count[r], sep, r.fn, r.kind, r.arg, r.bind)
		js = append(js, []interface{}{r.fn, r.kind, r.arg, r.bind, count[r]})
	}
	g.p("].\n")
	g.js["parser_error_sites"] = js

	// ---- errorAt: the prefix and the triple handed to NewErrFilePosf ----
	format := ""
	if fd := g.method(parserRel, "tree", "errorAt"); fd == nil || fd.Body == nil {
		g.fail("parser error sites: tree.errorAt not found")
	} else {
		const line = "t.lex.lineNumber(tok.pos)"
		const col = "t.lex.columnNumber(tok.pos)"
		okPrefix, okPanic := false, false
		ast.Inspect(fd.Body, func(n ast.Node) bool {
			switch s := n.(type) {
			case *ast.AssignStmt:
				if len(s.Lhs) == 1 && len(s.Rhs) == 1 && g.exprStr(s.Lhs[0]) == "format" {
					if c, ok := s.Rhs[0].(*ast.CallExpr); ok && g.exprStr(c.Fun) == "fmt.Sprintf" && len(c.Args) == 5 {
						if lit, ok := strLit(c.Args[0]); ok && g.exprStr(c.Args[1]) == "t.name" && g.exprStr(c.Args[2]) == line &&
							g.exprStr(c.Args[3]) == col && g.exprStr(c.Args[4]) == "format" {
							format, okPrefix = lit, true
						}
					}
				}
			case *ast.CallExpr:
				if g.exprStr(s.Fun) == "errortypes.NewErrFilePosf" && len(s.Args) == 5 && s.Ellipsis.IsValid() {
					if g.exprStr(s.Args[0]) == "t.name" && g.exprStr(s.Args[1]) == line && g.exprStr(s.Args[2]) == col &&
						g.exprStr(s.Args[3]) == "format" && g.exprStr(s.Args[4]) == "args" {
						okPanic = true
					}
				}
			}
			return true
		})
		if !okPrefix {
			g.fail("parser error sites: errorAt: the prefix is not fmt.Sprintf(<literal>, t.name, lineNumber(tok.pos), columnNumber(tok.pos), format)")
		}
		if !okPanic {
			g.fail("parser error sites: errorAt: NewErrFilePosf is not given t.name, lineNumber(tok.pos), columnNumber(tok.pos), format, args...")
		}
	}
	g.p("Definition parser_error_prefix_format : bstr := %s. (* %q *)\n", coqBytes(format), format)
	g.js["parser_error_prefix_format"] = format

	// ---- errorf: which token ----
	shape := ""
	if fd := g.method(parserRel, "tree", "errorf"); fd == nil || fd.Body == nil {
		g.fail("parser error sites: tree.errorf not found")
	} else {
		var b bytes.Buffer
		for _, s := range fd.Body.List {
			printer.Fprint(&b, g.fset, s)
			b.WriteString("\n")
		}
		var code []string
		for _, ln := range strings.Split(b.String(), "\n") {
			if i := strings.Index(ln, "//"); i >= 0 {
				ln = ln[:i]
			}
			code = append(code, ln)
		}
		got := strings.Join(strings.Fields(strings.Join(code, " ")), " ")
		want := "var tok = t.token[0] if t.peekCount > 0 { tok = t.token[t.peekCount-1] } t.errorAt(tok, format, args...)"
		if got != want {
			g.fail("parser error sites: errorf: body is not `tok = token[0]; if peekCount > 0 { tok = token[peekCount-1] }; errorAt(tok, ...)`: %s", got)
		} else {
			shape = "token[0] | token[peekCount-1] if peekCount > 0"
		}
	}
	g.p("Definition parser_errorf_token : bstr := %s. (* %s *)\n\n", coqBytes(shape), shape)
}
