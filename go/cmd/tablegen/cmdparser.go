package main

import (
	"fmt"
	"go/ast"
	"go/token"
	"sort"
	"strconv"
	"strings"
	"unicode"
)

// Tables the command-level parser model (coq/Model/Parser.v) is stated over:
//   - the itemType codes of parse/lexer.go (names pit_*; the lexer model has
//     its own copy under its own names),
//   - the case list of beginTag that makes a print implicit,
//   - the specialChars map,
//   - unicode.IsSpace of the toolchain (strings.TrimSpace in parseCss,
//     allSpace in parseSwitch), evaluated on every code point.
func init() {
	register("50-cmdparser-items", (*gen).cmdParserItems)
	register("51-cmdparser-begintag", (*gen).parserBeginTag)
	register("52-unicode-isspace", (*gen).unicodeIsSpace)
}

func (g *gen) cmdParserItems() {
	names, codes := g.itemCodes()
	g.p("(* parse/lexer.go: itemType codes (iota order), for Model/Parser.v *)\n")
	js := map[string]int{}
	for _, n := range names {
		if !strings.HasPrefix(n, "item") {
			g.fail("itemType const %s does not start with item", n)
			continue
		}
		g.p("Definition pit_%s : N := %d.\n", strings.TrimPrefix(n, "item"), codes[n])
		js[n] = codes[n]
	}
	g.p("Definition pit_count : N := %d.\n\n", len(names))
	g.js["item_types"] = js
}

func (g *gen) parserBeginTag() {
	_, codes := g.itemCodes()
	const rel = "parse/parse.go"
	// the case of beginTag whose body is { t.backup(); fallthrough }
	var implicit []int
	found := false
	if fd := g.method(rel, "tree", "beginTag"); fd != nil {
		ast.Inspect(fd.Body, func(n ast.Node) bool {
			cc, ok := n.(*ast.CaseClause)
			if !ok || len(cc.Body) != 2 {
				return true
			}
			bs, ok := cc.Body[1].(*ast.BranchStmt)
			if !ok || bs.Tok != token.FALLTHROUGH {
				return true
			}
			es, ok := cc.Body[0].(*ast.ExprStmt)
			if !ok {
				return true
			}
			call, ok := es.X.(*ast.CallExpr)
			if !ok {
				return true
			}
			sel, ok := call.Fun.(*ast.SelectorExpr)
			if !ok || sel.Sel.Name != "backup" {
				return true
			}
			found = true
			for _, e := range cc.List {
				id, ok := e.(*ast.Ident)
				if !ok {
					g.fail("beginTag: implicit-print case label is not an identifier")
					continue
				}
				c, ok := codes[id.Name]
				if !ok {
					g.fail("beginTag: unknown item type %s", id.Name)
					continue
				}
				implicit = append(implicit, c)
			}
			return false
		})
	}
	if !found {
		g.fail("beginTag: implicit print case (backup; fallthrough) not found")
	}
	sort.Ints(implicit)
	var l []int64
	for _, c := range implicit {
		l = append(l, int64(c))
	}
	g.p("(* parse/parse.go beginTag: item types that start an implicit print *)\n")
	g.p("Definition parser_implicit_print : list N := %s.\n", coqIntList(l))
	g.js["parser_implicit_print"] = implicit

	// specialChars: by pattern (the map literal) and by evaluation (the map of the compiled package, evalparse.go)
	type sc struct {
		c int
		s string
	}
	var scs []sc
	perr := g.silent(func() {
		if cl, ok := g.varValue(rel, "specialChars").(*ast.CompositeLit); ok {
			seen := map[int]bool{}
			for _, el := range cl.Elts {
				kv, ok := el.(*ast.KeyValueExpr)
				if !ok {
					g.fail("specialChars: element is not key: value")
					continue
				}
				id, ok1 := kv.Key.(*ast.Ident)
				s, ok2 := strLit(kv.Value)
				if !ok1 || !ok2 {
					g.fail("specialChars: entry is not itemX: \"literal\"")
					continue
				}
				c, ok := codes[id.Name]
				if !ok || seen[c] {
					g.fail("specialChars: unknown or repeated item type %s", id.Name)
					continue
				}
				seen[c] = true
				scs = append(scs, sc{c, s})
			}
		} else {
			g.fail("specialChars: composite literal not found")
		}
	})
	pats := ""
	if len(perr) == 0 {
		m := map[string]string{}
		for _, x := range scs {
			m[fmt.Sprintf("%04d", x.c)] = x.s
		}
		pats = canonMap(m)
	}
	ev, everrs := g.evalParse()
	evs, everr := "", evErr(everrs, "specialChars")
	var evScs []sc
	var rawSC map[string]string
	if ev.get("specialChars", &rawSC) {
		m := map[string]string{}
		okAll := true
		for k, hv := range rawSC {
			c, err1 := strconv.Atoi(k)
			v, err2 := hexDecode(hv)
			if err1 != nil || err2 != nil || c < 0 || c >= len(codes) {
				okAll, everr = false, "malformed evaluation result"
				break
			}
			m[fmt.Sprintf("%04d", c)] = v
			evScs = append(evScs, sc{c, v})
		}
		if okAll {
			evs = canonMap(m)
		}
	}
	switch g.choose("parse/parse.go specialChars (parser model)", pats, strings.Join(perr, "; "), evs, everr) {
	case routeEval:
		scs = evScs
	case routeNone:
		scs = nil
	}
	sort.Slice(scs, func(i, j int) bool { return scs[i].c < scs[j].c })
	var parts []string
	for _, x := range scs {
		parts = append(parts, fmt.Sprintf("(%d, %s)", x.c, coqBytes(x.s)))
	}
	g.p("(* parse/parse.go specialChars *)\n")
	g.p("Definition parser_special_chars : list (N * bstr) := [%s].\n\n", strings.Join(parts, "; "))
}

// unicodeIsSpace evaluates unicode.IsSpace on every code point (nothing guessed).
func (g *gen) unicodeIsSpace() {
	var parts []string
	var js [][2]int
	in := false
	var lo rune
	flush := func(hi rune) {
		parts = append(parts, fmt.Sprintf("(%d, %d)", lo, hi))
		js = append(js, [2]int{int(lo), int(hi)})
	}
	for r := rune(0); r <= unicode.MaxRune; r++ {
		p := unicode.IsSpace(r)
		if p && !in {
			in, lo = true, r
		}
		if !p && in {
			in = false
			flush(r - 1)
		}
	}
	if in {
		flush(unicode.MaxRune)
	}
	g.p("(* unicode.IsSpace of the Go toolchain (Unicode %s), evaluated on 0..0x10FFFF: maximal true-ranges *)\n", unicode.Version)
	g.p("Definition is_space_ranges : list (N * N) := [%s].\n\n", strings.Join(parts, "; "))
	g.js["is_space_ranges"] = js
}
