package main

// ast/node.go: the tables the String methods of expression nodes use to decide
// where parentheses are needed and how a map key is written (coq/Model/AstPrint.v).
//
//   ast_print_tables_present   false when the source has no `binaryPrecedence`
//                              (a tree without the C17 repairs): the defaults below
//                              are emitted, nothing is reported as untranslatable,
//                              and the C17 harness reports the missing repair through
//                              its own correspondence and oracle.
//   ast_binary_prec            var binaryPrecedence = map[string]int{...}
//   ast_prec_ternary / ast_prec_unary / ast_prec_primary   the const block
//   ast_string_escapes         the arguments of strings.NewReplacer(...) in
//                              `stringEscaper` (every old string must be one byte)

import (
	"fmt"
	"go/ast"
	"sort"
	"strings"
)

func init() { register("48-ast-print", (*gen).astPrint) }

const astRel = "ast/node.go"

func (g *gen) astPrint() {
	type pe struct {
		name  string
		level int64
	}
	defaults := []pe{{"!=", 4}, {"%", 7}, {"*", 7}, {"+", 6}, {"-", 6}, {"/", 7}, {"<", 5}, {"<=", 5}, {"==", 4}, {">", 5}, {">=", 5}, {"?:", 1}, {"and", 3}, {"or", 2}}
	consts := map[string]int64{"precTernary": 0, "precUnary": 8, "precPrimary": 9}
	escDefault := [][2]string{{"\\", "\\\\"}, {"'", "\\'"}, {"\n", "\\n"}, {"\r", "\\r"}, {"\t", "\\t"}, {"\b", "\\b"}, {"\f", "\\f"}}

	var precs []pe
	var escs [][2]string
	present := false
	if cl, ok := g.varValue(astRel, "binaryPrecedence").(*ast.CompositeLit); ok {
		present = true
		for _, el := range cl.Elts {
			kv, ok := el.(*ast.KeyValueExpr)
			if !ok {
				g.fail("ast binaryPrecedence: element is not key: value")
				continue
			}
			k, ok1 := strLit(kv.Key)
			v, ok2 := intLit(kv.Value)
			if !ok1 || !ok2 || v < 0 {
				g.fail("ast binaryPrecedence: entry is not \"op\": non-negative int")
				continue
			}
			precs = append(precs, pe{k, v})
		}
		for name := range consts {
			v, ok := intLit(g.varValue(astRel, name))
			if !ok {
				g.fail("ast %s: not an integer constant", name)
				continue
			}
			consts[name] = v
		}
		if call, ok := g.varValue(astRel, "stringEscaper").(*ast.CallExpr); ok && isSel(call.Fun, "strings", "NewReplacer") && len(call.Args)%2 == 0 {
			for i := 0; i+1 < len(call.Args); i += 2 {
				o, ok1 := strLit(call.Args[i])
				n, ok2 := strLit(call.Args[i+1])
				if !ok1 || !ok2 || len(o) != 1 {
					g.fail("ast stringEscaper: arguments are not pairs of string literals with one-byte old strings")
					continue
				}
				escs = append(escs, [2]string{o, n})
			}
		} else {
			g.fail("ast stringEscaper: not strings.NewReplacer(<pairs>)")
		}
	} else {
		precs, escs = defaults, escDefault
	}
	sort.Slice(precs, func(i, j int) bool { return precs[i].name < precs[j].name })

	g.p("(* ast/node.go: precedence tables of the String methods, string escaping of map keys *)\n")
	g.p("Definition ast_print_tables_present : bool := %s.\n", coqBool(present))
	var parts []string
	js := map[string]int64{}
	for _, p := range precs {
		parts = append(parts, fmt.Sprintf("(%s (* %s *), %d)", coqBytes(p.name), p.name, p.level))
		js[p.name] = p.level
	}
	g.p("Definition ast_binary_prec : list (bstr * N) := [%s].\n", strings.Join(parts, "; "))
	g.p("Definition ast_prec_ternary : N := %d.\nDefinition ast_prec_unary : N := %d.\nDefinition ast_prec_primary : N := %d.\n",
		consts["precTernary"], consts["precUnary"], consts["precPrimary"])
	parts = nil
	for _, e := range escs {
		parts = append(parts, fmt.Sprintf("(%d, %s)", e[0][0], coqBytes(e[1])))
	}
	// NewReplacer gives priority to the first pair for a repeated old string; assoc does too
	g.p("Definition ast_string_escapes : list (N * bstr) := [%s].\n\n", strings.Join(parts, "; "))
	g.js["ast_print_tables_present"] = present
	g.js["ast_binary_prec"] = js
}
