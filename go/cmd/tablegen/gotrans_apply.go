package main

// gotrans: the functions of robfig/soy that are translated, by family (one generator per
// family, so that an untranslatable shape is charged only to the properties whose Coq
// closure mentions an identifier of that family).  For each function there is a lemma
// `<model>_matches_source` in coq/Proofs/SourceTie<Family>.v.

func it(dir, key string) gtItem { return gtItem{dir: dir, key: key} }

// tbl: a package-level map literal, emitted as an association list (m[k] is go_lookup_* k src_<pkg>_<m> zero).
func tbl(dir, name string) gtItem { return gtItem{dir: dir, key: "var:" + name} }

// cst: a constant of a const block, emitted with its value.
func cst(dir, name string) gtItem { return gtItem{dir: dir, key: "const:" + name} }

// lits: the constant strings a generator function writes through s.js / s.jsln, in source order
func lits(dir, key string) gtItem {
	return gtItem{dir: dir, key: key, cfg: &gtCfg{litsOf: []string{"js", "jsln"}, suffix: "lits"}}
}

func init() {
	gtFamily("70-gotrans-lexer-preds", []gtItem{
		it("parse", "isSpace"),
		it("parse", "isEndOfLine"),
		it("parse", "isSpaceEOL"),
		it("parse", "isLetterOrUnderscore"),
		it("parse", "isDigit"),
		it("parse", "isAlphaNumeric"),
		it("parse", "itemType.isOp"),
		it("parse", "itemType.endsTerm"),
		it("parse", "itemType.isCommandEnd"),
		it("parse", "lexer.whole"),
		it("parse", "lexer.lineNumber"),
		tbl("parse", "builtinIdents"),
		tbl("parse", "arithmeticItemsBySymbol"),
	})
	gtFamily("71-gotrans-parser-preds", []gtItem{
		it("parse", "isBinaryOp"),
		it("parse", "isUnaryOp"),
		it("parse", "isValue"),
		it("parse", "isOneOf"),
		it("parse", "inStringSlice"),
		it("parse", "tree.parseAutoescape"),
		it("parse", "tree.boolAttr"),
		// precedence[tok.typ]: a map literal, or a function of the item type in its role
		{dir: "parse", key: "lookup:precedence", cfg: &gtCfg{alts: []string{"precedenceOf"}, sig: "func(itemType) int"}},
		tbl("parse", "specialChars"),
	})
	gtFamily("72-gotrans-rawtext-quote", []gtItem{
		it("parse", "isTightJoiner"),
		it("parse", "contains"),
		tbl("parse", "unescapes"),
	})
	gtFamily("73-gotrans-soyhtml", []gtItem{
		it("soyhtml", "checkNumArgs"),
		it("soyhtml", "isInt"),
		it("soyhtml", "isString"),
		it("soyhtml", "funcIsNonnull"),
		it("soyhtml", "funcHasData"),
		it("soyhtml", "funcLength"),
		{dir: "soyhtml", key: "state.evalPrint", cfg: &gtCfg{initOf: "escapeHtml", suffix: "escapeHtml"}},
		{dir: "soyhtml", key: "Renderer.Execute", cfg: &gtCfg{valueOf: "autoescapeMode", untilDecl: "initialScope", fragVars: [][2]string{{"tmpl", "template.Template"}}, suffix: "autoescapeMode"}},
		cst("ast", "AutoescapeUnspecified"),
		cst("ast", "AutoescapeOn"),
		cst("ast", "AutoescapeOff"),
		cst("ast", "AutoescapeContextual"),
	})
	gtFamily("74-gotrans-data", []gtItem{
		it("data", "List.Index"),
		it("data", "Map.Key"),
		it("data", "Undefined.String"),
		it("data", "Null.String"),
		it("data", "Bool.String"),
		it("data", "Int.String"),
		it("data", "String.String"),
	})
	gtFamily("75-gotrans-soymsg", []gtItem{
		it("soymsg", "isAlphaNumeric"),
		{dir: "soymsg", key: "fingerprint", cfg: &gtCfg{abstract: []string{"hash32"}}},
		{dir: "soymsg", key: "calcID", cfg: &gtCfg{afterDecl: "fp", fragVars: [][2]string{{"fp", "uint64"}}, suffix: "tail"}},
		tbl("soymsg", "htmlTagNames"),
		it("soymsg/pomsg", "translated"),
	})
	gtFamily("76-gotrans-soyjs", []gtItem{
		it("soyjs", "ES6Identifier"),
		it("soyjs", "ES5Formatter.Template"),
		it("soyjs", "ES5Formatter.Call"),
		it("soyjs", "ES5Formatter.Directive"),
		it("soyjs", "ES5Formatter.Function"),
		it("soyjs", "ES6Formatter.Template"),
		it("soyjs", "ES6Formatter.Call"),
		it("soyjs", "ES6Formatter.Directive"),
		it("soyjs", "ES6Formatter.Function"),
	})
	gtFamily("77-gotrans-checker", []gtItem{
		it("parsepasses", "contains"),
	})
	// soyjs/scope.go: the naming functions of the JavaScript generator, with the receiver's stack and counter as
	// explicit state (Model/JsGen.v jsc_*)
	gtFamily("78-gotrans-soyjs-scope", []gtItem{
		it("soyjs", "scope.push"),
		it("soyjs", "scope.pop"),
		it("soyjs", "scope.genname"),
		it("soyjs", "scope.bind"),
		it("soyjs", "scope.makevar"),
		it("soyjs", "scope.lookup"),
		it("soyjs", "scope.pushForRange"),
		it("soyjs", "scope.pushForEach"),
		it("soyjs", "scope.loop"),
		// the fixed text the generator writes (Model/JsGen.v's t_ constants), function by function
		lits("soyjs", "state.visitIf"),
		lits("soyjs", "state.visitForRange"),
		lits("soyjs", "state.visitForeach"),
		lits("soyjs", "state.visitLoop"),
		lits("soyjs", "state.visitNamespace"),
		lits("soyjs", "state.visitTemplate"),
		lits("soyjs", "state.visitPrint"),
		lits("soyjs", "state.visitCall"),
		lits("soyjs", "state.visitSwitch"),
		lits("soyjs", "state.visitDataRef"),
		lits("soyjs", "state.visitFunction"),
		lits("soyjs", "state.evalMsgParts"),
		lits("soyjs", "state.walkPlural"),
		lits("soyjs", "state.op"),
		lits("soyjs", "state.visitSoyFile"),
	})
	// One family per group of properties (bin/check charges an untranslatable shape to the properties whose closure
	// mentions an identifier of the same family).
	// soyhtml/scope.go, the loop functions of funcs.go and the hidden loop names of exec.go (Model/Interp.v sc_*, loop_func,
	// s_index, s_lastindex): C01 C02 C06
	gtFamily("79-gotrans-soyhtml-scope", []gtItem{
		it("soyhtml", "scope.push"),
		it("soyhtml", "scope.pop"),
		it("soyhtml", "scope.set"),
		// notifyUnbound is a hook with an empty body in the build under check (scope_hook_off.go); the harness's build
		// counts unbound lookups through it, which Model/Interp.v's bump_unbound mirrors (tied by the correspondence)
		{dir: "soyhtml", key: "scope.lookup", cfg: &gtCfg{ignore: []string{"notifyUnbound"}}},
		it("soyhtml", "scope.alldata"),
		it("soyhtml", "scope.enter"),
		it("soyhtml", "funcIndex"),
		it("soyhtml", "funcIsFirst"),
		it("soyhtml", "funcIsLast"),
		{dir: "soyhtml", key: "state.walk", cfg: &gtCfg{initOf: "keyInd", fragVars: [][2]string{{"node", "*ast.ForNode"}}, suffix: "keyInd"}},
		{dir: "soyhtml", key: "state.walk", cfg: &gtCfg{initOf: "keyLast", fragVars: [][2]string{{"node", "*ast.ForNode"}}, suffix: "keyLast"}},
	})
	// template/registry.go: node.Position() of the (immutable) AST node is the parameter m_node_Position: C06 C19
	gtFamily("80-gotrans-registry", []gtItem{
		it("template", "Registry.LineNumber"),
		it("template", "Registry.ColNumber"),
		it("template", "Registry.Filename"),
	})
	// soyhtml/directives.go: value.String() of the printed value is val_string; the rune-boundary loop runs at most
	// maxLen+1 times: C06 C16
	gtFamily("81-gotrans-directives", []gtItem{
		{dir: "soyhtml", key: "directiveTruncate", cfg: &gtCfg{fuel: map[int]string{1: "@var + 2"}}},
		it("soyhtml", "directiveInsertWordBreaks"),
		it("soyhtml", "directiveChangeNewlineToBr"),
	})
	// soymsg: tagName, the html placeholder name, hash32 with its block loop (fuel: one iteration per 12 bytes of
	// limit-start, stated generously); lemmas in Proofs/SourceTieMsgLoops.v (C10 C11)
	// parse/quote.go unquoteString: the error result is "err != nil", utf8.DecodeRuneInString, strconv.ParseInt and
	// string([]rune) are parameters; every iteration consumes at least one byte (fuel len(s)+1): C01 C05 C17
	gtFamily("83-gotrans-quote", []gtItem{
		{dir: "parse", key: "unquoteString", cfg: &gtCfg{fuel: map[int]string{1: "len(s) + 1"}}},
		it("parse", "quoteString"),
	})
	gtFamily("82-gotrans-soymsg-loops", []gtItem{
		it("soymsg", "tagName"),
		{dir: "soymsg", key: "genBasePlaceholderNameFromHtml", cfg: &gtCfg{abstract: []string{"toUpperUnderscore"}}},
		{dir: "soymsg", key: "hash32", cfg: &gtCfg{fuel: map[int]string{1: "limit - start + 1"}}},
		it("soymsg", "toUpperUnderscore"),
	})
}
