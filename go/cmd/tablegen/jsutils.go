package main

// C16, JavaScript side: the tables and the code of the helpers of soyjs/lib/soyutils.js that
// Model/JsDirectives.v models, read out of the JavaScript TEXT (no JavaScript engine, no guessing: a
// shape this reader does not know is reported with g.fail):
//
//	soy.$$escapeJsString  -> soy.esc.$$escapeJsStringHelper: str.replace(<matcher>, <replacer>), replacer = <map>[ch]
//	soy.$$escapeHtml      -> soy.esc.$$escapeHtmlHelper:     the same shape
//	    the matcher's character class as ranges of code units, the map as (code unit, code units) pairs
//	soy.$$escapeUri       soy.esc.$$escapeUriHelper = goog.string.urlEncode(String(v)), urlEncode: <encoder>,
//	    soy.$$problematicUriMarks_ (a class) and soy.$$pctEncode_ ('%' + charCode.toString(16))
//	soy.$$changeNewlineToBr -> goog.string.newLineToBr(String(str), false): the alternatives of the regex and
//	    the replacement of the not-xml arm
//	soy.$$isHighSurrogate_ / soy.$$isLowSurrogate_: the two bounds
//	soy.$$truncate and the goog.format.insertWordBreaks shim: the function text with comments and white
//	    space removed (compared, in Coq, with the text Model/JsDirectives.v was written against), and the
//	    WORD_BREAK string of the arm taken outside WebKit / Opera
//
// Coq side: Proofs/CodecJsTie.v equates these with the functions of Model/JsDirectives.v on every code unit.

import (
	"fmt"
	"os"
	"path/filepath"
	"regexp"
	"strconv"
	"strings"
)

func init() { register("16-soyutils-js", (*gen).soyutilsJS) }

const soyutilsRel = "soyjs/lib/soyutils.js"

// jsScan removes // and /* */ comments and marks which bytes of the result are code (true) and which lie
// inside a string or regex literal (false).  A `/` starts a regex literal when the previous significant
// byte cannot end an operand (not an identifier byte, `)` or `]`) or the previous word is `return`.
func jsScan(src string) (string, []bool) {
	var sb strings.Builder
	var code []bool
	put := func(t string, isCode bool) {
		sb.WriteString(t)
		for range []byte(t) {
			code = append(code, isCode)
		}
	}
	lastSig := func() (byte, string) {
		out := sb.String()
		k := len(out) - 1
		for k >= 0 && (out[k] == ' ' || out[k] == '\n' || out[k] == '\t' || out[k] == '\r') {
			k--
		}
		if k < 0 {
			return 0, ""
		}
		e := k
		for k >= 0 && (out[k] == '_' || out[k] == '$' || out[k] >= '0' && out[k] <= '9' || out[k] >= 'a' && out[k] <= 'z' || out[k] >= 'A' && out[k] <= 'Z') {
			k--
		}
		return out[e], out[k+1 : e+1]
	}
	for i := 0; i < len(src); {
		c := src[i]
		switch {
		case c == '\'' || c == '"':
			j := i + 1
			for j < len(src) && src[j] != c && src[j] != '\n' {
				if src[j] == '\\' {
					j++
				}
				j++
			}
			if j >= len(src) {
				j = len(src) - 1
			}
			put(src[i:i+1], true)
			put(src[i+1:j], false)
			put(src[j:j+1], true)
			i = j + 1
		case c == '/' && i+1 < len(src) && src[i+1] == '/':
			for i < len(src) && src[i] != '\n' {
				i++
			}
		case c == '/' && i+1 < len(src) && src[i+1] == '*':
			j := strings.Index(src[i+2:], "*/")
			if j < 0 {
				i = len(src)
			} else {
				i += 2 + j + 2
			}
		case c == '/':
			b, w := lastSig()
			operand := w != "" && w != "return" && w != "typeof" && w != "case" || b == ')' || b == ']'
			if operand {
				put("/", true)
				i++
				break
			}
			j, inClass := i+1, false
			for j < len(src) && src[j] != '\n' && (inClass || src[j] != '/') {
				switch src[j] {
				case '\\':
					j++
				case '[':
					inClass = true
				case ']':
					inClass = false
				}
				j++
			}
			if j >= len(src) || src[j] != '/' {
				put("/", true) // not a regex after all
				i++
				break
			}
			put("/", true)
			put(src[i+1:j], false)
			put("/", true)
			i = j + 1
		default:
			put(src[i:i+1], true)
			i++
		}
	}
	return sb.String(), code
}

// squash removes white space that is code (outside string and regex literals) from src[from:to]; between two
// identifier bytes one space is kept (`return str` and `returnstr` stay different).
func (u *jsutils) squash(from, to int) string {
	var sb strings.Builder
	ident := func(c byte) bool {
		return c == '_' || c == '$' || c >= '0' && c <= '9' || c >= 'a' && c <= 'z' || c >= 'A' && c <= 'Z'
	}
	pending := false
	for i := from; i < to; i++ {
		c := u.src[i]
		if u.code[i] && (c == ' ' || c == '\t' || c == '\n' || c == '\r') {
			pending = true
			continue
		}
		if pending && sb.Len() > 0 && ident(c) && ident(sb.String()[sb.Len()-1]) {
			sb.WriteByte(' ')
		}
		pending = false
		sb.WriteByte(c)
	}
	return sb.String()
}

// balanced returns the index of the partner of the bracket at u.src[open] (code bytes only).
func (u *jsutils) balanced(open int) (int, bool) {
	if open < 0 || open >= len(u.src) || !u.code[open] {
		return 0, false
	}
	var op, cl byte = u.src[open], 0
	switch op {
	case '{':
		cl = '}'
	case '(':
		cl = ')'
	case '[':
		cl = ']'
	default:
		return 0, false
	}
	depth := 0
	for i := open; i < len(u.src); i++ {
		if !u.code[i] {
			continue
		}
		switch u.src[i] {
		case op:
			depth++
		case cl:
			depth--
			if depth == 0 {
				return i, true
			}
		}
	}
	return 0, false
}

// jsDecodeString decodes the inside of a JavaScript string literal into UTF-16 code units.
func jsDecodeString(body string) ([]int, error) {
	var out []int
	rs := []rune(body)
	for i := 0; i < len(rs); i++ {
		c := rs[i]
		if c != '\\' {
			if c >= 0x10000 {
				c -= 0x10000
				out = append(out, 0xD800+int(c>>10), 0xDC00+int(c&0x3FF))
			} else {
				out = append(out, int(c))
			}
			continue
		}
		i++
		if i >= len(rs) {
			return nil, fmt.Errorf("dangling backslash")
		}
		hex := func(n int) (int, error) {
			if i+n >= len(rs) {
				return 0, fmt.Errorf("short escape")
			}
			v, err := strconv.ParseUint(string(rs[i+1:i+1+n]), 16, 32)
			i += n
			return int(v), err
		}
		switch rs[i] {
		case 'x':
			v, err := hex(2)
			if err != nil {
				return nil, err
			}
			out = append(out, v)
		case 'u':
			v, err := hex(4)
			if err != nil {
				return nil, err
			}
			out = append(out, v)
		case 'n':
			out = append(out, 10)
		case 'r':
			out = append(out, 13)
		case 't':
			out = append(out, 9)
		case 'b':
			out = append(out, 8)
		case 'f':
			out = append(out, 12)
		case 'v':
			out = append(out, 11)
		case '0':
			out = append(out, 0)
		case '\\', '/', '\'', '"':
			out = append(out, int(rs[i]))
		default:
			return nil, fmt.Errorf("escape \\%c not handled", rs[i])
		}
	}
	return out, nil
}

// jsClass reads the inside of a regex character class into ranges of code units.
func jsClass(body string) ([][2]int, error) {
	if strings.HasPrefix(body, "^") {
		return nil, fmt.Errorf("negated class")
	}
	var atoms []int // -1 = range dash
	rs := []rune(body)
	for i := 0; i < len(rs); i++ {
		c := rs[i]
		if c == '\\' {
			i++
			if i >= len(rs) {
				return nil, fmt.Errorf("dangling backslash")
			}
			switch rs[i] {
			case 'x':
				if i+2 >= len(rs) {
					return nil, fmt.Errorf("short \\x")
				}
				v, err := strconv.ParseUint(string(rs[i+1:i+3]), 16, 32)
				if err != nil {
					return nil, err
				}
				atoms = append(atoms, int(v))
				i += 2
			case 'u':
				if i+4 >= len(rs) {
					return nil, fmt.Errorf("short \\u")
				}
				v, err := strconv.ParseUint(string(rs[i+1:i+5]), 16, 32)
				if err != nil {
					return nil, err
				}
				atoms = append(atoms, int(v))
				i += 4
			case 'n':
				atoms = append(atoms, 10)
			case 'r':
				atoms = append(atoms, 13)
			case 't':
				atoms = append(atoms, 9)
			case 'f':
				atoms = append(atoms, 12)
			case 'v':
				atoms = append(atoms, 11)
			case '0':
				atoms = append(atoms, 0)
			case '\\', '/', '-', ']', '[', '^', '\'', '"', '(', ')', '.', '*', '+', '?', '$', '{', '}', '|':
				atoms = append(atoms, int(rs[i]))
			default:
				return nil, fmt.Errorf("class escape \\%c not handled", rs[i])
			}
			continue
		}
		if c == '-' && len(atoms) > 0 && i+1 < len(rs) {
			atoms = append(atoms, -1)
			continue
		}
		if c >= 0x10000 {
			return nil, fmt.Errorf("astral character in a class")
		}
		atoms = append(atoms, int(c))
	}
	var out [][2]int
	for i := 0; i < len(atoms); i++ {
		if atoms[i] == -1 {
			return nil, fmt.Errorf("stray range dash")
		}
		if i+2 < len(atoms) && atoms[i+1] == -1 {
			if atoms[i+2] < atoms[i] || atoms[i+2] == -1 {
				return nil, fmt.Errorf("bad range")
			}
			out = append(out, [2]int{atoms[i], atoms[i+2]})
			i += 2
			continue
		}
		out = append(out, [2]int{atoms[i], atoms[i]})
	}
	return out, nil
}

func coqUnits(l []int) string {
	parts := make([]string, len(l))
	for i, v := range l {
		parts[i] = strconv.Itoa(v)
	}
	return "[" + strings.Join(parts, "; ") + "]"
}

func coqRanges(l [][2]int) string {
	parts := make([]string, len(l))
	for i, v := range l {
		parts[i] = fmt.Sprintf("(%d, %d)", v[0], v[1])
	}
	return "[" + strings.Join(parts, "; ") + "]"
}

type jsutils struct {
	g    *gen
	src  string // comment-free text
	code []bool // src[i] is code (not inside a string or regex literal)
	ok   bool
}

func (u *jsutils) fail(format string, args ...interface{}) {
	u.ok = false
	u.g.fail(soyutilsRel+": "+format, args...)
}

// assignedAt returns the index right after `name =` at the start of a line (name is a dotted path), in [from, to).
func (u *jsutils) assignedAt(name string) int {
	re := regexp.MustCompile(`(?m)^` + regexp.QuoteMeta(name) + `\s*=\s*`)
	for _, loc := range re.FindAllStringIndex(u.src, -1) {
		if u.code[loc[0]] {
			return loc[1]
		}
	}
	return -1
}

// function returns the parameter list and the body, both without white space, of `name = function(params) { body }`.
func (u *jsutils) function(name string) (params, body string, ok bool) {
	at := u.assignedAt(name)
	if at < 0 {
		u.fail("%s is not assigned at top level", name)
		return "", "", false
	}
	return u.functionAt(name, at)
}

func (u *jsutils) functionAt(name string, at int) (params, body string, ok bool) {
	if !strings.HasPrefix(u.src[at:], "function") {
		u.fail("%s is not a function expression", name)
		return "", "", false
	}
	po := at + len("function")
	for po < len(u.src) && u.src[po] == ' ' {
		po++
	}
	pe, ok := u.balanced(po)
	if !ok || u.src[po] != '(' {
		u.fail("%s: no parameter list", name)
		return "", "", false
	}
	bo := pe + 1
	for bo < len(u.src) && (u.src[bo] == ' ' || u.src[bo] == '\n' || u.src[bo] == '\t' || u.src[bo] == '\r') {
		bo++
	}
	be, ok := u.balanced(bo)
	if !ok || u.src[bo] != '{' {
		u.fail("%s: no body", name)
		return "", "", false
	}
	return u.squash(po+1, pe), u.squash(bo+1, be), true
}

// objectAt returns the bounds (exclusive of the braces) of the object literal whose `{` ends the first match of pattern.
func (u *jsutils) objectAt(pattern string) (int, int, bool) {
	re := regexp.MustCompile(pattern)
	for _, loc := range re.FindAllStringIndex(u.src, -1) {
		bo := loc[1] - 1
		if !u.code[loc[0]] || u.src[bo] != '{' {
			continue
		}
		if be, ok := u.balanced(bo); ok {
			return bo + 1, be, true
		}
	}
	return 0, 0, false
}

// regexAssigned reads `name = /[class]/g;`.
func (u *jsutils) classAssigned(name string) ([][2]int, bool) {
	at := u.assignedAt(name)
	if at < 0 {
		u.fail("%s is not assigned at top level", name)
		return nil, false
	}
	rest := u.src[at:]
	end := strings.Index(rest, ";")
	if end < 0 {
		u.fail("%s: no terminating semicolon", name)
		return nil, false
	}
	lit := strings.TrimSpace(rest[:end])
	if !strings.HasPrefix(lit, "/[") || !strings.HasSuffix(lit, "]/g") {
		u.fail("%s is not a single character class with the g flag: %s", name, lit)
		return nil, false
	}
	cls, err := jsClass(lit[2 : len(lit)-3])
	if err != nil {
		u.fail("%s: %v", name, err)
		return nil, false
	}
	return cls, true
}

var jsMapEntry = regexp.MustCompile(`^\s*'((?:[^'\\]|\\.)*)'\s*:\s*'((?:[^'\\]|\\.)*)'\s*(,|$)`)

// mapAssigned reads `name = { 'k': 'v', ... };` with single-unit keys.
func (u *jsutils) mapAssigned(name string) ([][2][]int, bool) {
	at := u.assignedAt(name)
	if at < 0 || u.src[at] != '{' {
		u.fail("%s is not assigned an object literal at top level", name)
		return nil, false
	}
	be, ok := u.balanced(at)
	if !ok {
		u.fail("%s: unbalanced object literal", name)
		return nil, false
	}
	body := u.src[at+1 : be]
	var out [][2][]int
	seen := map[int]bool{}
	for strings.TrimSpace(body) != "" {
		m := jsMapEntry.FindStringSubmatch(body)
		if m == nil {
			u.fail("%s: entry not of the form 'k': 'v' near %q", name, strings.TrimSpace(body)[:min(30, len(strings.TrimSpace(body)))])
			return nil, false
		}
		k, err1 := jsDecodeString(m[1])
		v, err2 := jsDecodeString(m[2])
		if err1 != nil || err2 != nil || len(k) != 1 {
			u.fail("%s: entry '%s': '%s' not decodable as unit -> string", name, m[1], m[2])
			return nil, false
		}
		if seen[k[0]] {
			u.fail("%s: key %d twice", name, k[0])
			return nil, false
		}
		seen[k[0]] = true
		out = append(out, [2][]int{k, v})
		body = body[len(m[0]):]
	}
	return out, true
}

// replaceHelper reads `var str = String(value); return str.replace(M, R);` and, for R,
// `function(ch) { return MAP[ch]; }`; it returns the names M and MAP.
func (u *jsutils) replaceHelper(name string) (matcher, table string, ok bool) {
	params, body, ok := u.function(name)
	if !ok {
		return "", "", false
	}
	re := regexp.MustCompile(`^var str=String\(` + regexp.QuoteMeta(params) + `\);return str\.replace\(([A-Za-z0-9_.$]+),([A-Za-z0-9_.$]+)\);$`)
	m := re.FindStringSubmatch(body)
	if m == nil || strings.Contains(params, ",") {
		u.fail("%s is not `var str = String(value); return str.replace(MATCHER, REPLACER);`", name)
		return "", "", false
	}
	rp, rb, ok := u.function(m[2])
	if !ok {
		return "", "", false
	}
	re2 := regexp.MustCompile(`^return ([A-Za-z0-9_.$]+)\[` + regexp.QuoteMeta(rp) + `\];$`)
	m2 := re2.FindStringSubmatch(rb)
	if m2 == nil || strings.Contains(rp, ",") {
		u.fail("%s is not `function(ch) { return MAP[ch]; }`", m[2])
		return "", "", false
	}
	return m[1], m2[1], true
}

// tailCall checks that the last statement of the function `name` is `return callee(<its first parameter>);`
// (the statements before it handle values that are not plain strings: sanitized-content objects).
func (u *jsutils) tailCall(name, callee string) bool {
	params, body, ok := u.function(name)
	if !ok {
		return false
	}
	p0 := strings.Split(params, ",")[0]
	if !strings.HasSuffix(body, "return "+callee+"("+p0+");") {
		u.fail("%s does not end in `return %s(%s);`", name, callee, p0)
		return false
	}
	return true
}

func (g *gen) soyutilsJS() {
	raw, err := os.ReadFile(filepath.Join(g.repo, soyutilsRel))
	u := &jsutils{g: g, ok: true}
	if err != nil {
		u.fail("cannot read: %v", err)
	} else {
		u.src, u.code = jsScan(string(raw))
	}
	var (
		jsMatcher, htmlMatcher, uriMarks [][2]int
		jsMap, htmlMap                   [][2][]int
		uriEncoder                       string
		pctLower                         bool
		brAlts                           [][]int
		brRepl, wordBreak                []int
		hiLo, hiHi, loLo, loHi           int
		truncSrc, iwbSrc                 string
	)
	if u.ok {
		// ---- escapeJsString, escapeHtml ----
		if u.tailCall("soy.$$escapeJsString", "soy.esc.$$escapeJsStringHelper") {
			if m, t, ok := u.replaceHelper("soy.esc.$$escapeJsStringHelper"); ok {
				jsMatcher, _ = u.classAssigned(m)
				jsMap, _ = u.mapAssigned(t)
			}
		}
		if u.tailCall("soy.$$escapeHtml", "soy.esc.$$escapeHtmlHelper") {
			if m, t, ok := u.replaceHelper("soy.esc.$$escapeHtmlHelper"); ok {
				htmlMatcher, _ = u.classAssigned(m)
				htmlMap, _ = u.mapAssigned(t)
			}
		}
		// ---- escapeUri ----
		if params, body, ok := u.function("soy.$$escapeUri"); ok {
			want := `var encoded=soy.esc.$$escapeUriHelper(` + params + `);soy.$$problematicUriMarks_.lastIndex=0;` +
				`if(soy.$$problematicUriMarks_.test(encoded)){return encoded.replace(soy.$$problematicUriMarks_,soy.$$pctEncode_);}return encoded;`
			if !strings.HasSuffix(body, want) {
				u.fail("soy.$$escapeUri does not end in the encode / test / replace(marks, pctEncode) sequence the model describes")
			}
		}
		if params, body, ok := u.function("soy.esc.$$escapeUriHelper"); ok {
			if body != "return goog.string.urlEncode(String("+params+"));" {
				u.fail("soy.esc.$$escapeUriHelper is not `return goog.string.urlEncode(String(v));`")
			}
		}
		if m := regexp.MustCompile(`(?m)^\s*urlEncode\s*:\s*([A-Za-z0-9_.$]+)\s*,?\s*$`).FindStringSubmatch(u.src); m != nil {
			uriEncoder = m[1]
		} else {
			u.fail("goog.string.urlEncode: not a property bound to a plain name")
		}
		uriMarks, _ = u.classAssigned("soy.$$problematicUriMarks_")
		if params, body, ok := u.function("soy.$$pctEncode_"); ok {
			if body == "return'%'+"+params+".charCodeAt(0).toString(16);" {
				pctLower = true
			} else {
				u.fail("soy.$$pctEncode_ is not `return '%%' + ch.charCodeAt(0).toString(16);`")
			}
		}
		// ---- changeNewlineToBr ----
		if params, body, ok := u.function("soy.$$changeNewlineToBr"); ok {
			if body != "return goog.string.newLineToBr(String("+params+"),false);" {
				u.fail("soy.$$changeNewlineToBr is not `return goog.string.newLineToBr(String(str), false);`")
			}
		}
		if loc := regexp.MustCompile(`(?m)^\s*newLineToBr\s*:\s*`).FindStringIndex(u.src); loc != nil {
			params, body, ok := u.functionAt("goog.string.newLineToBr", loc[1])
			ps := strings.Split(params, ",")
			if ok && len(ps) == 2 {
				re := regexp.MustCompile(`^` + regexp.QuoteMeta(ps[0]) + `=String\(` + regexp.QuoteMeta(ps[0]) + `\);if\(!goog\.string\.NEWLINE_TO_BR_RE_\.test\(` + regexp.QuoteMeta(ps[0]) + `\)\)\{return ` + regexp.QuoteMeta(ps[0]) + `;\}return ` + regexp.QuoteMeta(ps[0]) + `\.replace\(/\(([^()/]*)\)/g,` + regexp.QuoteMeta(ps[1]) + `\?'((?:[^'\\]|\\.)*)':'((?:[^'\\]|\\.)*)'\);$`)
				m := re.FindStringSubmatch(body)
				if m == nil {
					u.fail("goog.string.newLineToBr is not the test / replace(/(alternatives)/g, opt_xml ? a : b) shape")
				} else {
					for _, alt := range strings.Split(m[1], "|") {
						d, err := jsDecodeString(alt)
						if err != nil || len(d) == 0 || strings.ContainsAny(alt, "[].*+?^${}") {
							u.fail("goog.string.newLineToBr: alternative %q is not a plain string", alt)
							break
						}
						brAlts = append(brAlts, d)
					}
					if d, err := jsDecodeString(m[3]); err == nil {
						brRepl = d
					} else {
						u.fail("goog.string.newLineToBr: replacement not decodable")
					}
				}
			} else if ok {
				u.fail("goog.string.newLineToBr does not take two parameters")
			}
			// the quick pre-test must accept every string the replace would change
			if m := regexp.MustCompile(`(?m)^\s*NEWLINE_TO_BR_RE_\s*:\s*/\[((?:[^\]\\]|\\.)*)\]/\s*,?\s*$`).FindStringSubmatch(u.src); m != nil {
				cls, err := jsClass(m[1])
				if err != nil {
					u.fail("goog.string.NEWLINE_TO_BR_RE_: %v", err)
				}
				in := func(c int) bool {
					for _, r := range cls {
						if r[0] <= c && c <= r[1] {
							return true
						}
					}
					return false
				}
				for _, alt := range brAlts {
					if !in(alt[0]) {
						u.fail("goog.string.NEWLINE_TO_BR_RE_ does not match the first unit of alternative %v", alt)
					}
				}
			} else {
				u.fail("goog.string.NEWLINE_TO_BR_RE_ is not a single unflagged character class")
			}
		} else {
			u.fail("goog.string.newLineToBr not found")
		}
		// ---- surrogates ----
		bounds := func(name string) (int, int) {
			params, body, ok := u.function(name)
			if !ok {
				return 0, 0
			}
			re := regexp.MustCompile(`^return (0x[0-9A-Fa-f]+)<=` + regexp.QuoteMeta(params) + `&&` + regexp.QuoteMeta(params) + `<=(0x[0-9A-Fa-f]+);$`)
			m := re.FindStringSubmatch(body)
			if m == nil {
				u.fail("%s is not `return LO <= cc && cc <= HI;`", name)
				return 0, 0
			}
			lo, _ := strconv.ParseInt(m[1], 0, 32)
			hi, _ := strconv.ParseInt(m[2], 0, 32)
			return int(lo), int(hi)
		}
		hiLo, hiHi = bounds("soy.$$isHighSurrogate_")
		loLo, loHi = bounds("soy.$$isLowSurrogate_")
		// ---- truncate, insertWordBreaks: code as text ----
		if params, body, ok := u.function("soy.$$truncate"); ok {
			truncSrc = "function(" + params + "){" + body + "}"
		}
		if params, body, ok := u.function("soy.$$insertWordBreaks"); ok {
			ps := strings.Split(params, ",")
			if len(ps) != 2 || body != "return goog.format.insertWordBreaks(String("+ps[0]+"),"+ps[1]+");" {
				u.fail("soy.$$insertWordBreaks is not `return goog.format.insertWordBreaks(String(str), max);`")
			}
		}
		if o0, o1, ok := u.objectAt(`(?m)^\s*goog\.format\s*=\s*\{`); ok {
			obj := u.src[o0:o1]
			if loc := regexp.MustCompile(`(?m)^\s*insertWordBreaks\s*:\s*`).FindStringIndex(obj); loc != nil {
				if params, body, ok := u.functionAt("goog.format.insertWordBreaks", o0+loc[1]); ok {
					iwbSrc = "function(" + params + "){" + body + "}"
				}
			} else {
				u.fail("goog.format.insertWordBreaks not found in the goog.format shim")
			}
			// WORD_BREAK: a chain of conditionals on goog.userAgent.*; the arm taken when none holds (node, and
			// every browser that is neither WebKit nor Opera)
			if m := regexp.MustCompile(`WORD_BREAK\s*:\s*((?:goog\.userAgent\.[A-Z]+\s*\?\s*'(?:[^'\\]|\\.)*'\s*:\s*)*)'((?:[^'\\]|\\.)*)'\s*$`).FindStringSubmatch(strings.TrimRight(obj, " \n\t\r")); m != nil {
				if d, err := jsDecodeString(m[2]); err == nil {
					wordBreak = d
				} else {
					u.fail("goog.format.WORD_BREAK: not decodable")
				}
			} else {
				u.fail("goog.format.WORD_BREAK is not a chain of goog.userAgent conditionals ending in a string")
			}
		} else {
			u.fail("the goog.format shim (goog.format = {...}) not found")
		}
	}
	// always define every name (so that Tables.v compiles and the failing shapes are charged to C16 only)
	pairs := func(l [][2][]int) string {
		parts := make([]string, len(l))
		for i, kv := range l {
			parts[i] = fmt.Sprintf("(%d, %s)", kv[0][0], coqUnits(kv[1]))
		}
		return "[" + strings.Join(parts, ";\n   ") + "]"
	}
	lists := func(l [][]int) string {
		parts := make([]string, len(l))
		for i, v := range l {
			parts[i] = coqUnits(v)
		}
		return "[" + strings.Join(parts, "; ") + "]"
	}
	g.p("(* soyjs/lib/soyutils.js, read as text: tables and code of the helpers modelled by Model/JsDirectives.v *)\n")
	g.p("Definition jsu_js_matcher : list (N * N) := %s.\n", coqRanges(jsMatcher))
	g.p("Definition jsu_js_escape_map : list (N * list N) :=\n  %s.\n", pairs(jsMap))
	g.p("Definition jsu_html_matcher : list (N * N) := %s.\n", coqRanges(htmlMatcher))
	g.p("Definition jsu_html_escape_map : list (N * list N) :=\n  %s.\n", pairs(htmlMap))
	g.p("Definition jsu_uri_encoder : list N := %s.   (* goog.string.urlEncode *)\n", coqBytes(uriEncoder))
	g.p("Definition jsu_uri_marks : list (N * N) := %s.\n", coqRanges(uriMarks))
	g.p("Definition jsu_pct_lower_hex : bool := %s.   (* '%%' + charCode.toString(16) *)\n", coqBool(pctLower))
	g.p("Definition jsu_br_alternatives : list (list N) := %s.\n", lists(brAlts))
	g.p("Definition jsu_br_replacement : list N := %s.\n", coqUnits(brRepl))
	g.p("Definition jsu_high_surrogate : N * N := (%d, %d).\n", hiLo, hiHi)
	g.p("Definition jsu_low_surrogate : N * N := (%d, %d).\n", loLo, loHi)
	g.p("Definition jsu_word_break : list N := %s.\n", coqUnits(wordBreak))
	g.p("Definition jsu_truncate_src : list N := %s.\n", coqBytes(truncSrc))
	g.p("Definition jsu_insert_word_breaks_src : list N := %s.\n\n", coqBytes(iwbSrc))
	g.js["jsu_js_matcher"] = jsMatcher
	g.js["jsu_html_matcher"] = htmlMatcher
	g.js["jsu_uri_encoder"] = uriEncoder
	g.js["jsu_truncate_src"] = truncSrc
	g.js["jsu_insert_word_breaks_src"] = iwbSrc
}
