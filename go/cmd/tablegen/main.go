// tablegen reads robfig/soy's Go sources (the working tree, not a build) and
// regenerates coq/Generated/Tables.v: every table, set, flag and small decision
// expression that the Coq theorems are stated over.  It is deliberately
// narrow: data and flat decision logic only; control flow is modelled by hand
// and tied by the correspondence harness.
//
// usage: tablegen -repo /repo -out coq/Generated/Tables.v -json build/tables.json
package main

import (
	"encoding/json"
	"flag"
	"fmt"
	"go/ast"
	"go/parser"
	"go/token"
	"os"
	"path/filepath"
	"regexp"
	"sort"
	"strconv"
	"strings"
)

type gen struct {
	repo    string
	fset    *token.FileSet
	files   map[string]*ast.File
	out     strings.Builder
	js      map[string]interface{}
	problem []string // untranslatable items
	treeSum string   // hash of the tree's sources (goeval.go)
}

func (g *gen) file(rel string) *ast.File {
	if f, ok := g.files[rel]; ok {
		return f
	}
	f, err := parser.ParseFile(g.fset, filepath.Join(g.repo, rel), nil, parser.ParseComments)
	if err != nil {
		g.problem = append(g.problem, fmt.Sprintf("%s: %v", rel, err))
		f = &ast.File{}
	}
	g.files[rel] = f
	return f
}

func (g *gen) fail(format string, args ...interface{}) {
	g.problem = append(g.problem, fmt.Sprintf(format, args...))
}

func (g *gen) funcDecl(rel, name string) *ast.FuncDecl {
	for _, d := range g.file(rel).Decls {
		if fd, ok := d.(*ast.FuncDecl); ok && fd.Name.Name == name && fd.Recv == nil {
			return fd
		}
	}
	return nil
}

func (g *gen) method(rel, recv, name string) *ast.FuncDecl {
	for _, d := range g.file(rel).Decls {
		fd, ok := d.(*ast.FuncDecl)
		if !ok || fd.Name.Name != name || fd.Recv == nil || len(fd.Recv.List) != 1 {
			continue
		}
		t := fd.Recv.List[0].Type
		if st, ok := t.(*ast.StarExpr); ok {
			t = st.X
		}
		if id, ok := t.(*ast.Ident); ok && id.Name == recv {
			return fd
		}
	}
	return nil
}

// varValue finds the initialiser of a package-level var or const.
func (g *gen) varValue(rel, name string) ast.Expr {
	for _, d := range g.file(rel).Decls {
		gd, ok := d.(*ast.GenDecl)
		if !ok {
			continue
		}
		for _, s := range gd.Specs {
			vs, ok := s.(*ast.ValueSpec)
			if !ok {
				continue
			}
			for i, n := range vs.Names {
				if n.Name == name && i < len(vs.Values) {
					return vs.Values[i]
				}
			}
		}
	}
	return nil
}

func strLit(e ast.Expr) (string, bool) {
	bl, ok := e.(*ast.BasicLit)
	if !ok || bl.Kind != token.STRING {
		return "", false
	}
	s, err := strconv.Unquote(bl.Value)
	return s, err == nil
}

func charLit(e ast.Expr) (rune, bool) {
	bl, ok := e.(*ast.BasicLit)
	if !ok || bl.Kind != token.CHAR {
		return 0, false
	}
	s, err := strconv.Unquote(bl.Value)
	if err != nil {
		return 0, false
	}
	r := []rune(s)
	if len(r) != 1 {
		return 0, false
	}
	return r[0], true
}

func intLit(e ast.Expr) (int64, bool) {
	neg := false
	if u, ok := e.(*ast.UnaryExpr); ok && u.Op == token.SUB {
		neg = true
		e = u.X
	}
	bl, ok := e.(*ast.BasicLit)
	if !ok || bl.Kind != token.INT {
		return 0, false
	}
	v, err := strconv.ParseInt(bl.Value, 0, 64)
	if neg {
		v = -v
	}
	return v, err == nil
}

// bytesOf evaluates []byte("...") or a string literal.
func bytesOf(e ast.Expr) (string, bool) {
	if s, ok := strLit(e); ok {
		return s, true
	}
	if c, ok := e.(*ast.CallExpr); ok && len(c.Args) == 1 {
		return strLit(c.Args[0])
	}
	return "", false
}

func coqBytes(s string) string {
	var parts []string
	for i := 0; i < len(s); i++ {
		parts = append(parts, strconv.Itoa(int(s[i])))
	}
	return "[" + strings.Join(parts, "; ") + "]"
}

func coqIntList(l []int64) string {
	var parts []string
	for _, v := range l {
		parts = append(parts, strconv.FormatInt(v, 10))
	}
	return "[" + strings.Join(parts, "; ") + "]"
}

func coqBool(b bool) string {
	if b {
		return "true"
	}
	return "false"
}

func (g *gen) p(format string, args ...interface{}) {
	fmt.Fprintf(&g.out, format, args...)
}

// generators are registered by the per-family files (init functions) and run
// in name order.
type generator struct {
	name string
	f    func(*gen)
}

var generators []generator

func register(name string, f func(*gen)) { generators = append(generators, generator{name, f}) }

func main() {
	repo := flag.String("repo", "/repo", "path of the robfig/soy working tree")
	out := flag.String("out", "", "Tables.v to write (only when changed)")
	jsonOut := flag.String("json", "", "JSON copy of the tables")
	only := flag.String("only", "", "development aid: run only the generators whose name starts with one of these comma-separated prefixes; the output then imports Generated.Tables and is meant for a scratch file, never for Generated/Tables.v")
	flag.BoolVar(&evalDisabled, "noeval", false, "development aid: do not evaluate compiled code (goeval.go), pattern generators only")
	flag.BoolVar(&evalOnly, "evalonly", false, "development aid: ignore the pattern route wherever a table can be evaluated (goeval.go)")
	flag.Parse()
	prevTablesPath = *out // coqbool.go: the spelling of an unchanged value is kept
	if *jsonOut != "" {
		evalCachePath = filepath.Join(filepath.Dir(*jsonOut), "tablegen-eval-cache.json")
	}

	g := &gen{repo: *repo, fset: token.NewFileSet(), files: map[string]*ast.File{}, js: map[string]interface{}{}}
	g.p("(* GENERATED by /verif/go/cmd/tablegen from the Go sources of robfig/soy.\n   Do not edit: regenerated on every check run. *)\n")
	g.p("From Soy Require Import Model.Bytes.\nOpen Scope N_scope.\n\n")
	if *only != "" {
		g.p("From Soy Require Import Generated.Tables.\n\n")
	}

	sort.Slice(generators, func(i, j int) bool { return generators[i].name < generators[j].name })
	// per generator: the Coq identifiers it defines and the items it could not translate, so that a broken
	// translation is charged only to the properties whose theorems (or model) mention one of those identifiers
	type genInfo struct {
		Defines        []string `json:"defines"`
		Untranslatable []string `json:"untranslatable"`
	}
	infos := map[string]genInfo{}
	defRe := regexp.MustCompile(`(?m)^\s*(?:Definition|Fixpoint|Inductive|Record|Lemma|Theorem|Example|Notation)\s+([A-Za-z_][A-Za-z0-9_']*)`)
	for _, gn := range generators {
		if *only != "" {
			keep := false
			for _, pre := range strings.Split(*only, ",") {
				if strings.HasPrefix(gn.name, pre) {
					keep = true
				}
			}
			if !keep {
				continue
			}
		}
		g.p("(* ---- %s ---- *)\n", gn.name)
		o0, p0 := g.out.Len(), len(g.problem)
		gn.f(g)
		var defs []string
		for _, m := range defRe.FindAllStringSubmatch(g.out.String()[o0:], -1) {
			defs = append(defs, m[1])
		}
		infos[gn.name] = genInfo{Defines: defs, Untranslatable: append([]string{}, g.problem[p0:]...)}
	}
	g.js["generators"] = infos

	sort.Strings(g.problem)
	g.p("\n(* items tablegen could not translate (a non-empty list is a broken tie) *)\n")
	g.p("Definition untranslatable : list bstr := [%s].\n", strings.Join(mapStr(g.problem, func(s string) string { return coqBytes(s) }), "; "))
	g.js["untranslatable"] = g.problem

	content := g.out.String()
	if *out != "" {
		old, _ := os.ReadFile(*out)
		if string(old) != content {
			if err := os.WriteFile(*out, []byte(content), 0o644); err != nil {
				fmt.Fprintln(os.Stderr, err)
				os.Exit(2)
			}
			fmt.Println("tablegen: wrote", *out)
		} else {
			fmt.Println("tablegen: unchanged", *out)
		}
	}
	if *jsonOut != "" {
		bs, _ := json.MarshalIndent(g.js, "", " ")
		os.WriteFile(*jsonOut, bs, 0o644)
	}
	for _, p := range g.problem {
		fmt.Println("tablegen: UNTRANSLATABLE:", p)
	}
}

func mapStr(l []string, f func(string) string) []string {
	var r []string
	for _, s := range l {
		r = append(r, f(s))
	}
	return r
}
