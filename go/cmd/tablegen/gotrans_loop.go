package main

// gotrans: loops.  A Go loop becomes a top-level Fixpoint over the variables the loop assigns (its state), see
// gotrans.go (LOOPS) for the semantics.

import (
	"fmt"
	"go/ast"
	"go/token"
	"sort"
	"strings"
)

// gtLoop describes one emitted loop function.
type gtLoop struct {
	name     string
	list     bool     // structural recursion over a list (range with a value) instead of fuel
	implicit []string // implicit arguments (V, val_*, uni_*, f_*), known once the body is translated
	free     []string // names of the enclosing function that the body reads, in binder order
	freeKeys []stKey  // ... and the variables they are
}

// loopCache: a loop that is reached along several paths (the continuation of an if is translated once per branch) is
// translated once, provided the variables in scope have the same standing each time.
type loopCache struct {
	lp    *gtLoop
	sub   *gtFn
	state []stKey
	sig   string
}

// envSig: what, besides names, the translation of a statement depends on in the environment.
func envSig(env *venv) string {
	var parts []string
	for i, sc := range env.scopes {
		for n, v := range sc {
			k := ""
			if v.known != nil {
				k = v.known.ExactString()
			}
			parts = append(parts, fmt.Sprintf("%d/%s/%s/%s/%s/%v", i, n, v.typ.name, k, v.banned, v.indexOf != nil))
		}
	}
	sort.Strings(parts)
	return strings.Join(parts, ";")
}

func tupleOf(names []string) string {
	switch len(names) {
	case 0:
		return "tt"
	case 1:
		return names[0]
	}
	return "(" + strings.Join(names, ", ") + ")"
}

// vFirst: a loop over a list whose element type mentions the abstract value type takes V in front of the list
func (lp *gtLoop) vFirst() bool {
	return lp.list && len(lp.implicit) > 0 && lp.implicit[0] == "V"
}

func (lp *gtLoop) nextText(state []string) string {
	first := "fuel"
	if lp.list {
		first = "rest"
	}
	parts := append([]string{lp.name, first}, lp.implicit...)
	if lp.vFirst() {
		parts = append([]string{lp.name, "V", first}, lp.implicit[1:]...)
	}
	parts = append(parts, lp.free...)
	parts = append(parts, state...)
	return strings.Join(parts, " ")
}

func (lp *gtLoop) callText(init, free []string) string {
	parts := append([]string{lp.name}, init[0])
	parts = append(parts, lp.implicit...)
	if lp.vFirst() {
		parts = append([]string{lp.name, "V", init[0]}, lp.implicit[1:]...)
	}
	parts = append(parts, free...)
	parts = append(parts, init[1:]...)
	return strings.Join(parts, " ")
}

type nLoop struct {
	lp    *gtLoop
	binds []gbind
	free  []string // the current names of the variables the loop reads
	init  []string // the fuel (or the list), then the initial state
	pat   string   // pattern for the state at the exit
	after gnode
}
type nLoopNext struct {
	lp    *gtLoop
	state []string
}
type nLoopExit struct{ state []string }

// visible: every Coq name that holds a variable (or a field of a struct variable) of env, with its Coq type.
func (tr *gtTr) visible(env *venv) (map[string]string, map[string]int, map[string]stKey) {
	out := map[string]string{}
	rank := map[string]int{}
	refs := map[string]stKey{}
	for _, sc := range env.scopes {
		for _, v := range sc {
			if v.banned != "" || v.indexOf != nil || v.known != nil {
				continue
			}
			if v.typ.kind == kStruct {
				for i, fl := range v.typ.fields {
					if !fl.typ.supported() {
						continue
					}
					n := v.fcoq[fl.name]
					if n == "" {
						n = flatField(v, fl.name)
					}
					out[n] = fl.typ.coq()
					rank[n] = v.seq*1000 + i + 1
					refs[n] = stKey{v.goName, fl.name}
				}
				continue
			}
			if v.typ.supported() {
				out[v.coq] = v.typ.coq()
				rank[v.coq] = v.seq * 1000
				refs[v.coq] = stKey{v.goName, ""}
			}
		}
	}
	return out, rank, refs
}

// loopSpec: how one loop runs.
type loopSpec struct {
	cond    ast.Expr // may be nil
	post    ast.Stmt // may be nil
	body    *ast.BlockStmt
	fuel    string // Coq term of type nat ("" for a list loop)
	list    *ex    // the list of a range loop with a value
	valName string // ... its value variable ("_" for none)
	keyName string // ... its key variable ("_" / "" for none)
	what    string
	node    ast.Node // the statement, for its number
}

func (tr *gtTr) resultType() string {
	var rts []string
	for _, m := range tr.fn.muts {
		rts = append(rts, paren(m.typ.coq()))
	}
	for _, r := range tr.fn.results {
		rts = append(rts, paren(r.coq()))
	}
	if len(rts) == 0 {
		return "unit"
	}
	return strings.Join(rts, " * ")
}

// loop translates a loop whose Init (if any) has already been executed in env.
func (tr *gtTr) loop(sp loopSpec, env *venv, next cont) gnode {
	if len(tr.fn.results) == 0 && len(tr.fn.muts) == 0 {
		gtFail("a loop inside a fragment is outside the subset")
	}
	savedBrk, savedCnt := tr.brk, tr.cnt
	restore := func(k cont) cont {
		return func(e *venv) gnode {
			ob, oc := tr.brk, tr.cnt
			tr.brk, tr.cnt = savedBrk, savedCnt
			defer func() { tr.brk, tr.cnt = ob, oc }()
			return k(e)
		}
	}
	next = restore(next)

	sig := envSig(env)
	if c := tr.loopCache[sp.node]; c != nil && c.sig == sig {
		var init, free []string
		for _, k := range c.state {
			n, _ := tr.useKey(env, k)
			init = append(init, n)
		}
		for _, k := range c.lp.freeKeys {
			n, _ := tr.useKey(env, k)
			free = append(free, n)
		}
		tr.inherit(c.sub)
		first := sp.fuel
		var binds []gbind
		if sp.list != nil {
			first, binds = sp.list.code, sp.list.binds
		}
		all := append([]string{first}, init...)
		if sp.list != nil && sp.keyName != "" && sp.keyName != "_" {
			all = append(all, "0%Z")
		}
		var pats []string
		for _, k := range c.state {
			n := tr.newName(k.base())
			tr.setKeyName(env, k, n)
			pats = append(pats, n)
		}
		pat := "_"
		if len(pats) > 0 {
			pat = tupleOf(pats)
		}
		return &nLoop{lp: c.lp, binds: binds, free: free, init: all, pat: pat, after: next(env)}
	}

	// the state: what the body and the post statement assign, of what is visible here
	keys, _, _ := tr.assignedIn([]ast.Node{sp.body, sp.post}, env)
	state := sortKeys(keys, env)
	lp := &gtLoop{list: sp.list != nil}
	baseName := fmt.Sprintf("%s_loop%d", tr.fn.coqName, tr.loopIndex[sp.node])

	var init []string
	var params []string // binders of the state
	var stTypes []string
	inner := env.clone()
	visible, rank, refs := tr.visible(env)
	for _, k := range state {
		cur, t := tr.useKey(env, k)
		if !t.supported() {
			gtFail("%s: the loop assigns %s of type %s, which is outside the subset", sp.what, k, t.name)
		}
		init = append(init, cur)
		p := tr.newName(k.base())
		tr.setKeyName(inner, k, p)
		params = append(params, "("+p+" : "+t.coq()+")")
		stTypes = append(stTypes, paren(t.coq()))
	}
	stateOf := func(e *venv) []string {
		var out []string
		for _, k := range state {
			n, _ := tr.useKey(e, k)
			out = append(out, n)
		}
		return out
	}
	entryState := stateOf(inner)
	var keyCoq string
	if sp.list != nil && sp.keyName != "" && sp.keyName != "_" {
		keyCoq = tr.newName(sp.keyName)
	}

	// translate the body with its own record of what it reads and of the implicit parameters it needs
	outerFn, outerUsed := tr.fn, tr.usedVars
	sub := &gtFn{key: outerFn.key, coqName: outerFn.coqName, results: outerFn.results, muts: outerFn.muts, params: outerFn.params,
		valueParams: map[string]bool{}, preds: map[string]bool{}}
	tr.fn, tr.usedVars = sub, map[string]bool{}
	depth := len(inner.scopes)
	exitK := func(e *venv) gnode { return &nLoopExit{state: stateOf(e)} }
	nextK := func(e *venv) gnode {
		return tr.simple(sp.post, e, func(e2 *venv) gnode {
			st := stateOf(e2)
			if keyCoq != "" {
				st = append(st, "(Z.add "+keyCoq+" 1%Z)")
			}
			return &nLoopNext{lp: lp, state: st}
		})
	}
	tr.brk = append(savedBrk[:len(savedBrk):len(savedBrk)], brkTarget{depth, exitK})
	tr.cnt = append(savedCnt[:len(savedCnt):len(savedCnt)], brkTarget{depth, nextK})
	var node gnode
	var elemBinder, elemPre string
	func() {
		defer func() { tr.brk, tr.cnt = savedBrk, savedCnt }()
		body := func(e *venv) gnode {
			return tr.scoped(e, nextK, func(e2 *venv, nx cont) gnode {
				if sp.list != nil {
					et := elemType(sp.list.typ)
					elemBinder = tr.newName(sp.valName)
					elem := elemBinder
					if sp.list.typ.kind == kString {
						elem = elemBinder + "z"
						elemPre = fmt.Sprintf("let %s := Z.of_N %s in ", elem, elemBinder)
					}
					if sp.valName != "_" {
						e2.declare(sp.valName, &gvar{goName: sp.valName, typ: et, coq: elem, asTuple: et.kind == kStruct})
					}
					if keyCoq != "" {
						e2.declare(sp.keyName, &gvar{goName: sp.keyName, typ: basicInts["int"], coq: keyCoq})
					}
				}
				return tr.block(sp.body.List, e2, nx)
			})
		}
		if sp.cond == nil {
			node = body(inner)
			return
		}
		cond := tr.expr(sp.cond, inner)
		if cond.typ.kind != kBool {
			gtFail("loop condition is not boolean")
		}
		if cond.k != nil {
			gtFail("%s: constant loop condition", sp.what)
		}
		node = &nIf{cond: cond, a: body(inner.clone()), b: &nLoopExit{state: entryState}}
	}()
	used := tr.usedVars
	tr.fn, tr.usedVars = outerFn, outerUsed
	tr.inherit(sub)
	for _, m := range outerFn.muts {
		if m.typ.usesValue() {
			sub.usesV = true
		}
	}
	for _, r := range outerFn.results {
		if r.usesValue() {
			sub.usesV = true
		}
	}
	lp.implicit = sub.implicitArgs()
	isParam := map[string]bool{}
	for _, n := range entryState {
		isParam[n] = true
	}
	var freeBinders []string
	for n := range used {
		if t, ok := visible[n]; ok && !isParam[n] {
			lp.free = append(lp.free, n)
			_ = t
		}
	}
	sort.Slice(lp.free, func(i, j int) bool { return rank[lp.free[i]] < rank[lp.free[j]] })
	for _, n := range lp.free {
		freeBinders = append(freeBinders, "("+n+" : "+visible[n]+")")
		tr.usedVars[n] = true
		lp.freeKeys = append(lp.freeKeys, refs[n])
	}
	if tr.loopCache == nil {
		tr.loopCache = map[ast.Node]*loopCache{}
	}
	if tr.loopCache[sp.node] == nil {
		tr.loopCache[sp.node] = &loopCache{lp: lp, sub: sub, state: state, sig: sig}
	}

	// emit the loop function (once: the same loop reached along two paths is translated twice)
	stT := "unit"
	if len(stTypes) > 0 {
		stT = strings.Join(stTypes, " * ")
	}
	binders := append(append([]string{}, sub.implicitBinders()...), freeBinders...)
	binders = append(binders, params...)
	if keyCoq != "" {
		binders = append(binders, "("+keyCoq+" : Z)")
	}
	build := func() string {
		var sb strings.Builder
		fmt.Fprintf(&sb, "(* %s: %s of %s; state: %s *)\n", tr.p.dir, sp.what, strings.TrimPrefix(outerFn.key, tr.p.dir+":"), strings.Join(keyStrings(state), ", "))
		if sp.list != nil {
			vb, rb := "", binders
			if lp.vFirst() && len(binders) > 0 && binders[0] == "(V : Type)" {
				vb, rb = "(V : Type) ", binders[1:]
			}
			fmt.Fprintf(&sb, "Fixpoint %s %s(l : %s) %s {struct l} : option (go_flow (%s) (%s)) :=\n  match l with\n  | [] => Some (go_exit %s)\n  | %s :: rest =>\n    %s%s\n  end.\n",
				lp.name, vb, sp.list.typ.coq(), strings.Join(rb, " "), stT, tr.resultType(), tupleOf(entryState), elemBinder, elemPre, render(node, mLoop, "    "))
		} else {
			fmt.Fprintf(&sb, "Fixpoint %s (fuel : nat) %s {struct fuel} : option (go_flow (%s) (%s)) :=\n  match fuel with\n  | O => None (* out of fuel *)\n  | S fuel =>\n    %s\n  end.\n",
				lp.name, strings.Join(binders, " "), stT, tr.resultType(), render(node, mLoop, "    "))
		}
		return sb.String()
	}
	for v := 1; ; v++ {
		lp.name = baseName
		if v > 1 {
			lp.name = fmt.Sprintf("%s_v%d", baseName, v)
		}
		text := build()
		if old, ok := tr.st.loopTexts[lp.name]; ok {
			if old == text {
				break
			}
			continue
		}
		tr.st.loopTexts[lp.name] = text
		tr.st.pending = append(tr.st.pending, text)
		break
	}

	// the call, and what follows the loop with the state it leaves
	after := env
	var pats []string
	for _, k := range state {
		n := tr.newName(k.base())
		tr.setKeyName(after, k, n)
		pats = append(pats, n)
	}
	pat := "_"
	if len(pats) > 0 {
		pat = tupleOf(pats)
	}
	first := sp.fuel
	var binds []gbind
	if sp.list != nil {
		first = sp.list.code
		binds = sp.list.binds
	}
	all := append([]string{first}, init...)
	if keyCoq != "" {
		all = append(all, "0%Z")
	}
	return &nLoop{lp: lp, binds: binds, free: lp.free, init: all, pat: pat, after: next(after)}
}

func keyStrings(ks []stKey) []string {
	var out []string
	for _, k := range ks {
		out = append(out, k.String())
	}
	return out
}

// generalFor: every `for` that is not the first-match idiom.
func (tr *gtTr) generalFor(x *ast.ForStmt, env *venv, next cont) gnode {
	return tr.scoped(env, next, func(e *venv, nx cont) gnode {
		return tr.simple(x.Init, e, func(e1 *venv) gnode {
			sp := loopSpec{cond: x.Cond, post: x.Post, body: x.Body, what: "for loop", node: x}
			sp.fuel = tr.fuelOf(x, e1)
			return tr.loop(sp, e1, nx)
		})
	})
}

// fuelOf: the number of iterations (plus one for the last test) that provably suffices for a counting loop
//
//	for i := a; i < b; i++      for i := a; i <= b; i++      for i := a; i >= b; i--      for i := a; i > b; i--
//
// whose body assigns neither i nor anything b reads; for every other loop, the measure stated in gotrans_apply.go.
func (tr *gtTr) fuelOf(x *ast.ForStmt, env *venv) string {
	if f, ok := tr.countingFuel(x, env); ok {
		return f
	}
	idx := tr.loopIndex[x]
	measure := tr.autoFuel[x]
	if measure == "" && tr.cfg != nil {
		measure = tr.cfg.fuel[idx]
	}
	if measure != "" {
		// `@var` in a stated measure: the only local variable that the loop assigns (whatever its name)
		if strings.Contains(measure, "@var") {
			nodes := []ast.Node{x.Body}
			if x.Post != nil {
				nodes = append(nodes, x.Post)
			}
			keys, _, _ := tr.assignedIn(nodes, env)
			var names []string
			for k := range keys {
				if k.f == "" {
					names = append(names, k.v)
				}
			}
			if len(names) != 1 {
				gtFail("the fuel measure %q of loop %d needs exactly one assigned local variable, found %v", measure, idx, names)
			}
			measure = strings.ReplaceAll(measure, "@var", names[0])
		}
		e := tr.expr(gtParseExpr(measure), env)
		if e.typ.kind != kInt || len(e.binds) > 0 {
			gtFail("the fuel measure %q is not a total integer expression", measure)
		}
		return "(Z.to_nat " + e.code + ")"
	}
	gtFail("loop %d is not a counting loop and has no fuel measure (gtCfg.fuel) stated for it", idx)
	return ""
}

func (tr *gtTr) countingFuel(x *ast.ForStmt, env *venv) (string, bool) {
	as, ok := x.Init.(*ast.AssignStmt)
	if !ok || as.Tok != token.DEFINE || len(as.Lhs) != 1 || len(as.Rhs) != 1 {
		return "", false
	}
	iv, ok := as.Lhs[0].(*ast.Ident)
	if !ok {
		return "", false
	}
	cond, ok := x.Cond.(*ast.BinaryExpr)
	if !ok || !isIdent(cond.X, iv.Name) {
		return "", false
	}
	inc, ok := x.Post.(*ast.IncDecStmt)
	if !ok || !isIdent(inc.X, iv.Name) {
		return "", false
	}
	up := inc.Tok == token.INC
	switch {
	case up && (cond.Op == token.LSS || cond.Op == token.LEQ):
	case !up && (cond.Op == token.GTR || cond.Op == token.GEQ):
	default:
		return "", false
	}
	keys, _, _ := tr.assignedIn([]ast.Node{x.Body}, env)
	if keys[stKey{iv.Name, ""}] {
		return "", false
	}
	// nothing the bound reads may change
	bad := false
	ast.Inspect(cond.Y, func(n ast.Node) bool {
		switch y := n.(type) {
		case *ast.Ident:
			if keys[stKey{y.Name, ""}] {
				bad = true
			}
		case *ast.SelectorExpr:
			if id, ok := y.X.(*ast.Ident); ok && keys[stKey{id.Name, y.Sel.Name}] {
				bad = true
			}
		case *ast.CallExpr:
			if !isIdent(y.Fun, "len") {
				bad = true
			}
		}
		return true
	})
	if bad {
		return "", false
	}
	a := tr.expr(iv, env)
	b := tr.expr(cond.Y, env)
	if a.typ.kind != kInt || b.typ.kind != kInt || len(a.binds) > 0 || len(b.binds) > 0 {
		return "", false
	}
	d := "(Z.sub " + b.code + " " + a.code + ")"
	if !up {
		d = "(Z.sub " + a.code + " " + b.code + ")"
	}
	f := "(S (Z.to_nat " + d + "))"
	if cond.Op == token.LEQ || cond.Op == token.GEQ {
		f = "(S " + f + ")"
	}
	return f, true
}

// generalRange:  for i := range xs   (a counting loop over the indices)
//
//	for _, x := range xs / for i, x := range xs   (structural recursion over the list)
//
// xs a slice or a []byte, evaluated once; i and x are fresh in every iteration.
func (tr *gtTr) generalRange(x *ast.RangeStmt, env *venv, next cont) gnode {
	if x.Tok != token.DEFINE {
		gtFail("range loop that assigns to existing variables")
	}
	list, isNodes := tr.stringerList(x.X, env)
	if !isNodes {
		list = tr.expr(x.X, env)
	}
	if list.typ.kind == kString && list.typ != tBytes {
		return tr.runeRange(x, env, next)
	}
	if list.typ.kind != kSlice && list.typ != tBytes {
		gtFail("range over a %s is outside the subset", list.typ.name)
	}
	et := elemType(list.typ)
	if !et.storable() {
		gtFail("loop over elements of type %s", et.name)
	}
	if et.usesValue() {
		tr.fn.usesV = true
	}
	key := "_"
	if id, ok := x.Key.(*ast.Ident); ok {
		key = id.Name
	} else if x.Key != nil {
		gtFail("range key is not an identifier")
	}
	keys, _, _ := tr.assignedIn([]ast.Node{x.Body}, env)
	if key != "_" && keys[stKey{key, ""}] {
		gtFail("the range loop assigns its index variable")
	}
	if x.Value == nil {
		// indices only: for i := 0; i < len(xs); i++ with len(xs) taken once
		n := tr.newName("n")
		return &nLet{name: n, val: ex{binds: list.binds, code: "(go_len " + list.code + ")", typ: basicInts["int"]}, body: tr.scoped(env, next, func(e *venv, nx cont) gnode {
			iv := tr.newName(key)
			e.declare(key, &gvar{goName: key, typ: basicInts["int"], coq: iv})
			sp := loopSpec{body: x.Body, what: "range loop (indices)", fuel: "(S (Z.to_nat " + n + "))", node: x}
			// cond / post over the Coq names directly
			e.declare(" n", &gvar{goName: " n", typ: basicInts["int"], coq: n})
			sp.cond = &ast.BinaryExpr{X: ast.NewIdent(key), Op: token.LSS, Y: ast.NewIdent(" n")}
			sp.post = &ast.IncDecStmt{X: ast.NewIdent(key), Tok: token.INC}
			tr.usedVars[n] = true
			return &nLet{name: iv, val: ex{code: "0%Z", typ: basicInts["int"]}, body: tr.loop(sp, e, nx)}
		})}
	}
	val, ok := x.Value.(*ast.Ident)
	if !ok {
		gtFail("range loop value is not an identifier")
	}
	// Go reads xs[i] from the backing array at every iteration: a body that assigns (elements of) the slice it ranges
	// over would see its own writes, the recursion over the list would not
	if k, _, ok := tr.rootOf(x.X, env); ok && keys[k] {
		gtFail("the range loop assigns the slice it ranges over")
	}
	if val.Name != "_" && keys[stKey{val.Name, ""}] {
		// assigning the value variable is local to the iteration; the state scan would wrongly pick an outer variable
		// of the same name
		if env.lookup(val.Name) != nil {
			gtFail("the range loop's value variable shadows a variable that the body assigns")
		}
	}
	sp := loopSpec{body: x.Body, what: "range loop", list: &list, valName: val.Name, keyName: key, node: x}
	return tr.scoped(env, next, func(e *venv, nx cont) gnode { return tr.loop(sp, e, nx) })
}

// runeRange:  for i, ch := range s  over the runes of a string s, as the Go specification defines it through UTF-8
// decoding, written out:
//
//	rng_s := s; rng_i := 0; rng_w := 0
//	for ; rng_i < len(rng_s); rng_i += rng_w {
//		ch, w := utf8.DecodeRuneInString(rng_s[rng_i:]); rng_w = w; i := rng_i
//		body
//	}
//
// (s evaluated once; i and ch fresh in every iteration, so a body that assigns them does not disturb the iteration;
// continue runs the post statement).  utf8.DecodeRuneInString stays the parameter f_utf8_DecodeRuneInString; the
// fuel is len(s)+1, enough for every decoder that answers a width of at least 1 on a non-empty string (a lemma
// `model = Some ...` proves that of the decoder it instantiates).
func (tr *gtTr) runeRange(x *ast.RangeStmt, env *venv, next cont) gnode {
	idx := tr.loopIndex[x]
	sN, iN, wN, w1 := fmt.Sprintf("rng_s%d", idx), fmt.Sprintf("rng_i%d", idx), fmt.Sprintf("rng_w%d", idx), fmt.Sprintf("rng_d%d", idx)
	for _, n := range []string{sN, iN, wN, w1} {
		if env.lookup(n) != nil {
			gtFail("range over a string: the name %s is taken", n)
		}
	}
	id := ast.NewIdent
	zero := func() ast.Expr { return &ast.BasicLit{Kind: token.INT, Value: "0"} }
	key, val := "_", "_"
	if k, ok := x.Key.(*ast.Ident); ok {
		key = k.Name
	} else if x.Key != nil {
		gtFail("range key is not an identifier")
	}
	if v, ok := x.Value.(*ast.Ident); ok {
		val = v.Name
	} else if x.Value != nil {
		gtFail("range loop value is not an identifier")
	}
	qual := "utf8"
	if importOf(tr.f, qual) != "unicode/utf8" {
		qual = " utf8" // resolved by libCall
	}
	decode := &ast.CallExpr{Fun: &ast.SelectorExpr{X: id(qual), Sel: id("DecodeRuneInString")},
		Args: []ast.Expr{&ast.SliceExpr{X: id(sN), Low: id(iN)}}}
	body := []ast.Stmt{
		&ast.AssignStmt{Lhs: []ast.Expr{id(val), id(w1)}, Tok: token.DEFINE, Rhs: []ast.Expr{decode}},
		&ast.AssignStmt{Lhs: []ast.Expr{id(wN)}, Tok: token.ASSIGN, Rhs: []ast.Expr{id(w1)}},
	}
	if key != "_" {
		body = append(body, &ast.AssignStmt{Lhs: []ast.Expr{id(key)}, Tok: token.DEFINE, Rhs: []ast.Expr{id(iN)}})
	}
	body = append(body, &ast.BlockStmt{List: x.Body.List})
	loop := &ast.ForStmt{
		Cond: &ast.BinaryExpr{X: id(iN), Op: token.LSS, Y: &ast.CallExpr{Fun: id("len"), Args: []ast.Expr{id(sN)}}},
		Post: &ast.AssignStmt{Lhs: []ast.Expr{id(iN)}, Tok: token.ADD_ASSIGN, Rhs: []ast.Expr{id(wN)}},
		Body: &ast.BlockStmt{List: body},
	}
	tr.loopIndex[loop] = idx
	if tr.autoFuel == nil {
		tr.autoFuel = map[ast.Node]string{}
	}
	tr.autoFuel[loop] = "len(" + sN + ") + 1"
	blk := &ast.BlockStmt{List: []ast.Stmt{
		&ast.AssignStmt{Lhs: []ast.Expr{id(sN)}, Tok: token.DEFINE, Rhs: []ast.Expr{x.X}},
		&ast.AssignStmt{Lhs: []ast.Expr{id(iN)}, Tok: token.DEFINE, Rhs: []ast.Expr{zero()}},
		&ast.AssignStmt{Lhs: []ast.Expr{id(wN)}, Tok: token.DEFINE, Rhs: []ast.Expr{zero()}},
		loop,
	}}
	return tr.stmt(blk, env, next)
}

const gtPrelude2 = `(* gotrans, loops and state: a loop function returns how it was left *)
Inductive go_flow (S R : Type) : Type :=
  | go_exit (s : S)   (* the loop ended (condition false, or break) with this state *)
  | go_ret (r : R).   (* a return statement inside the loop *)
Arguments go_exit {S R} s.
Arguments go_ret {S R} r.
(* m[k] = v on an association list: the first entry for k is replaced, a new key is added at the end *)
Fixpoint go_map_set_s {A : Type} (k : bstr) (v : A) (m : list (bstr * A)) : list (bstr * A) :=
  match m with
  | [] => [(k, v)]
  | (k', v') :: r => if bstr_eqb k k' then (k, v) :: r else (k', v') :: go_map_set_s k v r
  end.
Fixpoint go_map_set_z {A : Type} (k : Z) (v : A) (m : list (Z * A)) : list (Z * A) :=
  match m with
  | [] => [(k, v)]
  | (k', v') :: r => if Z.eqb k k' then (k, v) :: r else (k', v') :: go_map_set_z k v r
  end.
(* s[i] = v: None = index out of range *)
Fixpoint go_set_nth_nat {A : Type} (l : list A) (i : nat) (v : A) : list A :=
  match l, i with
  | [], _ => []
  | _ :: r, O => v :: r
  | x :: r, S j => x :: go_set_nth_nat r j v
  end.
Definition go_set_nth {A : Type} (l : list A) (i : Z) (v : A) : option (list A) :=
  if orb (Z.ltb i 0%Z) (Z.leb (go_len l) i) then None else Some (go_set_nth_nat l (Z.to_nat i) v).
(* strings.TrimPrefix / TrimSuffix *)
Definition go_trim_prefix (p s : bstr) : bstr := if is_prefix p s then drop (List.length p) s else s.
Definition go_trim_suffix (p s : bstr) : bstr :=
  if go_has_suffix p s then take (Nat.sub (List.length s) (List.length p)) s else s.
(* s[lo:hi] on a slice: None = bounds out of range (the capacity is not modelled: hi <= len) *)
Definition go_slice_l {A : Type} (s : list A) (lo hi : Z) : option (list A) :=
  if orb (Z.ltb lo 0%Z) (orb (Z.ltb hi lo) (Z.ltb (go_len s) hi)) then None
  else Some (firstn (Z.to_nat (Z.sub hi lo)) (skipn (Z.to_nat lo) s)).

`

func init() {
	register("69b-gotrans-prelude2", func(g *gen) { g.p("%s", gtPrelude2) })
}
