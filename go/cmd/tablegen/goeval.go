package main

// goeval: EVALUATION of finite tables and predicates over small domains by the
// real, compiled code of the tree that is being checked.
//
// The pattern generators (lexer.go, parser.go, html.go ...) recognise one
// syntactic shape of a function or table.  A behaviour-preserving rewrite
// (switch -> if chain, map -> function, De Morgan, a table moved into an init
// function ...) leaves that shape, and the generator has to report an
// untranslatable source although nothing about the property changed.  For a
// function with a FINITE, COMPLETELY ENUMERABLE domain (a predicate over the
// ~100 item types, over the 256 bytes, over the 0x110000 code points, the
// entries of a map) the shape is irrelevant: the table IS the graph of the
// function, and the graph is obtained by running the function.
//
// Mechanism: a file `zz_tablegen_dump.go` is added to the package through the
// go command's -overlay (nothing is written into the tree; the file lives in a
// temporary directory), so it sees the unexported names; it defines
// `func TablegenDump() map[string]interface{}`; a main package in a temporary
// module (`replace github.com/robfig/soy => <tree>`) prints the result as JSON.
// The names the dump refers to are chosen by the caller from what the AST
// shows to exist; a name that no longer exists or whose type changed is a
// compile error, which is reported as an evaluation failure.
//
// Soundness of the combination with the pattern generators:
//   * both routes available -> they must agree (a disagreement is reported
//     through g.fail as a translator defect: never a silent choice);
//   * exactly one available -> its table is used; the emitted Coq text is the
//     same canonical text whichever route produced the data, so an unchanged
//     tree regenerates Tables.v byte for byte;
//   * none available -> g.fail, as before.
// A semantic change of the function changes the graph, hence the table, hence
// Tables.v, and the proofs / the `_matches_source` lemmas over it break.
//
// Results are cached next to the -json output, keyed by a hash of every
// non-test .go file of the tree, go.mod, go.sum, the toolchain version and the
// dump program (tablegen runs once per property check).

import (
	"bytes"
	"context"
	"crypto/sha256"
	"encoding/hex"
	"encoding/json"
	"fmt"
	"os"
	"os/exec"
	"path/filepath"
	"runtime"
	"sort"
	"strings"
	"time"
)

// evalCachePath is set by main from the -json flag ("" = no cache).
var evalCachePath string

// evalDisabled (flag -noeval) switches the evaluation route off: development aid to see what the
// pattern generators alone accept.
var evalDisabled bool

// evalOnly (flag -evalonly) ignores the pattern route wherever an evaluation exists: development
// aid to see that the evaluation alone regenerates the same tables.
var evalOnly bool

type evalResult map[string]json.RawMessage

func (g *gen) treeHash() string {
	if g.treeSum != "" {
		return g.treeSum
	}
	h := sha256.New()
	var files []string
	filepath.Walk(g.repo, func(p string, fi os.FileInfo, err error) error {
		if err != nil {
			return nil
		}
		if fi.IsDir() {
			if n := fi.Name(); p != g.repo && (strings.HasPrefix(n, ".") || n == "testdata" || n == "node_modules") {
				return filepath.SkipDir
			}
			return nil
		}
		n := fi.Name()
		if (strings.HasSuffix(n, ".go") && !strings.HasSuffix(n, "_test.go")) || n == "go.mod" || n == "go.sum" {
			files = append(files, p)
		}
		return nil
	})
	sort.Strings(files)
	for _, f := range files {
		bs, _ := os.ReadFile(f)
		rel, _ := filepath.Rel(g.repo, f)
		fmt.Fprintf(h, "%s %d\n", rel, len(bs))
		h.Write(bs)
	}
	fmt.Fprintf(h, "toolchain %s\n", runtime.Version())
	g.treeSum = hex.EncodeToString(h.Sum(nil))
	return g.treeSum
}

// goEval compiles `body` as the body of TablegenDump() inside package pkgRel (a directory of the
// tree, e.g. "parse") and returns what it returns.  imports are extra import paths of the dump file.
func (g *gen) goEval(pkgRel string, imports []string, body string) (evalResult, error) {
	if evalDisabled {
		return nil, fmt.Errorf("evaluation disabled (-noeval)")
	}
	pkgName := filepath.Base(pkgRel)
	var src strings.Builder
	fmt.Fprintf(&src, "package %s\n\n", pkgName)
	for _, im := range imports {
		if i := strings.IndexByte(im, ' '); i > 0 { // "alias path"
			fmt.Fprintf(&src, "import %s %q\n", im[:i], im[i+1:])
		} else {
			fmt.Fprintf(&src, "import %q\n", im)
		}
	}
	fmt.Fprintf(&src, "\nfunc TablegenDump() (res map[string]interface{}) {\n\tres = map[string]interface{}{}\n%s\n\treturn res\n}\n", body)

	key := ""
	cache := map[string]evalResult{}
	if evalCachePath != "" {
		h := sha256.Sum256([]byte(g.treeHash() + "\n" + pkgRel + "\n" + src.String()))
		key = hex.EncodeToString(h[:])
		if bs, err := os.ReadFile(evalCachePath); err == nil {
			json.Unmarshal(bs, &cache)
		}
		if r, ok := cache[key]; ok {
			return r, nil
		}
	}

	repoAbs, err := filepath.Abs(g.repo)
	if err != nil {
		return nil, err
	}
	tmp, err := os.MkdirTemp("", "tablegen-eval-")
	if err != nil {
		return nil, err
	}
	defer os.RemoveAll(tmp)
	mod := "module tablegeneval\n\ngo 1.23\n\nrequire github.com/robfig/soy v0.0.0\n\nreplace github.com/robfig/soy => " + repoAbs + "\n"
	mainSrc := "package main\n\nimport (\n\t\"encoding/json\"\n\t\"os\"\n\n\tp \"github.com/robfig/soy/" + filepath.ToSlash(pkgRel) + "\"\n)\n\n" +
		"func main() {\n\tif err := json.NewEncoder(os.Stdout).Encode(p.TablegenDump()); err != nil {\n\t\tos.Stderr.WriteString(err.Error())\n\t\tos.Exit(3)\n\t}\n}\n"
	dump := filepath.Join(tmp, "dump.go.txt")
	ov, _ := json.Marshal(map[string]map[string]string{"Replace": {filepath.Join(repoAbs, pkgRel, "zz_tablegen_dump.go"): dump}})
	for name, content := range map[string]string{"go.mod": mod, "main.go": mainSrc, "dump.go.txt": src.String(), "overlay.json": string(ov)} {
		if err := os.WriteFile(filepath.Join(tmp, name), []byte(content), 0o644); err != nil {
			return nil, err
		}
	}
	if sum, err := os.ReadFile(filepath.Join(repoAbs, "go.sum")); err == nil {
		os.WriteFile(filepath.Join(tmp, "go.sum"), sum, 0o644)
	}
	ctx, cancel := context.WithTimeout(context.Background(), 180*time.Second)
	defer cancel()
	cmd := exec.CommandContext(ctx, "go", "run", "-overlay", filepath.Join(tmp, "overlay.json"), ".")
	cmd.Dir = tmp
	cmd.Env = append(os.Environ(), "GOFLAGS=-mod=mod", "GOPROXY=off", "GOSUMDB=off", "GOTOOLCHAIN=local", "GOWORK=off")
	var stdout, stderr bytes.Buffer
	cmd.Stdout, cmd.Stderr = &stdout, &stderr
	if err := cmd.Run(); err != nil {
		msg := strings.TrimSpace(stderr.String())
		msg = strings.ReplaceAll(msg, tmp, "<tmp>")
		if len(msg) > 400 {
			msg = msg[:400] + " ..."
		}
		return nil, fmt.Errorf("%v: %s", err, strings.Join(strings.Fields(msg), " "))
	}
	var r evalResult
	if err := json.Unmarshal(stdout.Bytes(), &r); err != nil {
		return nil, fmt.Errorf("output of the evaluation program is not JSON: %v", err)
	}
	if key != "" {
		// re-read: another generator of this run may have added an entry; entries of other trees are dropped
		// when the file grows large
		cache = map[string]evalResult{}
		if bs, err := os.ReadFile(evalCachePath); err == nil {
			json.Unmarshal(bs, &cache)
		}
		if len(cache) > 64 {
			cache = map[string]evalResult{}
		}
		cache[key] = r
		if bs, err := json.Marshal(cache); err == nil {
			os.WriteFile(evalCachePath+".tmp", bs, 0o644)
			os.Rename(evalCachePath+".tmp", evalCachePath)
		}
	}
	return r, nil
}

// get decodes one key of an evaluation result.
func (r evalResult) get(key string, into interface{}) bool {
	if r == nil {
		return false
	}
	raw, ok := r[key]
	if !ok {
		return false
	}
	return json.Unmarshal(raw, into) == nil
}

// evalNote records, in the JSON copy of the tables, which route produced a table.
func (g *gen) evalNote(table, route string) {
	m, _ := g.js["table_routes"].(map[string]string)
	if m == nil {
		m = map[string]string{}
		g.js["table_routes"] = m
	}
	m[table] = route
}

// choose implements the combination rule for one table.  pat / ev are canonical renderings of the
// data obtained by the two routes ("" = that route is not available; errPat / errEv say why).
// It returns which route's data to emit (routePattern keeps the order of the source text, so that an
// unchanged tree regenerates the same Tables.v) or routeNone after a g.fail.
const (
	routeNone = iota
	routePattern
	routeEval
)

func (g *gen) choose(table, pat, errPat, ev, errEv string) int {
	if evalOnly && ev != "" {
		pat, errPat = "", "ignored (-evalonly)"
	}
	switch {
	case pat != "" && ev != "":
		if pat != ev {
			g.fail("%s: the source pattern and the evaluation of the compiled code disagree (pattern %s, evaluated %s): translator defect or a shape the pattern misreads", table, clip(pat), clip(ev))
			g.evalNote(table, "DISAGREE")
			return routeEval
		}
		g.evalNote(table, "pattern+evaluated")
		return routePattern
	case pat != "":
		g.evalNote(table, "pattern (evaluation unavailable: "+clip(errEv)+")")
		return routePattern
	case ev != "":
		g.evalNote(table, "evaluated (pattern: "+clip(errPat)+")")
		return routeEval
	}
	g.fail("%s: %s; evaluation: %s", table, errPat, clip(errEv))
	g.evalNote(table, "NONE")
	return routeNone
}

func clip(s string) string {
	if len(s) > 300 {
		return s[:300] + " ..."
	}
	return s
}

// silent runs f with g.fail redirected: the messages are returned instead of recorded.  Used to try
// the pattern route without committing to its failures.
func (g *gen) silent(f func()) []string {
	saved := g.problem
	g.problem = nil
	f()
	msgs := g.problem
	g.problem = saved
	return msgs
}

// goEvalItems evaluates several independent items (name -> Go statements that store into res[...])
// sharing a prelude.  All items are tried in one program; when that does not compile or run (one of
// the names an item refers to is gone), every item is evaluated on its own, so that one vanished
// function does not take the other tables with it.  errs has the reason for each item without result.
func (g *gen) goEvalItems(pkgRel string, imports []string, prelude string, items map[string]string) (evalResult, map[string]string) {
	var names []string
	for n := range items {
		names = append(names, n)
	}
	sort.Strings(names)
	var all strings.Builder
	all.WriteString(prelude)
	for _, n := range names {
		fmt.Fprintf(&all, "\t{ // %s\n%s\n\t}\n", n, items[n])
	}
	errs := map[string]string{}
	r, err := g.goEval(pkgRel, imports, all.String())
	if err == nil {
		return r, errs
	}
	if evalDisabled {
		for _, n := range names {
			errs[n] = err.Error()
		}
		return nil, errs
	}
	merged := evalResult{}
	for _, n := range names {
		r1, err1 := g.goEval(pkgRel, imports, prelude+"\t{ // "+n+"\n"+items[n]+"\n\t}\n")
		if err1 != nil {
			errs[n] = err1.Error()
			continue
		}
		for k, v := range r1 {
			merged[k] = v
		}
	}
	return merged, errs
}
