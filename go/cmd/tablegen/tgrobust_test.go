package main

// Tests of the shape-independent readers of the older generators (values.go, coqbool.go): the same table for
// several spellings of one behaviour, a different table or a refusal for another behaviour.

import (
	"go/ast"
	"go/parser"
	"go/token"
	"reflect"
	"strings"
	"testing"
)

func genWith(t *testing.T, rel, src string) *gen {
	t.Helper()
	g := &gen{repo: "/nonexistent", fset: token.NewFileSet(), files: map[string]*ast.File{}, js: map[string]interface{}{}}
	f, err := parser.ParseFile(g.fset, rel, src, parser.ParseComments)
	if err != nil {
		t.Fatal(err)
	}
	g.files[rel] = f
	return g
}

const valueHead = `package data
import ("math"; "reflect")
type Value interface{ Equals(Value) bool }
type (Undefined struct{}; Null struct{}; Bool bool; Int int64; Float float64; String string; List []Value; Map map[string]Value)
`

func TestEqualsShapes(t *testing.T) {
	shapes := map[string][]string{
		"Bool": {
			`func (v Bool) Equals(other Value) bool { if o, ok := other.(Bool); ok { return v == o }; return false }`,
			`func (v Bool) Equals(other Value) bool { o, ok := other.(Bool); return ok && v == o }`,
			`func (v Bool) Equals(other Value) bool { o, ok := other.(Bool); if !ok { return false }; return bool(v) == bool(o) }`,
			`func (v Bool) Equals(other Value) bool { switch o := other.(type) { case Bool: return o == v; default: return false } }`,
			`func (v Bool) Equals(x Value) bool { if o, ok := x.(Bool); !ok { return false } else { return v == o } }`,
		},
		"List": {
			`func (v List) Equals(other Value) bool { if o, ok := other.(List); ok { return reflect.ValueOf(v).Pointer() == reflect.ValueOf(o).Pointer() }; return false }`,
			`func same(a, b interface{}) bool { return reflect.ValueOf(a).Pointer() == reflect.ValueOf(b).Pointer() }
			 func (v List) Equals(other Value) bool { o, ok := other.(List); return ok && same(v, o) }`,
		},
		"Int": {
			`func (v Int) Equals(other Value) bool { switch o := other.(type) { case Int: return v == o; case Float: return float64(v) == float64(o) }; return false }`,
			`func (v Int) Equals(other Value) bool { if o, ok := other.(Float); ok { return float64(o) == float64(v) }; o, ok := other.(Int); return ok && o == v }`,
		},
		"Null": {
			`func (v Null) Equals(other Value) bool { _, ok := other.(Null); return ok }`,
			`func (v Null) Equals(other Value) bool { switch other.(type) { case Null: return true }; return false }`,
		},
	}
	for kind, srcs := range shapes {
		var first map[string]int
		for i, src := range srcs {
			g := genWith(t, valueRel, valueHead+src)
			rows, ok := g.equalsRows(kind)
			if !ok {
				t.Errorf("%s shape %d not read: %s", kind, i, src)
				continue
			}
			if first == nil {
				first = rows
			} else if !reflect.DeepEqual(first, rows) {
				t.Errorf("%s shape %d reads %v, shape 0 reads %v", kind, i, rows, first)
			}
		}
		if kind == "Int" && (first["Int"] != 1 || first["Float"] != 2 || first["String"] != 0) {
			t.Errorf("Int rows %v", first)
		}
		if kind == "List" && first["List"] != 3 {
			t.Errorf("List rows %v", first)
		}
	}
	// other behaviours: a different table or a refusal
	for _, c := range []struct {
		kind, src string
		refuse    bool
		differs   string
	}{
		{"Bool", `func (v Bool) Equals(other Value) bool { o, ok := other.(Bool); return ok || v == o }`, true, ""},
		{"Bool", `func (v Bool) Equals(other Value) bool { o, ok := other.(Bool); return ok && v != o }`, true, ""},
		{"Bool", `func (v Bool) Equals(other Value) bool { _, ok := other.(Bool); return ok }`, false, "Bool"},
		{"Bool", `func (v Bool) Equals(other Value) bool { o, ok := other.(Bool); return !ok || v == o }`, false, "Int"},
		{"Int", `func (v Int) Equals(other Value) bool { switch o := other.(type) { case Int: return v == o; case Float: return false }; return false }`, false, "Float"},
		{"Int", `func (v Int) Equals(other Value) bool { switch o := other.(type) { case Int, Float: return v == o }; return false }`, true, ""},
		{"Bool", `func (v Bool) Equals(other Value) bool { o, _ := other.(Bool); return v == o }`, true, ""},
	} {
		g := genWith(t, valueRel, valueHead+c.src)
		rows, ok := g.equalsRows(c.kind)
		if c.refuse {
			if ok {
				t.Errorf("accepted %s as %v", c.src, rows)
			}
			continue
		}
		if !ok {
			t.Errorf("refused %s", c.src)
			continue
		}
		ref, _ := genWith(t, valueRel, valueHead+shapes[c.kind][0]).equalsRows(c.kind)
		if rows[c.differs] == ref[c.differs] {
			t.Errorf("%s: row %s is %d as in the reference", c.src, c.differs, rows[c.differs])
		}
	}
}

func TestTruthyShapes(t *testing.T) {
	same := []string{
		`func (v Float) Truthy() bool { return v != 0.0 && !math.IsNaN(float64(v)) }`,
		`func (v Float) Truthy() bool { if math.IsNaN(float64(v)) { return false }; return v != 0 }`,
		`func (v Float) Truthy() bool { if v == 0 { return false } else if math.IsNaN(float64(v)) { return false }; return true }`,
		`func (v Float) Truthy() bool { if v != 0 { return !math.IsNaN(float64(v)) }; return false }`,
	}
	other := []string{
		`func (v Float) Truthy() bool { return v != 0.0 }`,
		`func (v Float) Truthy() bool { if math.IsNaN(float64(v)) { return true }; return v != 0 }`,
	}
	table := func(src string) (string, bool) {
		g := genWith(t, valueRel, valueHead+src)
		fd := g.method(valueRel, "Float", "Truthy")
		body, ok := truthyCtx{kind: "Float", recv: "v"}.truthyBody(fd.Body.List)
		if !ok {
			return "", false
		}
		n, err := parseCoqBool(body)
		if err != nil {
			t.Fatalf("%s: %v", body, err)
		}
		var sb strings.Builder
		for mask := 0; mask < 4; mask++ {
			v, ok := n.evalBool(&cbEnv{bools: map[string]bool{"is_zero": mask&1 != 0, "is_nan": mask&2 != 0}})
			if !ok {
				t.Fatalf("cannot evaluate %s", body)
			}
			if mask == 3 {
				continue // a float is not both zero and NaN
			}
			if v {
				sb.WriteByte('1')
			} else {
				sb.WriteByte('0')
			}
		}
		return sb.String(), true
	}
	ref, ok := table(same[0])
	if !ok || ref != "100" {
		t.Fatalf("reference table %q %v", ref, ok)
	}
	for _, s := range same[1:] {
		if got, ok := table(s); !ok || got != ref {
			t.Errorf("%s: table %q (read %v), want %q", s, got, ok, ref)
		}
	}
	for _, s := range other {
		if got, ok := table(s); ok && got == ref {
			t.Errorf("%s: same table as the reference", s)
		}
	}
	if _, ok := table(`func (v Float) Truthy() bool { for {}; return true }`); ok {
		t.Errorf("a loop was read")
	}
}

func TestCoqBoolAndOrder(t *testing.T) {
	n, err := parseCoqBool("((((97 <=? r) && (r <=? 122)) || ((65 <=? r) && (r <=? 90))) || (r =? 95))%Z")
	if err != nil {
		t.Fatal(err)
	}
	for r, want := range map[int64]bool{97: true, 122: true, 123: false, 65: true, 95: true, 96: false, -1: false} {
		if v, ok := n.evalBool(&cbEnv{ints: map[string]int64{"r": r}}); !ok || v != want {
			t.Errorf("r=%d: %v %v", r, v, ok)
		}
	}
	n, err = parseCoqBool("((gen_isSpace r) || (negb (gen_isAlphaNumeric uni_letter uni_digit r)))")
	if err != nil {
		t.Fatal(err)
	}
	env := &cbEnv{ints: map[string]int64{"r": 5}, preds: map[string]func(int64) bool{"gen_isSpace": func(r int64) bool { return r == 32 }, "gen_isAlphaNumeric": func(r int64) bool { return r == 5 }}}
	if v, ok := n.evalBool(env); !ok || v {
		t.Errorf("application: %v %v", v, ok)
	}
	prevDefsCache = map[string]string{"s": "[itemB; itemA (* x *); itemC]", "t": "[(1, [32]); (0, [])]"}
	defer func() { prevDefsCache = nil }()
	if got := keepOrder("s", []string{"itemA", "itemB", "itemC"}); strings.Join(got, ",") != "itemB,itemA,itemC" {
		t.Errorf("keepOrder same set: %v", got)
	}
	if got := keepOrder("s", []string{"itemA", "itemB", "itemD"}); strings.Join(got, ",") != "itemA,itemB,itemD" {
		t.Errorf("keepOrder other set: %v", got)
	}
	if got := keepOrder("t", []string{"(0, [])", "(1, [32])"}); strings.Join(got, ";") != "(1, [32]);(0, [])" {
		t.Errorf("keepOrder pairs: %v", got)
	}
	if got := keepAtomSpelling("s", "(a && b)", []string{"a", "b"}); got != "(a && b)" {
		t.Errorf("keepAtomSpelling with an unparsable previous text: %v", got)
	}
	prevDefsCache["f"] = "((negb is_zero) && (negb is_nan))"
	if got := keepAtomSpelling("f", "((negb is_nan) && (negb is_zero))", []string{"is_zero", "is_nan"}); got != "((negb is_zero) && (negb is_nan))" {
		t.Errorf("same function must keep the previous spelling: %v", got)
	}
	if got := keepAtomSpelling("f", "(negb is_zero)", []string{"is_zero", "is_nan"}); got != "(negb is_zero)" {
		t.Errorf("another function must not keep the previous spelling: %v", got)
	}
}
