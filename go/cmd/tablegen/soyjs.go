package main

// soyjs tables: print directives (soyjs/directives.go), functions and the text
// each function's Apply writes (soyjs/funcs.go), and the strings of the ES5/ES6
// formatters (soyjs/formatters.go).  Apply bodies are translated only in the
// flat shapes  js.Write(<string literal | args[i]>...)  and
// switch len(args) { case n: js.Write(...) ... default: js.Write(...) };
// builtinFunc and ES6Identifier are control flow / library calls that are
// modelled by hand: their source text is compared with the text the model was
// written against and a difference is reported as untranslatable.

import (
	"fmt"
	"go/ast"
	"go/token"
	"sort"
	"strings"
)

func init() {
	register("50-soyjs-directives", (*gen).jsDirectives)
	register("51-soyjs-funcs", (*gen).jsFuncs)
	register("52-soyjs-formatters", (*gen).jsFormatters)
}

func (g *gen) jsDirectives() {
	const rel = "soyjs/directives.go"
	type ent struct {
		Name   string
		JS     string
		Cancel bool
	}
	var ents []ent
	// pattern route: the map literal, entries positional or keyed
	perr := g.silent(func() {
		cl, ok := g.varValue(rel, "PrintDirectives").(*ast.CompositeLit)
		if !ok {
			g.fail("%s: PrintDirectives is not a composite literal", rel)
			return
		}
		seen := map[string]bool{}
		for _, el := range cl.Elts {
			kv, ok := el.(*ast.KeyValueExpr)
			if !ok {
				g.fail("%s: PrintDirectives entry not key:value", rel)
				continue
			}
			name, ok1 := strLit(kv.Key)
			v, ok2 := kv.Value.(*ast.CompositeLit)
			if !ok1 || !ok2 || seen[name] {
				g.fail("%s: PrintDirectives entry shape", rel)
				continue
			}
			seen[name] = true
			var fName, fCancel ast.Expr
			okShape := true
			for i, fe := range v.Elts {
				if fkv, isKV := fe.(*ast.KeyValueExpr); isKV {
					switch {
					case isIdent(fkv.Key, "Name"):
						fName = fkv.Value
					case isIdent(fkv.Key, "CancelAutoescape"):
						fCancel = fkv.Value
					default:
						okShape = false
					}
				} else if i == 0 {
					fName = fe
				} else if i == 1 {
					fCancel = fe
				} else {
					okShape = false
				}
			}
			js, cancel := "", false
			if fName != nil {
				var ok3 bool
				if js, ok3 = strLit(fName); !ok3 {
					okShape = false
				}
			}
			if fCancel != nil {
				if isIdent(fCancel, "true") || isIdent(fCancel, "false") {
					cancel = isIdent(fCancel, "true")
				} else {
					okShape = false
				}
			}
			if !okShape {
				g.fail("%s: PrintDirectives[%q] fields are not (string literal, bool literal)", rel, name)
				continue
			}
			ents = append(ents, ent{name, js, cancel})
		}
	})
	canon := func(es []ent) string {
		m := map[string]string{}
		for _, e := range es {
			m[e.Name] = fmt.Sprintf("%q %v", e.JS, e.Cancel)
		}
		return canonMap(m)
	}
	pats := ""
	if len(perr) == 0 {
		pats = canon(ents)
	}
	// evaluation route: the exported map of the compiled package
	evs, everr := "", ""
	var evEnts []ent
	ev, err := g.goEval("soyjs", []string{"encoding/hex"}, `	out := [][]interface{}{}
	for name, d := range PrintDirectives {
		out = append(out, []interface{}{hex.EncodeToString([]byte(name)), hex.EncodeToString([]byte(d.Name)), d.CancelAutoescape})
	}
	res["PrintDirectives"] = out`)
	if err != nil {
		everr = err.Error()
	} else {
		var raw [][]interface{}
		if ev.get("PrintDirectives", &raw) {
			for _, e := range raw {
				if len(e) != 3 {
					everr = "malformed evaluation result"
					break
				}
				hn, ok1 := e[0].(string)
				hj, ok2 := e[1].(string)
				c, ok3 := e[2].(bool)
				n, err1 := hexDecode(hn)
				j, err2 := hexDecode(hj)
				if !ok1 || !ok2 || !ok3 || err1 != nil || err2 != nil {
					everr = "malformed evaluation result"
					break
				}
				evEnts = append(evEnts, ent{n, j, c})
			}
			if everr == "" {
				evs = canon(evEnts)
			}
		} else {
			everr = "no result for PrintDirectives"
		}
	}
	switch g.choose(rel+" PrintDirectives", pats, strings.Join(perr, "; "), evs, everr) {
	case routeEval:
		ents = evEnts
	case routeNone:
		ents = nil
	}
	sort.Slice(ents, func(i, j int) bool { return ents[i].Name < ents[j].Name })
	g.p("(* soyjs/directives.go PrintDirectives: name -> (JavaScript function name, CancelAutoescape) *)\n")
	g.p("Definition js_directives : list (bstr * (bstr * bool)) := [\n")
	for i, e := range ents {
		sep := ";"
		if i == len(ents)-1 {
			sep = ""
		}
		g.p("  (%s (* %s *), (%s (* %s *), %s))%s\n", coqBytes(e.Name), e.Name, coqBytes(e.JS), e.JS, coqBool(e.Cancel), sep)
	}
	g.p("].\n\n")
	g.js["js_directives"] = ents
}

type jsPiece struct {
	Text  string `json:"text,omitempty"`
	Arg   int    `json:"arg"`
	IsArg bool   `json:"is_arg"`
}

func coqPieces(ps []jsPiece) string {
	var parts []string
	for _, p := range ps {
		if p.IsArg {
			parts = append(parts, fmt.Sprintf("inr %d%%nat", p.Arg))
		} else {
			parts = append(parts, "inl "+coqBytes(p.Text))
		}
	}
	return "[" + strings.Join(parts, "; ") + "]"
}

// writeCall translates  js.Write(a, b, ...)  into pieces.
func (g *gen) writeCall(fn string, st ast.Stmt) ([]jsPiece, bool) {
	es, ok := st.(*ast.ExprStmt)
	if !ok {
		return nil, false
	}
	call, ok := es.X.(*ast.CallExpr)
	if !ok {
		return nil, false
	}
	sel, ok := call.Fun.(*ast.SelectorExpr)
	if !ok || sel.Sel.Name != "Write" {
		return nil, false
	}
	if id, ok := sel.X.(*ast.Ident); !ok || id.Name != "js" {
		return nil, false
	}
	var ps []jsPiece
	for _, a := range call.Args {
		if s, ok := strLit(a); ok {
			ps = append(ps, jsPiece{Text: s})
			continue
		}
		if ix, ok := a.(*ast.IndexExpr); ok {
			if id, ok := ix.X.(*ast.Ident); ok && id.Name == "args" {
				if n, ok := intLit(ix.Index); ok {
					ps = append(ps, jsPiece{Arg: int(n), IsArg: true})
					continue
				}
			}
		}
		g.fail("soyjs/funcs.go: %s: argument of js.Write is neither a string literal nor args[i]: %s", fn, g.src(a))
		return nil, false
	}
	return ps, true
}

type jsAlt struct {
	Len    int       `json:"len"` // -1 = default / unconditional
	Pieces []jsPiece `json:"pieces"`
}

func (g *gen) applyShape(fn string) []jsAlt {
	const rel = "soyjs/funcs.go"
	fd := g.funcDecl(rel, fn)
	if fd == nil || fd.Body == nil {
		g.fail("%s: function %s not found", rel, fn)
		return nil
	}
	if len(fd.Body.List) != 1 {
		g.fail("%s: %s: body is not a single statement", rel, fn)
		return nil
	}
	if ps, ok := g.writeCall(fn, fd.Body.List[0]); ok {
		return []jsAlt{{-1, ps}}
	}
	sw, ok := fd.Body.List[0].(*ast.SwitchStmt)
	if !ok || sw.Init != nil || g.src(sw.Tag) != "len(args)" {
		g.fail("%s: %s: body is neither js.Write(...) nor switch len(args)", rel, fn)
		return nil
	}
	var alts []jsAlt
	for _, cc := range sw.Body.List {
		c := cc.(*ast.CaseClause)
		if len(c.Body) != 1 {
			g.fail("%s: %s: case body is not a single js.Write", rel, fn)
			return nil
		}
		ps, ok := g.writeCall(fn, c.Body[0])
		if !ok {
			g.fail("%s: %s: case body is not js.Write(...)", rel, fn)
			return nil
		}
		if c.List == nil {
			alts = append(alts, jsAlt{-1, ps})
			continue
		}
		for _, e := range c.List {
			n, ok := intLit(e)
			if !ok {
				g.fail("%s: %s: case label is not an int literal", rel, fn)
				return nil
			}
			alts = append(alts, jsAlt{int(n), ps})
		}
	}
	// a default clause must be tried last whatever its textual position
	sort.SliceStable(alts, func(i, j int) bool { return alts[i].Len != -1 && alts[j].Len == -1 })
	return alts
}

const builtinFuncSrc = `func builtinFunc(name string) func(js JSWriter, args []ast.Node) { var funcStart = "soy.$$" + name + "(" return func(js JSWriter, args []ast.Node) { js.Write(funcStart) for i, arg := range args { if i != 0 { js.Write(",") } js.Write(arg) } js.Write(")") } }`

func (g *gen) jsFuncs() {
	const rel = "soyjs/funcs.go"
	type ent struct {
		Name    string
		ArgLens []int64
		Builtin string  // soy.$$<Builtin>( args joined by "," )
		Alts    []jsAlt // otherwise
	}
	var ents []ent
	cl, ok := g.varValue(rel, "funcs").(*ast.CompositeLit)
	if !ok {
		g.fail("%s: funcs is not a composite literal", rel)
	} else {
		seen := map[string]bool{}
		for _, el := range cl.Elts {
			v, ok := el.(*ast.CompositeLit)
			if !ok || len(v.Elts) != 3 {
				g.fail("%s: funcs entry is not {name, apply, arglens}", rel)
				continue
			}
			name, ok := strLit(v.Elts[0])
			if !ok {
				g.fail("%s: funcs entry name is not a string literal", rel)
				continue
			}
			if seen[name] {
				g.fail("%s: funcs has two entries named %q", rel, name)
			}
			seen[name] = true
			e := ent{Name: name}
			if al, ok := v.Elts[2].(*ast.CompositeLit); ok {
				for _, x := range al.Elts {
					if n, ok := intLit(x); ok {
						e.ArgLens = append(e.ArgLens, n)
					} else {
						g.fail("%s: funcs[%q] arg length not an int literal", rel, name)
					}
				}
			} else {
				g.fail("%s: funcs[%q] has no ValidArgLengths literal", rel, name)
			}
			switch a := v.Elts[1].(type) {
			case *ast.Ident:
				e.Alts = g.applyShape(a.Name)
			case *ast.CallExpr:
				id, ok := a.Fun.(*ast.Ident)
				var arg string
				ok2 := false
				if len(a.Args) == 1 {
					arg, ok2 = strLit(a.Args[0])
				}
				if !ok || id.Name != "builtinFunc" || !ok2 {
					g.fail("%s: funcs[%q] apply is not builtinFunc(\"...\")", rel, name)
					continue
				}
				e.Builtin = arg
			default:
				g.fail("%s: funcs[%q] apply has an unexpected shape", rel, name)
				continue
			}
			ents = append(ents, e)
		}
	}
	if fd := g.funcDecl(rel, "builtinFunc"); fd == nil || g.src(&ast.FuncDecl{Name: fd.Name, Type: fd.Type, Body: fd.Body}) != builtinFuncSrc {
		g.fail("%s: builtinFunc differs from the text the model (JsGen.builtin_call) was written against", rel)
	}
	// the init function must copy funcs into Funcs unchanged
	if fd := g.funcDecl(rel, "init"); fd == nil || g.src(fd.Body) != "{ for _, f := range funcs { Funcs[f.Name] = f } }" {
		g.fail("%s: init no longer copies funcs into Funcs verbatim", rel)
	}
	sort.Slice(ents, func(i, j int) bool { return ents[i].Name < ents[j].Name })
	g.p("(* soyjs/funcs.go funcs: name -> (valid argument counts (unused by the generator), alternatives).\n")
	g.p("   An alternative (Some n, pieces) applies when len(args) = n, (None, pieces) otherwise;\n")
	g.p("   a piece is text (inl) or args[i] (inr i). *)\n")
	g.p("Definition js_funcs : list (bstr * (list N * list (option nat * list (bstr + nat)))) := [\n")
	first := true
	for _, e := range ents {
		if e.Builtin != "" {
			continue
		}
		if !first {
			g.p(";\n")
		}
		first = false
		var alts []string
		for _, a := range e.Alts {
			guard := "None"
			if a.Len >= 0 {
				guard = fmt.Sprintf("Some %d%%nat", a.Len)
			}
			alts = append(alts, "("+guard+", "+coqPieces(a.Pieces)+")")
		}
		g.p("  (%s (* %s *), (%s, [%s]))", coqBytes(e.Name), e.Name, coqIntList(e.ArgLens), strings.Join(alts, "; "))
	}
	g.p("\n].\n")
	g.p("(* functions built by builtinFunc(name): soy.$$name(args joined by commas) *)\n")
	g.p("Definition js_builtin_funcs : list (bstr * bstr) := [")
	first = true
	for _, e := range ents {
		if e.Builtin == "" {
			continue
		}
		if !first {
			g.p("; ")
		}
		first = false
		g.p("(%s (* %s *), %s (* %s *))", coqBytes(e.Name), e.Name, coqBytes(e.Builtin), e.Builtin)
	}
	g.p("].\n\n")
	g.js["js_funcs"] = ents
}

// fmtEnv: a small symbolic evaluator of string-valued code over ONE abstract string (the name the
// formatter is given): a value is a list of pieces, text or the name (inr 0) or ES6Identifier(name)
// (inr 1).  It reads `x := <expr>` / `var x = <expr>` / `return <exprs>`, `+`, string literals, the
// parameter (name | dir.Name | fn.Name), locals, ES6Identifier(<the name>) and calls of plain functions of
// the same file whose body is of the same kind (their parameters bound to the arguments).
type fmtEnv struct {
	g      *gen
	where  string
	param  string // source text that denotes the name: "name", "dir.Name", "fn.Name"
	locals map[string][]jsPiece
	depth  int
}

const fmtRel = "soyjs/formatters.go"

func (en *fmtEnv) expr(e ast.Expr) ([]jsPiece, bool) {
	e = unparen(e)
	if en.g.src(e) == en.param {
		if _, shadowed := en.locals[en.param]; !shadowed {
			return []jsPiece{{IsArg: true, Arg: 0}}, true
		}
	}
	switch e := e.(type) {
	case *ast.BinaryExpr:
		if e.Op != token.ADD {
			break
		}
		l, ok1 := en.expr(e.X)
		r, ok2 := en.expr(e.Y)
		return joinPieces(l, r), ok1 && ok2
	case *ast.BasicLit:
		if s, ok := strLit(e); ok {
			if s == "" {
				return nil, true
			}
			return []jsPiece{{Text: s}}, true
		}
	case *ast.Ident:
		if ps, ok := en.locals[e.Name]; ok {
			return ps, true
		}
	case *ast.CallExpr:
		id, ok := e.Fun.(*ast.Ident)
		if !ok {
			break
		}
		var args [][]jsPiece
		for _, a := range e.Args {
			ps, ok := en.expr(a)
			if !ok {
				return nil, false
			}
			args = append(args, ps)
		}
		if id.Name == "ES6Identifier" && len(args) == 1 {
			if len(args[0]) == 1 && args[0][0].IsArg && args[0][0].Arg == 0 {
				return []jsPiece{{IsArg: true, Arg: 1}}, true
			}
			break // ES6Identifier of anything but the name itself is not a piece
		}
		// a helper of the same file
		fd := en.g.funcDecl(fmtRel, id.Name)
		if fd == nil || fd.Body == nil || en.depth > 4 {
			break
		}
		var params []string
		for _, f := range fd.Type.Params.List {
			if !isIdent(f.Type, "string") {
				params = nil
				break
			}
			for _, n := range f.Names {
				params = append(params, n.Name)
			}
		}
		if len(params) != len(args) || len(params) == 0 {
			break
		}
		sub := &fmtEnv{g: en.g, where: en.where, param: "\x00none", locals: map[string][]jsPiece{}, depth: en.depth + 1}
		for i, p := range params {
			sub.locals[p] = args[i]
		}
		if rs, ok := sub.body(fd.Body.List, 1); ok {
			return rs[0], true
		}
		return nil, false
	}
	en.g.fail("soyjs/formatters.go: %s: cannot translate %s", en.where, en.g.src(e))
	return nil, false
}

// joinPieces concatenates, merging adjacent texts (so that "a" + "b" and "ab" are the same table).
func joinPieces(l, r []jsPiece) []jsPiece {
	out := append([]jsPiece{}, l...)
	for _, p := range r {
		if n := len(out); n > 0 && !out[n-1].IsArg && !p.IsArg {
			out[n-1].Text += p.Text
			continue
		}
		out = append(out, p)
	}
	return out
}

// body evaluates straight-line code ending in a return of `results` strings.
func (en *fmtEnv) body(st []ast.Stmt, results int) ([][]jsPiece, bool) {
	for i, s := range st {
		switch s := s.(type) {
		case *ast.ReturnStmt:
			if len(s.Results) != results || i != len(st)-1 {
				en.g.fail("soyjs/formatters.go: %s: return statement with %d results, expected %d", en.where, len(s.Results), results)
				return nil, false
			}
			var out [][]jsPiece
			for _, r := range s.Results {
				ps, ok := en.expr(r)
				if !ok {
					return nil, false
				}
				out = append(out, ps)
			}
			return out, true
		case *ast.AssignStmt:
			if (s.Tok != token.DEFINE && s.Tok != token.ASSIGN) || len(s.Lhs) != len(s.Rhs) {
				en.g.fail("soyjs/formatters.go: %s: unsupported assignment %s", en.where, en.g.src(s))
				return nil, false
			}
			var vals [][]jsPiece
			for _, r := range s.Rhs {
				ps, ok := en.expr(r)
				if !ok {
					return nil, false
				}
				vals = append(vals, ps)
			}
			for j, l := range s.Lhs {
				id, ok := l.(*ast.Ident)
				if !ok {
					en.g.fail("soyjs/formatters.go: %s: unsupported assignment %s", en.where, en.g.src(s))
					return nil, false
				}
				en.locals[id.Name] = vals[j]
			}
		case *ast.DeclStmt:
			gd, ok := s.Decl.(*ast.GenDecl)
			if !ok || gd.Tok != token.VAR {
				en.g.fail("soyjs/formatters.go: %s: unsupported declaration", en.where)
				return nil, false
			}
			for _, sp := range gd.Specs {
				vs := sp.(*ast.ValueSpec)
				if len(vs.Names) != len(vs.Values) {
					en.g.fail("soyjs/formatters.go: %s: unsupported declaration %s", en.where, en.g.src(s))
					return nil, false
				}
				for j, n := range vs.Names {
					ps, ok := en.expr(vs.Values[j])
					if !ok {
						return nil, false
					}
					en.locals[n.Name] = ps
				}
			}
		default:
			en.g.fail("soyjs/formatters.go: %s: unsupported statement %s", en.where, en.g.src(s))
			return nil, false
		}
	}
	en.g.fail("soyjs/formatters.go: %s does not end in a return statement", en.where)
	return nil, false
}

func (g *gen) jsFormatters() {
	const rel = fmtRel
	out := map[string][]jsPiece{}
	emit := func(coqName string, ps []jsPiece) {
		g.p("Definition %s : list (bstr + nat) := %s.\n", coqName, coqPieces(ps))
		out[coqName] = ps
	}
	g.p("(* soyjs/formatters.go: strings returned by the formatters; inr 0 = the name argument, inr 1 = ES6Identifier(name) *)\n")
	for _, f := range []struct{ recv, coq string }{{"ES5Formatter", "es5"}, {"ES6Formatter", "es6"}} {
		for _, m := range []struct {
			name, field string
			results     int
		}{{"Template", "", 2}, {"Call", "", 2}, {"Directive", ".Name", 1}, {"Function", ".Name", 1}} {
			fd := g.method(rel, f.recv, m.name)
			where := f.recv + "." + m.name
			var rets [][]jsPiece
			if fd == nil || fd.Body == nil || fd.Type.Params == nil || len(fd.Type.Params.List) != 1 || len(fd.Type.Params.List[0].Names) != 1 {
				g.fail("%s: %s is not a method of one parameter", rel, where)
			} else {
				en := &fmtEnv{g: g, where: where, param: fd.Type.Params.List[0].Names[0].Name + m.field, locals: map[string][]jsPiece{}}
				rets, _ = en.body(fd.Body.List, m.results)
			}
			for i := 0; i < m.results; i++ {
				var ps []jsPiece
				if i < len(rets) {
					ps = rets[i]
				}
				suffix := ""
				if m.results == 2 {
					suffix = []string{"_name", "_text"}[i]
				}
				emit("js_"+f.coq+"_"+strings.ToLower(m.name)+suffix, ps)
			}
		}
	}
	// ES6Identifier: a library call, modelled by hand (JsGen.es6_ident: every "." becomes "__"); the source must be
	// one of the spellings of that
	okIdent := false
	if fd := g.funcDecl(rel, "ES6Identifier"); fd != nil && fd.Body != nil && fd.Type.Params != nil && len(fd.Type.Params.List) == 1 && len(fd.Type.Params.List[0].Names) == 1 &&
		isIdent(fd.Type.Params.List[0].Type, "string") && len(fd.Body.List) == 1 {
		p := fd.Type.Params.List[0].Names[0].Name
		if rs, ok := fd.Body.List[0].(*ast.ReturnStmt); ok && len(rs.Results) == 1 {
			switch g.src(rs.Results[0]) {
			case `strings.Replace(` + p + `, ".", "__", -1)`, `strings.ReplaceAll(` + p + `, ".", "__")`, `strings.Join(strings.Split(` + p + `, "."), "__")`:
				okIdent = true
			}
		}
	}
	if !okIdent {
		g.fail("%s: ES6Identifier is none of the spellings of `replace every \".\" by \"__\"` the model (JsGen.es6_ident) was written against (strings.Replace(s, \".\", \"__\", -1), strings.ReplaceAll, strings.Join(strings.Split(s, \".\"), \"__\"))", rel)
	}
	g.p("\n")
	g.js["js_formatters"] = out
}
