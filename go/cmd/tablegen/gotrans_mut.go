package main

// gotrans: state.  Assignments to the fields of a struct reached through a pointer (a method's receiver
// `s *scope`), element assignments `m[k] = v` / `s[i] = v` / `s.f[i][k] = v`, and calls of methods that do such
// things.  See gotrans.go (STATE) for the semantics: Go's effect on the caller's data becomes an extra result.

import (
	"go/ast"
	"go/token"
	"sort"
	"strings"
)

// stKey names a piece of assignable state: a variable (f == "") or a field of a struct variable.
type stKey struct{ v, f string }

func (k stKey) String() string {
	if k.f == "" {
		return k.v
	}
	return k.v + "." + k.f
}

func (k stKey) base() string {
	if k.f == "" {
		return k.v
	}
	return k.v + "_" + k.f
}

// sortKeys: in declaration order of the variables (fields in field order), so that renaming does not reorder binders
func sortKeys(m map[stKey]bool, env *venv) []stKey {
	var out []stKey
	for k := range m {
		out = append(out, k)
	}
	rank := func(k stKey) int {
		v := env.lookup(k.v)
		if v == nil {
			return 0
		}
		r := v.seq * 1000
		for i, fl := range v.typ.fields {
			if fl.name == k.f {
				r += i + 1
			}
		}
		return r
	}
	sort.Slice(out, func(i, j int) bool { return rank(out[i]) < rank(out[j]) })
	return out
}

// gtMut: a piece of the caller's data that a function changes: parameter number prm (0 = the receiver of a method),
// the field of that (pointer to) struct parameter, or the parameter as a whole (f == "": its elements are assigned).
type gtMut struct {
	prm int
	f   string
	typ *gtype
}

func flatField(v *gvar, f string) string {
	return "v_" + strings.ReplaceAll(v.goName, ".", "_") + "_" + f
}

// keyName: the Coq name that currently holds the state k, and its type.
func (tr *gtTr) keyName(env *venv, k stKey) (string, *gtype) {
	v := env.lookup(k.v)
	if v == nil {
		gtFail("internal: state %s is not in scope", k)
	}
	if k.f == "" {
		return v.coq, v.typ
	}
	for _, fl := range v.typ.fields {
		if fl.name == k.f {
			if c := v.fcoq[k.f]; c != "" {
				return c, fl.typ
			}
			return flatField(v, k.f), fl.typ
		}
	}
	gtFail("%s has no field %s", k.v, k.f)
	return "", nil
}

func (tr *gtTr) setKeyName(env *venv, k stKey, coq string) {
	if k.f == "" {
		env.assign(k.v, coq)
		return
	}
	v := env.lookup(k.v)
	if v.fcoq == nil {
		v.fcoq = map[string]string{}
	}
	v.fcoq[k.f] = coq
}

// useKey marks the state as read (it becomes a binder of the function / a parameter of the loop) and returns its name.
func (tr *gtTr) useKey(env *venv, k stKey) (string, *gtype) {
	v := env.lookup(k.v)
	if v == nil {
		gtFail("internal: state %s is not in scope", k)
	}
	if k.f == "" {
		e := tr.useVar(v)
		return e.code, e.typ
	}
	e := tr.field(v, k.f)
	return e.code, e.typ
}

// rootOf: the state an assignment to lhs changes, and whether it is changed through an element (an index).
func (tr *gtTr) rootOf(lhs ast.Expr, env *venv) (stKey, bool, bool) {
	elem := false
	e := unparen(lhs)
	for {
		switch x := e.(type) {
		case *ast.IndexExpr:
			elem = true
			e = unparen(x.X)
			continue
		case *ast.SliceExpr:
			e = unparen(x.X)
			continue
		case *ast.StarExpr:
			e = unparen(x.X)
			continue
		case *ast.SelectorExpr:
			if c, isCall := unparen(x.X).(*ast.CallExpr); isCall {
				if pl, ok := tr.placeCall(c, env); ok {
					elem = true // x.top().f with top a place helper: a field of the element x[...]
					e = pl
					continue
				}
			}
			if _, isId := unparen(x.X).(*ast.Ident); !isId {
				elem = true // a field of an element: s[i].f
				e = unparen(x.X)
				continue
			}
		}
		break
	}
	switch x := e.(type) {
	case *ast.Ident:
		if env.lookup(x.Name) != nil {
			return stKey{x.Name, ""}, elem, true
		}
	case *ast.SelectorExpr:
		if id, ok := unparen(x.X).(*ast.Ident); ok {
			if v := env.lookup(id.Name); v != nil && v.typ.kind == kStruct {
				return stKey{id.Name, x.Sel.Name}, elem, true
			}
		}
	}
	return stKey{}, false, false
}

// assignedIn: the state (visible in env) that the statements may assign, directly or through the methods they call.
// Syntactic and conservative: a name that is redeclared inside and then assigned counts as well.
func (tr *gtTr) assignedIn(nodes []ast.Node, env *venv) (keys, elems, whole map[stKey]bool) {
	keys, elems, whole = map[stKey]bool{}, map[stKey]bool{}, map[stKey]bool{}
	add := func(lhs ast.Expr) {
		if k, elem, ok := tr.rootOf(lhs, env); ok {
			keys[k] = true
			if elem {
				elems[k] = true
			} else {
				whole[k] = true
			}
		}
	}
	for _, n := range nodes {
		if n == nil || isNilNode(n) {
			continue
		}
		ast.Inspect(n, func(n ast.Node) bool {
			switch x := n.(type) {
			case *ast.FuncLit:
				gtFail("function literal is outside the subset")
			case *ast.AssignStmt:
				if x.Tok != token.DEFINE {
					for _, l := range x.Lhs {
						add(l)
					}
				}
			case *ast.IncDecStmt:
				add(x.X)
			case *ast.RangeStmt:
				if x.Tok == token.ASSIGN {
					if x.Key != nil {
						add(x.Key)
					}
					if x.Value != nil {
						add(x.Value)
					}
				}
			case *ast.UnaryExpr:
				if x.Op == token.AND {
					gtFail("taking an address (&) is outside the subset")
				}
			case *ast.CallExpr:
				if name, kind, arg, ok := tr.bufferWrite(x, env); ok {
					// a write into a local bytes.Buffer assigns the variable (its &b is not an address that escapes)
					k := stKey{name, ""}
					keys[k], whole[k] = true, true
					if kind == "HTMLEscape" {
						sub, _, _ := tr.assignedIn([]ast.Node{arg}, env)
						for k2 := range sub {
							keys[k2] = true
						}
						return false
					}
					return true
				}
				if pkg, fn, isLib := tr.libCall(x, env); isLib && pkg == "text/template" && fn == "HTMLEscape" && len(x.Args) == 2 {
					if u, isAddr := unparen(x.Args[0]).(*ast.UnaryExpr); isAddr && u.Op == token.AND {
						if _, isId := unparen(u.X).(*ast.Ident); isId {
							// &b of a buffer declared inside the scanned statements (not visible here, so not state
							// of the enclosing construct); the statement's own translation checks that b is one
							sub, _, _ := tr.assignedIn([]ast.Node{x.Args[1]}, env)
							for k2 := range sub {
								keys[k2] = true
							}
							return false
						}
					}
				}
				for _, m := range tr.calleeMuts(x, env) {
					keys[m] = true
					elems[m] = true
				}
			}
			return true
		})
	}
	return keys, elems, whole
}

func isNilNode(n ast.Node) bool {
	switch x := n.(type) {
	case *ast.BlockStmt:
		return x == nil
	case ast.Stmt:
		return x == nil
	}
	return false
}

// calleeMuts: the caller's state that the call changes (empty for calls of functions without effects).
func (tr *gtTr) calleeMuts(c *ast.CallExpr, env *venv) []stKey {
	sel, ok := c.Fun.(*ast.SelectorExpr)
	if !ok {
		return nil
	}
	id, ok := unparen(sel.X).(*ast.Ident)
	if !ok {
		return nil
	}
	v := env.lookup(id.Name)
	if v == nil || v.typ.ndir == "" {
		return nil
	}
	p := tr.g.gtPkg(v.typ.ndir)
	if _, isMethod := p.funcs[v.typ.nname+"."+sel.Sel.Name]; !isMethod {
		return nil
	}
	if tr.st.methodDiverges(tr.g, v.typ.ndir, v.typ.nname+"."+sel.Sel.Name, 0) {
		return nil // t.errorf(...): a panic, whatever it does before
	}
	// a callee that cannot be translated has no known effects here; the translation of the call itself reports it
	var callee *gtFn
	func() {
		defer func() {
			if r := recover(); r != nil {
				if _, ok := r.(gtErr); !ok {
					panic(r)
				}
				callee = nil
			}
		}()
		callee = tr.st.translate(tr.g, v.typ.ndir, v.typ.nname+"."+sel.Sel.Name, tr.fn)
	}()
	if callee == nil {
		return nil
	}
	var out []stKey
	for _, m := range callee.muts {
		if m.prm == 0 {
			out = append(out, stKey{id.Name, m.f})
			continue
		}
		a, ok := unparen(c.Args[m.prm-1]).(*ast.Ident)
		if !ok || m.f != "" {
			gtFail("call of %s: the argument it changes is not a plain variable", callee.key)
		}
		out = append(out, stKey{a.Name, ""})
	}
	return out
}

// mutCall translates a call that changes the caller's state, as a statement: lhs (may be nil) receives the results.
func (tr *gtTr) mutCall(c *ast.CallExpr, lhs []string, declare bool, env *venv, next cont) (gnode, bool) {
	keys := tr.calleeMuts(c, env)
	var callee *gtFn
	if len(keys) == 0 {
		// a call without effects that returns several values: a, b := f(x)
		if len(lhs) < 2 || c.Ellipsis.IsValid() {
			return nil, false
		}
		if _, _, isLib := tr.libCall(c, env); isLib {
			return nil, false
		}
		switch f := c.Fun.(type) {
		case *ast.Ident:
			if env.lookup(f.Name) != nil || tr.p.funcs[f.Name] == nil {
				return nil, false
			}
		case *ast.SelectorExpr:
		default:
			return nil, false
		}
		callee, _ = tr.resolveCallee(c, env)
		if len(callee.results) < 2 {
			return nil, false
		}
	} else {
		sel := c.Fun.(*ast.SelectorExpr)
		recv := env.lookup(unparen(sel.X).(*ast.Ident).Name)
		callee = tr.st.translate(tr.g, recv.typ.ndir, recv.typ.nname+"."+sel.Sel.Name, tr.fn)
	}
	if len(lhs) != 0 && len(lhs) != len(callee.results) {
		gtFail("call of %s: %d targets for %d results", callee.key, len(lhs), len(callee.results))
	}
	tr.inMutCall = true
	call := tr.call(c, env) // the application; its type is the tuple (changed state ..., results ...)
	var pats []string
	type bound struct {
		k    stKey
		name string
	}
	var bs []bound
	for _, k := range keys {
		n := tr.newName(k.base())
		pats = append(pats, n)
		bs = append(bs, bound{k, n})
	}
	var rnames []string
	for i := range callee.results {
		n := "_"
		if len(lhs) > 0 && lhs[i] != "_" {
			n = tr.newName(lhs[i])
		}
		rnames = append(rnames, n)
		pats = append(pats, n)
	}
	pat := pats[0]
	if len(pats) > 1 {
		pat = "'(" + strings.Join(pats, ", ") + ")"
	}
	for _, b := range bs {
		tr.setKeyName(env, b.k, b.name)
	}
	for i, n := range rnames {
		if n == "_" {
			continue
		}
		rt := callee.results[i]
		if declare && !declaredHere(env, lhs[i]) {
			env.declare(lhs[i], &gvar{coq: n, typ: rt, goName: lhs[i]})
		} else {
			v := env.lookup(lhs[i])
			if v == nil || v.typ.kind != rt.kind || v.typ.kind == kStruct {
				gtFail("call of %s: result %d cannot be assigned to %s", callee.key, i+1, lhs[i])
			}
			env.assign(lhs[i], n)
		}
	}
	return &nLet{name: pat, val: call, body: next(env)}, true
}

// setPath builds the new value of the root of lhs when lhs (root, root[i], root[i][k], ...) receives v.
func (tr *gtTr) setPath(lhs ast.Expr, v ex, env *venv) ex {
	switch x := unparen(lhs).(type) {
	case *ast.IndexExpr:
		cur := tr.expr(x.X, env)
		idx := tr.expr(x.Index, env)
		switch cur.typ.kind {
		case kMap:
			if idx.typ.kind != cur.typ.key.kind {
				gtFail("map index of kind %s for key type %s", idx.typ.name, cur.typ.key.name)
			}
			if cur.typ.elem.kind == kValue {
				v = tr.toValue(v, "map element")
			}
			if v.typ.kind != cur.typ.elem.kind {
				gtFail("assignment of a %s to an element of %s", v.typ.name, cur.typ.name)
			}
			fn := "go_map_set_s"
			if cur.typ.key.kind == kInt {
				fn = "go_map_set_z"
			}
			nv := ex{binds: mergeBinds(mergeBinds(cur.binds, idx.binds), v.binds), code: "(" + fn + " " + idx.code + " " + v.code + " " + cur.code + ")", typ: cur.typ}
			return tr.setPath(x.X, nv, env)
		case kSlice:
			if idx.typ.kind != kInt {
				gtFail("index is not an integer")
			}
			if v.typ.kind != cur.typ.elem.kind {
				gtFail("assignment of a %s to an element of %s", v.typ.name, cur.typ.name)
			}
			o := tr.fresh()
			binds := mergeBinds(mergeBinds(cur.binds, idx.binds), v.binds)
			binds = append(binds, gbind{o, "go_set_nth " + cur.code + " " + idx.code + " " + v.code})
			return tr.setPath(x.X, ex{binds: binds, code: o, typ: cur.typ}, env)
		}
		gtFail("assignment to an element of a %s is outside the subset", cur.typ.name)
	case *ast.StarExpr:
		return tr.setPath(x.X, v, env)
	case *ast.SelectorExpr:
		if _, isId := unparen(x.X).(*ast.Ident); !isId {
			cur := tr.expr(x.X, env)
			if cur.typ.kind != kStruct || !cur.typ.storable() {
				gtFail("assignment to a field of a %s is outside the subset", cur.typ.name)
			}
			return tr.setPath(x.X, tr.withField(cur, x.Sel.Name, v), env)
		}
		if _, _, ok := tr.rootOf(x, env); ok {
			return v
		}
	case *ast.Ident:
		if _, _, ok := tr.rootOf(x, env); ok {
			return v
		}
	}
	gtFail("assignment to %s is outside the subset", gtExprText(lhs))
	return ex{}
}

// assignState: lhs = v for an lhs that is not a plain local variable.
func (tr *gtTr) assignState(lhs ast.Expr, v ex, env *venv, next cont) gnode {
	k, _, ok := tr.rootOf(lhs, env)
	if !ok {
		gtFail("assignment to %s is outside the subset", gtExprText(lhs))
	}
	nv := tr.setPath(lhs, v, env)
	_, t := tr.keyName(env, k)
	if !t.supported() {
		gtFail("%s has type %s, which is outside the subset", k, t.name)
	}
	if t.kind == kValue {
		nv = tr.toValue(nv, "assignment")
	}
	if nv.typ.kind != t.kind {
		gtFail("assignment of a %s to %s of type %s", nv.typ.name, k, t.name)
	}
	if nv.typ.kind == kInt && nv.typ.untyped && nv.k != nil && !fitsInt(nv.k, t) {
		gtFail("constant %s overflows %s", nv.k, t.name)
	}
	if k.f == "" {
		v0 := env.lookup(k.v)
		if v0.banned != "" || v0.indexOf != nil {
			gtFail("assignment to %s is outside the subset", k)
		}
	} else {
		tr.useKey(env, k) // a field that is assigned is a binder: a path that leaves it alone returns it
	}
	name := tr.newName(k.base())
	tr.setKeyName(env, k, name)
	nv.k = nil
	nv.typ = t
	return &nLet{name: name, val: nv, body: next(env)}
}
