package main

import (
	"bytes"
	"fmt"
	"strings"

	"github.com/robfig/soy"
	"github.com/robfig/soy/data"
	"github.com/robfig/soy/soyhtml"
)

type srcFile struct {
	Name string `json:"name"`
	Text string `json:"text"`
}

// compile builds a Tofu from sources; a panic is reported as an error string
// starting with "PANIC".
func compile(files []srcFile) (tofu *soyhtml.Tofu, err error) {
	defer func() {
		if r := recover(); r != nil {
			err = fmt.Errorf("PANIC: %v", r)
		}
	}()
	b := soy.NewBundle()
	for _, f := range files {
		b.AddTemplateString(f.Name, f.Text)
	}
	return b.CompileToTofu()
}

// render runs one template; a panic escaping Render is reported as "PANIC".
func render(tofu *soyhtml.Tofu, name string, d data.Map, ij data.Map) (out string, err error) {
	defer func() {
		if r := recover(); r != nil {
			err = fmt.Errorf("PANIC: %v", r)
		}
	}()
	var buf bytes.Buffer
	r := tofu.NewRenderer(name)
	if ij != nil {
		r = r.Inject(ij)
	}
	err = r.Execute(&buf, d)
	return buf.String(), err
}

func errStr(err error) string {
	if err == nil {
		return ""
	}
	return err.Error()
}

func isPanicErr(err error) bool { return err != nil && strings.HasPrefix(err.Error(), "PANIC") }

// soyStr writes a Go string as a Soy single-quoted string literal.
func soyStr(s string) string {
	var b strings.Builder
	b.WriteByte('\'')
	for _, r := range s {
		switch r {
		case '\'':
			b.WriteString(`\'`)
		case '\\':
			b.WriteString(`\\`)
		case '\n':
			b.WriteString(`\n`)
		case '\r':
			b.WriteString(`\r`)
		case '\t':
			b.WriteString(`\t`)
		default:
			if r < 0x20 || r == 0x7f {
				fmt.Fprintf(&b, `\u%04X`, r)
			} else {
				b.WriteRune(r)
			}
		}
	}
	b.WriteByte('\'')
	return b.String()
}
