//go:build c11

package main

// C11 — extracted messages round-trip: generated bundles with messages are
// written to a scratch directory, the real xgettext-soy (built from the tree
// under check) extracts a POT, the harness fills in identity / reversing /
// partial translations for locales with 1, 2 and 3 plural forms, pomsg reads
// the .po files back, and both backends render with the catalogue.
//
// Oracle (independent of the model and of the catalogue machinery): the output
// with a catalogue must equal the output, WITHOUT a catalogue, of the program in
// which every translated {msg} is replaced by plain Soy code for its translation
// (the translated text segments and the source fragments of the placeholders in
// the order the translation puts them; a plural by an {if} chain on the
// locale's plural rule).  For the identity translation under the n != 1 rule
// this is the unmodified program: byte-for-byte equality with the
// no-catalogue render.  Go and JavaScript must agree with a catalogue wherever
// they agree without one.
//
// Model vs implementation: soymsg.Parts, pomsg.Validate/Msgid/MsgidPlural, and
// the rendered bytes with a catalogue (Model/MsgParts.v on the dumped AST).

import (
	"bytes"
	"encoding/hex"
	"encoding/json"
	"fmt"
	"io"
	"os"
	"os/exec"
	"path/filepath"
	"regexp"
	"sort"
	"strconv"
	"strings"
	"time"

	"github.com/robfig/gettext/po"
	"github.com/robfig/soy"
	"github.com/robfig/soy/ast"
	"github.com/robfig/soy/data"
	"github.com/robfig/soy/soyhtml"
	"github.com/robfig/soy/soyjs"
	"github.com/robfig/soy/soymsg"
	"github.com/robfig/soy/soymsg/pomsg"
	"github.com/robfig/soy/template"
	"soyverif/internal/hx"
)

func init() {
	props["C11"] = runC11
	progMsgHook = c11MsgHook
}

// ---------------------------------------------------------------------------
// the run

type c11Replay struct {
	Files    []srcFile `json:"files"`
	Expected []srcFile `json:"expected_files,omitempty"` // the program the catalogue must be equivalent to
	Template string    `json:"template"`
	Data     string    `json:"data,omitempty"`
	DataJSON string    `json:"data_json,omitempty"`
	Kind     string    `json:"kind,omitempty"`
	Locale   string    `json:"locale,omitempty"`
	PO       string    `json:"po,omitempty"`
	Backend  string    `json:"backend,omitempty"`
	Messages []*c11Msg `json:"messages,omitempty"`
}

func c11Subst(files []srcFile, f func(m *c11Msg) string, msgs []*c11Msg) []srcFile {
	out := make([]srcFile, len(files))
	for i, sf := range files {
		out[i] = srcFile{sf.Name, c11TokenRe.ReplaceAllStringFunc(sf.Text, func(tok string) string {
			k, _ := strconv.Atoi(c11TokenRe.FindStringSubmatch(tok)[1])
			return f(msgs[k])
		})}
	}
	return out
}

func c11Compile(files []srcFile) (reg *template.Registry, err error) {
	defer func() {
		if r := recover(); r != nil {
			err = fmt.Errorf("PANIC: %v", r)
		}
	}()
	b := soy.NewBundle()
	for _, f := range files {
		b.AddTemplateString(f.Name, f.Text)
	}
	return b.Compile()
}

func c11Render(tofu *soyhtml.Tofu, name string, d data.Map, msgs soymsg.Bundle) (out string, err error) {
	defer func() {
		if r := recover(); r != nil {
			err = fmt.Errorf("PANIC: %v", r)
		}
	}()
	var buf bytes.Buffer
	r := tofu.NewRenderer(name)
	if msgs != nil {
		r = r.WithMessages(msgs)
	}
	err = r.Execute(&buf, d)
	return buf.String(), err
}

func c11JS(reg *template.Registry, msgs soymsg.Bundle) (code []string, err error) {
	defer func() {
		if r := recover(); r != nil {
			err = fmt.Errorf("PANIC: %v", r)
		}
	}()
	for _, sf := range reg.SoyFiles {
		var buf bytes.Buffer
		if err := soyjs.Write(&buf, sf, soyjs.Options{Messages: msgs}); err != nil {
			return nil, err
		}
		code = append(code, buf.String())
	}
	return code, nil
}

func c11JSON(v data.Value) interface{} {
	switch v := v.(type) {
	case data.Int:
		return int64(v)
	case data.Float:
		return float64(v)
	case data.String:
		return string(v)
	case data.Bool:
		return bool(v)
	case data.List:
		l := make([]interface{}, len(v))
		for i, x := range v {
			l[i] = c11JSON(x)
		}
		return l
	case data.Map:
		m := map[string]interface{}{}
		for k, x := range v {
			if _, undef := x.(data.Undefined); !undef {
				m[k] = c11JSON(x)
			}
		}
		return m
	}
	return nil
}

func c11MsgNodes(reg *template.Registry) []*ast.MsgNode {
	var r []*ast.MsgNode
	var visit func(n ast.Node)
	visit = func(n ast.Node) {
		if m, ok := n.(*ast.MsgNode); ok {
			r = append(r, m)
			return
		}
		if p, ok := n.(ast.ParentNode); ok {
			for _, c := range p.Children() {
				if c != nil {
					visit(c)
				}
			}
		}
	}
	for _, t := range reg.Templates {
		visit(t.Node)
	}
	return r
}

func c11PhNames(body ast.ParentNode) []string {
	var r []string
	for _, c := range body.Children() {
		if ph, ok := c.(*ast.MsgPlaceholderNode); ok {
			r = append(r, ph.Name)
		}
	}
	return r
}

// align binds the placeholder parts of m to the names the compiler gave them
func (m *c11Msg) align(node *ast.MsgNode) (nameOf map[string]string, incoherent bool, err error) {
	nameOf = map[string]string{}
	bind := func(ps []c11Part, names []string) error {
		k := 0
		for _, p := range ps {
			if !p.Ph {
				continue
			}
			if k >= len(names) {
				return fmt.Errorf("more placeholder parts than placeholder nodes")
			}
			if old, ok := nameOf[p.Src]; ok && old != names[k] {
				return fmt.Errorf("one source fragment %s has two names %s %s", p.Src, old, names[k])
			}
			nameOf[p.Src] = names[k]
			k++
		}
		if k != len(names) {
			return fmt.Errorf("%d placeholder parts, %d placeholder nodes", k, len(names))
		}
		return nil
	}
	ch := node.Body.Children()
	if m.Plural {
		if len(ch) != 1 {
			return nil, false, fmt.Errorf("plural message with %d children", len(ch))
		}
		pl, ok := ch[0].(*ast.MsgPluralNode)
		if !ok || len(pl.Cases) != len(m.Cases) {
			return nil, false, fmt.Errorf("plural shape")
		}
		for i, c := range pl.Cases {
			if err := bind(m.Cases[i].Parts, c11PhNames(c.Body)); err != nil {
				return nil, false, err
			}
		}
		if err := bind(m.Body, c11PhNames(pl.Default)); err != nil {
			return nil, false, err
		}
	} else if err := bind(m.Body, c11PhNames(node.Body)); err != nil {
		return nil, false, err
	}
	seen := map[string]string{}
	for src, nm := range nameOf {
		if other, ok := seen[nm]; ok && other != src {
			incoherent = true // two different source fragments share one name
		}
		seen[nm] = src
	}
	return nameOf, incoherent, nil
}

type c11JSUnit struct {
	Plural *string     `json:"plural"`
	Code   []string    `json:"code"`
	Calls  []c11JSCall `json:"calls"`
	tag    string      // bundle/kind/locale
	bundle int
	cat    int
}
type c11JSCall struct {
	F string      `json:"f"`
	D interface{} `json:"d"`
}
type c11JSRes struct {
	LoadErrors []string `json:"load_errors"`
	Calls      []struct {
		Hex string `json:"hex"`
		Err string `json:"err"`
	} `json:"calls"`
}

type c11Outcome struct {
	out string
	err string
}

func (o c11Outcome) same(p c11Outcome) bool { return (o.err == "") == (p.err == "") && o.out == p.out }

type c11Cat struct {
	kind     string
	loc      c11Locale
	po       string
	exp      []srcFile
	goOut    []c11Outcome
	goExp    []c11Outcome // Go, the rewritten program without a catalogue
	model    []c11Outcome // the Coq model with the same catalogue (err = outcome class when not ok)
	ents     string       // the catalogue as model request fields
	jsErr    string       // generation error
	jsUnit   int
	jsExp    int // JS unit of the rewritten program
	jsExpErr string
	keys     string // known-finding key whose trigger holds for this bundle+catalogue
}

type c11Bundle struct {
	files     []srcFile
	entry     string
	data      []data.Map
	dsx       []string
	msgs      []*c11Msg
	base      []c11Outcome // Go, no catalogue
	jsBase    int          // JS unit, no catalogue
	jsBaseErr string
	cats      []*c11Cat
}

func runC11(e *env) {
	e.res.Rule = "hand-written bundles first (one per defect the check has found, PO corner cases, names outside [A-Z0-9_]+), then generated bundles (1-5 templates over 1-3 files, messages in loops, calls, lets, param blocks and switch branches; text with HTML tags and {lb}/{rb} braces, placeholders with equal and distinct expressions, colliding base names, print directives, {plural} with {case 1}{default}; rarely brace-token text, empty messages, nested / non-PO / empty-case plurals, expressions differing in parentheses only) x 2 data sets; POT by the real xgettext-soy; .po files (identity = msgid copied to msgstr, reversed, partial with absent entries, partial with untranslated entries) for ja/en/ru (1/2/3 plural forms; thorough: fr, cs) written and read back through robfig/gettext/po and pomsg.Dir (a quarter of the lookups through a regional locale); rendered by soyhtml with WithMessages and by soyjs.Write(Options.Messages) in node. Oracle: output = output without a catalogue of the program in which every translated {msg} is replaced by plain Soy code for its translation; identity under n != 1 = the unmodified program; the same inside JavaScript; Go = JS wherever they agree on the catalogue-free equivalent. Model: soymsg.Parts (all strings <= 6 over { } A _ a, the msgstrs, random), Validate/Msgid/MsgidPlural per message, rendered bytes per (catalogue, data). Non-trivial = the bundle has a message with a placeholder or a plural; distinct by sources + data + catalogue."
	if e.replay != "" {
		c11RunReplay(e)
		return
	}
	xg, scratch, vdir, repo, ok := c11Setup(e)
	if !ok {
		return
	}
	defer os.RemoveAll(scratch)

	locales := c11Locales[:3]
	if e.scale >= 10 {
		locales = c11Locales
	}
	kinds := []string{"identity", "reversed", "partial", "untranslated"}
	if ks := os.Getenv("C11_KINDS"); ks != "" { // debugging aid
		kinds = strings.Split(ks, ",")
	}
	nBundles := 330 * e.scale
	if e.scale > 1 {
		nBundles = 110 * e.scale // thorough: five locales, 1100 bundles
	}
	opts := progOpts{depth: 2, msgPO: true, jsSafe: true, noLog: true}

	var bundles []*c11Bundle
	var units []*c11JSUnit
	partStrings := map[string]bool{}
	t0 := time.Now()
	corpus := c11Corpus()
	for bi := 0; bi < len(corpus)+nBundles; bi++ {
		var files []srcFile
		var entry string
		var dataSets []data.Map
		var feats map[string]int
		var msgs []*c11Msg
		if bi < len(corpus) {
			// hand-written bundles first: one per defect the check has found, and the PO corner cases
			files, entry, dataSets, msgs, feats = corpus[bi].files, "ns.c.t", corpus[bi].data, corpus[bi].msgs, map[string]int{"msg-corpus": 1}
		} else {
			c11Msgs = nil
			files, entry, dataSets, feats = genBundle(e.rng, opts)
			msgs = c11Msgs
		}
		if len(msgs) == 0 {
			e.res.Histogram["bundle-without-message"]++
			continue
		}
		for f, n := range feats {
			if strings.HasPrefix(f, "msg") || strings.HasPrefix(f, "plural") {
				e.res.Histogram["feat:"+f] += n
			}
		}
		orig := c11Subst(files, func(m *c11Msg) string { return m.source() }, msgs)
		rp := c11Replay{Files: orig, Template: entry, Messages: msgs}
		reg, err := c11Compile(orig)
		if err != nil {
			e.res.Count(fmt.Sprint(orig), false, "compile-error")
			c11Fail(e, hx.Violation{Kind: "oracle", What: "a generated valid bundle is rejected by the compiler", Case: rp, Observed: err.Error()}, "")
			continue
		}
		tofu := soyhtml.NewTofu(reg)
		// bind messages to AST nodes (desc = m<idx>) and placeholder parts to names
		nodes := map[int]*ast.MsgNode{}
		for _, n := range c11MsgNodes(reg) {
			if k, err := strconv.Atoi(c11Digits(strings.TrimPrefix(n.Desc, "m"))); err == nil {
				nodes[k] = n
			}
		}
		nameOf := make([]map[string]string, len(msgs))
		var hasEmpty, hasBad, hasNested, hasLook, hasParens, hasEmptyCase, hasBadName, hasDescNL, incoherent, nontrivial bool
		bad := ""
		for _, m := range msgs {
			n := nodes[m.Idx]
			if n == nil {
				bad = fmt.Sprintf("message m%d has no MsgNode", m.Idx)
				break
			}
			if len(n.Body.Children()) == 0 { // {msg}{/msg}, or a body of {nil}
				if !m.has("empty") {
					m.Tags = append(m.Tags, "empty")
				}
				hasEmpty = true
				continue
			}
			no, inc, err := m.align(n)
			if err != nil {
				bad = fmt.Sprintf("message m%d: %v", m.Idx, err)
				break
			}
			nameOf[m.Idx] = no
			incoherent = incoherent || inc
			hasBad = hasBad || m.has("badplural")
			hasNested = hasNested || m.has("nested")
			hasParens = hasParens || m.has("parens")
			hasDescNL = hasDescNL || m.has("descnl")
			hasLook = hasLook || m.lookalike()
			for _, nm := range no {
				if !c11NameRe.MatchString(nm) {
					hasBadName = true // a name that soymsg.Parts does not read back ({$été}, {$_})
				}
			}
			if m.Plural && !m.has("badplural") && (pomsg.Msgid(n) == "" || pomsg.MsgidPlural(n) == "") {
				hasEmptyCase = true // a PO file cannot carry an empty msgid / msgid_plural
				e.res.Histogram["feat:plural-empty-case"]++
			}
			nontrivial = nontrivial || m.Plural || len(no) > 0
		}
		if bad != "" {
			e.res.Note("harness: %s (bundle skipped)", bad)
			e.res.Histogram["harness-align-failed"]++
			continue
		}
		if incoherent && !hasParens {
			c11Fail(e, hx.Violation{Kind: "oracle", What: "two placeholders with different source expressions share one name", Case: rp}, "")
		}
		// ---- the model: registry, and Validate / Msgid / MsgidPlural of every message ----
		ids := newIDTable()
		mkey := fmt.Sprintf("c11reg%d", bi)
		if r := e.m.Call("load_registry", mkey, registrySexp(reg, ids)); len(r) == 0 || r[0] != "#1" {
			c11Fail(e, hx.Violation{Kind: "mismatch", What: "model cannot load the registry", Case: rp, Observed: fmt.Sprint(r)}, "")
			continue
		}
		for _, m := range msgs {
			n := nodes[m.Idx]
			r := e.m.Call("c11_msg", nodeSexp(n, ids))
			e.res.Count("msg"+n.String(), true, "model:msg")
			if len(r) != 7 {
				c11Fail(e, hx.Violation{Kind: "mismatch", What: "model fails on a message node", Case: rp, Observed: fmt.Sprint(r)}, "")
				continue
			}
			verr := pomsg.Validate(n)
			implV := "ok"
			if verr != nil {
				implV = "err"
			}
			if r[0] != implV {
				what, key := "pomsg.Validate disagrees with the model", ""
				if m.Plural && !m.has("badplural") && implV == "ok" && (pomsg.Msgid(n) == "" || pomsg.MsgidPlural(n) == "") {
					what = "pomsg.Validate accepts a plural with an empty case, which a PO file cannot carry (repair C11-empty-plural-case)"
					key = "empty-plural-case"
				} else if r[1] == implV {
					what = "pomsg.Validate accepts a message whose msgid is not read back as the message (the pinned behaviour; repair 1664d1a)"
					key = "validate-pinned"
				}
				c11Fail(e, hx.Violation{Kind: "mismatch", What: what, Case: c11Replay{Files: orig, Template: entry, Messages: []*c11Msg{m}}, Expected: r[0], Observed: implV + " " + fmt.Sprint(verr)}, key)
			}
			if verr == nil && r[0] == "ok" && len(n.Body.Children()) > 0 {
				if r[2] != "some" || hx.UnH(r[4]) != pomsg.Msgid(n) || hx.UnH(r[5]) != pomsg.MsgidPlural(n) {
					c11Fail(e, hx.Violation{Kind: "mismatch", What: "pomsg.Msgid / MsgidPlural differ from the model", Case: c11Replay{Files: orig, Template: entry, Messages: []*c11Msg{m}},
						Expected: fmt.Sprint(r[2], " ", hx.Q(hx.UnH(r[4])), " ", hx.Q(hx.UnH(r[5]))), Observed: hx.Q(pomsg.Msgid(n)) + " " + hx.Q(pomsg.MsgidPlural(n))}, "")
				}
			}
		}
		// ---- extraction with the real tool ----
		dir := filepath.Join(scratch, fmt.Sprintf("b%d", bi))
		os.MkdirAll(filepath.Join(dir, "src"), 0o755)
		for _, f := range orig {
			os.WriteFile(filepath.Join(dir, "src", f.Name), []byte(f.Text), 0o644)
		}
		var stdout, stderr bytes.Buffer
		xc := exec.Command(xg, filepath.Join(dir, "src"))
		xc.Stdout, xc.Stderr = &stdout, &stderr
		xerr := xc.Run()
		e.res.Count("extract"+fmt.Sprint(orig), nontrivial, "extract")
		if xerr != nil {
			crashed := strings.Contains(stderr.String(), "panic:") || strings.Contains(stderr.String(), "goroutine ")
			switch {
			case crashed:
				key := ""
				if hasEmpty {
					key = "extract-empty-msg"
				}
				e.res.Histogram["extract-crash"]++
				c11Fail(e, hx.Violation{Kind: "oracle", What: "xgettext-soy crashes on a bundle the compiler accepts", Case: rp, Observed: c11Head(stderr.String(), 400)}, key)
			case hasBad || hasLook || hasNested || hasEmptyCase || hasBadName:
				// not representable in a PO file: the extractor may (hasBad: must) refuse
				e.res.Histogram["extract-refused-unrepresentable"]++
			default:
				c11Fail(e, hx.Violation{Kind: "oracle", What: "xgettext-soy refuses a bundle whose messages are representable in a PO file", Case: rp, Observed: c11Head(stderr.String(), 400)}, "")
			}
			os.RemoveAll(dir)
			continue
		}
		if hasBad {
			c11Fail(e, hx.Violation{Kind: "oracle", What: "xgettext-soy extracts a plural that a PO file cannot represent (cases other than [1, default])", Case: rp, Observed: c11Head(stdout.String(), 400)}, "")
			os.RemoveAll(dir)
			continue
		}
		pot, perr := po.Parse(bytes.NewReader(stdout.Bytes()))
		if perr != nil {
			c11Fail(e, hx.Violation{Kind: "oracle", What: "the POT written by xgettext-soy is not read back by the PO library", Case: rp, Observed: perr.Error() + "\n" + c11Head(stdout.String(), 600)}, "")
			os.RemoveAll(dir)
			continue
		}
		// ---- the POT against pomsg.Msgid / MsgidPlural and the compiled ids ----
		type potEntry struct {
			id  uint64
			v   string
			msg po.Message
		}
		var entries []potEntry
		byID := map[uint64]*c11Msg{}
		for _, pm := range pot.Messages {
			pe := potEntry{msg: pm}
			for _, ref := range pm.References {
				if strings.HasPrefix(ref, "id=") {
					pe.id, _ = strconv.ParseUint(ref[3:], 10, 64)
				} else if strings.HasPrefix(ref, "var=") {
					pe.v = ref[4:]
				}
			}
			entries = append(entries, pe)
		}
		// every entry must carry its id= reference: pomsg.newBundle refuses the whole catalogue otherwise
		noID := false
		for _, pe := range entries {
			noID = noID || pe.id == 0
		}
		if noID {
			key := ""
			if hasDescNL {
				key = "desc-newline"
			}
			c11Fail(e, hx.Violation{Kind: "oracle", What: "the POT written by xgettext-soy has an entry without an id= reference: pomsg refuses every catalogue made from it", Case: rp, Observed: c11Head(stdout.String(), 600)}, key)
			os.RemoveAll(dir)
			continue
		}
		want := map[string]int{}
		for _, m := range msgs {
			n := nodes[m.Idx]
			if m.has("empty") {
				continue // an empty message has nothing to translate: either treatment is fine
			}
			if _, ok := byID[n.ID]; !ok {
				byID[n.ID] = m
			}
			v := ""
			if m.Plural {
				v = n.Body.Children()[0].(*ast.MsgPluralNode).VarName
			}
			want[fmt.Sprintf("%d|%s|%s|%s|%s", n.ID, v, n.Meaning, pomsg.Msgid(n), pomsg.MsgidPlural(n))]++
		}
		got := map[string]int{}
		for _, pe := range entries {
			if pe.msg.Id == "" && pe.msg.IdPlural == "" {
				continue
			}
			got[fmt.Sprintf("%d|%s|%s|%s|%s", pe.id, pe.v, pe.msg.Ctxt, pe.msg.Id, pe.msg.IdPlural)]++
		}
		// as sets: an extractor that writes one entry per message id instead of one per use lists the same messages
		if !c11SameKeys(want, got) {
			c11Fail(e, hx.Violation{Kind: "oracle", What: "the extracted POT does not list the bundle's messages (id, var, msgctxt, msgid, msgid_plural)", Case: rp,
				Expected: c11Keys(want), Observed: c11Keys(got)}, map[bool]string{true: "empty-plural-case"}[hasEmptyCase])
		}
		// ---- no catalogue ----
		B := &c11Bundle{files: orig, entry: entry, data: dataSets, msgs: msgs}
		for _, d := range dataSets {
			out, rerr := c11Render(tofu, entry, d, nil)
			B.base = append(B.base, c11Outcome{out, errStr(rerr)})
			B.dsx = append(B.dsx, valueSexp(d, ids))
			if isPanicErr(rerr) {
				c11Fail(e, hx.Violation{Kind: "oracle", What: "panic escaped Render", Case: rp, Observed: errStr(rerr)}, "")
			}
		}
		var calls []c11JSCall
		for _, d := range dataSets {
			calls = append(calls, c11JSCall{F: entry, D: c11JSON(d)})
		}
		if code, err := c11JS(reg, nil); err != nil {
			B.jsBaseErr = err.Error()
			B.jsBase = -1
		} else {
			B.jsBase = len(units)
			units = append(units, &c11JSUnit{Code: code, Calls: calls})
		}
		// ---- catalogues ----
		inPartial := map[uint64]bool{}
		for id := range byID {
			inPartial[id] = e.rng.Bool()
		}
		hasPlural := false
		for _, m := range msgs {
			hasPlural = hasPlural || (m.Plural && !m.has("empty"))
		}
		for _, kind := range kinds {
			kdir := filepath.Join(dir, kind)
			os.MkdirAll(kdir, 0o755)
			var cats []*c11Cat
			locs := locales
			if hasPlural && (kind == "identity" || kind == "reversed") {
				// catalogues whose Plural-Forms header disagrees with the library's rule for their name:
				// all of them for the hand-written bundles, one (in rotation) for a generated bundle
				locs = append([]c11Locale{}, locales...)
				if bi < len(corpus) {
					locs = append(locs, c11Disagree...)
				} else {
					locs = append(locs, c11Disagree[bi%len(c11Disagree)])
				}
			}
			for _, loc := range locs {
				translated := func(m *c11Msg) bool {
					if m.has("empty") {
						return false
					}
					id := nodes[m.Idx].ID
					if byID[id] != m {
						m = byID[id] // the catalogue has one entry per id
					}
					return kind == "identity" || kind == "reversed" || inPartial[id]
				}
				var pf po.File
				var ents []string
				nents := 0
				pf.Header = map[string][]string{"Language": {loc.Name}, "Content-Type": {"text/plain; charset=UTF-8"}}
				if e.rng.Bool() || c11IsDisagree(loc.Name) {
					pf.Header["Plural-Forms"] = []string{loc.Header}
				}
				for _, pe := range entries {
					m := byID[pe.id]
					if m == nil {
						continue // an empty message
					}
					pm := pe.msg
					if translated(m) {
						k := kind
						if k == "untranslated" {
							k = "partial"
						}
						var strs []string
						for j, form := range m.translate(k, loc.N) {
							str := c11Msgstr(form, nameOf[m.Idx])
							if k == "identity" {
								// the identity translation is what a translator gets by copying the
								// extracted msgid / msgid_plural into msgstr
								copied := pe.msg.Id
								if m.Plural && (j > 0 || loc.N == 1) {
									copied = pe.msg.IdPlural
								}
								if copied != str {
									c11Fail(e, hx.Violation{Kind: "oracle", What: "the extracted msgid is not the message's text with its placeholders in braces", Case: rp,
										Expected: hx.Q(str), Observed: hx.Q(copied)}, "")
								}
								str = copied
							}
							strs = append(strs, str)
						}
						pm.Str = strs
					} else if kind == "partial" {
						continue // absent from the catalogue
					} else {
						// present but untranslated: empty msgstr (one per plural form), as msginit / msgmerge leave it
						pm.Str = []string{""}
						if m.Plural {
							pm.Str = make([]string, loc.N)
						}
					}
					pf.Messages = append(pf.Messages, pm)
					ents = append(ents, c11U(pe.id), hx.H(pe.v), hx.I(int64(len(pm.Str))))
					for _, str := range pm.Str {
						ents = append(ents, hx.H(str))
						partStrings[str] = true
					}
					nents++
				}
				var pb bytes.Buffer
				pf.WriteTo(&pb)
				os.WriteFile(filepath.Join(kdir, loc.Name+".po"), pb.Bytes(), 0o644)
				exp := c11Subst(files, func(m *c11Msg) string {
					if !translated(m) {
						return m.source()
					}
					k := kind
					if k == "untranslated" {
						k = "partial"
					}
					// the catalogue has one entry per id: messages with the same msgid share the
					// translation made for the first of them, placeholders matched by name
					rep := byID[nodes[m.Idx].ID]
					forms := rep.translate(k, loc.N)
					if rep != m {
						inv := map[string]string{}
						for src, nm := range nameOf[m.Idx] {
							inv[nm] = src
						}
						for j, form := range forms {
							nf := make([]c11Part, len(form))
							for i, p := range form {
								if p.Ph {
									p.Src = inv[nameOf[rep.Idx][p.Src]]
								}
								nf[i] = p
							}
							forms[j] = nf
						}
					}
					return m.rewrite(forms, loc)
				}, msgs)
				c := &c11Cat{kind: kind, loc: loc, po: pb.String(), exp: exp, jsUnit: -1, jsExp: -1, ents: hx.I(int64(nents)) + " " + strings.Join(ents, " ")}
				switch {
				case hasEmptyCase:
					c.keys = "empty-plural-case"
				case kind == "identity" && hasLook:
					c.keys = "brace-token-text"
				case hasBadName:
					c.keys = "unreadable-name"
				case hasNested:
					c.keys = "nested-plural"
				case hasParens && incoherent:
					c.keys = "same-string-placeholders"
				}
				cats = append(cats, c)
			}
			prov, lerr := pomsg.Dir(kdir)
			if lerr != nil {
				c11Fail(e, hx.Violation{Kind: "oracle", What: "pomsg.Dir does not load the .po files written by the PO library", Case: c11Replay{Files: orig, Template: entry, Kind: kind, PO: cats[0].po}, Observed: lerr.Error()}, "")
				continue
			}
			for _, c := range cats {
				ask := c.loc.Name
				if regional, ok := map[string]string{"ja": "ja_JP", "en": "en_US", "ru": "ru_RU", "fr": "fr_CA", "cs": "cs_CZ"}[c.loc.Name]; ok && e.rng.Chance(25) {
					ask = regional
				}
				bun := prov.Bundle(ask)
				if bun == nil {
					c11Fail(e, hx.Violation{Kind: "oracle", What: "no bundle for locale " + ask + " although " + c.loc.Name + ".po was loaded", Case: c11Replay{Files: orig, Template: entry, Kind: c.kind, Locale: ask, PO: c.po}}, "")
					continue
				}
				ereg, err := c11Compile(c.exp)
				if err != nil {
					e.res.Note("harness: the rewritten program does not compile: %v", err)
					e.res.Histogram["harness-rewrite-failed"]++
					continue
				}
				etofu := soyhtml.NewTofu(ereg)
				for di, d := range dataSets {
					expOut, expErr := c11Render(etofu, entry, d, nil)
					out, rerr := c11Render(tofu, entry, d, bun)
					o, x := c11Outcome{out, errStr(rerr)}, c11Outcome{expOut, errStr(expErr)}
					c.goOut = append(c.goOut, o)
					c.goExp = append(c.goExp, x)
					mo := c11ModelRender(e, mkey, entry, c.loc.Rule, c.ents, B.dsx[di])
					c.model = append(c.model, mo)
					e.res.Count("model"+fmt.Sprint(orig)+B.dsx[di]+c.kind+c.loc.Name, nontrivial, "model:render")
					e.res.Count(fmt.Sprint(orig)+B.dsx[di]+c.kind+c.loc.Name, nontrivial, "go:"+c.kind+":"+c.loc.Name)
					crp := c11Replay{Files: orig, Expected: c.exp, Template: entry, Data: B.dsx[di], Kind: c.kind, Locale: ask, PO: c.po, Backend: "go", Messages: msgs}
					if bi%37 == 0 && di == 0 && c.kind == "reversed" && c.loc.Name == "ru" {
						e.res.Sample(map[string]interface{}{"files": orig, "template": entry, "data": B.dsx[di], "kind": c.kind, "locale": ask, "po": c.po, "output": hx.Q(out), "error": errStr(rerr), "without_catalogue": hx.Q(B.base[di].out)})
					}
					if isPanicErr(rerr) {
						c11Fail(e, hx.Violation{Kind: "oracle", What: "panic escaped Render with a catalogue", Case: crp, Observed: errStr(rerr)}, "")
						continue
					}
					if ok, comparable := c11ModelAgrees(mo, o); !comparable {
						e.res.Histogram["model:"+mo.err]++
					} else if !ok {
						key := ""
						if c.keys == "empty-plural-case" {
							key = c.keys // the PO file drops msgid_plural and the msgstr after the first: outside the model
						} else if c.kind == "untranslated" {
							key = "empty-msgstr" // newBundle as pinned
						}
						c11Fail(e, hx.Violation{Kind: "mismatch", What: "rendering with the " + c.kind + " catalogue differs from the model", Case: crp,
							Expected: hx.Q(mo.out) + " class=" + mo.err, Observed: hx.Q(o.out) + " error=" + hx.Q(o.err)}, key)
					}
					// a failure is attributed to the finding only when the implementation shows the recorded behaviour (the model's)
					attr := func(key string) string {
						if ok, comparable := c11ModelAgrees(mo, o); key == "same-string-placeholders" && !(ok && comparable) {
							return ""
						}
						return key
					}
					if !o.same(x) {
						what := "rendering with the " + c.kind + " catalogue does not put the translated text and the placeholders' values where the translation puts them"
						if c.kind == "untranslated" {
							what = "a message whose catalogue entry is untranslated (empty msgstr) does not fall back to its source text"
						} else if c.kind == "partial" {
							what = "rendering with a partial catalogue: a translated message is misplaced or a missing one does not fall back to its source text"
						}
						key := attr(c.keys)
						if c.kind == "untranslated" && key == "" {
							key = "empty-msgstr"
						}
						c11Fail(e, hx.Violation{Kind: "oracle", What: what, Case: crp, Expected: hx.Q(x.out) + " error=" + hx.Q(x.err), Observed: hx.Q(o.out) + " error=" + hx.Q(o.err)}, key)
					}
					if c.kind == "identity" && c.loc.Rule == 1 && !o.same(B.base[di]) {
						c11Fail(e, hx.Violation{Kind: "oracle", What: "the identity translation does not render byte for byte what rendering without a catalogue does", Case: crp,
							Expected: hx.Q(B.base[di].out) + " error=" + hx.Q(B.base[di].err), Observed: hx.Q(o.out) + " error=" + hx.Q(o.err)}, attr(c.keys))
					}
				}
				// JavaScript with the same catalogue, and the rewritten program without one
				if code, err := c11JS(reg, bun); err != nil {
					c.jsErr = err.Error()
				} else {
					js := c.loc.JS
					c.jsUnit = len(units)
					units = append(units, &c11JSUnit{Plural: &js, Code: code, Calls: calls})
				}
				if code, err := c11JS(ereg, nil); err != nil {
					c.jsExpErr = err.Error()
				} else {
					c.jsExp = len(units)
					units = append(units, &c11JSUnit{Code: code, Calls: calls})
				}
				B.cats = append(B.cats, c)
			}
		}
		bundles = append(bundles, B)
		os.RemoveAll(dir)
	}
	e.res.Note("go side: %d bundles in %.1fs", len(bundles), time.Since(t0).Seconds())
	c11PartsCorrespondence(e, partStrings)
	c11PoCorrespondence(e)

	// ---- node: every unit in its own context, one process per chunk ----
	t1 := time.Now()
	results := make([]*c11JSRes, len(units))
	const chunk = 400
	for lo := 0; lo < len(units); lo += chunk {
		hi := lo + chunk
		if hi > len(units) {
			hi = len(units)
		}
		in := map[string]interface{}{"utils": filepath.Join(repo, "soyjs/lib/soyutils.js"), "units": units[lo:hi]}
		bs, _ := json.Marshal(in)
		inp, outp := filepath.Join(scratch, "js-in.json"), filepath.Join(scratch, "js-out.json")
		os.WriteFile(inp, bs, 0o644)
		os.Remove(outp)
		nc := exec.Command("node", filepath.Join(vdir, "js/c11.js"), inp, outp)
		if out, err := nc.CombinedOutput(); err != nil {
			c11Fail(e, hx.Violation{Kind: "mismatch", What: "node runner failed", Observed: c11Head(string(out), 600) + " " + err.Error()}, "")
			return
		}
		var res struct {
			Units []*c11JSRes `json:"units"`
		}
		ob, _ := os.ReadFile(outp)
		if err := json.Unmarshal(ob, &res); err != nil || len(res.Units) != hi-lo {
			c11Fail(e, hx.Violation{Kind: "mismatch", What: "node runner output unreadable", Observed: fmt.Sprint(err)}, "")
			return
		}
		copy(results[lo:hi], res.Units)
	}
	e.res.Note("node: %d contexts in %.1fs", len(units), time.Since(t1).Seconds())
	jsOutcome := func(u int, di int) c11Outcome {
		r := results[u]
		if len(r.LoadErrors) > 0 {
			return c11Outcome{"", "load: " + strings.Join(r.LoadErrors, "; ")}
		}
		c := r.Calls[di]
		if c.Err != "" {
			return c11Outcome{"", c.Err}
		}
		bs, _ := hex.DecodeString(c.Hex)
		return c11Outcome{string(bs), ""}
	}
	// a JavaScript exception loses the output written so far: compare classes, and bytes only on success
	agree := func(g, j c11Outcome) bool {
		if (g.err == "") != (j.err == "") {
			return false
		}
		return g.err != "" || g.out == j.out
	}
	for _, B := range bundles {
		for di := range B.data {
			var jb c11Outcome
			if B.jsBase < 0 {
				jb = c11Outcome{"", "generation: " + B.jsBaseErr}
			} else {
				jb = jsOutcome(B.jsBase, di)
			}
			if !agree(B.base[di], jb) {
				e.res.Histogram["js-differs-from-go-without-catalogue(C04, not compared)"]++
			}
			for _, c := range B.cats {
				if di >= len(c.goOut) {
					continue
				}
				var j, jx c11Outcome
				if c.jsUnit < 0 {
					j = c11Outcome{"", "generation: " + c.jsErr}
				} else {
					j = jsOutcome(c.jsUnit, di)
				}
				if c.jsExp < 0 {
					jx = c11Outcome{"", "generation: " + c.jsExpErr}
				} else {
					jx = jsOutcome(c.jsExp, di)
				}
				e.res.Count("js"+fmt.Sprint(B.files)+B.dsx[di]+c.kind+c.loc.Name, true, "js:"+c.kind+":"+c.loc.Name)
				crp := c11Replay{Files: B.files, Expected: c.exp, Template: B.entry, Data: B.dsx[di], Kind: c.kind, Locale: c.loc.Name, PO: c.po, Backend: "js", Messages: B.msgs}
				if dj, _ := json.Marshal(c11JSON(B.data[di])); dj != nil {
					crp.DataJSON = string(dj)
				}
				key := c.keys
				if key == "same-string-placeholders" && !(di < len(c.model) && c.model[di].err == "" && j.err == "" && c.model[di].out == j.out) {
					key = "" // not the recorded behaviour of the finding
				}
				if c.kind == "untranslated" && key == "" {
					key = "empty-msgstr"
				}
				// the same oracle inside JavaScript: catalogue == rewritten program
				if !agree(jx, j) {
					c11Fail(e, hx.Violation{Kind: "oracle", What: "JavaScript: the code generated with the " + c.kind + " catalogue does not render what the translation says", Case: crp,
						Expected: hx.Q(jx.out) + " error=" + hx.Q(jx.err), Observed: hx.Q(j.out) + " error=" + hx.Q(j.err)}, key)
				}
				// Go == JS with the catalogue wherever they agree on the equivalent catalogue-free program
				gx := c11Outcome{c.goOut[di].out, c.goOut[di].err}
				if agree(c.goExp[di], jx) && !agree(gx, j) {
					c11Fail(e, hx.Violation{Kind: "oracle", What: "Go and JavaScript agree on the catalogue-free equivalent and disagree with the " + c.kind + " catalogue", Case: crp,
						Expected: "go: " + hx.Q(gx.out) + " error=" + hx.Q(gx.err), Observed: "js: " + hx.Q(j.out) + " error=" + hx.Q(j.err)}, key)
				}
				if c.kind == "identity" && c.loc.Rule == 1 && !agree(jb, j) {
					c11Fail(e, hx.Violation{Kind: "oracle", What: "JavaScript: the identity translation does not render what the code generated without a catalogue renders", Case: crp,
						Expected: hx.Q(jb.out) + " error=" + hx.Q(jb.err), Observed: hx.Q(j.out) + " error=" + hx.Q(j.err)}, key)
				}
			}
		}
	}
}

// c11Digits returns the leading decimal digits of s (the index in a generated description "m<idx><more>")
func c11Digits(s string) string {
	i := 0
	for i < len(s) && s[i] >= '0' && s[i] <= '9' {
		i++
	}
	return s[:i]
}

func c11Head(s string, n int) string {
	if len(s) > n {
		return s[:n] + "..."
	}
	return s
}

func c11SameKeys(a, b map[string]int) bool {
	if len(a) != len(b) {
		return false
	}
	for k := range a {
		if b[k] == 0 {
			return false
		}
	}
	return true
}

func c11Keys(m map[string]int) []string {
	var r []string
	for k, v := range m {
		r = append(r, fmt.Sprintf("%s x%d", k, v))
	}
	sort.Strings(r)
	return r
}

// replay: the case carries sources, the .po text, the locale and the data
func c11RunReplay(e *env) {
	bs, err := os.ReadFile(e.replay)
	if err != nil {
		c11Fail(e, hx.Violation{Kind: "mismatch", What: "cannot read the replay file", Observed: err.Error()}, "")
		return
	}
	var f struct {
		Case c11Replay `json:"case"`
		What string    `json:"what"`
	}
	if err := json.Unmarshal(bs, &f); err != nil {
		c11Fail(e, hx.Violation{Kind: "mismatch", What: "cannot parse the replay file", Observed: err.Error()}, "")
		return
	}
	c := f.Case
	reg, err := c11Compile(c.Files)
	if err != nil {
		c11Fail(e, hx.Violation{Kind: "oracle", What: "replay: the bundle does not compile", Case: c, Observed: err.Error()}, "")
		return
	}
	e.res.Count("replay", true, "replay")
	if xg, scratch, _, _, ok := c11Setup(e); ok {
		// the catalogue of the case exists only if the extractor still accepts the bundle
		_, stderr, xerr := c11Extract(xg, scratch, c.Files)
		os.RemoveAll(scratch)
		if xerr != nil && !strings.Contains(stderr, "panic:") && c.PO != "" {
			e.res.Note("replay: xgettext-soy refuses the bundle (%s): the catalogue of the recorded case can no longer be produced", c11Head(stderr, 200))
			return
		}
	}
	if c.PO == "" || len(c.Expected) == 0 {
		e.res.Note("replay of a case without catalogue: %s", f.What)
		c11Fail(e, hx.Violation{Kind: "oracle", What: "replay: " + f.What, Case: c}, "")
		return
	}
	d := data.Map{}
	if c.Data != "" {
		if v, err := sexpToValue(c.Data, map[int]data.Value{}); err == nil {
			if m, ok := v.(data.Map); ok {
				d = m
			}
		}
	}
	op := c11Opener{c.Locale: c.PO}
	prov, err := pomsg.Load(op, []string{c.Locale})
	if err != nil {
		c11Fail(e, hx.Violation{Kind: "oracle", What: "replay: the catalogue does not load", Case: c, Observed: err.Error()}, "")
		return
	}
	ereg, err := c11Compile(c.Expected)
	if err != nil {
		c11Fail(e, hx.Violation{Kind: "mismatch", What: "replay: the expected program does not compile", Case: c, Observed: err.Error()}, "")
		return
	}
	out, rerr := c11Render(soyhtml.NewTofu(reg), c.Template, d, prov.Bundle(c.Locale))
	exp, xerr := c11Render(soyhtml.NewTofu(ereg), c.Template, d, nil)
	if (rerr == nil) != (xerr == nil) || out != exp {
		c11Fail(e, hx.Violation{Kind: "oracle", What: "replay: " + f.What, Case: c, Expected: hx.Q(exp) + " error=" + hx.Q(errStr(xerr)), Observed: hx.Q(out) + " error=" + hx.Q(errStr(rerr))}, "")
	}
}

type c11Opener map[string]string

type c11RC struct{ *strings.Reader }

func (c11RC) Close() error { return nil }

func (o c11Opener) Open(locale string) (io.ReadCloser, error) {
	s, ok := o[locale]
	if !ok {
		return nil, nil
	}
	return c11RC{strings.NewReader(s)}, nil
}

// c11Fail records a failing case and counts it by kind of failure and by the
// trigger (known-finding key) that holds for it
func c11Fail(e *env, v hx.Violation, key string) {
	w := v.What
	if len(w) > 60 {
		w = w[:60]
	}
	e.res.Histogram["fail["+key+"]: "+w]++
	if key != "" {
		if os.Getenv("C11_ONLY_UNKEYED") != "" { // debugging aid
			return
		}
		v.What += " [trigger: " + key + "]"
	}
	e.res.Fail(v, key)
}

var c11NameRe = regexp.MustCompile(`^[A-Z0-9_]+$`)

func c11U(id uint64) string { return "#" + strconv.FormatUint(id, 10) }

// the model's render with a catalogue: outcome class and bytes
func c11ModelRender(e *env, key, entry string, rule int, ents, dsx string) c11Outcome {
	r := e.m.Call("c11_render", key, sx(entry), "#4000", hx.I(int64(rule)), "#0", ents, ";", dsx)
	if len(r) == 0 || strings.HasPrefix(r[0], "!") {
		return c11Outcome{"", "model-failure " + strings.Join(r, " ")}
	}
	var mo strings.Builder
	for _, f := range r[1:] {
		mo.WriteString(hx.UnH(f))
	}
	cls := strings.Split(r[0], ",")[0]
	if cls == "ok" {
		return c11Outcome{mo.String(), ""}
	}
	return c11Outcome{mo.String(), cls}
}

// model and implementation agree: both render the same bytes, or both fail with the same bytes written so far
func c11ModelAgrees(m, o c11Outcome) (bool, bool) {
	switch m.err {
	case "outofmodel", "fuel":
		return true, false // not comparable
	case "", "err":
		return (m.err == "") == (o.err == "") && m.out == o.out, true
	}
	return false, true
}

// soymsg.Parts against the model: every msgstr written above, every string of
// length <= 6 over { } A _ a, and random strings over a brace-rich alphabet
func c11PartsCorrespondence(e *env, seen map[string]bool) {
	var strs []string
	for s := range seen {
		strs = append(strs, s)
	}
	sort.Strings(strs)
	alpha := []string{"{", "}", "A", "_", "a"}
	var gen func(prefix string, n int)
	gen = func(prefix string, n int) {
		strs = append(strs, prefix)
		if n == 0 {
			return
		}
		for _, a := range alpha {
			gen(prefix+a, n-1)
		}
	}
	gen("", 6)
	wide := []string{"{", "}", "{", "}", "A", "Z", "0", "9", "_", "a", "z", " ", "$", "é", "{X}", "{A_1}", "{}", "\n", "\xff", "[", "@", "/", ":"}
	for i := 0; i < 3000*e.scale; i++ {
		var sb strings.Builder
		for k := e.rng.Intn(14); k > 0; k-- {
			sb.WriteString(wide[e.rng.Intn(len(wide))])
		}
		strs = append(strs, sb.String())
	}
	reqs := make([]string, len(strs))
	for i, s := range strs {
		reqs[i] = "c11_parts " + hx.H(s)
	}
	res := e.m.Batch(reqs)
	for i, s := range strs {
		var want []string
		ps := soymsg.Parts(s)
		want = append(want, hx.I(int64(len(ps))))
		for _, p := range ps {
			switch p := p.(type) {
			case soymsg.RawTextPart:
				want = append(want, "T", hx.H(p.Text))
			case soymsg.PlaceholderPart:
				want = append(want, "P", hx.H(p.Name))
			default:
				want = append(want, "?")
			}
		}
		e.res.Count("parts"+s, strings.Contains(s, "{"), "model:parts")
		if strings.Join(want, " ") != strings.Join(res[i], " ") {
			c11Fail(e, hx.Violation{Kind: "mismatch", What: "soymsg.Parts differs from the model", Case: hx.Q(s), Expected: strings.Join(res[i], " "), Observed: strings.Join(want, " ")}, "")
		}
	}
}

// c11Setup builds the extractor from the tree under check and creates the scratch directory
func c11Setup(e *env) (xg, scratch, vdir, repo string, ok bool) {
	build := os.Getenv("VERIF_BUILD")
	vdir = os.Getenv("VERIF_DIR")
	repo = os.Getenv("VERIF_REPO")
	if repo == "" {
		repo = "/repo"
	}
	if build == "" || vdir == "" {
		c11Fail(e, hx.Violation{Kind: "mismatch", What: "VERIF_BUILD / VERIF_DIR not set (run through bin/check)"}, "")
		return
	}
	xg = filepath.Join(build, "xgettext-soy")
	cmd := exec.Command("go", "build", "-modfile", filepath.Join(build, "go.mod"), "-o", xg, "github.com/robfig/soy/soymsg/pomsg/xgettext-soy")
	cmd.Dir = filepath.Join(vdir, "go")
	if out, err := cmd.CombinedOutput(); err != nil {
		c11Fail(e, hx.Violation{Kind: "mismatch", What: "xgettext-soy does not build", Observed: string(out)}, "")
		return
	}
	base := os.Getenv("VERIF_SCRATCH")
	if base == "" {
		base = "/work/po-scratch"
	}
	scratch = filepath.Join(base, fmt.Sprintf("c11-%d", os.Getpid()))
	if err := os.MkdirAll(scratch, 0o755); err != nil {
		c11Fail(e, hx.Violation{Kind: "mismatch", What: "cannot create scratch directory " + scratch, Observed: err.Error()}, "")
		return
	}
	return xg, scratch, vdir, repo, true
}

// c11Extract runs the extractor on the sources; err != nil: it refused or crashed
func c11Extract(xg, dir string, files []srcFile) (stdout, stderr string, err error) {
	os.MkdirAll(filepath.Join(dir, "src"), 0o755)
	for _, f := range files {
		os.WriteFile(filepath.Join(dir, "src", f.Name), []byte(f.Text), 0o644)
	}
	var so, se bytes.Buffer
	xc := exec.Command(xg, filepath.Join(dir, "src"))
	xc.Stdout, xc.Stderr = &so, &se
	err = xc.Run()
	return so.String(), se.String(), err
}
