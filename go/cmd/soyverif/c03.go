//go:build c03

package main

// C03 — autoescaping.
//  (1) byte level: htmlEscapeString vs the proved model html_escape, exhaustive
//      over short strings of a 14-symbol alphabet, all single bytes, long runs;
//      oracle: no raw special and Go's own html.UnescapeString restores the input.
//  (2) template level: tainted values printed directly, through let/param
//      content, msg placeholders and calls, under every namespace x template
//      autoescape attribute pair and chains of built-in directives; oracle: the
//      taint check; correspondence: the model's print_writes.

import (
	"bytes"
	"fmt"
	"html"
	"strings"

	"github.com/robfig/soy/data"
	"github.com/robfig/soy/soyhtml"
	"soyverif/internal/hx"
)

func init() { props["C03"] = runC03 }

var c03Alphabet = []string{"&", "<", ">", "\"", "'", ";", "#", "a", "3", " ", "\x00", "\x80", "é", "\U0001F600"}

func hasRawSpecial(s string) bool { return strings.ContainsAny(s, "<>\"'") }

// ampsAreRefs: every & starts one of the references for the five specials.
func ampsAreRefs(s string) bool {
	for i := 0; i < len(s); i++ {
		if s[i] != '&' {
			continue
		}
		ok := false
		for _, e := range []string{"&amp;", "&lt;", "&gt;", "&#34;", "&quot;", "&#39;", "&apos;"} {
			if strings.HasPrefix(s[i:], e) {
				ok = true
			}
		}
		if !ok {
			return false
		}
	}
	return true
}

func runC03(e *env) {
	e.res.Rule = "byte level: all strings of length <=3 over a 14-symbol alphabet (specials, ; # letter digit space NUL 0x80 2-byte 4-byte rune), all 256 single bytes, random long runs; template level: value x print site x namespace/template autoescape attributes x directive chain. Non-trivial = contains at least one of the five special characters (byte level) or prints a value containing one (template level); distinct by case text."
	c03Bytes(e)
	c03Templates(e)
	c03ModeSequences(e)
}

func c03Bytes(e *env) {
	var cases []string
	var rec func(prefix string, depth int)
	rec = func(prefix string, depth int) {
		cases = append(cases, prefix)
		if depth == 0 {
			return
		}
		for _, a := range c03Alphabet {
			rec(prefix+a, depth-1)
		}
	}
	rec("", 3)
	for i := 0; i < 256; i++ {
		cases = append(cases, string([]byte{byte(i)}))
	}
	for i := 0; i < 200*e.scale; i++ {
		n := 1 + e.rng.Intn(200)
		var sb strings.Builder
		for j := 0; j < n; j++ {
			if e.rng.Chance(60) {
				sb.WriteString(e.rng.Pick(c03Alphabet))
			} else {
				sb.WriteByte(byte(e.rng.Intn(256)))
			}
		}
		cases = append(cases, sb.String())
	}
	reqs := make([]string, len(cases))
	for i, c := range cases {
		reqs[i] = "esc_writes " + hx.H(c)
	}
	resp := e.m.Batch(reqs)
	for i, c := range cases {
		var w recWriter
		soyhtml.VerifHTMLEscape(&w, c)
		out := w.buf.String()
		e.res.Count("b:"+c, strings.ContainsAny(c, "&<>\"'"), "bytes")
		if i%997 == 0 {
			e.res.Sample(map[string]string{"kind": "htmlEscapeString", "input": hx.Q(c), "output": hx.Q(out)})
		}
		// oracle
		if hasRawSpecial(out) || !ampsAreRefs(out) || html.UnescapeString(out) != c {
			e.res.Fail(hx.Violation{Kind: "oracle", What: "htmlEscapeString output has a raw special character or does not decode to its input",
				Case: map[string]string{"kind": "htmlEscapeString", "input": hx.Q(c)}, Observed: hx.Q(out)}, "")
			continue
		}
		// correspondence: concatenation (the write segmentation is compared under C12)
		var mo strings.Builder
		for _, f := range resp[i] {
			mo.WriteString(hx.UnH(f))
		}
		if strings.HasPrefix(resp[i][0], "!") || mo.String() != out {
			e.res.Fail(hx.Violation{Kind: "mismatch", What: "model html_escape differs from htmlEscapeString",
				Case: map[string]string{"kind": "htmlEscapeString", "input": hx.Q(c)}, Expected: hx.Q(mo.String()), Observed: hx.Q(out)}, "")
		}
	}
}

type recWriter struct {
	buf    bytes.Buffer
	writes []string
}

func (w *recWriter) Write(p []byte) (int, error) {
	w.writes = append(w.writes, string(p))
	return w.buf.Write(p)
}

// ---- template level ----

type c03Dir struct {
	Name string
	Args []string // soy source of each arg
	enc  []string // model encoding of each arg
}

func (d c03Dir) src() string {
	s := "|" + d.Name
	if len(d.Args) > 0 {
		s += ":" + strings.Join(d.Args, ",")
	}
	return s
}

type c03Case struct {
	NsAttr, TmplAttr     string // entry file namespace / template attribute ("" = absent)
	NsAttr2, TmplAttr2   string // callee file
	Site                 string // direct | let | param | msg | call
	Dirs                 []c03Dir
	Value                data.Value
	ValueSrc             string
	files                []srcFile
}

var attrCodes = map[string]int64{"": 0, "true": 1, "false": 2, "contextual": 3, "deprecated-contextual": 3}

func attrSrc(a string) string {
	if a == "" {
		return ""
	}
	return ` autoescape="` + a + `"`
}

func (c *c03Case) build() {
	chain := ""
	for _, d := range c.Dirs {
		chain += d.src()
	}
	var body string
	switch c.Site {
	case "direct", "call":
		body = "[{$x" + chain + "}]"
	case "let":
		body = "{let $y}{$x" + chain + "}{/let}[{$y}]"
	case "msg":
		body = "{msg desc=\"d\"}[{$x" + chain + "}]{/msg}"
	case "param":
		body = "{call .inner}{param y}{$x" + chain + "}{/param}{/call}"
	}
	f1 := "{namespace a.b" + attrSrc(c.NsAttr) + "}\n"
	if c.Site == "call" {
		f1 += "/** @param x */\n{template .main" + attrSrc(c.TmplAttr) + "}\n{call c.d.callee data=\"all\"/}\n{/template}\n"
		f2 := "{namespace c.d" + attrSrc(c.NsAttr2) + "}\n/** @param x */\n{template .callee" + attrSrc(c.TmplAttr2) + "}\n" + body + "\n{/template}\n"
		c.files = []srcFile{{"a.soy", f1}, {"c.soy", f2}}
		return
	}
	f1 += "/** @param x */\n{template .main" + attrSrc(c.TmplAttr) + "}\n" + body + "\n{/template}\n"
	if c.Site == "param" {
		f1 += "/** @param y */\n{template .inner" + attrSrc(c.TmplAttr2) + "}\n[{$y}]\n{/template}\n"
	}
	c.files = []srcFile{{"a.soy", f1}}
}

var c03Attrs = []string{"", "true", "false", "contextual"}

func c03Value(r *hx.Rand) (data.Value, string) {
	str := func() string {
		n := 1 + r.Intn(8)
		var sb strings.Builder
		for j := 0; j < n; j++ {
			switch {
			case r.Chance(55):
				sb.WriteString(r.Pick(c03Alphabet[:5]))
			case r.Chance(10):
				sb.WriteString(r.Pick([]string{"\n", "\r\n", "\r", " ", "&amp;", "<b>", "&#", "é", "😀"}))
			default:
				sb.WriteString(r.Pick(c03Alphabet))
			}
		}
		return sb.String()
	}
	switch r.Intn(12) {
	case 0:
		return data.Int(r.Intn(2000) - 1000), "int"
	case 1:
		return data.Float(float64(r.Intn(64)-32) / 8), "float"
	case 2:
		return data.Bool(r.Bool()), "bool"
	case 3:
		return data.Null{}, "null"
	case 4:
		return data.List{data.String(str()), data.Int(1), data.String(str())}, "list"
	case 5:
		return data.Map{str(): data.String(str()), "k": data.List{data.String(str())}}, "map"
	default:
		return data.String(str()), "string"
	}
}

func c03Chain(r *hx.Rand) []c03Dir {
	n := 0
	switch {
	case r.Chance(35):
		n = 0
	case r.Chance(60):
		n = 1
	case r.Chance(70):
		n = 2
	default:
		n = 3
	}
	var ds []c03Dir
	for i := 0; i < n; i++ {
		switch r.Intn(10) {
		case 0, 1, 2:
			k := []int{0, 1, 2, 3, 4, 5, 6, 7, 9, 11, 20, 100}[r.Intn(12)]
			if r.Chance(40) {
				el := r.Bool()
				ds = append(ds, c03Dir{"truncate", []string{fmt.Sprint(k), fmt.Sprint(el)}, []string{hx.I(int64(k)), map[bool]string{true: "T", false: "F"}[el]}})
			} else {
				ds = append(ds, c03Dir{"truncate", []string{fmt.Sprint(k)}, []string{hx.I(int64(k))}})
			}
		case 3:
			ds = append(ds, c03Dir{Name: "escapeHtml"})
		case 4:
			ds = append(ds, c03Dir{Name: "changeNewlineToBr"})
		case 5:
			k := []int{1, 2, 3, 4, 5, 6, 8, 12, 30, 1000}[r.Intn(10)]
			ds = append(ds, c03Dir{"insertWordBreaks", []string{fmt.Sprint(k)}, []string{hx.I(int64(k))}})
		case 6:
			ds = append(ds, c03Dir{Name: r.Pick([]string{"noAutoescape", "id"})})
		case 7:
			ds = append(ds, c03Dir{Name: "escapeUri"})
		case 8:
			ds = append(ds, c03Dir{Name: r.Pick([]string{"escapeJsString", "json"})})
		case 9:
			ds = append(ds, c03Dir{Name: r.Pick([]string{"bidiSpanWrap", "truncate"}), Args: nil})
		}
	}
	return ds
}

// c03AllDirs lists every built-in directive with typical arguments.
func c03AllDirs() []c03Dir {
	var ds []c03Dir
	for _, k := range []int{0, 2, 4, 5, 100} {
		ds = append(ds, c03Dir{"truncate", []string{fmt.Sprint(k)}, []string{hx.I(int64(k))}})
	}
	ds = append(ds, c03Dir{"truncate", []string{"4", "false"}, []string{"#4", "F"}})
	for _, k := range []int{1, 3, 5, 30} {
		ds = append(ds, c03Dir{"insertWordBreaks", []string{fmt.Sprint(k)}, []string{hx.I(int64(k))}})
	}
	for _, n := range []string{"escapeHtml", "changeNewlineToBr", "noAutoescape", "id", "escapeUri", "escapeJsString", "json", "bidiSpanWrap", "bidiUnicodeWrap"} {
		ds = append(ds, c03Dir{Name: n})
	}
	return ds
}

func truncAfterMaker(ds []c03Dir, f dirFlags) bool {
	seen := false
	for _, d := range ds {
		if f.htmlMaker[d.Name] {
			seen = true
		} else if d.Name == "truncate" && seen {
			return true
		}
	}
	return false
}

type dirFlags struct {
	cancel      map[string]bool
	htmlMaker   map[string]bool // cancels because it adds markup itself
	rawAllowed  map[string]bool // noAutoescape/id or another documented encoding
}

func c03Templates(e *env) {
	flags := dirFlags{
		htmlMaker:  map[string]bool{"escapeHtml": true, "changeNewlineToBr": true, "insertWordBreaks": true},
		rawAllowed: map[string]bool{"noAutoescape": true, "id": true, "escapeUri": true, "escapeJsString": true, "json": true},
	}
	n := 700 * e.scale
	sites := []string{"direct", "direct", "direct", "let", "param", "msg", "call", "call"}
	type pending struct {
		c     *c03Case
		out   string
		err   error
		str   string // String() image of the value
		mode  int64
		reqIx int
	}
	var ps []pending
	var reqs []string
	idx := 0
	// systematic part: every single directive and every ordered pair of
	// directives (typical arguments) on a fixed set of tainted strings, default mode
	var sys []*c03Case
	single := c03AllDirs()
	taints := []string{"<a>", "a&b", "\"q\"", "it's", "<", "a<b>c d&e 'f' \"g\"", "x\ny\r\nz<", "&lt;", "é<😀>", "\x00<", "plain"}
	for _, d := range single {
		for _, t := range taints {
			sys = append(sys, &c03Case{Site: "direct", Dirs: []c03Dir{d}, Value: data.String(t), ValueSrc: "string"})
		}
	}
	for _, d1 := range single {
		for _, d2 := range single {
			for _, t := range taints[:6] {
				if e.scale == 1 && e.rng.Chance(50) {
					continue
				}
				sys = append(sys, &c03Case{Site: "direct", Dirs: []c03Dir{d1, d2}, Value: data.String(t), ValueSrc: "string"})
			}
		}
	}
	for i := 0; i < n+len(sys); i++ {
		c := &c03Case{}
		if i < len(sys) {
			c = sys[i]
		} else {
			// enumerate attribute pairs systematically, the rest randomly
			c.NsAttr = c03Attrs[idx%4]
			c.TmplAttr = c03Attrs[(idx/4)%4]
			c.NsAttr2 = c03Attrs[(idx/16)%4]
			c.TmplAttr2 = c03Attrs[(idx/64)%4]
			idx++
			c.Site = sites[e.rng.Intn(len(sites))]
			c.Dirs = c03Chain(e.rng)
			c.Value, c.ValueSrc = c03Value(e.rng)
		}
		c.build()
		tofu, err := compile(c.files)
		if err != nil {
			e.res.Fail(hx.Violation{Kind: "oracle", What: "generated C03 bundle does not compile", Case: c.files, Observed: errStr(err)}, "")
			continue
		}
		out, rerr := render(tofu, "a.b.main", data.Map{"x": c.Value}, nil)
		str := c.Value.String()
		tainted := strings.ContainsAny(str, "&<>\"'")
		key := fmt.Sprintf("%s|%s|%s|%s|%s|%v|%q", c.NsAttr, c.TmplAttr, c.NsAttr2, c.TmplAttr2, c.Site, c.Dirs, str)
		e.res.Count("t:"+key, tainted, "tmpl:"+c.Site)
		if i%131 == 0 {
			e.res.Sample(map[string]interface{}{"kind": "template", "files": c.files, "x": hx.Q(str), "output": hx.Q(out), "error": errStr(rerr)})
		}
		// effective mode of the template containing the print
		var mode int64
		switch c.Site {
		case "call":
			mode = modeOf(attrCodes[c.NsAttr2], attrCodes[c.TmplAttr2], true)
		default:
			mode = modeOf(attrCodes[c.NsAttr], attrCodes[c.TmplAttr], false)
		}
		p := pending{c: c, out: out, err: rerr, str: str, mode: mode, reqIx: -1}
		// model request for the print itself
		req := []string{"print", hx.I(mode), hx.H(str)}
		modelled := true
		for _, d := range c.Dirs {
			if d.Name == "json" || d.Name == "escapeJsString" {
				modelled = false
			}
			req = append(req, "D"+strings.TrimPrefix(hx.H(d.Name), ""))
			req = append(req, d.enc...)
		}
		if modelled {
			p.reqIx = len(reqs)
			reqs = append(reqs, strings.Join(req, " "))
		}
		ps = append(ps, p)
	}
	resp := e.m.Batch(reqs)
	for _, p := range ps {
		c := p.c
		caseJSON := map[string]interface{}{"kind": "template", "files": c.files, "template": "a.b.main", "x": hx.Q(p.str), "x_kind": c.ValueSrc}
		if isPanicErr(p.err) {
			e.res.Fail(hx.Violation{Kind: "oracle", What: "panic escaped Render", Case: caseJSON, Observed: errStr(p.err)}, "")
			continue
		}
		// ---- oracle: taint check ----
		rawOK := p.mode == 2
		anyCancel := false
		onlyHTMLMakers := true
		for _, d := range c.Dirs {
			if flags.rawAllowed[d.Name] {
				rawOK = true
			}
			if flags.htmlMaker[d.Name] {
				anyCancel = true
			} else if d.Name != "truncate" && d.Name != "bidiSpanWrap" {
				onlyHTMLMakers = false
			}
		}
		_ = onlyHTMLMakers
		if p.err == nil && !rawOK {
			body := p.out
			body = strings.ReplaceAll(body, "<wbr>", "")
			body = strings.ReplaceAll(body, "<br>", "")
			if truncAfterMaker(c.Dirs, flags) {
				// a later truncate may cut the directive's own markup: drop a
				// trailing proper prefix of <wbr>/<br> (before the ellipsis and the "]")
				t := strings.TrimSuffix(body, "]")
				t = strings.TrimSuffix(t, "...")
				for _, pre := range []string{"<wbr", "<wb", "<w", "<br", "<b", "<"} {
					if strings.HasSuffix(t, pre) {
						t = strings.TrimSuffix(t, pre)
						break
					}
				}
				body = t
			}
			if hasRawSpecial(body) {
				e.res.Fail(hx.Violation{Kind: "oracle", What: "a special character of the data reached the output raw although nothing cancels escaping",
					Case: caseJSON, Observed: hx.Q(p.out)}, "")
				continue
			}
			if !anyCancel && len(c.Dirs) == 0 && (c.Site == "direct" || c.Site == "call" || c.Site == "msg") {
				// decodes back to exactly the value
				inner := strings.TrimSuffix(strings.TrimPrefix(p.out, "["), "]")
				if html.UnescapeString(inner) != p.str || !ampsAreRefs(inner) {
					e.res.Fail(hx.Violation{Kind: "oracle", What: "escaped print does not decode back to the value",
						Case: caseJSON, Expected: hx.Q(p.str), Observed: hx.Q(p.out)}, "")
					continue
				}
			}
		}
		// ---- correspondence with the model's evalPrint ----
		if p.reqIx >= 0 {
			r := resp[p.reqIx]
			switch {
			case r[0] == "crash" || strings.HasPrefix(r[0], "!"):
				// not modelled
			case r[0] == "err":
				if p.err == nil {
					e.res.Fail(hx.Violation{Kind: "mismatch", What: "model evalPrint reports an error, implementation rendered", Case: caseJSON,
						Expected: "error " + hx.UnH(r[1]), Observed: hx.Q(p.out)}, "")
				}
			case r[0] == "ok":
				var mo strings.Builder
				for _, f := range r[1:] {
					mo.WriteString(hx.UnH(f))
				}
				exp, ok := c03Expected(c, mo.String(), p.mode)
				if p.err != nil {
					e.res.Fail(hx.Violation{Kind: "mismatch", What: "implementation reports an error, model evalPrint renders", Case: caseJSON,
						Expected: hx.Q(exp), Observed: errStr(p.err)}, "")
				} else if ok && exp != p.out {
					e.res.Fail(hx.Violation{Kind: "mismatch", What: "output differs from model evalPrint", Case: caseJSON,
						Expected: hx.Q(exp), Observed: hx.Q(p.out)}, "")
				}
			}
		}
	}
}

// modeOf mirrors Execute / evalCall / walk(TemplateNode) through the model's
// definitions (entry_mode, call_mode, template_mode); kept in Go only to choose
// the request, the model re-derives it.
func modeOf(ns, tm int64, callee bool) int64 {
	cur := ns
	if !callee && ns == 0 {
		cur = 1
	}
	if tm != 0 {
		cur = tm
	}
	return cur
}

// c03Expected wraps the model's print output in the site's surrounding text.
// For let/param the printed text is captured and printed again through the
// enclosing print, whose escaping the harness reproduces with the model-proved
// html escape only in the direct sites; other sites are compared on the oracle only.
func c03Expected(c *c03Case, printed string, mode int64) (string, bool) {
	switch c.Site {
	case "direct", "call", "msg":
		return "[" + printed + "]", true
	}
	return "", false
}
