package main

// Serialisation of robfig/soy ASTs, values and registries into the
// S-expression syntax read by ocaml/sexp_ast.ml (untagged: always compiled).

import (
	"encoding/hex"
	"fmt"
	"math"
	"reflect"
	"sort"
	"strconv"
	"strings"

	"github.com/robfig/soy/ast"
	"github.com/robfig/soy/data"
	"github.com/robfig/soy/template"
)

func sx(s string) string { return "x" + hex.EncodeToString([]byte(s)) }
func b01(b bool) string {
	if b {
		return "1"
	}
	return "0"
}

func flSexp(f float64) string {
	switch {
	case math.IsNaN(f):
		return "nan"
	case math.IsInf(f, 1):
		return "inf+"
	case math.IsInf(f, -1):
		return "inf-"
	case f == 0:
		if math.Signbit(f) {
			return "z-"
		}
		return "z+"
	}
	frac, exp := math.Frexp(f)
	m := int64(frac * (1 << 53))
	e := exp - 53
	for m%2 == 0 {
		m /= 2
		e++
	}
	return fmt.Sprintf("(f %d %d)", m, e)
}

// idTable assigns identities to lists and maps by their data pointer:
// nil list 0, empty non-nil list 1, everything else a fresh number >= 2.
type idTable struct {
	ids  map[uintptr]int
	next int
}

func newIDTable() *idTable { return &idTable{ids: map[uintptr]int{}, next: 2} }
func (t *idTable) of(p uintptr) int {
	if id, ok := t.ids[p]; ok {
		return id
	}
	t.ids[p] = t.next
	t.next++
	return t.ids[p]
}

func valueSexp(v data.Value, t *idTable) string {
	switch v := v.(type) {
	case data.Undefined:
		return "undef"
	case data.Null:
		return "vnull"
	case nil:
		return "vnull"
	case data.Bool:
		return "(vb " + b01(bool(v)) + ")"
	case data.Int:
		return "(vi " + strconv.FormatInt(int64(v), 10) + ")"
	case data.Float:
		return "(vf " + flSexp(float64(v)) + ")"
	case data.String:
		return "(vs " + sx(string(v)) + ")"
	case data.List:
		id := 0
		if v == nil {
			id = 0
		} else if len(v) == 0 {
			id = 1
		} else {
			id = t.of(reflect.ValueOf(v).Pointer())
		}
		parts := []string{"vl", strconv.Itoa(id)}
		for _, x := range v {
			parts = append(parts, valueSexp(x, t))
		}
		return "(" + strings.Join(parts, " ") + ")"
	case data.Map:
		id := 0
		if v != nil {
			id = t.of(reflect.ValueOf(v).Pointer())
		}
		keys := make([]string, 0, len(v))
		for k := range v {
			keys = append(keys, k)
		}
		sort.Strings(keys)
		parts := []string{"vm", strconv.Itoa(id)}
		for _, k := range keys {
			parts = append(parts, "("+sx(k)+" "+valueSexp(v[k], t)+")")
		}
		return "(" + strings.Join(parts, " ") + ")"
	}
	return "undef"
}

func optNode(n ast.Node, t *idTable) string {
	if n == nil || (reflect.ValueOf(n).Kind() == reflect.Ptr && reflect.ValueOf(n).IsNil()) {
		return "none"
	}
	return "(some " + nodeSexp(n, t) + ")"
}

func nodesSexp(ns []ast.Node, t *idTable) string {
	var parts []string
	for _, n := range ns {
		parts = append(parts, nodeSexp(n, t))
	}
	return strings.Join(parts, " ")
}

func sp(parts ...string) string {
	var nz []string
	for _, p := range parts {
		if p != "" {
			nz = append(nz, p)
		}
	}
	return "(" + strings.Join(nz, " ") + ")"
}

func binName(n ast.Node) (string, *ast.BinaryOpNode) {
	switch n := n.(type) {
	case *ast.MulNode:
		return "mul", &n.BinaryOpNode
	case *ast.DivNode:
		return "div", &n.BinaryOpNode
	case *ast.ModNode:
		return "mod", &n.BinaryOpNode
	case *ast.AddNode:
		return "add", &n.BinaryOpNode
	case *ast.SubNode:
		return "sub", &n.BinaryOpNode
	case *ast.EqNode:
		return "eq", &n.BinaryOpNode
	case *ast.NotEqNode:
		return "neq", &n.BinaryOpNode
	case *ast.GtNode:
		return "gt", &n.BinaryOpNode
	case *ast.GteNode:
		return "gte", &n.BinaryOpNode
	case *ast.LtNode:
		return "lt", &n.BinaryOpNode
	case *ast.LteNode:
		return "lte", &n.BinaryOpNode
	case *ast.OrNode:
		return "or", &n.BinaryOpNode
	case *ast.AndNode:
		return "and", &n.BinaryOpNode
	case *ast.ElvisNode:
		return "elvis", &n.BinaryOpNode
	}
	return "", nil
}

func nodeSexp(n ast.Node, t *idTable) string {
	p := func(x ast.Node) string { return strconv.Itoa(int(x.Position())) }
	if name, bn := binName(n); bn != nil {
		return sp("bin", name, p(n), nodeSexp(bn.Arg1, t), nodeSexp(bn.Arg2, t))
	}
	switch n := n.(type) {
	case *ast.NullNode:
		return sp("null", p(n))
	case *ast.BoolNode:
		return sp("bool", p(n), b01(n.True))
	case *ast.IntNode:
		return sp("int", p(n), strconv.FormatInt(n.Value, 10))
	case *ast.FloatNode:
		return sp("float", p(n), flSexp(n.Value))
	case *ast.StringNode:
		return sp("str", p(n), sx(n.Quoted), sx(n.Value))
	case *ast.GlobalNode:
		return sp("global", p(n), sx(n.Name), valueSexp(n.Value, t))
	case *ast.FunctionNode:
		return sp("func", p(n), sx(n.Name), nodesSexp(n.Args, t))
	case *ast.ListLiteralNode:
		return sp("listlit", p(n), nodesSexp(n.Items, t))
	case *ast.MapLiteralNode:
		keys := make([]string, 0, len(n.Items))
		for k := range n.Items {
			keys = append(keys, k)
		}
		sort.Strings(keys)
		parts := []string{"maplit", p(n)}
		for _, k := range keys {
			parts = append(parts, "("+sx(k)+" "+nodeSexp(n.Items[k], t)+")")
		}
		return sp(parts...)
	case *ast.DataRefNode:
		return sp("ref", p(n), sx(n.Key), nodesSexp(n.Access, t))
	case *ast.DataRefIndexNode:
		return sp("idx", p(n), b01(n.NullSafe), strconv.Itoa(n.Index))
	case *ast.DataRefKeyNode:
		return sp("key", p(n), b01(n.NullSafe), sx(n.Key))
	case *ast.DataRefExprNode:
		return sp("exp", p(n), b01(n.NullSafe), nodeSexp(n.Arg, t))
	case *ast.NotNode:
		return sp("not", p(n), nodeSexp(n.Arg, t))
	case *ast.NegateNode:
		return sp("neg", p(n), nodeSexp(n.Arg, t))
	case *ast.TernNode:
		return sp("tern", p(n), nodeSexp(n.Arg1, t), nodeSexp(n.Arg2, t), nodeSexp(n.Arg3, t))
	case *ast.ListNode:
		return sp("list", p(n), nodesSexp(n.Nodes, t))
	case *ast.RawTextNode:
		return sp("raw", p(n), sx(string(n.Text)))
	case *ast.PrintNode:
		var ds []string
		for _, d := range n.Directives {
			ds = append(ds, nodeSexp(d, t))
		}
		return sp("print", p(n), nodeSexp(n.Arg, t), strings.Join(ds, " "))
	case *ast.PrintDirectiveNode:
		return sp("dir", p(n), sx(n.Name), nodesSexp(n.Args, t))
	case *ast.CssNode:
		return sp("css", p(n), optNode(n.Expr, t), sx(n.Suffix))
	case *ast.LogNode:
		return sp("log", p(n), nodeSexp(n.Body, t))
	case *ast.DebuggerNode:
		return sp("debugger", p(n))
	case *ast.IfNode:
		var cs []string
		for _, c := range n.Conds {
			cs = append(cs, nodeSexp(c, t))
		}
		return sp("if", p(n), strings.Join(cs, " "))
	case *ast.IfCondNode:
		return sp("ifcond", p(n), optNode(n.Cond, t), nodeSexp(n.Body, t))
	case *ast.ForNode:
		return sp("for", p(n), sx(n.Var), nodeSexp(n.List, t), nodeSexp(n.Body, t), optNode(n.IfEmpty, t))
	case *ast.SwitchNode:
		var cs []string
		for _, c := range n.Cases {
			cs = append(cs, nodeSexp(c, t))
		}
		return sp("switch", p(n), nodeSexp(n.Value, t), strings.Join(cs, " "))
	case *ast.SwitchCaseNode:
		return sp("case", p(n), "("+nodesSexp(n.Values, t)+")", nodeSexp(n.Body, t))
	case *ast.CallNode:
		return sp("call", p(n), sx(n.Name), b01(n.AllData), optNode(n.Data, t), nodesSexp(n.Params, t))
	case *ast.CallParamValueNode:
		return sp("pval", p(n), sx(n.Key), nodeSexp(n.Value, t))
	case *ast.CallParamContentNode:
		return sp("pcontent", p(n), sx(n.Key), nodeSexp(n.Content, t))
	case *ast.LetValueNode:
		return sp("letv", p(n), sx(n.Name), nodeSexp(n.Expr, t))
	case *ast.LetContentNode:
		return sp("letc", p(n), sx(n.Name), nodeSexp(n.Body, t))
	case *ast.MsgNode:
		return sp("msg", p(n), strconv.FormatUint(n.ID, 10), sx(n.Meaning), sx(n.Desc), "("+nodesSexp(n.Body.Children(), t)+")")
	case *ast.MsgPlaceholderNode:
		return sp("ph", p(n), sx(n.Name), nodeSexp(n.Body, t))
	case *ast.MsgHtmlTagNode:
		return sp("tag", p(n), sx(string(n.Text)))
	case *ast.MsgPluralNode:
		var cs []string
		for _, c := range n.Cases {
			cs = append(cs, nodeSexp(c, t))
		}
		return sp("plural", p(n), sx(n.VarName), nodeSexp(n.Value, t), "("+strings.Join(cs, " ")+")", "("+nodesSexp(n.Default.Children(), t)+")")
	case *ast.MsgPluralCaseNode:
		return sp("pcase", p(n), strconv.Itoa(n.Value), "("+nodesSexp(n.Body.Children(), t)+")")
	case *ast.TemplateNode:
		return sp("template", p(n), sx(n.Name), nodeSexp(n.Body, t), strconv.Itoa(int(n.Autoescape)), b01(n.Private))
	case *ast.NamespaceNode:
		return sp("namespace", p(n), sx(n.Name), strconv.Itoa(int(n.Autoescape)))
	case *ast.SoyDocNode:
		var ps []string
		for _, x := range n.Params {
			ps = append(ps, nodeSexp(x, t))
		}
		return sp("soydoc", p(n), strings.Join(ps, " "))
	case *ast.SoyDocParamNode:
		return sp("sdparam", p(n), sx(n.Name), b01(n.Optional))
	case *ast.HeaderParamNode:
		return sp("hparam", p(n), b01(n.Optional), sx(n.Name), sx(n.Type.Expr), optNode(n.Default, t))
	case *ast.LiteralNode:
		return sp("literal", p(n), sx(n.Body))
	case *ast.IdentNode:
		return sp("ident", p(n), sx(n.Ident))
	}
	return sp("other", "0", sx(fmt.Sprintf("%T", n)))
}

// registrySexp dumps a compiled registry (templates in lookup order; sources
// and file names as the registry's own maps hold them: the last Add wins).
func registrySexp(reg *template.Registry, t *idTable) string {
	var ts []string
	for _, tm := range reg.Templates {
		var ps []string
		if tm.Doc != nil {
			for _, prm := range tm.Doc.Params {
				ps = append(ps, "("+sx(prm.Name)+" "+b01(prm.Optional)+")")
			}
		}
		file := reg.Filename(tm.Node.Name)
		ts = append(ts, sp("t", sx(tm.Node.Name), nodeSexp(tm.Node, t), sx(tm.Namespace.Name), strconv.Itoa(int(tm.Namespace.Autoescape)), "("+strings.Join(ps, " ")+")", sx(file)))
	}
	src := map[string]string{}
	files := map[string]string{}
	var order []string
	for _, sf := range reg.SoyFiles {
		for _, n := range sf.Body {
			if tn, ok := n.(*ast.TemplateNode); ok {
				if _, seen := src[tn.Name]; !seen {
					order = append(order, tn.Name)
				}
				src[tn.Name] = sf.Text
				files[tn.Name] = sf.Name
			}
		}
	}
	var ss, fs []string
	for _, name := range order {
		ss = append(ss, "("+sx(name)+" "+sx(src[name])+")")
		fs = append(fs, "("+sx(name)+" "+sx(files[name])+")")
	}
	return "(registry (templates " + strings.Join(ts, " ") + ") (sources " + strings.Join(ss, " ") + ") (files " + strings.Join(fs, " ") + "))"
}
