//go:build c14

package main

import (
	"encoding/hex"
	"encoding/json"
	"fmt"
	"os"
	"strings"
	"time"

	"github.com/robfig/soy/ast"
	"github.com/robfig/soy/soyhtml"
	"github.com/robfig/soy/soyjs"
	"github.com/robfig/soy/soymsg"
	"soyverif/internal/hx"
)

type c14Unit struct {
	b         *c14Bundle
	es6       bool
	msgs      bool
	node      jsNodeUnit
	echo      []c14Echo // parallel to node.Calls
	intMember bool      // trigger of js-int-literal-member holds on some file
}

func (u *c14Unit) cfg() string {
	s := "ES5"
	if u.es6 {
		s = "ES6"
	}
	if u.msgs {
		s += "+messages"
	}
	return s
}

func c14CaseOf(b *c14Bundle, cfg string, extra map[string]interface{}) map[string]interface{} {
	c := map[string]interface{}{"stream": b.Stream, "files": b.Files, "config": cfg}
	if len(b.Globals) > 0 {
		c["globals"] = b.Globals
	}
	if b.Translate != 0 {
		c["translate"] = b.Translate
	}
	if len(b.Trans) > 0 {
		c["trans"] = b.Trans
	}
	for k, v := range extra {
		c[k] = v
	}
	return c
}

func c14Trunc(s string) string {
	if len(s) > 1500 {
		return s[:700] + " ...[" + fmt.Sprint(len(s)) + " bytes]... " + s[len(s)-300:]
	}
	return s
}

func firstDiff(a, b string) int {
	n := len(a)
	if len(b) < n {
		n = len(b)
	}
	for i := 0; i < n; i++ {
		if a[i] != b[i] {
			return i
		}
	}
	return n
}

func around(s string, i int) string {
	lo, hi := i-60, i+60
	if lo < 0 {
		lo = 0
	}
	if hi > len(s) {
		hi = len(s)
	}
	return hx.Q(s[lo:hi])
}

var c14unitSeq int

// c14Prepare compiles the bundle, generates every file under every
// configuration with the real code and with the model, compares them, and
// returns the units to hand to node.
var c14T = map[string]time.Duration{}

func c14Prepare(e *env, b *c14Bundle) []*c14Unit {
	key := fmt.Sprint(b.Files, b.Globals, b.Translate, b.Trans)
	reg, err := jsCompile(b)
	if err != nil {
		e.res.Count(key, false, "rejected:"+strings.SplitN(b.Stream, ":", 2)[0])
		if strings.HasPrefix(b.Stream, "corpus") {
			e.res.Histogram["rejected:"+b.Stream+":"+firstLine(err.Error())]++
		}
		if strings.HasPrefix(err.Error(), "PANIC") {
			e.res.Fail(hx.Violation{Kind: "mismatch", What: "the compiler panics on a generated bundle (not a C14 matter, reported for completeness)", Case: c14CaseOf(b, "", nil), Observed: err.Error()}, "")
		}
		return nil
	}
	for f := range b.Feats {
		e.res.Histogram["feat:"+f]++
	}
	tr := jsTranslations(b, reg)
	type cfg struct{ es6, msgs bool }
	cfgs := []cfg{{false, false}, {true, false}}
	if tr != nil {
		cfgs = append(cfgs, cfg{false, true}, cfg{true, true})
	}
	tofu := soyhtml.NewTofu(reg)
	var units []*c14Unit
	for _, c := range cfgs {
		var mb soymsg.Bundle
		var trc map[uint64][]c14Part
		if c.msgs {
			trc = tr
			mb = soyMsgBundle(tr)
		}
		u := &c14Unit{b: b, es6: c.es6, msgs: c.msgs}
		u.node.Mode = "es5"
		if c.es6 {
			u.node.Mode = "es6"
		}
		genErr := false
		for _, sf := range reg.SoyFiles {
			real, rerr := jsWrite(sf, c.es6, mb)
			t0 := time.Now()
			cls, mtext, raw := jsModel(e, sf, c.es6, trc)
			c14T["model-gen"] += time.Since(t0)
			e.res.Count(key+u.cfg()+sf.Name, true, "generated:"+strings.SplitN(b.Stream, ":", 2)[0])
			cs := c14CaseOf(b, u.cfg(), map[string]interface{}{"file": sf.Name})
			switch {
			case rerr != nil && strings.HasPrefix(rerr.Error(), "PANIC"):
				e.res.Fail(hx.Violation{Kind: "oracle", What: "a panic escapes soyjs.Write", Case: cs, Observed: rerr.Error()}, "")
				genErr = true
			case rerr != nil:
				genErr = true
				e.res.Histogram["write-error:"+firstLine(rerr.Error())]++
				// the compiler accepted the bundle but no script is produced for this file
				e.res.Fail(hx.Violation{Kind: "oracle", What: "soyjs.Write returns an error for a file of an accepted bundle: no script is generated", Case: cs, Observed: rerr.Error()},
					c14WriteErrorKey(e, sf, rerr.Error()))
				if cls != "err" {
					e.res.Fail(hx.Violation{Kind: "mismatch", What: "soyjs.Write returns an error, the model generates (" + cls + ")", Case: cs, Expected: c14Trunc(mtext), Observed: rerr.Error()}, "")
				}
			case cls == "outofmodel":
				e.res.Histogram["outofmodel"]++
			case cls != "ok":
				e.res.Fail(hx.Violation{Kind: "mismatch", What: "the model does not generate (" + strings.Join(raw, " ") + "), soyjs.Write does", Case: cs, Observed: c14Trunc(real)}, "")
			default:
				rn := real
				if rn != mtext {
					i := firstDiff(rn, mtext)
					e.res.Fail(hx.Violation{Kind: "mismatch", What: "generated JavaScript differs from the model's text", Case: cs,
						Expected: "model, at byte " + fmt.Sprint(i) + ": " + around(mtext, i), Observed: "soyjs.Write: " + around(rn, i)}, "")
				}
			}
			if rerr == nil {
				if c14IntMember(sf) {
					u.intMember = true
				}
				u.node.Files = append(u.node.Files, jsNodeFile{Name: sf.Name, Code: real, Templates: templatesOf(sf)})
				if cls == "ok" {
					t1 := time.Now()
					c14Wf(e, b, u.cfg(), sf, c.es6, trc, real)
					c14T["model-wf"] += time.Since(t1)
				}
			}
		}
		if genErr {
			// no JavaScript was produced for some file: nothing to compile for this configuration
			e.res.Histogram["units-with-write-error"]++
			continue
		}
		// echo templates: the Go renderer must agree that the template denotes the string
		for _, ec := range b.Echo {
			if ec.UseMsgs != c.msgs && ec.UseMsgs {
				continue
			}
			r := tofu.NewRenderer(ec.Template)
			if mb != nil {
				r = r.WithMessages(mb)
			}
			var sb strings.Builder
			if err := func() (err error) {
				defer func() {
					if p := recover(); p != nil {
						err = fmt.Errorf("PANIC %v", p)
					}
				}()
				return r.Execute(&sb, nil)
			}(); err != nil || sb.String() != ec.Want {
				e.res.Histogram["echo-not-exact-in-go:"+ec.Context]++
				continue
			}
			u.node.Calls = append(u.node.Calls, jsNodeCall{F: ec.Template, D: map[string]interface{}{}})
			u.echo = append(u.echo, ec)
		}
		c14unitSeq++
		u.node.ID = c14unitSeq
		units = append(units, u)
	}
	if len(e.res.Samples) < 3 && len(units) > 0 && len(units[0].node.Files) > 0 {
		e.res.Sample(map[string]interface{}{"stream": b.Stream, "source": c14Trunc(b.Files[0].Text), "generated": c14Trunc(units[0].node.Files[0].Code)})
	}
	return units
}

func c14NodeEval(e *env, units []*c14Unit, tag string, res []jsNodeUnitRes, err error) {
	if err != nil {
		e.res.Fail(hx.Violation{Kind: "mismatch", What: "node could not be run", Case: "node batch " + tag, Observed: err.Error()}, "")
		return
	}
	for i, u := range units {
		r := res[i]
		if r.Fatal != "" || r.UtilsError != "" {
			e.res.Fail(hx.Violation{Kind: "mismatch", What: "node runner failure", Case: c14CaseOf(u.b, u.cfg(), nil), Observed: r.Fatal + r.UtilsError}, "")
			continue
		}
		e.res.Histogram["node-units:"+u.cfg()]++
		// known finding: a literal with a non-printable astral rune anywhere in the bundle
		known := ""
		for _, f := range u.b.Files {
			if c14AstralNonPrint(f.Text) {
				known = c14FindingAstral
			}
		}
		for k, fr := range r.Files {
			if k >= len(u.node.Files) {
				break
			}
			f := u.node.Files[k]
			cs := c14CaseOf(u.b, u.cfg(), map[string]interface{}{"file": f.Name, "generated": c14Trunc(f.Code)})
			if fr.Syntax != nil {
				e.res.Histogram["fail:syntax:"+u.b.Stream]++
				kk := ""
				if c14ReservedNamespace(u.b) {
					kk = c14FindingReserved
				} else if u.intMember {
					kk = c14FindingIntMember
				}
				e.res.Fail(hx.Violation{Kind: "oracle", What: "generated JavaScript is not syntactically valid", Case: cs, Observed: *fr.Syntax}, kk)
				continue
			}
			if fr.Run != nil {
				e.res.Histogram["fail:load:"+u.b.Stream+":"+firstLine(*fr.Run)]++
				e.res.Fail(hx.Violation{Kind: "oracle", What: "generated JavaScript fails while it is loaded", Case: cs, Observed: *fr.Run}, "")
				continue
			}
			if len(fr.Missing) > 0 {
				e.res.Fail(hx.Violation{Kind: "oracle", What: "no function under the template's qualified name", Case: cs, Observed: strings.Join(fr.Missing, ", ")}, "")
			}
			e.res.Histogram["files-compiled"]++
			e.res.Histogram["functions-found"] += len(f.Templates) - len(fr.Missing)
		}
		for k, cr := range r.Calls {
			if k >= len(u.echo) {
				break
			}
			ec := u.echo[k]
			e.res.Count(fmt.Sprint(u.cfg(), ec.Context, ec.Want), true, "echo:"+ec.Context)
			cs := c14CaseOf(u.b, u.cfg(), map[string]interface{}{"template": ec.Template, "context": ec.Context, "want": hx.Q(c14Trunc(ec.Want))})
			kk := ""
			if known != "" && c14AstralNonPrint(ec.Want) {
				kk = known
			} else if ec.Want == "__proto__" && (ec.Context == "mapkey" || ec.Context == "mapkey-lookup" || ec.Context == "global-mapkey") {
				kk = c14FindingProto
			}
			if cr.Err != "" {
				e.res.Histogram["fail:call:"+ec.Context]++
				e.res.Fail(hx.Violation{Kind: "oracle", What: "calling the generated function fails (" + ec.Context + ")", Case: cs, Expected: hx.Q(c14Trunc(ec.Want)), Observed: cr.Err}, kk)
				continue
			}
			got, _ := hex.DecodeString(cr.Hex)
			if string(got) != ec.Want || !cr.WF {
				e.res.Histogram["fail:denote:"+ec.Context]++
				if !c14AstralNonPrint(ec.Want) {
					e.res.Histogram["fail:denote-other:"+ec.Context+":"+hx.Q(c14Trunc(ec.Want))]++
				}
				e.res.Fail(hx.Violation{Kind: "oracle", What: "the generated JavaScript does not denote the template's string (" + ec.Context + ")", Case: cs,
					Expected: hx.Q(c14Trunc(ec.Want)), Observed: hx.Q(c14Trunc(string(got)))}, kk)
			}
		}
	}
}

func firstLine(s string) string {
	if i := strings.IndexByte(s, '\n'); i >= 0 {
		s = s[:i]
	}
	if len(s) > 100 {
		s = s[:100]
	}
	return s
}

// ---------- Write errors on accepted bundles ----------

// c14Shapes lists which of the error-producing shapes occur in a file
// (trigger predicates of the js-write-error-* findings, evaluated on the AST).
func c14Shapes(e *env, sf *ast.SoyFileNode) map[string]bool {
	has := map[string]bool{}
	var walk func(n ast.Node, loops []string)
	walkAll := func(ns []ast.Node, loops []string) {
		for _, c := range ns {
			if c != nil && !isNilNode(c) {
				walk(c, loops)
			}
		}
	}
	walk = func(n ast.Node, loops []string) {
		switch n := n.(type) {
		case *ast.ForNode:
			// the list / range arguments and the ifempty block are outside the loop (since the C04-6 repair;
			// before it they were inside: the trigger is evaluated for the code as it is, see below)
			if fn, ok := n.List.(*ast.FunctionNode); ok && fn.Name == "range" {
				if len(fn.Args) < 1 || len(fn.Args) > 3 {
					has["range-arity"] = true
				}
				walkAll(fn.Args, loops)
			} else {
				walk(n.List, loops)
			}
			walk(n.Body, append(append([]string{}, loops...), n.Var))
			if n.IfEmpty != nil {
				walk(n.IfEmpty, loops)
			}
			return
		case *ast.FunctionNode:
			if _, ok := soyjs.Funcs[n.Name]; ok {
				if len(n.Args) < c14NeededArgs(e, n.Name, len(n.Args)) {
					has["function-arity"] = true
				}
			} else if n.Name == "isFirst" || n.Name == "isLast" || n.Name == "index" {
				// the argument must be the variable of an enclosing loop
				ok := false
				if len(n.Args) == 1 {
					if ref, isRef := n.Args[0].(*ast.DataRefNode); isRef && len(ref.Access) == 0 {
						for _, l := range loops {
							if l == ref.Key {
								ok = true
							}
						}
					}
				}
				if !ok {
					has["loopfunc"] = true
				}
			} else {
				has["unknown-function"] = true
			}
		case *ast.PrintNode:
			for _, d := range n.Directives {
				if _, ok := soyjs.PrintDirectives[d.Name]; !ok {
					has["unknown-directive"] = true
				}
			}
		}
		if p, ok := n.(ast.ParentNode); ok {
			walkAll(p.Children(), loops)
		}
	}
	walkAll(sf.Body, nil)
	return has
}

var c14FuncAlts map[string][]struct {
	Len    int `json:"len"`
	Pieces []struct {
		Arg   int  `json:"arg"`
		IsArg bool `json:"is_arg"`
	} `json:"pieces"`
}

// c14NeededArgs: the number of arguments the function's Apply indexes when called with n arguments
// (from the table regenerated by tablegen).
func c14NeededArgs(e *env, name string, n int) int {
	if c14FuncAlts == nil {
		c14FuncAlts = map[string][]struct {
			Len    int `json:"len"`
			Pieces []struct {
				Arg   int  `json:"arg"`
				IsArg bool `json:"is_arg"`
			} `json:"pieces"`
		}{}
		var t struct {
			Funcs []struct {
				Name string
				Alts []struct {
					Len    int `json:"len"`
					Pieces []struct {
						Arg   int  `json:"arg"`
						IsArg bool `json:"is_arg"`
					} `json:"pieces"`
				}
			} `json:"js_funcs"`
		}
		if bs, err := os.ReadFile(e.tables); err == nil {
			json.Unmarshal(bs, &t)
		}
		for _, f := range t.Funcs {
			c14FuncAlts[f.Name] = f.Alts
		}
	}
	for _, a := range c14FuncAlts[name] {
		if a.Len == n || a.Len == -1 {
			need := 0
			for _, p := range a.Pieces {
				if p.IsArg && p.Arg+1 > need {
					need = p.Arg + 1
				}
			}
			return need
		}
	}
	return 0
}

// c14WriteErrorKey attributes a Write error to a finding: the error text says
// which check fired, the trigger must hold on the file.
func c14WriteErrorKey(e *env, sf *ast.SoyFileNode, msg string) string {
	has := c14Shapes(e, sf)
	switch {
	case strings.Contains(msg, "range() takes") && has["range-arity"]:
		return "js-write-error-range-arity"
	case (strings.Contains(msg, "may only be called inside a loop") || strings.Contains(msg, "must be applied to the variable of an enclosing loop")) && has["loopfunc"]:
		return "js-write-error-loopfunc"
	case strings.Contains(msg, "unimplemented function") && has["unknown-function"]:
		return "js-write-error-unknown-function"
	case strings.Contains(msg, "Print directive") && has["unknown-directive"]:
		return "js-write-error-unknown-directive"
	case strings.Contains(msg, "index out of range") && has["function-arity"]:
		return "js-write-error-function-arity"
	}
	return ""
}
