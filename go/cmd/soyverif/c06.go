//go:build c06

package main

// C06 — rendering any compiled bundle with any data returns output or an error.
//
// Generators: (1) the program generator of gen_prog.go with the ill-typed hooks
// below (any value kind at any operand, wrong arities of functions and
// directives, zero/negative/overflowing range steps, $ij with and without
// injected data, optional and required params missing from the data, errors
// inside nested calls, the same template name in two files), rendered with data
// of the declared kinds, with arbitrary JSON-shaped data and with no data;
// (2) exhaustive small enumerations: every binary operator on every pair of
// operand kinds, every function and directive of the regenerated tables with
// every argument count 0..4 and argument kinds, loop functions inside and
// outside loops, data-bounded recursion over nested data; (3) soyhtml.EvalExpr on
// the same enumerations as closed expressions; (4) soy.ParseGlobals on
// generated globals files (comments, blank lines, CRLF, Unicode white space, no
// '=', over-long lines, erroring right-hand sides).
//
// Every implementation run happens in a worker subprocess (memory limit,
// per-case timeout).  Projection: {ok + output bytes, error, escaped panic,
// fatal, hang}.  Oracle: escaped panic, fatal and hang are violations.
// Correspondence: the Coq model (Interp.render, InterpSafety.eval_expr_impl,
// Globals.parse_globals) must give the same class (and the same bytes when ok).

import (
	"bufio"
	"encoding/json"
	"fmt"
	"io"
	"os"
	"os/exec"
	"path/filepath"
	"regexp"
	"strconv"
	"strings"
	"syscall"
	"time"

	"github.com/robfig/soy"
	"github.com/robfig/soy/data"
	"github.com/robfig/soy/parse"
	"github.com/robfig/soy/soyhtml"
	"github.com/robfig/soy/template"
	"soyverif/internal/hx"
)

func init() {
	props["C06"] = runC06
	workers["c06render"] = c06RenderWorker
	workers["c06expr"] = c06ExprWorker
	workers["c06glob"] = c06GlobWorker
}

const c06Fuel = "#4000"

// ---------------------------------------------------------------------------
// cases

type c06Render struct {
	Kind     string    `json:"kind"` // "render"
	Files    []srcFile `json:"files"`
	Template string    `json:"template"`
	Data     string    `json:"data"` // value sexp of the data map; "nil" = Render(w, name, nil)
	Ij       string    `json:"ij"`   // value sexp of the injected map; "" = none
	FailAt   int       `json:"fail_at,omitempty"` // k > 0: the writer accepts k-1 Write calls and fails the k-th
	Tag      string    `json:"tag"`
}

type c06Expr struct {
	Kind string `json:"kind"` // "expr"
	Text string `json:"text"`
	Tag  string `json:"tag"`
}

type c06Glob struct {
	Kind  string `json:"kind"` // "globals"
	Input string `json:"input"`
	Tag   string `json:"tag"`
}

// ---------------------------------------------------------------------------
// worker side

func c06LimitMemory() {
	lim := syscall.Rlimit{Cur: 3 << 30, Max: 3 << 30}
	syscall.Setrlimit(syscall.RLIMIT_AS, &lim)
}

func c06Load(path string, v interface{}) {
	bs, err := os.ReadFile(path)
	if err != nil {
		fmt.Fprintln(os.Stderr, "worker: cannot read cases:", err)
		os.Exit(3)
	}
	if err := json.Unmarshal(bs, v); err != nil {
		fmt.Fprintln(os.Stderr, "worker: cannot parse cases:", err)
		os.Exit(3)
	}
}

func c06Range(args []string, n int) (int, int) {
	start, end := 0, n
	if len(args) > 1 {
		start, _ = strconv.Atoi(args[1])
	}
	if len(args) > 2 {
		end, _ = strconv.Atoi(args[2])
	}
	if end > n {
		end = n
	}
	return start, end
}

func c06RenderWorker(args []string) {
	c06LimitMemory()
	c06InstallUserCode()
	var in c06RenderInput
	c06Load(args[0], &in)
	start, end := c06Range(args, len(in.Cases))
	out := bufio.NewWriter(os.Stdout)
	last := -1
	var tofu *soyhtml.Tofu
	var cerr error
	for i := start; i < end; i++ {
		fmt.Fprintf(out, "S %d\n", i)
		out.Flush()
		c := in.Cases[i]
		if c.Bundle != last {
			tofu, cerr = compile(in.Bundles[c.Bundle])
			last = c.Bundle
		}
		res := ""
		switch {
		case cerr != nil && isPanicErr(cerr):
			res = "cpanic " + hx.H(cerr.Error())
		case cerr != nil:
			res = "cerror " + hx.H(cerr.Error())
		default:
			var d data.Map
			bad := false
			if c.Data != "nil" {
				v, err := sexpToValue(c.Data, nil)
				m, ok := v.(data.Map)
				if err != nil || !ok {
					bad = true
				}
				d = m
			}
			var ij data.Map
			if c.Ij != "" {
				v, err := sexpToValue(c.Ij, nil)
				m, ok := v.(data.Map)
				if err != nil || !ok {
					bad = true
				}
				ij = m
			}
			if bad {
				res = "badcase"
				break
			}
			o, err := c06Render1(tofu, c.Template, d, ij, c.FailAt)
			switch {
			case err == nil:
				res = "ok " + hx.H(o)
			case isPanicErr(err):
				res = "panic " + hx.H(o) + " " + hx.H(firstLine(err.Error()))
			default:
				res = "error " + hx.H(o) + " " + hx.H(firstLine(err.Error()))
			}
		}
		fmt.Fprintf(out, "D %d %s\n", i, res)
		out.Flush()
	}
	fmt.Fprintln(out, "END")
	out.Flush()
}

// a writer that accepts k-1 Write calls and fails the k-th and all later ones
type c06FailWriter struct {
	buf   strings.Builder
	calls int
	k     int
}

func (w *c06FailWriter) Write(p []byte) (int, error) {
	w.calls++
	if w.k > 0 && w.calls >= w.k {
		return 0, fmt.Errorf("writer failed at call %d", w.calls)
	}
	return w.buf.Write(p)
}

func c06Render1(tofu *soyhtml.Tofu, name string, d data.Map, ij data.Map, failAt int) (out string, err error) {
	if failAt <= 0 {
		return render(tofu, name, d, ij)
	}
	w := &c06FailWriter{k: failAt}
	defer func() {
		if r := recover(); r != nil {
			out, err = w.buf.String(), fmt.Errorf("PANIC: %v", r)
		}
	}()
	r := tofu.NewRenderer(name)
	if ij != nil {
		r = r.Inject(ij)
	}
	err = r.Execute(w, d)
	return w.buf.String(), err
}

func firstLine(s string) string {
	if i := strings.IndexByte(s, '\n'); i >= 0 {
		s = s[:i]
	}
	if len(s) > 300 {
		s = s[:300]
	}
	return s
}

// c06Eval: parse.Expr + soyhtml.EvalExpr under recover.
// result: perr <msg> | ok <node sexp hex> <value sexp hex> | error <node hex> <msg> | panic <node hex> <msg>
func c06EvalText(text string) string {
	node, perr := func() (n interface{}, err error) {
		defer func() {
			if r := recover(); r != nil {
				err = fmt.Errorf("PANIC: %v", r)
			}
		}()
		nd, e := parse.Expr(text)
		return nd, e
	}()
	if perr != nil {
		if isPanicErr(perr) {
			return "ppanic " + hx.H(firstLine(perr.Error()))
		}
		return "perr " + hx.H(firstLine(perr.Error()))
	}
	nd, _ := parse.Expr(text)
	ids := newIDTable()
	ns := nodeSexp(nd, ids)
	v, err := func() (v data.Value, err error) {
		defer func() {
			if r := recover(); r != nil {
				err = fmt.Errorf("PANIC: %v", r)
			}
		}()
		return soyhtml.EvalExpr(nd)
	}()
	_ = node
	switch {
	case err == nil:
		return "ok " + hx.H(ns) + " " + hx.H(valueSexp(v, ids))
	case isPanicErr(err):
		return "panic " + hx.H(ns) + " " + hx.H(firstLine(err.Error()))
	default:
		return "error " + hx.H(ns) + " " + hx.H(firstLine(err.Error()))
	}
}

func c06ExprWorker(args []string) {
	c06LimitMemory()
	var cases []c06Expr
	c06Load(args[0], &cases)
	start, end := c06Range(args, len(cases))
	out := bufio.NewWriter(os.Stdout)
	for i := start; i < end; i++ {
		fmt.Fprintf(out, "S %d\n", i)
		out.Flush()
		fmt.Fprintf(out, "D %d %s\n", i, c06EvalText(cases[i].Text))
		out.Flush()
	}
	fmt.Fprintln(out, "END")
	out.Flush()
}

// c06GlobRHS lists, for a globals input, the right-hand sides the real
// ParseGlobals hands to parse.Expr, computed with the Go library functions
// themselves (bufio.Scanner, strings.Index, strings.TrimSpace).
func c06GlobRHS(input string) []string {
	var out []string
	sc := bufio.NewScanner(strings.NewReader(input))
	for sc.Scan() {
		line := sc.Text()
		if len(line) == 0 || strings.HasPrefix(line, "//") {
			continue
		}
		eq := strings.Index(line, "=")
		if eq == -1 {
			break
		}
		out = append(out, strings.TrimSpace(line[eq+1:]))
	}
	return out
}

// result: <class> <msg-or-map hex> { | <rhs hex> <node sexp | !> }
func c06GlobWorker(args []string) {
	c06LimitMemory()
	var cases []c06Glob
	c06Load(args[0], &cases)
	start, end := c06Range(args, len(cases))
	out := bufio.NewWriter(os.Stdout)
	for i := start; i < end; i++ {
		fmt.Fprintf(out, "S %d\n", i)
		out.Flush()
		in := cases[i].Input
		m, err := func() (m data.Map, err error) {
			defer func() {
				if r := recover(); r != nil {
					err = fmt.Errorf("PANIC: %v", r)
				}
			}()
			return soy.ParseGlobals(strings.NewReader(in))
		}()
		var sb strings.Builder
		switch {
		case err == nil:
			sb.WriteString("ok " + hx.H(valueSexp(m, newIDTable())))
		case isPanicErr(err):
			sb.WriteString("panic " + hx.H(firstLine(err.Error())))
		default:
			sb.WriteString("error " + hx.H(firstLine(err.Error())))
		}
		seen := map[string]bool{}
		for _, rhs := range c06GlobRHS(in) {
			if seen[rhs] {
				continue
			}
			seen[rhs] = true
			nd, perr := func() (s string, err error) {
				defer func() {
					if r := recover(); r != nil {
						err = fmt.Errorf("PANIC: %v", r)
					}
				}()
				n, e := parse.Expr(rhs)
				if e != nil {
					return "", e
				}
				return nodeSexp(n, newIDTable()), nil
			}()
			if perr != nil {
				sb.WriteString(" | " + hx.H(rhs) + " !")
			} else {
				sb.WriteString(" | " + hx.H(rhs) + " " + nd)
			}
		}
		fmt.Fprintf(out, "D %d %s\n", i, sb.String())
		out.Flush()
	}
	fmt.Fprintln(out, "END")
	out.Flush()
}

// ---------------------------------------------------------------------------
// parent side: running a worker over a case file

type c06Res struct {
	Status string // "done" | "hang" | "fatal" | "skipped"
	Out    string // payload of the D line
	Stderr string
}

func c06Tmp(e *env) string {
	d := os.Getenv("VERIF_BUILD")
	if d == "" {
		d = os.TempDir()
	}
	d = filepath.Join(d, "tmp")
	os.MkdirAll(d, 0o755)
	return d
}

// c06RunRange runs cases [start,end) in one worker process; it stops at the
// first case that hangs or kills the process and returns the index reached.
func c06RunRange(e *env, kind, file string, start, end int, perCase time.Duration, res []c06Res) int {
	cmd := exec.Command(e.self, "worker", kind, file, strconv.Itoa(start), strconv.Itoa(end))
	stdout, _ := cmd.StdoutPipe()
	var errBuf strings.Builder
	cmd.Stderr = &limitedWriter{w: &errBuf, n: 4000}
	if err := cmd.Start(); err != nil {
		res[start] = c06Res{Status: "fatal", Stderr: "cannot start worker: " + err.Error()}
		return start + 1
	}
	lines := make(chan string, 64)
	go func() {
		rd := bufio.NewReaderSize(stdout, 1<<20)
		for {
			l, err := rd.ReadString('\n')
			if l != "" {
				lines <- strings.TrimRight(l, "\n")
			}
			if err != nil {
				close(lines)
				return
			}
		}
	}()
	started, finished, ended, hang := -1, -1, false, false
	timer := time.NewTimer(perCase + 5*time.Second) // start-up allowance
loop:
	for {
		select {
		case l, ok := <-lines:
			if !ok {
				break loop
			}
			switch {
			case strings.HasPrefix(l, "S "):
				started, _ = strconv.Atoi(l[2:])
				if !timer.Stop() {
					select {
					case <-timer.C:
					default:
					}
				}
				timer.Reset(perCase)
			case strings.HasPrefix(l, "D "):
				rest := l[2:]
				sp := strings.IndexByte(rest, ' ')
				if sp < 0 {
					sp = len(rest)
				}
				i, _ := strconv.Atoi(rest[:sp])
				if i >= 0 && i < len(res) {
					res[i] = c06Res{Status: "done", Out: strings.TrimSpace(rest[sp:])}
				}
				finished = i
			case l == "END":
				ended = true
			}
		case <-timer.C:
			hang = true
			cmd.Process.Kill()
			break loop
		}
	}
	cmd.Process.Kill()
	cmd.Wait()
	if ended {
		return end
	}
	// the case that was started and not finished; if the process died between
	// cases (or before the first one) the next case is blamed
	bad := started
	if started == finished {
		bad = finished + 1
		if finished < 0 {
			bad = start
		}
	}
	if bad < start {
		bad = start
	}
	if bad >= end {
		return end
	}
	if hang {
		res[bad] = c06Res{Status: "hang"}
	} else {
		res[bad] = c06Res{Status: "fatal", Stderr: tail(errBuf.String(), 1500)}
	}
	return bad + 1
}

type limitedWriter struct {
	w io.Writer
	n int
}

func (l *limitedWriter) Write(p []byte) (int, error) {
	if l.n > 0 {
		k := len(p)
		if k > l.n {
			k = l.n
		}
		l.w.Write(p[:k])
		l.n -= k
	}
	return len(p), nil
}

func tail(s string, n int) string {
	if len(s) > n {
		return s[:n]
	}
	return s
}

// c06Run runs all cases; a hang is re-confirmed by running the case alone with
// twice the timeout.  risky[i] names the class of a case that is known to be
// able to hang (those run alone, from their own small case file; after two
// confirmed hangs of one class the rest of the class is skipped, to keep a run
// on a defective tree short).  marshal serialises the cases with the given
// indices, in that order, as the worker's input.
func c06Run(e *env, kind string, n int, marshal func(idx []int) []byte, perCase time.Duration, risky []string) []c06Res {
	res := make([]c06Res, n)
	var plain, alone []int
	for i := 0; i < n; i++ {
		if risky != nil && risky[i] != "" {
			alone = append(alone, i)
		} else {
			plain = append(plain, i)
		}
	}
	runSet := func(idx []int, each bool) {
		if len(idx) == 0 {
			return
		}
		f, err := os.CreateTemp(c06Tmp(e), "c06-"+kind+"-*.json")
		if err != nil {
			e.res.Note("cannot create case file: %v", err)
			return
		}
		f.Write(marshal(idx))
		f.Close()
		defer os.Remove(f.Name())
		sub := make([]c06Res, len(idx))
		confirm := func(k int) {
			if k < 0 || k >= len(idx) || sub[k].Status != "hang" {
				return
			}
			one := make([]c06Res, len(idx))
			c06RunRange(e, kind, f.Name(), k, k+1, 2*perCase, one)
			if one[k].Status == "done" {
				sub[k] = one[k]
			}
		}
		if !each {
			hangs := 0
			for start := 0; start < len(idx); {
				if hangs >= 8 {
					// a defective tree: enough evidence, do not spend the timeout on every further case
					for k := start; k < len(idx); k++ {
						sub[k] = c06Res{Status: "skipped"}
					}
					break
				}
				next := c06RunRange(e, kind, f.Name(), start, len(idx), perCase, sub)
				confirm(next - 1)
				if next-1 >= 0 && next-1 < len(idx) && (sub[next-1].Status == "hang" || sub[next-1].Status == "fatal") {
					hangs++
				}
				start = next
			}
		} else {
			hangs := map[string]int{}
			for k, i := range idx {
				if hangs[risky[i]] >= 2 {
					sub[k] = c06Res{Status: "skipped"}
					continue
				}
				c06RunRange(e, kind, f.Name(), k, k+1, perCase, sub)
				confirm(k)
				if sub[k].Status == "hang" || sub[k].Status == "fatal" {
					hangs[risky[i]]++
				}
			}
		}
		for k, i := range idx {
			res[i] = sub[k]
		}
	}
	runSet(plain, false)
	runSet(alone, true)
	return res
}

// the worker input of the render family: bundles are stored once
type c06RenderInput struct {
	Bundles [][]srcFile `json:"bundles"`
	Cases   []c06RenderRef `json:"cases"`
}
type c06RenderRef struct {
	Bundle   int    `json:"b"`
	Template string `json:"t"`
	Data     string `json:"d"`
	Ij       string `json:"ij"`
	FailAt   int    `json:"f"`
}

func c06MarshalRenders(cases []c06Render) func(idx []int) []byte {
	return func(idx []int) []byte {
		var in c06RenderInput
		seen := map[string]int{}
		for _, i := range idx {
			c := cases[i]
			key := fmt.Sprint(c.Files)
			b, ok := seen[key]
			if !ok {
				b = len(in.Bundles)
				seen[key] = b
				in.Bundles = append(in.Bundles, c.Files)
			}
			in.Cases = append(in.Cases, c06RenderRef{Bundle: b, Template: c.Template, Data: c.Data, Ij: c.Ij, FailAt: c.FailAt})
		}
		bs, _ := json.Marshal(in)
		return bs
	}
}

// ---------------------------------------------------------------------------
// the ill-typed hooks for gen_prog.go

var c06Atoms = []string{"null", "true", "false", "0", "1", "7", "-1", "1.5", "0.0", "0.5", "(0.0 / 0.0)", "(1.0 / 0.0)", "'a'", "''", "'12'", "[]", "[1, 'a']", "['k': 1]", "[[1], [2]]"}

var c06FuncNames = []string{"isNonnull", "length", "keys", "augmentMap", "round", "floor", "ceiling", "min", "max", "randomInt", "strContains", "range", "hasData", "index", "isFirst", "isLast", "nosuchfn"}

var c06DirNames = []string{"insertWordBreaks", "changeNewlineToBr", "truncate", "id", "noAutoescape", "escapeHtml", "escapeUri", "escapeJsString", "bidiSpanWrap", "bidiUnicodeWrap", "json", "nosuchdir"}

var c06BadRanges = []string{
	"range(0, 5, 0)", "range(0, 5, -1)", "range(3, 9, -3)", "range(1, 2, 0)",
	"range(0, 9223372036854775807, 4611686018427387904)", "range(9223372036854775800, 9223372036854775807, 3)",
	"range(5, 0)", "range(-3)", "range(0, 0, 1)", "range('a')", "range(1.5)", "range(null)", "range(0, 'x')", "range(0, 4, 'x')", "range(2, 11, 4)",
	"range(-9223372036854775807, -9223372036854775800, 5)",
	"range(0, 3, 0.5)", "range(0, 3, 1.0)", "range(0, 2.5)", "range(1.5, 4)", "range(0.5)", "range(0, 3, 0.0 / 0.0)", "range(0, 3, 1.0 / 0.0)", "range(0, 3, 0.0 * -1)",
}

func (g *progGen) c06Arg(env genv) string {
	if len(env.vars) > 0 && g.r.Chance(50) {
		v := env.vars[g.r.Intn(len(env.vars))]
		return g.use(v)
	}
	return g.r.Pick(c06Atoms)
}

func c06ExprHook(g *progGen, env genv, k kind, d int) (string, bool) {
	if !g.r.Chance(14) {
		return "", false
	}
	switch g.r.Intn(9) {
	case 0:
		g.feat("ill:atom")
		return g.r.Pick(c06Atoms), true
	case 1:
		g.feat("ill:ij")
		return g.r.Pick([]string{"$ij.foo", "$ij", "$ij.a.b", "$ij?.foo", "$ij.list[0]", "$ij['foo']", "$ij.n + 1"}), true
	case 2, 3:
		g.feat("ill:func-arity")
		name := g.r.Pick(c06FuncNames)
		if name == "range" {
			// data-dependent range bounds could ask for astronomically long lists; the
			// range stream below uses literal bounds only
			name = "length"
		}
		n := g.r.Intn(5)
		var as []string
		for i := 0; i < n; i++ {
			as = append(as, g.c06Arg(env))
		}
		if name == "index" || name == "isFirst" || name == "isLast" {
			// the compiler demands the variable of an enclosing loop as (first) argument
			if len(env.loops) == 0 {
				name = "keys"
			} else if len(as) == 0 {
				as = []string{"$" + env.loops[g.r.Intn(len(env.loops))]}
			} else {
				as[0] = "$" + env.loops[g.r.Intn(len(env.loops))]
			}
		}
		return name + "(" + strings.Join(as, ", ") + ")", true
	case 4:
		br := g.r.Pick(c06BadRanges)
		switch c06RiskOf([]srcFile{{Text: br}}) {
		case "":
			g.feat("ill:range-other")
		default:
			g.feat("ill:" + c06RiskOf([]srcFile{{Text: br}}))
		}
		return br, true
	case 5:
		g.feat("ill:mod-zero")
		return "(" + g.c06Arg(env) + " % " + g.r.Pick([]string{"0", "(1 - 1)", "'a'", "1.5", "null"}) + ")", true
	case 6:
		if len(env.vars) == 0 {
			return "", false
		}
		g.feat("ill:access")
		v := env.vars[g.r.Intn(len(env.vars))]
		acc := ""
		for i := 0; i <= g.r.Intn(3); i++ {
			acc += g.r.Pick([]string{".a", ".b", "[0]", "?.c", "['k']", "[-1]", "?[2]", ".0", "['']", "[null]", "[1.5]", "?.a"})
		}
		return g.use(v) + acc, true
	case 7:
		g.feat("ill:unary")
		return g.r.Pick([]string{"-", "not "}) + "(" + g.c06Arg(env) + ")", true
	default:
		g.feat("ill:binop")
		op := g.r.Pick([]string{"*", "/", "%", "+", "-", "==", "!=", ">", ">=", "<", "<=", "or", "and", "?:"})
		return "(" + g.c06Arg(env) + " " + op + " " + g.c06Arg(env) + ")", true
	}
}

func c06DirHook(g *progGen) (string, bool) {
	if !g.r.Chance(30) {
		return "", false
	}
	g.feat("ill:directive")
	name := g.r.Pick(c06DirNames)
	n := g.r.Intn(4)
	var as []string
	for i := 0; i < n; i++ {
		as = append(as, g.r.Pick([]string{"0", "1", "3", "-1", "100", "'a'", "true", "false", "null", "1.5"}))
	}
	s := "|" + name
	if n > 0 {
		s += ":" + strings.Join(as, ",")
	}
	if g.r.Chance(30) {
		s += g.r.Pick([]string{"|id", "|truncate:2", "|escapeHtml", "|json"})
	}
	return s, true
}

// arbitrary JSON-shaped data
func c06JSON(r *hx.Rand, d int) data.Value {
	n := 8
	if d <= 0 {
		n = 6
	}
	switch r.Intn(n) {
	case 0:
		return data.Null{}
	case 1:
		return data.Bool(r.Bool())
	case 2:
		return data.Int([]int64{0, 1, -1, 2, 7, 42, -5, 1 << 40, 3}[r.Intn(9)])
	case 3:
		return data.Float([]float64{0.5, -1.5, 0, 3, 100.25}[r.Intn(5)])
	case 4, 5:
		return data.String(strPool[r.Intn(len(strPool))])
	case 6:
		l := data.List{}
		for i := r.Intn(4); i > 0; i-- {
			l = append(l, c06JSON(r, d-1))
		}
		return l
	default:
		m := data.Map{}
		for i := r.Intn(4); i > 0; i-- {
			m[r.Pick([]string{"a", "b", "c", "foo", "k", "list", "n", ""})] = c06JSON(r, d-1)
		}
		return m
	}
}

func c06AnyData(r *hx.Rand, params []string) data.Map {
	m := data.Map{}
	for _, p := range params {
		if r.Chance(25) {
			continue // missing, required or not
		}
		m[p] = c06JSON(r, 2)
	}
	if r.Chance(30) {
		m[r.Pick([]string{"extra", "ij", "x__index", "i__lastIndex"})] = c06JSON(r, 1)
	}
	return m
}

// ---------------------------------------------------------------------------
// the property

type c06Plan struct {
	c       c06Render
	risky   string
	reg     string // model registry key, "" = not loaded
	hasJSON bool
	nontriv bool
	depth   int // known call depth of the run + 1 (0 = unknown): recursion plans
	user    bool // uses the functions / directives of c06InstallUserCode: compared with the model op c06_render_user
}

func runC06(e *env) {
	e.res.Rule = "renders: ill-typed bundles from the program grammar (hooks: any atom at any operand, wrong arities of all functions and directives, range steps <=0 and overflowing, $ij, bad accesses, % by zero) x {data of the declared kinds, arbitrary JSON data with missing params, no data} x {no ij, ij}; duplicate template names across files; inputs sharing a file name (long/short siblings, every order); floats of every kind at every argument position; exhaustive enumerations (binary operators x operand kinds, functions x argument counts 0..4 x kinds, directives x argument counts x kinds, loop functions, data-bounded recursion); soyhtml.EvalExpr on the closed enumerations; soy.ParseGlobals on generated files and on a malformed-line stream; EvalExpr on malformed token soups; soyjs.Write on every file of the accepted bundles of the ill-typed and nasty-literal streams and of hand-written deep / message / loop shapes x {ES5, ES6} x {no message bundle, a stale bundle whose parts do not belong to the message} x {buffer, failing writer, panicking writer} (oracle: returns nil or an error; recovered run-time errors are counted, not violations). Every implementation run in a worker subprocess (3 GiB, per-case timeout). Non-trivial = the case reaches an error, a call, a loop or a directive; distinct by source + data."
	if e.replay != "" {
		c06Replay(e)
		return
	}
	perCase := 2 * time.Second
	t0 := time.Now()
	phase := func(name string, f func()) {
		t := time.Now()
		f()
		e.res.Histogram[fmt.Sprintf("phase-ms:%s", name)] = int(time.Since(t).Milliseconds())
	}
	phase("renders", func() { c06Renders(e, perCase) })
	phase("exprs", func() { c06Exprs(e, perCase) })
	phase("globals", func() { c06Globals(e, perCase) })
	phase("ranges", func() { c06Ranges(e) })
	phase("jswrites", func() { c06JsWrites(e, perCase) })
	phase("float-json", func() { c06FloatJSON(e) })
	_ = t0
}

func paramNamesOf(files []srcFile, entry string) []string {
	// the params of the entry template, read back from the generated source
	short := entry[strings.LastIndex(entry, ".")+1:]
	var names []string
	for _, f := range files {
		i := strings.Index(f.Text, "{template ."+short+"}")
		if i < 0 {
			i = strings.Index(f.Text, "{template ."+short+" ")
		}
		if i < 0 {
			continue
		}
		// soydoc before, header params after
		pre := f.Text[:i]
		if j := strings.LastIndex(pre, "/**"); j >= 0 && !strings.Contains(pre[j:], "{/template}") {
			for _, ln := range strings.Split(pre[j:], "\n") {
				ln = strings.TrimSpace(ln)
				if strings.HasPrefix(ln, "* @param") {
					fs := strings.Fields(ln)
					if len(fs) >= 3 {
						names = append(names, fs[2])
					}
				}
			}
		}
		post := f.Text[i:]
		if k := strings.Index(post, "{/template}"); k >= 0 {
			post = post[:k]
		}
		for _, ln := range strings.Split(post, "\n") {
			if strings.HasPrefix(ln, "{@param") {
				fs := strings.Fields(strings.TrimSuffix(ln, "}"))
				if len(fs) >= 2 {
					names = append(names, strings.TrimSuffix(fs[1], ":"))
				}
			}
		}
	}
	return names
}

var c06StepRe = regexp.MustCompile(`range\([^()]*,[^()]*,\s*(\$z|-1|0|-3)\s*\)`)

// c06RiskOf names the class of known non-terminating construct a source contains ("" = none)
func c06RiskOf(files []srcFile) string {
	for _, f := range files {
		if c06StepRe.MatchString(f.Text) {
			return "range-step<=0"
		}
		if c06FloatRangeRe.MatchString(f.Text) {
			return "range-float"
		}
		if strings.Contains(f.Text, "range(") && (strings.Contains(f.Text, "4611686018427387904") || strings.Contains(f.Text, "92233720368547758")) {
			return "range-overflow"
		}
	}
	return ""
}

// duplicate: a second file that defines the entry template's name again
func c06Duplicate(r *hx.Rand, files []srcFile, entry string) []srcFile {
	ns := entry[:strings.LastIndex(entry, ".")]
	short := entry[strings.LastIndex(entry, ".")+1:]
	dup := srcFile{Name: "dup.soy", Text: "{namespace " + ns + "}\n\n/** */\n{template ." + short + "}\nD\n{/template}\n"}
	if r.Bool() {
		return append(append([]srcFile{}, files...), dup) // the short file last: its source is used for the first file's nodes
	}
	return append([]srcFile{dup}, files...)
}

func c06EnumData() data.Map {
	return c06ExtraEnumData(data.Map{"n": data.Null{}, "b": data.Bool(true), "i": data.Int(7), "z": data.Int(0), "f": data.Float(1.5),
		"s": data.String("héllo <b> & 'q'"), "e": data.String(""), "l": data.List{data.Int(1), data.String("a")},
		"m": data.Map{"a": data.Int(1), "b": data.Map{"c": data.Int(2)}}})
}

var c06VarAtoms = []string{"$u", "$n", "$b", "$i", "$z", "$f", "$s", "$e", "$l", "$m", "null", "'lit'", "[]", "-1", "2"}
var c06BinOps = []string{"*", "/", "%", "+", "-", "==", "!=", ">", ">=", "<", "<=", "or", "and", "?:"}

// enumTemplates packs print-one-expression templates into bundles of at most 40.
func c06EnumBundles(tag string, bodies []string, size int) []c06Plan {
	var plans []c06Plan
	dsx := valueSexp(c06EnumData(), newIDTable())
	for off := 0; off < len(bodies); off += size {
		end := off + size
		if end > len(bodies) {
			end = len(bodies)
		}
		var sb strings.Builder
		sb.WriteString("{namespace enum}\n")
		for j, body := range bodies[off:end] {
			sb.WriteString("\n/**\n")
			seen := map[string]bool{}
			for _, v := range c06EnumVars {
				if c06UsesVar(body, v) && !seen[v] {
					seen[v] = true
					sb.WriteString(" * @param? " + v + "\n")
				}
			}
			sb.WriteString(" */\n{template .t" + strconv.Itoa(j) + "}\n" + body + "\n{/template}\n")
		}
		files := []srcFile{{Name: tag + ".soy", Text: sb.String()}}
		for j := range bodies[off:end] {
			plans = append(plans, c06Plan{c: c06Render{Kind: "render", Files: files, Template: "enum.t" + strconv.Itoa(j), Data: dsx, Tag: tag},
				risky: c06RiskOf([]srcFile{{Text: bodies[off+j]}}), nontriv: true, hasJSON: strings.Contains(bodies[off+j], "json")})
		}
	}
	return plans
}

func c06Enumerations(e *env) []c06Plan {
	var plans []c06Plan
	// binary operators x operand kinds
	var bodies []string
	for _, op := range c06BinOps {
		for _, a := range c06VarAtoms {
			for _, c := range c06VarAtoms {
				bodies = append(bodies, "{"+a+" "+op+" "+c+"}")
			}
		}
	}
	for _, a := range c06VarAtoms {
		bodies = append(bodies, "{-("+a+")}", "{not "+a+"}", "{"+a+" ? 1 : 2}", "{"+a+"}", "{css "+a+", x}",
			"{foreach $q in "+a+"}[{$q}]{ifempty}E{/foreach}", "{switch "+a+"}{case 7, 'lit'}A{case null}N{default}D{/switch}",
			"{call .t0 data=\""+strings.TrimPrefix(a, "-")+"\" /}", "{let $q: "+a+" /}{$q}{$q.a}", "{msg desc=\"\"}{plural "+a+"}{case 0}z{case 7}seven{default}d{/plural}{/msg}")
	}
	plans = append(plans, c06EnumBundles("enum-ops", bodies, 40)...)
	// functions x argument counts x kinds
	bodies = nil
	for _, fn := range c06FuncNames {
		if fn == "index" || fn == "isFirst" || fn == "isLast" {
			continue
		}
		bodies = append(bodies, "{"+fn+"()}")
		for _, a := range c06VarAtoms {
			bodies = append(bodies, "{"+fn+"("+a+")}")
		}
		two := fn == "augmentMap" || fn == "round" || fn == "min" || fn == "max" || fn == "strContains" || fn == "range"
		for _, a := range c06VarAtoms {
			for _, c := range c06VarAtoms {
				if two || e.rng.Chance(8) {
					bodies = append(bodies, "{"+fn+"("+a+", "+c+")}")
				}
			}
		}
		for k := 0; k < 30; k++ {
			bodies = append(bodies, "{"+fn+"("+e.rng.Pick(c06VarAtoms)+", "+e.rng.Pick(c06VarAtoms)+", "+e.rng.Pick(c06VarAtoms)+")}")
		}
		for k := 0; k < 4; k++ {
			bodies = append(bodies, "{"+fn+"("+e.rng.Pick(c06VarAtoms)+", "+e.rng.Pick(c06VarAtoms)+", "+e.rng.Pick(c06VarAtoms)+", "+e.rng.Pick(c06VarAtoms)+")}")
		}
	}
	for _, br := range c06BadRanges {
		bodies = append(bodies, "{foreach $q in "+br+"}{$q},{/foreach}", "{length("+br+")}")
	}
	// loop functions on the variable of an enclosing loop (the only form the compiler accepts), with extra arguments
	for _, fn := range []string{"index", "isFirst", "isLast"} {
		for _, arg := range []string{"$q", "$q, 1", "$q, $u, $l"} {
			bodies = append(bodies, "{foreach $q in $l}{"+fn+"("+arg+")}{/foreach}", "{foreach $q in [1]}{"+fn+"("+arg+")}{ifempty}E{/foreach}")
		}
		bodies = append(bodies, "{foreach $q in $l}{foreach $p in [1,2]}{"+fn+"($q)}{"+fn+"($p)}{/foreach}{/foreach}",
			"{foreach $q in $l}{let $q: 5 /}{"+fn+"($q)}{/foreach}", "{foreach $q in $l}{foreach $q in ['x']}{"+fn+"($q)}{/foreach}{"+fn+"($q)}{/foreach}")
	}
	plans = append(plans, c06EnumBundles("enum-funcs", bodies, 40)...)
	// ... and on anything else: rejected by the compiler (each in its own bundle), never a panic
	bodies = nil
	for _, fn := range []string{"index", "isFirst", "isLast"} {
		for _, arg := range []string{"$s", "$l", "$u", "1", "", "$q.a", "'q'", "$q + 1"} {
			bodies = append(bodies, "{foreach $q in $l}{"+fn+"("+arg+")}{/foreach}")
		}
		bodies = append(bodies, "{"+fn+"($l)}", "{foreach $q in $l}x{/foreach}{"+fn+"($q)}")
	}
	plans = append(plans, c06EnumBundles("enum-loopfn-rejected", bodies, 1)...)
	// directives x value kinds x arguments
	bodies = nil
	dargs := []string{"0", "1", "3", "-1", "100", "'a'", "true", "false", "null", "1.5", "$u", "$l", "$i"}
	for _, dn := range c06DirNames {
		for _, v := range []string{"$u", "$n", "$i", "$s", "$e", "$l", "$m", "$f", "'éééé'"} {
			bodies = append(bodies, "{"+v+"|"+dn+"}")
			for _, a := range dargs {
				bodies = append(bodies, "{"+v+"|"+dn+":"+a+"}")
			}
			for k := 0; k < 8; k++ {
				bodies = append(bodies, "{"+v+"|"+dn+":"+e.rng.Pick(dargs)+","+e.rng.Pick(dargs)+"}")
			}
			bodies = append(bodies, "{"+v+"|"+dn+":1,true,3}", "{"+v+"|"+dn+"|"+e.rng.Pick(c06DirNames)+"}")
		}
	}
	plans = append(plans, c06EnumBundles("enum-directives", bodies, 40)...)
	// data-bounded recursion: a tree walk and a countdown, errors deep inside nested calls
	rec := "{namespace rec}\n\n/**\n * @param? kids\n * @param? v\n */\n{template .tree}\n({$v}{foreach $k in $kids}{call .tree data=\"$k\" /}{/foreach})\n{/template}\n\n" +
		"/**\n * @param n\n * @param? bad\n */\n{template .down}\n{if $n > 0}{$n},{call .down}{param n: $n - 1 /}{param bad: $bad /}{/call}{else}{if $bad}{1 % 0}{/if}end{/if}\n{/template}\n\n" +
		"/**\n * @param n\n */\n{template .wrap}\n[{call .down data=\"all\"}{param bad: true /}{/call}]\n{/template}\n"
	files := []srcFile{{Name: "rec.soy", Text: rec}}
	ids := newIDTable()
	var tree data.Value = data.Map{"v": data.Int(0)}
	for d := 1; d <= 60; d++ {
		tree = data.Map{"v": data.Int(d), "kids": data.List{tree, data.Map{"v": data.String("leaf")}}}
		if d == 1 || d == 7 || d == 25 || d == 60 {
			plans = append(plans, c06Plan{c: c06Render{Kind: "render", Files: files, Template: "rec.tree", Data: valueSexp(tree, ids), Tag: "recursion"}, nontriv: true, depth: d + 1})
		}
	}
	// a leaf whose kids is not a list: the error is raised 20 calls deep
	var badTree data.Value = data.Map{"v": data.Int(0), "kids": data.Int(3)}
	for d := 1; d <= 20; d++ {
		badTree = data.Map{"v": data.Int(d), "kids": data.List{badTree}}
	}
	plans = append(plans, c06Plan{c: c06Render{Kind: "render", Files: files, Template: "rec.tree", Data: valueSexp(badTree, ids), Tag: "recursion"}, nontriv: true, depth: 20 + 1})
	for _, n := range []int64{0, 1, 5, 40, 150} {
		plans = append(plans, c06Plan{c: c06Render{Kind: "render", Files: files, Template: "rec.down", Data: valueSexp(data.Map{"n": data.Int(n)}, ids), Tag: "recursion"}, nontriv: true, depth: int(n) + 1})
		plans = append(plans, c06Plan{c: c06Render{Kind: "render", Files: files, Template: "rec.wrap", Data: valueSexp(data.Map{"n": data.Int(n)}, ids), Tag: "recursion"}, nontriv: true, depth: int(n) + 2})
	}
	plans = append(plans, c06Plan{c: c06Render{Kind: "render", Files: files, Template: "rec.down", Data: valueSexp(data.Map{"n": data.String("x")}, ids), Tag: "recursion"}, nontriv: true, depth: 0 + 1})
	plans = append(plans, c06Plan{c: c06Render{Kind: "render", Files: files, Template: "rec.nosuch", Data: "nil", Tag: "recursion"}, nontriv: true})
	// a long message as the very last thing of a file (its text and tag parts are the nodes with the
	// largest positions), with an error raised at every Write call in turn and inside its placeholders
	msgTail := "{namespace m}\n\n/**\n * @param? u\n * @param? i\n */\n{template .t}\nhead{msg desc=\"d\"}Hello <a href=\"x\">dear {$i}</a>, you have <b>{$i + 1}</b> new <i>items</i> and some trailing text that is rather long {$u}<br/>the end{/msg}{/template}"
	msgPlural := "{namespace m}\n\n/**\n * @param? u\n * @param? i\n */\n{template .t}\n{msg desc=\"d\"}{plural $u}{case 1}one <b>item</b>{default}{$i} <i>items</i> of many{/plural}{/msg}{/template}"
	for k := 0; k <= 14; k++ {
		plans = append(plans, c06Plan{c: c06Render{Kind: "render", Files: []srcFile{{Name: "tail.soy", Text: msgTail}}, Template: "m.t", Data: valueSexp(data.Map{"i": data.Int(3), "u": data.String("x")}, ids), FailAt: k, Tag: "msg-tail"}, nontriv: true})
		plans = append(plans, c06Plan{c: c06Render{Kind: "render", Files: []srcFile{{Name: "tail.soy", Text: msgTail}}, Template: "m.t", Data: valueSexp(data.Map{"i": data.Int(3)}, ids), FailAt: k, Tag: "msg-tail"}, nontriv: true})
		plans = append(plans, c06Plan{c: c06Render{Kind: "render", Files: []srcFile{{Name: "tail.soy", Text: msgPlural}}, Template: "m.t", Data: valueSexp(data.Map{"i": data.Int(3), "u": data.Int(int64(k % 3))}, ids), FailAt: k / 3, Tag: "msg-tail"}, nontriv: true})
	}
	plans = append(plans, c06Plan{c: c06Render{Kind: "render", Files: []srcFile{{Name: "tail.soy", Text: msgPlural}}, Template: "m.t", Data: valueSexp(data.Map{"i": data.Int(3), "u": data.String("two")}, ids), Tag: "msg-tail"}, nontriv: true})
	plans = append(plans, c06EnumBundles("enum-floats", c06FloatBodies(), 40)...)
	plans = append(plans, c06SameNamePlans()...)
	plans = append(plans, c06JsonPlans()...)
	plans = append(plans, c06UserPlans()...)
	// duplicate template names: the ledger's witness, both file orders, error in the long and in the short file
	long := "{namespace a}\n" + strings.Repeat("// padding padding padding\n", 10) + "/** */\n{template .t}\n{1 < 'a'}\n{/template}\n"
	short := "{namespace a}\n/** */\n{template .t}\nx{1 % 0}\n{/template}\n"
	for _, fs := range [][]srcFile{{{Name: "long.soy", Text: long}, {Name: "short.soy", Text: short}}, {{Name: "short.soy", Text: short}, {Name: "long.soy", Text: long}}} {
		plans = append(plans, c06Plan{c: c06Render{Kind: "render", Files: fs, Template: "a.t", Data: "nil", Tag: "duplicate-names"}, nontriv: true})
	}
	return plans
}

func c06Renders(e *env, perCase time.Duration) {
	var plans []c06Plan
	plans = append(plans, c06Enumerations(e)...)
	// ---- the random ill-typed stream ----
	n := 100 * e.scale
	for i := 0; i < n; i++ {
		o := progOpts{depth: 3, directives: true, illTyped: 12, exprHook: c06ExprHook, dirHook: c06DirHook}
		files, entry, dataSets, feats := genBundle(e.rng, o)
		tag := "random"
		if e.rng.Chance(15) {
			files = c06Duplicate(e.rng, files, entry)
			tag = "random-duplicate"
		}
		if len(files) > 1 && e.rng.Chance(25) {
			// all inputs under one name (the name is optional)
			nm := e.rng.Pick([]string{"", "x.soy"})
			fs := append([]srcFile{}, files...)
			for j := range fs {
				fs[j].Name = nm
			}
			files = fs
			tag += "-samename"
		}
		ids := newIDTable()
		risky := c06RiskOf(files)
		nontriv := false
		for f := range feats {
			if strings.HasPrefix(f, "ill:") || f == "call" || f == "foreach" {
				nontriv = true
			}
			e.res.Histogram["feat:"+f]++
		}
		hasJSON := false
		for _, f := range files {
			if strings.Contains(f.Text, "json") {
				hasJSON = true
			}
		}
		params := paramNamesOf(files, entry)
		var ds []string
		ds = append(ds, valueSexp(dataSets[0], ids))
		ds = append(ds, valueSexp(c06AnyData(e.rng, params), ids), valueSexp(c06AnyData(e.rng, params), ids))
		if e.rng.Chance(50) {
			ds = append(ds, "nil")
		}
		for _, d := range ds {
			ij := ""
			if e.rng.Bool() {
				ij = valueSexp(data.Map{"foo": c06JSON(e.rng, 1), "a": c06JSON(e.rng, 2), "list": data.List{c06JSON(e.rng, 1)}, "n": data.Int(int64(e.rng.Intn(5)))}, ids)
			}
			failAt := 0
			if e.rng.Chance(25) {
				failAt = 1 + e.rng.Intn(12)
			}
			plans = append(plans, c06Plan{c: c06Render{Kind: "render", Files: files, Template: entry, Data: d, Ij: ij, FailAt: failAt, Tag: tag}, risky: risky, nontriv: nontriv, hasJSON: hasJSON})
		}
	}
	c06RunRenderPlans(e, plans, perCase)
}

func c06CompileReg(files []srcFile) (rg *template.Registry, err error) {
	defer func() {
		if x := recover(); x != nil {
			err = fmt.Errorf("PANIC: %v", x)
		}
	}()
	b := soy.NewBundle()
	for _, f := range files {
		b.AddTemplateString(f.Name, f.Text)
	}
	return b.Compile()
}

func c06RunRenderPlans(e *env, plans []c06Plan, perCase time.Duration) {
	// ---- parent: compile for the model (the registry is loaded in the model's request
	// stream right before its renders, under one key, so that the model keeps one at a time) ----
	regSexp := map[string]string{}
	for i := range plans {
		key := fmt.Sprint(plans[i].c.Files)
		sx, seen := regSexp[key]
		if !seen {
			sx = ""
			rg, err := c06CompileReg(plans[i].c.Files)
			if err == nil {
				sx = registrySexp(rg, newIDTable())
			} else if isPanicErr(err) {
				e.res.Fail(hx.Violation{Kind: "oracle", What: "panic escaped Bundle.Compile", Case: plans[i].c, Observed: err.Error()}, "")
			}
			regSexp[key] = sx
		}
		if sx != "" {
			plans[i].reg = key
		}
	}
	// ---- implementation, in workers ----
	cases := make([]c06Render, len(plans))
	risky := make([]string, len(plans))
	for i, p := range plans {
		cases[i] = p.c
		risky[i] = p.risky
	}
	res := c06Run(e, "c06render", len(cases), c06MarshalRenders(cases), perCase, risky)
	// ---- model ----
	var reqs []string
	reqIx := make([]int, len(plans))
	depthIx := map[int]int{}
	var regOkIx, regOkCase []int
	loaded := ""
	for i, p := range plans {
		reqIx[i] = -1
		if p.reg == "" {
			continue
		}
		if p.reg != loaded {
			reqs = append(reqs, "load_registry c06 "+regSexp[p.reg])
			regOkIx = append(regOkIx, len(reqs))
			regOkCase = append(regOkCase, i)
			reqs = append(reqs, "c06_reg_ok c06")
			loaded = p.reg
		}
		d := p.c.Data
		if d == "nil" {
			d = "vnull"
		}
		ij := p.c.Ij
		if ij == "" {
			ij = "none"
		}
		reqIx[i] = len(reqs)
		cl := "none"
		if p.c.FailAt > 0 {
			cl = "#" + strconv.Itoa(p.c.FailAt-1)
		}
		// the extended model (Model/InterpExt.v: escapeJsString, json and round with digits inside the model)
		op := "render_xj"
		if p.user {
			op = "c06_render_user"
		}
		reqs = append(reqs, strings.Join([]string{op, "c06", sx(p.c.Template), c06Fuel, cl, "none", "-", ij, ";", d}, " "))
		if p.depth > 0 && p.c.FailAt == 0 {
			// the quantitative bound: fuel = reg_height * (d+1), the d-capped and the (d-1)-capped walk
			depthIx[i] = len(reqs)
			reqs = append(reqs, strings.Join([]string{"c06_depth", "c06", sx(p.c.Template), "#" + strconv.Itoa(p.depth-1), ij, ";", d}, " "))
		}
	}
	if d := os.Getenv("C06_DUMP"); d != "" {
		os.WriteFile(d, []byte(strings.Join(reqs, "\n")+"\n"), 0o644)
	}
	resp := e.m.Batch(reqs)
	// ---- the hypothesis of render_no_escape holds of every registry the compiler built ----
	for k, ix := range regOkIx {
		e.res.Histogram["reg_ok-checked"]++
		if r := resp[ix]; len(r) != 1 || r[0] != "#1" {
			e.res.Fail(hx.Violation{Kind: "mismatch", What: "a compiled registry does not satisfy reg_ok (unique names, sources and files recorded, node positions inside the source): the premise of C06_render_no_escape fails on a bundle the compiler accepted",
				Case: plans[regOkCase[k]].c, Observed: fmt.Sprint(r)}, "")
		}
	}
	// ---- compare ----
	for i, p := range plans {
		r := res[i]
		key := fmt.Sprint(p.c.Files) + p.c.Template + p.c.Data + p.c.Ij + strconv.Itoa(p.c.FailAt)
		cls, fields := "", []string(nil)
		if r.Status == "done" {
			fields = strings.Fields(r.Out)
			if len(fields) > 0 {
				cls = fields[0]
			}
		}
		e.res.Count(key, p.nontriv, "render:"+p.c.Tag)
		e.res.Histogram["impl:"+r.Status+":"+cls]++
		if i%97 == 0 {
			e.res.Sample(map[string]interface{}{"case": p.c, "impl": r.Status + " " + tail(r.Out, 200)})
		}
		switch {
		case r.Status == "skipped":
			continue
		case r.Status == "hang":
			e.res.Fail(hx.Violation{Kind: "oracle", What: "Render does not return (no result within the timeout, confirmed alone with twice the timeout)", Case: p.c, Observed: "hang"}, "")
			continue
		case r.Status == "fatal":
			e.res.Fail(hx.Violation{Kind: "oracle", What: "Render kills the process (fatal error: memory exhausted or stack overflow)", Case: p.c, Observed: r.Stderr}, "")
			continue
		case r.Status != "done" || cls == "badcase" || cls == "":
			e.res.Fail(hx.Violation{Kind: "mismatch", What: "harness: worker returned no result", Case: p.c, Observed: r.Status + " " + r.Out}, "")
			continue
		case cls == "cpanic":
			e.res.Fail(hx.Violation{Kind: "oracle", What: "panic escaped Bundle.Compile", Case: p.c, Observed: hx.UnH(fields[1])}, "")
			continue
		case cls == "panic":
			e.res.Fail(hx.Violation{Kind: "oracle", What: "panic escaped Render", Case: p.c, Observed: hx.UnH(fields[2])}, "")
			continue
		case cls == "cerror":
			e.res.Histogram["compile-rejected:"+p.c.Tag]++
			if os.Getenv("C06_CERR") != "" {
				fmt.Fprintln(os.Stderr, "CERR", p.c.Tag, hx.UnH(fields[1]))
			}
			continue
		}
		if reqIx[i] < 0 {
			continue
		}
		m := resp[reqIx[i]]
		if len(m) < 5 {
			e.res.Fail(hx.Violation{Kind: "mismatch", What: "model render failed", Case: p.c, Observed: fmt.Sprint(m)}, "")
			continue
		}
		if ix, ok := depthIx[i]; ok {
			c06CheckDepth(e, p, resp[ix])
		}
		mcls := strings.Split(m[0], ",")[0]
		var mo strings.Builder
		for _, f := range m[5:] {
			mo.WriteString(hx.UnH(f))
		}
		e.res.Histogram["model:"+mcls]++
		out := hx.UnH(fields[1])
		switch mcls {
		case "outofmodel", "fuel":
			// floats outside the dyadic domain, randomInt: only the oracle applies
			if p.hasJSON {
				e.res.Histogram["model:outofmodel-with-json-or-escapeJsString"]++
			}
		case "ok":
			if p.hasJSON {
				e.res.Histogram["model:ok-with-json-or-escapeJsString"]++
			}
			if cls != "ok" {
				e.res.Fail(hx.Violation{Kind: "mismatch", What: "implementation returns an error, the model renders", Case: p.c, Expected: hx.Q(mo.String()), Observed: hx.UnH(fields[2])}, "")
			} else if mo.String() != out && c06HugeFloatToInt(c06TemplateBody(p.c.Files, p.c.Template)) {
				// Go's conversion of a float outside the int64 range is implementation-defined; the model wraps
				e.res.Histogram["skipped:float-to-int-out-of-range"]++
			} else if mo.String() != out {
				e.res.Fail(hx.Violation{Kind: "mismatch", What: "rendered output differs from the model", Case: p.c, Expected: hx.Q(mo.String()), Observed: hx.Q(out)}, "")
			}
		case "err":
			if cls != "error" {
				e.res.Fail(hx.Violation{Kind: "mismatch", What: "the model reports a render error, the implementation renders", Case: p.c, Expected: "error: " + m[0], Observed: hx.Q(out)}, "")
			}
		default: // crash, diverge
			e.res.Fail(hx.Violation{Kind: "mismatch", What: "the model predicts " + m[0] + " but the implementation returned normally", Case: p.c, Observed: cls + " " + hx.Q(out)}, "")
		}
	}
}

// ---------------------------------------------------------------------------
// EvalExpr

var c06LitAtoms = []string{"null", "true", "7", "0", "1.5", "'a'", "''", "[1, 'a']", "['a': 1]", "$x", "-1", "$ij.a", "[]"}

func c06ExprTexts(e *env) []c06Expr {
	var cs []c06Expr
	add := func(tag, t string) { cs = append(cs, c06Expr{Kind: "expr", Text: t, Tag: tag}) }
	for _, op := range c06BinOps {
		for _, a := range c06LitAtoms {
			for _, c := range c06LitAtoms {
				add("binop", a+" "+op+" "+c)
			}
		}
	}
	for _, a := range c06LitAtoms {
		add("unary", "-"+a)
		add("unary", "not "+a)
		add("ternary", a+" ? 1 : 'x'")
		add("atom", a)
		add("access", a+"[0]")
		add("access", "$x?.a")
		for _, fn := range c06FuncNames {
			add("func", fn+"("+a+")")
			add("func", fn+"("+a+", "+e.rng.Pick(c06LitAtoms)+")")
		}
	}
	for _, fn := range c06FuncNames {
		add("func", fn+"()")
		add("func", fn+"(1, 2, 3)")
		add("func", fn+"(1, 2, 3, 4)")
	}
	for _, br := range c06BadRanges {
		if c06RiskOf([]srcFile{{Text: br}}) == "" {
			add("range", br)
		} else {
			add("range-risky", br)
		}
	}
	add("ledger", "1 < 'a'")
	add("ledger", "-'x'")
	c06ExtraExprs(e, add)
	c06RangeGrid(add)
	// random closed expressions from the program grammar with the ill-typed hooks
	g := &progGen{r: e.rng, o: progOpts{depth: 3, illTyped: 20, exprHook: c06ExprHook}, feats: map[string]int{}}
	for i := 0; i < 150*e.scale; i++ {
		t := g.expr(genv{}, kind(e.rng.Intn(int(kNull)+1)), 3)
		if c06RiskOf([]srcFile{{Text: t}}) != "" {
			add("range-risky", t)
		} else {
			add("random", t)
		}
	}
	return cs
}

func c06Exprs(e *env, perCase time.Duration) {
	cs := c06ExprTexts(e)
	risky := make([]string, len(cs))
	for i, c := range cs {
		if c.Tag == "range-risky" {
			risky[i] = c06RiskOf([]srcFile{{Text: c.Text}})
			if risky[i] == "" {
				risky[i] = "range-float"
			}
		}
	}
	res := c06Run(e, "c06expr", len(cs), func(idx []int) []byte {
		sub := make([]c06Expr, len(idx))
		for k, i := range idx {
			sub[k] = cs[i]
		}
		bs, _ := json.Marshal(sub)
		return bs
	}, perCase, risky)
	var reqs []string
	reqIx := make([]int, len(cs))
	for i := range cs {
		reqIx[i] = -1
		f := strings.Fields(res[i].Out)
		if res[i].Status == "done" && len(f) >= 2 && (f[0] == "ok" || f[0] == "error" || f[0] == "panic") {
			reqIx[i] = len(reqs)
			reqs = append(reqs, "c06_eval #1 "+c06Fuel+" "+hx.UnH(f[1]))
		}
	}
	// the byte-string model: the text itself goes to the scanner and parser models
	bytesIx := make([]int, len(cs))
	for i := range cs {
		bytesIx[i] = -1
		f := strings.Fields(res[i].Out)
		if res[i].Status == "done" && len(f) >= 1 && (f[0] == "ok" || f[0] == "error" || f[0] == "perr") && len(cs[i].Text) <= c06BytesMax {
			bytesIx[i] = len(reqs)
			reqs = append(reqs, "c06_eval_bytes "+c06Fuel+" "+hx.H(cs[i].Text))
		}
	}
	resp := e.m.Batch(reqs)
	for i, c := range cs {
		r := res[i]
		f := strings.Fields(r.Out)
		cls := ""
		if len(f) > 0 {
			cls = f[0]
		}
		if bytesIx[i] >= 0 {
			icls, ival := cls, ""
			if cls == "perr" {
				icls = "error"
			}
			if len(f) >= 3 {
				ival = hx.UnH(f[2])
			}
			c06CompareBytes(e, "EvalExpr", c, icls, ival, resp[bytesIx[i]], func(s string) string { return canonIDs(s, 1) }, c06HugeFloatToInt(c.Text))
		}
		e.res.Count("expr:"+c.Text, true, "evalexpr:"+c.Tag)
		e.res.Histogram["evalexpr-impl:"+r.Status+":"+cls]++
		if i%401 == 0 {
			e.res.Sample(map[string]interface{}{"case": c, "impl": r.Status + " " + cls})
		}
		switch {
		case r.Status == "skipped":
			continue
		case r.Status == "hang":
			e.res.Fail(hx.Violation{Kind: "oracle", What: "EvalExpr does not return", Case: c, Observed: "hang"}, "")
			continue
		case r.Status == "fatal":
			e.res.Fail(hx.Violation{Kind: "oracle", What: "EvalExpr kills the process", Case: c, Observed: r.Stderr}, "")
			continue
		case r.Status != "done" || cls == "":
			e.res.Fail(hx.Violation{Kind: "mismatch", What: "harness: worker returned no result", Case: c, Observed: r.Status}, "")
			continue
		case cls == "perr":
			continue
		case cls == "ppanic":
			e.res.Fail(hx.Violation{Kind: "oracle", What: "panic escaped parse.Expr", Case: c, Observed: hx.UnH(f[1])}, "")
			continue
		case cls == "panic":
			e.res.Fail(hx.Violation{Kind: "oracle", What: "panic escaped soyhtml.EvalExpr", Case: c, Observed: hx.UnH(f[2])}, "")
			continue
		}
		if reqIx[i] < 0 {
			continue
		}
		m := resp[reqIx[i]]
		if len(m) == 0 || strings.HasPrefix(m[0], "!") {
			e.res.Fail(hx.Violation{Kind: "mismatch", What: "model eval failed", Case: c, Observed: fmt.Sprint(m)}, "")
			continue
		}
		e.res.Histogram["evalexpr-model:"+m[0]]++
		switch m[0] {
		case "outofmodel", "fuel":
		case "ok":
			if cls != "ok" {
				e.res.Fail(hx.Violation{Kind: "mismatch", What: "EvalExpr returns an error, the model a value", Case: c, Expected: strings.Join(m[1:], " "), Observed: hx.UnH(f[2])}, "")
			} else if got, want := canonIDs(hx.UnH(f[2]), 1), canonIDs(strings.Join(m[1:], " "), 1); got != want && c06HugeFloatToInt(c.Text) {
				e.res.Histogram["skipped:float-to-int-out-of-range"]++
			} else if got != want {
				e.res.Fail(hx.Violation{Kind: "mismatch", What: "EvalExpr's value differs from the model", Case: c, Expected: want, Observed: got}, "")
			}
		case "err":
			if cls != "error" {
				e.res.Fail(hx.Violation{Kind: "mismatch", What: "the model reports an error, EvalExpr returns a value", Case: c, Expected: m[0], Observed: hx.UnH(f[2])}, "")
			}
		default:
			e.res.Fail(hx.Violation{Kind: "mismatch", What: "the model predicts " + m[0] + " but EvalExpr returned normally", Case: c, Observed: cls}, "")
		}
	}
}

// ---------------------------------------------------------------------------
// ParseGlobals

func c06GlobInputs(e *env) []c06Glob {
	var cs []c06Glob
	add := func(tag, in string) { cs = append(cs, c06Glob{Kind: "globals", Input: in, Tag: tag}) }
	rhsOK := []string{"1", "'str'", "true", "null", "1.5", "-3", "1 + 2", "'a' + 'b'", "[1, 2]", "['k': 'v']", "$x", "0x1F", "not true", "(1 + 2) * 3", "'=' + 'x=y'"}
	rhsErr := []string{"-'x'", "1 < 'a'", "$ij.foo", "nosuch(1)", "isFirst($x)", "1 % 0", "length(1)", "range(0, 5, 0 + 0 * 1) ? 1 : 2", "1 +", "", "'unterminated", "$x.y", "keys(1)", "1 2 3", "round('a')", "[1][0]"}
	ws := []string{"", " ", "  ", "\t", " ", "\u0085", " ", "　", " \t ", "\v", "\f"}
	for i := 0; i < 220*e.scale; i++ {
		var sb strings.Builder
		nl := 1 + e.rng.Intn(6)
		for j := 0; j < nl; j++ {
			eol := "\n"
			if e.rng.Chance(20) {
				eol = "\r\n"
			}
			if j == nl-1 && e.rng.Chance(30) {
				eol = ""
				if e.rng.Chance(30) {
					eol = "\r"
				}
			}
			switch k := e.rng.Intn(12); {
			case k == 0:
				sb.WriteString("// comment = 1" + eol)
			case k == 1:
				sb.WriteString(eol)
			case k == 2 && e.rng.Chance(40):
				sb.WriteString(e.rng.Pick([]string{"no equals here", " // indented comment", "\t", "name"}) + eol)
			case k < 5:
				sb.WriteString(e.rng.Pick(ws) + "g" + strconv.Itoa(j) + e.rng.Pick(ws) + "=" + e.rng.Pick(ws) + e.rng.Pick(rhsErr) + e.rng.Pick(ws) + eol)
			default:
				name := e.rng.Pick([]string{"a", "b.c", "GLOBAL_" + strconv.Itoa(j), "a", "x y", ""})
				sb.WriteString(e.rng.Pick(ws) + name + e.rng.Pick(ws) + "=" + e.rng.Pick(ws) + e.rng.Pick(rhsOK) + e.rng.Pick(ws) + eol)
			}
		}
		add("random", sb.String())
	}
	for _, r := range rhsErr {
		add("erroring", "a = 1\nb = "+r+"\nc = 3\n")
	}
	add("ledger", "a = -'x'\n")
	c06ExtraGlobs(e, add)
	add("empty", "")
	add("empty", "\n\n\r\n")
	// the scanner's 64 KiB token limit, on both sides of the boundary, terminated and not
	for _, n := range []int{65533, 65534, 65535, 65536, 65537, 70000} {
		pad := strings.Repeat(" ", n-len("a = 1"))
		add("long-line", "a ="+pad+" 1\nb = 2\n")
		add("long-line", "b = 2\na ="+pad+" 1")
		add("long-line", "//"+strings.Repeat("x", n-2)+"\nb = 2\n")
		add("long-line", "a ="+pad[1:]+" 1\r\n")
	}
	return cs
}

func c06Globals(e *env, perCase time.Duration) {
	cs := c06GlobInputs(e)
	res := c06Run(e, "c06glob", len(cs), func(idx []int) []byte {
		sub := make([]c06Glob, len(idx))
		for k, i := range idx {
			sub[k] = cs[i]
		}
		bs, _ := json.Marshal(sub)
		return bs
	}, perCase, nil)
	var reqs []string
	reqIx := make([]int, len(cs))
	for i := range cs {
		reqIx[i] = -1
		if res[i].Status != "done" {
			continue
		}
		parts := strings.SplitN(res[i].Out, " | ", 2)
		table := ""
		if len(parts) == 2 {
			table = " | " + parts[1]
		}
		reqIx[i] = len(reqs)
		reqs = append(reqs, "c06_globals "+c06Fuel+" "+hx.H(cs[i].Input)+table)
	}
	// the byte-string model: no parse table, the right-hand sides go to the scanner and parser models
	bytesIx := make([]int, len(cs))
	for i := range cs {
		bytesIx[i] = -1
		if res[i].Status == "done" && len(cs[i].Input) <= c06BytesMax {
			bytesIx[i] = len(reqs)
			reqs = append(reqs, "c06_globals_bytes "+c06Fuel+" "+hx.H(cs[i].Input))
		}
	}
	resp := e.m.Batch(reqs)
	for i, c := range cs {
		r := res[i]
		short := c
		if len(short.Input) > 300 {
			short.Input = short.Input[:120] + fmt.Sprintf("...(%d bytes)...", len(c.Input)) + short.Input[len(short.Input)-60:]
		}
		head := strings.Fields(strings.SplitN(r.Out, " | ", 2)[0])
		cls := ""
		if len(head) > 0 {
			cls = head[0]
		}
		e.res.Count("glob:"+c.Input, true, "globals:"+c.Tag)
		e.res.Histogram["globals-impl:"+r.Status+":"+cls]++
		if i%131 == 0 {
			e.res.Sample(map[string]interface{}{"case": short, "impl": r.Status + " " + cls})
		}
		switch {
		case r.Status == "skipped":
			continue
		case r.Status == "hang":
			e.res.Fail(hx.Violation{Kind: "oracle", What: "ParseGlobals does not return", Case: c, Observed: "hang"}, "")
			continue
		case r.Status == "fatal":
			e.res.Fail(hx.Violation{Kind: "oracle", What: "ParseGlobals kills the process", Case: c, Observed: r.Stderr}, "")
			continue
		case r.Status != "done" || cls == "":
			e.res.Fail(hx.Violation{Kind: "mismatch", What: "harness: worker returned no result", Case: short, Observed: r.Status}, "")
			continue
		case cls == "panic":
			e.res.Fail(hx.Violation{Kind: "oracle", What: "panic escaped soy.ParseGlobals", Case: c, Observed: hx.UnH(head[1])}, "")
			continue
		}
		if bytesIx[i] >= 0 && (cls == "ok" || cls == "error") {
			ival := ""
			if len(head) >= 2 {
				ival = hx.UnH(head[1])
			}
			c06CompareBytes(e, "ParseGlobals", short, cls, ival, resp[bytesIx[i]],
				func(s string) string { return c06GlobCanon(c06VmToPairs(s)) }, false)
		}
		m := resp[reqIx[i]]
		if len(m) == 0 || strings.HasPrefix(m[0], "!") {
			e.res.Fail(hx.Violation{Kind: "mismatch", What: "model parse_globals failed (line splitting / trimming disagrees with the library?)", Case: short, Observed: fmt.Sprint(m)}, "")
			continue
		}
		e.res.Histogram["globals-model:"+m[0]]++
		switch m[0] {
		case "outofmodel", "fuel":
		case "ok":
			if cls != "ok" {
				e.res.Fail(hx.Violation{Kind: "mismatch", What: "ParseGlobals returns an error, the model a map", Case: short, Expected: strings.Join(m[1:], " "), Observed: hx.UnH(head[1])}, "")
			} else {
				// compare key by key: the model prints ((xkey value) ...), Go side a vm sexp
				want := c06GlobCanon(strings.Join(m[1:], " "))
				got := c06GlobCanon(c06VmToPairs(hx.UnH(head[1])))
				if want != got {
					e.res.Fail(hx.Violation{Kind: "mismatch", What: "ParseGlobals' map differs from the model", Case: short, Expected: want, Observed: got}, "")
				}
			}
		case "err":
			if cls != "error" {
				e.res.Fail(hx.Violation{Kind: "mismatch", What: "the model reports an error, ParseGlobals returns a map", Case: short, Expected: m[0], Observed: hx.UnH(head[1])}, "")
			}
		default:
			e.res.Fail(hx.Violation{Kind: "mismatch", What: "the model predicts " + m[0] + " but ParseGlobals returned normally", Case: short, Observed: cls}, "")
		}
	}
}

// "(vm 5 (xk v) (xk v))" -> "((xk v) (xk v))"
func c06VmToPairs(s string) string {
	s = strings.TrimSpace(s)
	if !strings.HasPrefix(s, "(vm ") {
		return s
	}
	rest := s[4:]
	sp := strings.IndexAny(rest, " )")
	if sp < 0 {
		return s
	}
	return "(" + strings.TrimSpace(rest[sp:])
}

// identities of the collections are not compared: every EvalExpr call of the model numbers
// its fresh lists and maps from the same start, so two lines' values may share a number
var c06IDRe = regexp.MustCompile(`\((vl|vm) \d+`)

func c06GlobCanon(s string) string {
	return c06IDRe.ReplaceAllString(strings.Join(strings.Fields(s), " "), "($1 _")
}

// ---------------------------------------------------------------------------
// the range loop itself: model of the repaired loop against the real funcRange
// through EvalExpr/Render is covered above; here the model's own consistency
// (repaired loop = Interp's range_list as Render uses it) on boundary triples.

func c06Ranges(e *env) {
	vals := []int64{-9223372036854775808, -9223372036854775807, -5, -1, 0, 1, 2, 3, 7, 9223372036854775800, 9223372036854775806, 9223372036854775807}
	steps := []int64{1, 2, 3, 5, 4611686018427387904, 9223372036854775807, 0, -1, -9223372036854775808}
	var reqs []string
	type tr struct{ i, l, s int64 }
	var trs []tr
	for _, i := range vals {
		for _, l := range vals {
			for _, s := range steps {
				// keep the exact result short: at most 40 elements
				if s > 0 && l > i {
					span := float64(l) - float64(i)
					if span/float64(s) > 40 {
						continue
					}
				}
				trs = append(trs, tr{i, l, s})
				reqs = append(reqs, fmt.Sprintf("c06_range #%d #%d #%d", i, l, s))
			}
		}
	}
	resp := e.m.Batch(reqs)
	for k, t := range trs {
		m := resp[k]
		e.res.Count(fmt.Sprint("range:", t), true, "range-model")
		// the exact list over the integers
		var want []string
		if t.s > 0 {
			x := float64(0)
			_ = x
			for idx, cnt := t.i, 0; idx < t.l && cnt < 50; cnt++ {
				want = append(want, "#"+strconv.FormatInt(idx, 10))
				if idx > 9223372036854775807-t.s {
					break
				}
				idx += t.s
			}
		}
		switch {
		case t.s <= 0:
			if len(m) == 0 || m[0] != "err" {
				e.res.Fail(hx.Violation{Kind: "mismatch", What: "model range: step <= 0 must be an error", Case: t, Observed: fmt.Sprint(m)}, "")
			}
		case len(m) < 2 || m[0] != "ok":
			e.res.Fail(hx.Violation{Kind: "mismatch", What: "model range: positive step must return", Case: t, Observed: fmt.Sprint(m)}, "")
		default:
			if strings.Join(m[2:], " ") != strings.Join(want, " ") {
				e.res.Fail(hx.Violation{Kind: "mismatch", What: "model range differs from the exact integer list", Case: fmt.Sprint(t), Expected: strings.Join(want, " "), Observed: strings.Join(m[2:], " ")}, "")
			}
		}
	}
}

// ---------------------------------------------------------------------------
// replay

func c06Replay(e *env) {
	bs, err := os.ReadFile(e.replay)
	if err != nil {
		e.res.Note("cannot read replay file: %v", err)
		return
	}
	var rp struct {
		Case json.RawMessage `json:"case"`
	}
	if err := json.Unmarshal(bs, &rp); err != nil {
		e.res.Note("cannot parse replay file: %v", err)
		return
	}
	var k struct {
		Kind string `json:"kind"`
	}
	json.Unmarshal(rp.Case, &k)
	perCase := 4 * time.Second
	switch k.Kind {
	case "render":
		var c c06Render
		json.Unmarshal(rp.Case, &c)
		c06RunRenderPlans(e, []c06Plan{{c: c, nontriv: true, hasJSON: strings.Contains(fmt.Sprint(c.Files), "json")}}, perCase)
	case "expr":
		var c c06Expr
		json.Unmarshal(rp.Case, &c)
		c06ReplayExpr(e, c, perCase)
	case "globals":
		var c c06Glob
		json.Unmarshal(rp.Case, &c)
		c06ReplayGlob(e, c, perCase)
	case "jswrite":
		var c c06JsCase
		json.Unmarshal(rp.Case, &c)
		c06ReplayJs(e, c, perCase)
	default:
		e.res.Note("replay file has no C06 case")
	}
}

func c06ReplayExpr(e *env, c c06Expr, perCase time.Duration) {
	res := c06Run(e, "c06expr", 1, func([]int) []byte { bs, _ := json.Marshal([]c06Expr{c}); return bs }, perCase, nil)
	e.res.Count("expr:"+c.Text, true, "evalexpr:replay")
	f := strings.Fields(res[0].Out)
	switch {
	case res[0].Status != "done":
		e.res.Fail(hx.Violation{Kind: "oracle", What: "EvalExpr does not return normally", Case: c, Observed: res[0].Status + " " + res[0].Stderr}, "")
	case len(f) > 0 && (f[0] == "panic" || f[0] == "ppanic"):
		e.res.Fail(hx.Violation{Kind: "oracle", What: "panic escaped soyhtml.EvalExpr", Case: c, Observed: hx.UnH(f[len(f)-1])}, "")
	}
}

func c06ReplayGlob(e *env, c c06Glob, perCase time.Duration) {
	res := c06Run(e, "c06glob", 1, func([]int) []byte { bs, _ := json.Marshal([]c06Glob{c}); return bs }, perCase, nil)
	e.res.Count("glob:"+c.Input, true, "globals:replay")
	f := strings.Fields(res[0].Out)
	switch {
	case res[0].Status != "done":
		e.res.Fail(hx.Violation{Kind: "oracle", What: "ParseGlobals does not return normally", Case: c, Observed: res[0].Status + " " + res[0].Stderr}, "")
	case len(f) > 0 && f[0] == "panic":
		e.res.Fail(hx.Violation{Kind: "oracle", What: "panic escaped soy.ParseGlobals", Case: c, Observed: hx.UnH(f[1])}, "")
	}
}
