//go:build c13

package main

// C13 — compilation and code generation are deterministic functions of the
// sources.
//
// Every generated bundle (program generator of gen_prog.go plus library files,
// an "extras" file -- several imports, directives and functions for the ES6
// import block, messages with colliding placeholder base names, map literals,
// globals of every shape (maps, lists, nested) added through AddGlobalsMap or a
// globals file, templates with header params with and without a soydoc that
// pass params on with data="all" -- zero to two more files of messages whose
// print placeholders and plural selectors share one pool of expressions; and
// optionally one to three independent errors spread over the files, globals
// maps that redefine names) is
//   - compiled and emitted c13Reps times in this process (Go randomises map
//     iteration per loop, so repetitions explore different internal orders),
//     alternating between a NEW bundle and calling Compile AGAIN on the same
//     *soy.Bundle object (also after a failed Compile); one new bundle is first
//     compiled with CompileToTofu and rendered through that Tofu,
//   - compiled once under every other permutation of the file insertion order
//     (<= 4 files: exhaustive) and compared with the first order,
//   - compiled in fresh processes: the first and one other order in two worker
//     processes per batch (the second runs the batch in reverse), and for
//     bundles with messages in several files each such file in front, every
//     order in a process of its own (one compilation per process),
//   - for the ES5 and ES6 formatters, with and without a message bundle.
// Projection (the observables of the statement): Bundle.Compile's error text;
// for accepted bundles the exact bytes of every file's JavaScript (4
// configurations), every message's id, placeholder names and
// PlaceholderString, and the rendered output of every template (with and
// without the message bundle).  Render and soyjs.Write error *texts* are not
// compared (only whether there was an error, and the bytes written before it).
// oracle: (1) all repetitions and processes of one file order agree on
// everything; (2) all file orders agree on accept/reject; accepted: on
// everything (per file / per template / per message); rejected: the error text
// of every order is one of the texts obtained with each ordered pair of files
// in front ("which of several independent errors is reported first").
// correspondence (c13model.go): accept/reject, error class and unit, template
// lookup, message ids/names and the ES6 import block equal Model/Compile.v's.

import (
	"bytes"
	"context"
	"crypto/sha256"
	"encoding/hex"
	"encoding/json"
	"fmt"
	"os"
	"os/exec"
	"runtime/debug"
	"sort"
	"strings"
	"time"

	"github.com/robfig/soy"
	"github.com/robfig/soy/ast"
	"github.com/robfig/soy/data"
	"github.com/robfig/soy/soyhtml"
	"github.com/robfig/soy/soyjs"
	"github.com/robfig/soy/soymsg"
	"github.com/robfig/soy/template"
	"soyverif/internal/hx"
)

func init() {
	props["C13"] = runC13
	workers["c13"] = c13Worker
}

const c13Reps = 12
const c13Bundles = 500

var c13ES6 = soyjs.Options{Formatter: soyjs.ES6Formatter{}}

// ---------- cases ----------

type c13Global struct {
	Name string `json:"name"`
	Lit  string `json:"lit"` // Soy literal
}

type c13Case struct {
	Files   []srcFile     `json:"files"`
	Globals [][]c13Global `json:"globals"` // one Go map per AddGlobalsMap call
	// GlobalsFile[i]: group i is written to a globals file and added with
	// AddGlobalsFile (otherwise: ParseGlobals + AddGlobalsMap)
	GlobalsFile []bool   `json:"globals_file,omitempty"`
	Seed        int64    `json:"data_seed"`
	Errors      []string `json:"injected_errors,omitempty"`
}

// ---------- a tiny in-memory message bundle ----------

type c13Bundle struct{ msgs map[uint64]*soymsg.Message }

func (b *c13Bundle) Locale() string { return "xx" }
func (b *c13Bundle) Message(id uint64) *soymsg.Message {
	return b.msgs[id]
}
func (b *c13Bundle) PluralCase(n int) int {
	if n == 1 {
		return 0
	}
	return 1
}

// c13Parts "translates" a message body: the parts in reverse order, raw text in
// brackets.
func c13Parts(children []ast.Node, reverse bool) []soymsg.Part {
	var parts []soymsg.Part
	for _, c := range children {
		switch c := c.(type) {
		case *ast.RawTextNode:
			parts = append(parts, soymsg.RawTextPart{Text: "[" + string(c.Text) + "]"})
		case *ast.MsgPlaceholderNode:
			parts = append(parts, soymsg.PlaceholderPart{Name: c.Name})
		case *ast.MsgPluralNode:
			parts = append(parts, soymsg.PluralPart{VarName: c.VarName, Cases: []soymsg.PluralCase{
				{Spec: soymsg.PluralSpec{Type: soymsg.PluralSpecOne}, Parts: c13Parts(c.Default.Children(), true)},
				{Spec: soymsg.PluralSpec{Type: soymsg.PluralSpecOther}, Parts: c13Parts(c.Default.Children(), false)},
			}})
		}
	}
	if reverse {
		for i, j := 0, len(parts)-1; i < j; i, j = i+1, j-1 {
			parts[i], parts[j] = parts[j], parts[i]
		}
	}
	return parts
}

func c13WalkMsgs(n ast.Node, f func(*ast.MsgNode)) {
	if n == nil {
		return
	}
	if m, ok := n.(*ast.MsgNode); ok {
		f(m)
		return
	}
	if p, ok := n.(ast.ParentNode); ok {
		for _, c := range p.Children() {
			if c != nil {
				c13WalkMsgs(c, f)
			}
		}
	}
}

func c13Names(l []ast.Node, out *[]string) {
	for _, c := range l {
		switch c := c.(type) {
		case *ast.MsgPlaceholderNode:
			*out = append(*out, c.Name)
		case *ast.MsgPluralNode:
			*out = append(*out, c.VarName)
			for _, pc := range c.Cases {
				c13Names(pc.Body.Children(), out)
			}
			c13Names(c.Default.Children(), out)
		}
	}
}

// ---------- one compile + emit + render, observed ----------

// c13Obs is keyed by file / template / message, never by insertion index, so
// that observations of different file orders can be compared directly.
type c13Obs struct {
	Err     string            `json:"err"`               // Bundle.Compile's error text, "" = accepted
	JS      map[string]string `json:"js,omitempty"`      // "<file>|es5|nomsgs" -> bytes (or "ERROR" when Write failed)
	Msgs    map[string]string `json:"msgs,omitempty"`    // "<file>#<k>" -> id names PlaceholderString
	Renders map[string]string `json:"renders,omitempty"` // "<template>|msgs" -> output (+ " !error" when Render failed)
	Lookup  map[string]string `json:"lookup,omitempty"`  // template name -> file:pos of the template Registry.Template returns

	// Lite: JavaScript for two of the four configurations only (es5 with the
	// message bundle, es6 without): the observations of the file orders other
	// than the first
	Lite bool `json:"lite,omitempty"`

	reg  *template.Registry // of this compilation (in-process observations only)
	msgs *c13Bundle         // the message bundle built from its messages
}

func c13LiteKey(k string) bool {
	return strings.HasSuffix(k, "|es5|msgs") || strings.HasSuffix(k, "|es6|nomsgs")
}

// lite is the observation cut down to what a Lite observation has.
func (o *c13Obs) lite() *c13Obs {
	if o.Lite || o.JS == nil {
		return o
	}
	c := *o
	c.Lite, c.JS = true, map[string]string{}
	for k, v := range o.JS {
		if c13LiteKey(k) {
			c.JS[k] = v
		}
	}
	return &c
}

func (o *c13Obs) digest() string {
	h := sha256.New()
	put := func(tag string, m map[string]string) {
		ks := make([]string, 0, len(m))
		for k := range m {
			ks = append(ks, k)
		}
		sort.Strings(ks)
		for _, k := range ks {
			fmt.Fprintf(h, "%s\x00%s\x00%s\x00", tag, k, m[k])
		}
	}
	fmt.Fprintf(h, "err\x00%s\x00", o.Err)
	put("js", o.JS)
	put("msg", o.Msgs)
	put("render", o.Renders)
	put("lookup", o.Lookup)
	return hex.EncodeToString(h.Sum(nil)[:12])
}

// c13Around cuts two differing strings down to the neighbourhood of their first difference.
func c13Around(x, y string) (string, string) {
	i := 0
	for i < len(x) && i < len(y) && x[i] == y[i] {
		i++
	}
	cut := func(s string) string {
		lo, hi := i-60, i+240
		if lo < 0 {
			lo = 0
		}
		if hi > len(s) {
			hi = len(s)
		}
		r := s[lo:hi]
		if lo > 0 {
			r = fmt.Sprintf("...(%d bytes)...", lo) + r
		}
		if hi < len(s) {
			r += "..."
		}
		return r
	}
	return cut(x), cut(y)
}

// c13Diff names the first observable on which two observations differ.
func c13Diff(a, b *c13Obs) (what, va, vb string) {
	what, va, vb = c13Diff0(a, b)
	va, vb = c13Around(va, vb)
	return
}

func c13Diff0(a, b *c13Obs) (what, va, vb string) {
	if a.Err != b.Err {
		return "compile error text", a.Err, b.Err
	}
	cmp := func(tag string, x, y map[string]string) (string, string, string) {
		ks := map[string]bool{}
		for k := range x {
			ks[k] = true
		}
		for k := range y {
			ks[k] = true
		}
		var l []string
		for k := range ks {
			l = append(l, k)
		}
		sort.Strings(l)
		for _, k := range l {
			if x[k] != y[k] {
				return tag + " " + k, x[k], y[k]
			}
		}
		return "", "", ""
	}
	for _, t := range []struct {
		tag  string
		x, y map[string]string
	}{{"template lookup", a.Lookup, b.Lookup}, {"message id/names", a.Msgs, b.Msgs}, {"generated JavaScript", a.JS, b.JS}, {"rendered output", a.Renders, b.Renders}} {
		if w, x, y := cmp(t.tag, t.x, t.y); w != "" {
			return w, x, y
		}
	}
	return "", "", ""
}

var c13KindOf = map[string]kind{"a": kInt, "b": kStr, "c": kListInt, "x": kInt, "s": kStr, "flag": kBool, "f": kFloat, "rec": kRec,
	"opt": kOptInt, "names": kListStr, "el": kEList, "i": kInt, "n": kInt, "d": kRec, "l": kListInt, "m": kRec}

// c13Data builds a data map for a template from its declared params (the
// generators use a fixed kind per param name).
func c13Data(seed int64, t template.Template) data.Map {
	r := hx.NewRand(seed)
	m := data.Map{}
	if t.Doc == nil {
		return m
	}
	for _, p := range t.Doc.Params {
		k, ok := c13KindOf[p.Name]
		if !ok {
			k = kInt
		}
		if p.Optional && r.Chance(40) {
			continue
		}
		if p.Name == "n" {
			m[p.Name] = data.Int(r.Intn(4)) // the recursive countdown template of gen_prog.go
			continue
		}
		m[p.Name] = genValue(r, k, progOpts{})
	}
	return m
}

func c13GlobalsMap(gs []c13Global) (data.Map, error) {
	var sb strings.Builder
	for _, g := range gs {
		sb.WriteString(g.Name + " = " + g.Lit + "\n")
	}
	return soy.ParseGlobals(strings.NewReader(sb.String()))
}

// c13Build makes the bundle: the globals groups (each through AddGlobalsMap or
// through a globals file), then the files in the order perm.
func c13Build(c *c13Case, perm []int) (b *soy.Bundle, err error) {
	defer func() {
		if r := recover(); r != nil {
			b, err = nil, fmt.Errorf("PANIC: %v", r)
		}
	}()
	b = soy.NewBundle()
	for gi, gs := range c.Globals {
		if gi < len(c.GlobalsFile) && c.GlobalsFile[gi] {
			f, ferr := os.CreateTemp("", "c13globals")
			if ferr != nil {
				return nil, fmt.Errorf("harness: %v", ferr)
			}
			for _, g := range gs {
				f.WriteString(g.Name + " = " + g.Lit + "\n")
			}
			f.Close()
			b.AddGlobalsFile(f.Name())
			os.Remove(f.Name())
			continue
		}
		m, gerr := c13GlobalsMap(gs)
		if gerr != nil {
			return nil, fmt.Errorf("ParseGlobals: %v", gerr)
		}
		b.AddGlobalsMap(m)
	}
	for _, i := range perm {
		b.AddTemplateString(c.Files[i].Name, c.Files[i].Text)
	}
	return b, nil
}

// c13CompileBundle calls Compile on a bundle (which may have been compiled before).
func c13CompileBundle(b *soy.Bundle) (reg *template.Registry, err error) {
	defer func() {
		if r := recover(); r != nil {
			reg, err = nil, fmt.Errorf("PANIC: %v", r)
		}
	}()
	return b.Compile()
}

// c13Compile adds the globals and the files in the order perm to a new bundle and compiles it.
func c13Compile(c *c13Case, perm []int) (*template.Registry, error) {
	b, err := c13Build(c, perm)
	if err != nil {
		return nil, err
	}
	return c13CompileBundle(b)
}

func c13WriteJS(f *ast.SoyFileNode, o soyjs.Options) (out string) {
	defer func() {
		if r := recover(); r != nil {
			out = "ERROR (panic)"
		}
	}()
	var buf bytes.Buffer
	if err := soyjs.Write(&buf, f, o); err != nil {
		return "ERROR"
	}
	return buf.String()
}

func c13Render(tofu *soyhtml.Tofu, name string, d data.Map, msgs soymsg.Bundle) (out string) {
	var buf bytes.Buffer
	defer func() {
		if r := recover(); r != nil {
			out = buf.String() + " !panic"
		}
	}()
	rd := tofu.NewRenderer(name)
	if msgs != nil {
		rd = rd.WithMessages(msgs)
	}
	if err := rd.Execute(&buf, d); err != nil {
		return buf.String() + " !error"
	}
	return buf.String()
}

// c13Observe compiles a NEW bundle and observes the result.
func c13Observe(c *c13Case, perm []int, lite bool) (*c13Obs, *template.Registry) {
	b, err := c13Build(c, perm)
	if err != nil {
		return &c13Obs{Err: err.Error(), Lite: lite}, nil
	}
	return c13ObserveBundle(c, b, lite)
}

// c13ObserveBundle calls Compile on the given bundle object (new, or compiled
// before -- successfully or not) and observes the result.
func c13ObserveBundle(c *c13Case, b *soy.Bundle, lite bool) (*c13Obs, *template.Registry) {
	reg, err := c13CompileBundle(b)
	o := &c13Obs{Lite: lite}
	if err != nil {
		o.Err = err.Error()
		if o.Err == "" {
			o.Err = "(empty error text)"
		}
		return o, nil
	}
	o.JS, o.Msgs, o.Renders, o.Lookup = map[string]string{}, map[string]string{}, map[string]string{}, map[string]string{}
	// files by name (file names are unique in generated cases)
	files := append([]*ast.SoyFileNode{}, reg.SoyFiles...)
	sort.SliceStable(files, func(i, j int) bool { return files[i].Name < files[j].Name })
	// messages: ids, names; and the message bundle built from them
	bundle := &c13Bundle{msgs: map[uint64]*soymsg.Message{}}
	for _, f := range files {
		k := 0
		for _, n := range f.Body {
			tn, ok := n.(*ast.TemplateNode)
			if !ok {
				continue
			}
			c13WalkMsgs(tn, func(m *ast.MsgNode) {
				var names []string
				c13Names(m.Body.Children(), &names)
				phs := func() (s string) {
					defer func() {
						if r := recover(); r != nil {
							s = "PANIC"
						}
					}()
					return soymsg.PlaceholderString(m)
				}()
				o.Msgs[fmt.Sprintf("%s#%d", f.Name, k)] = fmt.Sprintf("%d %q %q", m.ID, names, phs)
				k++
				if _, dup := bundle.msgs[m.ID]; !dup {
					bundle.msgs[m.ID] = &soymsg.Message{ID: m.ID, Parts: c13Parts(m.Body.Children(), true)}
				}
			})
		}
	}
	// generated JavaScript
	for _, f := range files {
		for _, fm := range []struct {
			tag string
			f   soyjs.JSFormatter
		}{{"es5", soyjs.ES5Formatter{}}, {"es6", soyjs.ES6Formatter{}}} {
			if k := f.Name + "|" + fm.tag + "|nomsgs"; !lite || c13LiteKey(k) {
				o.JS[k] = c13WriteJS(f, soyjs.Options{Formatter: fm.f})
			}
			if k := f.Name + "|" + fm.tag + "|msgs"; !lite || c13LiteKey(k) {
				o.JS[k] = c13WriteJS(f, soyjs.Options{Formatter: fm.f, Messages: bundle})
			}
		}
	}
	// template lookup and renders
	pos := map[*ast.TemplateNode]string{}
	for _, f := range reg.SoyFiles {
		for _, n := range f.Body {
			if tn, ok := n.(*ast.TemplateNode); ok {
				pos[tn] = fmt.Sprintf("%s:%d", f.Name, tn.Pos)
			}
		}
	}
	tofu := soyhtml.NewTofu(reg)
	names := map[string]bool{}
	for _, t := range reg.Templates {
		names[t.Node.Name] = true
	}
	for name := range names {
		t, _ := reg.Template(name)
		o.Lookup[name] = pos[t.Node]
		d := c13Data(c.Seed, t)
		o.Renders[name+"|nomsgs"] = c13Render(tofu, name, d, nil)
		o.Renders[name+"|msgs"] = c13Render(tofu, name, d, bundle)
	}
	o.reg, o.msgs = reg, bundle
	return o, reg
}

// c13TofuRenders: CompileToTofu on the given bundle object; for an accepted
// bundle every template of the reference compilation is rendered through the
// Tofu (same data, with and without the reference's message bundle).
func c13TofuRenders(c *c13Case, b *soy.Bundle, ref *c13Obs) (errText string, renders map[string]string) {
	tofu, err := func() (t *soyhtml.Tofu, err error) {
		defer func() {
			if r := recover(); r != nil {
				t, err = nil, fmt.Errorf("PANIC: %v", r)
			}
		}()
		return b.CompileToTofu()
	}()
	if err != nil {
		if err.Error() == "" {
			return "(empty error text)", nil
		}
		return err.Error(), nil
	}
	renders = map[string]string{}
	if ref.reg == nil {
		return "", renders
	}
	names := map[string]bool{}
	for _, t := range ref.reg.Templates {
		names[t.Node.Name] = true
	}
	for name := range names {
		t, _ := ref.reg.Template(name)
		d := c13Data(c.Seed, t)
		renders[name+"|nomsgs"] = c13Render(tofu, name, d, nil)
		renders[name+"|msgs"] = c13Render(tofu, name, d, ref.msgs)
	}
	return "", renders
}

// ---------- fresh processes ----------

type c13Job struct {
	Case c13Case `json:"case"`
	Perm []int   `json:"perm"`
	Lite bool    `json:"lite,omitempty"`
}

type c13JobResult struct {
	Digest string `json:"digest"`
	Obs    c13Obs `json:"obs"`
}

func c13Worker(args []string) {
	if len(args) != 2 {
		os.Exit(2)
	}
	bs, err := os.ReadFile(args[0])
	if err != nil {
		os.Exit(2)
	}
	var jobs []c13Job
	if json.Unmarshal(bs, &jobs) != nil {
		os.Exit(2)
	}
	res := make([]c13JobResult, len(jobs))
	for i := range jobs {
		fmt.Printf("S %d\n", i)
		o, _ := c13Observe(&jobs[i].Case, jobs[i].Perm, jobs[i].Lite)
		res[i] = c13JobResult{Digest: o.digest(), Obs: c13Wire(*o, hx.H)}
		fmt.Printf("D %d %s\n", i, res[i].Digest)
	}
	fmt.Println("END")
	out, _ := json.Marshal(res)
	if os.WriteFile(args[1], out, 0o644) != nil {
		os.Exit(2)
	}
}

// c13Wire maps every string of an observation (JSON cannot carry arbitrary bytes).
func c13Wire(o c13Obs, f func(string) string) c13Obs {
	conv := func(m map[string]string) map[string]string {
		if m == nil {
			return nil
		}
		r := map[string]string{}
		for k, v := range m {
			r[f(k)] = f(v)
		}
		return r
	}
	return c13Obs{Err: f(o.Err), JS: conv(o.JS), Msgs: conv(o.Msgs), Renders: conv(o.Renders), Lookup: conv(o.Lookup), Lite: o.Lite}
}

func c13RunWorker(e *env, jobs []c13Job, tag string) ([]c13JobResult, error) {
	dir, err := os.MkdirTemp("", "c13w")
	if err != nil {
		return nil, err
	}
	defer os.RemoveAll(dir)
	in, out := dir+"/in-"+tag+".json", dir+"/out-"+tag+".json"
	bs, _ := json.Marshal(jobs)
	if err := os.WriteFile(in, bs, 0o644); err != nil {
		return nil, err
	}
	ctx, cancel := context.WithTimeout(context.Background(), 300*time.Second)
	defer cancel()
	if o, err := exec.CommandContext(ctx, e.self, "worker", "c13", in, out).CombinedOutput(); err != nil || !strings.HasSuffix(strings.TrimSpace(string(o)), "END") {
		tail := string(o)
		if len(tail) > 300 {
			tail = tail[len(tail)-300:]
		}
		return nil, fmt.Errorf("worker did not finish (%v): ...%s", err, tail)
	}
	rb, err := os.ReadFile(out)
	if err != nil {
		return nil, err
	}
	var res []c13JobResult
	if err := json.Unmarshal(rb, &res); err != nil || len(res) != len(jobs) {
		return nil, fmt.Errorf("worker result unreadable")
	}
	for i := range res {
		res[i].Obs = c13Wire(res[i].Obs, hx.UnH)
	}
	return res, nil
}

// ---------- permutations ----------

func c13Perms(n int) [][]int {
	var res [][]int
	var rec func(cur []int, used []bool)
	rec = func(cur []int, used []bool) {
		if len(cur) == n {
			res = append(res, append([]int{}, cur...))
			return
		}
		for i := 0; i < n; i++ {
			if !used[i] {
				used[i] = true
				rec(append(cur, i), used)
				used[i] = false
			}
		}
	}
	rec(nil, make([]bool, n))
	return res
}

// c13Orders: every permutation for <= 4 files; otherwise identity, reverse, all
// rotations and some random shuffles.
func c13Orders(r *hx.Rand, n int, shuffles int) [][]int {
	if n <= 4 {
		return c13Perms(n)
	}
	id := make([]int, n)
	for i := range id {
		id[i] = i
	}
	res := [][]int{id}
	rev := make([]int, n)
	for i := range rev {
		rev[i] = n - 1 - i
	}
	res = append(res, rev)
	for f := 1; f < n; f++ {
		res = append(res, c13Front(n, f))
	}
	for k := 0; k < shuffles; k++ {
		p := append([]int{}, id...)
		for i := n - 1; i > 0; i-- {
			j := r.Intn(i + 1)
			p[i], p[j] = p[j], p[i]
		}
		res = append(res, p)
	}
	return res
}

// c13Front is the order with file f first and the others in their original order.
func c13Front(n, f int) []int {
	p := []int{f}
	for i := 0; i < n; i++ {
		if i != f {
			p = append(p, i)
		}
	}
	return p
}

// c13Front2 is the order f, g, then the others in their original order.
func c13Front2(n, f, g int) []int {
	p := []int{f, g}
	for i := 0; i < n; i++ {
		if i != f && i != g {
			p = append(p, i)
		}
	}
	return p
}

func c13PermKey(p []int) string { return fmt.Sprint(p) }

// ---------- the check of one case ----------

type c13Replay struct {
	Case  c13Case `json:"case"`
	Order []int   `json:"order,omitempty"`
	Other []int   `json:"other_order,omitempty"`
}

// c13CheckCase runs the repetitions and the file orders of one case in this
// process; returns the observation of the identity order.  reps is the number
// of in-process repetitions of the identity order (other orders get
// max(1, reps/10): one observation each in the quick tier, where every
// observation of another order is compared with the first order's).
func c13CheckCase(e *env, c *c13Case, reps int, orders [][]int) (first *c13Obs, reg *template.Registry, byOrder map[string]*c13Obs, failed bool) {
	n := len(c.Files)
	id := c13Front(n, 0)
	byOrder = map[string]*c13Obs{}
	for oi, p := range orders {
		k := reps
		if oi > 0 && c13PermKey(p) != c13PermKey(id) {
			k = reps / 10
			if k < 1 {
				k = 1
			}
		}
		// Repetition 0 compiles a new bundle.  After that the repetitions alternate
		// between calling Compile AGAIN on the bundle object of the repetition
		// before (odd i) and a new bundle (even i); the new bundle of repetition 2 is
		// first compiled with CompileToTofu and rendered through that Tofu.
		var o0 *c13Obs
		var bnd *soy.Bundle
		lite := c13PermKey(p) != c13PermKey(id)
		for i := 0; i < k; i++ {
			how := "two compilations of the same sources (new bundle each, same file order, same process)"
			if i%2 == 1 && bnd != nil {
				how = "calling Compile again on the same *soy.Bundle (same process)"
				e.res.Histogram["same-bundle-recompiled"]++
			} else {
				var berr error
				if bnd, berr = c13Build(c, p); berr != nil {
					bnd = nil
				}
				if i == 2 && bnd != nil {
					e.res.Histogram["compile-to-tofu-first"]++
					how = "calling Compile on a *soy.Bundle after CompileToTofu (same process)"
					terr, renders := c13TofuRenders(c, bnd, o0)
					to := &c13Obs{Err: terr, Renders: renders}
					ref := &c13Obs{Err: o0.Err, Renders: o0.Renders}
					if to.digest() != ref.digest() {
						what, va, vb := c13Diff(ref, to)
						e.res.Fail(hx.Violation{Kind: "oracle", What: "CompileToTofu on a new bundle of the same sources (same file order, same process) differs from Compile in: " + what,
							Case: c13Replay{Case: *c, Order: p}, Expected: hx.Q(va), Observed: hx.Q(vb)}, "")
						return first, reg, byOrder, true
					}
				}
			}
			var o *c13Obs
			var r *template.Registry
			if bnd != nil {
				o, r = c13ObserveBundle(c, bnd, lite)
			} else {
				o, r = c13Observe(c, p, lite) // the bundle could not be built: the same error again
			}
			if o0 == nil {
				o0 = o
				if c13PermKey(p) == c13PermKey(id) {
					first, reg = o, r
				}
				continue
			}
			if o.digest() != o0.digest() {
				what, va, vb := c13Diff(o0, o)
				if i%2 == 1 || i == 2 {
					// is it the re-use of the bundle object, or do new bundles differ as well?
					for j := 0; j < 8; j++ {
						if o2, _ := c13Observe(c, p, lite); o2.digest() != o0.digest() {
							how = "two compilations of the same sources (new bundle each, same file order, same process)"
							what, va, vb = c13Diff(o0, o2)
							break
						}
					}
				}
				e.res.Fail(hx.Violation{Kind: "oracle", What: how + " differ in: " + what,
					Case: c13Replay{Case: *c, Order: p}, Expected: hx.Q(va), Observed: hx.Q(vb)}, "")
				return first, reg, byOrder, true
			}
		}
		byOrder[c13PermKey(p)] = o0
	}
	if first == nil {
		first, reg = c13Observe(c, id, false)
		byOrder[c13PermKey(id)] = first
	}
	// file orders.  The independent errors of a rejected bundle: an error
	// involves at most two files (a template defined twice), so every error
	// some order can report first is reported by an order that starts with the
	// one or two files involved.
	errSet := map[string]bool{}
	if first.Err != "" {
		for f := 0; f < n; f++ {
			for g := 0; g < n; g++ {
				p := c13Front(n, f)
				if g != f {
					p = c13Front2(n, f, g)
				} else if n > 1 {
					continue
				}
				o := byOrder[c13PermKey(p)]
				if o == nil {
					o, _ = c13Observe(c, p, true)
					byOrder[c13PermKey(p)] = o
				}
				errSet[o.Err] = true
			}
		}
	}
	for _, p := range orders {
		o := byOrder[c13PermKey(p)]
		if (o.Err == "") != (first.Err == "") {
			e.res.Fail(hx.Violation{Kind: "oracle", What: "adding the same files in a different order changes accept/reject",
				Case: c13Replay{Case: *c, Order: id, Other: p}, Expected: hx.Q(first.Err), Observed: hx.Q(o.Err)}, "")
			return first, reg, byOrder, true
		}
		if first.Err == "" {
			if o.lite().digest() != first.lite().digest() {
				what, va, vb := c13Diff(first.lite(), o.lite())
				// an order is observed once in the quick tier: say whether the difference
				// is one between file orders or between two compilations of this order
				for i := 0; i < 6; i++ {
					if o2, _ := c13Observe(c, p, o.Lite); o2.digest() != o.digest() {
						w2, x2, y2 := c13Diff(o, o2)
						e.res.Fail(hx.Violation{Kind: "oracle", What: "two compilations of the same sources (new bundle each, same file order, same process) differ in: " + w2,
							Case: c13Replay{Case: *c, Order: p}, Expected: hx.Q(x2), Observed: hx.Q(y2)}, "")
						return first, reg, byOrder, true
					}
				}
				e.res.Fail(hx.Violation{Kind: "oracle", What: "adding the same files in a different order changes: " + what,
					Case: c13Replay{Case: *c, Order: id, Other: p}, Expected: hx.Q(va), Observed: hx.Q(vb)}, "")
				return first, reg, byOrder, true
			}
		} else if !errSet[o.Err] {
			var set []string
			for s := range errSet {
				set = append(set, s)
			}
			sort.Strings(set)
			e.res.Fail(hx.Violation{Kind: "oracle", What: "the error reported for a file order is not one of the bundle's independent errors (those reported with each ordered pair of files in front)",
				Case: c13Replay{Case: *c, Order: p}, Expected: set, Observed: hx.Q(o.Err)}, "")
			return first, reg, byOrder, true
		}
	}
	return first, reg, byOrder, false
}

// ---------- driver ----------

func runC13(e *env) {
	e.res.Rule = fmt.Sprintf("bundles of the program generator (1-5 templates over 1-3 files, all commands, messages, directives) plus an extras file (2-4 cross-namespace calls + directives + functions for the ES6 import block, messages with colliding placeholder base names and equal map-literal placeholders, nested map literals, globals incl. map- and list-valued ones, header-param templates with and without soydoc, data=all), 0-2 files of messages (indexed data refs as placeholders and plural selectors) and 0-2 globals groups (AddGlobalsMap or globals file); 45%% of the bundles get 1-3 independent injected errors (syntax, namespace, soydoc+header params, duplicate template, unknown data refs / globals inside one map literal, unused param/let, bad calls, globals redefined by a second map) spread over the files. Each bundle: %d in-process compile+emit repetitions of the first file order (alternating a new bundle and Compile again on the same bundle object; once CompileToTofu first), every other permutation of the file order once (<= 4 files: all permutations), 2 worker processes per batch (second in reverse) and single-compilation processes for bundles with messages in several files; ES5 and ES6, with and without a message bundle; every template rendered with and without the bundle. Non-trivial = more than one file or an injected error or a message/map literal/import; distinct by sources + globals.", c13Reps)
	if e.replay != "" {
		c13ReplayRun(e)
		return
	}
	// every compilation allocates a few hundred kB that die at once: collect less often
	defer debug.SetGCPercent(debug.SetGCPercent(800))
	n := c13Bundles * e.scale
	shuffles := 12 // random file orders of a bundle of more than four files (besides identity, reverse, every file in front)
	if e.scale == 1 {
		shuffles = 5
	}
	var batch []c13Job
	var batchFirst []*c13Obs
	var singles []c13Job
	var singlesWant []*c13Obs
	flush := func() {
		if len(batch) == 0 {
			return
		}
		// two fresh processes per batch; the second one runs the jobs in the reverse
		// order, so that state that survives from one compilation to the next inside a
		// process (a process-wide cache) meets a different history
		for w := 0; w < 2; w++ {
			jobs := batch
			if w == 1 {
				jobs = make([]c13Job, len(batch))
				for i := range batch {
					jobs[len(batch)-1-i] = batch[i]
				}
			}
			res, err := c13RunWorker(e, jobs, fmt.Sprint(w))
			if err != nil {
				e.res.Fail(hx.Violation{Kind: "obligation", What: "fresh-process run failed: " + err.Error(), Case: "batch"}, "")
				break
			}
			for j := range res {
				i := j
				if w == 1 {
					i = len(batch) - 1 - j
				}
				e.res.Histogram["fresh-process-runs"]++
				if res[j].Digest != batchFirst[i].digest() {
					ob := res[j].Obs
					what, va, vb := c13Diff(batchFirst[i], &ob)
					e.res.Fail(hx.Violation{Kind: "oracle", What: "a fresh process compiles the same bundle (same file order) differently: " + what,
						Case: c13Replay{Case: batch[i].Case, Order: batch[i].Perm}, Expected: hx.Q(va), Observed: hx.Q(vb)}, "")
				}
			}
		}
		batch, batchFirst = nil, nil
		c13RunSingles(e, singles, singlesWant)
		singles, singlesWant = nil, nil
	}
	for i := 0; i < n; i++ {
		c := c13Gen(e.rng, e.res.Histogram)
		if os.Getenv("VERIF_TRACE") != "" {
			fmt.Fprintf(os.Stderr, "CASE %d files=%d errors=%v\n", i, len(c.Files), c.Errors)
		}
		orders := c13Orders(e.rng, len(c.Files), shuffles)
		first, reg, byOrder, failed := c13CheckCase(e, &c, c13Reps, orders)
		key, _ := json.Marshal(c)
		e.res.Count(string(key), len(c.Files) > 1 || len(c.Errors) > 0 || len(first.Msgs) > 0, "bundle")
		e.res.Histogram[fmt.Sprintf("files:%d", len(c.Files))]++
		e.res.Histogram["orders"] += len(orders)
		if first.Err == "" {
			e.res.Histogram["accepted"]++
			e.res.Histogram["messages"] += len(first.Msgs)
			e.res.Histogram["js-files"] += len(first.JS)
			e.res.Histogram["renders"] += len(first.Renders)
		} else {
			e.res.Histogram["rejected"]++
			e.res.Histogram["rejected:"+c13ErrClass(first.Err)]++
		}
		if i%197 == 0 {
			e.res.Sample(map[string]interface{}{"files": c.Files, "globals": c.Globals, "globals_file": c.GlobalsFile, "injected": c.Errors, "error": first.Err, "digest": first.digest()})
		}
		if failed {
			continue
		}
		c13Model(e, &c, orders, first, reg)
		batch = append(batch, c13Job{Case: c, Perm: c13Front(len(c.Files), 0)})
		batchFirst = append(batchFirst, first)
		if len(orders) > 1 {
			p := orders[1+e.rng.Intn(len(orders)-1)]
			o := byOrder[c13PermKey(p)]
			if o == nil {
				o, _ = c13Observe(&c, p, true)
			}
			batch = append(batch, c13Job{Case: c, Perm: p, Lite: o.Lite})
			batchFirst = append(batchFirst, o)
		}
		for _, p := range c13SingleOrders(e.rng, &c, first, orders) {
			o := byOrder[c13PermKey(p)]
			if o == nil {
				o, _ = c13Observe(&c, p, true)
			}
			singles = append(singles, c13Job{Case: c, Perm: p, Lite: o.Lite})
			singlesWant = append(singlesWant, o)
		}
		if len(batch) >= 24 {
			flush()
		}
	}
	flush()
}

// c13SingleOrders chooses the file orders of a case that are compiled in a
// process of their own (one compilation per process: nothing any earlier
// compilation left behind in the process can be seen).  A bundle with messages
// in several files: every file with messages comes first once (at most four
// orders); any other bundle: one order with probability 1/8.
func c13SingleOrders(r *hx.Rand, c *c13Case, first *c13Obs, orders [][]int) [][]int {
	n := len(c.Files)
	withMsgs := map[string]bool{}
	for k := range first.Msgs {
		withMsgs[k[:strings.LastIndex(k, "#")]] = true
	}
	var res [][]int
	if len(withMsgs) >= 2 {
		for f := 0; f < n && len(res) < 4; f++ {
			if withMsgs[c.Files[f].Name] {
				res = append(res, c13Front(n, f))
			}
		}
		return res
	}
	if r.Chance(12) {
		res = append(res, orders[r.Intn(len(orders))])
	}
	return res
}

// c13RunSingles runs every job in a fresh process of its own (four at a time)
// and compares with what this process observed for the same file order.
func c13RunSingles(e *env, jobs []c13Job, want []*c13Obs) {
	type out struct {
		res []c13JobResult
		err error
	}
	outs := make([]out, len(jobs))
	sem := make(chan bool, 4)
	done := make(chan bool)
	for i := range jobs {
		go func(i int) {
			sem <- true
			r, err := c13RunWorker(e, jobs[i:i+1], fmt.Sprintf("s%d", i))
			outs[i] = out{r, err}
			<-sem
			done <- true
		}(i)
	}
	for range jobs {
		<-done
	}
	for i := range jobs {
		if outs[i].err != nil {
			e.res.Fail(hx.Violation{Kind: "obligation", What: "fresh-process run failed: " + outs[i].err.Error(), Case: c13Replay{Case: jobs[i].Case, Order: jobs[i].Perm}}, "")
			continue
		}
		e.res.Histogram["fresh-process-single-compilation"]++
		if outs[i].res[0].Digest != want[i].digest() {
			ob := outs[i].res[0].Obs
			what, va, vb := c13Diff(want[i], &ob)
			e.res.Fail(hx.Violation{Kind: "oracle", What: "a fresh process that compiles only this bundle (same file order) differs from this process, which compiled other bundles and other file orders before, in: " + what,
				Case: c13Replay{Case: jobs[i].Case, Order: jobs[i].Perm}, Expected: hx.Q(va), Observed: hx.Q(vb)}, "")
		}
	}
}

// c13ErrClass is used for the histogram only.
func c13ErrClass(s string) string {
	for _, p := range []struct{ sub, cls string }{
		{"already defined", "globals-redefined"}, {"ParseGlobals", "globals-parse"}, {"namespace required", "add:namespace"}, {"expected namespace", "add:namespace"},
		{"both soydoc and header", "add:param-kinds"}, {"defined more than once", "add:duplicate"}, {"data ref", "check:dataref"}, {"are unused", "check:unused-params"},
		{"are not used", "check:unused-let"}, {"not found", "check:call"}, {"not declared by the callee", "check:call"}, {"not passed by the call", "check:call"},
		{"'$ij'", "check:let-ij"}, {"is undefined", "globals-undefined"}, {"PANIC", "panic"}} {
		if strings.Contains(s, p.sub) {
			return p.cls
		}
	}
	return "parse"
}

func c13ReplayRun(e *env) {
	bs, err := os.ReadFile(e.replay)
	if err != nil {
		e.res.Fail(hx.Violation{Kind: "obligation", What: "cannot read replay: " + err.Error(), Case: e.replay}, "")
		return
	}
	var rp struct {
		Case c13Replay `json:"case"`
	}
	if err := json.Unmarshal(bs, &rp); err != nil || len(rp.Case.Case.Files) == 0 {
		e.res.Fail(hx.Violation{Kind: "obligation", What: "replay file has no bundle", Case: e.replay}, "")
		return
	}
	c := rp.Case.Case
	orders := c13Orders(e.rng, len(c.Files), 12)
	e.res.Count("replay", true, "replay")
	first, reg, byOrder, failed := c13CheckCase(e, &c, 200, orders)
	if !failed {
		c13Model(e, &c, orders, first, reg)
		// every order (at most 24) in a process of its own
		var jobs []c13Job
		var want []*c13Obs
		for i, p := range orders {
			if o := byOrder[c13PermKey(p)]; o != nil && i < 24 {
				jobs = append(jobs, c13Job{Case: c, Perm: p, Lite: o.Lite})
				want = append(want, o)
			}
		}
		c13RunSingles(e, jobs, want)
	}
}
