//go:build c02

package main

// C02 — commands, scoping and calls: generated bundles are compiled and
// rendered by robfig/soy and by the Coq model of the tree walker (Interp.v)
// on the dumped AST; output bytes and ok/error must agree.

import (
	"encoding/hex"
	"fmt"
	"os"
	"strings"

	"github.com/robfig/soy"
	"github.com/robfig/soy/data"
	"github.com/robfig/soy/soyhtml"
	"soyverif/internal/hx"
)

func init() { props["C02"] = runC02 }

func runC02(e *env) {
	e.res.Rule = "bundles from the command grammar (depth<=3, 1-5 templates over 1-3 namespaces/files, soydoc or header params, optional params, all call forms, recursion on a decreasing int) x 2 data sets; rendered by robfig/soy and by the Coq tree-walker model on the dumped AST. Non-trivial = uses at least one of let/foreach/for/call/switch/if; distinct by source text + data."
	n := 400 * e.scale
	runProgCorrespondence(e, n, progOpts{depth: 3, directives: true}, "C02")
}

type progCase struct {
	Files    []srcFile `json:"files"`
	Template string    `json:"template"`
	Data     string    `json:"data"`
}

// runProgCorrespondence is shared by the template-level properties.
func runProgCorrespondence(e *env, n int, o progOpts, prop string) {
	compileFail := 0
	for i := 0; i < n; i++ {
		files, entry, dataSets, feats := genBundle(e.rng, o)
		b := soy.NewBundle()
		for _, f := range files {
			b.AddTemplateString(f.Name, f.Text)
		}
		reg, err := b.Compile()
		if err != nil {
			compileFail++
			e.res.Count(fmt.Sprint(files), false, "compile-error")
			e.res.Fail(hx.Violation{Kind: "oracle", What: "a generated valid bundle is rejected by the compiler", Case: progCase{Files: files, Template: entry}, Observed: err.Error()}, "")
			continue
		}
		tofu := soyhtml.NewTofu(reg)
		ids := newIDTable()
		key := fmt.Sprintf("reg%d", i)
		if r := e.m.Call("load_registry", key, registrySexp(reg, ids)); len(r) == 0 || r[0] != "#1" {
			e.res.Fail(hx.Violation{Kind: "mismatch", What: "model cannot load the registry", Case: progCase{Files: files, Template: entry}, Observed: fmt.Sprint(r)}, "")
			continue
		}
		nontrivial := feats["let"]+feats["foreach"]+feats["for-range"]+feats["call"]+feats["switch"]+feats["if"]+feats["let-content"] > 0
		for _, d := range dataSets {
			if os.Getenv("VERIF_TRACE") != "" {
				fmt.Fprintf(os.Stderr, "CASE %d %v %v\n", i, files, d)
			}
			out, rerr := render(tofu, entry, d, nil)
			dsx := valueSexp(d, ids)
			e.res.Count(fmt.Sprint(files)+dsx, nontrivial, "render")
			for f := range feats {
				e.res.Histogram["feat:"+f]++
			}
			pc := progCase{Files: files, Template: entry, Data: dsx}
			if i%57 == 0 {
				e.res.Sample(map[string]interface{}{"files": files, "template": entry, "data": dsx, "output": hx.Q(out), "error": errStr(rerr)})
			}
			if isPanicErr(rerr) {
				e.res.Fail(hx.Violation{Kind: "oracle", What: "panic escaped Render", Case: pc, Observed: errStr(rerr)}, "")
				continue
			}
			r := e.m.Call("render", key, sx(entry), "#4000", "none", "none", "-", "none", ";", dsx)
			if len(r) < 5 {
				e.res.Fail(hx.Violation{Kind: "mismatch", What: "model render failed", Case: pc, Observed: fmt.Sprint(r)}, "")
				continue
			}
			cls := strings.Split(r[0], ",")[0]
			var mo strings.Builder
			for _, f := range r[5:] {
				mo.WriteString(hx.UnH(f))
			}
			switch cls {
			case "outofmodel":
				e.res.Histogram["outofmodel"]++
			case "ok":
				if rerr != nil {
					e.res.Fail(hx.Violation{Kind: "mismatch", What: "implementation returns an error, model renders", Case: pc, Expected: hx.Q(mo.String()), Observed: errStr(rerr)}, "")
				} else if mo.String() != out {
					e.res.Fail(hx.Violation{Kind: "mismatch", What: "rendered output differs from the model", Case: pc, Expected: hx.Q(mo.String()), Observed: hx.Q(out)}, "")
				}
			case "err":
				if rerr == nil {
					e.res.Fail(hx.Violation{Kind: "mismatch", What: "model reports a render error, implementation renders", Case: pc, Expected: "error: " + strings.Join(strings.Split(r[0], ",")[1:], ","), Observed: hx.Q(out)}, "")
				} else if mo.String() != out {
					e.res.Fail(hx.Violation{Kind: "mismatch", What: "output before the error differs from the model", Case: pc, Expected: hx.Q(mo.String()), Observed: hx.Q(out)}, "")
				}
			case "crash":
				if strings.Contains(r[0], hex.EncodeToString([]byte("not modelled"))) {
					e.res.Histogram["not-modelled"]++
					break
				}
				e.res.Fail(hx.Violation{Kind: "mismatch", What: "model outcome " + r[0], Case: pc, Observed: hx.Q(out)}, "")
			default:
				e.res.Fail(hx.Violation{Kind: "mismatch", What: "model outcome " + r[0], Case: pc, Observed: hx.Q(out)}, "")
			}
		}
	}
	e.res.Histogram["compile-errors"] = compileFail
	_ = data.Null{}
}
