//go:build c02

package main

// C02 — commands, scoping and calls.  Generated bundles are compiled and
// rendered by robfig/soy; the dumped AST is rendered by the Coq model of the
// tree walker (Model/Interp.v: scope stack) and by the Coq Spec (Spec/Cmd.v:
// lexical environments).  The property's oracle is "implementation output =
// Spec output"; the model/implementation comparison is the correspondence that
// ties Interp.v (about which exec_impl_spec is proved) to the Go code.

import (
	"encoding/hex"
	"encoding/json"
	"fmt"
	"os"
	"reflect"
	"regexp"
	"sort"
	"strings"

	"github.com/robfig/soy/ast"
	"github.com/robfig/soy/template"

	"github.com/robfig/soy"
	"github.com/robfig/soy/data"
	"github.com/robfig/soy/soyhtml"
	"soyverif/internal/hx"
)

func init() { props["C02"] = runC02 }

const c02Fuel = "#4000"

func runC02(e *env) {
	e.res.Rule = "bundles from the command grammar (nesting depth<=3, 1-6 templates over 1-3 namespaces and 1-6 files, soydoc or header params, optional params, relative / fully-qualified / aliased / name= call forms, both param syntaxes, data=all / data=$e / data=[map literal], params overriding passed data, recursion on a decreasing int, small name pool so that lets and loop variables shadow params and each other, scope probes) x 2 data sets satisfying the declared params; rendered by robfig/soy, by the Coq tree-walker model, by the Coq lexical-environment Spec (Spec/Cmd.v) and by the composed Spec (Spec/CmdIndep.v: expressions by C01's Spec/Expr.v) on the dumped AST; a third stream applies one textual mutation (tag deleted / duplicated / swapped, let or special character inserted, tag wrapped in a let) and keeps what still compiles. Oracle: implementation output = Spec output (bytes, ok/error; the composed Spec must agree with Spec/Cmd.v whenever it answers). Also per file: call names resolved by the model's resolve_name = names of the parsed CallNodes; every {literal} body = the text of a raw-text node. wf_registry is evaluated on every dumped registry (for compiled bundles of the grammar it is a theorem: compiled_registry_wf_partial; four probes outside the grammar that the compiler accepts are counted). Non-trivial = uses at least one of let/foreach/for/call/switch/if; distinct by source text + data."
	if e.replay != "" {
		c02Replay(e)
		return
	}
	// two streams from one PRNG state: the historical C02 stream (shared generator defaults) and the scope stream
	runProgCorrespondence(e, 600*e.scale, progOpts{depth: 3, directives: true}, "C02")
	runProgCorrespondence(e, 1800*e.scale, progOpts{depth: 3, directives: true, scope: true}, "C02")
	// third stream: generated bundles with one textual mutation (a tag deleted, duplicated, swapped with its neighbour,
	// a let/print pair or a special character inserted at a tag boundary).  Whatever still compiles is a template built
	// from the property's constructs: wf_registry (the hypothesis of exec_impl_spec) must hold of its tree and the
	// oracle applies unchanged.
	c02Mutated(e, 700*e.scale)
	c02Probes(e)
	c02StrayProbes(e)
	var hs []string
	for _, k := range hx.SortedKeys(e.res.Histogram) {
		if strings.HasPrefix(k, "feat:") {
			hs = append(hs, fmt.Sprintf("%s=%d", k[5:], e.res.Histogram[k]))
		}
	}
	e.res.Note("feature histogram (renders using the feature): %s", strings.Join(hs, " "))
}

type progCase struct {
	Files    []srcFile `json:"files"`
	Template string    `json:"template"`
	Data     string    `json:"data"`
}

var c02Reg int

// runProgCorrespondence generates n bundles and checks each on its data sets.
func runProgCorrespondence(e *env, n int, o progOpts, prop string) {
	for i := 0; i < n; i++ {
		files, entry, dataSets, feats := genBundle(e.rng, o)
		c02Bundle(e, files, entry, dataSets, feats, i%57 == 0)
	}
}

func c02Bundle(e *env, files []srcFile, entry string, dataSets []data.Map, feats map[string]int, sample bool) {
	c02BundleOpt(e, files, entry, dataSets, feats, sample, false)
}

// c02Probes: sources whose PARSE tree is not of the shape exec_impl_spec assumes (a {let} directly inside {msg} or
// a plural case becomes a placeholder holding a let: wf_registry = false).  The compiler's data-reference check rejects
// them (the let can never be used inside its placeholder); if one ever compiles, c02BundleOpt reports the shape.
func c02Probes(e *env) {
	for _, body := range []string{
		`{msg desc="d"}a{let $x: 1 /}{$x}b{/msg}`,
		`{msg desc="d"}{let $x}a{/let}{$x}{/msg}`,
		`{msg desc="d"}{plural $a}{case 1}{let $x: 1 /}{$x}{default}b{/plural}{/msg}`,
		`{msg desc="d"}x{let $a: 9 /}y{/msg}[{$a}]`,
	} {
		files := []srcFile{{Name: "probe.soy", Text: "{namespace ns}\n\n/** @param a */\n{template .t}\n" + body + "\n{/template}\n"}}
		if c02BundleOpt(e, files, "ns.t", []data.Map{{"a": data.Int(1)}}, map[string]int{"probe": 1}, false, true) {
			e.res.Histogram["probe:let-in-msg-compiles"]++
		} else {
			e.res.Histogram["probe:let-in-msg-rejected"]++
		}
	}
}

// c02StrayProbes: sources OUTSIDE the property's grammar that parse.SoyFile and Bundle.Compile nevertheless accept
// (a file-level tag inside a template; a {plural} nested in a param / let / log inside a msg): the side condition
// file_grammar of compiled_registry_wf_partial (Properties/C02.v; compiled_registry_wf_refuted is the first probe).
// Counted, never reported: the property says nothing about them.  A parser that rejects them moves the counts.
func c02StrayProbes(e *env) {
	for _, body := range []string{
		`A{template .y}B{/template}C`,
		"A/** @param q */C",
		`{msg desc="d"}{call .z}{param a}{plural $a}{case 1}one{default}many{/plural}{/param}{/call}{/msg}`,
		`{msg desc="d"}{log}{plural $a}{case 1}one{default}many{/plural}{/log}{/msg}`,
	} {
		src := "{namespace ns}\n\n/** @param a */\n{template .t}\n" + body + "{$a}\n{/template}\n/** @param a */\n{template .z}\n{$a}\n{/template}\n"
		if _, err := soy.NewBundle().AddTemplateString("stray.soy", src).Compile(); err == nil {
			e.res.Histogram["probe:outside-grammar-compiles"]++
		} else {
			e.res.Histogram["probe:outside-grammar-rejected"]++
		}
	}
}

var c02TagRe = regexp.MustCompile(`\{[^{}]*\}`)

// c02Mutated: see runC02.
func c02Mutated(e *env, n int) {
	for i := 0; i < n; i++ {
		files, entry, dataSets, feats := genBundle(e.rng, progOpts{depth: 3, directives: true, scope: true})
		fi := e.rng.Intn(len(files))
		txt := files[fi].Text
		rec := false
		for _, f := range files {
			rec = rec || strings.Contains(f.Text, "{template .rec}")
		}
		if rec {
			// the property quantifies over recursion bounded by a decreasing argument: a mutation of the recursive
			// template (a param deleted, a let moved) can make it unbounded, which overflows the Go stack
			e.res.Histogram["mutated:skipped-recursive-bundle"]++
			continue
		}
		tags := c02TagRe.FindAllStringIndex(txt, -1)
		if len(tags) < 3 {
			continue
		}
		k := 1 + e.rng.Intn(len(tags)-2)
		a, z := tags[k][0], tags[k][1]
		var mut, kind string
		switch e.rng.Intn(6) {
		case 0:
			mut, kind = txt[:a]+txt[z:], "delete-tag"
		case 1:
			mut, kind = txt[:z]+txt[a:z]+txt[z:], "duplicate-tag"
		case 2:
			nz := tags[k+1][1]
			mut, kind = txt[:a]+txt[tags[k+1][0]:nz]+txt[z:tags[k+1][0]]+txt[a:z]+txt[nz:], "swap-tags"
		case 3:
			mut, kind = txt[:a]+"{let $zz: 1 /}{$zz}"+txt[a:], "insert-let"
		case 4:
			mut, kind = txt[:a]+e.rng.Pick([]string{"{sp}", "{nil}", "{lb}", "{literal} {x}\n {/literal}", "{debugger}"})+txt[a:], "insert-special"
		default:
			mut, kind = txt[:a]+"{let $zz}"+txt[a:z]+"{/let}{$zz}"+txt[z:], "wrap-in-let"
		}
		mfiles := append([]srcFile(nil), files...)
		mfiles[fi] = srcFile{Name: files[fi].Name, Text: mut}
		e.res.Histogram["mutated:"+kind]++
		feats["mutated"] = 1
		if c02BundleOpt(e, mfiles, entry, dataSets, feats, false, true) {
			e.res.Histogram["mutated-compiles:"+kind]++
		}
	}
}

// c02BundleOpt checks one bundle; with mayNotCompile a compile error is counted, not reported.  Returns whether the
// bundle compiled.
func c02BundleOpt(e *env, files []srcFile, entry string, dataSets []data.Map, feats map[string]int, sample, mayNotCompile bool) bool {
	b := soy.NewBundle()
	for _, f := range files {
		b.AddTemplateString(f.Name, f.Text)
	}
	reg, err := b.Compile()
	if err != nil && mayNotCompile {
		return false
	}
	if err != nil {
		e.res.Histogram["compile-errors"]++
		e.res.Count(fmt.Sprint(files), false, "compile-error")
		e.res.Fail(hx.Violation{Kind: "oracle", What: "a generated valid bundle is rejected by the compiler", Case: progCase{Files: files, Template: entry}, Observed: err.Error()}, "")
		return false
	}
	c02Names(e, files, reg)
	tofu := soyhtml.NewTofu(reg)
	ids := newIDTable()
	c02Reg++
	key := "c02" // one key: loading a registry replaces the previous one (the model process keeps every key alive)
	rs := registrySexp(reg, ids)
	if r := e.m.Call("load_registry", key, rs); len(r) == 0 || r[0] != "#1" {
		e.res.Fail(hx.Violation{Kind: "mismatch", What: "model cannot load the registry", Case: progCase{Files: files, Template: entry}, Observed: fmt.Sprint(r)}, "")
		return false
	}
	if r := e.m.Call("load_registry_spec", key, rs); len(r) == 0 || r[0] != "#1" {
		// exec_impl_spec assumes wf_registry; the parser must only produce such trees
		e.res.Fail(hx.Violation{Kind: "mismatch", What: "the dumped AST is not of the shape exec_impl_spec assumes (wf_registry = false)", Case: progCase{Files: files, Template: entry}, Observed: fmt.Sprint(r)}, "")
		return false
	} else if len(r) >= 3 {
		// how much of the bundle the independent expression Spec (Spec/Expr.v) reads: expression roots of_node is defined on
		cov, tot := atoiHash(r[1]), atoiHash(r[2])
		e.res.Histogram["expr-roots:total"] += tot
		e.res.Histogram["expr-roots:by-Spec/Expr.v"] += cov
	}
	nontrivial := feats["let"]+feats["foreach"]+feats["for-range"]+feats["call"]+feats["switch"]+feats["if"]+feats["let-content"] > 0
	for _, d := range dataSets {
		if os.Getenv("VERIF_TRACE") != "" {
			fmt.Fprintf(os.Stderr, "CASE %v %v\n", files, d)
		}
		out, rerr := render(tofu, entry, d, nil)
		dsx := valueSexp(d, ids)
		e.res.Count(fmt.Sprint(files)+dsx, nontrivial, "render")
		for f := range feats {
			e.res.Histogram["feat:"+f]++
		}
		pc := progCase{Files: files, Template: entry, Data: dsx}
		if sample {
			e.res.Sample(map[string]interface{}{"files": files, "template": entry, "data": dsx, "output": hx.Q(out), "error": errStr(rerr)})
		}
		if isPanicErr(rerr) {
			e.res.Fail(hx.Violation{Kind: "oracle", What: "panic escaped Render", Case: pc, Observed: errStr(rerr)}, "")
			continue
		}
		// ---- the property's oracle: output = Spec output ----
		if len(out) > 1<<20 {
			// the extracted Spec concatenates byte lists with Coq's (non tail-recursive) app and exhausts the
			// OCaml stack on a multi-megabyte output (nested content params inside loops); the model needs
			// minutes on it.  Counted, not compared.
			e.res.Histogram["skipped:output>1MB"]++
			continue
		}
		// the composed Spec (Spec/CmdIndep.v: commands by Spec/Cmd.v, expressions by C01's Spec/Expr.v) is the
		// oracle whenever it gives an answer; it leaves the answer open (outofmodel) on inexact floats, int64
		// overflow and randomInt, where Spec/Cmd.v alone (sharing the operator tables with the model) decides.
		si := e.m.Call("render_spec_indep", key, sx(entry), c02Fuel, "-", "none", ";", dsx)
		sr := e.m.Call("render_spec", key, sx(entry), c02Fuel, "-", "none", ";", dsx)
		if len(si) >= 3 && len(sr) >= 3 {
			icls := strings.Split(si[0], ",")[0]
			e.res.Histogram["spec-indep:"+icls]++
			// specs_agree, re-checked on this case: same bytes and same class unless Spec/Cmd.v ran out of fuel or
			// the composed Spec leaves the answer open
			if icls != "outofmodel" && strings.Split(sr[0], ",")[0] != "fuel" {
				if icls != strings.Split(sr[0], ",")[0] || si[2] != sr[2] {
					e.res.Fail(hx.Violation{Kind: "mismatch", What: "extracted Spec/Cmd.v and extracted Spec/CmdIndep.v disagree (specs_agree says they cannot)", Case: pc, Expected: si[0] + " " + hx.Q(hx.UnH(si[2])), Observed: sr[0] + " " + hx.Q(hx.UnH(sr[2]))}, "")
				}
				e.res.Histogram["oracle:composed-spec"]++
			} else {
				e.res.Histogram["oracle:Spec/Cmd.v-only"]++
			}
		} else {
			e.res.Fail(hx.Violation{Kind: "mismatch", What: "composed Spec run failed", Case: pc, Observed: fmt.Sprint(si)}, "")
		}
		if len(sr) < 3 {
			e.res.Fail(hx.Violation{Kind: "mismatch", What: "Spec run failed", Case: pc, Observed: fmt.Sprint(sr)}, "")
			continue
		}
		scls := strings.Split(sr[0], ",")[0]
		sout := hx.UnH(sr[2])
		e.res.Histogram["spec:"+scls]++
		switch scls {
		case "ok":
			if rerr != nil {
				e.res.Fail(hx.Violation{Kind: "oracle", What: "the Soy semantics (Spec/Cmd.v) define an output, the implementation returns an error", Case: pc, Expected: hx.Q(sout), Observed: errStr(rerr)}, "")
			} else if sout != out {
				e.res.Fail(hx.Violation{Kind: "oracle", What: "rendered output differs from the text the Soy semantics (Spec/Cmd.v) define", Case: pc, Expected: hx.Q(sout), Observed: hx.Q(out)}, "")
			}
		case "err":
			if rerr == nil {
				e.res.Fail(hx.Violation{Kind: "oracle", What: "the Soy semantics (Spec/Cmd.v) define an error, the implementation renders", Case: pc, Expected: "error: " + sr[0], Observed: hx.Q(out)}, "")
			} else if sout != out {
				e.res.Fail(hx.Violation{Kind: "mismatch", What: "output before the error differs from the Spec", Case: pc, Expected: hx.Q(sout), Observed: hx.Q(out)}, "")
			}
		case "outofmodel":
		case "crash":
			if !strings.Contains(sr[0], hex.EncodeToString([]byte("not modelled"))) {
				e.res.Fail(hx.Violation{Kind: "mismatch", What: "Spec outcome " + sr[0], Case: pc, Observed: hx.Q(out)}, "")
			}
		default:
			e.res.Fail(hx.Violation{Kind: "mismatch", What: "Spec outcome " + sr[0], Case: pc, Observed: hx.Q(out)}, "")
		}
		// ---- the correspondence: Go code vs the model the theorem is about ----
		r := e.m.Call("render", key, sx(entry), c02Fuel, "none", "none", "-", "none", ";", dsx)
		if len(r) < 5 {
			e.res.Fail(hx.Violation{Kind: "mismatch", What: "model render failed", Case: pc, Observed: fmt.Sprint(r)}, "")
			continue
		}
		cls := strings.Split(r[0], ",")[0]
		var mo strings.Builder
		for _, f := range r[5:] {
			mo.WriteString(hx.UnH(f))
		}
		// exec_impl_spec, re-checked on this case by running both extracted functions
		if r[0] != sr[0] || mo.String() != sout {
			e.res.Fail(hx.Violation{Kind: "mismatch", What: "extracted model and extracted Spec disagree (exec_impl_spec says they cannot)", Case: pc, Expected: sr[0] + " " + hx.Q(sout), Observed: r[0] + " " + hx.Q(mo.String())}, "")
		}
		switch cls {
		case "outofmodel":
			e.res.Histogram["outofmodel"]++
		case "ok":
			if rerr != nil {
				e.res.Fail(hx.Violation{Kind: "mismatch", What: "implementation returns an error, model renders", Case: pc, Expected: hx.Q(mo.String()), Observed: errStr(rerr)}, "")
			} else if mo.String() != out {
				e.res.Fail(hx.Violation{Kind: "mismatch", What: "rendered output differs from the model", Case: pc, Expected: hx.Q(mo.String()), Observed: hx.Q(out)}, "")
			}
		case "err":
			if rerr == nil {
				e.res.Fail(hx.Violation{Kind: "mismatch", What: "model reports a render error, implementation renders", Case: pc, Expected: "error: " + strings.Join(strings.Split(r[0], ",")[1:], ","), Observed: hx.Q(out)}, "")
			} else if mo.String() != out {
				e.res.Fail(hx.Violation{Kind: "mismatch", What: "output before the error differs from the model", Case: pc, Expected: hx.Q(mo.String()), Observed: hx.Q(out)}, "")
			}
		case "crash":
			if strings.Contains(r[0], hex.EncodeToString([]byte("not modelled"))) {
				e.res.Histogram["not-modelled"]++
				break
			}
			e.res.Fail(hx.Violation{Kind: "mismatch", What: "model outcome " + r[0], Case: pc, Observed: hx.Q(out)}, "")
		default:
			e.res.Fail(hx.Violation{Kind: "mismatch", What: "model outcome " + r[0], Case: pc, Observed: hx.Q(out)}, "")
		}
	}
	return true
}

// c02Replay re-runs exactly the case of a replay file.
func c02Replay(e *env) {
	bs, err := os.ReadFile(e.replay)
	if err != nil {
		e.res.Note("cannot read replay file: %v", err)
		return
	}
	var rp struct {
		Case progCase `json:"case"`
	}
	if err := json.Unmarshal(bs, &rp); err != nil || len(rp.Case.Files) == 0 {
		e.res.Note("replay file has no C02 case: %v", err)
		return
	}
	var ds []data.Map
	if rp.Case.Data != "" {
		v, err := sexpToValue(rp.Case.Data, map[int]data.Value{})
		if err != nil {
			e.res.Note("cannot decode the replay data: %v", err)
			return
		}
		if m, ok := v.(data.Map); ok {
			ds = append(ds, m)
		} else {
			ds = append(ds, data.Map{})
		}
	}
	c02Bundle(e, rp.Case.Files, rp.Case.Template, ds, map[string]int{"let": 1}, true)
}

// atoiHash reads a "#<int>" field of a model response (0 if malformed).
func atoiHash(s string) int {
	n := 0
	for _, c := range strings.TrimPrefix(s, "#") {
		if c < '0' || c > '9' {
			return 0
		}
		n = n*10 + int(c-'0')
	}
	return n
}

var (
	c02NsRe    = regexp.MustCompile(`\{namespace\s+([\w.]+)`)
	c02AliasRe = regexp.MustCompile(`\{alias\s+([\w.]+)\s*\}`)
	c02CallRe  = regexp.MustCompile(`\{call\s+(?:name="([^"]+)"|([.\w]+))`)
	c02LitRe   = regexp.MustCompile(`(?s)\{literal\}(.*?)\{/literal\}`)
)

func c02WalkAll(n ast.Node, f func(ast.Node)) {
	if n == nil {
		return
	}
	if v := reflect.ValueOf(n); v.Kind() == reflect.Ptr && v.IsNil() {
		return
	}
	f(n)
	if p, ok := n.(ast.ParentNode); ok {
		for _, c := range p.Children() {
			c02WalkAll(c, f)
		}
	}
}

// c02Names ties Model/Parser.v resolve_name (about which call_name_resolution is proved) to parse.go: for every
// file, the names written in its {call} tags (read off the generated source text), resolved by the extracted model
// against the file's namespace and aliases, must be the names the CallNodes of the parsed file carry.
func c02Names(e *env, files []srcFile, reg *template.Registry) {
	for _, f := range files {
		ns := ""
		if m := c02NsRe.FindStringSubmatch(f.Text); m != nil {
			ns = m[1]
		}
		var als []string
		for _, m := range c02AliasRe.FindAllStringSubmatch(f.Text, -1) {
			full := m[1]
			als = append(als, hx.H(full[strings.LastIndex(full, ".")+1:])+"="+hx.H(full))
		}
		alf := "-"
		if len(als) > 0 {
			alf = strings.Join(als, ",")
		}
		var want []string
		for _, m := range c02CallRe.FindAllStringSubmatch(f.Text, -1) {
			written := m[1]
			if written == "" {
				written = m[2]
			}
			r := e.m.Call("resolve_name", hx.H(ns), alf, hx.H(written))
			if len(r) != 1 {
				e.res.Fail(hx.Violation{Kind: "mismatch", What: "model resolve_name failed", Case: progCase{Files: files}, Observed: fmt.Sprint(r)}, "")
				return
			}
			want = append(want, hx.UnH(r[0]))
			switch {
			case written[0] == '.':
				e.res.Histogram["names:relative"]++
			case hx.UnH(r[0]) != written:
				e.res.Histogram["names:aliased"]++
			default:
				e.res.Histogram["names:fully-qualified"]++
			}
		}
		var got []string
		raw := map[string]int{}
		for _, sf := range reg.SoyFiles {
			if sf.Name != f.Name {
				continue
			}
			for _, n := range sf.Body {
				c02WalkAll(n, func(n ast.Node) {
					if c, ok := n.(*ast.CallNode); ok {
						got = append(got, c.Name)
					}
					if t, ok := n.(*ast.RawTextNode); ok {
						raw[string(t.Text)]++
					}
				})
			}
		}
		// literal_tag (Properties/C02.v): the body of every {literal} block of the source text is the text of a raw-text
		// node of the parsed file, byte for byte (no line joining, no comments, no tags)
		for _, m := range c02LitRe.FindAllStringSubmatch(f.Text, -1) {
			e.res.Histogram["literal-blocks"]++
			if raw[m[1]] == 0 {
				e.res.Fail(hx.Violation{Kind: "oracle", What: "a {literal} block does not reach the syntax tree byte for byte", Case: progCase{Files: files}, Expected: hx.Q(m[1])}, "")
			} else {
				raw[m[1]]--
			}
		}
		sort.Strings(want)
		sort.Strings(got)
		if strings.Join(want, " ") != strings.Join(got, " ") {
			e.res.Fail(hx.Violation{Kind: "mismatch", What: "call names of the parsed file differ from the model's resolution (Model/Parser.v resolve_name) of the written names", Case: progCase{Files: files}, Expected: strings.Join(want, " "), Observed: strings.Join(got, " ")}, "")
		}
	}
}
