//go:build c09

package main

// C09, wave 3: JavaScript generations that do NOT complete, next to and followed by ones that do.
//
//   * c09BadJSFile: a file whose first template is fine and whose second template prints through a
//     directive soyjs does not know: soyjs.Write fails half way, with the text of the first template
//     already generated (whatever Write keeps between calls -- pooled buffers, a cached state -- is
//     left in that state);
//   * c09JSFailing: soyjs.Write of a good file into a writer that accepts a few bytes and then fails
//     (a client that went away): outcome and the bytes that reached the writer are compared with the
//     same call alone.
//
// Every successful generation that follows or runs beside them must still write its solo bytes
// (c09RunCase: keys js|..|0-3, jsbad|..).

import (
	"encoding/hex"
	"sync"

	"github.com/robfig/soy/ast"
	"github.com/robfig/soy/parse"
	"github.com/robfig/soy/soyjs"
	"github.com/robfig/soy/soymsg"
)

const c09BadJSText = `{namespace c09.bad}

/** @param account */
{template .first}
PRIVATE-{$account}-aaaaaaaaaaaaaaaaaaaaaaaaaaaaaaaaaaaaaaaaaaaaaaaaaaaaaaaaaaaaaaaaaaaaaaaaaaaaaaaaaaaaaaaaaaaaaaaaaaaaaaaaaaaaaaaaaaaaaaaaaaaaaaa
{foreach $x in $account.items}<li>{$x|truncate:7}{index($x)}</li>{/foreach}{length($account.items)}
{/template}

/** @param account */
{template .second}
{$account|c09DirectiveUnknownToSoyjs}
{/template}
`

var (
	c09BadOnce sync.Once
	c09BadTree *ast.SoyFileNode
)

// parsed once per process, before the goroutines of a case start (c09RunCase calls it first)
func c09BadJSFile() *ast.SoyFileNode {
	c09BadOnce.Do(func() {
		if tree, err := parse.SoyFile("c09bad.soy", c09BadJSText); err == nil {
			c09BadTree = tree
		}
	})
	return c09BadTree
}

// where the failing writer of file k gives up (independent of the output)
func c09JSLimit(k int) int { return 60 + 41*(k%5) }

// soyjs.Write (ES5) into a writer that fails after limit bytes: outcome + what reached the writer
func c09JSFailing(f *ast.SoyFileNode, msgs soymsg.Bundle, limit int) (res string) {
	w := &c09Writer{limit: limit}
	defer func() {
		if p := recover(); p != nil {
			res = "panic:" + hex.EncodeToString(w.buf.Bytes())
		}
	}()
	if err := soyjs.Write(w, f, soyjs.Options{Messages: msgs}); err != nil {
		return "err:" + hex.EncodeToString(w.buf.Bytes())
	}
	return "ok:" + hex.EncodeToString(w.buf.Bytes())
}
