//go:build c17

package main

// Expression generator of C17 (also used for the parser correspondence that C01
// relies on): a tree of generator nodes, rendered to Soy source with the
// parentheses the grammar requires plus optional redundant ones, and with
// several spacing styles.  All randomness comes from the *hx.Rand given.

import (
	"fmt"
	"strings"

	"soyverif/internal/hx"
)

type c17Acc struct {
	Kind string // "key" "idx" "exp"
	NS   bool
	Text string   // key name or index digits
	E    *c17Node // for exp
}

type c17Node struct {
	K    string // null bool int float str global func list map ref not neg bin tern
	S    string // literal source text / name / operator
	Kids []*c17Node
	Keys []string // map: source text of each key literal
	Acc  []c17Acc
}

type c17Gen struct {
	r     *hx.Rand
	feats map[string]int
	wild  bool // also produce literals that are rejected (bad escapes, overflow, ...)
}

var c17BinOps = []string{"*", "/", "%", "+", "-", "<", ">", "<=", ">=", "==", "!=", "and", "or", "?:"}

func c17Level(op string) int {
	switch op {
	case "*", "/", "%":
		return 7
	case "+", "-":
		return 6
	case "<", ">", "<=", ">=":
		return 5
	case "==", "!=":
		return 4
	case "and":
		return 3
	case "or":
		return 2
	case "?:":
		return 0
	}
	return -1
}

// level of a node as an operand: primaries and unary operators bind tightest.
func (n *c17Node) level() int {
	switch n.K {
	case "bin":
		return c17Level(n.S)
	case "tern":
		return -1
	case "not", "neg":
		return 8
	}
	return 9
}

var c17Idents = []string{"a", "b", "foo", "bar", "x1", "_y", "camelCase", "data", "item", "nullx", "andy", "notable", "ort", "truely", "i"}
var c17Funcs = []string{"length", "keys", "round", "min", "max", "f", "isFirst", "augmentMap", "range", "strContains"}
var c17Ints = []string{"0", "1", "2", "7", "10", "42", "100", "255", "65536", "1234567890123", "9223372036854775807",
	"-1", "-3", "-42", "-9223372036854775808", "0x1A", "0xFF", "0x10", "0x0", "0x00F", "0x7FFFFFFFFFFFFFFF"}
var c17WildInts = []string{"9223372036854775808", "-9223372036854775809", "0xFFFFFFFFFFFFFFFF", "99999999999999999999", "007", "0x", "0xg", "1a"}
var c17Floats = []string{"0.5", "1.0", "2.25", "3.0", "0.125", "12.75", "100.5", "0.0", "-0.5", "-2.0", "-0.0", "1e3", "2.5e-1", "1.5e+2", "5e-1",
	"1e6", "1e21", "1.25e10", "-1e3", "-7.5e-1", "1000000.0", "123456.5", "0.0009765625", "6e0", "4e+0"}
var c17WildFloats = []string{"0.1", "3.14", "1e-7", "1e400", "1e-400", "2.5e", "1.", "1.e3"}
var c17Strs = []string{`''`, `'a'`, `'hello world'`, `'it\'s'`, `'back\\slash'`, `'line\nbreak'`, `'tab\there'`, `'\r\b\f'`,
	`'é'`, `'日本語'`, `'日x'`, `'a"b'`, `'<b>&amp;'`, `'{$x'`, `'?:'`, `'a, b: c'`, `'[1]'`, `' '`, `'😀'`,
	`'q\\\'q'`, `'1'`, `'-1'`, `'null'`}
var c17WildStrs = []string{`'''`, `"dq"`, `'\q'`, `'\u12'`, `'\uZZZZ'`, `'\u-001'`, `'\u+0e9'`, `'\ud800'`, "'raw\nnl'", `'\'`, `'a\`, `'\xff'`, "'\xff'", "'\\\xc3'", `'é\'`}
var c17Keys = []string{`'a'`, `'b'`, `'key'`, `'k1'`, `'it\'s'`, `'a b'`, `''`, `'é'`, `'x\\y'`, `'A'`, `'n\nl'`, `'c'`, `'d'`, `'q"q'`}

func (g *c17Gen) feat(s string) { g.feats[s]++ }
func (g *c17Gen) pick(l []string) string { return l[g.r.Intn(len(l))] }

func (g *c17Gen) leaf() *c17Node {
	switch g.r.Intn(12) {
	case 0:
		g.feat("null")
		return &c17Node{K: "null", S: "null"}
	case 1:
		g.feat("bool")
		return &c17Node{K: "bool", S: g.pick([]string{"true", "false"})}
	case 2, 3:
		g.feat("int")
		if g.wild && g.r.Chance(15) {
			g.feat("int:wild")
			return &c17Node{K: "int", S: g.pick(c17WildInts)}
		}
		if g.r.Chance(30) {
			v := int64(g.r.U64() >> uint(1+g.r.Intn(62)))
			if g.r.Chance(30) {
				v = -v
			}
			return &c17Node{K: "int", S: fmt.Sprint(v)}
		}
		return &c17Node{K: "int", S: g.pick(c17Ints)}
	case 4:
		g.feat("float")
		if g.wild && g.r.Chance(15) {
			g.feat("float:wild")
			return &c17Node{K: "float", S: g.pick(c17WildFloats)}
		}
		if g.r.Chance(30) {
			// a random dyadic with a short decimal expansion: k / 2^j, j <= 6
			j := g.r.Intn(7)
			k := int64(g.r.Intn(1 << 16))
			s := strings.TrimRight(fmt.Sprintf("%.6f", float64(k)/float64(int64(1)<<uint(j))), "0")
			if strings.HasSuffix(s, ".") {
				s += "0"
			}
			if g.r.Chance(25) {
				s = "-" + s
			}
			return &c17Node{K: "float", S: s}
		}
		return &c17Node{K: "float", S: g.pick(c17Floats)}
	case 5, 6:
		g.feat("str")
		if g.wild && g.r.Chance(15) {
			g.feat("str:wild")
			return &c17Node{K: "str", S: g.pick(c17WildStrs)}
		}
		return &c17Node{K: "str", S: g.pick(c17Strs)}
	case 7:
		g.feat("global")
		name := g.pick(c17Idents)
		for g.r.Chance(35) {
			name += "." + g.pick(c17Idents)
		}
		return &c17Node{K: "global", S: name}
	default:
		g.feat("ref")
		return &c17Node{K: "ref", S: g.pick(append([]string{"ij"}, c17Idents...))}
	}
}

func (g *c17Gen) node(d int) *c17Node {
	if d <= 0 || g.r.Chance(18) {
		return g.leaf()
	}
	switch g.r.Intn(16) {
	case 0, 1, 2, 3, 4, 5:
		op := g.pick(c17BinOps)
		g.feat("bin:" + op)
		return &c17Node{K: "bin", S: op, Kids: []*c17Node{g.node(d - 1), g.node(d - 1)}}
	case 6:
		g.feat("not")
		return &c17Node{K: "not", Kids: []*c17Node{g.node(d - 1)}}
	case 7:
		g.feat("neg")
		return &c17Node{K: "neg", Kids: []*c17Node{g.node(d - 1)}}
	case 8, 9:
		g.feat("tern")
		return &c17Node{K: "tern", Kids: []*c17Node{g.node(d - 1), g.node(d - 1), g.node(d - 1)}}
	case 10:
		g.feat("func")
		n := &c17Node{K: "func", S: g.pick(c17Funcs)}
		for i, k := 0, g.r.Intn(4); i < k; i++ {
			n.Kids = append(n.Kids, g.node(d-1))
		}
		return n
	case 11:
		g.feat("list")
		n := &c17Node{K: "list"}
		for i, k := 0, g.r.Intn(4); i < k; i++ {
			n.Kids = append(n.Kids, g.node(d-1))
		}
		return n
	case 12:
		g.feat("map")
		n := &c17Node{K: "map"}
		for i, k := 0, g.r.Intn(4); i < k; i++ {
			key := g.pick(c17Keys)
			if g.wild && g.r.Chance(8) {
				key = g.pick([]string{"1", "$k", `"dq"`, `'\q'`, "'a' + 'b'"})
				g.feat("map:wildkey")
			}
			n.Keys = append(n.Keys, key)
			n.Kids = append(n.Kids, g.node(d-1))
		}
		return n
	default:
		g.feat("ref+access")
		n := &c17Node{K: "ref", S: g.pick(append([]string{"ij"}, c17Idents...))}
		for i, k := 0, 1+g.r.Intn(3); i < k; i++ {
			ns := g.r.Chance(35)
			switch g.r.Intn(3) {
			case 0:
				n.Acc = append(n.Acc, c17Acc{Kind: "key", NS: ns, Text: g.pick(c17Idents)})
			case 1:
				idx := g.pick([]string{"0", "1", "2", "10", "007", "123456789"})
				if g.wild && g.r.Chance(10) {
					idx = g.pick([]string{"99999999999999999999", "1a", "0x1"})
				}
				n.Acc = append(n.Acc, c17Acc{Kind: "idx", NS: ns, Text: idx})
			default:
				n.Acc = append(n.Acc, c17Acc{Kind: "exp", NS: ns, E: g.node(d - 1)})
			}
		}
		return n
	}
}

// c17Style: how source is written.
type c17Style struct {
	r         *hx.Rand
	redundant int  // percent chance of a redundant pair of parentheses around any operand
	tight     bool // no spaces around symbolic operators and separators
	sloppy    bool // random extra whitespace
}

func (st *c17Style) sp() string {
	if st.sloppy && st.r.Chance(30) {
		return st.r.Pick([]string{"  ", " \t", "\n", " \r\n "})
	}
	return " "
}

func (st *c17Style) osp() string { // optional space
	if st.tight {
		return ""
	}
	return st.sp()
}

func (st *c17Style) wrap(s string, need bool) string {
	if need || (st.redundant > 0 && st.r.Chance(st.redundant)) {
		return "(" + st.pad() + s + st.pad() + ")"
	}
	return s
}

func (st *c17Style) pad() string {
	if st.sloppy && st.r.Chance(20) {
		return " "
	}
	return ""
}

func startsWithDigit(s string) bool { return s != "" && s[0] >= '0' && s[0] <= '9' }

// src renders the tree so that it parses back to this tree (when every literal is accepted).
func (st *c17Style) src(n *c17Node) string {
	switch n.K {
	case "null", "bool", "int", "float", "str", "global":
		return n.S
	case "func":
		var a []string
		for _, k := range n.Kids {
			a = append(a, st.wrap(st.src(k), false))
		}
		return n.S + "(" + st.pad() + strings.Join(a, ","+st.osp()) + st.pad() + ")"
	case "list":
		var a []string
		for _, k := range n.Kids {
			a = append(a, st.wrap(st.src(k), false))
		}
		return "[" + st.pad() + strings.Join(a, ","+st.osp()) + st.pad() + "]"
	case "map":
		if len(n.Kids) == 0 {
			return "[" + st.pad() + ":" + st.pad() + "]"
		}
		var a []string
		for i, k := range n.Kids {
			a = append(a, n.Keys[i]+st.pad()+":"+st.osp()+st.wrap(st.src(k), false))
		}
		return "[" + st.pad() + strings.Join(a, ","+st.osp()) + st.pad() + "]"
	case "ref":
		s := "$" + n.S
		for _, a := range n.Acc {
			q := ""
			if a.NS {
				q = "?"
			}
			switch a.Kind {
			case "key", "idx":
				s += q + "." + a.Text
			default:
				s += q + "[" + st.pad() + st.wrap(st.src(a.E), false) + st.pad() + "]"
			}
		}
		return s
	case "not":
		k := n.Kids[0]
		inner := st.wrap(st.src(k), k.level() < 8)
		if strings.HasPrefix(inner, "(") && st.tight {
			return "not" + inner
		}
		return "not" + st.sp() + inner
	case "neg":
		k := n.Kids[0]
		inner := st.wrap(st.src(k), k.level() < 8)
		if startsWithDigit(inner) {
			// "-5" would be the literal -5
			if st.r.Bool() {
				return "-(" + inner + ")"
			}
			return "- " + inner
		}
		return "-" + st.pad() + inner
	case "bin":
		l, r := n.Kids[0], n.Kids[1]
		lv := c17Level(n.S)
		ls := st.wrap(st.src(l), l.level() < lv)
		rs := st.wrap(st.src(r), r.level() <= lv)
		switch n.S {
		case "and", "or":
			return ls + st.sp() + n.S + st.sp() + rs
		}
		return ls + st.osp() + n.S + st.osp() + rs
	case "tern":
		c, a, b := n.Kids[0], n.Kids[1], n.Kids[2]
		cs := st.wrap(st.src(c), c.level() < 0)
		as := st.wrap(st.src(a), false)
		bs := st.wrap(st.src(b), false)
		q := "?" + st.osp()
		if as[0] == '[' || as[0] == '.' || as[0] == ':' {
			q = "? " // "?[" and "?." and "?:" are single tokens
		}
		return cs + st.osp() + q + as + st.osp() + ":" + st.osp() + bs
	}
	panic("c17: unknown generator node " + n.K)
}

// directive chain for print commands
func (g *c17Gen) directives(st *c17Style, d int) string {
	s := ""
	for i, k := 0, g.r.Intn(3); i < k; i++ {
		s += st.pad() + "|" + st.pad() + g.pick([]string{"escapeHtml", "noAutoescape", "id", "truncate", "insertWordBreaks", "foo", "changeNewlineToBr"})
		for j, m := 0, g.r.Intn(3); j < m; j++ {
			sep := ","
			if j == 0 {
				sep = ":"
			}
			arg := g.node(d)
			if g.r.Chance(35) { // outermost operator ternary / elvis / low-precedence binary
				switch g.r.Intn(3) {
				case 0:
					arg = &c17Node{K: "tern", Kids: []*c17Node{g.node(d), g.node(d), g.node(d)}}
					g.feat("directive-arg:tern")
				case 1:
					arg = &c17Node{K: "bin", S: "?:", Kids: []*c17Node{g.node(d), g.node(d)}}
					g.feat("directive-arg:elvis")
				default:
					arg = &c17Node{K: "bin", S: g.pick([]string{"or", "and", "==", "+"}), Kids: []*c17Node{g.node(d), g.node(d)}}
				}
			}
			as := st.src(arg)
			if g.r.Chance(50) {
				as = "(" + as + ")"
				g.feat("directive-arg:parenthesised")
			}
			s += st.pad() + sep + st.osp() + as
		}
		g.feat("directive")
	}
	return s
}

// mutate damages a source string (malformed stream).
func c17Mutate(r *hx.Rand, s string) string {
	const alphabet = "()[]?:.,$'\"-+*/%<>=!| \t\n\\0123456789abenotruxyAF_&{é"
	bs := []byte(s)
	for i, k := 0, 1+r.Intn(3); i < k; i++ {
		if len(bs) == 0 {
			bs = append(bs, alphabet[r.Intn(len(alphabet))])
			continue
		}
		p := r.Intn(len(bs))
		switch r.Intn(4) {
		case 0:
			bs = append(bs[:p], bs[p+1:]...)
		case 1:
			c := alphabet[r.Intn(len(alphabet))]
			bs = append(bs[:p], append([]byte{c}, bs[p:]...)...)
		case 2:
			bs[p] = alphabet[r.Intn(len(alphabet))]
		default:
			q := r.Intn(len(bs))
			bs[p], bs[q] = bs[q], bs[p]
		}
	}
	return string(bs)
}

// c17Unsafe: inputs on which the pinned scanner does not terminate or kills the
// process (lexCss / lexLiteral / lexHeaderParam / the template-mode states that
// follow a right brace); those belong to C05, not here.
func c17Unsafe(s string) bool {
	return strings.Contains(s, "css") || strings.Contains(s, "literal") || strings.ContainsAny(s, "@}")
}

// flipCase flips the case of one ASCII letter of s (message-level oracle: sources that
// differ only in letter case).
func c17FlipCase(r *hx.Rand, s string) string {
	var idx []int
	for i := 0; i < len(s); i++ {
		c := s[i]
		if (c >= 'a' && c <= 'z') || (c >= 'A' && c <= 'Z') {
			idx = append(idx, i)
		}
	}
	if len(idx) == 0 {
		return s
	}
	i := idx[r.Intn(len(idx))]
	bs := []byte(s)
	bs[i] ^= 0x20
	return string(bs)
}
