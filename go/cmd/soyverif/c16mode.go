//go:build c16

package main

// C16, "singly and chained" under AUTOESCAPING: the same chains as the main pass, but
// in a namespace with the default autoescape mode.  The Spec (property C03's text):
// a chain that contains an autoescape-cancelling directive (the HTML-producing
// escapeHtml, changeNewlineToBr, insertWordBreaks; noAutoescape/id; the other
// encodings escapeUri, escapeJsString, json) is written exactly as under
// autoescape="false" -- once cancelled, a later directive (truncate) does not bring
// the escaping back, so e.g. {$x|escapeJsString|truncate:100} still evaluates to the
// value -- and a chain without one is the HTML-escaped text of the chain's result.

import (
	"strings"

	"soyverif/internal/hx"
)

var c16Cancels = map[string]bool{"escapeHtml": true, "changeNewlineToBr": true, "insertWordBreaks": true, "noAutoescape": true, "id": true,
	"escapeUri": true, "escapeJsString": true, "json": true}

func c16Esc5(s string) string {
	return strings.NewReplacer("&", "&amp;", "<", "&lt;", ">", "&gt;", "\"", "&#34;", "'", "&#39;").Replace(s)
}

func c16AutoescapeOn(e *env, g *c16Go, cases []c16Case) {
	src := strings.Replace(c16Source(), "{namespace c16 autoescape=\"false\"}", "{namespace c16on}", 1)
	files := []srcFile{{"c16on.soy", src}}
	tofu, err := compile(files)
	if err != nil {
		c16Fail(e, hx.Violation{Kind: "oracle", What: "C16 bundle (default autoescape) does not compile", Case: files, Observed: errStr(err)}, "")
		return
	}
	n := 0
	for i, c := range cases {
		if len(c.x) > 4096 || (len(c.ds) == 1 && i%7 != 0) {
			continue // every chain of two, a sample of the single directives
		}
		off := g.run(c.x, c.ds)
		out, rerr := render(tofu, "c16on."+c16TemplateName(c.ds), c16Data(c.x, c.ds), nil)
		n++
		e.res.Count("on:"+c16Key(c.x, c.ds), true, "autoescape-on:"+c.class)
		if (off.err == nil) != (rerr == nil) {
			c16Fail(e, hx.Violation{Kind: "oracle", What: "a directive chain errors under one autoescape mode and not under the other", Case: c16CaseJSON(c, src),
				Expected: errStr(off.err), Observed: errStr(rerr)}, "")
			continue
		}
		if rerr != nil {
			continue
		}
		cancelled := false
		for _, d := range c.ds {
			if c16Cancels[d.Name] {
				cancelled = true
			}
		}
		want := off.out
		what := "a chain containing an autoescape-cancelling directive is not written as under autoescape=\"false\" (escaping came back after the cancelling directive)"
		if !cancelled {
			want = c16Esc5(off.out)
			what = "a chain without a cancelling directive is not the HTML-escaped text of its result"
		}
		if out != want {
			c16Fail(e, hx.Violation{Kind: "oracle", What: what, Case: c16CaseJSON(c, src), Expected: hx.Q(trunc(want)), Observed: hx.Q(trunc(out))}, "")
		}
	}
	e.res.Histogram["autoescape-on-cases"] = n
}
