//go:build c16

package main

// C16, directive ARGUMENTS: a directive is a function of (value, arguments), and the arguments of a print are
// expressions evaluated each time the print runs.  The main pass renders every (x, chain, arguments) in a render
// of its own; here the same print node runs SEVERAL TIMES IN ONE RENDER with different values and different
// arguments -- inside {foreach} over a list of records, and in a template {call}ed once per record after the
// caller has already run a directive with a literal argument -- and each run must write exactly what the render
// of its own wrote.  (An implementation that evaluates "constant looking" arguments once per render, seeded
// change C16b-2, writes the first record's arguments for all of them.)  Pure oracle on the implementation: the
// expected text is the concatenation of the implementation's own single renders (which the main pass compares
// with the model and with the property's clauses).

import (
	"fmt"
	"strings"

	"github.com/robfig/soy/data"

	"soyverif/internal/hx"
)

// c16LoopSource: per chain shape with at least one argument, a foreach template and a caller template.
func c16LoopSource() string {
	var sb strings.Builder
	emit := func(shapes []c16Shape) {
		hasArg := false
		name, chain := "", ""
		for i, s := range shapes {
			name += fmt.Sprintf("_%d", c16ShapeIx(c16Dir{Name: s.Name, NArgs: s.NArgs}))
			chain += "|" + s.Name
			if s.NArgs >= 1 {
				hasArg = true
				chain += fmt.Sprintf(":$p.n%d", i+1)
			}
			if s.NArgs == 2 {
				chain += fmt.Sprintf(",$p.e%d", i+1)
			}
		}
		if !hasArg {
			return
		}
		sb.WriteString("\n/**\n * @param ps\n */\n{template .l" + name + "}\n{foreach $p in $ps}{$p.x" + chain + "}|{/foreach}\n{/template}\n")
		sb.WriteString("\n/**\n * @param ps\n * @param pad\n */\n{template .c" + name + "}\n{$pad|truncate:1}{foreach $p in $ps}{call .t" + name + " data=\"$p\"/}|{/foreach}\n{/template}\n")
	}
	for _, s := range c16Shapes {
		emit([]c16Shape{s})
	}
	for _, s := range c16Shapes {
		for _, t := range c16Shapes {
			emit([]c16Shape{s, t})
		}
	}
	return sb.String()
}

func c16Loops(e *env, g *c16Go, src string, cases []c16Case) {
	groups := map[string][]c16Case{}
	var order []string
	for _, c := range cases {
		hasArg := false
		for _, d := range c.ds {
			if d.NArgs >= 1 {
				hasArg = true
			}
		}
		if !hasArg || len(c.x) > 512 {
			continue
		}
		k := c16TemplateName(c.ds)
		if _, ok := groups[k]; !ok {
			order = append(order, k)
		}
		groups[k] = append(groups[k], c)
	}
	n := 0
	for _, k := range order {
		cs := groups[k]
		rounds := 6 * e.scale
		if len(cs) < 2 {
			continue
		}
		for r := 0; r < rounds; r++ {
			cnt := 2 + e.rng.Intn(4)
			var pick []c16Case
			var ps data.List
			want := ""
			for len(pick) < cnt {
				var c c16Case
				if r == 0 && len(pick) > 0 && e.rng.Chance(50) {
					// same value, other arguments: the arguments alone must make the difference
					c0 := pick[0]
					c = cs[e.rng.Intn(len(cs))]
					c.x = c0.x
				} else {
					c = cs[e.rng.Intn(len(cs))]
				}
				o := g.run(c.x, c.ds)
				if o.err != nil {
					cnt--
					continue
				}
				pick = append(pick, c)
				ps = append(ps, c16Data(c.x, c.ds))
				want += o.out + "|"
			}
			if len(pick) < 2 {
				continue
			}
			for _, kind := range []string{"l", "c"} {
				tn := "c16." + kind + strings.TrimPrefix(k, "t")
				out, err := render(g.tofu, tn, data.Map{"ps": ps, "pad": data.String("pad")}, nil)
				exp := want
				if kind == "c" {
					exp = "p" + want // {$pad|truncate:1}: a limit of at most 3 drops the ellipsis
				}
				n++
				e.res.Count("loop:"+tn+fmt.Sprint(r), true, "go:loop:"+kind)
				if err != nil || out != exp {
					var recs []map[string]string
					for _, c := range pick {
						recs = append(recs, map[string]string{"x": hx.Q(trunc(c.x)), "chain": fmt.Sprint(c.ds), "alone": hx.Q(trunc(g.run(c.x, c.ds).out))})
					}
					c16Fail(e, hx.Violation{Kind: "oracle",
						What:     "a print whose directive arguments are expressions, executed several times in one render (" + map[string]string{"l": "foreach", "c": "call per record"}[kind] + "), does not write each time what a render of its own writes",
						Case:     map[string]interface{}{"template": tn, "records": recs, "source": src},
						Expected: hx.Q(trunc(exp)), Observed: hx.Q(trunc(out)) + " " + firstLine(errStr(err))}, "")
				}
			}
		}
	}
	e.res.Histogram["loop-renders"] = n
}
