//go:build c11

package main

// C11: the message generator (progMsgHook), the locales and the translations
// (identity / reversed / partial) with the plain Soy code they must be
// equivalent to.  The run itself is in c11.go.

import (
	"fmt"
	"regexp"
	"strconv"
	"strings"

	"github.com/robfig/soy/ast"
	"github.com/robfig/soy/data"
)

// ---------------------------------------------------------------------------
// message generator (progMsgHook)

type c11Part struct {
	Ph   bool   `json:"ph"`
	Src  string `json:"src"`            // Soy source of the part
	Text string `json:"text,omitempty"` // text parts: the bytes it renders
}

type c11Case struct {
	Value int       `json:"value"`
	Parts []c11Part `json:"parts"`
}

type c11Msg struct {
	Idx        int       `json:"idx"`
	Meaning    string    `json:"meaning,omitempty"`
	Plural     bool      `json:"plural,omitempty"`
	PluralExpr string    `json:"plural_expr,omitempty"`
	Cases      []c11Case `json:"cases,omitempty"`  // explicit cases of the plural
	Body       []c11Part `json:"body"`             // flat body, or the {default} case
	NestedSrc  string    `json:"nested,omitempty"` // a plural nested in the first case (source text)
	Tags       []string  `json:"tags,omitempty"`   // triggers: lookalike, empty, nested, badplural, parens, descnl
	Desc       string    `json:"desc,omitempty"`   // appended to the generated description (source text of the attribute)
}

func (m *c11Msg) has(tag string) bool {
	for _, t := range m.Tags {
		if t == tag {
			return true
		}
	}
	return false
}

var c11Msgs []*c11Msg
var c11Rates = struct{ lookalike, empty, nested, badplural, parens, twin int }{3, 5, 15, 15, 4, 110} // per mille of messages

func c11Token(i int) string { return fmt.Sprintf("@@MSG%d@@", i) }

var c11TokenRe = regexp.MustCompile(`@@MSG(\d+)@@`)

func c11MsgHook(g *progGen, env genv, d int) string {
	m := &c11Msg{Idx: len(c11Msgs)}
	c11Msgs = append(c11Msgs, m)
	r := g.r
	if r.Chance(15) {
		m.Meaning = "m" + fmt.Sprint(r.Intn(3))
	}
	pm := func(rate int) bool { return r.Intn(1000) < rate }
	switch {
	case pm(c11Rates.empty):
		m.Tags = append(m.Tags, "empty")
		g.feat("msg-empty")
	case r.Chance(30):
		m.Plural = true
		g.feat("plural")
		m.PluralExpr = c11PluralExpr(g, env)
		if pm(c11Rates.badplural) {
			m.Tags = append(m.Tags, "badplural")
			g.feat("plural-not-po")
			switch r.Intn(3) {
			case 0: // no explicit case
			case 1:
				m.Cases = []c11Case{{2 * r.Intn(2), m.genParts(g, env, 1+r.Intn(2))}}
			default:
				m.Cases = []c11Case{{1, m.genParts(g, env, 1+r.Intn(2))}, {2, m.genParts(g, env, 1)}}
			}
		} else {
			m.Cases = []c11Case{{1, m.genParts(g, env, 1+r.Intn(3))}}
			if pm(c11Rates.nested) {
				m.Tags = append(m.Tags, "nested")
				g.feat("plural-nested")
				m.NestedSrc = "{plural " + c11PluralExpr(g, env) + "}{case 1}in1{default}inN{/plural}"
			}
		}
		m.Body = m.genParts(g, env, 1+r.Intn(3))
	default:
		m.Body = m.genParts(g, env, 1+r.Intn(5))
	}
	tok := c11Token(m.Idx)
	if tw := m.twin(g, env); tw != nil {
		tok += c11Token(tw.Idx)
	}
	return tok
}

// twin generates, next to m, a second message with the same meaning whose PO entry has the SAME msgid
// (the same singular text) although it is another message with another id: a plain message with the
// text of a plural's {case 1}, or a plural that differs in its {default} text or in its plural
// variable only.  A catalogue must carry both, and each must get its own translation.
func (m *c11Msg) twin(g *progGen, env genv) *c11Msg {
	r := g.r
	if m.has("empty") || m.has("badplural") || m.has("nested") || r.Intn(1000) >= c11Rates.twin {
		return nil
	}
	tw := &c11Msg{Idx: len(c11Msgs), Meaning: m.Meaning}
	c11Msgs = append(c11Msgs, tw)
	switch {
	case !m.Plural:
		tw.Plural, tw.PluralExpr = true, c11PluralExpr(g, env)
		tw.Cases = []c11Case{{1, m.Body}}
		tw.Body = tw.genParts(g, env, 1+r.Intn(3))
		g.feat("msg-twin-plural-of-plain")
	case r.Intn(3) == 0:
		tw.Body = m.Cases[0].Parts
		g.feat("msg-twin-plain-of-plural")
	case r.Intn(2) == 0:
		tw.Plural, tw.PluralExpr = true, m.PluralExpr
		tw.Cases = []c11Case{{1, m.Cases[0].Parts}}
		tw.Body = tw.genParts(g, env, 1+r.Intn(3))
		g.feat("msg-twin-plural-other-default")
	default:
		tw.Plural, tw.PluralExpr = true, c11PluralExpr(g, env)
		tw.Cases = []c11Case{{1, m.Cases[0].Parts}}
		tw.Body = m.Body
		g.feat("msg-twin-plural-other-var")
	}
	return tw
}

func c11PluralExpr(g *progGen, env genv) string {
	ints := env.ofKind(kInt)
	lists := env.ofKind(kListInt)
	switch c := g.r.Intn(10); {
	case c < 5 && len(ints) > 0:
		return g.use(ints[g.r.Intn(len(ints))])
	case c < 7 && len(ints) > 0:
		return g.use(ints[g.r.Intn(len(ints))]) + " + " + g.r.Pick([]string{"20", "10", "1", "100"})
	case c < 8 && len(lists) > 0:
		return "length(" + g.use(lists[g.r.Intn(len(lists))]) + ")"
	}
	return g.r.Pick([]string{"1", "2", "5", "21", "0", "11", "22"})
}

var c11Words = []string{"Hello ", "you have ", " items", "x", " and ", " - ", "é!", "a&b ", "it's ", "\"q\" ", "OK ", "1 of 2", "NAME", " (", ") ", "a=b;", "%s "}

func c11Text(t string) c11Part { return c11Part{Src: t, Text: t} }

func (m *c11Msg) genParts(g *progGen, env genv, n int) []c11Part {
	r := g.r
	var ps []c11Part
	printable := append(env.ofKind(kInt), env.ofKind(kStr)...)
	ints := env.ofKind(kInt)
	strs := env.ofKind(kStr)
	recs := env.ofKind(kRec)
	anyVar := func() c11Part {
		if len(printable) == 0 {
			return c11Part{Ph: true, Src: "{" + g.r.Pick([]string{"1", "'lit'", "2 + 3"}) + "}"}
		}
		return c11Part{Ph: true, Src: "{" + g.use(printable[r.Intn(len(printable))]) + "}"}
	}
	for i := 0; i < n; i++ {
		switch c := r.Intn(14); {
		case c < 3:
			ps = append(ps, c11Text(r.Pick(c11Words)))
			g.feat("msg-text")
		case c < 6:
			ps = append(ps, anyVar())
			g.feat("msg-print")
		case c < 7:
			if len(recs) > 0 {
				ps = append(ps, c11Part{Ph: true, Src: "{" + g.use(recs[r.Intn(len(recs))]) + r.Pick([]string{".a", ".b", ".c[0]"}) + "}"})
				g.feat("msg-field")
			} else {
				ps = append(ps, anyVar())
			}
		case c < 8:
			if len(ints) > 0 {
				v := g.use(ints[r.Intn(len(ints))])
				ps = append(ps, c11Part{Ph: true, Src: "{" + v + r.Pick([]string{" + 1", " * 2", " - 1", " % 3"}) + "}"})
			} else {
				ps = append(ps, c11Part{Ph: true, Src: "{1 + 2}"})
			}
			g.feat("msg-expr")
		case c < 10:
			g.feat("msg-tag")
			switch r.Intn(4) {
			case 0:
				ps = append(ps, c11Part{Ph: true, Src: "<br/>"})
			case 1:
				ps = append(ps, c11Part{Ph: true, Src: "<b>"}, c11Text(r.Pick([]string{"bold", "b "})), c11Part{Ph: true, Src: "</b>"})
			case 2:
				ps = append(ps, c11Part{Ph: true, Src: "<a href=\"" + r.Pick([]string{"x", "y", "/p?q=1"}) + "\">"}, anyVar(), c11Part{Ph: true, Src: "</a>"})
			default:
				ps = append(ps, c11Part{Ph: true, Src: "<i class=\"c\">"}, c11Text("i"), c11Part{Ph: true, Src: "</i>"})
			}
		case c < 11:
			g.feat("msg-special")
			switch r.Intn(9) {
			case 6:
				// a failed placeholder start directly before a placeholder: {X{NAME}, {{NAME}, {_1{NAME}}
				ps = append(ps, c11Part{Src: "{lb}", Text: "{"}, c11Text(r.Pick([]string{"X", "", "A_1", "0", "NAME", "x"})), anyVar())
				if r.Bool() {
					ps = append(ps, c11Part{Src: "{rb}", Text: "}"})
				}
				g.feat("msg-brace-before-placeholder")
			case 7:
				// {{NAME}} and {{{NAME}
				ps = append(ps, c11Part{Src: "{lb}", Text: "{"}, c11Part{Src: "{lb}", Text: "{"}, anyVar(), c11Part{Src: "{rb}", Text: "}"})
				if r.Bool() {
					ps = append(ps, c11Part{Src: "{rb}", Text: "}"})
				}
				g.feat("msg-brace-before-placeholder")
			case 8:
				// a placeholder, a blank, a brace: the reversing translation moves the brace against the placeholder
				ps = append(ps, anyVar(), c11Text(r.Pick([]string{" ", ""})), c11Part{Src: "{lb}", Text: "{"}, c11Text(r.Pick([]string{"", "X", "SET"})))
				g.feat("msg-brace-before-placeholder")
			case 0:
				ps = append(ps, c11Part{Src: "{sp}", Text: " "})
			case 1:
				ps = append(ps, c11Part{Src: "{nil}", Text: ""})
			case 2:
				ps = append(ps, c11Part{Src: "{lb}", Text: "{"}, c11Text(r.Pick([]string{"x", "a b", "", "Ab", "é"})), c11Part{Src: "{rb}", Text: "}"})
				g.feat("msg-braces")
			case 3:
				ps = append(ps, c11Part{Src: "{rb}", Text: "}"}, c11Text("K"), c11Part{Src: "{lb}", Text: "{"})
				g.feat("msg-braces")
			case 4:
				ps = append(ps, c11Part{Src: "{lb}", Text: "{"})
				g.feat("msg-braces")
			default:
				ps = append(ps, c11Part{Src: "{lb}", Text: "{"}, anyVar(), c11Part{Src: "{rb}", Text: "}"})
				g.feat("msg-braces")
			}
		case c < 12:
			// an earlier placeholder again (equal expressions share a name)
			var phs []c11Part
			for _, p := range ps {
				if p.Ph {
					phs = append(phs, p)
				}
			}
			if len(phs) > 0 {
				ps = append(ps, phs[r.Intn(len(phs))])
				g.feat("msg-repeat")
			} else {
				ps = append(ps, anyVar())
			}
		case c < 13:
			if len(strs) > 0 {
				ps = append(ps, c11Part{Ph: true, Src: "{" + g.use(strs[r.Intn(len(strs))]) + r.Pick([]string{"|noAutoescape", "|id", "|escapeHtml"}) + "}"})
				g.feat("msg-directive")
			} else {
				ps = append(ps, c11Text("plain"))
			}
		default:
			switch {
			case r.Intn(1000) < c11Rates.lookalike*14:
				// raw text that reads as a placeholder
				nm := r.Pick([]string{"X", "NAME", "A_1", "0", "START_BOLD", "A", "B"})
				ps = append(ps, c11Part{Src: "{lb}", Text: "{"}, c11Text(nm), c11Part{Src: "{rb}", Text: "}"})
				g.feat("msg-lookalike")
			case r.Intn(1000) < c11Rates.parens*14 && len(ints) > 0:
				// two expressions that differ only in their parentheses
				v := g.use(ints[r.Intn(len(ints))])
				ps = append(ps, c11Part{Ph: true, Src: "{(" + v + " + 1) * 2}"}, c11Text(" vs "), c11Part{Ph: true, Src: "{" + v + " + 1 * 2}"})
				m.Tags = append(m.Tags, "parens")
				g.feat("msg-parens")
			default:
				ps = append(ps, c11Text(r.Pick(c11Words)))
			}
		}
	}
	return ps
}

func c11Src(ps []c11Part) string {
	var sb strings.Builder
	for _, p := range ps {
		sb.WriteString(p.Src)
	}
	return sb.String()
}

// the {msg} command as generated
func (m *c11Msg) source() string {
	var sb strings.Builder
	sb.WriteString(fmt.Sprintf(`{msg desc="m%d%s"`, m.Idx, m.Desc))
	if m.Meaning != "" {
		sb.WriteString(` meaning="` + m.Meaning + `"`)
	}
	sb.WriteString("}")
	if m.Plural {
		sb.WriteString("{plural " + m.PluralExpr + "}")
		for i, c := range m.Cases {
			sb.WriteString(fmt.Sprintf("{case %d}", c.Value) + c11Src(c.Parts))
			if i == 0 {
				sb.WriteString(m.NestedSrc)
			}
		}
		sb.WriteString("{default}" + c11Src(m.Body) + "{/plural}")
	} else {
		sb.WriteString(c11Src(m.Body))
	}
	sb.WriteString("{/msg}")
	return sb.String()
}

// raw text runs (adjacent text parts joined) that contain a {[A-Z0-9_]+} token
var c11PhRe = regexp.MustCompile(`\{[A-Z0-9_]+\}`)

func c11Lookalike(ps []c11Part) bool {
	run := ""
	for _, p := range ps {
		if p.Ph {
			if c11PhRe.MatchString(run) {
				return true
			}
			run = ""
		} else {
			run += p.Text
		}
	}
	return c11PhRe.MatchString(run)
}

func (m *c11Msg) lookalike() bool {
	for _, c := range m.Cases {
		if c11Lookalike(c.Parts) {
			return true
		}
	}
	return c11Lookalike(m.Body)
}

// ---------------------------------------------------------------------------
// locales

type c11Locale struct {
	Rule   int // Model/MsgParts.v plural_rule
	Name   string
	N      int
	Header string   // Plural-Forms
	Conds  []string // Soy condition on $P for "the index is j", tried in order; the last form is the else branch
	JS     string   // body of soy.$$pluralIndex(n)
}

var c11Locales = []c11Locale{
	{0, "ja", 1, "nplurals=1; plural=0;", nil, "return 0;"},
	{1, "en", 2, "nplurals=2; plural=(n != 1);", []string{"$P == 1"}, "return n != 1 ? 1 : 0;"},
	{2, "ru", 3, "nplurals=3; plural=(n%10==1 && n%100!=11 ? 0 : n%10>=2 && n%10<=4 && (n%100<10 || n%100>=20) ? 1 : 2);",
		[]string{"$P % 10 == 1 and $P % 100 != 11", "$P % 10 >= 2 and $P % 10 <= 4 and ($P % 100 < 10 or $P % 100 >= 20)"},
		"return (n%10==1 && n%100!=11) ? 0 : (n%10>=2 && n%10<=4 && (n%100<10 || n%100>=20)) ? 1 : 2;"},
	// thorough tier only
	{3, "fr", 2, "nplurals=2; plural=(n > 1);", []string{"not ($P > 1)"}, "return n > 1 ? 1 : 0;"},
	{4, "cs", 3, "nplurals=3; plural=(n==1) ? 0 : (n>=2 && n<=4) ? 1 : 2;", []string{"$P == 1", "$P >= 2 and $P <= 4"}, "return n==1 ? 0 : (n>=2 && n<=4) ? 1 : 2;"},
}

// catalogues whose Plural-Forms header is NOT the rule the PO library has for the name they are loaded
// under (regional names are trimmed to the language: fr_BE -> fr, n > 1): the header of the catalogue
// decides.  The header is always written for these.
var c11Disagree = []c11Locale{
	{1, "fr_BE", 2, "nplurals=2; plural=(n != 1);", []string{"$P == 1"}, "return n != 1 ? 1 : 0;"},  // built in: n > 1 (differs at 0)
	{2, "en_GB", 3, c11Locales[2].Header, c11Locales[2].Conds, c11Locales[2].JS},                       // built in: two forms
	{0, "de_AT", 1, "nplurals=1; plural=0;", nil, "return 0;"},                                        // built in: two forms (index 1 does not exist)
	{1, "pt_BR", 2, "nplurals=2; plural=(n != 1);", []string{"$P == 1"}, "return n != 1 ? 1 : 0;"},  // built in (exact entry): n > 1
	{3, "nl", 2, "nplurals=2; plural=(n > 1);", []string{"not ($P > 1)"}, "return n > 1 ? 1 : 0;"},     // built in: n != 1
}

func c11IsDisagree(name string) bool {
	for _, l := range c11Disagree {
		if l.Name == name {
			return true
		}
	}
	return false
}

// ---------------------------------------------------------------------------
// translations

type c11Names struct {
	cases [][]string // names of the placeholder parts of every explicit case, in order
	body  []string
	v     string // plural var name
	id    uint64
	node  *ast.MsgNode
}

// one translated form: parts in translated order
type c11Form []c11Part

func c11Mark(ps []c11Part, pre, post string) []c11Part {
	r := make([]c11Part, len(ps))
	for i, p := range ps {
		if !p.Ph {
			p = c11Part{Src: pre + p.Src + post, Text: pre + p.Text + post}
		}
		r[i] = p
	}
	return r
}

func c11Reverse(ps []c11Part) []c11Part {
	r := make([]c11Part, len(ps))
	for i, p := range ps {
		r[len(ps)-1-i] = p
	}
	return r
}

// translate returns the forms (translated part lists, with the names of their
// placeholders) of message m for a locale with n plural forms.
func (m *c11Msg) translate(kind string, n int) [][]c11Part {
	tr := func(ps []c11Part, j int) []c11Part {
		switch kind {
		case "identity":
			return ps
		case "reversed":
			ps = c11Reverse(c11Mark(ps, "~", ""))
		default: // partial: marked identity
			ps = c11Mark(ps, "[", "]")
		}
		if m.Plural {
			ps = append(append([]c11Part{}, ps...), c11Text("#"+strconv.Itoa(j)))
		}
		return ps
	}
	if !m.Plural {
		return [][]c11Part{tr(m.Body, 0)}
	}
	forms := make([][]c11Part, n)
	for j := range forms {
		if j == 0 && n > 1 {
			forms[j] = tr(m.Cases[0].Parts, j)
		} else {
			forms[j] = tr(m.Body, j)
		}
	}
	return forms
}

// the msgstr of a form: names are looked up by the source fragment of the part
func c11Msgstr(form []c11Part, nameOf map[string]string) string {
	var sb strings.Builder
	for _, p := range form {
		if p.Ph {
			sb.WriteString("{" + nameOf[p.Src] + "}")
		} else {
			sb.WriteString(p.Text)
		}
	}
	return sb.String()
}

// plain Soy code that renders what the translation says
func (m *c11Msg) rewrite(forms [][]c11Part, loc c11Locale) string {
	// the original stays as dead code, so that every parameter and let keeps its uses
	dead := "{if false}" + m.source() + "{/if}"
	// {nil} on both sides keeps the line-joining rule from trimming text that the message protects
	if !m.Plural || len(forms) == 1 {
		return dead + "{nil}" + c11Src(forms[0]) + "{nil}"
	}
	pv := fmt.Sprintf("$pv%d", m.Idx)
	var sb strings.Builder
	sb.WriteString(dead + "{let " + pv + ": " + m.PluralExpr + " /}")
	for j, c := range loc.Conds {
		if j == 0 {
			sb.WriteString("{if ")
		} else {
			sb.WriteString("{elseif ")
		}
		sb.WriteString(strings.ReplaceAll(c, "$P", pv) + "}{nil}" + c11Src(forms[j]) + "{nil}")
	}
	sb.WriteString("{else}{nil}" + c11Src(forms[len(forms)-1]) + "{nil}{/if}")
	return sb.String()
}

// ---------------------------------------------------------------------------
// hand-written bundles (run before the generated ones)

type c11CorpusCase struct {
	files []srcFile
	data  []data.Map
	msgs  []*c11Msg
}

func c11Corpus() []c11CorpusCase {
	ph := func(src string) c11Part { return c11Part{Ph: true, Src: src} }
	tx := c11Text
	sp := func(src, text string) c11Part { return c11Part{Src: src, Text: text} }
	lb, rb := sp("{lb}", "{"), sp("{rb}", "}")
	plural := func(expr string, one, other []c11Part) *c11Msg {
		return &c11Msg{Plural: true, PluralExpr: expr, Cases: []c11Case{{1, one}}, Body: other}
	}
	flat := func(ps ...c11Part) *c11Msg { return &c11Msg{Body: ps} }
	tag := func(m *c11Msg, t string) *c11Msg { m.Tags = append(m.Tags, t); return m }
	mk := func(params string, ds []data.Map, msgs ...*c11Msg) c11CorpusCase {
		var body strings.Builder
		for i, m := range msgs {
			m.Idx = i
			body.WriteString(c11Token(i) + "|")
		}
		// every declared parameter is used (in dead code), whatever the messages use
		use := "{if false}"
		for _, f := range strings.Fields(params) {
			if f != "*" && f != "@param" {
				use += "{if $" + f + "}{/if}"
			}
		}
		use += "{/if}"
		src := "{namespace ns.c}\n\n/**\n" + params + " */\n{template .t}\n" + use + body.String() + "\n{/template}\n"
		return c11CorpusCase{[]srcFile{{"corpus.soy", src}}, ds, msgs}
	}
	std := " * @param name\n * @param n\n * @param a\n * @param rec\n"
	d := func(n int64) data.Map {
		return data.Map{"name": data.String("Bob & <b>"), "n": data.Int(n), "a": data.Int(3),
			"rec": data.Map{"a": data.Int(7), "b": data.String("x"), "c": data.List{data.Int(1)}}}
	}
	nums := []data.Map{d(1), d(2), d(5), d(21), d(11), d(0), d(-1), d(22), d(101)}
	var r []c11CorpusCase
	// what works: tags, repeated and colliding names, directives, every plural class of ja/en/ru
	r = append(r, mk(std, nums,
		flat(tx("Hello "), ph("{$name}"), tx(", you have "), ph("{$n}"), tx(" "), ph("<b>"), tx("new"), ph("</b>"), tx(" messages"), ph("<br/>")),
		flat(ph("{$a}"), ph("{$rec.a}"), ph("{$name}"), ph("{$name|noAutoescape}"), ph("{$a}"), tx(" \"quoted\" back\\slash é ")),
		flat(ph("<a href=\"x\">"), ph("{$name}"), ph("</a>"), ph("<a href=\"y\">"), tx("y"), ph("</a>")),
		plural("$n", []c11Part{tx("one item for "), ph("{$name}")}, []c11Part{ph("{$n}"), tx(" items for "), ph("{$name}")}),
		plural("$n + 20", []c11Part{ph("<b>"), tx("one"), ph("</b>")}, []c11Part{ph("{$n + 20}"), tx(" of "), ph("{$a}")}),
		flat(lb, tx("x"), rb, tx(" "), rb, tx("K"), lb, tx(" "), lb, ph("{$name}"), rb, sp("{sp}", " "), sp("{nil}", ""), sp("{\\n}", "\n"), sp("{\\t}", "\t"), tx("end")),
	))
	// M3: raw text that reads as a placeholder
	r = append(r, mk(std, nums[:2], flat(tx("a"), lb, tx("X"), rb, tx(" "), ph("{$name}"))))
	r = append(r, mk(std, nums[:2], flat(lb, tx("NAME"), rb, tx(" is "), ph("{$name}"))))
	r = append(r, mk(std, nums[:2], plural("$n", []c11Part{tx("one")}, []c11Part{lb, tx("0"), rb, ph("{$n}")})))
	// M4: an empty message
	r = append(r, mk(std, nums[:2], tag(&c11Msg{}, "empty"), flat(tx("after"), ph("{$name}"))))
	r = append(r, mk(std, nums[:2], flat(sp("{nil}", "")), flat(ph("{$n}"))))
	// a plural nested in a plural case; plurals a PO file cannot carry
	nested := plural("$n", []c11Part{tx("one ")}, []c11Part{ph("{$n}"), tx(" many")})
	nested.NestedSrc = "{plural $a}{case 1}in1{default}inN{/plural}"
	r = append(r, mk(std, nums[:3], tag(nested, "nested")))
	r = append(r, mk(std, nums[:3], tag(&c11Msg{Plural: true, PluralExpr: "$n", Cases: []c11Case{{2, []c11Part{tx("two")}}}, Body: []c11Part{tx("other")}}, "badplural")))
	r = append(r, mk(std, nums[:3], tag(&c11Msg{Plural: true, PluralExpr: "$n", Body: []c11Part{tx("other")}}, "badplural")))
	r = append(r, mk(std, nums[:3], plural("$n", []c11Part{tx("one "), ph("{$name}")}, nil)))
	r = append(r, mk(std, nums[:3], plural("$n", nil, []c11Part{ph("{$n}"), tx(" many")})))
	// expressions that differ only in parentheses (C17)
	r = append(r, mk(std, nums[:2], tag(flat(ph("{($a + 1) * 2}"), tx(" vs "), ph("{$a + 1 * 2}")), "parens")))
	// names outside [A-Z0-9_]+
	r = append(r, mk(" * @param été\n * @param n\n", []data.Map{{"été": data.String("summer"), "n": data.Int(2)}}, flat(tx("A "), ph("{$été}"), tx(" B"))))
	r = append(r, mk(" * @param _\n * @param n\n", []data.Map{{"_": data.String("us"), "n": data.Int(2)}}, flat(tx("A "), ph("{$_}"), tx(" B"))))
	// a description of two lines (the attribute is a quoted string: \n is a newline): finding desc-newline
	twoLines := tag(flat(tx("Hello "), ph("{$name}")), "descnl")
	twoLines.Desc = `: first line\nsecond line`
	r = append(r, mk(std, nums[:2], twoLines, flat(tx("another message of the same project"))))
	// braces against placeholders: {{NAME}}, {X{NAME}, {{{NAME}, and a brace that a reversing translation moves against a placeholder
	r = append(r, mk(std, nums[:2],
		flat(tx("set "), lb, lb, ph("{$name}"), rb, rb),
		flat(lb, tx("X"), ph("{$name}"), tx(" "), lb, tx("A_1"), ph("{$n}"), rb),
		flat(lb, lb, lb, ph("{$name}")),
		flat(ph("{$name}"), tx(" "), lb),
		flat(ph("{$n}"), lb, tx("SET")),
		plural("$n", []c11Part{lb, ph("{$name}")}, []c11Part{lb, tx("N"), ph("{$n}"), rb})))
	// messages that share their msgid (the singular text) without being the same message
	r = append(r, mk(std, nums,
		flat(tx("One item")),
		plural("$n", []c11Part{tx("One item")}, []c11Part{ph("{$n}"), tx(" items")}),
		plural("$n", []c11Part{tx("One item")}, []c11Part{ph("{$n}"), tx(" things")}),
		plural("$a", []c11Part{tx("One item")}, []c11Part{ph("{$n}"), tx(" items")}),
		plural("$n", []c11Part{tx("for "), ph("{$name}")}, []c11Part{ph("{$n}"), tx(" for "), ph("{$name}")}),
		flat(tx("for "), ph("{$name}"))))
	return r
}
