//go:build c01

package main

// C01: the systematic operator x operand-kind table ("pairwise"), the coverage matrix that is printed
// into the evidence, and the check of the float printer of the model against the real strconv.

import (
	"fmt"
	"math"
	"sort"
	"strconv"
	"strings"

	"github.com/robfig/soy/data"
	"soyverif/internal/hx"
)

// ---------- the pairwise table ----------

var xAllKinds = []xkind{xkUndef, xkNull, xkBool, xkInt, xkFloat, xkStr, xkList, xkMap}

// pairwiseTable: every binary operator (the 13 of the table and ?:) on every ordered pair of operand
// kinds, neg / not / the ternary condition on every kind; per cell one case built from atoms (a literal,
// a data reference, a global, injected data: whatever g.atom draws) and one whose operands are
// composite expressions of the intended kinds.  What the operands really evaluate to is measured
// afterwards (op spec_kinds), so a composite that misses its kind shows up in another cell.
func (g *xgen) pairwiseTable() []*xe {
	var out []*xe
	ops := append(append([]string{}, allBops...), "elvis")
	operand := func(k xkind, variant int) *xe {
		if variant == 0 {
			return g.atom(k)
		}
		return g.gen(k, 1)
	}
	saved := g.ill
	g.ill = 0
	for _, op := range ops {
		for _, ka := range xAllKinds {
			for _, kc := range xAllKinds {
				for v := 0; v < 2; v++ {
					out = append(out, g.mk(op, operand(ka, v), operand(kc, v)))
				}
			}
		}
	}
	for _, ka := range xAllKinds {
		for v := 0; v < 2; v++ {
			out = append(out, xNeg(operand(ka, v)), xNot(operand(ka, v)),
				xTern(operand(ka, v), xStr(g.st, "yes"), xStr(g.st, "no")))
		}
	}
	g.ill = saved
	return out
}

// ---------- the coverage matrix ----------

const xKindLetters = "UNBIFSLM" // undefined null bool int float string list map ; X = no value, O = outside the model

type xcover struct {
	bin   map[string]*[10][10]int // operator -> left kind x right kind
	un    map[string]*[10]int     // neg not tern -> kind
	fnArg map[string]int          // fn:<name>:<kinds>
}

func newCover() *xcover {
	return &xcover{bin: map[string]*[10][10]int{}, un: map[string]*[10]int{}, fnArg: map[string]int{}}
}

func kindIx(s string) int {
	if len(s) == 1 {
		if i := strings.Index(xKindLetters+"XO", s); i >= 0 {
			return i
		}
	}
	return 9
}

func (c *xcover) add(fields []string) {
	for _, f := range fields {
		p := strings.Split(f, ":")
		switch {
		case p[0] == "fn":
			c.fnArg[f]++
		case len(p) == 2:
			if c.un[p[0]] == nil {
				c.un[p[0]] = &[10]int{}
			}
			c.un[p[0]][kindIx(p[1])]++
		case len(p) == 3:
			if c.bin[p[0]] == nil {
				c.bin[p[0]] = &[10][10]int{}
			}
			c.bin[p[0]][kindIx(p[1])][kindIx(p[2])]++
		}
	}
}

// cells of the 8 x 8 value kinds that were reached, over the 14 binary operators
func (c *xcover) binCells() (reached, total int, missing []string) {
	for _, op := range append(append([]string{}, allBops...), "elvis") {
		for a := 0; a < 8; a++ {
			for b := 0; b < 8; b++ {
				total++
				if m := c.bin[op]; m != nil && m[a][b] > 0 {
					reached++
				} else {
					missing = append(missing, fmt.Sprintf("%s:%c:%c", op, xKindLetters[a], xKindLetters[b]))
				}
			}
		}
	}
	return
}

func (c *xcover) notes(e *env, title string) {
	e.res.Note("%s -- rows: operator and kind of the LEFT operand; columns: kind of the RIGHT operand in the order U N B I F S L M | X O "+
		"(U undefined, N null, B bool, I int, F float, S string, L list, M map; X the operand has no value, O the operand is outside the model); "+
		"entries: number of operator nodes (any nesting depth) whose operands the Spec evaluates to these kinds", title)
	ops := append(append([]string{}, allBops...), "elvis")
	for _, op := range ops {
		m := c.bin[op]
		if m == nil {
			m = &[10][10]int{}
		}
		var b strings.Builder
		sym := bopSym[op]
		if op == "elvis" {
			sym = "?:"
		}
		fmt.Fprintf(&b, "%s %-3s", title[:1], sym)
		for a := 0; a < 10; a++ {
			row := make([]string, 10)
			for k := 0; k < 10; k++ {
				row[k] = strconv.Itoa(m[a][k])
			}
			fmt.Fprintf(&b, " %c[%s | %s]", (xKindLetters + "XO")[a], strings.Join(row[:8], " "), strings.Join(row[8:], " "))
		}
		e.res.Note("%s", b.String())
	}
	var names []string
	for k := range c.un {
		names = append(names, k)
	}
	sort.Strings(names)
	for _, op := range names {
		row := make([]string, 10)
		for k := 0; k < 10; k++ {
			row[k] = strconv.Itoa(c.un[op][k])
		}
		e.res.Note("%s %-4s operand kind U N B I F S L M | X O: [%s | %s]", title[:1], op, strings.Join(row[:8], " "), strings.Join(row[8:], " "))
	}
}

// ---------- floats: the model of strconv.FormatFloat(x,'g',-1,64) against the real one ----------

func c01FloatPool(r *hx.Rand, scale int) []float64 {
	var out []float64
	add := func(f float64) { out = append(out, f, -f) }
	// powers of two and their neighbours: dense at moderate exponents, a few over the whole range of the model
	// (the extracted model computes with Coq's own binary numbers: about 0.2 s per value at 2^+-800)
	for e := -64; e <= 64; e++ {
		p := math.Ldexp(1, e)
		add(p)
		add(math.Nextafter(p, 0))
		add(math.Nextafter(p, math.Inf(1)))
		add(3 * p)
	}
	for _, e := range []int{-999, -946, -700, -400, -200, -100, 100, 200, 400, 700, 899} {
		p := math.Ldexp(1, e)
		out = append(out, p, -math.Nextafter(p, math.Inf(1)))
	}
	// powers of ten (the nearest float64) and their neighbours: the %e / %f threshold and digit-count boundaries
	for k := -22; k <= 22; k++ {
		p, _ := strconv.ParseFloat("1e"+strconv.Itoa(k), 64)
		add(p)
		add(math.Nextafter(p, 0))
		add(math.Nextafter(p, math.Inf(1)))
		for _, m := range []string{"9.5", "9.99999", "1.2345678901234567", "9.999999999999999"} {
			q, _ := strconv.ParseFloat(m+"e"+strconv.Itoa(k), 64)
			add(q)
		}
	}
	for _, f := range []float64{0, math.Copysign(0, -1), 1, 0.5, 0.1, 0.2, 0.3, 1.0 / 3, 2.0 / 3, 100, 999999, 999999.5, 999999.9999999999, 1e6, 1000000.5, 123456.75, 1234567.5,
		1e-4, 0.0001220703125, 0.00006103515625, 9.999999999999999e-05, 1 << 53, (1 << 53) - 1, (1 << 53) + 2, 1 << 62, 1 << 63, 9007199254740993, 5e-324, math.MaxFloat64,
		math.SmallestNonzeroFloat64, 2.2250738585072014e-308, 4.35, 0.000001, 123456789, 1.7976931348623157e308, 8.41e21, 2.0e-3} {
		add(f)
	}
	n := 2100 * scale
	for i := 0; i < n; i++ {
		var f float64
		switch i % 7 {
		case 0: // any bit pattern, exponent kept moderate most of the time (the extracted model computes with Coq's own binary numbers, slow beyond a few hundred bits)
			bits := r.U64()
			ex := 1023 + r.Intn(240) - 120
			if i%700 == 0 {
				ex = 1 + r.Intn(2045)
			}
			bits = bits&^(uint64(0x7ff)<<52) | uint64(ex)<<52
			f = math.Float64frombits(bits)
		case 1: // small dyadics: what Soy arithmetic on literals produces
			f = float64(int64(r.Intn(1<<20))-(1<<19)) / float64(int64(1)<<uint(r.Intn(30)))
		case 2: // 53-bit mantissas at moderate exponents
			f = math.Ldexp(float64(r.U64()&((1<<53)-1)), r.Intn(140)-90)
		case 3: // short decimals (the nearest float64): the shortest digits are not the exact expansion
			f, _ = strconv.ParseFloat(fmt.Sprintf("%de%d", r.Intn(100000), r.Intn(50)-25), 64)
			if r.Intn(3) == 0 {
				f = math.Nextafter(f, 0)
			}
		case 4: // integers
			f = float64(r.U64() >> uint(r.Intn(63)))
		case 5: // the generator's own floats
			f = xPickFloat(r)
		case 6: // results of float arithmetic
			f = xPickFloat(r) * xPickFloat(r) / float64(int64(1)<<uint(r.Intn(12)))
		}
		out = append(out, f)
	}
	return out
}

func c01FloatStrings(e *env) {
	pool := c01FloatPool(e.rng, e.scale)
	reqs := make([]string, len(pool))
	for i, f := range pool {
		reqs[i] = "fl_string " + flSexp(f)
	}
	resp := e.m.Batch(reqs)
	for i, f := range pool {
		want := strconv.FormatFloat(f, 'g', -1, 64)
		e.res.Count("float-string|"+strconv.FormatUint(math.Float64bits(f), 16), true, "group:float-string")
		if impl := data.Float(f).String(); impl != want {
			c01Fail(e, hx.Violation{Kind: "oracle", What: "data.Float.String differs from strconv.FormatFloat(x,'g',-1,64)", Case: want, Expected: want, Observed: impl}, "")
		}
		r := resp[i]
		switch {
		case len(r) == 1 && r[0] == "none":
			// outside the model: subnormal or beyond 2^+-1000; NaN and infinities never get here
			e.res.Histogram["float-string:outside-the-model(subnormal-or-huge)"]++
			if a := math.Abs(f); a > 1e-280 && a < 1e260 {
				c01Fail(e, hx.Violation{Kind: "mismatch", What: "float printer of the model gives up inside its domain", Case: want}, "")
			}
		case len(r) == 1 && strings.HasPrefix(r[0], "s"):
			got := hx.UnH(orDash(r[0][1:]))
			if got != want {
				c01Fail(e, hx.Violation{Kind: "mismatch", What: "float printer of the model (Num.fl_to_string) and strconv.FormatFloat(x,'g',-1,64) disagree",
					Case: fmt.Sprintf("%b", f), Expected: want, Observed: got}, "")
			}
			digits := 0
			for _, ch := range strings.SplitN(want, "e", 2)[0] {
				if ch >= '0' && ch <= '9' {
					digits++
				}
			}
			switch {
			case strings.Contains(want, "e"):
				e.res.Histogram["float-string:exponent-form"]++
			default:
				e.res.Histogram["float-string:positional"]++
			}
			if digits > 15 {
				e.res.Histogram["float-string:16-or-17-digits(shortest-is-not-the-exact-expansion)"]++
			}
		default:
			c01Fail(e, hx.Violation{Kind: "mismatch", What: "model runner failed on fl_string", Case: want, Observed: fmt.Sprint(r)}, "")
		}
	}
}

// ---------- floats: the IEEE 754 operations of the model against the hardware arithmetic of Go ----------

func c01FloatArith(e *env) {
	r := e.rng
	pick := func() float64 {
		switch r.Intn(7) {
		case 0:
			return xPickFloat(r)
		case 1:
			return float64(int64(r.Intn(1<<20))-(1<<19)) / float64(int64(1)<<uint(r.Intn(30)))
		case 2: // 53-bit mantissas
			f := math.Ldexp(float64(r.U64()&((1<<53)-1)), r.Intn(120)-80)
			if r.Bool() {
				f = -f
			}
			return f
		case 3:
			return float64(int64(r.Intn(2000)) - 1000)
		case 4: // any mantissa, moderate exponent
			return math.Float64frombits(r.U64()&^(uint64(0x7ff)<<52) | uint64(1023+r.Intn(160)-80)<<52)
		case 5: // neighbours of powers of two: the carry of the rounding
			p := math.Ldexp(1, r.Intn(80)-40)
			if r.Bool() {
				return math.Nextafter(p, 0)
			}
			return math.Nextafter(p, math.Inf(1))
		}
		return float64(int64(r.U64() >> uint(1+r.Intn(62))))
	}
	type job struct {
		op   string
		a, b float64
	}
	var jobs []job
	var reqs []string
	n := 1200 * e.scale
	for i := 0; i < n; i++ {
		a, b := pick(), pick()
		for _, op := range []string{"add", "sub", "mul", "div"} {
			jobs = append(jobs, job{op, a, b})
			reqs = append(reqs, "fl_arith "+op+" "+flSexp(a)+" ; "+flSexp(b))
		}
	}
	resp := e.m.Batch(reqs)
	for i, j := range jobs {
		var want float64
		switch j.op {
		case "add":
			want = j.a + j.b
		case "sub":
			want = j.a - j.b
		case "mul":
			want = j.a * j.b
		case "div":
			want = j.a / j.b
		}
		e.res.Count(fmt.Sprintf("float-arith|%s|%x|%x", j.op, math.Float64bits(j.a), math.Float64bits(j.b)), true, "group:float-arith")
		got := strings.Join(resp[i], " ")
		if got == "none" {
			// NaN / infinite operand or result, or beyond the exponent range of the model
			e.res.Histogram["float-arith:outside-the-model"]++
			if a := math.Abs(want); !math.IsNaN(want) && !math.IsInf(want, 0) && a > 1e-250 && a < 1e250 && j.op != "div" {
				c01Fail(e, hx.Violation{Kind: "mismatch", What: "IEEE arithmetic of the model gives up inside its domain", Case: fmt.Sprintf("%s %b %b", j.op, j.a, j.b)}, "")
			}
			continue
		}
		if got != flSexp(want) {
			c01Fail(e, hx.Violation{Kind: "mismatch", What: "IEEE arithmetic of the model (Num.fl_" + j.op + "_r) and Go's float64 arithmetic disagree",
				Case: fmt.Sprintf("%s %b %b", j.op, j.a, j.b), Expected: flSexp(want), Observed: got}, "")
		}
		e.res.Histogram["float-arith:checked:"+j.op]++
	}
}
