//go:build c08

package main

// C08 — rendering is pure.
//
// Histories of renders over ONE compiled bundle and ONE set of data / injected
// data objects, mixing templates, data sets, failing renders (missing
// template, empty data, failing writer, unknown function) and soyjs.Write.
// After every step a deep structural digest (reflect walk) of the registry,
// of every data map and of every injected-data map must equal the digest taken
// before the history; and the output of every render must equal the output of
// the same render ALONE: a fresh compile of the same sources and a fresh copy
// of the data (for the last render of every history: in a fresh PROCESS).
// Three configurations of the user-extensible registries: none; a built-in
// obligatory print directive (the model renders it too); a custom obligatory
// directive plus custom functions.  The globals are restored.
//
// What the histories are made to reach: calls whose data is a non-reference
// expression that still yields a caller-owned map, with params on top; JS
// generation (both formatters) over prints with marker directives followed by
// others and chains of 2-7 directives, generated twice; renders that fail at
// depth with names bound at every level, followed at once by renders of
// templates whose data keys are those names; a second bundle with the same
// template names and different bodies; the caller changing its own data between
// renders; one Tofu per registry for the whole history.

import (
	"bytes"
	"crypto/sha256"
	"encoding/hex"
	"encoding/json"
	"fmt"
	"math"
	"os"
	"os/exec"
	"reflect"
	"sort"
	"strings"

	"github.com/robfig/soy"
	"github.com/robfig/soy/data"
	"github.com/robfig/soy/soyhtml"
	"github.com/robfig/soy/soyjs"
	"github.com/robfig/soy/template"
	"soyverif/internal/hx"
)

func init() { props["C08"] = runC08 }

// ---------- deep structural digest ----------

type digester struct {
	h    *bytes.Buffer
	seen map[uintptr]int
}

func deepDigest(vs ...interface{}) string {
	d := &digester{h: &bytes.Buffer{}, seen: map[uintptr]int{}}
	for _, v := range vs {
		d.walk(reflect.ValueOf(v))
	}
	s := sha256.Sum256(d.h.Bytes())
	return hex.EncodeToString(s[:12])
}

func (d *digester) walk(v reflect.Value) {
	if !v.IsValid() {
		d.h.WriteString("<nil>")
		return
	}
	fmt.Fprintf(d.h, "(%s ", v.Type().String())
	switch v.Kind() {
	case reflect.Bool:
		fmt.Fprintf(d.h, "%v", v.Bool())
	case reflect.Int, reflect.Int8, reflect.Int16, reflect.Int32, reflect.Int64:
		fmt.Fprintf(d.h, "%d", v.Int())
	case reflect.Uint, reflect.Uint8, reflect.Uint16, reflect.Uint32, reflect.Uint64, reflect.Uintptr:
		fmt.Fprintf(d.h, "%d", v.Uint())
	case reflect.Float32, reflect.Float64:
		fmt.Fprintf(d.h, "%x", math.Float64bits(v.Float()))
	case reflect.String:
		fmt.Fprintf(d.h, "%q", v.String())
	case reflect.Ptr:
		if v.IsNil() {
			d.h.WriteString("nil")
			break
		}
		p := v.Pointer()
		if id, ok := d.seen[p]; ok {
			fmt.Fprintf(d.h, "^%d", id)
			break
		}
		d.seen[p] = len(d.seen)
		d.walk(v.Elem())
	case reflect.Interface:
		if v.IsNil() {
			d.h.WriteString("nil")
			break
		}
		d.walk(v.Elem())
	case reflect.Slice:
		if v.IsNil() {
			d.h.WriteString("nil")
			break
		}
		fmt.Fprintf(d.h, "#%d ", v.Len())
		for i := 0; i < v.Len(); i++ {
			d.walk(v.Index(i))
		}
	case reflect.Array:
		for i := 0; i < v.Len(); i++ {
			d.walk(v.Index(i))
		}
	case reflect.Map:
		if v.IsNil() {
			d.h.WriteString("nil")
			break
		}
		type kv struct{ k, v string }
		var items []kv
		it := v.MapRange()
		for it.Next() {
			kd := &digester{h: &bytes.Buffer{}, seen: d.seen}
			kd.walk(it.Key())
			vd := &digester{h: &bytes.Buffer{}, seen: d.seen}
			vd.walk(it.Value())
			items = append(items, kv{kd.h.String(), vd.h.String()})
		}
		sort.Slice(items, func(i, j int) bool { return items[i].k < items[j].k })
		fmt.Fprintf(d.h, "#%d ", len(items))
		for _, it := range items {
			d.h.WriteString(it.k + "=>" + it.v + ";")
		}
	case reflect.Struct:
		for i := 0; i < v.NumField(); i++ {
			d.h.WriteString(v.Type().Field(i).Name + ":")
			d.walk(v.Field(i))
		}
	case reflect.Func, reflect.Chan, reflect.UnsafePointer:
		if v.IsNil() {
			d.h.WriteString("nil")
		} else {
			d.h.WriteString("set")
		}
	default:
		d.h.WriteString("?")
	}
	d.h.WriteString(")")
}

// ---------- cases ----------

type c08Step struct {
	Kind     string `json:"kind"` // render | render-short | render-nodata | render-missing | jsgen | mutate
	Template string `json:"template,omitempty"`
	Data     int    `json:"data"`
	Ij       int    `json:"ij"` // -1: none
	Budget   int    `json:"budget,omitempty"`
	File     int    `json:"file,omitempty"`
	ES6      bool   `json:"es6,omitempty"`
	Alt      bool   `json:"alt_bundle,omitempty"` // the second bundle: same template names, other bodies
	Key      string `json:"key,omitempty"`        // mutate: the CALLER changes its own data map
	Val      string `json:"val,omitempty"`
}

type c08Case struct {
	Files    []srcFile `json:"files"`
	Oblig    string    `json:"obligatory_directive"` // "" | built-in name | "verifBang" (custom)
	Custom   bool      `json:"custom_function"`
	DataSets []string  `json:"data_sets"`
	Ijs      []string  `json:"ij_sets"`
	Steps    []c08Step `json:"steps"`
	FailedAt int       `json:"failed_at_step"`
}

var c08Pool = []gparam{{"a", kInt, false}, {"b", kStr, false}, {"c", kListInt, false}, {"x", kInt, false}, {"s", kStr, false}, {"flag", kBool, false},
	{"f", kFloat, false}, {"rec", kRec, false}, {"opt", kOptInt, true}, {"names", kListStr, false}, {"el", kEList, false}, {"i", kInt, false}, {"n", kInt, false}}

const c08Extra = `{namespace extra}

/**
 * @param? x
 * @param names
 * @param rec
 * @param flag
 */
{template .ij}
{$ij.foo}{if $x}{$x}{/if}<i>{$ij.bar ?: 'none'}</i>{foreach $n in $names}{$n}{/foreach}
{call .leaf data="$flag ? $ij : $rec"}{param a: 'ij-a' /}{param b}ij-b{/param}{/call}{$ij.a ?: 'no-a'}{$ij.b ?: 'no-b'}
{/template}

/**
 * Every way a call passes data, with parameters set on top, from inside nested blocks; the
 * caller's locals and the data map are used again afterwards.  The data expressions that are not
 * plain references still evaluate to maps the caller owns.
 * @param rec
 * @param a
 * @param b
 * @param c
 * @param flag
 * @param? opt2
 */
{template .probe}
{let $k: 'k0' /}
{foreach $q in $c}
{call .sink data="$rec"}{param a: $q /}{param b}p{$k}{/param}{/call}
{call .sink data="all"}{param a: $q + 1 /}{/call}
{call .sink data="$opt2 ?: $rec"}{param a: $q + 2 /}{/call}
{$k}{$q}{if isLast($q)}.{/if}
{/foreach}
{call .sink data="all" /}{call .sink}{param a: 0 /}{param b: $b /}{param c: $c /}{/call}
{call .sink data="$flag ? $rec : $rec"}{param b}tern{/param}{param c: [1, 2, 3, 4] /}{/call}
{call .sink data="not $flag ? $rec : ($opt2 ?: $rec)"}{param a: -1 /}{/call}
{$k}{$a}{$b}{$rec.a}{$rec.b}{length($rec.c)}
{/template}

/**
 * @param a
 * @param b
 * @param c
 */
{template .sink}
[{$a}|{$b}|{length($c)}]{let $z: 'shadow' /}{$z}{call .leaf data="all"}{param b: 'leaf' /}{/call}{$b}
{/template}

/**
 * @param a
 * @param b
 */
{template .leaf}
<{$a}{$b}>{let $a2}{$a}{/let}{$a2}
{/template}

/**
 * Fails at depth (inside param content, inside a call, inside a loop, below top-level lets) with a
 * name bound at every level; the names are data keys of the other templates.
 * @param c
 * @param? never
 */
{template .failAtDepth}
{let $name: 'stale-name' /}{let $a: 'stale-a' /}{let $b}stale-b{/let}{$name}{$a}{$b}
{foreach $s in $c}
{let $x: 'stale-x' /}{let $flag: 'stale-flag' /}{$x}{$flag}
{call .leaf}{param a}{let $names: 'stale-names' /}{$names}{if $s > -100}{$never.boom}{/if}{/param}{param b: 1 /}{/call}
{/foreach}
{/template}

/**
 * @param c
 * @param? never
 */
{template .failShallow}
{length($c)}{let $name: 'stale-name' /}{let $s: 'stale-s' /}{let $c: 'stale-c' /}{let $rec: 'stale-rec' /}{$name}{$s}{$c}{$rec}{$never.boom}
{/template}

/**
 * @param c
 * @param? never
 */
{template .failInCallee}
{let $x: 'stale-x' /}{$x}{foreach $a in $c}{$a}{call .failShallow data="all" /}{/foreach}
{/template}

/**
 * Reads, at every block depth, the names the failing templates bind.
 * @param name
 * @param a
 * @param b
 * @param s
 * @param x
 * @param c
 * @param flag
 * @param names
 * @param rec
 */
{template .victim}
{$name}|{$a}|{$b}|{$s}|{$x}|{$flag}|{foreach $q in $c}{$s}{$x}{$flag}{if $q > -100}{$name}{$a}{$names[0]}{/if}{/foreach}|{call .leaf data="all" /}|{$rec.a}{length($c)}
{/template}
`

const c08Custom = `{namespace custom}

/**
 * @param names
 * @param b
 * @param rec
 */
{template .custom}
{verifTwice(length($names))}{$b}{let $k}{$b}&{/let}{$k}{call extra.leaf data="verifSame($rec)"}{param a: 'fn-a' /}{/call}{$rec.a}
{/template}
`

var c08Dirs = []string{"id", "noAutoescape", "escapeHtml", "escapeUri", "changeNewlineToBr", "truncate:5", "insertWordBreaks:3", "truncate:9,false", "escapeJsString", "json"}

// c08Chains: prints carrying 2-7 directives, markers (id, noAutoescape) in front of, between and after others.
func c08Chains(r *hx.Rand) string {
	var sb strings.Builder
	sb.WriteString("{namespace chains}\n\n/**\n * @param s\n * @param b\n * @param x\n */\n{template .t}\n{$s|noAutoescape|escapeUri}{$b|id|truncate:5}{$x|id|escapeUri}{$s|escapeHtml|id|escapeUri|noAutoescape|changeNewlineToBr}")
	for i := 0; i < 5; i++ {
		n := 2 + r.Intn(6)
		pool := c08Dirs
		if i < 3 {
			pool = c08Dirs[:8] // the directives the model has functions for
		}
		sb.WriteString("{" + []string{"$s", "$b", "$x", "$s + $b"}[r.Intn(4)])
		for j := 0; j < n; j++ {
			sb.WriteString("|" + pool[r.Intn(len(pool))])
		}
		sb.WriteString("}-")
	}
	sb.WriteString("\n{/template}\n")
	return sb.String()
}

func runC08(e *env) {
	e.res.Rule = "per bundle (gen_prog.go command grammar + hand-written probes: every form of call data incl. non-reference expressions yielding caller-owned maps with params on top; templates failing at depth with names bound at every level and a victim template reading those names; $ij; custom functions; a template of prints with chains of 2-7 directives incl. markers followed by others) one compiled registry A, a second registry B with the same template names and other bodies, ONE Tofu per registry, 3 data maps, 2 injected-data maps and a history of 12 (quick) / 200 (thorough) steps drawn from: render any template with any data set and optional $ij (on A or B), a failing probe followed at once by the victim, render against a short-capacity writer, render with empty data, render a missing template, repeat the previous step, the caller changing a key of its own data map, soyjs.Write of a file with the ES5 or ES6 formatter; under 3 registry configurations (plain; built-in obligatory directive escapeUri/escapeHtml, compared with the model; custom obligatory directive + custom functions). After EVERY step: deep reflect digest of both registries, all data maps, all ij maps and the registry globals equals the expected one; every render's (output, error?) and every generation's (JavaScript text, error?) equals the same step alone (fresh compile, fresh copy of the data); the last render of every history is also compared with the same render in a fresh process. Model vs implementation on (output, error?) of every distinct render, and model's shared-write count = 0. Non-trivial = history with at least 2 successful renders of a template that prints; distinct by sources + steps."
	if e.replay != "" {
		c08Replay(e)
		return
	}
	steps := 12
	nb := 90 * e.scale
	if e.tier == "thorough" {
		steps = 200
		nb = 60
	}
	// the smallest history first: {$x} three times under an obligatory directive
	for j, ob := range []string{"verifBang", "escapeUri", ""} {
		fx := c08Case{Files: []srcFile{{"fixed.soy", "{namespace fx}\n\n/**\n * @param x\n */\n{template .t}\n{$x}\n{/template}\n"}}, Oblig: ob, Custom: ob == "verifBang",
			DataSets: []string{valueSexp(data.Map{"x": data.String("x y")}, newIDTable())}, Ijs: []string{valueSexp(data.Map{"foo": data.Int(1)}, newIDTable())},
			Steps: []c08Step{{Kind: "render", Template: "fx.t", Ij: -1}, {Kind: "render", Template: "fx.t", Ij: -1}, {Kind: "jsgen"}, {Kind: "render", Template: "fx.t", Ij: -1}}}
		c08Run(e, &fx, fmt.Sprintf("fx%d", j), j == 0)
	}
	for i := 0; i < nb; i++ {
		o := progOpts{depth: 2 + e.rng.Intn(2), directives: true}
		if i%5 == 4 {
			o.illTyped = 6
		}
		files, _, _, feats := genBundle(e.rng, o)
		for f := range feats {
			e.res.Histogram["feat:"+f]++
		}
		files = append(files, srcFile{"extra.soy", c08Extra}, srcFile{"custom.soy", c08Custom}, srcFile{"chains.soy", c08Chains(e.rng)})
		c := c08Case{Files: files}
		switch i % 3 {
		case 1:
			c.Oblig = []string{"escapeUri", "escapeHtml"}[e.rng.Intn(2)]
		case 2:
			c.Oblig = "verifBang"
			c.Custom = true
		}
		ids := newIDTable()
		for k := 0; k < 3; k++ {
			dm := genData(e.rng, c08Pool, o)
			dm["n"] = data.Int(e.rng.Intn(5)) // depth of the recursive countdown template
			dm["name"] = data.String([]string{"Alice", "<Bob>", "C&D"}[k])
			if k == 0 {
				dm["x"] = data.Int(3)
			}
			c.DataSets = append(c.DataSets, valueSexp(dm, ids))
		}
		c.Ijs = []string{valueSexp(data.Map{"foo": data.String("<ij&>"), "bar": data.Int(3), "c": data.List{data.Int(1)}}, ids),
			valueSexp(data.Map{"foo": data.List{data.Int(1), data.String("two")}}, ids)}
		names := c08TemplateNames(files)
		if len(names) == 0 {
			e.res.Histogram["compile-errors"]++
			if _, err := c08Compile(files); err != nil && e.res.Histogram["compile-errors"] <= 2 {
				e.res.Note("compile error: %v", err)
			}
			continue
		}
		fails := []string{"extra.failAtDepth", "extra.failShallow", "extra.failInCallee"}
		for s := 0; len(c.Steps) < steps; s++ {
			st := c08Step{Data: e.rng.Intn(len(c.DataSets)), Ij: e.rng.Intn(len(c.Ijs)+1) - 1}
			switch r := e.rng.Intn(24); {
			case len(c.Steps) == 1: // every history exercises the call-data probe at least once
				st.Kind, st.Template = "render", "extra.probe"
			case r < 7:
				st.Kind, st.Template = "render", names[e.rng.Intn(len(names))]
			case r < 9:
				st.Kind, st.Template, st.Alt = "render", names[e.rng.Intn(len(names))], true
			case r < 12: // a render that fails at depth, then at once a reader of the names it had bound
				st.Kind, st.Template = "render", fails[e.rng.Intn(len(fails))]
				c.Steps = append(c.Steps, st)
				st = c08Step{Kind: "render", Template: "extra.victim", Data: e.rng.Intn(len(c.DataSets)), Ij: -1, Alt: e.rng.Chance(25)}
			case r < 13:
				st.Kind, st.Template = "render", []string{"chains.t", "extra.ij", "custom.custom"}[e.rng.Intn(3)]
			case r < 15:
				st.Kind, st.Template, st.Budget = "render-short", names[e.rng.Intn(len(names))], e.rng.Intn(12)
			case r < 16:
				st.Kind, st.Template = "render-nodata", names[e.rng.Intn(len(names))]
			case r < 17:
				st.Kind, st.Template = "render-missing", "no.such.template"
			case r < 18 && len(c.Steps) > 0: // the same step again, back to back
				st = c.Steps[len(c.Steps)-1]
			case r < 19:
				st = c08Step{Kind: "mutate", Data: st.Data, Ij: -1, Key: []string{"b", "s", "name"}[e.rng.Intn(3)], Val: fmt.Sprintf("m<%d>", s)}
			default:
				st = c08Step{Kind: "jsgen", File: e.rng.Intn(len(files)), ES6: e.rng.Bool(), Alt: e.rng.Chance(20), Ij: -1}
			}
			c.Steps = append(c.Steps, st)
		}
		c08Run(e, &c, fmt.Sprintf("h%d", i), i%29 == 0)
	}
}

// c08AltFiles: the second bundle -- the same template names, every template body marked.
func c08AltFiles(files []srcFile) []srcFile {
	var out []srcFile
	for _, f := range files {
		out = append(out, srcFile{f.Name, strings.ReplaceAll(f.Text, "{/template}", "~B{/template}")})
	}
	return out
}

func c08TemplateNames(files []srcFile) []string {
	reg, err := c08Compile(files)
	if err != nil {
		return nil
	}
	var names []string
	for _, t := range reg.Templates {
		names = append(names, t.Node.Name)
	}
	return names
}

func c08Compile(files []srcFile) (*template.Registry, error) {
	b := soy.NewBundle()
	for _, f := range files {
		b.AddTemplateString(f.Name, f.Text)
	}
	return b.Compile()
}

func c08Values(sexps []string) ([]data.Map, error) {
	var out []data.Map
	for _, s := range sexps {
		v, err := sexpToValue(s, nil)
		if err != nil {
			return nil, err
		}
		m, ok := v.(data.Map)
		if !ok {
			return nil, fmt.Errorf("not a map: %s", s)
		}
		out = append(out, m)
	}
	return out, nil
}

// c08Install sets the registry globals of a configuration and returns the function that restores them.
func c08Install(c *c08Case) func() {
	savedOblig := soyhtml.ObligatoryPrintDirectiveNames
	if c.Oblig != "" {
		soyhtml.ObligatoryPrintDirectiveNames = []string{c.Oblig}
	}
	if c.Oblig == "verifBang" {
		soyhtml.PrintDirectives["verifBang"] = soyhtml.PrintDirective{
			Apply:           func(v data.Value, _ []data.Value) data.Value { return data.String(v.String() + "!") },
			ValidArgLengths: []int{0}}
	}
	if c.Custom {
		soyhtml.Funcs["verifTwice"] = soyhtml.Func{
			Apply:           func(args []data.Value) data.Value { n, _ := args[0].(data.Int); return data.Int(2 * n) },
			ValidArgLengths: []int{1}}
		// a function that hands back (a map owned by) its argument
		soyhtml.Funcs["verifSame"] = soyhtml.Func{
			Apply:           func(args []data.Value) data.Value { return args[0] },
			ValidArgLengths: []int{1}}
	}
	return func() {
		soyhtml.ObligatoryPrintDirectiveNames = savedOblig
		delete(soyhtml.PrintDirectives, "verifBang")
		delete(soyhtml.Funcs, "verifTwice")
		delete(soyhtml.Funcs, "verifSame")
	}
}

func c08Globals() string {
	var ds, fs, js []string
	for k := range soyhtml.PrintDirectives {
		ds = append(ds, k)
	}
	for k := range soyhtml.Funcs {
		fs = append(fs, k)
	}
	for k := range soyjs.PrintDirectives {
		js = append(js, k)
	}
	for k := range soyjs.Funcs {
		js = append(js, "f:"+k)
	}
	sort.Strings(ds)
	sort.Strings(fs)
	sort.Strings(js)
	return strings.Join(ds, ",") + "|" + strings.Join(fs, ",") + "|" + strings.Join(soyhtml.ObligatoryPrintDirectiveNames, ",") + "|" + strings.Join(js, ",")
}

type c08Out struct {
	Out string `json:"out"`
	Err bool   `json:"err"`
	Msg string `json:"msg"`
}

// c08World is one set of the objects a history shares.
type c08World struct {
	reg   [2]*template.Registry
	tofu  [2]*soyhtml.Tofu
	ds    []data.Map
	ijs   []data.Map
	files [2][]srcFile
}

// c08Build compiles both bundles and rebuilds the data, with the caller's own changes of steps < upto applied.
func c08Build(c *c08Case, upto int) (*c08World, error) {
	w := &c08World{}
	w.files[0], w.files[1] = c.Files, c08AltFiles(c.Files)
	for k := 0; k < 2; k++ {
		reg, err := c08Compile(w.files[k])
		if err != nil {
			return nil, err
		}
		w.reg[k], w.tofu[k] = reg, soyhtml.NewTofu(reg)
	}
	var err error
	if w.ds, err = c08Values(c.DataSets); err != nil {
		return nil, err
	}
	if w.ijs, err = c08Values(c.Ijs); err != nil {
		return nil, err
	}
	for i := 0; i < upto && i < len(c.Steps); i++ {
		if st := c.Steps[i]; st.Kind == "mutate" {
			w.ds[st.Data%len(w.ds)][st.Key] = data.String(st.Val)
		}
	}
	return w, nil
}

func (w *c08World) exec(st c08Step) (res c08Out) {
	defer func() {
		if r := recover(); r != nil {
			res = c08Out{res.Out, true, fmt.Sprintf("PANIC: %v", r)}
		}
	}()
	k := 0
	if st.Alt {
		k = 1
	}
	d := w.ds[st.Data%len(w.ds)]
	if st.Kind == "render-nodata" {
		d = data.Map{}
	}
	var ij data.Map
	if st.Ij >= 0 {
		ij = w.ijs[st.Ij%len(w.ijs)]
	}
	switch st.Kind {
	case "mutate":
		d[st.Key] = data.String(st.Val)
		return c08Out{}
	case "jsgen":
		var buf bytes.Buffer
		opt := soyjs.Options{}
		if st.ES6 {
			opt.Formatter = soyjs.ES6Formatter{}
		}
		err := soyjs.Write(&buf, w.reg[k].SoyFiles[st.File%len(w.reg[k].SoyFiles)], opt)
		return c08Out{buf.String(), err != nil, errStr(err)}
	case "render-short":
		sw := &c08Short{left: st.Budget}
		r := w.tofu[k].NewRenderer(st.Template)
		if ij != nil {
			r = r.Inject(ij)
		}
		err := r.Execute(sw, d)
		return c08Out{string(sw.acc), err != nil, errStr(err)}
	default:
		var buf bytes.Buffer
		r := w.tofu[k].NewRenderer(st.Template)
		if ij != nil {
			r = r.Inject(ij)
		}
		err := r.Execute(&buf, d)
		return c08Out{buf.String(), err != nil, errStr(err)}
	}
}

type c08Short struct {
	left int
	acc  []byte
}

func (w *c08Short) Write(p []byte) (int, error) {
	if len(p) <= w.left {
		w.left -= len(p)
		w.acc = append(w.acc, p...)
		return len(p), nil
	}
	n := w.left
	w.acc = append(w.acc, p[:n]...)
	w.left = 0
	return n, fmt.Errorf("short write")
}

func init() { workers["c08ref"] = c08RefWorker }

// c08RefWorker: one step of a case, alone in a fresh process.  stdin: {"case":..., "step": i}; stdout: the c08Out.
func c08RefWorker(args []string) {
	var in struct {
		Case c08Case `json:"case"`
		Step int     `json:"step"`
	}
	if err := json.NewDecoder(os.Stdin).Decode(&in); err != nil || in.Step >= len(in.Case.Steps) {
		fmt.Println(`{"msg":"bad request"}`)
		return
	}
	restore := c08Install(&in.Case)
	defer restore()
	w, err := c08Build(&in.Case, in.Step)
	if err != nil {
		fmt.Println(`{"msg":"compile error"}`)
		return
	}
	o := w.exec(in.Case.Steps[in.Step])
	o.Out = hex.EncodeToString([]byte(o.Out)) // JSON would replace the bytes of a cut multi-byte character by U+FFFD
	bs, _ := json.Marshal(o)
	fmt.Println("D " + string(bs))
}

func c08FreshProcess(e *env, c *c08Case, step int) (c08Out, bool) {
	req, _ := json.Marshal(map[string]interface{}{"case": c, "step": step})
	cmd := exec.Command(e.self, "worker", "c08ref")
	cmd.Stdin = bytes.NewReader(req)
	outb, err := cmd.Output()
	if err != nil {
		return c08Out{}, false
	}
	for _, line := range strings.Split(string(outb), "\n") {
		if strings.HasPrefix(line, "D ") {
			var o c08Out
			if json.Unmarshal([]byte(line[2:]), &o) == nil {
				if raw, err := hex.DecodeString(o.Out); err == nil {
					o.Out = string(raw)
					return o, true
				}
			}
		}
	}
	return c08Out{}, false
}

func c08Run(e *env, c *c08Case, key string, sample bool) {
	restore := c08Install(c)
	defer restore()
	w, err := c08Build(c, 0)
	if err != nil {
		e.res.Histogram["compile-errors"]++
		return
	}
	digest := func() []string {
		out := []string{deepDigest(w.reg[0]), deepDigest(w.reg[1]), c08Globals()}
		for _, d := range w.ds {
			out = append(out, deepDigest(d))
		}
		for _, d := range w.ijs {
			out = append(out, deepDigest(d))
		}
		return out
	}
	what := func(i int) string {
		switch {
		case i == 0:
			return "the compiled registry"
		case i == 1:
			return "the second compiled registry"
		case i == 2:
			return "the registry globals (PrintDirectives / Funcs / ObligatoryPrintDirectiveNames, soyjs tables)"
		case i < 3+len(w.ds):
			return fmt.Sprintf("data map %d", i-3)
		}
		return fmt.Sprintf("injected-data map %d", i-3-len(w.ds))
	}
	d0 := digest()

	// model: the registries as compiled, before anything ran
	modelOK := true // the custom configuration is rendered by the extended walker (Model/InterpExt.v, op render_x)
	ids := newIDTable()
	if modelOK {
		for k := 0; k < 2; k++ {
			if r := e.m.Call("load_registry", fmt.Sprintf("%s-%d", key, k), registrySexp(w.reg[k], ids)); len(r) == 0 || r[0] != "#1" {
				e.res.Fail(hx.Violation{Kind: "mismatch", What: "model cannot load the registry", Case: c, Observed: fmt.Sprint(r)}, "")
				modelOK = false
			}
		}
	}

	alone := map[string]c08Out{}
	okRenders := 0
	failedDigest, failedOutput := false, false
	epoch := make([]int, len(w.ds))
	lastRender := -1
	var lastGot c08Out
	for i, st := range c.Steps {
		got := w.exec(st)
		e.res.Histogram["step:"+st.Kind]++
		if strings.HasPrefix(st.Template, "extra.") || strings.HasPrefix(st.Template, "chains.") || strings.HasPrefix(st.Template, "custom.") {
			if st.Kind == "render" {
				e.res.Histogram[fmt.Sprintf("probe:%s:err=%v", st.Template, got.Err)]++
				if got.Err && os.Getenv("C08_DEBUG") != "" {
					m := got.Msg
					if len(m) > 100 {
						m = m[:100]
					}
					e.res.Histogram["probe-error:"+st.Template+":"+m]++
				}
			}
		}
		if got.Err {
			e.res.Histogram["step-errors"]++
			e.res.Histogram["step-errors:"+st.Kind]++
		} else if st.Kind == "render" && got.Out != "" {
			okRenders++
		}
		if st.Kind == "mutate" {
			// the caller's own change: that map's expected digest moves, nothing else may
			k := st.Data % len(w.ds)
			epoch[k]++
			d0[3+k] = deepDigest(w.ds[k])
		}
		// (1) nothing shared changed
		d1 := digest()
		for k := range d0 {
			if d0[k] != d1[k] && !failedDigest {
				failedDigest = true
				c.FailedAt = i
				e.res.Fail(hx.Violation{Kind: "oracle", What: fmt.Sprintf("step %d (%s %s) modified %s", i, st.Kind, st.Template, what(k)), Case: c,
					Expected: "digest " + d0[k], Observed: "digest " + d1[k]}, "")
			}
		}
		if st.Kind == "mutate" {
			continue
		}
		// (2) the same step alone: fresh compile, fresh data
		sk := fmt.Sprintf("%s|%s|%d.%d|%d|%d|%d|%v|%v", st.Kind, st.Template, st.Data, epoch[st.Data%len(epoch)], st.Ij, st.Budget, st.File, st.ES6, st.Alt)
		ref, ok := alone[sk]
		if !ok {
			w2, err := c08Build(c, i)
			if err != nil {
				continue
			}
			ref = w2.exec(st)
			alone[sk] = ref
			if modelOK && (st.Kind == "render" || st.Kind == "render-nodata" || st.Kind == "render-short") {
				c08Model(e, c, key, st, w2, ref, ids)
			}
		}
		if (got.Out != ref.Out || got.Err != ref.Err) && !failedOutput {
			failedOutput = true
			c.FailedAt = i
			thing := "render of " + st.Template
			if st.Kind == "jsgen" {
				thing = "JavaScript generated for file " + fmt.Sprint(st.File)
			}
			e.res.Fail(hx.Violation{Kind: "oracle", What: fmt.Sprintf("step %d: %s gives a different result after this history than alone", i, thing), Case: c,
				Expected: hx.Q(c08Clip(ref.Out)) + " error=" + fmt.Sprint(ref.Err), Observed: hx.Q(c08Clip(got.Out)) + " error=" + fmt.Sprint(got.Err) + " " + got.Msg}, "")
		}
		if st.Kind != "jsgen" {
			lastRender, lastGot = i, got
		}
	}
	// (3) the last render of the history against the same render in a fresh process
	if lastRender >= 0 && os.Getenv("C08_NO_FRESH_PROCESS") == "" {
		if ref, ok := c08FreshProcess(e, c, lastRender); ok {
			e.res.Histogram["fresh-process-references"]++
			if (lastGot.Out != ref.Out || lastGot.Err != ref.Err) && !failedOutput {
				c.FailedAt = lastRender
				e.res.Fail(hx.Violation{Kind: "oracle", What: fmt.Sprintf("step %d: render of %s gives a different result after this history than alone in a fresh process", lastRender, c.Steps[lastRender].Template), Case: c,
					Expected: hx.Q(c08Clip(ref.Out)) + " error=" + fmt.Sprint(ref.Err), Observed: hx.Q(c08Clip(lastGot.Out)) + " error=" + fmt.Sprint(lastGot.Err)}, "")
			}
		} else {
			e.res.Histogram["fresh-process-failures"]++
		}
	}
	bs, _ := json.Marshal(c.Steps)
	e.res.Count(fmt.Sprint(c.Files)+string(bs)+c.Oblig, okRenders >= 2, "history:"+map[bool]string{true: "custom", false: "builtin"}[c.Custom]+":"+map[bool]string{true: "obligatory", false: "plain"}[c.Oblig != ""])
	if sample {
		n := len(c.Steps)
		if n > 4 {
			n = 4
		}
		e.res.Sample(map[string]interface{}{"files": len(c.Files), "obligatory": c.Oblig, "custom_function": c.Custom, "steps": c.Steps[:n], "n_steps": len(c.Steps), "successful_renders": okRenders})
	}
}

func c08Clip(s string) string {
	if len(s) > 400 {
		return s[:400] + "..."
	}
	return s
}

// c08Model compares one render (alone) with the model and checks the model's shared-write record.
func c08Model(e *env, c *c08Case, key string, st c08Step, w *c08World, ref c08Out, ids *idTable) {
	obl := "-"
	if c.Oblig != "" {
		obl = hex.EncodeToString([]byte(c.Oblig))
	}
	d := w.ds[st.Data%len(w.ds)]
	if st.Kind == "render-nodata" {
		d = data.Map{}
	}
	ijs := "none"
	if st.Ij >= 0 {
		ijs = valueSexp(w.ijs[st.Ij%len(w.ijs)], ids)
	}
	bl := "none"
	if st.Kind == "render-short" {
		bl = fmt.Sprintf("#%d", st.Budget)
	}
	k := 0
	if st.Alt {
		k = 1
	}
	var r []string
	if c.Custom || c.Oblig == "verifBang" {
		// installed functions / directive: Model/InterpExt.v render_x with ux_harness (the mirror of c08Install)
		flag := func(b bool) string {
			if b {
				return "#1"
			}
			return "#0"
		}
		e.res.Histogram["model:render_x"]++
		r = e.m.Call("render_x", fmt.Sprintf("%s-%d", key, k), sx(st.Template), "#4000", "none", bl, obl, flag(c.Oblig == "verifBang"), flag(c.Custom), ijs, ";", valueSexp(d, ids))
	} else {
		r = e.m.Call("render", fmt.Sprintf("%s-%d", key, k), sx(st.Template), "#4000", "none", bl, obl, ijs, ";", valueSexp(d, ids))
	}
	if len(r) < 5 {
		e.res.Fail(hx.Violation{Kind: "mismatch", What: "model render failed", Case: c, Observed: fmt.Sprint(r)}, "")
		return
	}
	cls := strings.Split(r[0], ",")[0]
	if cls == "outofmodel" || cls == "fuel" || (cls == "crash" && strings.Contains(r[0], hex.EncodeToString([]byte("not modelled")))) {
		e.res.Histogram["model:"+cls]++
		return
	}
	if r[4] != "#0" {
		e.res.Fail(hx.Violation{Kind: "mismatch", What: "the model records a write through a caller-owned frame", Case: c, Observed: r[4]}, "")
	}
	var mo strings.Builder
	for _, f := range r[5:] {
		mo.WriteString(hx.UnH(f))
	}
	if (cls == "ok") != !ref.Err || (cls != "ok" && cls != "err") || mo.String() != ref.Out {
		e.res.Fail(hx.Violation{Kind: "mismatch", What: "render of " + st.Template + " (" + st.Kind + ") differs from the model", Case: c,
			Expected: r[0] + " " + hx.Q(mo.String()), Observed: fmt.Sprint(ref.Err) + " " + hx.Q(ref.Out) + " " + ref.Msg}, "")
	}
}

func c08Replay(e *env) {
	bs, err := os.ReadFile(e.replay)
	if err != nil {
		e.res.Fail(hx.Violation{Kind: "obligation", What: "cannot read replay: " + err.Error(), Case: e.replay}, "")
		return
	}
	var rp struct {
		Case c08Case `json:"case"`
	}
	if err := json.Unmarshal(bs, &rp); err != nil || len(rp.Case.Files) == 0 {
		e.res.Fail(hx.Violation{Kind: "obligation", What: "replay file has no C08 case", Case: e.replay}, "")
		return
	}
	c08Run(e, &rp.Case, "replay", true)
}
