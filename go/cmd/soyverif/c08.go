//go:build c08

package main

// C08 — rendering is pure.
//
// Histories of renders over ONE compiled bundle and ONE set of data / injected
// data objects, mixing templates, data sets, failing renders (missing
// template, empty data, failing writer, unknown function) and soyjs.Write.
// After every step a deep structural digest (reflect walk) of the registry,
// of every data map and of every injected-data map must equal the digest taken
// before the history; and the output of every render must equal the output of
// the same render ALONE: a fresh compile of the same sources and a fresh copy
// of the data.  Three configurations of the user-extensible registries: none;
// a built-in obligatory print directive (the model renders it too); a custom
// obligatory directive plus a custom function.  The globals are restored.

import (
	"bytes"
	"crypto/sha256"
	"encoding/hex"
	"encoding/json"
	"fmt"
	"math"
	"os"
	"reflect"
	"sort"
	"strings"

	"github.com/robfig/soy"
	"github.com/robfig/soy/data"
	"github.com/robfig/soy/soyhtml"
	"github.com/robfig/soy/soyjs"
	"github.com/robfig/soy/template"
	"soyverif/internal/hx"
)

func init() { props["C08"] = runC08 }

// ---------- deep structural digest ----------

type digester struct {
	h    *bytes.Buffer
	seen map[uintptr]int
}

func deepDigest(vs ...interface{}) string {
	d := &digester{h: &bytes.Buffer{}, seen: map[uintptr]int{}}
	for _, v := range vs {
		d.walk(reflect.ValueOf(v))
	}
	s := sha256.Sum256(d.h.Bytes())
	return hex.EncodeToString(s[:12])
}

func (d *digester) walk(v reflect.Value) {
	if !v.IsValid() {
		d.h.WriteString("<nil>")
		return
	}
	fmt.Fprintf(d.h, "(%s ", v.Type().String())
	switch v.Kind() {
	case reflect.Bool:
		fmt.Fprintf(d.h, "%v", v.Bool())
	case reflect.Int, reflect.Int8, reflect.Int16, reflect.Int32, reflect.Int64:
		fmt.Fprintf(d.h, "%d", v.Int())
	case reflect.Uint, reflect.Uint8, reflect.Uint16, reflect.Uint32, reflect.Uint64, reflect.Uintptr:
		fmt.Fprintf(d.h, "%d", v.Uint())
	case reflect.Float32, reflect.Float64:
		fmt.Fprintf(d.h, "%x", math.Float64bits(v.Float()))
	case reflect.String:
		fmt.Fprintf(d.h, "%q", v.String())
	case reflect.Ptr:
		if v.IsNil() {
			d.h.WriteString("nil")
			break
		}
		p := v.Pointer()
		if id, ok := d.seen[p]; ok {
			fmt.Fprintf(d.h, "^%d", id)
			break
		}
		d.seen[p] = len(d.seen)
		d.walk(v.Elem())
	case reflect.Interface:
		if v.IsNil() {
			d.h.WriteString("nil")
			break
		}
		d.walk(v.Elem())
	case reflect.Slice:
		if v.IsNil() {
			d.h.WriteString("nil")
			break
		}
		fmt.Fprintf(d.h, "#%d ", v.Len())
		for i := 0; i < v.Len(); i++ {
			d.walk(v.Index(i))
		}
	case reflect.Array:
		for i := 0; i < v.Len(); i++ {
			d.walk(v.Index(i))
		}
	case reflect.Map:
		if v.IsNil() {
			d.h.WriteString("nil")
			break
		}
		type kv struct{ k, v string }
		var items []kv
		it := v.MapRange()
		for it.Next() {
			kd := &digester{h: &bytes.Buffer{}, seen: d.seen}
			kd.walk(it.Key())
			vd := &digester{h: &bytes.Buffer{}, seen: d.seen}
			vd.walk(it.Value())
			items = append(items, kv{kd.h.String(), vd.h.String()})
		}
		sort.Slice(items, func(i, j int) bool { return items[i].k < items[j].k })
		fmt.Fprintf(d.h, "#%d ", len(items))
		for _, it := range items {
			d.h.WriteString(it.k + "=>" + it.v + ";")
		}
	case reflect.Struct:
		for i := 0; i < v.NumField(); i++ {
			d.h.WriteString(v.Type().Field(i).Name + ":")
			d.walk(v.Field(i))
		}
	case reflect.Func, reflect.Chan, reflect.UnsafePointer:
		if v.IsNil() {
			d.h.WriteString("nil")
		} else {
			d.h.WriteString("set")
		}
	default:
		d.h.WriteString("?")
	}
	d.h.WriteString(")")
}

// ---------- cases ----------

type c08Step struct {
	Kind     string `json:"kind"` // render | render-short | render-nodata | render-missing | jsgen
	Template string `json:"template,omitempty"`
	Data     int    `json:"data"`
	Ij       int    `json:"ij"` // -1: none
	Budget   int    `json:"budget,omitempty"`
	File     int    `json:"file,omitempty"`
}

type c08Case struct {
	Files    []srcFile `json:"files"`
	Oblig    string    `json:"obligatory_directive"` // "" | built-in name | "verifBang" (custom)
	Custom   bool      `json:"custom_function"`
	DataSets []string  `json:"data_sets"`
	Ijs      []string  `json:"ij_sets"`
	Steps    []c08Step `json:"steps"`
	FailedAt int       `json:"failed_at_step"`
}

var c08Pool = []gparam{{"a", kInt, false}, {"b", kStr, false}, {"c", kListInt, false}, {"x", kInt, false}, {"s", kStr, false}, {"flag", kBool, false},
	{"f", kFloat, false}, {"rec", kRec, false}, {"opt", kOptInt, true}, {"names", kListStr, false}, {"el", kEList, false}, {"i", kInt, false}, {"n", kInt, false}}

const c08Extra = `{namespace extra}

/**
 * @param? x
 * @param names
 */
{template .ij}
{$ij.foo}{if $x}{$x}{/if}<i>{$ij.bar ?: 'none'}</i>{foreach $n in $names}{$n}{/foreach}
{/template}
`

const c08Custom = `{namespace custom}

/**
 * @param names
 * @param b
 */
{template .custom}
{verifTwice(length($names))}{$b}{let $k}{$b}&{/let}{$k}
{/template}
`

func runC08(e *env) {
	e.res.Rule = "per bundle (gen_prog.go command grammar + a file using $ij and a custom function) one compiled registry, 3 data maps, 2 injected-data maps and a history of 12 (quick) / 200 (thorough) steps drawn from: render any template of the bundle with any data set and optional $ij, render against a short-capacity writer, render with empty data, render a missing template, soyjs.Write of a file; under 3 registry configurations (plain; built-in obligatory directive escapeUri/escapeHtml, compared with the model; custom obligatory directive + custom function). After EVERY step: deep reflect digest of registry, all data maps, all ij maps and the registry globals equals the initial one; every render's (output, error?) equals the same render alone (fresh compile, fresh copy of the data). Model vs implementation on (output, error?) of every distinct render, and model's shared-write count = 0. Non-trivial = history with at least 2 successful renders of a template that prints; distinct by sources + steps."
	if e.replay != "" {
		c08Replay(e)
		return
	}
	steps := 12
	nb := 90 * e.scale
	if e.tier == "thorough" {
		steps = 200
		nb = 60
	}
	// the smallest history first: {$x} three times under an obligatory directive
	for j, ob := range []string{"verifBang", "escapeUri", ""} {
		fx := c08Case{Files: []srcFile{{"fixed.soy", "{namespace fx}\n\n/**\n * @param x\n */\n{template .t}\n{$x}\n{/template}\n"}}, Oblig: ob, Custom: ob == "verifBang",
			DataSets: []string{valueSexp(data.Map{"x": data.String("x y")}, newIDTable())}, Ijs: []string{valueSexp(data.Map{"foo": data.Int(1)}, newIDTable())},
			Steps: []c08Step{{Kind: "render", Template: "fx.t", Ij: -1}, {Kind: "render", Template: "fx.t", Ij: -1}, {Kind: "jsgen"}, {Kind: "render", Template: "fx.t", Ij: -1}}}
		c08Run(e, &fx, fmt.Sprintf("fx%d", j), j == 0)
	}
	for i := 0; i < nb; i++ {
		o := progOpts{depth: 2 + e.rng.Intn(2), directives: true}
		if i%5 == 4 {
			o.illTyped = 6
		}
		files, _, _, feats := genBundle(e.rng, o)
		for f := range feats {
			e.res.Histogram["feat:"+f]++
		}
		files = append(files, srcFile{"extra.soy", c08Extra}, srcFile{"custom.soy", c08Custom})
		c := c08Case{Files: files}
		switch i % 3 {
		case 1:
			c.Oblig = []string{"escapeUri", "escapeHtml"}[e.rng.Intn(2)]
		case 2:
			c.Oblig = "verifBang"
			c.Custom = true
		}
		ids := newIDTable()
		for k := 0; k < 3; k++ {
			dm := genData(e.rng, c08Pool, o)
			dm["n"] = data.Int(e.rng.Intn(5)) // depth of the recursive countdown template
			c.DataSets = append(c.DataSets, valueSexp(dm, ids))
		}
		c.Ijs = []string{valueSexp(data.Map{"foo": data.String("<ij&>"), "bar": data.Int(3)}, ids),
			valueSexp(data.Map{"foo": data.List{data.Int(1), data.String("two")}}, ids)}
		names := c08TemplateNames(files)
		if len(names) == 0 {
			e.res.Histogram["compile-errors"]++
			continue
		}
		for s := 0; s < steps; s++ {
			st := c08Step{Data: e.rng.Intn(len(c.DataSets)), Ij: e.rng.Intn(len(c.Ijs)+1) - 1}
			switch r := e.rng.Intn(20); {
			case r < 12:
				st.Kind, st.Template = "render", names[e.rng.Intn(len(names))]
			case r < 14:
				st.Kind, st.Template, st.Budget = "render-short", names[e.rng.Intn(len(names))], e.rng.Intn(12)
			case r < 15:
				st.Kind, st.Template = "render-nodata", names[e.rng.Intn(len(names))]
			case r < 16:
				st.Kind, st.Template = "render-missing", "no.such.template"
			case r < 17 && s > 0: // the same render again, back to back
				st = c.Steps[s-1]
			default:
				st.Kind, st.File = "jsgen", e.rng.Intn(len(files))
			}
			c.Steps = append(c.Steps, st)
		}
		c08Run(e, &c, fmt.Sprintf("h%d", i), i%29 == 0)
	}
}

func c08TemplateNames(files []srcFile) []string {
	b := soy.NewBundle()
	for _, f := range files {
		b.AddTemplateString(f.Name, f.Text)
	}
	reg, err := b.Compile()
	if err != nil {
		return nil
	}
	var names []string
	for _, t := range reg.Templates {
		names = append(names, t.Node.Name)
	}
	return names
}

func c08Compile(files []srcFile) (*template.Registry, error) {
	b := soy.NewBundle()
	for _, f := range files {
		b.AddTemplateString(f.Name, f.Text)
	}
	return b.Compile()
}

func c08Values(sexps []string) ([]data.Map, error) {
	var out []data.Map
	for _, s := range sexps {
		v, err := sexpToValue(s, nil)
		if err != nil {
			return nil, err
		}
		m, ok := v.(data.Map)
		if !ok {
			return nil, fmt.Errorf("not a map: %s", s)
		}
		out = append(out, m)
	}
	return out, nil
}

// c08Install sets the registry globals of a configuration and returns the function that restores them.
func c08Install(c *c08Case) func() {
	savedOblig := soyhtml.ObligatoryPrintDirectiveNames
	if c.Oblig != "" {
		soyhtml.ObligatoryPrintDirectiveNames = []string{c.Oblig}
	}
	if c.Oblig == "verifBang" {
		soyhtml.PrintDirectives["verifBang"] = soyhtml.PrintDirective{
			Apply:           func(v data.Value, _ []data.Value) data.Value { return data.String(v.String() + "!") },
			ValidArgLengths: []int{0}}
	}
	if c.Custom {
		soyhtml.Funcs["verifTwice"] = soyhtml.Func{
			Apply:           func(args []data.Value) data.Value { n, _ := args[0].(data.Int); return data.Int(2 * n) },
			ValidArgLengths: []int{1}}
	}
	return func() {
		soyhtml.ObligatoryPrintDirectiveNames = savedOblig
		delete(soyhtml.PrintDirectives, "verifBang")
		delete(soyhtml.Funcs, "verifTwice")
	}
}

func c08Globals() string {
	var ds, fs []string
	for k := range soyhtml.PrintDirectives {
		ds = append(ds, k)
	}
	for k := range soyhtml.Funcs {
		fs = append(fs, k)
	}
	sort.Strings(ds)
	sort.Strings(fs)
	return strings.Join(ds, ",") + "|" + strings.Join(fs, ",") + "|" + strings.Join(soyhtml.ObligatoryPrintDirectiveNames, ",")
}

type c08Out struct {
	out string
	err bool
	msg string
}

func c08Exec(reg *template.Registry, st c08Step, d data.Map, ij data.Map) (res c08Out) {
	defer func() {
		if r := recover(); r != nil {
			res = c08Out{res.out, true, fmt.Sprintf("PANIC: %v", r)}
		}
	}()
	tofu := soyhtml.NewTofu(reg)
	switch st.Kind {
	case "jsgen":
		var buf bytes.Buffer
		err := soyjs.Write(&buf, reg.SoyFiles[st.File%len(reg.SoyFiles)], soyjs.Options{})
		return c08Out{"", err != nil, errStr(err)} // the JS text is C13/C14's business
	case "render-short":
		w := &c08Short{left: st.Budget}
		r := tofu.NewRenderer(st.Template)
		if ij != nil {
			r = r.Inject(ij)
		}
		err := r.Execute(w, d)
		return c08Out{string(w.acc), err != nil, errStr(err)}
	default:
		var buf bytes.Buffer
		r := tofu.NewRenderer(st.Template)
		if ij != nil {
			r = r.Inject(ij)
		}
		err := r.Execute(&buf, d)
		return c08Out{buf.String(), err != nil, errStr(err)}
	}
}

type c08Short struct {
	left int
	acc  []byte
}

func (w *c08Short) Write(p []byte) (int, error) {
	if len(p) <= w.left {
		w.left -= len(p)
		w.acc = append(w.acc, p...)
		return len(p), nil
	}
	n := w.left
	w.acc = append(w.acc, p[:n]...)
	w.left = 0
	return n, fmt.Errorf("short write")
}

func c08Run(e *env, c *c08Case, key string, sample bool) {
	restore := c08Install(c)
	defer restore()
	reg, err := c08Compile(c.Files)
	if err != nil {
		e.res.Histogram["compile-errors"]++
		return
	}
	ds, err1 := c08Values(c.DataSets)
	ijs, err2 := c08Values(c.Ijs)
	if err1 != nil || err2 != nil {
		e.res.Fail(hx.Violation{Kind: "obligation", What: "cannot rebuild the data of the case", Case: c}, "")
		return
	}
	pick := func(st c08Step, ds, ijs []data.Map) (data.Map, data.Map) {
		d := ds[st.Data%len(ds)]
		if st.Kind == "render-nodata" {
			d = data.Map{}
		}
		var ij data.Map
		if st.Ij >= 0 {
			ij = ijs[st.Ij%len(ijs)]
		}
		return d, ij
	}
	digest := func() []string {
		out := []string{deepDigest(reg), c08Globals()}
		for _, d := range ds {
			out = append(out, deepDigest(d))
		}
		for _, d := range ijs {
			out = append(out, deepDigest(d))
		}
		return out
	}
	what := func(i int) string {
		switch {
		case i == 0:
			return "the compiled registry"
		case i == 1:
			return "the registry globals (PrintDirectives / Funcs / ObligatoryPrintDirectiveNames)"
		case i < 2+len(ds):
			return fmt.Sprintf("data map %d", i-2)
		}
		return fmt.Sprintf("injected-data map %d", i-2-len(ds))
	}
	d0 := digest()

	// model: the registry as compiled, before anything ran
	modelOK := c.Oblig != "verifBang"
	ids := newIDTable()
	if modelOK {
		if r := e.m.Call("load_registry", key, registrySexp(reg, ids)); len(r) == 0 || r[0] != "#1" {
			e.res.Fail(hx.Violation{Kind: "mismatch", What: "model cannot load the registry", Case: c, Observed: fmt.Sprint(r)}, "")
			modelOK = false
		}
	}

	alone := map[string]c08Out{}
	okRenders := 0
	failedDigest, failedOutput := false, false
	for i, st := range c.Steps {
		d, ij := pick(st, ds, ijs)
		got := c08Exec(reg, st, d, ij)
		e.res.Histogram["step:"+st.Kind]++
		if got.err {
			e.res.Histogram["step-errors"]++
			e.res.Histogram["step-errors:"+st.Kind]++
			if st.Kind == "jsgen" && os.Getenv("C08_DEBUG") != "" {
				m := got.msg
				if len(m) > 90 {
					m = m[:90]
				}
				e.res.Histogram["jsgen-error:"+m]++
			}
		} else if st.Kind == "render" && got.out != "" {
			okRenders++
		}
		// (1) nothing shared changed
		d1 := digest()
		for k := range d0 {
			if d0[k] != d1[k] && !failedDigest {
				failedDigest = true
				c.FailedAt = i
				e.res.Fail(hx.Violation{Kind: "oracle", What: fmt.Sprintf("step %d (%s %s) modified %s", i, st.Kind, st.Template, what(k)), Case: c,
					Expected: "digest " + d0[k], Observed: "digest " + d1[k]}, "")
			}
		}
		if st.Kind == "jsgen" {
			continue
		}
		// (2) the same render alone: fresh compile, fresh data
		sk := fmt.Sprintf("%s|%s|%d|%d|%d", st.Kind, st.Template, st.Data, st.Ij, st.Budget)
		ref, ok := alone[sk]
		if !ok {
			reg2, err := c08Compile(c.Files)
			ds2, _ := c08Values(c.DataSets)
			ijs2, _ := c08Values(c.Ijs)
			if err != nil {
				continue
			}
			d2, ij2 := pick(st, ds2, ijs2)
			ref = c08Exec(reg2, st, d2, ij2)
			alone[sk] = ref
			if modelOK && (st.Kind == "render" || st.Kind == "render-nodata" || st.Kind == "render-short") {
				c08Model(e, c, key, st, d2, ij2, ref, ids)
			}
		}
		if (got.out != ref.out || got.err != ref.err) && !failedOutput {
			failedOutput = true
			c.FailedAt = i
			e.res.Fail(hx.Violation{Kind: "oracle", What: fmt.Sprintf("step %d: render of %s gives a different result after this history than alone", i, st.Template), Case: c,
				Expected: hx.Q(ref.out) + " error=" + fmt.Sprint(ref.err), Observed: hx.Q(got.out) + " error=" + fmt.Sprint(got.err) + " " + got.msg}, "")
		}
	}
	bs, _ := json.Marshal(c.Steps)
	e.res.Count(fmt.Sprint(c.Files)+string(bs)+c.Oblig, okRenders >= 2, "history:"+map[bool]string{true: "custom", false: "builtin"}[c.Custom]+":"+map[bool]string{true: "obligatory", false: "plain"}[c.Oblig != ""])
	if sample {
		e.res.Sample(map[string]interface{}{"files": len(c.Files), "obligatory": c.Oblig, "custom_function": c.Custom, "steps": c.Steps[:4], "n_steps": len(c.Steps), "successful_renders": okRenders})
	}
}

// c08Model compares one render (alone) with the model and checks the model's shared-write record.
func c08Model(e *env, c *c08Case, key string, st c08Step, d, ij data.Map, ref c08Out, ids *idTable) {
	obl := "-"
	if c.Oblig != "" {
		obl = hex.EncodeToString([]byte(c.Oblig))
	}
	ijs := "none"
	if ij != nil {
		ijs = valueSexp(ij, ids)
	}
	bl := "none"
	if st.Kind == "render-short" {
		bl = fmt.Sprintf("#%d", st.Budget)
	}
	r := e.m.Call("render", key, sx(st.Template), "#4000", "none", bl, obl, ijs, ";", valueSexp(d, ids))
	if len(r) < 5 {
		e.res.Fail(hx.Violation{Kind: "mismatch", What: "model render failed", Case: c, Observed: fmt.Sprint(r)}, "")
		return
	}
	cls := strings.Split(r[0], ",")[0]
	if cls == "outofmodel" || cls == "fuel" || (cls == "crash" && strings.Contains(r[0], hex.EncodeToString([]byte("not modelled")))) {
		e.res.Histogram["model:"+cls]++
		return
	}
	if r[4] != "#0" {
		e.res.Fail(hx.Violation{Kind: "mismatch", What: "the model records a write through a caller-owned frame", Case: c, Observed: r[4]}, "")
	}
	var mo strings.Builder
	for _, f := range r[5:] {
		mo.WriteString(hx.UnH(f))
	}
	if (cls == "ok") != !ref.err || (cls != "ok" && cls != "err") || mo.String() != ref.out {
		e.res.Fail(hx.Violation{Kind: "mismatch", What: "render of " + st.Template + " (" + st.Kind + ") differs from the model", Case: c,
			Expected: r[0] + " " + hx.Q(mo.String()), Observed: fmt.Sprint(ref.err) + " " + hx.Q(ref.out) + " " + ref.msg}, "")
	}
}

func c08Replay(e *env) {
	bs, err := os.ReadFile(e.replay)
	if err != nil {
		e.res.Fail(hx.Violation{Kind: "obligation", What: "cannot read replay: " + err.Error(), Case: e.replay}, "")
		return
	}
	var rp struct {
		Case c08Case `json:"case"`
	}
	if err := json.Unmarshal(bs, &rp); err != nil || len(rp.Case.Files) == 0 {
		e.res.Fail(hx.Violation{Kind: "obligation", What: "replay file has no C08 case", Case: e.replay}, "")
		return
	}
	c08Run(e, &rp.Case, "replay", true)
}
