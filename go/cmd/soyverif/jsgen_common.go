//go:build c14 || c04

package main

// Shared by C14 and C04: bundles with globals and translations, the real
// soyjs.Write under both formatters, the model's text (op jsgen), and the node
// runner js/c14.js.

import (
	"bytes"
	"context"
	"encoding/json"
	"fmt"
	"os"
	"os/exec"
	"path/filepath"
	"sort"
	"strconv"
	"strings"
	"time"

	"github.com/robfig/soy"
	"github.com/robfig/soy/ast"
	"github.com/robfig/soy/data"
	"github.com/robfig/soy/soyjs"
	"github.com/robfig/soy/soymsg"
	"github.com/robfig/soy/template"
	"soyverif/internal/hx"
)

type c14Part struct {
	Kind  string      `json:"kind"` // raw | ph | plural
	Text  string      `json:"text"` // raw text | placeholder name | plural variable name
	Cases [][]c14Part `json:"cases,omitempty"`
}

type c14Echo struct {
	Template string `json:"template"`
	Want     string `json:"want"`    // the original string
	Context  string `json:"context"` // where the string sits
	UseMsgs  bool   `json:"use_msgs,omitempty"`
}

type c14Bundle struct {
	Stream    string                 `json:"stream"`
	Files     []srcFile              `json:"files"`
	Globals   map[string]interface{} `json:"globals,omitempty"`
	Translate int                    `json:"translate,omitempty"` // != 0: derive a translation bundle from the message nodes with this seed
	Trans     map[string][]c14Part   `json:"trans,omitempty"`     // explicit translations: template name -> parts of its first message
	Echo      []c14Echo              `json:"echo,omitempty"`
	Feats     map[string]int         `json:"-"`
}

func c14LoadReplay(path string) (*c14Bundle, error) {
	bs, err := os.ReadFile(path)
	if err != nil {
		return nil, err
	}
	var rp struct {
		Case json.RawMessage `json:"case"`
	}
	if err := json.Unmarshal(bs, &rp); err != nil {
		return nil, err
	}
	var b c14Bundle
	if err := json.Unmarshal(rp.Case, &b); err != nil {
		return nil, err
	}
	if len(b.Files) == 0 {
		return nil, fmt.Errorf("replay has no bundle")
	}
	return &b, nil
}

func jsCompile(b *c14Bundle) (reg *template.Registry, err error) {
	defer func() {
		if r := recover(); r != nil {
			err = fmt.Errorf("PANIC: %v", r)
		}
	}()
	sb := soy.NewBundle()
	for _, f := range b.Files {
		sb.AddTemplateString(f.Name, f.Text)
	}
	if len(b.Globals) > 0 {
		gm, ok := data.New(b.Globals).(data.Map)
		if !ok {
			return nil, fmt.Errorf("globals are not a map")
		}
		sb.AddGlobalsMap(gm)
	}
	return sb.Compile()
}

// ---------- translations ----------

type fakeMsgs struct{ m map[uint64]*soymsg.Message }

func (f fakeMsgs) Locale() string                    { return "xx" }
func (f fakeMsgs) Message(id uint64) *soymsg.Message { return f.m[id] }
func (f fakeMsgs) PluralCase(n int) int              { return 0 }

func partsToSoy(ps []c14Part) []soymsg.Part {
	var out []soymsg.Part
	for _, p := range ps {
		switch p.Kind {
		case "raw":
			out = append(out, soymsg.RawTextPart{Text: p.Text})
		case "ph":
			out = append(out, soymsg.PlaceholderPart{Name: p.Text})
		case "plural":
			pp := soymsg.PluralPart{VarName: p.Text}
			for _, c := range p.Cases {
				pp.Cases = append(pp.Cases, soymsg.PluralCase{Spec: soymsg.PluralSpec{Type: soymsg.PluralSpecOther}, Parts: partsToSoy(c)})
			}
			out = append(out, pp)
		}
	}
	return out
}

func partsSexp(ps []c14Part) string {
	var out []string
	for _, p := range ps {
		switch p.Kind {
		case "raw":
			out = append(out, "(raw "+sx(p.Text)+")")
		case "ph":
			out = append(out, "(ph "+sx(p.Text)+")")
		case "plural":
			var cs []string
			for _, c := range p.Cases {
				cs = append(cs, strings.TrimSpace("(case "+partsSexp(c))+")")
			}
			out = append(out, strings.TrimSpace("(plural "+sx(p.Text)+" "+strings.Join(cs, " "))+")")
		}
	}
	return strings.Join(out, " ")
}

func msgNodes(n ast.Node, f func(*ast.MsgNode)) {
	if n == nil {
		return
	}
	if m, ok := n.(*ast.MsgNode); ok {
		f(m)
		return
	}
	if p, ok := n.(ast.ParentNode); ok {
		for _, c := range p.Children() {
			if c != nil && !isNilNode(c) {
				msgNodes(c, f)
			}
		}
	}
}

func isNilNode(n ast.Node) bool {
	switch v := n.(type) {
	case *ast.ListNode:
		return v == nil
	}
	return false
}

var c14NastyTexts = []string{"plain", "it's", "\"q\"", "back\\slash", "line\nbreak", "\u2028", "</script>", "\U0001F600", "\u00E9", "", "a'b\"c\\d", "<b>", "x"}

// translationParts derives a translation from a message node.
func translationParts(r *hx.Rand, children []ast.Node) []c14Part {
	var ps []c14Part
	for _, c := range children {
		switch c := c.(type) {
		case *ast.RawTextNode:
			t := string(c.Text)
			if r.Chance(50) {
				t = c14NastyTexts[r.Intn(len(c14NastyTexts))]
			}
			ps = append(ps, c14Part{Kind: "raw", Text: t})
		case *ast.MsgPlaceholderNode:
			ps = append(ps, c14Part{Kind: "ph", Text: c.Name})
		case *ast.MsgPluralNode:
			p := c14Part{Kind: "plural", Text: c.VarName}
			for _, pc := range c.Cases {
				p.Cases = append(p.Cases, translationParts(r, pc.Body.Children()))
			}
			p.Cases = append(p.Cases, translationParts(r, c.Default.Children()))
			if len(p.Cases) < 2 {
				p.Cases = append(p.Cases, translationParts(r, c.Default.Children()))
			}
			ps = append(ps, p)
		}
	}
	if len(ps) > 1 && r.Chance(30) {
		ps[0], ps[len(ps)-1] = ps[len(ps)-1], ps[0]
	}
	if r.Chance(30) {
		ps = append(ps, c14Part{Kind: "raw", Text: c14NastyTexts[r.Intn(len(c14NastyTexts))]})
	}
	return ps
}

// jsTranslations returns the translation table of a compiled bundle (nil = no message bundle).
func jsTranslations(b *c14Bundle, reg *template.Registry) map[uint64][]c14Part {
	if b.Translate == 0 && len(b.Trans) == 0 {
		return nil
	}
	tr := map[uint64][]c14Part{}
	var r *hx.Rand
	if b.Translate != 0 {
		r = hx.NewRand(int64(b.Translate))
	}
	for _, t := range reg.Templates {
		first := true
		msgNodes(t.Node, func(m *ast.MsgNode) {
			if ps, ok := b.Trans[t.Node.Name]; ok && first {
				tr[m.ID] = ps
			} else if r != nil && !r.Chance(20) {
				tr[m.ID] = translationParts(r, m.Body.Children())
			}
			first = false
		})
	}
	return tr
}

func msgsSexp(tr map[uint64][]c14Part) string {
	if tr == nil {
		return "none"
	}
	ids := make([]uint64, 0, len(tr))
	for id := range tr {
		ids = append(ids, id)
	}
	sort.Slice(ids, func(i, j int) bool { return ids[i] < ids[j] })
	var ms []string
	for _, id := range ids {
		ms = append(ms, strings.TrimSpace("("+strconv.FormatUint(id, 10)+" "+partsSexp(tr[id]))+")")
	}
	return strings.TrimSpace("(msgs "+strings.Join(ms, " ")) + ")"
}

func soyMsgBundle(tr map[uint64][]c14Part) soymsg.Bundle {
	if tr == nil {
		return nil
	}
	fm := fakeMsgs{m: map[uint64]*soymsg.Message{}}
	for id, ps := range tr {
		fm.m[id] = &soymsg.Message{ID: id, Parts: partsToSoy(ps)}
	}
	return fm
}

// ---------- generation: real and model ----------

func jsFileSexp(sf *ast.SoyFileNode, tr map[uint64][]c14Part) string {
	ids := newIDTable()
	return strings.TrimSpace("(jsfile "+sx(sf.Name)+" "+msgsSexp(tr)+" "+nodesSexp(sf.Body, ids)) + ")"
}

func jsWrite(sf *ast.SoyFileNode, es6 bool, msgs soymsg.Bundle) (out string, err error) {
	defer func() {
		if r := recover(); r != nil {
			err = fmt.Errorf("PANIC: %v", r)
		}
	}()
	var buf bytes.Buffer
	o := soyjs.Options{Messages: msgs}
	if es6 {
		o.Formatter = soyjs.ES6Formatter{}
	}
	err = soyjs.Write(&buf, sf, o)
	return buf.String(), err
}

// jsModel returns the model's outcome class and text.
func jsModel(e *env, sf *ast.SoyFileNode, es6 bool, tr map[uint64][]c14Part) (cls string, text string, raw []string) {
	f := "#5"
	if es6 {
		f = "#6"
	}
	r := e.m.Call("jsgen", f, "#100000", jsFileSexp(sf, tr))
	if len(r) == 0 {
		return "!empty", "", r
	}
	if r[0] == "ok" && len(r) >= 2 {
		return "ok", hx.UnH(r[1]), r
	}
	return r[0], "", r
}

func templatesOf(sf *ast.SoyFileNode) []string {
	var ts []string
	for _, n := range sf.Body {
		if t, ok := n.(*ast.TemplateNode); ok {
			ts = append(ts, t.Name)
		}
	}
	return ts
}

// ---------- node ----------

type jsNodeFile struct {
	Name      string   `json:"name"`
	Code      string   `json:"code"`
	Templates []string `json:"templates"`
}
type jsNodeCall struct {
	F  string      `json:"f"`
	D  interface{} `json:"d"`
	IJ interface{} `json:"ij,omitempty"`
}
type jsNodeUnit struct {
	ID    int          `json:"id"`
	Mode  string       `json:"mode"`
	Files []jsNodeFile `json:"files"`
	Calls []jsNodeCall `json:"calls"`
}
type jsNodeFileRes struct {
	Syntax  *string  `json:"syntax"`
	Run     *string  `json:"run"`
	Missing []string `json:"missing"`
}
type jsNodeCallRes struct {
	Hex string `json:"hex"`
	Err string `json:"err"`
	WF  bool   `json:"wf"`
}
type jsNodeUnitRes struct {
	ID         int             `json:"id"`
	Files      []jsNodeFileRes `json:"files"`
	Calls      []jsNodeCallRes `json:"calls"`
	Fatal      string          `json:"fatal"`
	UtilsError string          `json:"utils_error"`
}

func jsRunNode(units []jsNodeUnit, tag string, prop string) ([]jsNodeUnitRes, error) {
	dir := os.Getenv("VERIF_BUILD")
	if dir == "" {
		dir = os.TempDir()
	}
	dir = filepath.Join(dir, "logs")
	os.MkdirAll(dir, 0o755)
	inf := filepath.Join(dir, prop+".node-"+tag+".in.json")
	outf := filepath.Join(dir, prop+".node-"+tag+".out.json")
	repo := os.Getenv("VERIF_REPO")
	if repo == "" {
		repo = "/repo"
	}
	in := struct {
		Utils string       `json:"utils"`
		Units []jsNodeUnit `json:"units"`
	}{filepath.Join(repo, "soyjs", "lib", "soyutils.js"), units}
	var buf bytes.Buffer
	enc := json.NewEncoder(&buf)
	enc.SetEscapeHTML(false)
	if err := enc.Encode(in); err != nil {
		return nil, err
	}
	if err := os.WriteFile(inf, buf.Bytes(), 0o644); err != nil {
		return nil, err
	}
	os.Remove(outf)
	vd := os.Getenv("VERIF_DIR")
	if vd == "" {
		vd = "/verif"
	}
	ctx, cancel := context.WithTimeout(context.Background(), 300*time.Second)
	defer cancel()
	cmd := exec.CommandContext(ctx, "node", "--no-warnings", "--experimental-vm-modules", "--stack-size=8000", filepath.Join(vd, "js", "c14.js"), inf, outf)
	if outb, err := cmd.CombinedOutput(); err != nil {
		s := string(outb)
		if len(s) > 600 {
			s = s[:600]
		}
		return nil, fmt.Errorf("%v: %s", err, s)
	}
	bs, err := os.ReadFile(outf)
	if err != nil {
		return nil, err
	}
	var out struct {
		Units []jsNodeUnitRes `json:"units"`
	}
	if err := json.Unmarshal(bs, &out); err != nil {
		return nil, err
	}
	if len(out.Units) != len(units) {
		return nil, fmt.Errorf("node returned %d results for %d units", len(out.Units), len(units))
	}
	os.Remove(inf)
	os.Remove(outf)
	return out.Units, nil
}

func readJSONFile(path string, v interface{}) error {
	bs, err := os.ReadFile(path)
	if err != nil {
		return err
	}
	return json.Unmarshal(bs, v)
}
