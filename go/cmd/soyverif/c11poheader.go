//go:build c11

package main

// C11, the header entry of a catalogue and the plural rule of the bundle: net/textproto's ReadMIMEHeader on the
// header's msgstr, the tail of po.Parse (header taken out of the messages, Plural-Forms / Language lookup), the
// selector functions of po/plural.go and the head of pomsg.newBundle (file.Pluralize, else the rule of the
// locale's name, else an error) against Model/PoHeader.v.  Oracle on the implementation alone: a catalogue written
// by po.File.WriteTo with a Plural-Forms value the library knows loads under every locale name, and the header's
// rule -- not the locale's -- is the one Bundle.PluralCase applies.

import (
	"bytes"
	"fmt"
	"net/textproto"
	"sort"
	"strconv"
	"strings"

	"github.com/robfig/gettext/po"
	"github.com/robfig/soy/soymsg/pomsg"
	"soyverif/internal/hx"
)

var c11pohNumbers = []int{-1000003, -112, -101, -21, -11, -5, -2, -1, 0, 1, 2, 3, 4, 5, 6, 9, 10, 11, 12, 13, 14, 15, 19, 20, 21, 22, 24, 25,
	99, 100, 101, 102, 103, 104, 105, 110, 111, 112, 114, 119, 120, 121, 122, 125, 199, 200, 201, 202, 203, 211, 1000, 1001, 1002, 1000011, 1 << 40}

// (Plural-Forms value, a language whose rule it is)
var c11pohForms = [][2]string{
	{"nplurals=1; plural=0;", "ja"},
	{"nplurals=2; plural=(n != 1);", "en"},
	{"nplurals=2; plural=(n > 1);", "fr"},
	{"nplurals=3; plural=(n%10==1 && n%100!=11 ? 0 : n != 0 ? 1 : 2);", "lv"},
	{"nplurals=3; plural=n==1 ? 0 : n==2 ? 1 : 2;", "ga"},
	{"nplurals=3; plural=n==1 ? 0 : (n==0 || (n%100 > 0 && n%100 < 20)) ? 1 : 2;", "ro"},
	{"nplurals=3; plural=(n%10==1 && n%100!=11 ? 0 : n%10>=2 && (n%100<10 || n%100>=20) ? 1 : 2);", "lt"},
	{"nplurals=3; plural=(n%10==1 && n%100!=11 ? 0 : n%10>=2 && n%10<=4 && (n%100<10 || n%100>=20) ? 1 : 2);", "ru"},
	{"nplurals=3; plural=(n==1) ? 0 : (n>=2 && n<=4) ? 1 : 2;", "cs"},
	{"nplurals=3; plural=(n==1 ? 0 : n%10>=2 && n%10<=4 && (n%100<10 || n%100>=20) ? 1 : 2);", "pl"},
	{"nplurals=4; plural=(n%100==1 ? 0 : n%100==2 ? 1 : n%100==3 || n%100==4 ? 2 : 3);", "sl"},
	{"nplurals=6; plural=(n==0 ? 0 : n==1 ? 1 : n==2 ? 2 : n%100>=3 && n%100<=10 ? 3 : n%100>=11 ? 4 : 5);", "ar"},
}

var c11pohLangs = []string{"ja", "vi", "ko", "zh", "ms", "th", "en", "de", "nl", "sv", "da", "no", "nb", "nn", "fo", "es", "pt", "it", "bg", "el", "fi",
	"et", "he", "eo", "hu", "tr", "pt_BR", "pt-BR", "pt_PT", "fr", "fr_BE", "fr-CA", "lv", "ga", "ro", "lt", "ru", "uk", "be", "sr", "hr", "cs", "sk", "pl",
	"sl", "ar", "ar_EG", "en_GB", "en-US", "de_AT", "zz", "zz_YY", "xx", "e", "", "eng", "en_", "_en", "EN", "En_gb", "ru_", "r", "pt_br", "pt_B", "ja_JP_x"}

func c11pohNumberFields() string {
	fs := []string{hx.I(int64(len(c11pohNumbers)))}
	for _, n := range c11pohNumbers {
		fs = append(fs, hx.I(int64(n)))
	}
	return strings.Join(fs, " ")
}

func c11pohSelectorResp(sel po.PluralSelector) []string {
	if sel == nil {
		return []string{"nil"}
	}
	var out []string
	for _, n := range c11pohNumbers {
		out = append(out, hx.I(int64(sel(n))))
	}
	return out
}

func c11pohHeaderResp(h textproto.MIMEHeader) []string {
	type kv struct{ k, v string }
	var ps []kv
	var keys []string
	for k := range h {
		keys = append(keys, k)
	}
	sort.Slice(keys, func(i, j int) bool { return hx.H(keys[i]) < hx.H(keys[j]) })
	for _, k := range keys {
		for _, v := range h[k] {
			ps = append(ps, kv{k, v})
		}
	}
	out := []string{hx.I(int64(len(ps)))}
	for _, p := range ps {
		out = append(out, hx.H(p.k), hx.H(p.v))
	}
	return out
}

// a Plural-Forms value as a tool may space it
func c11pohRespace(e *env, s string) string {
	switch e.rng.Intn(4) {
	case 0:
		return strings.Replace(s, " ", "", -1)
	case 1:
		return strings.Replace(s, " ", "  ", -1)
	case 2:
		return strings.Replace(strings.Replace(s, "=", " = ", -1), ";", " ;", -1)
	}
	return s
}

func c11PoHeaderCorrespondence(e *env) {
	nums := c11pohNumberFields()
	entries := func() []po.Message {
		var ms []po.Message
		for k := e.rng.Intn(3); k > 0; k-- {
			m := po.Message{Comment: po.Comment{References: []string{"id=" + strconv.Itoa(1+e.rng.Intn(99999))}}, Id: "m" + c11poString(e, 3)}
			for j := e.rng.Intn(3); j > 0; j-- {
				m.Str = append(m.Str, e.rng.Pick([]string{"", "t {NAME}", "plain"}))
			}
			if e.rng.Intn(3) == 0 {
				m.References = []string{m.References[0], "var=N"}
				m.IdPlural = "p"
			}
			ms = append(ms, m)
		}
		return ms
	}

	// (a) the selectors by language name: PluralSelectorForLanguage through a header that has only Language, and through
	// the locale name of a catalogue without header
	type hcase struct {
		locale, data, what string
		known             int // index into c11pohForms of the Plural-Forms value the header was written with, or -1
	}
	var cases []hcase
	for _, lang := range c11pohLangs {
		var buf bytes.Buffer
		po.File{Header: textproto.MIMEHeader{"Language": {lang}, "Content-Type": {"text/plain; charset=UTF-8"}}, Messages: entries()}.WriteTo(&buf)
		cases = append(cases, hcase{e.rng.Pick([]string{"xx", lang, "en"}), buf.String(), "language", -1})
		buf.Reset()
		po.File{Messages: append([]po.Message{{Comment: po.Comment{References: []string{"id=3"}}, Id: "first", Str: []string{"x"}}}, entries()...)}.WriteTo(&buf)
		cases = append(cases, hcase{lang, buf.String(), "locale", -1})
	}
	// (b) headers written by File.WriteTo: Plural-Forms known / respaced / unknown / empty, other keys around it
	for i := 0; i < 300*e.scale; i++ {
		h := textproto.MIMEHeader{}
		known := -1
		switch e.rng.Intn(8) {
		case 0:
		case 1:
			h["Plural-Forms"] = []string{e.rng.Pick([]string{"nplurals=2; plural=n != 1;", "nplurals=2", "x", "nplurals=2; plural=(n != 1)", "nplurals=7; plural=0;"})}
		default:
			known = e.rng.Intn(len(c11pohForms))
			h["Plural-Forms"] = []string{c11pohRespace(e, c11pohForms[known][0])}
		}
		if e.rng.Intn(2) == 0 {
			h["Language"] = []string{e.rng.Pick(c11pohLangs)}
		}
		for k := e.rng.Intn(4); k > 0; k-- {
			key := e.rng.Pick([]string{"Content-Type", "Project-Id-Version", "X-Generator", "Mime-Version", "Last-Translator", "A", "Z-9", "X-Soy_1"})
			h[key] = []string{e.rng.Pick([]string{"text/plain; charset=UTF-8", "1.0", "Poedit 3.4", "a: b", "caf\u00e9 <x@y>", "", "tab\tinside", "x  y"})}
		}
		var buf bytes.Buffer
		po.File{Header: h, Messages: entries()}.WriteTo(&buf)
		cases = append(cases, hcase{e.rng.Pick(c11pohLangs), buf.String(), "written", known})
		// the writer itself (header only) against the model
		if len(h) > 0 {
			var keys []string
			for k := range h {
				keys = append(keys, k)
			}
			sort.Strings(keys)
			fs := []string{"c11_po_hwrite", hx.I(int64(len(keys)))}
			var all []string
			for _, k := range keys {
				fs = append(fs, hx.H(k), hx.H(h.Get(k)))
				all = append(all, k, h.Get(k))
			}
			var hb bytes.Buffer
			po.File{Header: h}.WriteTo(&hb)
			res := e.m.Batch([]string{strings.Join(fs, " ") + " " + c11poPrintable(strings.Join(all, "\n"))})
			e.res.Count("pohwrite"+hb.String(), true, "model:po-header-write")
			if got := strings.Join(res[0], " "); got != hx.H(hb.String()) {
				c11Fail(e, hx.Violation{Kind: "mismatch", What: "po.File.WriteTo differs from the model on a header", Case: fmt.Sprintf("%q", h), Expected: got, Observed: hx.H(hb.String())}, "")
			}
		}
	}
	// (c) the header's msgstr as anyone may have left it: ReadMIMEHeader on arbitrary lines
	lines := []string{
		"Plural-Forms: nplurals=2; plural=(n != 1);", "plural-forms: nplurals=1; plural=0;", "PLURAL-FORMS:nplurals=2; plural=(n > 1);", "Plural-Forms : nplurals=1; plural=0;",
		"Plural-Forms:", "Plural-Forms: ", "Plural-Forms: bogus", "Language: ru", "language:fr", "LANGUAGE: pt-BR", "Language: ", "Language: xx",
		" leading blank", "\tcontinued: here", "  ", "NoColon", "Key:value", "K: v  ", "K:\tv\t", "Bad Key: v", "B\u00e4d: v", "K: v\x01", "K: caf\u00e9", "K: \x7f", "",
		": novalue", "a:b:c", "x-soy_1: UP", "X--Y: 1", "a-b-c: 2", "K(: 3", "K: v\r", "\r", "Content-Type: text/plain; charset=UTF-8", "nplurals=2; plural=(n != 1);",
	}
	for i := 0; i < 500*e.scale; i++ {
		var sb strings.Builder
		for k := e.rng.Intn(7); k > 0; k-- {
			sb.WriteString(lines[e.rng.Intn(len(lines))])
			sb.WriteString(e.rng.Pick([]string{"\n", "\n", "\n", "\r\n"}))
		}
		if e.rng.Intn(5) == 0 {
			sb.WriteString(lines[e.rng.Intn(len(lines))])
		}
		var buf bytes.Buffer
		ms := append([]po.Message{{Id: "", Str: []string{sb.String()}}}, entries()...)
		if e.rng.Intn(12) == 0 {
			ms[0].Str = append(ms[0].Str, "second") // two msgstr without msgid_plural: the writer keeps the first
		}
		po.File{Messages: ms}.WriteTo(&buf)
		cases = append(cases, hcase{e.rng.Pick(c11pohLangs), buf.String(), "raw", -1})
	}
	cases = append(cases, hcase{"en", "", "empty", -1}, hcase{"xx", "", "empty", -1}, hcase{"en", "\n\n#\n", "empty", -1},
		hcase{"ru", "msgid \"\"\nmsgstr \"\"\n", "emptyheader", -1}, hcase{"zz", "msgid \"\"\nmsgstr \"\"\n", "emptyheader", -1},
		hcase{"en", "msgid \"\"\nmsgid_plural \"p\"\nmsgstr[0] \"Plural-Forms: nplurals=1; plural=0;\\n\"\n", "pluralheader", -1})

	var reqs []string
	for _, c := range cases {
		reqs = append(reqs, "c11_po_hparse "+hx.H(c.data)+" "+nums, "c11_po_hload "+hx.H(c.locale)+" "+hx.H(c.data)+" "+nums)
	}
	res := e.m.Batch(reqs)
	for i, c := range cases {
		cs := fmt.Sprintf("%s locale=%q %q", c.what, c.locale, c.data)
		e.res.Count("poheader"+cs, c.what != "empty", "model:po-header")
		// po.Parse
		file, err := po.Parse(strings.NewReader(c.data))
		want := []string{"err"}
		if err == nil {
			want = append([]string{"ok"}, c11pohHeaderResp(file.Header)...)
			want = append(want, hx.I(int64(len(file.Messages))))
			want = append(want, c11pohSelectorResp(file.Pluralize)...)
		}
		if got := strings.Join(res[2*i], " "); got != strings.Join(want, " ") {
			c11Fail(e, hx.Violation{Kind: "mismatch", What: "po.Parse (header entry, Plural-Forms, Language) differs from the model", Case: cs, Expected: got, Observed: strings.Join(want, " ")}, "")
			continue
		}
		// pomsg.Load under the locale name
		prov, lerr := pomsg.Load(c11Opener{c.locale: c.data}, []string{c.locale})
		want = []string{"err"}
		var sel po.PluralSelector
		if lerr == nil {
			bun := prov.Bundle(c.locale)
			sel = func(n int) int { return bun.PluralCase(n) }
			want = append([]string{"ok"}, c11pohSelectorResp(sel)...)
		}
		e.res.Histogram["po-header:"+c.what+":"+want[0]]++
		if got := strings.Join(res[2*i+1], " "); got != strings.Join(want, " ") {
			c11Fail(e, hx.Violation{Kind: "mismatch", What: "pomsg.Load (plural rule of the bundle) differs from the model", Case: cs, Expected: got, Observed: strings.Join(want, " ")}, "")
			continue
		}
		// oracle: the header decides
		if c.known >= 0 {
			ref := po.PluralSelectorForLanguage(c11pohForms[c.known][1])
			ok := lerr == nil && ref != nil
			for _, n := range c11pohNumbers {
				ok = ok && sel(n) == ref(n)
			}
			if !ok {
				c11Fail(e, hx.Violation{Kind: "oracle", What: "a catalogue whose header carries a Plural-Forms value the library knows does not load with that rule", Case: cs,
					Observed: fmt.Sprintf("err=%v", lerr)}, "")
			}
		}
	}
	// (d) ReadMIMEHeader itself on texts that are not valid msgstr of a written file (final line without newline, CR alone)
	var texts []string
	for i := 0; i < 400*e.scale; i++ {
		var sb strings.Builder
		for k := e.rng.Intn(6); k > 0; k-- {
			sb.WriteString(lines[e.rng.Intn(len(lines))])
			sb.WriteString(e.rng.Pick([]string{"\n", "\n", "\r\n", "\r", ""}))
		}
		texts = append(texts, sb.String())
	}
	reqs = reqs[:0]
	for _, t := range texts {
		reqs = append(reqs, "c11_po_hmime "+hx.H(t))
	}
	res = e.m.Batch(reqs)
	for i, t := range texts {
		e.res.Count("pohmime"+t, strings.Contains(t, ":"), "model:po-header-mime")
		file, err := po.Parse(strings.NewReader("msgid \"\"\nmsgstr " + strconv.Quote(t) + "\n"))
		want := []string{"err"}
		if err == nil {
			want = append([]string{"ok"}, c11pohHeaderResp(file.Header)...)
		} else if strings.HasPrefix(err.Error(), "unrecognized plural form") {
			continue // the header was read; what it says is case (c)'s
		}
		if got := strings.Join(res[i], " "); got != strings.Join(want, " ") {
			c11Fail(e, hx.Violation{Kind: "mismatch", What: "textproto.ReadMIMEHeader differs from the model", Case: fmt.Sprintf("%q", t), Expected: got, Observed: strings.Join(want, " ")}, "")
		}
	}
}
