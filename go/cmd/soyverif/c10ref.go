//go:build c10

package main

// Independent transcription of the fingerprint official Soy uses for message ids
// (com.google.template.soy.msgs.internal.SoyMsgIdComputer: Bob Jenkins' lookup2
// "hash" over little-endian 12-byte blocks, run with seeds 0 and 102072).  It is
// written from the published algorithm, in a different shape from soymsg/id.go
// (a mix function, slices instead of indices), and serves as the ORACLE for "ids
// follow the official Soy algorithm"; the Coq model of soymsg/id.go is compared
// with the code separately.

func c10Mix(a, b, c uint32) (uint32, uint32, uint32) {
	a -= b; a -= c; a ^= c >> 13
	b -= c; b -= a; b ^= a << 8
	c -= a; c -= b; c ^= b >> 13
	a -= b; a -= c; a ^= c >> 12
	b -= c; b -= a; b ^= a << 16
	c -= a; c -= b; c ^= b >> 5
	a -= b; a -= c; a ^= c >> 3
	b -= c; b -= a; b ^= a << 10
	c -= a; c -= b; c ^= b >> 15
	return a, b, c
}

func c10Le32(p []byte) uint32 {
	var v uint32
	for i := len(p) - 1; i >= 0; i-- {
		v = v<<8 | uint32(p[i])
	}
	return v
}

func c10RefHash32(key []byte, seed uint32) uint32 {
	a, b, c := uint32(0x9e3779b9), uint32(0x9e3779b9), seed
	n := uint32(len(key))
	k := key
	for len(k) >= 12 {
		a += c10Le32(k[0:4])
		b += c10Le32(k[4:8])
		c += c10Le32(k[8:12])
		a, b, c = c10Mix(a, b, c)
		k = k[12:]
	}
	c += n
	// the remaining 0..11 bytes: a takes bytes 0-3, b bytes 4-7, c bytes 8-10 shifted past its length byte
	tail := make([]byte, 12)
	copy(tail, k)
	a += c10Le32(tail[0:4])
	b += c10Le32(tail[4:8])
	c += c10Le32(tail[8:11]) << 8
	_, _, c = c10Mix(a, b, c)
	return c
}

func c10RefFingerprint(s []byte) uint64 {
	hi := c10RefHash32(s, 0)
	lo := c10RefHash32(s, 102072)
	if hi == 0 && (lo == 0 || lo == 1) {
		hi ^= 0x130f9bef
		lo ^= 0x94a0a928
	}
	return uint64(hi)<<32 | uint64(lo)
}
