//go:build c11

package main

// C11, the PO file's quoted fields: strconv.Quote / Unquote, po.Message.WriteTo and po.Parse
// (robfig/gettext/po: writer.quo / msgstr / plural, scanner.quo / msgstr) against Model/PoFile.v,
// on generated strings.  Oracle on the implementation alone: what the writer writes for msgctxt /
// msgid / msgid_plural / msgstr[i] is read back unchanged by Parse.

import (
	"bytes"
	"fmt"
	"sort"
	"strconv"
	"strings"
	"unicode/utf8"

	"github.com/robfig/gettext/po"
	"github.com/robfig/soy/soymsg"
	"github.com/robfig/soy/soymsg/pomsg"
	"soyverif/internal/hx"
)

var c11poAlpha = []string{
	"a", "Z", "0", " ", "  ", "{NAME}", "{N_1}", "%", "msgid", "#",
	"\"", "\"", "\\", "\\", "'", "`",
	"\n", "\n", "\r", "\r\n", "\t", "\a", "\b", "\f", "\v", "\x00", "\x1f", "\x7f",
	"\u00e9", "\u00df", "\u65e5\u672c", "\u00a0", "\u00ad", "\u0085", "\u2028", "\ufeff", "\ufffd", "\U0001F600", "\U0010FFFF", "\ue000", "\u0378",
	"\xff", "\xc0", "\x80", "\xe2\x82", "\xed\xa0\x80", "\xf4\x90\x80\x80", "\xc3",
}

func c11poString(e *env, max int) string {
	var sb strings.Builder
	for k := e.rng.Intn(max + 1); k > 0; k-- {
		sb.WriteString(c11poAlpha[e.rng.Intn(len(c11poAlpha))])
	}
	return sb.String()
}

// the printable runes >= 0x80 among the given strings: "#k #r1 ... #rk"
func c11poPrintable(strs ...string) string {
	seen := map[rune]bool{}
	for _, s := range strs {
		for _, r := range s {
			if r >= utf8.RuneSelf && strconv.IsPrint(r) {
				seen[r] = true
			}
		}
	}
	var rs []int
	for r := range seen {
		rs = append(rs, int(r))
	}
	sort.Ints(rs)
	out := []string{hx.I(int64(len(rs)))}
	for _, r := range rs {
		out = append(out, hx.I(int64(r)))
	}
	return strings.Join(out, " ")
}

var c11poLit = []string{"\\", "\\", "\"", "\\\"", "\\\\", "n", "t", "r", "a", "x", "u", "U", "0", "1", "7", "8", "9", "a", "f", "F", "g", "4", "1", "00e9", "d800", "0010ffff", "00110000", "377", "400", "'", "\\'", " ", "é", "\xff", "\n"}

func c11poLiteral(e *env) string {
	var sb strings.Builder
	for k := e.rng.Intn(10); k > 0; k-- {
		sb.WriteString(c11poLit[e.rng.Intn(len(c11poLit))])
	}
	return sb.String()
}

func c11poFieldsResp(ctxt, id, idp string, strs []string, errFlag bool) string {
	out := []string{"ok", hx.H(ctxt), hx.H(id), hx.H(idp), hx.I(int64(len(strs)))}
	for _, s := range strs {
		out = append(out, hx.H(s))
	}
	if errFlag {
		out = append(out, "#1")
	} else {
		out = append(out, "#0")
	}
	return strings.Join(out, " ")
}

func c11PoCorrespondence(e *env) {
	// ---- 1. strconv.Quote and the round trip through Unquote ----
	nq := 3000 * e.scale
	strs := []string{"", "\"", "\\", "\n", "a\nb", "a\n", "\n\n", "{NAME}", "\xff", " ", "\r", "é\"\\\n\x00"}
	for i := 0; i < nq; i++ {
		strs = append(strs, c11poString(e, 10))
	}
	reqs := make([]string, len(strs))
	for i, s := range strs {
		reqs[i] = "c11_po_quote " + hx.H(s) + " " + c11poPrintable(s)
	}
	res := e.m.Batch(reqs)
	for i, s := range strs {
		q := strconv.Quote(s)
		back, err := strconv.Unquote(q)
		e.res.Count("poquote"+s, strings.ContainsAny(s, "\"\\\n") || !utf8.ValidString(s), "model:po-quote")
		if err != nil || back != s {
			c11Fail(e, hx.Violation{Kind: "oracle", What: "strconv.Unquote(strconv.Quote(s)) != s", Case: hx.Q(s), Expected: hx.Q(s), Observed: hx.Q(back) + " " + errStr(err)}, "")
		}
		want := strings.Join([]string{hx.H(q), "ok", hx.H(s)}, " ")
		if got := strings.Join(res[i], " "); got != want {
			c11Fail(e, hx.Violation{Kind: "mismatch", What: "strconv.Quote / Unquote differ from the model", Case: hx.Q(s), Expected: got, Observed: want}, "")
		}
	}

	// ---- 2. strconv.Unquote on arbitrary double-quoted literals ----
	var lits []string
	for i := 0; i < nq; i++ {
		l := c11poLiteral(e)
		switch e.rng.Intn(8) {
		case 0:
			// no quotes, or only one
			if e.rng.Intn(2) == 0 {
				l = "\"" + l
			}
		default:
			l = "\"" + l + "\""
		}
		if l != "" && (l[0] == '`' || l[0] == '\'') {
			continue // other quote characters are outside the model
		}
		lits = append(lits, l)
	}
	reqs = make([]string, len(lits))
	for i, l := range lits {
		reqs[i] = "c11_po_unquote " + hx.H(l)
	}
	res = e.m.Batch(reqs)
	for i, l := range lits {
		v, err := strconv.Unquote(l)
		want := "err -"
		if err == nil {
			want = "ok " + hx.H(v)
		}
		e.res.Count("pounquote"+l, err == nil, "model:po-unquote")
		if got := strings.Join(res[i], " "); got != want {
			c11Fail(e, hx.Violation{Kind: "mismatch", What: "strconv.Unquote differs from the model", Case: hx.Q(l), Expected: got, Observed: want}, "")
		}
	}

	// ---- 3. the quoted fields of a message: Message.WriteTo, then Parse ----
	type fields struct {
		ctxt, id, idp string
		strs          []string
	}
	var fs []fields
	for i := 0; i < 1500*e.scale; i++ {
		var f fields
		if e.rng.Intn(3) == 0 {
			f.ctxt = c11poString(e, 4)
		}
		f.id = "m" + c11poString(e, 8) // an empty msgid is the header entry
		if e.rng.Intn(2) == 0 {
			f.idp = c11poString(e, 8)
		}
		for k := e.rng.Intn(4); k > 0; k-- {
			f.strs = append(f.strs, c11poString(e, 8))
		}
		fs = append(fs, f)
	}
	reqs = make([]string, len(fs))
	for i, f := range fs {
		parts := []string{"c11_po_fields", hx.H(f.ctxt), hx.H(f.id), hx.H(f.idp), hx.I(int64(len(f.strs)))}
		for _, s := range f.strs {
			parts = append(parts, hx.H(s))
		}
		all := append([]string{f.ctxt, f.id, f.idp}, f.strs...)
		reqs[i] = strings.Join(parts, " ") + " " + c11poPrintable(all...)
	}
	res = e.m.Batch(reqs)
	for i, f := range fs {
		var buf bytes.Buffer
		po.Message{Ctxt: f.ctxt, Id: f.id, IdPlural: f.idp, Str: f.strs}.WriteTo(&buf)
		buf.WriteString("\n")
		written := buf.String()
		file, err := po.Parse(strings.NewReader(written))
		cs := fmt.Sprintf("%q %q %q %q", f.ctxt, f.id, f.idp, f.strs)
		e.res.Count("pofields"+cs, strings.ContainsAny(cs, "\\"), "model:po-fields")
		// oracle: read back what was written
		wantStrs := f.strs
		if f.idp == "" {
			if len(f.strs) == 0 {
				wantStrs = []string{""}
			} else {
				wantStrs = f.strs[:1]
			}
		} else if len(f.strs) == 0 {
			wantStrs = []string{""}
		}
		if err != nil || len(file.Messages) != 1 || file.Messages[0].Ctxt != f.ctxt || file.Messages[0].Id != f.id ||
			file.Messages[0].IdPlural != f.idp || fmt.Sprintf("%q", file.Messages[0].Str) != fmt.Sprintf("%q", wantStrs) {
			c11Fail(e, hx.Violation{Kind: "oracle", What: "the PO fields written by po.Message.WriteTo are not read back by po.Parse", Case: cs, Expected: cs, Observed: fmt.Sprintf("%q err=%v", file.Messages, err)}, "")
			continue
		}
		want := hx.H(written) + " " + c11poFieldsResp(f.ctxt, f.id, f.idp, wantStrs, false)
		if got := strings.Join(res[i], " "); got != want {
			c11Fail(e, hx.Violation{Kind: "mismatch", What: "po.Message.WriteTo / po.Parse differ from the model", Case: cs, Expected: got, Observed: want}, "")
		}
	}

	// ---- 4. Parse on field lines as a translator's tool may write them ----
	seps := []string{" ", " ", "  ", "\t", ""}
	ends := []string{"", "", "", " ", "\r", "\t"}
	// no raw newline inside a literal here: the lines after it would be read as further messages
	lit := func() string { return "\"" + strings.Replace(c11poLiteral(e), "\n", "n", -1) + "\"" }
	var inputs []string
	for i := 0; i < 1500*e.scale; i++ {
		var sb strings.Builder
		if e.rng.Intn(4) == 0 {
			sb.WriteString("msgctxt" + seps[e.rng.Intn(len(seps))] + lit() + ends[e.rng.Intn(len(ends))] + "\n")
		}
		sb.WriteString("msgid" + seps[e.rng.Intn(len(seps))] + "\"m\"" + "\n")
		for k := e.rng.Intn(3); k > 0; k-- {
			sb.WriteString(lit() + ends[e.rng.Intn(len(ends))] + "\n")
		}
		plural := e.rng.Intn(2) == 0
		if plural {
			sb.WriteString("msgid_plural" + seps[e.rng.Intn(len(seps))] + lit() + "\n")
			n := e.rng.Intn(4)
			for k := 0; k < n; k++ {
				idx := k
				if e.rng.Intn(10) == 0 {
					idx = k + 1 // a gap in the indices
				}
				sb.WriteString("msgstr[" + strconv.Itoa(idx) + "] " + lit() + ends[e.rng.Intn(len(ends))] + "\n")
				if e.rng.Intn(4) == 0 {
					sb.WriteString(lit() + "\n")
				}
			}
		} else {
			sb.WriteString("msgstr " + lit() + ends[e.rng.Intn(len(ends))] + "\n")
			if e.rng.Intn(4) == 0 {
				sb.WriteString(lit() + "\n")
			}
		}
		if e.rng.Intn(5) != 0 {
			sb.WriteString("\n")
		}
		inputs = append(inputs, sb.String())
	}
	reqs = make([]string, len(inputs))
	for i, in := range inputs {
		reqs[i] = "c11_po_read " + hx.H(in)
	}
	res = e.m.Batch(reqs)
	for i, in := range inputs {
		file, err := po.Parse(strings.NewReader(in))
		e.res.Count("poread"+in, err == nil, "model:po-read")
		got := strings.Join(res[i], " ")
		if err != nil {
			// the scanner records the error and goes on: the model reports it as its error flag
			if !strings.HasSuffix(got, " #1") && !strings.HasPrefix(got, "err") {
				c11Fail(e, hx.Violation{Kind: "mismatch", What: "po.Parse reports an error, the model does not", Case: hx.Q(in), Expected: got, Observed: err.Error()}, "")
			}
			continue
		}
		if len(file.Messages) == 0 {
			c11Fail(e, hx.Violation{Kind: "mismatch", What: "po.Parse returns no message", Case: hx.Q(in), Expected: got, Observed: "no message"}, "")
			continue
		}
		m := file.Messages[0]
		want := c11poFieldsResp(m.Ctxt, m.Id, m.IdPlural, m.Str, false)
		if got != want {
			c11Fail(e, hx.Violation{Kind: "mismatch", What: "po.Parse differs from the model on the quoted fields", Case: hx.Q(in), Expected: got, Observed: want}, "")
		}
	}

	c11PoEntryCorrespondence(e)
}

// ---- 5. whole entries and whole files (Model/PoEntry.v): the comment lines, the blank lines between
// entries, the loop of po.Parse ----
var c11poDescAlpha = []string{
	"a", "Z", " ", "  ", "first line", "second", "#", "#:", "#. ", "#: id=7", "msgid \"x\"", "msgstr", "\"", "\\", "{NAME}",
	"\n", "\n", "\n\n", "\r", "\r\n", "\t", "\u00e9", "\u65e5\u672c", "\xff", "id=1", "var=x", ":",
}

func c11poHexList(l []string) string {
	out := []string{hx.I(int64(len(l)))}
	for _, s := range l {
		out = append(out, hx.H(s))
	}
	return strings.Join(out, " ")
}

func c11poMsgResp(m po.Message) string {
	return strings.Join([]string{c11poHexList(m.TranslatorComments), c11poHexList(m.ExtractedComments), c11poHexList(m.References), c11poHexList(m.Flags),
		hx.H(m.PrevCtxt), hx.H(m.PrevId), hx.H(m.PrevIdPlural), hx.H(m.Ctxt), hx.H(m.Id), hx.H(m.IdPlural), c11poHexList(m.Str)}, " ")
}

func c11poFileResp(ms []po.Message) string {
	out := []string{"ok", hx.I(int64(len(ms)))}
	for _, m := range ms {
		out = append(out, c11poMsgResp(m))
	}
	return strings.Join(out, " ")
}

func c11poIsPlural(p soymsg.Part) bool { _, ok := p.(soymsg.PluralPart); return ok }

func c11poParts(ps []soymsg.Part) string {
	out := []string{hx.I(int64(len(ps)))}
	for _, p := range ps {
		switch p := p.(type) {
		case soymsg.RawTextPart:
			out = append(out, "T", hx.H(p.Text))
		case soymsg.PlaceholderPart:
			out = append(out, "P", hx.H(p.Name))
		default:
			out = append(out, "?")
		}
	}
	return strings.Join(out, " ")
}

func c11PoEntryCorrespondence(e *env) {
	type entry struct {
		desc, v, ctxt, id, idp string
		num                    uint64
		strs                   []string
	}
	// (a) files of entries as the extractor builds them: any description, id, plural variable, fields
	var files [][]entry
	for i := 0; i < 700*e.scale; i++ {
		var f []entry
		for k := 1 + e.rng.Intn(3); k > 0; k-- {
			var en entry
			var sb strings.Builder
			for j := e.rng.Intn(6); j > 0; j-- {
				sb.WriteString(c11poDescAlpha[e.rng.Intn(len(c11poDescAlpha))])
			}
			en.desc = sb.String()
			en.num = uint64(e.rng.Intn(1000000)) + 1
			if e.rng.Intn(4) == 0 {
				en.num = uint64(1)<<63 - uint64(e.rng.Intn(1000)) - 1
			}
			if e.rng.Intn(3) == 0 {
				en.ctxt = c11poString(e, 3)
			}
			en.id = "m" + c11poString(e, 5)
			if e.rng.Intn(2) == 0 {
				en.v = e.rng.Pick([]string{"N", "N_1", "COUNT", "X_2"})
				en.idp = "p" + c11poString(e, 5)
			}
			// the msgstr a translator filled in (none, empty, several forms)
			for k := e.rng.Intn(4); k > 0; k-- {
				en.strs = append(en.strs, e.rng.Pick([]string{"", "{NAME} x", "x{N_1}{", "{{A}}", "plain"})+c11poString(e, 3))
			}
			if len(f) > 0 && e.rng.Intn(8) == 0 {
				en.num = f[len(f)-1].num // two entries with one id: the later one wins
			}
			if e.rng.Intn(40) == 0 {
				en.num = 0 // pomsg refuses the catalogue
			}
			f = append(f, en)
		}
		files = append(files, f)
	}
	reqs := make([]string, len(files))
	for i, f := range files {
		parts := []string{"c11_po_entries", hx.I(int64(len(f)))}
		var all []string
		for _, en := range f {
			pl := "#0"
			if en.v != "" {
				pl = "#1"
			}
			parts = append(parts, hx.H(en.desc), c11U(en.num), hx.H(en.v), pl, hx.H(en.ctxt), hx.H(en.id), hx.H(en.idp), hx.I(int64(len(en.strs))))
			for _, str := range en.strs {
				parts = append(parts, hx.H(str))
			}
			all = append(all, en.ctxt, en.id, en.idp)
			all = append(all, en.strs...)
		}
		reqs[i] = strings.Join(parts, " ") + " " + c11poPrintable(all...)
	}
	res := e.m.Batch(reqs)
	var loadReqs, loadWant, loadCase []string
	for i, f := range files {
		var pf po.File
		for _, en := range f {
			ref := "id=" + strconv.FormatUint(en.num, 10)
			if en.v != "" {
				ref += " var=" + en.v
			}
			pf.Messages = append(pf.Messages, po.Message{
				Comment: po.Comment{ExtractedComments: strings.Split(en.desc, "\n"), References: []string{ref}},
				Ctxt:    en.ctxt, Id: en.id, IdPlural: en.idp, Str: en.strs,
			})
		}
		var buf bytes.Buffer
		pf.WriteTo(&buf)
		cs := fmt.Sprintf("%q", f)
		e.res.Count("poentries"+cs, strings.Contains(cs, "\\n"), "model:po-entries")
		back, err := po.Parse(bytes.NewReader(buf.Bytes()))
		// oracle (the desc-newline repair as a property of the real code): every entry comes back with its id, its
		// plural variable and its msgid, whatever the description is
		ok := err == nil && len(back.Messages) == len(f)
		for k := 0; ok && k < len(f); k++ {
			m := back.Messages[k]
			want := []string{"id=" + strconv.FormatUint(f[k].num, 10)}
			if f[k].v != "" {
				want = append(want, "var="+f[k].v)
			}
			ok = fmt.Sprint(m.References) == fmt.Sprint(want) && m.Id == f[k].id && m.IdPlural == f[k].idp && m.Ctxt == f[k].ctxt
		}
		if !ok {
			c11Fail(e, hx.Violation{Kind: "oracle", What: "entries written as xgettext-soy writes them (one #. line per line of the description) are not read back with their id reference, plural variable and msgid", Case: cs,
				Observed: fmt.Sprintf("err=%v %q", err, back.Messages)}, "")
			continue
		}
		want := hx.H(buf.String()) + " " + c11poFileResp(back.Messages)
		if got := strings.Join(res[i], " "); got != want {
			c11Fail(e, hx.Violation{Kind: "mismatch", What: "po.File.WriteTo / po.Parse differ from the model on whole entries", Case: cs, Expected: got, Observed: want}, "")
			continue
		}
		// the bytes through pomsg.Load (po.Parse + newBundle) against Model/PoBundle.v
		ids := []string{hx.I(int64(len(f)))}
		for _, en := range f {
			ids = append(ids, c11U(en.num))
		}
		loadReqs = append(loadReqs, "c11_po_load "+hx.H(buf.String())+" "+strings.Join(ids, " "))
		prov, lerr := pomsg.Load(c11Opener{"en": buf.String()}, []string{"en"})
		resp := "err"
		if lerr == nil {
			out := []string{"ok"}
			bun := prov.Bundle("en")
			for _, en := range f {
				m := bun.Message(en.num)
				switch {
				case m == nil:
					out = append(out, "none")
				case len(m.Parts) == 1 && c11poIsPlural(m.Parts[0]):
					pp := m.Parts[0].(soymsg.PluralPart)
					out = append(out, "L", hx.H(pp.VarName), hx.I(int64(len(pp.Cases))))
					for _, c := range pp.Cases {
						out = append(out, c11poParts(c.Parts))
					}
				default:
					out = append(out, "S", c11poParts(m.Parts))
				}
			}
			resp = strings.Join(out, " ")
		}
		loadWant = append(loadWant, resp)
		loadCase = append(loadCase, cs)
	}
	lres := e.m.Batch(loadReqs)
	for i := range loadReqs {
		e.res.Count("poload"+loadCase[i], true, "model:po-load")
		if got := strings.Join(lres[i], " "); got != loadWant[i] {
			c11Fail(e, hx.Violation{Kind: "mismatch", What: "pomsg.Load (po.Parse + newBundle) differs from the model on the bytes of a catalogue", Case: loadCase[i], Expected: got, Observed: loadWant[i]}, "")
		}
	}
	// (b) po.Parse on files as translators' tools leave them: every kind of comment line, lone "#", blank lines,
	// several entries, a missing blank line, a description line that is not a comment (the pinned extractor's output)
	lines := []string{
		"", "", "#", "# translator", "#  two spaces", "#. extracted", "#. ", "#.no blank", "#: a.soy:3 id=5", "#: id=7 var=N", "#:id=9", "#, fuzzy", "#, fuzzy, c-format",
		"#| msgctxt \"old\"", "#| msgid \"old id\"", "#| msgid_plural \"olds\"", "#~ msgid \"gone\"", "second line of a description",
		"msgctxt \"c\"", "msgid \"a\"", "msgid \"b {X}\"", "msgid \"\"", "\"cont\\n\"", "msgid_plural \"bs\"", "msgstr \"t\"", "msgstr \"\"",
		"msgstr[0] \"t0\"", "msgstr[1] \"t1\"", "msgstr[2] \"\"", "  ", "\t", "#\r", "msgid \"a\"\r", " # indented",
	}
	var inputs []string
	for i := 0; i < 1500*e.scale; i++ {
		var sb strings.Builder
		for k := e.rng.Intn(14); k > 0; k-- {
			sb.WriteString(lines[e.rng.Intn(len(lines))] + "\n")
		}
		if e.rng.Intn(6) == 0 {
			sb.WriteString(lines[e.rng.Intn(len(lines))]) // a last line without a newline
		}
		inputs = append(inputs, sb.String())
	}
	reqs = make([]string, len(inputs))
	for i, in := range inputs {
		reqs[i] = "c11_po_parse " + hx.H(in)
	}
	res = e.m.Batch(reqs)
	for i, in := range inputs {
		got := strings.Join(res[i], " ")
		e.res.Count("poparse"+in, strings.Contains(in, "msgid"), "model:po-parse")
		// the messages before the header is taken out: Parse on the input with a first message that cannot be a header
		file, err := po.Parse(strings.NewReader("msgid \"first\"\nmsgstr \"\"\n\n" + in))
		if err != nil {
			if !strings.HasPrefix(got, "err") {
				c11Fail(e, hx.Violation{Kind: "mismatch", What: "po.Parse reports an error, the model does not", Case: hx.Q(in), Expected: got, Observed: err.Error()}, "")
			}
			continue
		}
		if want := c11poFileResp(file.Messages[1:]); got != want {
			c11Fail(e, hx.Violation{Kind: "mismatch", What: "po.Parse differs from the model (comment lines, blank lines, several entries)", Case: hx.Q(in), Expected: got, Observed: want}, "")
		}
	}
}
