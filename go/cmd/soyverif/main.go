// soyverif is the correspondence harness: for one property it generates cases
// from one PRNG state, runs robfig/soy (built from /repo's working tree with
// -tags verif) and the extracted Coq model on them, evaluates the property's
// oracle on the implementation's behaviour, and writes a result file.
package main

import (
	"flag"
	"fmt"
	"os"

	"soyverif/internal/hx"
)

type env struct {
	prop   string
	tier   string
	seed   int64
	m      *hx.Model
	res    *hx.Result
	rng    *hx.Rand
	tables string // path of tables.json
	replay string
	self   string // path of this binary (worker subprocesses)
	scale  int    // case budget multiplier (1 quick, 10 thorough, more in search mode)
}

var props = map[string]func(*env){}

func main() {
	if len(os.Args) > 1 && os.Args[1] == "worker" {
		workerMain(os.Args[2:])
		return
	}
	prop := flag.String("prop", "", "property id")
	tier := flag.String("tier", "quick", "quick|thorough")
	seed := flag.Int64("seed", 1, "PRNG seed")
	model := flag.String("model", "", "path of the extracted model runner")
	out := flag.String("out", "", "result JSON")
	known := flag.String("known", "", "known_findings.json")
	tables := flag.String("tables", "", "tables.json from tablegen")
	replay := flag.String("replay", "", "replay file: re-run exactly that case")
	scale := flag.Int("scale", 0, "case budget multiplier override")
	flag.Parse()

	f, ok := props[*prop]
	if !ok {
		fmt.Fprintln(os.Stderr, "unknown property", *prop)
		os.Exit(2)
	}
	e := &env{prop: *prop, tier: *tier, seed: *seed, tables: *tables, replay: *replay, scale: 1}
	e.self, _ = os.Executable()
	if *tier == "thorough" {
		e.scale = 10
	}
	if *scale > 0 {
		e.scale = *scale
	}
	e.rng = hx.NewRand(*seed)
	e.res = hx.NewResult(*prop, *tier, *seed, *known)
	if *model != "" {
		m, err := hx.StartModel(*model)
		if err != nil {
			fmt.Fprintln(os.Stderr, "cannot start model:", err)
			os.Exit(2)
		}
		e.m = m
		defer m.Close()
		if r := m.Call("ping"); len(r) != 1 || r[0] != "#1" {
			fmt.Fprintln(os.Stderr, "model does not answer ping:", r)
			os.Exit(2)
		}
	}
	f(e)
	if err := e.res.Write(*out, e.m); err != nil {
		fmt.Fprintln(os.Stderr, err)
		os.Exit(2)
	}
}
