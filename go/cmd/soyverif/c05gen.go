//go:build c05

package main

// C05 generators.  Every random choice comes from e.rng.

import (
	"go/ast"
	"go/parser"
	"go/token"
	"os"
	"path/filepath"
	"sort"
	"strconv"
	"strings"

	"soyverif/internal/hx"
)

type c05Input struct {
	Fam  string // generator family
	In   string
	Expr bool // expression mode (parse.Expr / lexExpr) instead of file mode
}

func c05Repo() string {
	if r := os.Getenv("VERIF_REPO"); r != "" {
		return r
	}
	return "/repo"
}

// ---------- corpus ----------

// c05Corpus: testdata files, their template-sized chunks, and every string literal
// of the repository's *_test.go files (templates, fragments, expressions, data).
func c05Corpus() (files []string, chunks []string, lits []string) {
	repo := c05Repo()
	fs, _ := filepath.Glob(filepath.Join(repo, "testdata", "*"))
	sort.Strings(fs)
	for _, f := range fs {
		if bs, err := os.ReadFile(f); err == nil {
			files = append(files, string(bs))
		}
	}
	for _, f := range files {
		// chunks: split before every soydoc start and before {template / {deltemplate
		cur := 0
		cut := func(i int) {
			if i > cur {
				chunks = append(chunks, f[cur:i])
				cur = i
			}
		}
		for i := 0; i < len(f); i++ {
			if strings.HasPrefix(f[i:], "/**") && (i == 0 || f[i-1] == '\n') {
				cut(i)
			}
		}
		cut(len(f))
	}
	seen := map[string]bool{}
	var tests []string
	filepath.Walk(repo, func(p string, info os.FileInfo, err error) error {
		if err == nil && !info.IsDir() && strings.HasSuffix(p, "_test.go") {
			tests = append(tests, p)
		}
		return nil
	})
	sort.Strings(tests)
	fset := token.NewFileSet()
	for _, p := range tests {
		af, err := parser.ParseFile(fset, p, nil, 0)
		if err != nil {
			continue
		}
		ast.Inspect(af, func(n ast.Node) bool {
			bl, ok := n.(*ast.BasicLit)
			if !ok || bl.Kind != token.STRING {
				return true
			}
			s, err := strconv.Unquote(bl.Value)
			if err != nil || s == "" || len(s) > 6000 || seen[s] {
				return true
			}
			seen[s] = true
			lits = append(lits, s)
			return true
		})
	}
	return
}

// ---------- the tag dictionary ----------

// every command of the language in its usual forms, the special-character commands,
// comments, soydoc, header params, text, and a set of deliberately unclosed pieces.
var c05Tags = []string{
	// file level
	"{namespace a.b}", "{namespace a autoescape=\"contextual\"}", "{alias a.b.c}", "{delpackage p}",
	"/** d */", "/** @param x */", "/**\n * @param? y t\n * @param z\n */", "/**/", "/* c */", " // c\n", "//c\n",
	"{template .t}", "{template .t private=\"true\"}", "{/template}", "{deltemplate a.b variant=\"'v'\"}", "{/deltemplate}",
	"{@param x: int}", "{@param? y: list<string>}", "{@param z: [a: int, b: string] = 1}", "{@inject q: ?}",
	// print
	"{$x}", "{print $x}", "{$x.y[0]?.z|escapeHtml}", "{$x|truncate:8,true|id}", "{1 + 2 * -3}", "{not $a and $b or $c ?: 'd'}",
	"{$a ? 'b' : \"c\"}", "{['a': 1, 'b': [2, 3]]}", "{f($x, 0x1F, 1.5e3)}", "{(1)}", "{'s'}", "{{$x}}", "{{ 'a}b' }}",
	// blocks
	"{if $a}", "{elseif $b > 1}", "{else}", "{/if}", "{switch $x}", "{case 1, 'a'}", "{default}", "{/switch}",
	"{foreach $i in $l}", "{ifempty}", "{/foreach}", "{for $i in range(1, 10, 2)}", "{/for}",
	"{let $v: 1 + 2 /}", "{let $w}", "{/let}", "{let $k kind=\"html\"}",
	"{call .t /}", "{call a.b.c data=\"all\"}", "{call .u data=\"$d\" /}", "{param p: $x /}", "{param q}", "{param r kind=\"text\"}", "{/param}", "{/call}",
	"{delcall a.b variant=\"$v\" allowemptydefault=\"true\"}", "{/delcall}",
	"{msg desc=\"d\"}", "{msg meaning=\"m\" desc=\"d\" hidden=\"true\"}", "{/msg}", "{plural $n offset=\"1\"}", "{case 0}", "{/plural}",
	"{literal}", "{/literal}", "{literal}{x}}{/literal}", "{{literal}}a{b{{/literal}}",
	"{css foo}", "{css $a, b-c}", "{{css d}}", "{log}", "{/log}", "{debugger}",
	// special characters and text
	"{sp}", "{nil}", "{\\n}", "{\\r}", "{\\t}", "{lb}", "{rb}", "text", " a <b>\n  c ", "\n", "}", "é中",
	// unclosed or malformed pieces
	"{", "{{", "{/", "{\\", "{/nosuch}", "{\\x}", "{css foo", "{css", "{{css a}", "{@param x: ", "{@param x", "{@param", "{@param? x:int",
	"{@x}", "{literal}", "{literal} x", "{literal", "{{literal}", "/** @param ", "/** @param? ", "/** @param", "/** @param x", "/** x", "/* x", "/*",
	"{print 'abc", "{\"a\\", "{$", "{$x.", "{$x?.", "{$x?", "{1.}", "{0x}", "{01}", "{1e}", "{-", "{$x |", "{$x !}", "{$x = = }", "{#}",
	"{switch $x}", "{plural $x}", "{call", "{call .t", "{if", "{foreach $x in", "{let $x:", "{msg", "{$x /}", "{{$x}", "{{$x /}",
	// attribute forms with empty, missing, duplicated and unknown attributes
	"{call name=\"\" /}", "{call name=\"\"}", "{call name=\"\" data=\"\" /}", "{call name=\".t\" data=\"\" /}", "{call .t data=\"\" /}", "{call name=\".t\" name=\".u\" /}",
	"{call name=\".t\" foo=\"x\" /}", "{call name= /}", "{call name /}", "{call name=\".t\"", "{delcall a.b variant=\"\" /}", "{delcall name=\"\" /}",
	"{param key=\"\" value=\"\" /}", "{param key=\"k\" value=\"\" /}", "{param key=\"\" /}", "{param key=\"k\" key=\"j\" value=\"1\" /}", "{param value=\"1\" /}", "{param k kind=\"\"}",
	"{msg desc=\"\"}", "{msg}", "{msg meaning=\"\"}", "{msg desc=\"d\" desc=\"e\"}", "{msg foo=\"\"}", "{msg desc=}", "{msg desc}",
	"{template}", "{template name=\"\"}", "{template .t private=\"\"}", "{template .t autoescape=\"\"}", "{template .t foo=\"x\"}", "{deltemplate a.b variant=\"\"}", "{deltemplate}",
	"{namespace}", "{namespace autoescape=\"\"}", "{namespace a autoescape=\"\"}", "{namespace a requirecss=\"\"}", "{alias}", "{alias .}", "{delpackage}",
	"{foreach}", "{foreach $x}", "{foreach $x in}", "{foreach in $y}", "{for}", "{for $i in}", "{for $i in range()}", "{if}", "{elseif}", "{switch}", "{case}", "{plural}", "{plural $n offset=\"\"}",
	"{css}", "{css }", "{css ,}", "{let}", "{let $x /}", "{let $x}", "{let $x: /}", "{let $x kind=\"\"}", "{let $x kind=\"\" /}", "{print}", "{print |id}", "{log x}", "{literal x}",
}

// c05Wrap places a tag sequence at one of the three levels.
func c05Wrap(level int, body string) string {
	switch level {
	case 1:
		return "{namespace n}\n/** */\n{template .t}\n" + body + "\n{/template}\n"
	case 2:
		return "{namespace n}\n/** */\n{template .t}\n{if $a}{foreach $x in $y}{msg desc=\"\"}" + body + "{/msg}{/foreach}{/if}\n{/template}\n"
	}
	return body
}

// ---------- expressions ----------

var c05Exprs = []string{
	"1", "-1", "1 + 2", "1 - -2", "$a", "$a.b.c", "$a?.b", "$a[0]", "$a?[1]", "$a.0", "$a?.1", "$ij.foo",
	"not $a", "$a and $b or not $c", "$a ? $b : $c", "$a ?: $b", "$a ? $b ? 1 : 2 : 3", "1 < 2 and 3 >= 4 or 5 != 6 and 7 == 8 or 9 <= 10 or 1 > 0",
	"1 * 2 / 3 % 4", "-(1 + 2) * 3", "- -1", "'abc'", "\"abc\"", "'a\\'b\\\\c\\n\\u00e9'", "''", "null", "true", "false",
	"0x1F", "1.5", "1e3", "1.5e-3", "0", "0.0", "[]", "[1, 2, 3]", "[:]", "['a': 1, 'b': 2]", "[$a: $b]", "[[1], [2, [3]]]",
	"f()", "f(1)", "f(1, 'a', $b)", "length($l) + index($i)", "isFirst($x) and not isLast($x)", "$a.b[$c.d?.e[0]].f",
	"(1)", "((($a)))", "$é", "$a.ж", "x", "and", "1 and", "a.b.c", "$x|y", "1..2", "1.", ".5", "01", "0x", "0xg", "1e", "1e+", "1a",
	"'", "\"", "'\\", "$", "$a.", "$a?", "$a?.", "?", "?:", "? :", "!", "!=", "=", "==", "<", "<-1", ">-1", ">=", "(", ")", "[", "]", "[,]", "[1,]", "['a':]",
	"@", "@param", "@param x: int", "#", "~", "`", "\\", "/", "/}", "}", "}}", "{", "-", "--", "-$a", "- 1", "1-1", "1 -1", "a-1", ")-1", "]-1",
	"$a ? : $b", "$a ?[ 1 ]", "$a ? [1] : 2", "not", "not not $a", "f(", "f(1", "f(1,", "f(,)", "$a[", "$a[1", "1 2 3", "'a' 'b'", "$a $b",
	" ", " x", "á", "١٢٣", "x١", "𝟘", "$𝐱", "\xff", "\xc3", "a\x80b", "\xed\xa0\x80", "\xf0\x9f", "\x00", "a\x00b",
}

// ---------- random bytes ----------

var c05Pieces = []string{
	"{", "}", "{{", "}}", "/", "*", "/*", "*/", "/**", "//", "\n", "\r", " ", "\t", "'", "\"", "\\", "$", ".", "?", "?.", "?[", "?:", ":", "@", "@param", "param",
	"-", "+", "=", "==", "!=", "<", ">", "<=", ">=", "!", "|", ",", "(", ")", "[", "]", "0", "1", "9", "0x", "e", "E", "A", "x", "a", "_", "not", "and", "or",
	"literal", "/literal", "{literal}", "{/literal}", "css", "{css ", "sp", "nil", "lb", "rb", "if", "/if", "call", "template", "namespace", "switch", "case", "msg", "plural",
	"\x00", "\x7f", "\x80", "\xbf", "\xc3", "\xc3\xa9", "\xe2\x82", "\xe2\x82\xac", "\xed\xa0\x80", "\xf0\x9f", "\xf0\x9f\x98\x80", "\xf4\x90\x80\x80", "\xff", "\xfe",
	"é", "Ж", "中", "٣", "𝟘", "\u00a0", "\u2028", "\ufeff", "\ufffd", "ǅ", "ⅷ", "ª", "²",
}

func c05RandomBytes(r *hx.Rand) string {
	var sb strings.Builder
	switch r.Intn(4) {
	case 0: // uniform bytes
		n := r.Intn(40)
		for i := 0; i < n; i++ {
			sb.WriteByte(byte(r.Intn(256)))
		}
	case 1: // pieces
		n := 1 + r.Intn(14)
		for i := 0; i < n; i++ {
			sb.WriteString(c05Pieces[r.Intn(len(c05Pieces))])
		}
	case 2: // pieces inside a template
		n := 1 + r.Intn(10)
		sb.WriteString("{namespace n}\n/** */\n{template .t}\n")
		for i := 0; i < n; i++ {
			sb.WriteString(c05Pieces[r.Intn(len(c05Pieces))])
		}
		if r.Bool() {
			sb.WriteString("{/template}")
		}
	default: // tags and pieces mixed
		n := 1 + r.Intn(6)
		for i := 0; i < n; i++ {
			if r.Bool() {
				sb.WriteString(c05Tags[r.Intn(len(c05Tags))])
			} else {
				sb.WriteString(c05Pieces[r.Intn(len(c05Pieces))])
			}
		}
	}
	return sb.String()
}

// ---------- mutations on token boundaries ----------

// c05Segments cuts s at the given end positions (ascending, as VerifLex reports them).
func c05Segments(s string, ends []int) []string {
	var segs []string
	prev := 0
	for _, e := range ends {
		if e > len(s) {
			e = len(s)
		}
		if e > prev {
			segs = append(segs, s[prev:e])
			prev = e
		}
	}
	if prev < len(s) {
		segs = append(segs, s[prev:])
	}
	return segs
}

func c05Mutate(r *hx.Rand, segs []string) string {
	if len(segs) == 0 {
		return ""
	}
	out := append([]string(nil), segs...)
	k := 1 + r.Intn(2)
	for ; k > 0 && len(out) > 0; k-- {
		i := r.Intn(len(out))
		switch r.Intn(3) {
		case 0: // delete
			out = append(out[:i], out[i+1:]...)
		case 1: // duplicate
			out = append(out[:i+1], out[i:]...)
		default: // swap with a neighbour or a random other token
			j := r.Intn(len(out))
			if r.Bool() && i+1 < len(out) {
				j = i + 1
			}
			out[i], out[j] = out[j], out[i]
		}
	}
	return strings.Join(out, "")
}

// ---------- scaling families ----------

type c05Family struct {
	Name string
	Expr bool
	Gen  func(n int) string
}

func c05Rep(s string, n int) string { return strings.Repeat(s, n) }

var c05Families = []c05Family{
	{"text", false, func(n int) string {
		return "{namespace n}\n/** */\n{template .t}\n" + c05Rep("lorem ipsum <b>dolor</b> sit amet\n", 20*n) + "{/template}\n"
	}},
	{"templates", false, func(n int) string {
		return "{namespace n}\n" + c05Rep("/** @param x */\n{template .t}\n{$x|escapeHtml}{if $x > 1}a{else}b{/if}\n{/template}\n", 6*n)
	}},
	{"nested-if", false, func(n int) string {
		return "{namespace n}\n/** */\n{template .t}\n" + c05Rep("{if $a}x", 12*n) + c05Rep("{/if}", 12*n) + "\n{/template}\n"
	}},
	{"expr-chain", true, func(n int) string { return "1" + c05Rep(" + $a.b * 2", 40*n) }},
	{"expr-nested", true, func(n int) string { return c05Rep("[(", 40*n) + "1" + c05Rep(")]", 40*n) }},
	{"string", true, func(n int) string { return "'" + c05Rep("abc\\n\\'", 80*n) + "'" }},
	{"comments", false, func(n int) string {
		return "{namespace n}\n" + c05Rep("// line comment\n/* block */\n", 20*n) + "/**\n" + c05Rep(" * @param p text\n", 20*n) + " */\n{template .t}\n{/template}\n"
	}},
	{"literal", false, func(n int) string {
		return "{namespace n}\n/** */\n{template .t}\n{literal}" + c05Rep("{a}{{b}}", 60*n) + "{/literal}\n{/template}\n"
	}},
	{"unclosed-string", false, func(n int) string {
		return "{namespace n}\n/** */\n{template .t}\n{print '" + c05Rep("abcdefgh", 60*n)
	}},
	{"unclosed-comment", false, func(n int) string { return "{namespace n}\n/* " + c05Rep("comment * / ", 40*n) }},
	{"directives", false, func(n int) string {
		return "{namespace n}\n/** */\n{template .t}\n{$x" + c05Rep("|truncate:5,true", 30*n) + "}\n{/template}\n"
	}},
	{"calls", false, func(n int) string {
		return "{namespace n}\n/** */\n{template .t}\n" + c05Rep("{call .u}{param a: 1 /}{param b}x{/param}{/call}", 10*n) + "\n{/template}\n"
	}},
	{"header-params", false, func(n int) string {
		return "{namespace n}\n{template .t}\n" + c05Rep("{@param x: list<map<string, int>>}\n", 14*n) + "{/template}\n"
	}},
	{"close-braces", false, func(n int) string { return "{namespace n}\n/** */\n{template .t}\n{css " + c05Rep("a-b ", 100*n) + "}{/template}" }},
}

// ---------- attribute forms ----------

type c05Cmd struct {
	Name   string
	Pos    []string // usual positional part ("" = none)
	Attrs  []string
	Closer string // "" for commands that have no block form
}

var c05Cmds = []c05Cmd{
	{"call", []string{"", ".t", "a.b.c"}, []string{"name", "data"}, "{/call}"},
	{"delcall", []string{"", "a.b"}, []string{"name", "data", "variant", "allowemptydefault"}, "{/delcall}"},
	{"param", []string{"", "k", "k: 1"}, []string{"key", "value", "kind"}, "{/param}"},
	{"msg", []string{""}, []string{"desc", "meaning", "hidden"}, "{/msg}"},
	{"template", []string{"", ".t"}, []string{"name", "private", "autoescape", "kind"}, "{/template}"},
	{"deltemplate", []string{"", "a.b"}, []string{"variant", "autoescape"}, "{/deltemplate}"},
	{"namespace", []string{"", "n"}, []string{"autoescape", "requirecss"}, ""},
	{"let", []string{"", "$v", "$v: 1"}, []string{"kind"}, "{/let}"},
	{"plural", []string{"", "$n"}, []string{"offset"}, "{/plural}"},
	{"print", []string{"", "$x"}, []string{"id"}, ""},
	{"css", []string{"", "a"}, []string{"base"}, ""},
	{"foreach", []string{"", "$i in $l"}, []string{"kind"}, "{/foreach}"},
}

var c05AttrValues = []string{"", " ", ".", ".t", "a.b", "all", "$x", "$x.", "1 2", "'", "\\\"", "true", "x y", "{", "}", "\u00e9", "$x +", "\\"}

// c05AttrTags: every command above with every attribute (and an unknown one) set to every value, in the
// self-closing and the block form, with and without the positional part; duplicated attributes, pairs of
// attributes, and malformed attribute syntax.
func c05AttrTags() []string {
	var out []string
	few := []string{"", " ", ".t", "$x", "all"}
	for _, c := range c05Cmds {
		attrs := append(append([]string(nil), c.Attrs...), "foo")
		for _, pos := range c.Pos {
			head := "{" + c.Name
			if pos != "" {
				head += " " + pos
			}
			out = append(out, head+"}", head+" /}", head)
			for _, a := range attrs {
				for _, v := range c05AttrValues {
					out = append(out, head+" "+a+"=\""+v+"\"}", head+" "+a+"=\""+v+"\" /}")
				}
				out = append(out, head+" "+a+"=}", head+" "+a+"}", head+" "+a+"=\"\"", head+" "+a+"=\"", head+" "+a+"='v'}", head+" =\"v\"}",
					head+" "+a+"=\"v\" "+a+"=\"w\"}", head+" "+a+"=\"\" "+a+"=\"\" /}", head+" "+a+" = \"v\"}", head+" "+a+"=\"v\""+a+"=\"w\"}")
			}
			for i, a := range attrs {
				for _, b := range attrs[i+1:] {
					for _, v := range few {
						for _, w := range few {
							out = append(out, head+" "+a+"=\""+v+"\" "+b+"=\""+w+"\" /}")
						}
					}
				}
			}
		}
	}
	return out
}

func c05Closer(tag string) string {
	for _, c := range c05Cmds {
		if c.Closer != "" && (strings.HasPrefix(tag, "{"+c.Name+" ") || strings.HasPrefix(tag, "{"+c.Name+"}")) {
			return c.Closer
		}
	}
	return ""
}

// c05MutateString replaces the contents of one quoted string of the segment list by a degenerate value.
func c05MutateString(r *hx.Rand, segs []string) (string, bool) {
	var idx []int
	for i, s := range segs {
		t := strings.TrimLeft(s, " \t\r\n")
		if len(t) >= 2 && (t[0] == '"' || t[0] == '\'') && t[len(t)-1] == t[0] {
			idx = append(idx, i)
		}
	}
	if len(idx) == 0 {
		return "", false
	}
	i := idx[r.Intn(len(idx))]
	s := segs[i]
	t := strings.TrimLeft(s, " \t\r\n")
	lead := s[:len(s)-len(t)]
	q := string(t[0])
	vals := []string{"", " ", "   ", ".", "." + t[1:len(t)-1], q, "\\", "$", "all", t[1:len(t)-1] + " " + t[1:len(t)-1]}
	v := vals[r.Intn(len(vals))]
	out := append([]string(nil), segs...)
	if v == q { // a lone quote
		out[i] = lead + q
	} else {
		out[i] = lead + q + v + q
	}
	return strings.Join(out, ""), true
}
