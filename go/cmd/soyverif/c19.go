//go:build c19

package main

// C19 — errors point at the offending file and line.
//
// Parse half: valid generated files (gen_prog.go, commands spread over lines)
// with ONE fault injected at every line, per fault class; parse.SoyFile (and
// Bundle.Compile on the whole bundle) must return an ErrFilePos whose File() is
// the given name, whose Line() is the injected line (lexical faults, unknown
// command) or lies between the injected line and the line where scanning
// stopped (unterminated string / comment / tag), and whose text shows the same
// name:line:col.  Parses run in a worker subprocess: the pinned scanner and
// parser can spin on some unterminated inputs (C05's findings, not C19's).
//
// Render half: an entry template whose body nests every block command, with a
// failing command put at every executed line, at call depth 0..3 (the failure
// is then inside a callee in another file, reached through 1..3 calls):
// Render must return an ErrFilePos whose File() is the entry template's file
// and whose Line() is the line of the failing command (depth 0) or of the
// {call} in the entry template (depth > 0).  The same cases are run through
// the Coq model of the tree walker (Interp.render), whose rr_file/rr_line are
// compared with the implementation's.

import (
	"bufio"
	"encoding/json"
	"fmt"
	"os"
	"os/exec"
	"path/filepath"
	"flag"
	"strconv"
	"strings"
	"sync"
	"time"

	"github.com/robfig/soy"
	"github.com/robfig/soy/data"
	"github.com/robfig/soy/errortypes"
	"github.com/robfig/soy/parse"
	"github.com/robfig/soy/soyhtml"
	"soyverif/internal/hx"
)

func init() {
	props["C19"] = runC19
	workers["c19parse"] = c19ParseWorker
}

// ---------------------------------------------------------------------------
// worker: parses in a subprocess

type c19ParseCase struct {
	Files []srcFile `json:"files"` // one file: parse.SoyFile; several: Bundle.Compile
}

type c19Res struct {
	Class  string `json:"class"` // ok | err | panic | hang | crash
	HasPos bool   `json:"haspos"`
	File   string `json:"file"`
	Line   int    `json:"line"`
	Col    int    `json:"col"`
	Text   string `json:"text"`
}

func c19ErrRes(err error) c19Res {
	if err == nil {
		return c19Res{Class: "ok"}
	}
	r := c19Res{Class: "err", Text: err.Error()}
	if fp := errortypes.ToErrFilePos(err); fp != nil {
		r.HasPos, r.File, r.Line, r.Col = true, fp.File(), fp.Line(), fp.Col()
	}
	return r
}

func c19DoParse(c c19ParseCase) (res c19Res) {
	defer func() {
		if r := recover(); r != nil {
			res = c19Res{Class: "panic", Text: fmt.Sprint(r)}
		}
	}()
	if len(c.Files) == 1 {
		_, err := parse.SoyFile(c.Files[0].Name, c.Files[0].Text)
		return c19ErrRes(err)
	}
	b := soy.NewBundle()
	for _, f := range c.Files {
		b.AddTemplateString(f.Name, f.Text)
	}
	_, err := b.Compile()
	return c19ErrRes(err)
}

func c19ParseWorker(args []string) {
	if len(args) < 2 {
		return
	}
	bs, err := os.ReadFile(args[0])
	if err != nil {
		return
	}
	var cases []c19ParseCase
	if json.Unmarshal(bs, &cases) != nil {
		return
	}
	start, _ := strconv.Atoi(args[1])
	w := bufio.NewWriter(os.Stdout)
	for i := start; i < len(cases); i++ {
		fmt.Fprintf(w, "S %d\n", i)
		w.Flush()
		js, _ := json.Marshal(c19DoParse(cases[i]))
		fmt.Fprintf(w, "D %d %s\n", i, js)
		w.Flush()
	}
	fmt.Fprintln(w, "END")
	w.Flush()
}

// c19Workers: how many subprocesses / model runners the harness keeps busy at once (the machine is shared: 4).
func c19Workers() int {
	if v, err := strconv.Atoi(os.Getenv("VERIF_C19_WORKERS")); err == nil && v >= 1 && v <= 16 {
		return v
	}
	return 4
}

// c19RunParses runs the cases in worker subprocesses, sharded over c19Workers() of them (contiguous
// slices of the case list: the result of case i does not depend on the sharding).
func c19RunParses(e *env, cases []c19ParseCase) []c19Res {
	res := make([]c19Res, len(cases))
	nw := c19Workers()
	if len(cases) < 8*nw {
		nw = 1
	}
	var mu sync.Mutex
	var notes []string
	note := func(f string, a ...interface{}) {
		mu.Lock()
		notes = append(notes, fmt.Sprintf(f, a...))
		mu.Unlock()
	}
	var wg sync.WaitGroup
	per := (len(cases) + nw - 1) / nw
	for w := 0; w < nw; w++ {
		lo, hi := w*per, (w+1)*per
		if hi > len(cases) {
			hi = len(cases)
		}
		if lo >= hi {
			break
		}
		wg.Add(1)
		go func(w, lo, hi int) {
			defer wg.Done()
			c19RunShard(e.self, cases[lo:hi], res[lo:hi], w, note)
		}(w, lo, hi)
	}
	wg.Wait()
	for _, n := range notes {
		e.res.Note("%s", n)
	}
	return res
}

// c19RunShard runs one shard in a worker subprocess.  hang = no "D" within the
// timeout after "S"; crash = the process ended without "END".
func c19RunShard(self string, cases []c19ParseCase, res []c19Res, shard int, note func(string, ...interface{})) {
	if len(cases) == 0 {
		return
	}
	dir := os.Getenv("VERIF_BUILD")
	if dir == "" {
		dir = os.TempDir()
	}
	dir = filepath.Join(dir, "tmp")
	os.MkdirAll(dir, 0o755)
	path := filepath.Join(dir, fmt.Sprintf("c19-%d-%d-%d.json", os.Getpid(), shard, time.Now().UnixNano()))
	bs, _ := json.Marshal(cases)
	if err := os.WriteFile(path, bs, 0o644); err != nil {
		note("cannot write the worker's case file: %v", err)
		return
	}
	defer os.Remove(path)
	const perCase = 2 * time.Second
	i, restarts := 0, 0
	for i < len(cases) {
		cmd := exec.Command(self, "worker", "c19parse", path, strconv.Itoa(i))
		cmd.Env = append(os.Environ(), "GOMAXPROCS=2")
		out, err := cmd.StdoutPipe()
		if err != nil {
			note("worker pipe: %v", err)
			return
		}
		var stderr strings.Builder
		cmd.Stderr = &stderr
		if err := cmd.Start(); err != nil {
			note("cannot start the worker: %v", err)
			return
		}
		lines := make(chan string, 64)
		go func() {
			sc := bufio.NewScanner(out)
			sc.Buffer(make([]byte, 1<<20), 1<<26)
			for sc.Scan() {
				lines <- sc.Text()
			}
			close(lines)
		}()
		cur, ended, hung := -1, false, false
		timer := time.NewTimer(perCase)
	loop:
		for {
			select {
			case ln, ok := <-lines:
				if !ok {
					break loop
				}
				if !timer.Stop() {
					select {
					case <-timer.C:
					default:
					}
				}
				timer.Reset(perCase)
				switch {
				case ln == "END":
					ended = true
				case strings.HasPrefix(ln, "S "):
					cur, _ = strconv.Atoi(ln[2:])
				case strings.HasPrefix(ln, "D "):
					rest := ln[2:]
					if k := strings.IndexByte(rest, ' '); k > 0 {
						n, _ := strconv.Atoi(rest[:k])
						var r c19Res
						if json.Unmarshal([]byte(rest[k+1:]), &r) == nil && n >= 0 && n < len(res) {
							res[n] = r
							i = n + 1
						}
					}
				}
			case <-timer.C:
				hung = true
				break loop
			}
		}
		timer.Stop()
		cmd.Process.Kill()
		go func() {
			for range lines {
			}
		}()
		cmd.Wait()
		if ended {
			break
		}
		if cur < i {
			// the worker died before starting the next case: give up on the batch rather than loop
			restarts++
			if restarts > 3 {
				note("worker keeps dying before case %d: %s", i, firstN(stderr.String(), 300))
				for ; i < len(cases); i++ {
					res[i] = c19Res{Class: "crash", Text: "worker unavailable"}
				}
				break
			}
			continue
		}
		if hung {
			res[cur] = c19Res{Class: "hang"}
		} else {
			res[cur] = c19Res{Class: "crash", Text: firstN(stderr.String(), 400)}
		}
		i = cur + 1
	}
}

func firstN(s string, n int) string {
	if len(s) > n {
		return s[:n]
	}
	return s
}

// ---------------------------------------------------------------------------
// a small pool of model runners: e.m plus c19Workers()-1 more processes of the same binary, so that the
// extracted model works on several shards at once.  Responses are matched to requests by position, so
// the outcome does not depend on the sharding.

type c19Pool struct {
	ms    []*hx.Model
	extra []*hx.Model
}

func c19NewPool(e *env) *c19Pool {
	p := &c19Pool{}
	if e.m == nil {
		return p
	}
	p.ms = []*hx.Model{e.m}
	path := ""
	if f := flag.Lookup("model"); f != nil {
		path = f.Value.String()
	}
	for len(p.ms) < c19Workers() && path != "" {
		m, err := hx.StartModel(path)
		if err != nil {
			break
		}
		p.ms = append(p.ms, m)
		p.extra = append(p.extra, m)
	}
	return p
}

func (p *c19Pool) close(e *env) {
	for _, m := range p.extra {
		if e.m != nil {
			e.m.N += m.N
		}
		m.Close()
	}
	p.extra, p.ms = nil, nil
}

// batchGroups answers groups of requests (a group is sent to one runner, in order: its requests may depend
// on one another, e.g. load_registry then render); the groups are dealt out in contiguous runs.
func (p *c19Pool) batchGroups(groups [][]string) [][][]string {
	out := make([][][]string, len(groups))
	if len(p.ms) == 0 || len(groups) == 0 {
		return out
	}
	nw := len(p.ms)
	if len(groups) < 4*nw {
		nw = 1
	}
	per := (len(groups) + nw - 1) / nw
	var wg sync.WaitGroup
	for w := 0; w < nw; w++ {
		lo, hi := w*per, (w+1)*per
		if hi > len(groups) {
			hi = len(groups)
		}
		if lo >= hi {
			break
		}
		wg.Add(1)
		go func(m *hx.Model, lo, hi int) {
			defer wg.Done()
			var flat []string
			for _, g := range groups[lo:hi] {
				flat = append(flat, g...)
			}
			resp := m.Batch(flat)
			k := 0
			for i := lo; i < hi; i++ {
				out[i] = resp[k : k+len(groups[i])]
				k += len(groups[i])
			}
		}(p.ms[w], lo, hi)
	}
	wg.Wait()
	return out
}

func (p *c19Pool) batch(reqs []string) [][]string {
	groups := make([][]string, len(reqs))
	for i, r := range reqs {
		groups[i] = []string{r}
	}
	out := make([][]string, len(reqs))
	for i, g := range p.batchGroups(groups) {
		if len(g) == 1 {
			out[i] = g[0]
		}
	}
	return out
}

var c19pool *c19Pool

// ---------------------------------------------------------------------------
// lexical map of a valid file (from the real scanner's items, hook parse.VerifLex)

type c19Codes struct {
	leftDelim, rightDelim, rightDelimEnd, text, soyDocStart, soyDocEnd, comment, literal, literalEnd, css, headerParam, headerOptParam, template, templateEnd, eof int
}

var c19codes *c19Codes

// the item type codes are read off the scanner itself, so that a renumbering of the const block cannot mislead the harness
func c19ItemCodes() *c19Codes {
	if c19codes != nil {
		return c19codes
	}
	c := &c19Codes{}
	a := parse.VerifLex("", "{$a}x{b /}", false)
	c.leftDelim, c.rightDelim, c.text, c.rightDelimEnd, c.eof = a[0].Typ, a[2].Typ, a[3].Typ, a[6].Typ, a[7].Typ
	for _, it := range parse.VerifLex("", "/** */ /* c */", false) {
		switch it.Val {
		case "/**":
			c.soyDocStart = it.Typ
		case "*/":
			c.soyDocEnd = it.Typ
		case "/* c */":
			c.comment = it.Typ
		}
	}
	l := parse.VerifLex("", "{literal}x{/literal}{css a}{@param a: int}{@param? b: int}{template .t}{/template}", false)
	c.literal, c.literalEnd, c.css = l[1].Typ, l[5].Typ, l[8].Typ
	for _, it := range l {
		switch it.Val {
		case "@param":
			c.headerParam = it.Typ
		case "@param?":
			c.headerOptParam = it.Typ
		case "template":
			c.template = it.Typ
		case "/template":
			c.templateEnd = it.Typ
		}
	}
	c19codes = c
	return c
}

type c19Tag struct {
	a, b    int   // [a,b): from '{' to just after the closing delimiter
	rdStart int   // offset of the closing delimiter
	cmd     int   // type code of the first item inside
	points  []int // offsets between the items inside the tag (ends of the inner items)
}

type c19Map struct {
	text    string
	spans   [][2]int // regions that are not template text: tags, soydoc, comments, literal blocks
	tags    []c19Tag // tags in which a lexical fault can be injected
	inTmpl  [][2]int // [start of {template ..} tag, end of {/template} tag)
	lineBeg []int    // offset of the first byte of line i+1
}

func c19Analyze(text string) *c19Map {
	c := c19ItemCodes()
	m := &c19Map{text: text}
	m.lineBeg = []int{0}
	for i := 0; i < len(text); i++ {
		if text[i] == '\n' {
			m.lineBeg = append(m.lineBeg, i+1)
		}
	}
	items := parse.VerifLex("", text, false)
	tmplStart := -1
	for i := 0; i < len(items); i++ {
		it := items[i]
		switch it.Typ {
		case c.soyDocStart:
			a := it.Pos - len(it.Val)
			j := i
			for j < len(items) && items[j].Typ != c.soyDocEnd {
				j++
			}
			if j < len(items) {
				m.spans = append(m.spans, [2]int{a, items[j].Pos})
				i = j
			}
		case c.comment:
			m.spans = append(m.spans, [2]int{it.Pos - len(it.Val), it.Pos})
		case c.leftDelim:
			a := it.Pos - len(it.Val)
			j := i + 1
			for j < len(items) && items[j].Typ != c.rightDelim && items[j].Typ != c.rightDelimEnd {
				j++
			}
			if j >= len(items) {
				break
			}
			tg := c19Tag{a: a, b: items[j].Pos, rdStart: items[j].Pos - len(items[j].Val)}
			if i+1 < j {
				tg.cmd = items[i+1].Typ
			}
			for k := i; k < j; k++ {
				tg.points = append(tg.points, items[k].Pos)
			}
			switch tg.cmd {
			case c.literal:
				// {literal} text {/literal}: one opaque region
				k := j
				for k < len(items) && items[k].Typ != c.literalEnd {
					k++
				}
				if k+1 < len(items) {
					m.spans = append(m.spans, [2]int{a, items[k+1].Pos})
					i = k + 1
					continue
				}
			case c.template:
				tmplStart = a
			case c.templateEnd:
				if tmplStart >= 0 {
					m.inTmpl = append(m.inTmpl, [2]int{tmplStart, tg.b})
					tmplStart = -1
				}
			}
			m.spans = append(m.spans, [2]int{tg.a, tg.b})
			if tg.cmd != c.css && tg.cmd != c.headerParam && tg.cmd != c.headerOptParam && tg.cmd != c.literal && tg.cmd != c.literalEnd {
				m.tags = append(m.tags, tg)
			}
			i = j
		}
	}
	return m
}

func (m *c19Map) nLines() int { return len(m.lineBeg) }

// [beg,end): the bytes of line l (1-based) without its newline
func (m *c19Map) lineRange(l int) (int, int) {
	beg := m.lineBeg[l-1]
	end := len(m.text)
	if l < len(m.lineBeg) {
		end = m.lineBeg[l] - 1
	}
	return beg, end
}

// textLevel: the offset lies in template text or between file-level constructs (not strictly inside a tag, comment, soydoc or literal)
func (m *c19Map) textLevel(p int) bool {
	for _, s := range m.spans {
		if s[0] < p && p < s[1] {
			return false
		}
	}
	return true
}

func (m *c19Map) insideTemplate(p int) bool {
	for _, s := range m.inTmpl {
		if s[0] < p && p < s[1] {
			return true
		}
	}
	return false
}

func c19LineOf(text string, off int) int { return 1 + strings.Count(text[:off], "\n") }

// ---------------------------------------------------------------------------
// parse half: fault injection

type c19Fault struct {
	Kind   string    `json:"kind"` // "parse"
	Class  string    `json:"class"`
	Sub    string    `json:"sub"`
	Name   string    `json:"name"`
	Text   string    `json:"text"`
	Line   int       `json:"injected_line"`
	Lo     int       `json:"line_lo"`
	Hi     int       `json:"line_hi"`
	Must   bool      `json:"must_fail"` // the fault cannot be absorbed: no error at all is a deviation
	Bundle []srcFile `json:"bundle,omitempty"`
}

var c19IllegalChars = []string{"^", "~", "#", ";", "&", "`", "\x01", "§", "\\"}

func c19Splice(s string, at int, ins string) string { return s[:at] + ins + s[at:] }

// faults injected on line l of the valid file (name, m.text)
func c19FaultsAt(r *hx.Rand, name string, m *c19Map, l int) []c19Fault {
	var out []c19Fault
	text := m.text
	beg, end := m.lineRange(l)
	total := func(s string) int { return 1 + strings.Count(s, "\n") }
	add := func(class, sub, t string, lo, hi int, must bool) {
		out = append(out, c19Fault{Kind: "parse", Class: class, Sub: sub, Name: name, Text: t, Line: l, Lo: lo, Hi: hi, Must: must})
	}
	// text-level points of the line
	var tl []int
	for p := beg; p <= end; p++ {
		if m.textLevel(p) && (p == end || p == beg || text[p] == ' ' || text[p-1] == ' ' || text[p] == '{' || text[p-1] == '}') {
			tl = append(tl, p)
		}
	}
	// tags lying on this line
	var tags []c19Tag
	for _, tg := range m.tags {
		if tg.a >= beg && tg.b <= end {
			tags = append(tags, tg)
		}
	}
	pickTL := func() int { return tl[r.Intn(len(tl))] }

	// (1) illegal character inside a tag
	if len(tags) > 0 {
		tg := tags[r.Intn(len(tags))]
		p := tg.points[r.Intn(len(tg.points))]
		ch := r.Pick(c19IllegalChars)
		if ch == "\\" && p == tg.points[0] {
			ch = "^" // "{\" starts a special-character command
		}
		add("illegal-char", "in-tag", c19Splice(text, p, ch), l, l, true)
	} else if len(tl) > 0 {
		if p := pickTL(); m.insideTemplate(p) {
			add("illegal-char", "new-tag", c19Splice(text, p, "{$zz "+r.Pick(c19IllegalChars[:8])+" 1}"), l, l, true)
		}
	}
	// (2) stray closing brace in text
	if len(tl) > 0 {
		p := pickTL()
		add("stray-brace", "", c19Splice(text, p, r.Pick([]string{"}", " } ", "x}y", "} "})), l, l, true)
	}
	// (3) unterminated string / comment / soydoc / tag
	if len(tags) > 0 {
		tg := tags[r.Intn(len(tags))]
		p := tg.points[r.Intn(len(tg.points))]
		rest := text[p:]
		q := ""
		switch {
		case !strings.Contains(rest, "'"):
			q = "'"
		case !strings.Contains(rest, "\""):
			q = "\""
		}
		if q != "" {
			t := c19Splice(text, p, " "+q+"abc")
			add("unterminated", "string", t, l, total(t), true)
		}
		// the tag loses its closing delimiter
		t := text[:tg.rdStart] + text[tg.b:]
		add("unterminated", "tag-unclosed", t, l, total(t), false)
	}
	if len(tl) > 0 {
		p := pickTL()
		if !strings.Contains(text[p:], "*/") {
			t := c19Splice(text, p, " /* abc")
			add("unterminated", "comment", t, l, total(t), true)
			if !m.insideTemplate(p) {
				t = c19Splice(text, p, " /** abc")
				add("unterminated", "soydoc", t, l, total(t), true)
			}
		}
		if m.insideTemplate(p) {
			t := c19Splice(text, p, r.Pick([]string{"{$zz + ", "{if $zz", "{call .zz", "{print "}))
			add("unterminated", "tag-opened", t, l, total(t), false)
		}
	}
	// (4) unknown command
	if len(tl) > 0 {
		p := pickTL()
		if m.insideTemplate(p) {
			add("unknown-command", "", c19Splice(text, p, r.Pick([]string{"{foo $x}", "{/foo}", "{foo bar}", "{\\x}", "{foo 'a'}", "{/templat}", "{foo: 1}"})), l, l, true)
		}
	}
	// (5) end of input inside a template
	if m.textLevel(end) && m.insideTemplate(end) && end > 0 {
		t := text[:end]
		add("truncated", "no-newline", t, l, total(t), true)
		if end < len(text) {
			t = text[:end+1]
			add("truncated", "newline", t, l, total(t), true)
		}
	}
	// (6) a fault inside a quoted attribute expression
	if len(tl) > 0 {
		p := pickTL()
		if m.insideTemplate(p) {
			add("quoted-expr", "", c19Splice(text, p, r.Pick([]string{"{call .zz data=\"$a +\" /}", "{call .zz}{param key=\"k\" value=\"1 +\" /}{/call}", "{css $a +, foo}"})), l, l, true)
		}
	}
	return out
}

// c19CheckParse evaluates the oracle on one result; "" = satisfied.
func c19CheckParse(f c19Fault, r c19Res, name string) (what string, expected string) {
	maxLine := 1 + strings.Count(f.Text, "\n")
	exp := fmt.Sprintf("file %q, line in [%d,%d]", name, f.Lo, f.Hi)
	switch r.Class {
	case "hang", "crash", "panic":
		return "", ""
	case "ok":
		if f.Must {
			return "the injected fault is not reported at all", exp
		}
		return "", ""
	}
	if !r.HasPos {
		return "the parse error carries no file position", exp
	}
	if r.File != name {
		return "the parse error names another file", exp
	}
	if r.Line < 1 || r.Line > maxLine {
		return "the line number lies outside the input", exp
	}
	if r.Line < f.Lo || r.Line > f.Hi {
		return "the line number is not the line of the injected fault", exp
	}
	if !strings.Contains(r.Text, fmt.Sprintf("%s:%d:%d", name, r.Line, r.Col)) {
		return "the message text does not show the same file:line:col", exp
	}
	return "", ""
}

var c19Names = []string{"file%d.soy", "dir/sub/t%d.soy", "with space %d.soy", "ünï%d.soy", "/abs/path/x%d.soy", "x%d"}

func c19ParseHalf(e *env, nBundles int) {
	var faults []c19Fault
	var cases []c19ParseCase
	for i := 0; i < nBundles; i++ {
		o := progOpts{depth: 2 + e.rng.Intn(2), directives: true, spread: true, allHeader: e.rng.Chance(60), noLog: e.rng.Bool()}
		files, _, _, _ := genBundle(e.rng, o)
		crlf := e.rng.Chance(20)
		noTrail := e.rng.Chance(25)
		pat := c19Names[e.rng.Intn(len(c19Names))]
		// what precedes the commands: multi-byte characters (a line computed from rune offsets goes wrong after them) and,
		// in some bundles, a long run of lines (an offset that is short by one byte per line only shows far down the file)
		lead := ""
		if e.rng.Chance(40) {
			lead = "// Überschrift – 10 € ✓ 日本語\n/* «ça» 𝔘𝔫𝔦\n   äöüß */\n"
			e.res.Histogram["parse:bundles with multi-byte characters before the commands"]++
		}
		if e.rng.Chance(15) {
			for k := 40 + e.rng.Intn(160); k > 0; k-- {
				lead += e.rng.Pick([]string{"// padding line\n", "\n", "// Füllzeile – €\n", "/* one-line block comment */\n"})
			}
			e.res.Histogram["parse:bundles with long files"]++
		}
		padLines := strings.Count(lead, "\n")
		if crlf {
			e.res.Histogram["parse:bundles with CRLF line ends"]++
		}
		for fi := range files {
			files[fi].Name = fmt.Sprintf(pat, fi)
			files[fi].Text = lead + files[fi].Text
			if crlf {
				files[fi].Text = strings.ReplaceAll(files[fi].Text, "\n", "\r\n")
			}
			if noTrail {
				files[fi].Text = strings.TrimRight(files[fi].Text, "\r\n")
			}
		}
		// the unedited bundle must compile (in the worker as well: nothing here is trusted not to hang)
		cases = append(cases, c19ParseCase{Files: files})
		faults = append(faults, c19Fault{Kind: "valid", Bundle: files})
		for fi, f := range files {
			m := c19Analyze(f.Text)
			for l := 1; l <= m.nLines(); l++ {
				if l <= padLines && !e.rng.Chance(4) {
					continue // the padding: a fault on one line in 25
				}
				for _, ft := range c19FaultsAt(e.rng, f.Name, m, l) {
					faults = append(faults, ft)
					cases = append(cases, c19ParseCase{Files: []srcFile{{f.Name, ft.Text}}})
					if e.rng.Chance(6) && len(files) > 1 {
						// the same fault seen through Bundle.Compile: the error must name this file
						bf := append([]srcFile{}, files...)
						bf[fi] = srcFile{f.Name, ft.Text}
						ft2 := ft
						ft2.Bundle = bf
						ft2.Sub += "/bundle"
						// files before this one are valid, so the first error is this file's
						faults = append(faults, ft2)
						cases = append(cases, c19ParseCase{Files: bf})
					}
				}
			}
		}
		if len(cases) >= 5000 || i == nBundles-1 {
			c19JudgeParses(e, faults, cases)
			faults, cases = nil, nil
		}
	}
}

// c19JudgeParses runs one batch of faulted files (worker subprocess, model tie) and evaluates the oracle.
func c19JudgeParses(e *env, faults []c19Fault, cases []c19ParseCase) {
	res := c19RunParses(e, cases)
	c19ParseTextTie(e, faults, res)
	c19ParseModelTie(e, faults)
	for i, f := range faults {
		r := res[i]
		if f.Kind == "valid" {
			e.res.Count("", false, "parse:valid-bundle")
			if r.Class != "ok" {
				e.res.Fail(hx.Violation{Kind: "oracle", What: "a generated valid bundle is rejected (" + r.Class + ")", Case: f, Observed: r.Text}, "")
			}
			continue
		}
		cls := "parse:" + f.Class
		if sub := strings.TrimSuffix(f.Sub, "/bundle"); sub != "" {
			cls += ":" + sub
		}
		if strings.HasSuffix(f.Sub, "/bundle") {
			e.res.Histogram["parse:through Bundle.Compile"]++
		}
		e.res.Count(f.Name+"\x00"+f.Text, true, cls)
		switch r.Class {
		case "hang":
			e.res.Histogram["parse:hang (C05's, not judged here)"]++
			e.res.Histogram["parse:hang:"+f.Class+":"+f.Sub]++
			if os.Getenv("VERIF_C19_DEBUG") != "" {
				lo := strings.Split(f.Text, "\n")
				fmt.Fprintf(os.Stderr, "HANG %s/%s line %d: %q\n", f.Class, f.Sub, f.Line, lo[f.Line-1])
			}
			continue
		case "crash", "panic":
			e.res.Histogram["parse:"+r.Class+" (C05's, not judged here)"]++
			continue
		case "ok":
			e.res.Histogram["parse:accepted:"+f.Class]++
		}
		if i%997 == 0 {
			e.res.Sample(map[string]interface{}{"class": f.Class, "sub": f.Sub, "name": f.Name, "injected_line": f.Line, "observed": r})
		}
		if what, exp := c19CheckParse(f, r, f.Name); what != "" {
			e.res.Histogram["deviation:parse:"+f.Class+":"+strings.TrimSuffix(f.Sub, "/bundle")+": "+what]++
			if os.Getenv("VERIF_C19_DEBUG") != "" {
				lo := strings.Split(f.Text, "\n")
				fmt.Fprintf(os.Stderr, "DEV %s/%s line %d: %q -> %s %d:%d %q\n", f.Class, f.Sub, f.Line, lo[f.Line-1], r.Class, r.Line, r.Col, firstN(r.Text, 120))
			}
			e.res.Fail(hx.Violation{Kind: "oracle", What: "parse error position (" + f.Class + "/" + f.Sub + "): " + what, Case: f, Expected: exp,
				Observed: fmt.Sprintf("class=%s file=%q line=%d col=%d text=%q", r.Class, r.File, r.Line, r.Col, firstN(r.Text, 200))}, c19ParseKnown(f, r))
		}
	}
}

// c19ParseModelTie runs a sample of the faulted files through the tie of the parser model
// (parsetie.go: real scanner items + Model/Parser.v in the model runner): the position of the
// token the model's errorf/unexpected takes must give the line and column the real error carries.
func c19ParseModelTie(e *env, faults []c19Fault) {
	if e.m == nil {
		return
	}
	var cases []ptCase
	for i, f := range faults {
		if f.Kind != "parse" || len(f.Bundle) > 0 || i%4 != 0 {
			continue
		}
		cases = append(cases, ptCase{Kind: "file", Text: f.Text, Fam: "c19:" + f.Class + ":" + f.Sub})
	}
	res := c19PtRunSharded(e, cases)
	var reqs []string
	var idx []int
	for i := range cases {
		r := &res[i]
		if r.Class == "hang" || r.Class == "crash" || r.Class == "panic" {
			e.res.Histogram["parse-tie:"+r.Class+" (C05's)"]++
			continue
		}
		if req := ptModelReq(cases[i], r, false); req != "" {
			reqs = append(reqs, req)
			idx = append(idx, i)
		}
	}
	for k, resp := range c19pool.batch(reqs) {
		i := idx[k]
		e.res.Count("tie\x00"+cases[i].Text, true, "parse-tie:model-vs-implementation")
		ptCompare(e, cases[i], &res[i], ptDecode(resp))
	}
}

// c19PtRunSharded: parsetie.go's ptRun (real scanner and parser in worker subprocesses) on contiguous shards
// of the case list at once; each shard reports into a private result that is merged afterwards.
func c19PtRunSharded(e *env, cases []ptCase) []ptResult {
	nw := c19Workers()
	if len(cases) < 8*nw {
		nw = 1
	}
	res := make([]ptResult, len(cases))
	if len(cases) == 0 {
		return res
	}
	per := (len(cases) + nw - 1) / nw
	subs := make([]*env, nw)
	var wg sync.WaitGroup
	for w := 0; w < nw; w++ {
		lo, hi := w*per, (w+1)*per
		if hi > len(cases) {
			hi = len(cases)
		}
		if lo >= hi {
			break
		}
		sub := *e
		sub.res = hx.NewResult(e.prop, e.tier, e.seed, "")
		subs[w] = &sub
		wg.Add(1)
		go func(sub *env, lo, hi int) {
			defer wg.Done()
			copy(res[lo:hi], ptRun(sub, cases[lo:hi], 2000, 2*time.Second))
		}(&sub, lo, hi)
	}
	wg.Wait()
	for _, sub := range subs {
		if sub == nil {
			continue
		}
		for k, v := range sub.res.Histogram {
			e.res.Histogram[k] += v
		}
		e.res.Notes = append(e.res.Notes, sub.res.Notes...)
	}
	return res
}

// c19ParseTextTie: the text of every positioned parse error must start with the prefix the extracted
// Spec/ErrText.v computes (from errorAt's format literal, re-read by tablegen) for the File(), Line(), Col()
// the error value carries -- "the same numbers appear in the message text", tied to the model.
func c19ParseTextTie(e *env, faults []c19Fault, res []c19Res) {
	if e.m == nil {
		return
	}
	type key struct {
		file      string
		line, col int
	}
	seen := map[key]int{}
	var reqs []string
	var keys []key
	for i := range faults {
		r := res[i]
		if faults[i].Kind != "parse" || r.Class != "err" || !r.HasPos || r.Line < 0 || r.Col < 0 || strings.Contains(r.File, "%") {
			continue
		}
		k := key{r.File, r.Line, r.Col}
		if _, ok := seen[k]; !ok {
			seen[k] = len(reqs)
			reqs = append(reqs, fmt.Sprintf("errprefix %s #%d #%d", hx.H(r.File), r.Line, r.Col))
			keys = append(keys, k)
		}
	}
	resp := c19pool.batch(reqs)
	for i := range faults {
		r := res[i]
		if faults[i].Kind != "parse" || r.Class != "err" || !r.HasPos || r.Line < 0 || r.Col < 0 || strings.Contains(r.File, "%") {
			continue
		}
		j := seen[key{r.File, r.Line, r.Col}]
		if len(resp[j]) != 1 || strings.HasPrefix(resp[j][0], "!") {
			e.res.Fail(hx.Violation{Kind: "mismatch", What: "the model does not compute the prefix of the error text (Spec/ErrText.v error_prefix)", Case: faults[i], Observed: fmt.Sprint(resp[j])}, "")
			continue
		}
		prefix := hx.UnH(resp[j][0])
		if strings.HasPrefix(r.Text, prefix) {
			e.res.Histogram["parse-text:starts with the model's `template file:line:col: `"]++
		} else {
			e.res.Fail(hx.Violation{Kind: "mismatch", What: "the text of the parse error does not start with the prefix the model computes from errorAt's format for the error's own File()/Line()/Col()",
				Case: faults[i], Expected: prefix, Observed: firstN(r.Text, 200)}, "")
		}
	}
}

// c19ParseKnown keys a deviation to a recorded finding (only effective when known_findings.json lists the key).
func c19ParseKnown(f c19Fault, r c19Res) string { return "" }

// ---------------------------------------------------------------------------
// render half

type c19Slot struct {
	line  int  // index into lines
	inMsg bool // only print and call commands are allowed here
}

type c19RGen struct {
	r     *hx.Rand
	lines []string
	slots []c19Slot
	ctr   int
}

func (g *c19RGen) emit(s string) { g.lines = append(g.lines, s) }
func (g *c19RGen) fresh() int    { g.ctr++; return g.ctr }

var c19Fillers = []string{"some text", "{$a}", "{$s|escapeUri}", "<b>{$s}</b>", "{css foo}", "{sp}x{nil}", "{call .ok /}", "{call .ok}{param s: 'x' /}{/call}",
	"{call .ok data=\"all\" /}", "{$a + 1}", "{$list[0]}", "{$m.k}", "{if $f}no{/if}", ""}
var c19MsgFillers = []string{"Hello", "{$a}", "<b>bold</b>", "{$s}", "you have {$a} items"}

const c19SlotMark = "\x00SLOT\x00"

func (g *c19RGen) block(d, n int) {
	for i := 0; i < n; i++ {
		c := g.r.Intn(20)
		switch {
		case c < 5:
			g.emit(g.r.Pick(c19Fillers))
		case c < 9 || d <= 0:
			g.slots = append(g.slots, c19Slot{line: len(g.lines)})
			g.emit(c19SlotMark)
		default:
			g.wrapper(d)
		}
	}
}

func (g *c19RGen) wrapper(d int) {
	n := 1 + g.r.Intn(3)
	switch g.r.Intn(13) {
	case 0:
		g.emit("{if $t}")
		g.block(d-1, n)
		if g.r.Bool() {
			g.emit("{else}")
			g.emit("not here")
		}
		g.emit("{/if}")
	case 1:
		g.emit("{if $f}")
		g.emit("not here")
		g.emit("{elseif $t}")
		g.block(d-1, n)
		g.emit("{else}")
		g.emit("nor here")
		g.emit("{/if}")
	case 2:
		g.emit("{if $f}")
		g.emit("not here")
		g.emit("{else}")
		g.block(d-1, n)
		g.emit("{/if}")
	case 3:
		g.emit(fmt.Sprintf("{foreach $i%d in $list}", g.fresh()))
		g.block(d-1, n)
		g.emit("{/foreach}")
	case 4:
		g.emit(fmt.Sprintf("{foreach $i%d in $empty}", g.fresh()))
		g.emit("not here")
		g.emit("{ifempty}")
		g.block(d-1, n)
		g.emit("{/foreach}")
	case 5:
		g.emit(fmt.Sprintf("{for $i%d in range(2)}", g.fresh()))
		g.block(d-1, n)
		g.emit("{/for}")
	case 6:
		g.emit("{switch $a}")
		g.emit("{case 0}")
		g.emit("not here")
		g.emit("{case 1, 2}")
		g.block(d-1, n)
		g.emit("{default}")
		g.emit("nor here")
		g.emit("{/switch}")
	case 7:
		g.emit("{switch $s}")
		g.emit("{case 'zz'}")
		g.emit("not here")
		g.emit("{default}")
		g.block(d-1, n)
		g.emit("{/switch}")
	case 8:
		v := g.fresh()
		g.emit(fmt.Sprintf("{let $c%d}", v))
		g.block(d-1, n)
		g.emit("{/let}")
		g.emit(fmt.Sprintf("{$c%d}", v))
	case 9:
		g.emit("{log}")
		g.block(d-1, n)
		g.emit("{/log}")
	case 10:
		g.emit("{call .ok}")
		if g.r.Bool() {
			g.emit("{param u: 1 /}")
		}
		g.emit("{param s}")
		g.block(d-1, n)
		g.emit("{/param}")
		g.emit("{/call}")
	case 11:
		g.emit("{msg desc=\"d\"}")
		for j := 0; j < n+1; j++ {
			if g.r.Chance(50) {
				g.slots = append(g.slots, c19Slot{line: len(g.lines), inMsg: true})
				g.emit(c19SlotMark)
			} else {
				g.emit(g.r.Pick(c19MsgFillers))
			}
		}
		g.emit("{/msg}")
	default:
		g.emit("{msg desc=\"p\"}")
		g.emit("{plural $a}")
		g.emit("{case 0}")
		g.emit("none")
		g.emit("{case 1}")
		g.emit(g.r.Pick(c19MsgFillers))
		g.slots = append(g.slots, c19Slot{line: len(g.lines), inMsg: true})
		g.emit(c19SlotMark)
		g.emit("{default}")
		g.emit("many")
		g.emit("{/plural}")
		g.emit("{/msg}")
	}
}

// failing commands for call depth 0; multi-line ones fail on their first line
var c19FailPrints = []string{"{$missing}", "{1 < 'a'}", "{$missing.x}", "{$s|nosuchdirective}", "{$s|truncate:'q'}", "{length($a)}", "{nosuchfn($a)}",
	"{print $missing}", "{$a + $missing}", "{$m.k.z}", "{'a' - 1}", "{$list[$missing]}", "{$a}{$missing}", "{true ? -'s' : 1}",
	// failures that are Go run-time panics (runtime.Error), not s.errorf: integer modulo by zero, a failed type assertion in the
	// ModNode clause (errRecover's runtime.Error branch at depth 0, evalCall's re-panic below), a nil dereference inside an
	// installed function and an index out of range inside an installed directive (recovered by evalFunc / evalPrint), the
	// library's own functions and directives handed a value of the wrong kind
	"{$a % 0}", "{$a % 2.5}", "{$s % 2}", "{7 % ($a - 1)}", "{print $m.k % 0}", "{$a}{$a % 0}", "{c19NilDeref($a)}", "{c19NilDeref(1) + 1}",
	"{$s|c19Index}", "{$a|c19Index|escapeUri}", "{keys($s)}", "{$s|insertWordBreaks:'x'}", "{augmentMap($m, $a)}"}
var c19FailOther = []string{"{if 1 < 'a'}x{/if}", "{foreach $q in $a}x{/foreach}", "{switch 1 < 'a'}{default}x{/switch}", "{call .ok data=\"$a\" /}",
	"{call .ok}{param s: 1 < 'a' /}{/call}", "{if $missing.x}\nx\n{/if}", "{css $missing.x, foo}",
	"{foreach $q in $missing.x}\nx\n{ifempty}\ny\n{/foreach}", "{let $zz9: $missing.x /}{$zz9}",
	"{if $a % 0}x{/if}", "{let $zz8: $a % 0 /}{$zz8}", "{call .ok}{param s: $a % 2.5 /}{/call}", "{switch $a % 0}{default}x{/switch}",
	"{foreach $q in $list[$a % 0]}\nx\n{/foreach}", "{if c19NilDeref($a)}\nx\n{/if}", "{call .ok}{param s: c19NilDeref($a) /}{/call}"}

// c19IsRuntime: the failing command fails through a Go run-time panic
func c19IsRuntime(cmd string) bool {
	return strings.Contains(cmd, " % ") || strings.Contains(cmd, "c19NilDeref") || strings.Contains(cmd, "c19Index")
}

type c19T struct{ v data.Value }

func c19Install() {
	soyhtml.Funcs["c19NilDeref"] = soyhtml.Func{Apply: func(a []data.Value) data.Value {
		var p *c19T
		return p.v // nil pointer dereference: a runtime.Error inside an installed function
	}, ValidArgLengths: []int{1}}
	soyhtml.PrintDirectives["c19Index"] = soyhtml.PrintDirective{Apply: func(v data.Value, a []data.Value) data.Value {
		return a[len(a)+1] // index out of range: a runtime.Error inside an installed directive
	}, ValidArgLengths: []int{0}}
}

// the ways of calling the first template of the failing chain; every form has the {call on its first line
func c19CallForms(target string) []string {
	return []string{
		"{call " + target + " /}",
		"{call " + target + " data=\"all\" /}",
		"{call " + target + "}{param p: $a /}{/call}",
		"{call " + target + "}\n{param p: $a /}\n{param q: 2 /}\n{/call}",
		"{call " + target + "}\n{param p}\ntext\n{$a}\n{/param}\n{/call}",
		"{call " + target + "}\n{param p: 1 /}\n{param q}\n{if $t}\nyes\n{/if}\n{/param}\n{/call}",
		"{call " + target + " data=\"$m\"}\n{param q}{$s}{/param}\n{/call}",
	}
}

type c19RenderCase struct {
	Kind       string    `json:"kind"` // "render"
	Files      []srcFile `json:"files"`
	Entry      string    `json:"template"`
	Depth      int       `json:"call_depth"`
	Fail       string    `json:"failing_command"`
	ExpectFile string    `json:"expect_file"`
	ExpectLine int       `json:"expect_line"`
	Shape      string    `json:"shape"`
	Runtime    bool      `json:"runtime_panic,omitempty"` // the failure is a Go run-time panic inside the renderer, a function or a directive
}

func c19Data() data.Map {
	return data.Map{"a": data.Int(1), "s": data.String("str"), "t": data.Bool(true), "f": data.Bool(false),
		"list": data.List{data.Int(1), data.Int(2)}, "empty": data.List{}, "m": data.Map{"k": data.Int(1)}}
}

const c19ParamDoc = "/**\n * @param a\n * @param s\n * @param t\n * @param f\n * @param list\n * @param empty\n * @param m\n * @param? missing\n */\n"
const c19UseAll = "{$a}{$s}{if $t}{/if}{if $f}{/if}{foreach $q0 in $list}{/foreach}{foreach $q0 in $empty}{/foreach}{$m.k}{$missing ?: ''}"

// c19ChainNS: the namespace of the i-th chain file.  With shared set, every chain file declares the
// ENTRY file's namespace (several files per namespace are legal: what is recorded per template must not
// be looked up per namespace).
func c19ChainNS(shared bool, i int) string {
	if shared {
		return "c19.e"
	}
	return fmt.Sprintf("c19.x%d", i)
}

// c19Siblings: further files that declare the entry file's namespace, much shorter and much longer than it
func c19Siblings(r *hx.Rand) []srcFile {
	var out []srcFile
	for k := r.Intn(3); k > 0; k-- {
		var sb strings.Builder
		if r.Bool() {
			sb.WriteString("// sibling file of the same namespace\n\n\n")
		}
		sb.WriteString("{namespace c19.e}\n")
		sb.WriteString(fmt.Sprintf("/** a sibling */\n{template .sib%d}\n", k))
		for n := []int{0, 2, 90 + r.Intn(120)}[r.Intn(3)]; n > 0; n-- {
			sb.WriteString(r.Pick([]string{"sibling filler line\n", "\n", "{sp}\n"}))
		}
		sb.WriteString("x\n{/template}\n")
		out = append(out, srcFile{fmt.Sprintf("sibling%d.soy", k), sb.String()})
	}
	return out
}

// chain files: template <ns i>.c<i> in file chain<i>.soy calls the next one; the last holds the failing print
func c19ChainFiles(r *hx.Rand, depth int, failPrint string, shared bool) []srcFile {
	var files []srcFile
	for i := 1; i <= depth; i++ {
		var sb strings.Builder
		for k := r.Intn(6); k > 0; k-- {
			sb.WriteString(r.Pick([]string{"\n", "// a comment line\n", "/* block\n   comment */\n"}))
		}
		sb.WriteString("{namespace " + c19ChainNS(shared, i) + "}\n\n")
		sb.WriteString("/**\n * @param? p\n * @param? q\n * @param? a\n * @param? s\n * @param? t\n * @param? f\n * @param? list\n * @param? empty\n * @param? m\n * @param? missing\n */\n")
		sb.WriteString(fmt.Sprintf("{template .c%d}\n", i))
		sb.WriteString("{$p ?: ''}{$q ?: ''}{$a ?: ''}{$s ?: ''}{$t ?: ''}{$f ?: ''}{$list ?: ''}{$empty ?: ''}{$m ?: ''}{$missing ?: ''}\n")
		pad := r.Intn(5)
		if r.Chance(30) {
			pad = 60 + r.Intn(80) // a callee much longer than the entry file
		}
		for k := 0; k < pad; k++ {
			sb.WriteString(r.Pick([]string{"filler line\n", "{$p ?: 'none'}\n", "\n"}))
		}
		inner := failPrint
		if i < depth {
			inner = r.Pick(c19CallForms(fmt.Sprintf("%s.c%d", c19ChainNS(shared, i+1), i+1))[:6])
			inner = strings.ReplaceAll(inner, "$a", "1")
			inner = strings.ReplaceAll(inner, "{if $t}", "{if true}")
		}
		switch r.Intn(4) {
		case 0:
			sb.WriteString("{if true}\n" + inner + "\n{/if}\n")
		case 1:
			sb.WriteString("{foreach $z in [1, 2]}\n" + inner + "\n{/foreach}\n")
		default:
			sb.WriteString(inner + "\n")
		}
		sb.WriteString("after\n{/template}\n")
		files = append(files, srcFile{fmt.Sprintf("chain%d.soy", i), sb.String()})
	}
	return files
}

// c19Variant: what surrounds the failing command, chosen per case.  Positions are BYTE offsets into the text as it
// was given: a line table built from rune offsets, or from a text with normalised line ends, goes wrong only when
// multi-byte characters / CRLF line ends precede the failing command, and the further down the file the more.
type c19Variant struct {
	nonASCII bool // multi-byte characters in comments, soydoc and template text before (and after) the failing command
	crlf     bool // every file of the bundle has CRLF line ends
	long     int  // that many further lines before the entry template
}

var c19NonASCIILead = []string{"// führender Kommentar – 10 € ✓\n", "\n", "/* Überschrift: «日本語のテキスト»\n   äöüß ĀāĒē 𝔘𝔫𝔦 */\n", "// ça coûte 5 £, naïve façade\n"}
var c19NonASCIIText = []string{"Größe: 10 € ✓", "日本語のテキスト", "naïve façade – «ça»", "Ж𝔘é"}

func (v c19Variant) String() string {
	return fmt.Sprintf("nonascii=%v crlf=%v long=%d", v.nonASCII, v.crlf, v.long)
}

func (v c19Variant) lineEnds(text string) string {
	if v.crlf {
		return strings.ReplaceAll(text, "\n", "\r\n")
	}
	return text
}

// c19EntryFile assembles the entry file from the generated body; returns the text and the line of body line index i
func c19EntryFile(r *hx.Rand, body []string, lead, pre int, v c19Variant) (string, int) {
	var sb strings.Builder
	for k := 0; k < lead; k++ {
		if v.nonASCII {
			sb.WriteString(c19NonASCIILead[k%len(c19NonASCIILead)])
		} else {
			sb.WriteString([]string{"// leading comment\n", "\n", "/* leading\n block comment */\n"}[k%3])
		}
	}
	if v.nonASCII && lead == 0 {
		sb.WriteString(c19NonASCIILead[r.Intn(len(c19NonASCIILead))])
	}
	sb.WriteString("{namespace c19.e}\n\n")
	for k := 0; k < pre; k++ {
		sb.WriteString(fmt.Sprintf("/** a template before the entry template */\n{template .pre%d}\npre\n{$ij.x ?: ''}\n{/template}\n\n", k))
	}
	if v.long > 0 {
		sb.WriteString("/** a long template before the entry template */\n{template .prelong}\n")
		for k := 0; k < v.long; k++ {
			switch {
			case v.nonASCII && k%3 == 0:
				sb.WriteString(c19NonASCIIText[r.Intn(len(c19NonASCIIText))] + "\n")
			case k%7 == 3:
				sb.WriteString("{$ij.x ?: ''}\n")
			case k%5 == 4:
				sb.WriteString("\n")
			default:
				sb.WriteString("a line of filler text\n")
			}
		}
		sb.WriteString("{/template}\n\n")
	}
	if v.nonASCII {
		sb.WriteString(strings.Replace(c19ParamDoc, "/**\n", "/**\n * Die Einstiegsvorlage – 説明 (€)\n", 1))
	} else {
		sb.WriteString(c19ParamDoc)
	}
	sb.WriteString("{template .entry}\n")
	sb.WriteString(c19UseAll + "\n")
	first := 1 + strings.Count(sb.String(), "\n")
	for _, l := range body {
		if v.nonASCII {
			switch l {
			case "some text", "not here", "nor here", "Hello", "none", "many":
				l = c19NonASCIIText[r.Intn(len(c19NonASCIIText))]
			}
		}
		sb.WriteString(l + "\n")
	}
	sb.WriteString("{/template}\n\n/**\n * @param? s\n * @param? u\n */\n{template .ok}\nok{$s ?: ''}{$u ?: ''}\n{/template}\n")
	return v.lineEnds(sb.String()), first
}

func c19RenderCases(e *env, nShapes int) []c19RenderCase {
	var out []c19RenderCase
	for s := 0; s < nShapes; s++ {
		g := &c19RGen{r: e.rng}
		for len(g.slots) == 0 {
			g.lines, g.slots = nil, nil
			g.block(3, 3+e.rng.Intn(4))
		}
		lead, pre := e.rng.Intn(4), e.rng.Intn(3)
		entryName := e.rng.Pick([]string{"entry.soy", "views/entry file.soy", "e.soy"})
		for si, slot := range g.slots {
			for depth := 0; depth <= 3; depth++ {
				if depth > 0 && e.scale == 1 && e.rng.Chance(35) {
					continue // quick tier: thin out the deeper chains
				}
				failPrint := e.rng.Pick(c19FailPrints)
				shared := e.rng.Bool()
				var cmd string
				if depth == 0 {
					cmd = failPrint
					if !slot.inMsg && e.rng.Chance(35) {
						cmd = e.rng.Pick(c19FailOther)
					}
				} else {
					forms := c19CallForms(c19ChainNS(shared, 1) + ".c1")
					cmd = forms[e.rng.Intn(len(forms))]
					for slot.inMsg && strings.Contains(cmd, "{if") {
						cmd = forms[e.rng.Intn(len(forms))] // no {if} inside a {msg}
					}
				}
				// the body with this slot filled and the others neutral
				var body []string
				failIdx := -1
				for li, l := range g.lines {
					if l != c19SlotMark {
						body = append(body, l)
						continue
					}
					if li == slot.line {
						failIdx = len(body)
						body = append(body, strings.Split(cmd, "\n")...)
					} else {
						body = append(body, "{$a}")
					}
				}
				v := c19Variant{nonASCII: e.rng.Chance(45), crlf: e.rng.Chance(30)}
				if e.rng.Chance(25) {
					v.long = 40 + e.rng.Intn(220)
				}
				text, first := c19EntryFile(e.rng, body, lead, pre, v)
				files := []srcFile{{entryName, text}}
				chain := c19ChainFiles(e.rng, depth, failPrint, shared)
				for ci := range chain {
					if v.nonASCII {
						chain[ci].Text = "// Aufgerufene Vorlage – ✓\n" + strings.ReplaceAll(chain[ci].Text, "filler line\n", "Füllzeile – €\n")
					}
					chain[ci].Text = v.lineEnds(chain[ci].Text)
				}
				// the entry file is not always the first file of the bundle
				if e.rng.Bool() {
					files = append(chain, files...)
				} else {
					files = append(files, chain...)
				}
				// files sharing the entry file's namespace, added before or after everything else
				for _, sib := range c19Siblings(e.rng) {
					sib.Text = v.lineEnds(sib.Text)
					if e.rng.Bool() {
						files = append([]srcFile{sib}, files...)
					} else {
						files = append(files, sib)
					}
				}
				out = append(out, c19RenderCase{Kind: "render", Files: files, Entry: "c19.e.entry", Depth: depth, Fail: cmd + " // " + failPrint,
					ExpectFile: entryName, ExpectLine: first + failIdx, Shape: fmt.Sprintf("shape%d/slot%d %s", s, si, v), Runtime: c19IsRuntime(cmd) || (depth > 0 && c19IsRuntime(failPrint))})
			}
		}
	}
	return out
}

// c19RenderReal runs the implementation on one case and evaluates the oracle; it returns what the model part
// needs: the observed file and line and the requests for the model runner (nil: nothing to compare).
func c19RenderReal(e *env, c c19RenderCase, idx int) (rr c19RenderObs) {
	b := soy.NewBundle()
	for _, f := range c.Files {
		b.AddTemplateString(f.Name, f.Text)
	}
	var reg, err = b.Compile()
	cls := fmt.Sprintf("render:depth%d", c.Depth)
	e.res.Count(fmt.Sprint(c.Files), true, cls)
	for _, k := range []string{"nonascii=true", "crlf=true"} {
		if strings.Contains(c.Shape, k) {
			e.res.Histogram["render:variant:"+k]++
		}
	}
	if !strings.HasSuffix(c.Shape, "long=0") {
		e.res.Histogram["render:variant:long file"]++
	}
	if err != nil {
		e.res.Fail(hx.Violation{Kind: "oracle", What: "a generated bundle of the render half is rejected by the compiler (harness defect or compiler defect)", Case: c, Observed: err.Error()}, "")
		return rr
	}
	tofu := soyhtml.NewTofu(reg)
	d := c19Data()
	_, rerr := render(tofu, c.Entry, d, data.Map{})
	if idx%211 == 0 {
		e.res.Sample(map[string]interface{}{"case": c, "error": errStr(rerr)})
	}
	switch {
	case rerr == nil:
		e.res.Fail(hx.Violation{Kind: "oracle", What: "the failing command did not fail (harness defect?)", Case: c}, "")
		return rr
	case isPanicErr(rerr):
		e.res.Histogram["render:panic-escaped (C06's, not judged here)"]++
		e.res.Fail(hx.Violation{Kind: "oracle", What: "a panic escaped Render instead of a positioned error", Case: c, Observed: errStr(rerr)}, "")
		return rr
	}
	if c.Runtime {
		e.res.Histogram[fmt.Sprintf("render:go-runtime-panic:depth%d", c.Depth)]++
	}
	// every render error must BE positioned: the value itself carries file and line (a text that merely looks positioned does not count)
	fp := errortypes.ToErrFilePos(rerr)
	if fp == nil || !errortypes.IsErrFilePos(rerr) {
		what := "the render error carries no file position (errortypes.IsErrFilePos is false: File()/Line()/Col() are not available)"
		if c.Runtime {
			what = "a failure through a Go run-time panic (modulo by zero, failed type assertion, nil dereference in a function, index out of range in a directive) is returned without file position (errortypes.IsErrFilePos is false)"
		}
		e.res.Histogram[fmt.Sprintf("deviation:render:not-positioned:depth%d", c.Depth)]++
		e.res.Fail(hx.Violation{Kind: "oracle", What: what, Case: c, Expected: fmt.Sprintf("an ErrFilePos %s:%d", c.ExpectFile, c.ExpectLine), Observed: firstN(errStr(rerr), 300)}, "")
		return rr
	}
	obsFile, obsLine := fp.File(), fp.Line()
	exp := fmt.Sprintf("%s:%d", c.ExpectFile, c.ExpectLine)
	obs := fmt.Sprintf("%s:%d  (%s)", obsFile, obsLine, firstN(errStr(rerr), 160))
	if obsFile != c.ExpectFile || obsLine != c.ExpectLine {
		e.res.Histogram[fmt.Sprintf("deviation:render:depth%d", c.Depth)]++
		if os.Getenv("VERIF_C19_DEBUG") != "" {
			fmt.Fprintf(os.Stderr, "RDEV depth %d %q expect %s got %s\n", c.Depth, c.Fail, exp, obs)
		}
	}
	if obsFile != c.ExpectFile {
		e.res.Fail(hx.Violation{Kind: "oracle", What: "the render error does not name the entry template's file", Case: c, Expected: exp, Observed: obs}, "")
	} else if obsLine != c.ExpectLine {
		what := "the render error's line is not the line of the failing command"
		if c.Depth > 0 {
			what = "the render error's line is not the line of the {call} in the entry template"
		}
		e.res.Fail(hx.Violation{Kind: "oracle", What: what, Case: c, Expected: exp, Observed: obs}, "")
	}
	rr.file, rr.line, rr.obs = obsFile, obsLine, obs
	if e.m == nil {
		return rr
	}
	ids := newIDTable()
	key := "c19reg" // one slot, overwritten: the model runner keeps every registry it is given
	rr.reqs = []string{
		strings.Join([]string{"load_registry", key, registrySexp(reg, ids)}, " "),
		// the decidable hypothesis of the Coq theorems (Spec.ErrPos.positions_in_sourceb), evaluated by the extracted function
		strings.Join([]string{"positions_ok", key, sx(c.Entry)}, " "),
		strings.Join([]string{"render", key, sx(c.Entry), "#4000", "none", "none", "-", valueSexp(data.Map{}, ids), ";", valueSexp(d, ids)}, " "),
	}
	return rr
}

type c19RenderObs struct {
	file string
	line int
	obs  string
	reqs []string
}

// c19RenderModel compares the model's answers (to rr.reqs) with the implementation's file and line.
func c19RenderModel(e *env, c c19RenderCase, rr c19RenderObs, resp [][]string) {
	if len(rr.reqs) == 0 {
		return
	}
	if len(resp) != 3 {
		e.res.Fail(hx.Violation{Kind: "mismatch", What: "model render failed", Case: c, Observed: fmt.Sprint(resp)}, "")
		return
	}
	obsFile, obsLine, obs := rr.file, rr.line, rr.obs
	if r := resp[0]; len(r) == 0 || r[0] != "#1" {
		e.res.Fail(hx.Violation{Kind: "mismatch", What: "model cannot load the registry", Case: c, Observed: fmt.Sprint(r)}, "")
		return
	}
	if pr := resp[1]; len(pr) < 1 || pr[0] != "#1" {
		e.res.Fail(hx.Violation{Kind: "mismatch", What: "a node position of the entry template lies outside the source recorded for it (hypothesis positions_in_source of the C19 theorems)", Case: c, Observed: fmt.Sprint(pr)}, "")
	}
	r := resp[2]
	if len(r) < 5 {
		e.res.Fail(hx.Violation{Kind: "mismatch", What: "model render failed", Case: c, Observed: fmt.Sprint(r)}, "")
		return
	}
	mcls := strings.Split(r[0], ",")[0]
	e.res.Histogram["render:model-"+mcls]++
	switch mcls {
	case "err":
		mf, ml := hx.UnH(r[1]), int(hx.UnI(r[2]))
		if mf != obsFile || ml != obsLine {
			e.res.Fail(hx.Violation{Kind: "mismatch", What: "file/line of the render error differ between model and implementation", Case: c,
				Expected: fmt.Sprintf("model %s:%d", mf, ml), Observed: obs}, "")
		}
	case "outofmodel":
	case "crash":
		// a function or directive the model does not cover
		e.res.Histogram["render:model-not-modelled"]++
	default:
		e.res.Fail(hx.Violation{Kind: "mismatch", What: "model outcome " + r[0] + " where the implementation returns an error", Case: c, Observed: obs}, "")
	}
}


// c19RunRender: one case, implementation and model (used by replay)
func c19RunRender(e *env, c c19RenderCase, idx int) {
	rr := c19RenderReal(e, c, idx)
	if len(rr.reqs) > 0 {
		c19RenderModel(e, c, rr, c19pool.batchGroups([][]string{rr.reqs})[0])
	}
}

// c19RunRenders: the implementation case by case, the model on chunks of cases dealt out to the pool
func c19RunRenders(e *env, cases []c19RenderCase) {
	const chunk = 400
	for lo := 0; lo < len(cases); lo += chunk {
		hi := lo + chunk
		if hi > len(cases) {
			hi = len(cases)
		}
		obs := make([]c19RenderObs, hi-lo)
		groups := make([][]string, hi-lo)
		for i := lo; i < hi; i++ {
			obs[i-lo] = c19RenderReal(e, cases[i], i)
			groups[i-lo] = obs[i-lo].reqs
		}
		resp := c19pool.batchGroups(groups)
		for i := lo; i < hi; i++ {
			c19RenderModel(e, cases[i], obs[i-lo], resp[i-lo])
		}
	}
}

// duplicate template names across files (ledger I9): whichever file the compiler lets win, an error must point into it
func c19Duplicates(e *env, n int) {
	for i := 0; i < n; i++ {
		pad1, pad2 := e.rng.Intn(4), 5+e.rng.Intn(40)
		mk := func(pad int, fail string) string {
			return "{namespace c19.d}\n" + strings.Repeat("// pad\n", pad) + "/** @param? missing */\n{template .t}\nline\n" + fail + "\n{/template}\n"
		}
		f1 := srcFile{"dup-first.soy", mk(pad1, "{$missing}")}
		f2 := srcFile{"dup-second.soy", mk(pad2, "{$missing}\n"+strings.Repeat("more text\n", e.rng.Intn(30)))}
		files := []srcFile{f1, f2}
		if e.rng.Bool() {
			files = []srcFile{f2, f1}
		}
		c := c19RenderCase{Kind: "render-dup", Files: files, Entry: "c19.d.t", Fail: "{$missing}", Shape: "duplicate template name"}
		e.res.Count(fmt.Sprint(files), true, "render:duplicate-name")
		b := soy.NewBundle()
		for _, f := range files {
			b.AddTemplateString(f.Name, f.Text)
		}
		reg, err := b.Compile()
		if err != nil {
			e.res.Histogram["render:duplicate-name-rejected-by-compiler"]++
			continue
		}
		_, rerr := render(soyhtml.NewTofu(reg), c.Entry, data.Map{}, nil)
		if rerr == nil {
			continue
		}
		if isPanicErr(rerr) {
			e.res.Fail(hx.Violation{Kind: "oracle", What: "duplicate template name: a panic escapes Render while the error position is computed", Case: c, Observed: errStr(rerr)}, "")
			continue
		}
		fp := errortypes.ToErrFilePos(rerr)
		ok := false
		if fp != nil {
			for _, f := range files {
				// the line must be the failing print's line in the file that is named
				if fp.File() == f.Name && fp.Line() == c19LineOf(f.Text, strings.Index(f.Text, "{$missing}")) {
					ok = true
				}
			}
		}
		if !ok {
			obs := errStr(rerr)
			if fp != nil {
				obs = fmt.Sprintf("%s:%d (%s)", fp.File(), fp.Line(), firstN(obs, 120))
			}
			e.res.Fail(hx.Violation{Kind: "oracle", What: "duplicate template name: the reported file and line do not belong together", Case: c,
				Expected: "the line of {$missing} in the file that is named", Observed: obs}, "")
		}
	}
}

// ---------------------------------------------------------------------------

func runC19(e *env) {
	e.res.Rule = "parse half: valid generated bundles (command grammar, commands spread over lines, six file-name shapes, LF/CRLF, with/without final newline) x every line x fault classes {illegal character in a tag, stray } in text, unterminated string/comment/soydoc/tag, unknown command, end of input inside a template, fault inside a quoted attribute expression}; parse.SoyFile (6%: Bundle.Compile) in a worker subprocess. Render half: entry templates nesting every block command x every executed line x call depth 0-3 x failing command; robfig/soy Render vs the oracle and vs Interp.render's file/line. Distinct by source text."
	c19pool = c19NewPool(e)
	defer c19pool.close(e)
	c19Install()
	if e.replay != "" {
		c19Replay(e)
		return
	}
	// the render half first: the list of recorded violations is capped, and a defect that shows in both halves (positions that
	// are not byte offsets into the text as given) is best reported with a rendering that names the wrong line
	t0 := time.Now()
	cases := c19RenderCases(e, 150*e.scale)
	c19RunRenders(e, cases)
	c19Duplicates(e, 6*e.scale)
	t1 := time.Now()
	c19ParseHalf(e, 60*e.scale)
	e.res.Note("timing: render half %.1fs, parse half %.1fs, %d workers", t1.Sub(t0).Seconds(), time.Since(t1).Seconds(), c19Workers())
}

func c19Replay(e *env) {
	bs, err := os.ReadFile(e.replay)
	if err != nil {
		e.res.Note("cannot read replay file: %v", err)
		return
	}
	var rp struct {
		Case json.RawMessage `json:"case"`
	}
	if json.Unmarshal(bs, &rp) != nil {
		e.res.Note("cannot parse replay file")
		return
	}
	var k struct {
		Kind string `json:"kind"`
	}
	json.Unmarshal(rp.Case, &k)
	switch k.Kind {
	case "parse":
		var f c19Fault
		json.Unmarshal(rp.Case, &f)
		files := []srcFile{{f.Name, f.Text}}
		if len(f.Bundle) > 0 {
			files = f.Bundle
		}
		r := c19RunParses(e, []c19ParseCase{{Files: files}})[0]
		e.res.Count(f.Text, true, "parse:replay")
		if what, exp := c19CheckParse(f, r, f.Name); what != "" {
			e.res.Fail(hx.Violation{Kind: "oracle", What: "parse error position (" + f.Class + "/" + f.Sub + "): " + what, Case: f, Expected: exp,
				Observed: fmt.Sprintf("class=%s file=%q line=%d col=%d text=%q", r.Class, r.File, r.Line, r.Col, firstN(r.Text, 200))}, "")
		}
	case "render":
		var c c19RenderCase
		json.Unmarshal(rp.Case, &c)
		c19RunRender(e, c, 0)
	default:
		e.res.Note("replay file has no C19 case that can be re-run (kind %q)", k.Kind)
	}
}
