//go:build c09

package main

// C09 — one compiled bundle can be rendered from many goroutines at once.
//
// This harness is the RUNTIME ORACLE of the property: it is built with -race
// (bin/claims/C09.json: go_build_flags) and observes, over generated bundles,
//   * the race detector's verdict on G goroutines x R renders of the same and
//     of different templates of ONE compiled bundle (shared Tofu, shared data
//     maps, shared $ij map, shared message bundle), while other goroutines
//     generate JavaScript from the same registry and others compile
//     independent bundles;
//   * every goroutine's bytes against the bytes of the same render run alone
//     (on an independently compiled copy, so that a purity defect cannot
//     contaminate the baseline);
//   * a deep structural digest of registry, data, $ij and message bundle
//     before and after.
// The racy part runs in a worker subprocess under
// GORACE="halt_on_error=1 exitcode=66", so that a race report is data: exit
// status 66 + the report on stderr, attributed to the case in flight.
//
// The Coq side (Properties/C09.v) carries the logic only: a render's accesses
// to shared locations are reads, and read-only sharing is race-free and
// sequentially consistent with solo runs under every schedule.  The tie to
// that model made here: for the configurations the model covers, the solo
// bytes equal the model's bytes and the model records no write to a
// caller-owned map (rr_shared_writes = []).

import (
	"bufio"
	"bytes"
	"crypto/sha256"
	"encoding/hex"
	"encoding/json"
	"fmt"
	"io"
	"log"
	"math"
	"os"
	"os/exec"
	"reflect"
	"runtime"
	"sort"
	"strconv"
	"strings"
	"sync"
	"time"

	"github.com/robfig/soy"
	"github.com/robfig/soy/ast"
	"github.com/robfig/soy/data"
	"github.com/robfig/soy/soyhtml"
	"github.com/robfig/soy/soyjs"
	"github.com/robfig/soy/soymsg"
	"github.com/robfig/soy/soymsg/pomsg"
	"github.com/robfig/soy/template"
	"soyverif/internal/hx"
)

func init() {
	props["C09"] = runC09
	workers["c09"] = c09Worker
	workers["c09watch"] = c09WatchWorker
}

// ---------------------------------------------------------------------------
// the replayable description of one case

type c09Job struct {
	Template string `json:"template"`
	Data     string `json:"data"` // value s-expression (valuesexp.go); equal ids = the same Go object
}

type c09Case struct {
	Index      int       `json:"index"`
	Origin     string    `json:"origin"` // "generated" | "fixed"
	Files      []srcFile `json:"files"`
	Jobs       []c09Job  `json:"jobs"`
	IJ         string    `json:"ij"`
	Oblig      []string  `json:"obligatory_directives"`
	CustomFunc bool      `json:"custom_function"` // templates call twice(int)
	PO         string    `json:"po,omitempty"`   // shared message bundle (PO text), "" = none
	G          int       `json:"goroutines"`
	R          int       `json:"renders_per_goroutine"`
	JSWriters  int       `json:"js_goroutines"`
	Compilers  int       `json:"compile_goroutines"`
	Procs      int       `json:"gomaxprocs"`
}

type c09Result struct {
	Renders      int      `json:"renders"`
	JSWrites     int      `json:"js_writes"`
	Compiles     int      `json:"compiles"`
	Solo         []string `json:"solo"`     // per job: "ok:"/"err:" + hex(bytes written)
	Diffs        []string `json:"diffs"`    // differing outputs (first per goroutine)
	Changed      []string `json:"changed"`  // shared structures whose digest changed
	SetupErr     string   `json:"setup_err,omitempty"`
	JSComparable int      `json:"js_comparable"`
}

const c09Custom = "twice"
const c09Bang = "bang"

// installed once per process, before any goroutine is started
func c09InstallGlobals() {
	soyhtml.Funcs[c09Custom] = soyhtml.Func{Apply: func(a []data.Value) data.Value {
		if i, ok := a[0].(data.Int); ok {
			return data.Int(2 * i)
		}
		return data.Int(0)
	}, ValidArgLengths: []int{1}}
	soyjs.Funcs[c09Custom] = soyjs.Func{Name: c09Custom, Apply: func(js soyjs.JSWriter, args []ast.Node) {
		js.Write("(2 * (", args[0], "))")
	}, ValidArgLengths: []int{1}}
	soyhtml.PrintDirectives[c09Bang] = soyhtml.PrintDirective{Apply: func(v data.Value, _ []data.Value) data.Value {
		return data.String(v.String() + "!")
	}, ValidArgLengths: []int{0}}
	soyjs.PrintDirectives[c09Bang] = soyjs.PrintDirective{Name: "bang", CancelAutoescape: false}
}

// ---------------------------------------------------------------------------
// deep structural digest (reflect walk; unexported fields included)

type digester struct {
	h    io.Writer
	seen map[uintptr]bool
}

func deepDigest(vs ...interface{}) string {
	h := sha256.New()
	d := &digester{h: h, seen: map[uintptr]bool{}}
	for _, v := range vs {
		d.walk(reflect.ValueOf(v), 0)
	}
	return hex.EncodeToString(h.Sum(nil)[:12])
}

func (d *digester) w(s string) { io.WriteString(d.h, s); io.WriteString(d.h, "\x00") }

func keyString(k reflect.Value) string {
	switch k.Kind() {
	case reflect.String:
		return "s" + k.String()
	case reflect.Int, reflect.Int8, reflect.Int16, reflect.Int32, reflect.Int64:
		return "i" + strconv.FormatInt(k.Int(), 10)
	case reflect.Uint, reflect.Uint8, reflect.Uint16, reflect.Uint32, reflect.Uint64, reflect.Uintptr:
		return "u" + strconv.FormatUint(k.Uint(), 10)
	}
	return "?" + k.Type().String()
}

func (d *digester) walk(v reflect.Value, depth int) {
	if !v.IsValid() {
		d.w("<invalid>")
		return
	}
	if depth > 400 {
		d.w("<deep>")
		return
	}
	switch v.Kind() {
	case reflect.Ptr:
		if v.IsNil() {
			d.w("nil")
			return
		}
		p := v.Pointer()
		if d.seen[p] {
			d.w("<ref>")
			return
		}
		d.seen[p] = true
		d.w("*")
		d.walk(v.Elem(), depth+1)
	case reflect.Interface:
		if v.IsNil() {
			d.w("nil")
			return
		}
		d.w("I:" + v.Elem().Type().String())
		d.walk(v.Elem(), depth+1)
	case reflect.Struct:
		d.w("S:" + v.Type().String())
		for i := 0; i < v.NumField(); i++ {
			d.w(v.Type().Field(i).Name)
			d.walk(v.Field(i), depth+1)
		}
	case reflect.Slice:
		if v.IsNil() {
			d.w("nilslice")
			return
		}
		d.w("L" + strconv.Itoa(v.Len()))
		if v.Type().Elem().Kind() == reflect.Uint8 {
			d.w(string(v.Bytes()))
			return
		}
		for i := 0; i < v.Len(); i++ {
			d.walk(v.Index(i), depth+1)
		}
	case reflect.Array:
		d.w("A" + strconv.Itoa(v.Len()))
		for i := 0; i < v.Len(); i++ {
			d.walk(v.Index(i), depth+1)
		}
	case reflect.Map:
		if v.IsNil() {
			d.w("nilmap")
			return
		}
		keys := v.MapKeys()
		sort.Slice(keys, func(i, j int) bool { return keyString(keys[i]) < keyString(keys[j]) })
		d.w("M" + strconv.Itoa(len(keys)))
		for _, k := range keys {
			d.w(keyString(k))
			d.walk(v.MapIndex(k), depth+1)
		}
	case reflect.String:
		d.w("s" + v.String())
	case reflect.Bool:
		d.w("b" + strconv.FormatBool(v.Bool()))
	case reflect.Int, reflect.Int8, reflect.Int16, reflect.Int32, reflect.Int64:
		d.w("i" + strconv.FormatInt(v.Int(), 10))
	case reflect.Uint, reflect.Uint8, reflect.Uint16, reflect.Uint32, reflect.Uint64, reflect.Uintptr:
		d.w("u" + strconv.FormatUint(v.Uint(), 10))
	case reflect.Float32, reflect.Float64:
		d.w("f" + strconv.FormatUint(math.Float64bits(v.Float()), 16))
	case reflect.Func, reflect.Chan, reflect.UnsafePointer:
		if v.IsNil() {
			d.w("nilfn")
		} else {
			d.w("fn")
		}
	default:
		d.w("?" + v.Kind().String())
	}
}

// ---------------------------------------------------------------------------
// message bundle (PO) for a compiled registry

func walkAst(n ast.Node, f func(ast.Node)) {
	if n == nil {
		return
	}
	if rv := reflect.ValueOf(n); rv.Kind() == reflect.Ptr && rv.IsNil() {
		return
	}
	f(n)
	if p, ok := n.(ast.ParentNode); ok {
		for _, c := range p.Children() {
			walkAst(c, f)
		}
	}
}

func poQuote(s string) string {
	var b strings.Builder
	b.WriteByte('"')
	for i := 0; i < len(s); i++ {
		switch c := s[i]; c {
		case '"':
			b.WriteString(`\"`)
		case '\\':
			b.WriteString(`\\`)
		case '\n':
			b.WriteString(`\n`)
		case '\t':
			b.WriteString(`\t`)
		case '\r':
			b.WriteString(`\r`)
		default:
			b.WriteByte(c)
		}
	}
	b.WriteByte('"')
	return b.String()
}

// poFor builds a "translation" of every PO-representable message of the
// registry: raw text prefixed by Z, placeholders kept.  n = number of entries.
func poFor(reg *template.Registry) (po string, n int) {
	var b strings.Builder
	b.WriteString("msgid \"\"\nmsgstr \"\"\n\"Plural-Forms: nplurals=2; plural=(n != 1);\\n\"\n\n")
	seen := map[uint64]bool{}
	for _, sf := range reg.SoyFiles {
		walkAst(sf, func(x ast.Node) {
			m, ok := x.(*ast.MsgNode)
			if !ok || seen[m.ID] || m.ID == 0 || pomsg.Validate(m) != nil {
				return
			}
			ch := m.Body.Children()
			if len(ch) == 0 {
				return
			}
			id := pomsg.Msgid(m)
			if id == "" {
				return
			}
			seen[m.ID] = true
			if pl, ok := ch[0].(*ast.MsgPluralNode); ok {
				fmt.Fprintf(&b, "#: id=%d var=%s\nmsgid %s\nmsgid_plural %s\nmsgstr[0] %s\nmsgstr[1] %s\n\n", m.ID, pl.VarName,
					poQuote(id), poQuote(pomsg.MsgidPlural(m)), poQuote("Z1:"+id), poQuote("Zn:"+pomsg.MsgidPlural(m)))
			} else {
				fmt.Fprintf(&b, "#: id=%d\nmsgid %s\nmsgstr %s\n\n", m.ID, poQuote(id), poQuote("Z:"+id))
			}
			n++
		})
	}
	return b.String(), n
}

type strOpener string

func (s strOpener) Open(locale string) (io.ReadCloser, error) {
	return io.NopCloser(strings.NewReader(string(s))), nil
}

func loadPO(po string) (soymsg.Bundle, error) {
	if po == "" {
		return nil, nil
	}
	prov, err := pomsg.Load(strOpener(po), []string{"zz"})
	if err != nil {
		return nil, err
	}
	b := prov.Bundle("zz")
	if b == nil {
		return nil, fmt.Errorf("no bundle")
	}
	return b, nil
}

// ---------------------------------------------------------------------------
// case generation (main process; deterministic in e.rng)

var c09FixedFiles = []srcFile{
	{"fix1.soy", `{namespace fix.one}

/**
 * @param name
 * @param n
 * @param items
 * @param rec
 */
{template .main}
<h1>{msg desc="greet"}Hello {$name}!{/msg}</h1>
{msg desc="eggs"}{plural $n}{case 1}one egg{default}{$n} eggs{/plural}{/msg}
{foreach $i in $items}{if isFirst($i)}[{/if}{$i}{if not isLast($i)},{else}]{/if}{ifempty}none{/foreach}
{call .row data="all"}{param label}<b>{$name}</b>{/param}{/call}
{call fix.two.cell data="$rec" /}{call fix.two.cell data="$rec"}{param b: $name /}{param c: $items /}{/call}
{let $k}{foreach $x in keys($rec)}{$x};{/foreach}{/let}{$k}
{$ij.s}{$ij.n + 1}{$ij.rec.b}
{switch $n}{case 0}zero{case 1, 2}few{default}many{/switch}
{let $m: augmentMap($rec, ['z': $n]) /}{$m.z}{$m.a}
{let $rnd: randomInt(10) /}{if $rnd >= 0}ok{/if}
{css foo}{log}logged {$name}{/log}
{for $q in range(3)}{$q}{call .row}{param name: $name + $q /}{param label: 'L' /}{param n: $q /}{/call}{/for}
{/template}

/**
 * @param name
 * @param label
 * @param? n
 */
{template .row}
<tr>{$label|noAutoescape}{$name|truncate:3}{$n ?: -1}{$name|escapeUri}{$name|insertWordBreaks:2}</tr>
{/template}
`},
	{"fix2.soy", `{namespace fix.two autoescape="false"}

/**
 * @param a
 * @param b
 * @param c
 */
{template .cell}
<td>{$a}{$b|escapeHtml}{foreach $x in $c}{$x}{/foreach}{$b|escapeJsString}{$b|json}{$b|changeNewlineToBr}</td>
{/template}
`},
}

func c09IJ(r *hx.Rand) data.Map {
	return data.Map{"s": data.String(strPool[r.Intn(len(strPool))]), "n": data.Int(r.Intn(50)),
		"rec": data.Map{"a": data.Int(r.Intn(9)), "b": data.String("i<j>"), "c": data.List{data.Int(1), data.Int(2)}}}
}

type c09Built struct {
	c    *c09Case
	reg  *template.Registry
	data []data.Map
	ij   data.Map
	ids  *idTable
}

// buildCase fills in jobs/ij/po of a case from its files; returns nil when the bundle does not compile.
func c09Finish(e *env, c *c09Case, names []string, sets [][]data.Map, ij data.Map, withPO bool) *c09Built {
	b := soy.NewBundle()
	for _, f := range c.Files {
		b.AddTemplateString(f.Name, f.Text)
	}
	reg, err := b.Compile()
	if err != nil {
		e.res.Histogram["compile-errors"]++
		e.res.Fail(hx.Violation{Kind: "mismatch", What: "a generated valid bundle is rejected by the compiler (generator problem, not C09)", Case: c.Files, Observed: err.Error()}, "")
		return nil
	}
	ids := newIDTable()
	bt := &c09Built{c: c, reg: reg, ij: ij, ids: ids}
	c.IJ = valueSexp(ij, ids)
	for i, name := range names {
		for _, d := range sets[i] {
			c.Jobs = append(c.Jobs, c09Job{Template: name, Data: valueSexp(d, ids)})
			bt.data = append(bt.data, d)
		}
	}
	if withPO {
		po, n := poFor(reg)
		if n > 0 {
			c.PO = po
			e.res.Histogram["cases-with-message-bundle"]++
			e.res.Histogram["translated-messages"] += n
		}
	}
	return bt
}

func c09Layout(e *env, c *c09Case, idx int) {
	procs := []int{4, 2, 8, 1, 16}
	c.Procs = procs[idx%len(procs)]
	if c.Procs > runtime.NumCPU() && c.Procs > 4 {
		c.Procs = runtime.NumCPU()
	}
	if e.tier == "thorough" {
		c.G, c.R, c.JSWriters, c.Compilers = 16, 2000, 2, 2
	} else {
		c.G, c.R, c.JSWriters, c.Compilers = 4, 50, 2, 2
	}
}

func c09Config(c *c09Case, k int) (withPO bool, o progOpts) {
	o = progOpts{depth: 3, directives: true, ij: true}
	switch k % 4 {
	case 0: // plain
	case 1: // a custom obligatory directive and a custom function
		c.Oblig = []string{c09Bang}
		c.CustomFunc = true
		o.customFunc = c09Custom
	case 2: // shared message bundle
		withPO = true
	case 3: // a builtin directive made obligatory, message bundle, custom function
		c.Oblig = []string{"escapeHtml"}
		c.CustomFunc = true
		o.customFunc = c09Custom
		withPO = true
	}
	return
}

func c09GenCases(e *env) []*c09Built {
	var out []*c09Built
	nGen := 400 * e.scale
	if e.tier == "thorough" {
		nGen = 400
		if e.scale > 10 {
			nGen = 4 * e.scale
		}
	}
	idx := 0
	// the fixed bundle under each of the four configurations
	for k := 0; k < 4; k++ {
		c := &c09Case{Index: idx, Origin: "fixed", Files: c09FixedFiles}
		withPO, _ := c09Config(c, k)
		c09Layout(e, c, idx)
		rec := data.Map{"a": data.Int(1), "b": data.String("x&y\n'q'"), "c": data.List{data.Int(1), data.Int(2)}}
		d1 := data.Map{"name": data.String("<World>"), "n": data.Int(1), "items": data.List{data.Int(1), data.Int(2), data.Int(3)}, "rec": rec}
		d2 := data.Map{"name": data.String("a b c d"), "n": data.Int(5), "items": data.List{}, "rec": rec}
		d3 := data.Map{"name": data.String("row"), "label": data.String("<i>l</i>")}
		bt := c09Finish(e, c, []string{"fix.one.main", "fix.one.row", "fix.two.cell"}, [][]data.Map{{d1, d2}, {d3}, {rec}}, c09IJ(e.rng), withPO)
		if bt != nil {
			out = append(out, bt)
			idx++
		}
	}
	for i := 0; i < nGen; i++ {
		c := &c09Case{Index: idx, Origin: "generated"}
		withPO, o := c09Config(c, i)
		var tmpls []*gtemplate
		o.onTemplates = func(ts []*gtemplate) { tmpls = ts }
		files, _, entrySets, feats := genBundle(e.rng, o)
		c.Files = files
		var names []string
		var sets [][]data.Map
		for ti, t := range tmpls {
			names = append(names, t.full())
			if ti == 0 {
				sets = append(sets, entrySets)
			} else if t.rec {
				// the countdown template recurses n times: keep n small (deep recursion is C06's subject)
				sets = append(sets, []data.Map{{"n": data.Int(e.rng.Intn(5))}})
			} else {
				sets = append(sets, []data.Map{genData(e.rng, t.params, o)})
			}
		}
		c09Layout(e, c, idx)
		bt := c09Finish(e, c, names, sets, c09IJ(e.rng), withPO)
		if bt == nil {
			continue
		}
		for f := range feats {
			e.res.Histogram["feat:"+f]++
		}
		out = append(out, bt)
		idx++
	}
	return out
}

// ---------------------------------------------------------------------------
// main process

func runC09(e *env) {
	e.res.Rule = "one case = one compiled bundle (a fixed feature bundle and bundles from the command grammar: 1-5 templates over 1-3 files, all call forms, messages, $ij, print directives) under one of four configurations (plain / custom obligatory directive + custom function / shared PO message bundle / builtin obligatory directive + bundle + custom function), run in a -race worker: G goroutines x R renders of every (template, data) job over ONE Tofu, the same data.Map objects, the same $ij and message bundle, with concurrent soyjs.Write on the same registry and concurrent compilation of independent bundles. Oracle: no race report, every goroutine's bytes = the bytes of the same render alone, digests of registry/data/ij/bundle unchanged. Non-trivial = the case rendered at least two different jobs concurrently; distinct by sources + data + configuration."
	c09InstallGlobals()
	if e.replay != "" {
		c09Replay(e)
		return
	}
	cases := c09GenCases(e)
	var cs []*c09Case
	for _, b := range cases {
		cs = append(cs, b.c)
	}
	results := c09RunWorkers(e, cs)
	for i, bt := range cases {
		c09Judge(e, bt, results[i])
	}
	c09WatchProbe(e)
	e.res.Note("runtime oracle: worker subprocesses of this -race binary with GORACE=halt_on_error=1 exitcode=66; GOMAXPROCS per case from {1,2,4,8,16} capped at %d CPUs; Go %s", runtime.NumCPU(), runtime.Version())
}

type c09Outcome struct {
	res     *c09Result
	race    string // race report (exit status 66)
	crashed string // other abnormal end of the worker while the case was in flight
}

// c09RunWorkers runs the cases in worker subprocesses; a worker that dies in
// case i is restarted at i+1.
func c09RunWorkers(e *env, cs []*c09Case) []c09Outcome {
	out := make([]c09Outcome, len(cs))
	dir, err := os.MkdirTemp(os.Getenv("VERIF_BUILD"), "c09-")
	if err != nil {
		dir, _ = os.MkdirTemp("", "c09-")
	}
	defer os.RemoveAll(dir)
	jobfile := dir + "/cases.json"
	bs, _ := json.Marshal(cs)
	os.WriteFile(jobfile, bs, 0o644)
	start := 0
	for start < len(cs) {
		perCase := 60 * time.Second
		if e.tier == "thorough" {
			perCase = 600 * time.Second
		}
		cmd := exec.Command(e.self, "worker", "c09", jobfile, strconv.Itoa(start))
		cmd.Env = append(os.Environ(), "GORACE=halt_on_error=1 exitcode=66")
		var stderr bytes.Buffer
		cmd.Stderr = &stderr
		stdout, _ := cmd.StdoutPipe()
		if err := cmd.Start(); err != nil {
			e.res.Note("cannot start worker: %v", err)
			return out
		}
		inflight, ended := -1, false
		timer := time.AfterFunc(perCase, func() { cmd.Process.Kill() })
		timedOut := false
		sc := bufio.NewScanner(stdout)
		sc.Buffer(make([]byte, 1<<20), 1<<28)
		for sc.Scan() {
			line := sc.Text()
			switch {
			case strings.HasPrefix(line, "S "):
				inflight, _ = strconv.Atoi(line[2:])
				if !timer.Reset(perCase) {
					timedOut = true
				}
			case strings.HasPrefix(line, "D "):
				parts := strings.SplitN(line, " ", 3)
				i, _ := strconv.Atoi(parts[1])
				var r c09Result
				if len(parts) == 3 && json.Unmarshal([]byte(parts[2]), &r) == nil && i >= 0 && i < len(out) {
					out[i].res = &r
				}
				inflight = -1
			case line == "END":
				ended = true
			}
		}
		werr := cmd.Wait()
		if !timer.Stop() {
			timedOut = true
		}
		if ended {
			break
		}
		code := -1
		if ee, ok := werr.(*exec.ExitError); ok {
			code = ee.ExitCode()
		}
		if inflight < 0 {
			e.res.Note("worker ended abnormally between cases (exit %d): %s", code, tail(stderr.String(), 600))
			e.res.Fail(hx.Violation{Kind: "mismatch", What: "C09 worker ended abnormally between cases", Case: start, Observed: tail(stderr.String(), 2000)}, "")
			break
		}
		switch {
		case code == 66 || strings.Contains(stderr.String(), "WARNING: DATA RACE"):
			out[inflight].race = raceReport(stderr.String())
		case timedOut:
			out[inflight].crashed = "no result within " + perCase.String() + " (killed)"
		default:
			out[inflight].crashed = fmt.Sprintf("worker exit status %d: %s", code, clip(stderr.String())+tail(stderr.String(), 1500))
		}
		start = inflight + 1
	}
	return out
}

func tail(s string, n int) string {
	if len(s) > n {
		return "..." + s[len(s)-n:]
	}
	return s
}

// raceReport keeps the first report (both stacks) of the detector's output.
func raceReport(stderr string) string {
	i := strings.Index(stderr, "WARNING: DATA RACE")
	if i < 0 {
		return tail(stderr, 4000)
	}
	s := stderr[i:]
	if j := strings.Index(s[18:], "=================="); j >= 0 {
		s = s[:18+j]
	}
	if len(s) > 6000 {
		s = s[:6000] + "\n..."
	}
	return s
}

// raceSummary: "Write at f (file:line) / Previous read at g (file:line)" from the two stacks' top frames.
func raceSummary(rep string) string {
	lines := strings.Split(rep, "\n")
	var parts []string
	for i, l := range lines {
		t := strings.TrimSpace(l)
		if (strings.HasPrefix(t, "Write at") || strings.HasPrefix(t, "Read at") || strings.HasPrefix(t, "Previous write at") || strings.HasPrefix(t, "Previous read at")) && i+2 < len(lines) {
			kind := strings.SplitN(t, " at ", 2)[0]
			// first frame inside robfig/soy, else the top frame
			fn, loc := strings.TrimSpace(lines[i+1]), strings.TrimSpace(lines[i+2])
			for j := i + 1; j+1 < len(lines) && strings.TrimSpace(lines[j]) != ""; j += 2 {
				if strings.Contains(lines[j], "github.com/robfig/soy") {
					fn, loc = strings.TrimSpace(lines[j]), strings.TrimSpace(lines[j+1])
					break
				}
			}
			if k := strings.Index(loc, " +0x"); k >= 0 {
				loc = loc[:k]
			}
			if k := strings.LastIndex(loc, "/soy/"); k >= 0 && strings.Contains(loc, "robfig") == false {
				loc = loc[k+5:]
			}
			parts = append(parts, kind+" in "+fn+" ("+loc+")")
		}
	}
	return strings.Join(parts, " / ")
}

func c09Judge(e *env, bt *c09Built, o c09Outcome) {
	c := bt.c
	key := fmt.Sprint(c.Files, c.Jobs, c.IJ, c.Oblig, c.PO != "")
	cfg := "plain"
	switch {
	case len(c.Oblig) > 0 && c.PO != "":
		cfg = "obligatory+bundle+func"
	case len(c.Oblig) > 0:
		cfg = "obligatory+func"
	case c.PO != "":
		cfg = "bundle"
	}
	e.res.Count(key, len(c.Jobs) >= 2, "config:"+cfg)
	e.res.Histogram[fmt.Sprintf("gomaxprocs:%d", c.Procs)]++
	if o.race != "" {
		e.res.Histogram["race-reports"]++
		what := "data race reported by the race detector while one compiled bundle is rendered concurrently: " + raceSummary(o.race)
		kind := "oracle"
		if !strings.Contains(o.race, "github.com/robfig/soy") {
			kind, what = "mismatch", "race report without a robfig/soy frame (harness or library): "+raceSummary(o.race)
		}
		e.res.Fail(hx.Violation{Kind: kind, What: what, Case: c, Expected: "no race report", Observed: o.race}, "")
		return
	}
	if o.crashed != "" {
		e.res.Histogram["worker-crashes"]++
		e.res.Fail(hx.Violation{Kind: "oracle", What: "the concurrent run did not finish (crash or no progress) although every render finishes alone", Case: c, Observed: o.crashed}, "")
		return
	}
	r := o.res
	if r == nil {
		e.res.Fail(hx.Violation{Kind: "mismatch", What: "no result for the case", Case: c}, "")
		return
	}
	if r.SetupErr != "" {
		e.res.Fail(hx.Violation{Kind: "mismatch", What: "worker could not set the case up: " + r.SetupErr, Case: c}, "")
		return
	}
	e.res.Histogram["concurrent-renders"] += r.Renders
	e.res.Histogram["concurrent-js-writes"] += r.JSWrites
	e.res.Histogram["concurrent-compiles"] += r.Compiles
	e.res.Histogram["js-files-compared"] += r.JSComparable
	nerr := 0
	for _, s := range r.Solo {
		if strings.HasPrefix(s, "err:") {
			nerr++
		}
	}
	e.res.Histogram["jobs"] += len(r.Solo)
	e.res.Histogram["jobs-ending-in-error"] += nerr
	if len(r.Diffs) > 0 {
		e.res.Fail(hx.Violation{Kind: "oracle", What: "a concurrent render (or JS generation / compilation) produced other bytes than the same operation alone", Case: c, Observed: r.Diffs}, "")
	}
	if len(r.Changed) > 0 {
		e.res.Fail(hx.Violation{Kind: "oracle", What: "a structure shared between the goroutines was modified by rendering: " + strings.Join(r.Changed, ", "), Case: c, Expected: "digest unchanged", Observed: r.Changed}, "")
	}
	if c.Index%9 == 0 {
		e.res.Sample(map[string]interface{}{"files": c.Files, "jobs": len(c.Jobs), "config": cfg, "goroutines": c.G, "renders_each": c.R, "gomaxprocs": c.Procs,
			"solo_first": firstN(r.Solo, 1), "renders": r.Renders, "js_writes": r.JSWrites, "compiles": r.Compiles})
	}
	c09ModelTie(e, bt, r)
}

func firstN(l []string, n int) []string {
	if len(l) > n {
		return l[:n]
	}
	return l
}

// c09ModelTie: where the Interp model covers the configuration (no message
// bundle, no user function), the solo bytes equal the model's and the model
// records no write to a caller-owned map.
func c09ModelTie(e *env, bt *c09Built, r *c09Result) {
	c := bt.c
	if e.m == nil || c.PO != "" || c.CustomFunc || len(r.Solo) != len(c.Jobs) {
		return
	}
	for _, f := range c.Files {
		if strings.Contains(f.Text, "{msg") || strings.Contains(f.Text, "randomInt") {
			return // messages are rendered by the model only without a bundle; keep the tie to the plain core
		}
	}
	key := fmt.Sprintf("c09reg%d", c.Index)
	if rr := e.m.Call("load_registry", key, registrySexp(bt.reg, bt.ids)); len(rr) == 0 || rr[0] != "#1" {
		e.res.Histogram["model-load-failed"]++
		return
	}
	oblig := "-"
	if len(c.Oblig) > 0 {
		var hs []string
		for _, o := range c.Oblig {
			hs = append(hs, hex.EncodeToString([]byte(o)))
		}
		oblig = strings.Join(hs, ",")
	}
	for j, job := range c.Jobs {
		mr := e.m.Call("render", key, sx(job.Template), "#4000", "none", "none", oblig, c.IJ, ";", job.Data)
		if len(mr) < 5 {
			e.res.Histogram["model-render-failed"]++
			continue
		}
		cls := strings.Split(mr[0], ",")[0]
		var mo strings.Builder
		for _, f := range mr[5:] {
			mo.WriteString(hx.UnH(f))
		}
		e.res.Histogram["model-ties"]++
		solo := r.Solo[j]
		switch cls {
		case "ok", "err":
			want := cls + ":" + hex.EncodeToString([]byte(mo.String()))
			if want != solo {
				e.res.Fail(hx.Violation{Kind: "mismatch", What: "solo render differs from the Interp model", Case: map[string]interface{}{"files": c.Files, "job": job, "ij": c.IJ, "oblig": c.Oblig}, Expected: want, Observed: solo}, "")
			}
			if mr[4] != "#0" {
				e.res.Fail(hx.Violation{Kind: "mismatch", What: "the Interp model records a write to a caller-owned map (rr_shared_writes <> [])", Case: map[string]interface{}{"files": c.Files, "job": job}, Observed: mr[4]}, "")
			}
		default:
			e.res.Histogram["model-"+cls]++
			if cls == "crash" && len(mr[0]) > 6 {
				e.res.Histogram["model-crash:"+hx.UnH(strings.TrimPrefix(mr[0], "crash,"))]++
			}
		}
	}
}

func c09Replay(e *env) {
	bs, err := os.ReadFile(e.replay)
	if err != nil {
		e.res.Note("cannot read replay: %v", err)
		return
	}
	var rp struct {
		Case c09Case `json:"case"`
	}
	if err := json.Unmarshal(bs, &rp); err != nil || len(rp.Case.Files) == 0 {
		e.res.Note("replay file has no C09 case: %v", err)
		return
	}
	c := rp.Case
	c.Index = 0
	// a race needs the schedule to cooperate: repeat the case a few times
	for rep := 0; rep < 5; rep++ {
		out := c09RunWorkers(e, []*c09Case{&c})
		bt := &c09Built{c: &c}
		saved := e.m
		e.m = nil
		c09Judge(e, bt, out[0])
		e.m = saved
		if len(e.res.Violations) > 0 {
			return
		}
	}
}

// ---------------------------------------------------------------------------
// worker process (the racy part)

func c09Worker(args []string) {
	if len(args) < 2 {
		return
	}
	bs, err := os.ReadFile(args[0])
	if err != nil {
		fmt.Println("END")
		return
	}
	var cs []*c09Case
	if err := json.Unmarshal(bs, &cs); err != nil {
		fmt.Println("END")
		return
	}
	start, _ := strconv.Atoi(args[1])
	c09InstallGlobals()
	soyhtml.Logger = log.New(io.Discard, "", 0) // {log} goes through one shared *log.Logger
	w := bufio.NewWriter(os.Stdout)
	for i := start; i < len(cs); i++ {
		fmt.Fprintf(w, "S %d\n", i)
		w.Flush()
		r := c09RunCase(cs[i])
		js, _ := json.Marshal(r)
		fmt.Fprintf(w, "D %d %s\n", i, js)
		w.Flush()
	}
	fmt.Fprintln(w, "END")
	w.Flush()
}

func c09Compile(files []srcFile) (*template.Registry, error) {
	b := soy.NewBundle()
	for _, f := range files {
		b.AddTemplateString(f.Name, f.Text)
	}
	return b.Compile()
}

// one render, alone or not: "ok:"/"err:" + hex of the bytes that reached the writer
func c09Render(tofu *soyhtml.Tofu, name string, d data.Map, ij data.Map, msgs soymsg.Bundle, limit int) (res string) {
	w := &c09Writer{limit: limit}
	defer func() {
		if p := recover(); p != nil {
			res = "panic:" + hex.EncodeToString(w.buf.Bytes())
		}
	}()
	rd := tofu.NewRenderer(name).Inject(ij)
	if msgs != nil {
		rd = rd.WithMessages(msgs)
	}
	if err := rd.Execute(w, d); err != nil {
		return "err:" + hex.EncodeToString(w.buf.Bytes())
	}
	return "ok:" + hex.EncodeToString(w.buf.Bytes())
}

func c09Execute(rd *soyhtml.Renderer, d data.Map, limit int) (res string) {
	w := &c09Writer{limit: limit}
	defer func() {
		if p := recover(); p != nil {
			res = "panic:" + hex.EncodeToString(w.buf.Bytes())
		}
	}()
	if err := rd.Execute(w, d); err != nil {
		return "err:" + hex.EncodeToString(w.buf.Bytes())
	}
	return "ok:" + hex.EncodeToString(w.buf.Bytes())
}

// c09Writer is the caller's writer of one render (private to it); with
// limit >= 0 it accepts that many bytes and then fails, which sends the render
// down its error path (errRecover reads the registry's source and file maps).
type c09Writer struct {
	buf   bytes.Buffer
	limit int
}

func (w *c09Writer) Write(p []byte) (int, error) {
	if w.limit < 0 {
		return w.buf.Write(p)
	}
	if len(p) <= w.limit {
		w.limit -= len(p)
		return w.buf.Write(p)
	}
	n := w.limit
	w.buf.Write(p[:n])
	w.limit = 0
	return n, fmt.Errorf("writer full")
}

// soloLimit: where the failing writer of job j gives up (half of the solo output)
func soloLimit(solo string) int {
	if i := strings.IndexByte(solo, ':'); i >= 0 {
		return (len(solo) - i - 1) / 4
	}
	return 0
}

// c09ES6 is ONE formatter value shared by every goroutine that generates ES6 modules.
var c09ES6 = &soyjs.ES6Formatter{}

// JavaScript of one file; the lines are sorted, so that the order of the
// import block (a Go map iteration: C13's subject, not C09's) cannot differ.
func c09JS(f *ast.SoyFileNode, msgs soymsg.Bundle, es6 bool) (res string) {
	var buf bytes.Buffer
	defer func() {
		if p := recover(); p != nil {
			res = "panic"
		}
	}()
	opts := soyjs.Options{Messages: msgs}
	if es6 {
		opts.Formatter = c09ES6
	}
	if err := soyjs.Write(&buf, f, opts); err != nil {
		return "err"
	}
	lines := strings.Split(buf.String(), "\n")
	sort.Strings(lines)
	return "ok:" + strings.Join(lines, "\n")
}

func c09RunCase(c *c09Case) *c09Result {
	r := &c09Result{}
	runtime.GOMAXPROCS(c.Procs)
	soyhtml.ObligatoryPrintDirectiveNames = append([]string{}, c.Oblig...)
	defer func() { soyhtml.ObligatoryPrintDirectiveNames = []string{} }()

	// shared objects
	objs := map[int]data.Value{}
	ijv, err := sexpToValue(c.IJ, objs)
	if err != nil {
		r.SetupErr = "ij: " + err.Error()
		return r
	}
	ij, _ := ijv.(data.Map)
	datas := make([]data.Map, len(c.Jobs))
	for j, job := range c.Jobs {
		v, err := sexpToValue(job.Data, objs)
		if err != nil {
			r.SetupErr = "data: " + err.Error()
			return r
		}
		datas[j], _ = v.(data.Map)
	}
	msgs, err := loadPO(c.PO)
	if err != nil {
		r.SetupErr = "po: " + err.Error()
		return r
	}
	shared, err := c09Compile(c.Files)
	if err != nil {
		r.SetupErr = "compile: " + err.Error()
		return r
	}
	tofu := soyhtml.NewTofu(shared)

	// solo runs, on an independently compiled copy and copies of nothing else:
	// data, ij and bundle are only read (the digests below check exactly that)
	alone, err := c09Compile(c.Files)
	if err != nil {
		r.SetupErr = "compile: " + err.Error()
		return r
	}
	solo := make([]string, len(c.Jobs))
	for j, job := range c.Jobs {
		// every solo render gets a registry nobody has rendered from
		fresh, _ := c09Compile(c.Files)
		solo[j] = c09Render(soyhtml.NewTofu(fresh), job.Template, datas[j], ij, msgs, -1)
	}
	r.Solo = solo
	// the same jobs alone with a writer that fails half way
	soloF := make([]string, len(c.Jobs))
	for j, job := range c.Jobs {
		fresh, _ := c09Compile(c.Files)
		soloF[j] = c09Render(soyhtml.NewTofu(fresh), job.Template, datas[j], ij, msgs, soloLimit(solo[j]))
	}
	jsSolo := make([][2]string, len(alone.SoyFiles))
	for k, f := range alone.SoyFiles {
		for v, es6 := range []bool{false, true} {
			a, b := c09JS(f, msgs, es6), c09JS(f, msgs, es6)
			if a == b {
				jsSolo[k][v] = a
				r.JSComparable++
			}
		}
	}

	// an independent bundle with the SAME template names and other bodies, compiled
	// concurrently by every second compile goroutine: cross-talk between
	// compilations keyed by name would show in its bytes
	variant := make([]srcFile, len(c.Files))
	for k, f := range c.Files {
		variant[k] = srcFile{f.Name, strings.Replace(f.Text, "\n{/template}", "{sp}VARIANT\n{/template}", -1)}
	}
	soloV := make([]string, len(c.Jobs))
	if vreg, err := c09Compile(variant); err == nil {
		for j, job := range c.Jobs {
			soloV[j] = c09Render(soyhtml.NewTofu(vreg), job.Template, datas[j], ij, msgs, -1)
		}
	} else {
		r.SetupErr = "variant bundle: " + err.Error()
		return r
	}
	// one Renderer value per job, built once and shared by some goroutines (Execute has a value receiver)
	rds := make([]*soyhtml.Renderer, len(c.Jobs))
	for j, job := range c.Jobs {
		rds[j] = tofu.NewRenderer(job.Template).Inject(ij)
		if msgs != nil {
			rds[j] = rds[j].WithMessages(msgs)
		}
	}

	before := []string{deepDigest(shared), deepDigest(datas), deepDigest(ij), deepDigest(msgs)}

	// the concurrent phase
	var wg sync.WaitGroup
	startCh := make(chan struct{})
	diffs := make([][]string, c.G+c.JSWriters+c.Compilers)
	counts := make([]int, c.G+c.JSWriters+c.Compilers)
	nj := len(c.Jobs)
	for g := 0; g < c.G; g++ {
		wg.Add(1)
		go func(g int) {
			defer wg.Done()
			<-startCh
			for k := 0; k < c.R; k++ {
				// even goroutines walk the jobs in the same order (same template at the
				// same time), odd ones start elsewhere (different templates at the same time)
				j := k % nj
				if g%2 == 1 {
					j = (k + g) % nj
				}
				want, limit := solo[j], -1
				if g%4 == 3 && k%2 == 1 { // some renders meet a failing writer
					want, limit = soloF[j], soloLimit(solo[j])
				}
				var got string
				if g%4 == 1 {
					got = c09Execute(rds[j], datas[j], limit) // the shared Renderer value
				} else {
					got = c09Render(tofu, c.Jobs[j].Template, datas[j], ij, msgs, limit)
				}
				counts[g]++
				if got != want && len(diffs[g]) == 0 {
					diffs[g] = append(diffs[g], fmt.Sprintf("goroutine %d render %d of %s (writer limit %d): alone %s, concurrently %s", g, k, c.Jobs[j].Template, limit, clip(want), clip(got)))
				}
			}
		}(g)
	}
	for x := 0; x < c.JSWriters; x++ {
		wg.Add(1)
		go func(slot int) {
			defer wg.Done()
			<-startCh
			n := c.R/8 + 1
			for k := 0; k < n; k++ {
				for fi, f := range shared.SoyFiles {
					v := (k + slot) % 2 // ES5 and ES6 (one shared formatter value) in turn
					got := c09JS(f, msgs, v == 1)
					counts[slot]++
					if jsSolo[fi][v] != "" && got != jsSolo[fi][v] && len(diffs[slot]) == 0 {
						diffs[slot] = append(diffs[slot], fmt.Sprintf("soyjs.Write of %s: differs from the sequential generation", f.Name))
					}
				}
			}
		}(c.G + x)
	}
	for x := 0; x < c.Compilers; x++ {
		wg.Add(1)
		go func(slot int) {
			defer wg.Done()
			<-startCh
			n := c.R/16 + 1
			for k := 0; k < n; k++ {
				files, want := c.Files, solo
				if (slot+k)%2 == 1 {
					files, want = variant, soloV
				}
				reg, err := c09Compile(files)
				counts[slot]++
				if err != nil {
					if len(diffs[slot]) == 0 {
						diffs[slot] = append(diffs[slot], "concurrent compilation of an independent bundle failed: "+err.Error())
					}
					continue
				}
				j := k % nj
				// the independent bundle gets its own data copy?  No: data is shared on purpose.
				got := c09Render(soyhtml.NewTofu(reg), c.Jobs[j].Template, datas[j], ij, msgs, -1)
				if got != want[j] && len(diffs[slot]) == 0 {
					diffs[slot] = append(diffs[slot], fmt.Sprintf("independent bundle compiled concurrently renders %s differently: alone %s, now %s", c.Jobs[j].Template, clip(want[j]), clip(got)))
				}
			}
		}(c.G + c.JSWriters + x)
	}
	close(startCh)
	wg.Wait()

	for g := 0; g < c.G; g++ {
		r.Renders += counts[g]
	}
	for x := 0; x < c.JSWriters; x++ {
		r.JSWrites += counts[c.G+x]
	}
	for x := 0; x < c.Compilers; x++ {
		r.Compiles += counts[c.G+c.JSWriters+x]
	}
	for _, d := range diffs {
		r.Diffs = append(r.Diffs, d...)
	}
	after := []string{deepDigest(shared), deepDigest(datas), deepDigest(ij), deepDigest(msgs)}
	for k, name := range []string{"registry (templates and syntax trees)", "data maps", "$ij map", "message bundle"} {
		if before[k] != after[k] {
			r.Changed = append(r.Changed, name)
		}
	}
	return r
}

func clip(s string) string {
	if len(s) > 1200 {
		return s[:1200] + "..."
	}
	return s
}

// ---------------------------------------------------------------------------
// Informational probe, never a violation: Bundle.WatchFiles(true) replaces the
// registry behind a live Tofu from the watcher goroutine ("*reg = *registry",
// bundle.go, with the comment "this is not goroutine-safe, but that seems ok
// for a development aid").  That is outside C09's quantifier (one COMPILED
// bundle; file watching is excluded from the model boundary, DESIGN.md
// section 3), but it is the one place where robfig/soy itself writes to a
// registry that renders are reading, so the evidence records what the race
// detector says about it.

func c09WatchProbe(e *env) {
	dir, err := os.MkdirTemp(os.Getenv("VERIF_BUILD"), "c09w-")
	if err != nil {
		return
	}
	defer os.RemoveAll(dir)
	cmd := exec.Command(e.self, "worker", "c09watch", dir)
	cmd.Env = append(os.Environ(), "GORACE=halt_on_error=1 exitcode=66")
	var stderr, stdout bytes.Buffer
	cmd.Stderr, cmd.Stdout = &stderr, &stdout
	if err := cmd.Start(); err != nil {
		return
	}
	timer := time.AfterFunc(20*time.Second, func() { cmd.Process.Kill() })
	werr := cmd.Wait()
	timer.Stop()
	code := 0
	if ee, ok := werr.(*exec.ExitError); ok {
		code = ee.ExitCode()
	}
	switch {
	case code == 66 || strings.Contains(stderr.String(), "WARNING: DATA RACE"):
		e.res.Histogram["watch-probe:race-reported"]++
		e.res.Note("informational (outside the property: file watching is a development aid, not a compiled bundle): with Bundle.WatchFiles(true) a recompilation races with concurrent renders -- %s", raceSummary(raceReport(stderr.String())))
	case strings.Contains(stdout.String(), "END"):
		e.res.Histogram["watch-probe:no-race-observed"]++
		e.res.Note("informational: WatchFiles probe ran (%s) without a race report", strings.TrimSpace(strings.Replace(stdout.String(), "\n", " ", -1)))
	default:
		e.res.Histogram["watch-probe:not-run"]++
	}
}

func c09WatchWorker(args []string) {
	if len(args) < 1 {
		return
	}
	soy.Logger = log.New(io.Discard, "", 0)
	path := args[0] + "/w.soy"
	src := func(k int) string {
		return fmt.Sprintf("{namespace w}\n\n/** @param x */\n{template .t}\nv%d {$x}\n{/template}\n", k)
	}
	if os.WriteFile(path, []byte(src(0)), 0o644) != nil {
		return
	}
	tofu, err := soy.NewBundle().WatchFiles(true).AddTemplateFile(path).CompileToTofu()
	if err != nil {
		fmt.Println("watch: compile failed:", err)
		return
	}
	stop := make(chan struct{})
	var wg sync.WaitGroup
	renders := make([]int, 4)
	for g := 0; g < 4; g++ {
		wg.Add(1)
		go func(g int) {
			defer wg.Done()
			for {
				select {
				case <-stop:
					return
				default:
				}
				var buf bytes.Buffer
				tofu.NewRenderer("w.t").Execute(&buf, data.Map{"x": data.Int(g)})
				renders[g]++
			}
		}(g)
	}
	for k := 1; k <= 25; k++ {
		time.Sleep(8 * time.Millisecond)
		os.WriteFile(path, []byte(src(k)), 0o644)
	}
	time.Sleep(50 * time.Millisecond)
	close(stop)
	wg.Wait()
	var buf bytes.Buffer
	tofu.NewRenderer("w.t").Execute(&buf, data.Map{"x": data.Int(0)})
	fmt.Printf("renders %d, last output %q\nEND\n", renders[0]+renders[1]+renders[2]+renders[3], buf.String())
}
