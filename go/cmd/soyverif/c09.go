//go:build c09

package main

// C09 — one compiled bundle can be rendered from many goroutines at once.
//
// This harness is the RUNTIME ORACLE of the property: it is built with -race
// (bin/claims/C09.json: go_build_flags) and observes, over generated bundles,
//   * the race detector's verdict on G goroutines x R renders of the same and
//     of different templates of ONE compiled bundle (shared Tofu, shared data
//     maps, shared $ij map, shared message bundle), while other goroutines
//     generate JavaScript from the same registry and others compile
//     independent bundles;
//   * every goroutine's bytes against the bytes of the same render run alone
//     (on an independently compiled copy, so that a purity defect cannot
//     contaminate the baseline);
//   * a deep structural digest of registry, data, $ij and message bundle
//     before and after.
// The racy part runs in a worker subprocess under
// GORACE="halt_on_error=1 exitcode=66", so that a race report is data: exit
// status 66 + the report on stderr, attributed to the case in flight.
//
// The Coq side (Properties/C09.v) carries the logic only: a render's accesses
// to shared locations are reads, and read-only sharing is race-free and
// sequentially consistent with solo runs under every schedule.  The tie to
// that model made here: for the configurations the model covers, the solo
// bytes equal the model's bytes and the model records no write to a
// caller-owned map (rr_shared_writes = []).

import (
	"bufio"
	"bytes"
	"crypto/sha256"
	"encoding/hex"
	"encoding/json"
	"fmt"
	"io"
	"log"
	"math"
	"os"
	"os/exec"
	"reflect"
	"runtime"
	"sort"
	"strconv"
	"strings"
	"sync"
	"time"

	"github.com/robfig/soy"
	"github.com/robfig/soy/ast"
	"github.com/robfig/soy/data"
	"github.com/robfig/soy/soyhtml"
	"github.com/robfig/soy/soyjs"
	"github.com/robfig/soy/soymsg"
	"github.com/robfig/soy/soymsg/pomsg"
	"github.com/robfig/soy/template"
	"soyverif/internal/hx"
)

func init() {
	props["C09"] = runC09
	workers["c09"] = c09Worker
	workers["c09watch"] = c09WatchWorker
}

// ---------------------------------------------------------------------------
// the replayable description of one case

type c09Job struct {
	Template string `json:"template"`
	Data     string `json:"data"` // value s-expression (valuesexp.go); equal ids = the same Go object
}

type c09Case struct {
	Index      int       `json:"index"`
	Origin     string    `json:"origin"` // "generated" | "fixed"
	Files      []srcFile `json:"files"`
	Jobs       []c09Job  `json:"jobs"`
	IJ         string    `json:"ij"`
	Oblig      []string  `json:"obligatory_directives"`
	CustomFunc bool      `json:"custom_function"` // templates call twice(int)
	PO         string    `json:"po,omitempty"`   // shared message bundle (PO text), "" = none
	G          int       `json:"goroutines"`
	R          int       `json:"renders_per_goroutine"`
	JSWriters  int       `json:"js_goroutines"`
	Compilers  int       `json:"compile_goroutines"`
	Procs      int       `json:"gomaxprocs"`
	Rounds     int       `json:"rounds"`       // each round: a freshly compiled Tofu, all goroutines released at once
	Cold       bool      `json:"cold_process"` // run in a worker process of its own, concurrency first
}

type c09Result struct {
	Renders      int      `json:"renders"`
	JSWrites     int      `json:"js_writes"`
	Compiles     int      `json:"compiles"`
	Solo         []string `json:"solo"`     // per job: "ok:"/"err:" + hex(bytes written)
	Diffs        []string `json:"diffs"`    // differing outputs (first per goroutine)
	Changed      []string `json:"changed"`  // shared structures whose digest changed
	SetupErr     string   `json:"setup_err,omitempty"`
	JSComparable int      `json:"js_comparable"`
}

const c09Custom = "twice"
const c09Bang = "bang"

// installed once per process, before any goroutine is started
func c09InstallGlobals() {
	soyhtml.Funcs[c09Custom] = soyhtml.Func{Apply: func(a []data.Value) data.Value {
		if i, ok := a[0].(data.Int); ok {
			return data.Int(2 * i)
		}
		return data.Int(0)
	}, ValidArgLengths: []int{1}}
	soyjs.Funcs[c09Custom] = soyjs.Func{Name: c09Custom, Apply: func(js soyjs.JSWriter, args []ast.Node) {
		js.Write("(2 * (", args[0], "))")
	}, ValidArgLengths: []int{1}}
	soyhtml.PrintDirectives[c09Bang] = soyhtml.PrintDirective{Apply: func(v data.Value, _ []data.Value) data.Value {
		return data.String(v.String() + "!")
	}, ValidArgLengths: []int{0}}
	soyjs.PrintDirectives[c09Bang] = soyjs.PrintDirective{Name: "bang", CancelAutoescape: false}
}

// ---------------------------------------------------------------------------
// deep structural digest (reflect walk; unexported fields included)

type digester struct {
	h    io.Writer
	seen map[uintptr]bool
}

func deepDigest(vs ...interface{}) string {
	h := sha256.New()
	d := &digester{h: h, seen: map[uintptr]bool{}}
	for _, v := range vs {
		d.walk(reflect.ValueOf(v), 0)
	}
	return hex.EncodeToString(h.Sum(nil)[:12])
}

func (d *digester) w(s string) { io.WriteString(d.h, s); io.WriteString(d.h, "\x00") }

func keyString(k reflect.Value) string {
	switch k.Kind() {
	case reflect.String:
		return "s" + k.String()
	case reflect.Int, reflect.Int8, reflect.Int16, reflect.Int32, reflect.Int64:
		return "i" + strconv.FormatInt(k.Int(), 10)
	case reflect.Uint, reflect.Uint8, reflect.Uint16, reflect.Uint32, reflect.Uint64, reflect.Uintptr:
		return "u" + strconv.FormatUint(k.Uint(), 10)
	}
	return "?" + k.Type().String()
}

func (d *digester) walk(v reflect.Value, depth int) {
	if !v.IsValid() {
		d.w("<invalid>")
		return
	}
	if depth > 400 {
		d.w("<deep>")
		return
	}
	switch v.Kind() {
	case reflect.Ptr:
		if v.IsNil() {
			d.w("nil")
			return
		}
		p := v.Pointer()
		if d.seen[p] {
			d.w("<ref>")
			return
		}
		d.seen[p] = true
		d.w("*")
		d.walk(v.Elem(), depth+1)
	case reflect.Interface:
		if v.IsNil() {
			d.w("nil")
			return
		}
		d.w("I:" + v.Elem().Type().String())
		d.walk(v.Elem(), depth+1)
	case reflect.Struct:
		if pp := v.Type().PkgPath(); pp == "sync" || pp == "sync/atomic" {
			d.w("<sync>") // the state of a lock or a Once is not content
			return
		}
		d.w("S:" + v.Type().String())
		for i := 0; i < v.NumField(); i++ {
			d.w(v.Type().Field(i).Name)
			d.walk(v.Field(i), depth+1)
		}
	case reflect.Slice:
		if v.IsNil() {
			d.w("nilslice")
			return
		}
		d.w("L" + strconv.Itoa(v.Len()))
		if v.Type().Elem().Kind() == reflect.Uint8 {
			d.w(string(v.Slice(0, v.Cap()).Bytes()))
			return
		}
		for i := 0; i < v.Len(); i++ {
			d.walk(v.Index(i), depth+1)
		}
		// the spare capacity belongs to the structure too: an append on a shared
		// slice writes there without changing any length
		if v.Cap() > v.Len() {
			ext := v.Slice(0, v.Cap())
			d.w("C" + strconv.Itoa(v.Cap()))
			for i := v.Len(); i < v.Cap(); i++ {
				d.walk(ext.Index(i), depth+1)
			}
		}
	case reflect.Array:
		d.w("A" + strconv.Itoa(v.Len()))
		for i := 0; i < v.Len(); i++ {
			d.walk(v.Index(i), depth+1)
		}
	case reflect.Map:
		if v.IsNil() {
			d.w("nilmap")
			return
		}
		keys := v.MapKeys()
		sort.Slice(keys, func(i, j int) bool { return keyString(keys[i]) < keyString(keys[j]) })
		d.w("M" + strconv.Itoa(len(keys)))
		for _, k := range keys {
			d.w(keyString(k))
			d.walk(v.MapIndex(k), depth+1)
		}
	case reflect.String:
		d.w("s" + v.String())
	case reflect.Bool:
		d.w("b" + strconv.FormatBool(v.Bool()))
	case reflect.Int, reflect.Int8, reflect.Int16, reflect.Int32, reflect.Int64:
		d.w("i" + strconv.FormatInt(v.Int(), 10))
	case reflect.Uint, reflect.Uint8, reflect.Uint16, reflect.Uint32, reflect.Uint64, reflect.Uintptr:
		d.w("u" + strconv.FormatUint(v.Uint(), 10))
	case reflect.Float32, reflect.Float64:
		d.w("f" + strconv.FormatUint(math.Float64bits(v.Float()), 16))
	case reflect.Func, reflect.Chan, reflect.UnsafePointer:
		if v.IsNil() {
			d.w("nilfn")
		} else {
			d.w("fn")
		}
	default:
		d.w("?" + v.Kind().String())
	}
}

// ---------------------------------------------------------------------------
// message bundle (PO) for a compiled registry

func walkAst(n ast.Node, f func(ast.Node)) {
	if n == nil {
		return
	}
	if rv := reflect.ValueOf(n); rv.Kind() == reflect.Ptr && rv.IsNil() {
		return
	}
	f(n)
	if p, ok := n.(ast.ParentNode); ok {
		for _, c := range p.Children() {
			walkAst(c, f)
		}
	}
}

func poQuote(s string) string {
	var b strings.Builder
	b.WriteByte('"')
	for i := 0; i < len(s); i++ {
		switch c := s[i]; c {
		case '"':
			b.WriteString(`\"`)
		case '\\':
			b.WriteString(`\\`)
		case '\n':
			b.WriteString(`\n`)
		case '\t':
			b.WriteString(`\t`)
		case '\r':
			b.WriteString(`\r`)
		default:
			b.WriteByte(c)
		}
	}
	b.WriteByte('"')
	return b.String()
}

// poFor builds a "translation" of every PO-representable message of the
// registry: raw text prefixed by Z, placeholders kept.  n = number of entries.
func poFor(reg *template.Registry) (po string, n int) {
	var b strings.Builder
	b.WriteString("msgid \"\"\nmsgstr \"\"\n\"Plural-Forms: nplurals=2; plural=(n != 1);\\n\"\n\n")
	seen := map[uint64]bool{}
	for _, sf := range reg.SoyFiles {
		walkAst(sf, func(x ast.Node) {
			m, ok := x.(*ast.MsgNode)
			if !ok || seen[m.ID] || m.ID == 0 || pomsg.Validate(m) != nil {
				return
			}
			ch := m.Body.Children()
			if len(ch) == 0 {
				return
			}
			id := pomsg.Msgid(m)
			if id == "" {
				return
			}
			seen[m.ID] = true
			if pl, ok := ch[0].(*ast.MsgPluralNode); ok {
				fmt.Fprintf(&b, "#: id=%d var=%s\nmsgid %s\nmsgid_plural %s\nmsgstr[0] %s\nmsgstr[1] %s\n\n", m.ID, pl.VarName,
					poQuote(id), poQuote(pomsg.MsgidPlural(m)), poQuote("Z1:"+id), poQuote("Zn:"+pomsg.MsgidPlural(m)))
			} else {
				fmt.Fprintf(&b, "#: id=%d\nmsgid %s\nmsgstr %s\n\n", m.ID, poQuote(id), poQuote("Z:"+id))
			}
			n++
		})
	}
	return b.String(), n
}

type strOpener string

func (s strOpener) Open(locale string) (io.ReadCloser, error) {
	return io.NopCloser(strings.NewReader(string(s))), nil
}

func loadPO(po string) (soymsg.Bundle, error) {
	if po == "" {
		return nil, nil
	}
	prov, err := pomsg.Load(strOpener(po), []string{"zz"})
	if err != nil {
		return nil, err
	}
	b := prov.Bundle("zz")
	if b == nil {
		return nil, fmt.Errorf("no bundle")
	}
	return b, nil
}

// ---------------------------------------------------------------------------
// case generation (main process; deterministic in e.rng)

var c09FixedFiles = []srcFile{
	{"fix1.soy", `{namespace fix.one}

/**
 * @param name
 * @param n
 * @param items
 * @param rec
 */
{template .main}
<h1>{msg desc="greet"}Hello {$name}!{/msg}</h1>
{msg desc="eggs"}{plural $n}{case 1}one egg{default}{$n} eggs{/plural}{/msg}
{foreach $i in $items}{if isFirst($i)}[{/if}{$i}{if not isLast($i)},{else}]{/if}{ifempty}none{/foreach}
{call .row data="all"}{param label}<b>{$name}</b>{/param}{/call}
{call fix.two.cell data="$rec" /}{call fix.two.cell data="$rec"}{param b: $name /}{param c: $items /}{/call}
{let $k}{foreach $x in keys($rec)}{$x};{/foreach}{/let}{$k}
{$ij.s}{$ij.n + 1}{$ij.rec.b}
{switch $n}{case 0}zero{case 1, 2}few{default}many{/switch}
{let $m: augmentMap($rec, ['z': $n]) /}{$m.z}{$m.a}
{let $rnd: randomInt(10) /}{if $rnd >= 0}ok{/if}
{css foo}{log}logged {$name}{/log}
{for $q in range(3)}{$q}{call .row}{param name: $name + $q /}{param label: 'L' /}{param n: $q /}{/call}{/for}
{/template}

/**
 * @param name
 * @param label
 * @param? n
 */
{template .row}
<tr>{$label|noAutoescape}{$name|truncate:3}{$n ?: -1}{$name|escapeUri}{$name|insertWordBreaks:2}</tr>
{/template}
`},
	{"fix2.soy", `{namespace fix.two autoescape="false"}

/**
 * @param a
 * @param b
 * @param c
 */
{template .cell}
<td>{$a}{$b|escapeHtml}{foreach $x in $c}{$x}{/foreach}{$b|escapeJsString}{$b|json}{$b|changeNewlineToBr}</td>
{/template}
`},
}

// every directive-chain length 0..8 in three flavours: non-cancelling only
// (truncate and the user directive), with the marker directives id /
// noAutoescape in between, and ending in a cancelling directive; once under
// autoescaping and once in an autoescape="false" namespace
func c09ChainFile(ns, attr string) srcFile {
	var sb strings.Builder
	sb.WriteString("{namespace " + ns + attr + "}\n\n/** @param s */\n{template .chains}\n")
	nonc := []string{"|truncate:30", "|" + c09Bang, "|truncate:25,false", "|truncate:40,true"}
	for n := 0; n <= 8; n++ {
		var plain, marked strings.Builder
		for i := 0; i < n; i++ {
			plain.WriteString(nonc[i%len(nonc)])
			if i%2 == 1 {
				marked.WriteString([]string{"|id", "|noAutoescape"}[(i/2)%2])
			} else {
				marked.WriteString(nonc[i%len(nonc)])
			}
		}
		fmt.Fprintf(&sb, "%d:{$s%s};{$s%s};{$s%s|escapeUri};{print $s + 'x'%s}\n", n, plain.String(), marked.String(), plain.String(), plain.String())
	}
	sb.WriteString("{app.G}{app.S}{app.S|truncate:2|truncate:1|" + c09Bang + "}\n{/template}\n")
	return srcFile{ns + ".soy", sb.String()}
}

// what touches the package-level objects of the library (tablegen's pkg_var_methods): html tags and phname
// attributes in messages (parse.htmlTagRegexp, soymsg.htmlTagNames), placeholder names that need every
// regexp of soymsg.toUpperUnderscore, a map literal printed back as source (ast.stringEscaper, through the
// placeholder's node text), changeNewlineToBr (soyhtml.newlinePattern), the log tag (soyhtml.Logger)
var c09PkgStateFile = srcFile{"fix3.soy", `{namespace fix.three}

/**
 * @param userName
 * @param item2go
 * @param __x9y__z
 */
{template .links}
{msg desc="link"}Click <a href="#top" phname="top_link">here</a>, {$userName}, for <b>{$item2go}</b><br/>{$__x9y__z}{/msg}
{msg desc="map"}{['k\'1': $userName, 'k2': [1, 2]]} and {$userName|changeNewlineToBr}{/msg}
{log}links for {$userName}{/log}
{/template}
`}

func init() {
	c09FixedFiles = append(c09FixedFiles, c09ChainFile("fix.chains", ""), c09ChainFile("fix.rawchains", ` autoescape="false"`), c09PkgStateFile)
}

func c09IJ(r *hx.Rand) data.Map {
	return data.Map{"s": data.String(strPool[r.Intn(len(strPool))]), "n": data.Int(r.Intn(50)),
		"rec": data.Map{"a": data.Int(r.Intn(9)), "b": data.String("i<j>"), "c": data.List{data.Int(1), data.Int(2)}}}
}

type c09Built struct {
	c    *c09Case
	reg  *template.Registry
	data []data.Map
	ij   data.Map
	ids  *idTable
}

// buildCase fills in jobs/ij/po of a case from its files; returns nil when the bundle does not compile.
func c09Finish(e *env, c *c09Case, names []string, sets [][]data.Map, ij data.Map, withPO bool) *c09Built {
	b := soy.NewBundle().AddGlobalsMap(c09Globals)
	for _, f := range c.Files {
		b.AddTemplateString(f.Name, f.Text)
	}
	reg, err := b.Compile()
	if err != nil {
		e.res.Histogram["compile-errors"]++
		e.res.Fail(hx.Violation{Kind: "mismatch", What: "a generated valid bundle is rejected by the compiler (generator problem, not C09)", Case: c.Files, Observed: err.Error()}, "")
		return nil
	}
	ids := newIDTable()
	bt := &c09Built{c: c, reg: reg, ij: ij, ids: ids}
	c.IJ = valueSexp(ij, ids)
	for i, name := range names {
		for _, d := range sets[i] {
			c.Jobs = append(c.Jobs, c09Job{Template: name, Data: valueSexp(d, ids)})
			bt.data = append(bt.data, d)
		}
	}
	if withPO {
		po, n := poFor(reg)
		if n > 0 {
			c.PO = po
			e.res.Histogram["cases-with-message-bundle"]++
			e.res.Histogram["translated-messages"] += n
		}
	}
	return bt
}

func c09Layout(e *env, c *c09Case, idx int) {
	procs := []int{4, 2, 8, 1, 16}
	c.Procs = procs[idx%len(procs)]
	if c.Procs > runtime.NumCPU() && c.Procs > 4 {
		c.Procs = runtime.NumCPU()
	}
	if e.tier == "thorough" {
		c.G, c.R, c.JSWriters, c.Compilers, c.Rounds = 16, 2000, 4, 3, 8
	} else {
		c.G, c.R, c.JSWriters, c.Compilers, c.Rounds = 4, 50, 3, 2, 3
	}
}

func c09Config(c *c09Case, k int) (withPO bool, o progOpts) {
	o = progOpts{depth: 3, directives: true, ij: true, shapes: true, chainExtra: []string{"|" + c09Bang}}
	// 1..40 templates, small bundles still frequent (code may treat small and large registries differently:
	// a lookup structure built on first use only from some size on)
	o.maxTemplates = []int{3, 6, 20, 40}[(k/4)%4]
	switch k % 4 {
	case 0: // plain
	case 1: // a custom obligatory directive and a custom function
		c.Oblig = []string{c09Bang}
		c.CustomFunc = true
		o.customFunc = c09Custom
	case 2: // shared message bundle
		withPO = true
	case 3: // a builtin directive made obligatory, message bundle, custom function
		c.Oblig = []string{"escapeHtml"}
		c.CustomFunc = true
		o.customFunc = c09Custom
		withPO = true
	}
	return
}

func c09GenCases(e *env) []*c09Built {
	var out []*c09Built
	nGen := 240 * e.scale
	if e.tier == "thorough" {
		nGen = 240
		if e.scale > 10 {
			nGen = 4 * e.scale
		}
	}
	idx := 0
	// the fixed bundle under each of the four configurations
	for k := 0; k < 4; k++ {
		c := &c09Case{Index: idx, Origin: "fixed", Files: c09FixedFiles}
		withPO, _ := c09Config(c, k)
		c09Layout(e, c, idx)
		rec := data.Map{"a": data.Int(1), "b": data.String("x&y\n'q'"), "c": data.List{data.Int(1), data.Int(2)}}
		d1 := data.Map{"name": data.String("<World>"), "n": data.Int(1), "items": data.List{data.Int(1), data.Int(2), data.Int(3)}, "rec": rec}
		d2 := data.Map{"name": data.String("a b c d"), "n": data.Int(5), "items": data.List{}, "rec": rec}
		d3 := data.Map{"name": data.String("row"), "label": data.String("<i>l</i>")}
		d4 := data.Map{"s": data.String("<a href='x'>some & text</a>")}
		c.Cold = true
		d5 := data.Map{"userName": data.String("Ann\nB. <C>"), "item2go": data.Int(7), "__x9y__z": data.String("z")}
		bt := c09Finish(e, c, []string{"fix.one.main", "fix.one.row", "fix.two.cell", "fix.chains.chains", "fix.rawchains.chains", "fix.three.links"}, [][]data.Map{{d1, d2}, {d3}, {rec}, {d4}, {d4}, {d5}}, c09IJ(e.rng), withPO)
		if bt != nil {
			out = append(out, bt)
			idx++
		} else {
			e.res.Fail(hx.Violation{Kind: "mismatch", What: "the fixed feature bundle of the C09 harness does not compile", Case: map[string]interface{}{"configuration": k}}, "")
		}
	}
	for i := 0; i < nGen; i++ {
		c := &c09Case{Index: idx, Origin: "generated"}
		withPO, o := c09Config(c, i)
		var tmpls []*gtemplate
		o.onTemplates = func(ts []*gtemplate) { tmpls = ts }
		files, _, entrySets, feats := genBundle(e.rng, o)
		c.Files = files
		var names []string
		var sets [][]data.Map
		for ti, t := range tmpls {
			names = append(names, t.full())
			if ti == 0 {
				sets = append(sets, entrySets)
			} else if t.rec {
				// the countdown template recurses n times: keep n small (deep recursion is C06's subject)
				sets = append(sets, []data.Map{{"n": data.Int(e.rng.Intn(5))}})
			} else {
				sets = append(sets, []data.Map{genData(e.rng, t.params, o)})
			}
		}
		c09Layout(e, c, idx)
		c.Cold = i%16 == 5 // now and then a worker process whose very first use of robfig/soy is concurrent
		bt := c09Finish(e, c, names, sets, c09IJ(e.rng), withPO)
		if bt == nil {
			continue
		}
		for f := range feats {
			e.res.Histogram["feat:"+f]++
		}
		out = append(out, bt)
		idx++
	}
	return out
}

// ---------------------------------------------------------------------------
// main process

func runC09(e *env) {
	e.res.Rule = "one case = one compiled bundle (a fixed feature bundle and bundles from the command grammar: 1-5 templates over 1-3 files, all call forms, messages, $ij, print directives) under one of four configurations (plain / custom obligatory directive + custom function / shared PO message bundle / builtin obligatory directive + bundle + custom function), run in a -race worker: G goroutines x R renders of every (template, data) job over ONE Tofu, the same data.Map objects, the same $ij and message bundle, with concurrent soyjs.Write on the same registry and concurrent compilation of independent bundles. Oracle: no race report, every goroutine's bytes = the bytes of the same render alone, digests of registry/data/ij/bundle unchanged. Non-trivial = the case rendered at least two different jobs concurrently; distinct by sources + data + configuration."
	c09InstallGlobals()
	if e.replay != "" {
		c09Replay(e)
		return
	}
	if diffs := c09PackageStateDiff(e); len(diffs) > 0 {
		e.res.Note("package-level state of the sources differs from the reviewed lists (bin/c09_pkgstate_reviewed.json); the race search runs with three times the budget: %s", strings.Join(firstN(diffs, 40), "; "))
		e.res.Histogram["package-state differs from the reviewed lists (entries)"] += len(diffs)
		e.scale *= 3
	}
	t0 := time.Now()
	cases := c09GenCases(e)
	tGen := time.Since(t0)
	var cs []*c09Case
	for _, b := range cases {
		cs = append(cs, b.c)
	}
	t1 := time.Now()
	results := c09RunWorkers(e, cs)
	tRun := time.Since(t1)
	t2 := time.Now()
	for i, bt := range cases {
		c09Judge(e, bt, results[i])
	}
	e.res.Note("time: generation and compilation in the main process %.1fs, worker processes %.1fs, verdicts and model tie %.1fs", tGen.Seconds(), tRun.Seconds(), time.Since(t2).Seconds())
	c09WatchProbe(e)
	c09PackageState(e)
	e.res.Note("runtime oracle: worker subprocesses of this -race binary with GORACE=halt_on_error=1 exitcode=66; GOMAXPROCS per case from {1,2,4,8,16} capped at %d CPUs; Go %s", runtime.NumCPU(), runtime.Version())
}

type c09Outcome struct {
	res     *c09Result
	race    string // race report (exit status 66)
	crashed string // other abnormal end of the worker while the case was in flight
}

// c09RunWorkers runs the cases in worker subprocesses; a worker that dies in
// case i is restarted at i+1.
func c09RunWorkers(e *env, cs []*c09Case) []c09Outcome {
	out := make([]c09Outcome, len(cs))
	dir, err := os.MkdirTemp(os.Getenv("VERIF_BUILD"), "c09-")
	if err != nil {
		dir, _ = os.MkdirTemp("", "c09-")
	}
	defer os.RemoveAll(dir)
	jobfile := dir + "/cases.json"
	bs, _ := json.Marshal(cs)
	os.WriteFile(jobfile, bs, 0o644)
	// several lanes of worker processes side by side (most cases use few CPUs)
	lanes := runtime.NumCPU() / 4
	if lanes < 1 {
		lanes = 1
	}
	if lanes > 4 {
		lanes = 4
	}
	var mu sync.Mutex
	var wg sync.WaitGroup
	for l := 0; l < lanes; l++ {
		lo, hi := len(cs)*l/lanes, len(cs)*(l+1)/lanes
		wg.Add(1)
		go func() {
			defer wg.Done()
			c09RunLane(e, cs, jobfile, lo, hi, out, &mu)
		}()
	}
	wg.Wait()
	return out
}

// c09RunLane runs cases lo..hi-1; out entries are disjoint between lanes, notes go through mu.
func c09RunLane(e *env, cs []*c09Case, jobfile string, lo, hi int, out []c09Outcome, mu *sync.Mutex) {
	start := lo
	for start < hi {
		perCase := 60 * time.Second
		if e.tier == "thorough" {
			perCase = 600 * time.Second
		}
		// a cold case gets a worker process of its own; warm cases share one
		end := start + 1
		if !cs[start].Cold {
			for end < hi && !cs[end].Cold {
				end++
			}
		}
		cmd := exec.Command(e.self, "worker", "c09", jobfile, strconv.Itoa(start), strconv.Itoa(end))
		gorace := "halt_on_error=1 exitcode=66"
		if v := os.Getenv("C09_GORACE"); v != "" {
			gorace = v // diagnostics only, e.g. "halt_on_error=0 exitcode=0" to see what the digests and byte comparisons say on their own
		}
		cmd.Env = append(os.Environ(), "GORACE="+gorace)
		var stderr bytes.Buffer
		cmd.Stderr = &stderr
		stdout, _ := cmd.StdoutPipe()
		if err := cmd.Start(); err != nil {
			mu.Lock()
			e.res.Note("cannot start worker: %v", err)
			mu.Unlock()
			return
		}
		inflight, ended := -1, false
		timer := time.AfterFunc(perCase, func() { cmd.Process.Kill() })
		timedOut := false
		sc := bufio.NewScanner(stdout)
		sc.Buffer(make([]byte, 1<<20), 1<<28)
		for sc.Scan() {
			line := sc.Text()
			switch {
			case strings.HasPrefix(line, "S "):
				inflight, _ = strconv.Atoi(line[2:])
				if !timer.Reset(perCase) {
					timedOut = true
				}
			case strings.HasPrefix(line, "D "):
				parts := strings.SplitN(line, " ", 3)
				i, _ := strconv.Atoi(parts[1])
				var r c09Result
				if len(parts) == 3 && json.Unmarshal([]byte(parts[2]), &r) == nil && i >= 0 && i < len(out) {
					out[i].res = &r
				}
				inflight = -1
			case line == "END":
				ended = true
			}
		}
		werr := cmd.Wait()
		if !timer.Stop() {
			timedOut = true
		}
		if ended {
			start = end
			continue
		}
		code := -1
		if ee, ok := werr.(*exec.ExitError); ok {
			code = ee.ExitCode()
		}
		if inflight < 0 {
			mu.Lock()
			e.res.Note("worker ended abnormally between cases (exit %d): %s", code, tail(stderr.String(), 600))
			e.res.Fail(hx.Violation{Kind: "mismatch", What: "C09 worker ended abnormally between cases", Case: start, Observed: tail(stderr.String(), 2000)}, "")
			mu.Unlock()
			break
		}
		switch {
		case code == 66 || strings.Contains(stderr.String(), "WARNING: DATA RACE"):
			out[inflight].race = raceReport(stderr.String())
		case timedOut:
			out[inflight].crashed = "no result within " + perCase.String() + " (killed)"
		default:
			out[inflight].crashed = fmt.Sprintf("worker exit status %d: %s", code, clip(stderr.String())+tail(stderr.String(), 1500))
		}
		start = inflight + 1
	}
}

func tail(s string, n int) string {
	if len(s) > n {
		return "..." + s[len(s)-n:]
	}
	return s
}

// raceReport keeps the first report (both stacks) of the detector's output.
func raceReport(stderr string) string {
	i := strings.Index(stderr, "WARNING: DATA RACE")
	if i < 0 {
		return tail(stderr, 4000)
	}
	s := stderr[i:]
	if j := strings.Index(s[18:], "=================="); j >= 0 {
		s = s[:18+j]
	}
	if len(s) > 6000 {
		s = s[:6000] + "\n..."
	}
	return s
}

// raceSummary: "Write at f (file:line) / Previous read at g (file:line)" from the two stacks' top frames.
func raceSummary(rep string) string {
	lines := strings.Split(rep, "\n")
	var parts []string
	for i, l := range lines {
		t := strings.TrimSpace(l)
		if (strings.HasPrefix(t, "Write at") || strings.HasPrefix(t, "Read at") || strings.HasPrefix(t, "Previous write at") || strings.HasPrefix(t, "Previous read at")) && i+2 < len(lines) {
			kind := strings.SplitN(t, " at ", 2)[0]
			// first frame inside robfig/soy, else the top frame
			fn, loc := strings.TrimSpace(lines[i+1]), strings.TrimSpace(lines[i+2])
			for j := i + 1; j+1 < len(lines) && strings.TrimSpace(lines[j]) != ""; j += 2 {
				if strings.Contains(lines[j], "github.com/robfig/soy") {
					fn, loc = strings.TrimSpace(lines[j]), strings.TrimSpace(lines[j+1])
					break
				}
			}
			if k := strings.Index(loc, " +0x"); k >= 0 {
				loc = loc[:k]
			}
			if k := strings.LastIndex(loc, "/soy/"); k >= 0 && strings.Contains(loc, "robfig") == false {
				loc = loc[k+5:]
			}
			parts = append(parts, kind+" in "+fn+" ("+loc+")")
		}
	}
	return strings.Join(parts, " / ")
}

func c09Judge(e *env, bt *c09Built, o c09Outcome) {
	c := bt.c
	key := fmt.Sprint(c.Files, c.Jobs, c.IJ, c.Oblig, c.PO != "")
	cfg := "plain"
	switch {
	case len(c.Oblig) > 0 && c.PO != "":
		cfg = "obligatory+bundle+func"
	case len(c.Oblig) > 0:
		cfg = "obligatory+func"
	case c.PO != "":
		cfg = "bundle"
	}
	e.res.Count(key, len(c.Jobs) >= 2, "config:"+cfg)
	e.res.Histogram[fmt.Sprintf("gomaxprocs:%d", c.Procs)]++
	if c.Cold {
		e.res.Histogram["cold-process-cases"]++
	}
	nt := 0
	for _, f := range c.Files {
		nt += strings.Count(f.Text, "{template ")
	}
	switch {
	case nt >= 8:
		e.res.Histogram["bundles-with->=8-templates"]++
	default:
		e.res.Histogram["bundles-with-<8-templates"]++
	}
	if o.race != "" {
		e.res.Histogram["race-reports"]++
		what := "data race reported by the race detector while one compiled bundle is rendered concurrently: " + raceSummary(o.race)
		kind := "oracle"
		if !strings.Contains(o.race, "github.com/robfig/soy") {
			kind, what = "mismatch", "race report without a robfig/soy frame (harness or library): "+raceSummary(o.race)
		}
		e.res.Fail(hx.Violation{Kind: kind, What: what, Case: c, Expected: "no race report", Observed: o.race}, "")
		return
	}
	if o.crashed != "" {
		e.res.Histogram["worker-crashes"]++
		e.res.Fail(hx.Violation{Kind: "oracle", What: "the concurrent run did not finish (crash or no progress) although every render finishes alone", Case: c, Observed: o.crashed}, "")
		return
	}
	r := o.res
	if r == nil {
		e.res.Fail(hx.Violation{Kind: "mismatch", What: "no result for the case", Case: c}, "")
		return
	}
	if r.SetupErr != "" {
		e.res.Fail(hx.Violation{Kind: "mismatch", What: "worker could not set the case up: " + r.SetupErr, Case: c}, "")
		return
	}
	e.res.Histogram["concurrent-renders"] += r.Renders
	e.res.Histogram["concurrent-js-writes"] += r.JSWrites
	e.res.Histogram["concurrent-compiles"] += r.Compiles
	e.res.Histogram["js-files-compared"] += r.JSComparable
	nerr := 0
	for _, s := range r.Solo {
		if strings.HasPrefix(s, "err:") {
			nerr++
		}
	}
	e.res.Histogram["jobs"] += len(r.Solo)
	e.res.Histogram["jobs-ending-in-error"] += nerr
	if len(r.Diffs) > 0 {
		e.res.Fail(hx.Violation{Kind: "oracle", What: "a concurrent render (or JS generation / compilation) produced other bytes than the same operation alone", Case: c, Observed: r.Diffs}, "")
	}
	if len(r.Changed) > 0 {
		e.res.Fail(hx.Violation{Kind: "oracle", What: "a structure shared between the goroutines was modified by rendering: " + strings.Join(r.Changed, ", "), Case: c, Expected: "digest unchanged", Observed: r.Changed}, "")
	}
	if c.Index%9 == 0 {
		e.res.Sample(map[string]interface{}{"files": c.Files, "jobs": len(c.Jobs), "config": cfg, "goroutines": c.G, "renders_each": c.R, "gomaxprocs": c.Procs,
			"solo_first": firstN(r.Solo, 1), "renders": r.Renders, "js_writes": r.JSWrites, "compiles": r.Compiles})
	}
	c09ModelTie(e, bt, r)
	c09JsTraceTie(e, bt)
}

func firstN(l []string, n int) []string {
	if len(l) > n {
		return l[:n]
	}
	return l
}

// c09ModelTie: where the Interp model covers the configuration (no message
// bundle, no user function), the solo bytes equal the model's and the model
// records no write to a caller-owned map.
func c09ModelTie(e *env, bt *c09Built, r *c09Result) {
	c := bt.c
	if e.m == nil || c.PO != "" || c.CustomFunc || len(r.Solo) != len(c.Jobs) {
		return
	}
	for _, f := range c.Files {
		if strings.Contains(f.Text, "{msg") || strings.Contains(f.Text, "randomInt") || strings.Contains(f.Text, "|"+c09Bang) {
			return // messages are rendered by the model only without a bundle; keep the tie to the plain core
		}
	}
	key := fmt.Sprintf("c09reg%d", c.Index)
	if rr := e.m.Call("load_registry", key, registrySexp(bt.reg, bt.ids)); len(rr) == 0 || rr[0] != "#1" {
		e.res.Histogram["model-load-failed"]++
		return
	}
	oblig := "-"
	if len(c.Oblig) > 0 {
		var hs []string
		for _, o := range c.Oblig {
			hs = append(hs, hex.EncodeToString([]byte(o)))
		}
		oblig = strings.Join(hs, ",")
	}
	for j, job := range c.Jobs {
		mr := e.m.Call("render", key, sx(job.Template), "#4000", "none", "none", oblig, c.IJ, ";", job.Data)
		if len(mr) < 5 {
			e.res.Histogram["model-render-failed"]++
			continue
		}
		cls := strings.Split(mr[0], ",")[0]
		var mo strings.Builder
		for _, f := range mr[5:] {
			mo.WriteString(hx.UnH(f))
		}
		e.res.Histogram["model-ties"]++
		solo := r.Solo[j]
		switch cls {
		case "ok", "err":
			want := cls + ":" + hex.EncodeToString([]byte(mo.String()))
			if want != solo {
				e.res.Fail(hx.Violation{Kind: "mismatch", What: "solo render differs from the Interp model", Case: map[string]interface{}{"files": c.Files, "job": job, "ij": c.IJ, "oblig": c.Oblig}, Expected: want, Observed: solo}, "")
			}
			if mr[4] != "#0" {
				e.res.Fail(hx.Violation{Kind: "mismatch", What: "the Interp model records a write to a caller-owned map (rr_shared_writes <> [])", Case: map[string]interface{}{"files": c.Files, "job": job}, Observed: mr[4]}, "")
			}
		default:
			e.res.Histogram["model-"+cls]++
			if cls == "crash" && len(mr[0]) > 6 {
				e.res.Histogram["model-crash:"+hx.UnH(strings.TrimPrefix(mr[0], "crash,"))]++
			}
		}
	}
}

func c09Replay(e *env) {
	bs, err := os.ReadFile(e.replay)
	if err != nil {
		e.res.Note("cannot read replay: %v", err)
		return
	}
	var rp struct {
		Case c09Case `json:"case"`
	}
	if err := json.Unmarshal(bs, &rp); err != nil || len(rp.Case.Files) == 0 {
		e.res.Note("replay file has no C09 case: %v", err)
		return
	}
	c := rp.Case
	c.Index = 0
	// a race needs the schedule to cooperate: repeat the case a few times
	for rep := 0; rep < 5; rep++ {
		out := c09RunWorkers(e, []*c09Case{&c})
		bt := &c09Built{c: &c}
		saved := e.m
		e.m = nil
		c09Judge(e, bt, out[0])
		e.m = saved
		if len(e.res.Violations) > 0 {
			return
		}
	}
}

// ---------------------------------------------------------------------------
// worker process (the racy part)

func c09Worker(args []string) {
	if len(args) < 2 {
		return
	}
	bs, err := os.ReadFile(args[0])
	if err != nil {
		fmt.Println("END")
		return
	}
	var cs []*c09Case
	if err := json.Unmarshal(bs, &cs); err != nil {
		fmt.Println("END")
		return
	}
	start, _ := strconv.Atoi(args[1])
	end := len(cs)
	if len(args) > 2 {
		if n, err := strconv.Atoi(args[2]); err == nil && n < end {
			end = n
		}
	}
	c09InstallGlobals()
	soyhtml.Logger = log.New(io.Discard, "", 0) // {log} goes through one shared *log.Logger
	w := bufio.NewWriter(os.Stdout)
	for i := start; i < end; i++ {
		fmt.Fprintf(w, "S %d\n", i)
		w.Flush()
		r := c09RunCase(cs[i])
		js, _ := json.Marshal(r)
		fmt.Fprintf(w, "D %d %s\n", i, js)
		w.Flush()
	}
	fmt.Fprintln(w, "END")
	w.Flush()
}

// one globals map handed to EVERY bundle of the process, also to those compiled concurrently
var c09Globals = data.Map{"app.G": data.Int(7), "app.S": data.String("g<&>")}

func c09Compile(files []srcFile) (*template.Registry, error) {
	b := soy.NewBundle().AddGlobalsMap(c09Globals)
	for _, f := range files {
		b.AddTemplateString(f.Name, f.Text)
	}
	reg, err := b.Compile()
	if err == nil {
		// the parser invariant the reviewed latent hazard of ast.MsgNode.Placeholder rests on (c09c.go)
		err = c09PlaceholderQueueInvariant(reg)
	}
	return reg, err
}

// one render, alone or not: "ok:"/"err:" + hex of the bytes that reached the writer
func c09Render(tofu *soyhtml.Tofu, name string, d data.Map, ij data.Map, msgs soymsg.Bundle, limit int) (res string) {
	w := &c09Writer{limit: limit}
	defer func() {
		if p := recover(); p != nil {
			res = "panic:" + hex.EncodeToString(w.buf.Bytes())
		}
	}()
	rd := tofu.NewRenderer(name).Inject(ij)
	if msgs != nil {
		rd = rd.WithMessages(msgs)
	}
	if err := rd.Execute(w, d); err != nil {
		return "err:" + hex.EncodeToString(w.buf.Bytes())
	}
	return "ok:" + hex.EncodeToString(w.buf.Bytes())
}

func c09Execute(rd *soyhtml.Renderer, d data.Map, limit int) (res string) {
	w := &c09Writer{limit: limit}
	defer func() {
		if p := recover(); p != nil {
			res = "panic:" + hex.EncodeToString(w.buf.Bytes())
		}
	}()
	if err := rd.Execute(w, d); err != nil {
		return "err:" + hex.EncodeToString(w.buf.Bytes())
	}
	return "ok:" + hex.EncodeToString(w.buf.Bytes())
}

// c09Writer is the caller's writer of one render (private to it); with
// limit >= 0 it accepts that many bytes and then fails, which sends the render
// down its error path (errRecover reads the registry's source and file maps).
type c09Writer struct {
	buf   bytes.Buffer
	limit int
}

func (w *c09Writer) Write(p []byte) (int, error) {
	if w.limit < 0 {
		return w.buf.Write(p)
	}
	if len(p) <= w.limit {
		w.limit -= len(p)
		return w.buf.Write(p)
	}
	n := w.limit
	w.buf.Write(p[:n])
	w.limit = 0
	return n, fmt.Errorf("writer full")
}

// c09ES6 is ONE formatter value shared by every goroutine that generates ES6 modules.
var c09ES6 = &soyjs.ES6Formatter{}

// JavaScript of one file; the lines are sorted, so that the order of the
// import block (a Go map iteration: C13's subject, not C09's) cannot differ.
func c09JS(f *ast.SoyFileNode, msgs soymsg.Bundle, es6 bool) (res string) {
	var buf bytes.Buffer
	defer func() {
		if p := recover(); p != nil {
			res = "panic"
		}
	}()
	opts := soyjs.Options{Messages: msgs}
	if es6 {
		opts.Formatter = c09ES6
	}
	if err := soyjs.Write(&buf, f, opts); err != nil {
		return "err"
	}
	lines := strings.Split(buf.String(), "\n")
	sort.Strings(lines)
	return "ok:" + strings.Join(lines, "\n")
}

// ---- what every operation of a case yields when it is the only thing running ----

type c09Expect struct {
	solo, soloF, soloR, soloV, soloW []string // per job: plain, failing writer, Tofu.Render convenience, the two variant bundles
	js                               [][4]string // per file: ES5, ES6 (shared formatter), Generator.WriteFile, ES5 into a failing writer; "" = not comparable
	jsBad                            [2]string   // the file soyjs rejects half way (c09d.go), ES5 / ES6
	broken                           string      // compile error of the broken variant
}

// c09Limit: where the failing writer of job j gives up (independent of the output)
func c09Limit(j int) int { return 5 + 7*(j%4) }

// the independent bundles with the SAME template names and other bodies: every template additionally
// prints string literals full of escape sequences (backslash, quote, control and \u escapes) whose text
// is particular to the variant, so that two of them compiled at the same time decode different literals
// at the same time (a decoder with shared scratch space mixes them up)
func c09Variant(files []srcFile) []srcFile { return c09VariantTag(files, "VARIANT") }
func c09Variant2(files []srcFile) []srcFile { return c09VariantTag(files, "OTHER") }

func c09VariantTag(files []srcFile, tag string) []srcFile {
	v := make([]srcFile, len(files))
	for k, f := range files {
		lits := fmt.Sprintf(`{sp}%s{'\t%s\'%d\\'}{'\u00e9%s%s\n\f' + '\r%s'}`, tag, tag, k, tag, strings.Repeat(tag[:1], 24), strings.ToLower(tag))
		v[k] = srcFile{f.Name, strings.Replace(f.Text, "\n{/template}", lits+"\n{/template}", -1)}
	}
	return v
}

// the same bundle with a syntax error inside the last quoted attribute
// expression of its first file: the parser reports it from the sub-lexer's
// position data after that lexer has finished
func c09Broken(files []srcFile) []srcFile {
	v := append([]srcFile{}, files...)
	v[0] = srcFile{v[0].Name, v[0].Text + "\n/** */\n{template .zzbroken}\n{css 'a', b}{call .zzbroken data=\"$ij.rec +\" /}\n{/template}\n"}
	return v
}

func c09CompileErr(files []srcFile) string {
	_, err := c09Compile(files)
	if err == nil {
		return "no error"
	}
	return "error: " + err.Error()
}

func c09RenderConv(tofu *soyhtml.Tofu, name string, d data.Map) (res string) {
	w := &c09Writer{limit: -1}
	defer func() {
		if p := recover(); p != nil {
			res = "panic:" + hex.EncodeToString(w.buf.Bytes())
		}
	}()
	var obj interface{}
	if d != nil {
		obj = d
	}
	if err := tofu.Render(w, name, obj); err != nil {
		return "err:" + hex.EncodeToString(w.buf.Bytes())
	}
	return "ok:" + hex.EncodeToString(w.buf.Bytes())
}

func c09JSFile(gen *soyjs.Generator, name string) (res string) {
	var buf bytes.Buffer
	defer func() {
		if p := recover(); p != nil {
			res = "panic"
		}
	}()
	if err := gen.WriteFile(&buf, name); err != nil {
		return "err"
	}
	lines := strings.Split(buf.String(), "\n")
	sort.Strings(lines)
	return "ok:" + strings.Join(lines, "\n")
}

func c09Expectations(c *c09Case, datas []data.Map, ij data.Map, msgs soymsg.Bundle) (*c09Expect, error) {
	x := &c09Expect{}
	n := len(c.Jobs)
	x.solo, x.soloF, x.soloR, x.soloV, x.soloW = make([]string, n), make([]string, n), make([]string, n), make([]string, n), make([]string, n)
	// one freshly compiled registry per kind of solo run (a purity defect, which
	// could contaminate later solo renders, is the digests' business)
	for kind := 0; kind < 3; kind++ {
		fresh, err := c09Compile(c.Files)
		if err != nil {
			return nil, err
		}
		t := soyhtml.NewTofu(fresh)
		for j, job := range c.Jobs {
			switch kind {
			case 0:
				x.solo[j] = c09Render(t, job.Template, datas[j], ij, msgs, -1)
			case 1:
				x.soloF[j] = c09Render(t, job.Template, datas[j], ij, msgs, c09Limit(j))
			case 2:
				x.soloR[j] = c09RenderConv(t, job.Template, datas[j])
			}
		}
	}
	vreg, err := c09Compile(c09Variant(c.Files))
	if err != nil {
		return nil, fmt.Errorf("variant bundle: %v", err)
	}
	wreg, err := c09Compile(c09Variant2(c.Files))
	if err != nil {
		return nil, fmt.Errorf("second variant bundle: %v", err)
	}
	for j, job := range c.Jobs {
		x.soloV[j] = c09Render(soyhtml.NewTofu(vreg), job.Template, datas[j], ij, msgs, -1)
		x.soloW[j] = c09Render(soyhtml.NewTofu(wreg), job.Template, datas[j], ij, msgs, -1)
	}
	alone, err := c09Compile(c.Files)
	if err != nil {
		return nil, err
	}
	gen := soyjs.NewGenerator(alone)
	x.js = make([][4]string, len(alone.SoyFiles))
	for k, f := range alone.SoyFiles {
		for v := 0; v < 4; v++ {
			var a, b string
			switch v {
			case 2:
				a, b = c09JSFile(gen, f.Name), c09JSFile(gen, f.Name)
			case 3:
				a, b = c09JSFailing(f, msgs, c09JSLimit(k)), c09JSFailing(f, msgs, c09JSLimit(k))
			default:
				a, b = c09JS(f, msgs, v == 1), c09JS(f, msgs, v == 1)
			}
			if a == b {
				x.js[k][v] = a
			}
		}
	}
	if a, b := c09CompileErr(c09Broken(c.Files)), c09CompileErr(c09Broken(c.Files)); a == b {
		x.broken = a
	}
	if bad := c09BadJSFile(); bad != nil {
		for v := 0; v < 2; v++ {
			if a, b := c09JS(bad, msgs, v == 1), c09JS(bad, msgs, v == 1); a == b {
				x.jsBad[v] = a
			}
		}
	}
	return x, nil
}

// what one goroutine saw: the first result per operation, and any later result that differs from it
type c09Obs struct {
	first map[string]string
	self  []string
	count int
}

func (o *c09Obs) see(key, got string) {
	o.count++
	if f, ok := o.first[key]; !ok {
		o.first[key] = got
	} else if f != got && len(o.self) < 2 {
		o.self = append(o.self, fmt.Sprintf("%s gave two different results in one goroutine: %s and %s", key, clip(f), clip(got)))
	}
}

func c09RunCase(c *c09Case) *c09Result {
	r := &c09Result{}
	runtime.GOMAXPROCS(c.Procs)
	soyhtml.ObligatoryPrintDirectiveNames = append([]string{}, c.Oblig...)
	defer func() { soyhtml.ObligatoryPrintDirectiveNames = []string{} }()
	if c.Rounds < 1 {
		c.Rounds = 1
	}

	// shared objects
	objs := map[int]data.Value{}
	ijv, err := sexpToValue(c.IJ, objs)
	if err != nil {
		r.SetupErr = "ij: " + err.Error()
		return r
	}
	ij, _ := ijv.(data.Map)
	datas := make([]data.Map, len(c.Jobs))
	for j, job := range c.Jobs {
		v, err := sexpToValue(job.Data, objs)
		if err != nil {
			r.SetupErr = "data: " + err.Error()
			return r
		}
		datas[j], _ = v.(data.Map)
	}
	msgs, err := loadPO(c.PO)
	if err != nil {
		r.SetupErr = "po: " + err.Error()
		return r
	}
	variant, variant2, broken := c09Variant(c.Files), c09Variant2(c.Files), c09Broken(c.Files)
	badJS := c09BadJSFile()

	// In a warm case the expectations are computed first.  In a COLD case (own
	// worker process) nothing of robfig/soy has run yet: the first compilations,
	// the first renders and the first soyjs.Write calls of the process all happen
	// concurrently, so that lazily initialised package-level state is first
	// touched by several goroutines at once; the expectations are computed afterwards.
	var exp *c09Expect
	if !c.Cold {
		if exp, err = c09Expectations(c, datas, ij, msgs); err != nil {
			r.SetupErr = "compile: " + err.Error()
			return r
		}
	}
	before := []string{deepDigest(datas), deepDigest(ij), deepDigest(msgs)}

	nG := c.G + c.JSWriters + c.Compilers
	obs := make([]*c09Obs, nG)
	for g := range obs {
		obs[g] = &c09Obs{first: map[string]string{}}
	}
	nj := len(c.Jobs)
	rPer := c.R/c.Rounds + 1
	for round := 0; round < c.Rounds; round++ {
		// every round gets a FRESH registry and Tofu: whatever the code builds lazily
		// inside the compiled bundle is built during the simultaneous first uses
		var shared *template.Registry
		if c.Cold && round == 0 {
			regs := make([]*template.Registry, 4)
			errs := make([]error, 4)
			var cw sync.WaitGroup
			gate := make(chan struct{})
			for i := range regs {
				cw.Add(1)
				go func(i int) {
					defer cw.Done()
					<-gate
					regs[i], errs[i] = c09Compile(c.Files)
				}(i)
			}
			close(gate)
			cw.Wait()
			for i := range errs {
				if errs[i] != nil {
					r.Diffs = append(r.Diffs, "cold concurrent compilation failed: "+errs[i].Error())
				}
			}
			shared = regs[0]
		} else {
			shared, err = c09Compile(c.Files)
		}
		if shared == nil {
			r.SetupErr = "compile: " + fmt.Sprint(err)
			return r
		}
		tofu := soyhtml.NewTofu(shared)
		gen := soyjs.NewGenerator(shared)
		regBefore := deepDigest(shared)

		var wg, ready sync.WaitGroup
		startCh := make(chan struct{})
		ready.Add(nG)
		for g := 0; g < c.G; g++ {
			wg.Add(1)
			go func(g int) {
				defer wg.Done()
				o := obs[g]
				// a Renderer value built by this goroutine and reused for all its renders of a job
				own := map[int]*soyhtml.Renderer{}
				ready.Done()
				<-startCh
				for k := 0; k < rPer; k++ {
					// even goroutines walk the jobs in the same order (same template at the
					// same time), odd ones start elsewhere (different templates at the same time)
					j := (k + round) % nj
					if g%2 == 1 {
						j = (k + g + round) % nj
					}
					switch {
					case g%4 == 3 && k%2 == 1: // a failing writer: the error path
						o.see(fmt.Sprintf("render|%d|1", j), c09Render(tofu, c.Jobs[j].Template, datas[j], ij, msgs, c09Limit(j)))
					case g%4 == 2 && k%3 == 2: // the convenience entry point
						o.see(fmt.Sprintf("render|%d|2", j), c09RenderConv(tofu, c.Jobs[j].Template, datas[j]))
					case g%4 == 1:
						rd := own[j]
						if rd == nil {
							rd = tofu.NewRenderer(c.Jobs[j].Template).Inject(ij)
							if msgs != nil {
								rd = rd.WithMessages(msgs)
							}
							own[j] = rd
						}
						o.see(fmt.Sprintf("render|%d|0", j), c09Execute(rd, datas[j], -1))
					default:
						o.see(fmt.Sprintf("render|%d|0", j), c09Render(tofu, c.Jobs[j].Template, datas[j], ij, msgs, -1))
					}
				}
			}(g)
		}
		for x := 0; x < c.JSWriters; x++ {
			wg.Add(1)
			go func(slot int) {
				defer wg.Done()
				o := obs[slot]
				ready.Done()
				<-startCh
				n := rPer/4 + 2
				for k := 0; k < n; k++ {
					for fi, f := range shared.SoyFiles {
						// ES5, ES6 (one shared formatter value), Generator.WriteFile and a generation into a writer
						// that fails in turn; in the first pass every JS goroutine does the same thing at the same time
						v := k % 4
						if k > 0 {
							v = (k + slot) % 4
						}
						// every other generation FOLLOWS (and, across goroutines, runs beside) a generation that
						// fails half way: whatever Write keeps between calls is then left in its failure state
						if badJS != nil && (k+slot+fi)%2 == 1 {
							o.see(fmt.Sprintf("jsbad|%d", v%2), c09JS(badJS, msgs, v%2 == 1))
						}
						switch v {
						case 2:
							o.see(fmt.Sprintf("js|%d|2", fi), c09JSFile(gen, f.Name))
						case 3:
							o.see(fmt.Sprintf("js|%d|3", fi), c09JSFailing(f, msgs, c09JSLimit(fi)))
						default:
							o.see(fmt.Sprintf("js|%d|%d", fi, v), c09JS(f, msgs, v == 1))
						}
					}
				}
			}(c.G + x)
		}
		for x := 0; x < c.Compilers; x++ {
			wg.Add(1)
			go func(slot int) {
				defer wg.Done()
				o := obs[slot]
				ready.Done()
				<-startCh
				n := rPer/16 + 2
				for k := 0; k < n; k++ {
					j := (k + round) % nj
					// neighbouring compilers are one step apart: the two variants (different escaped
					// literals) are compiled at the same time
					switch (slot + k + round) % 4 {
					case 0, 1, 2:
						files, key := c.Files, "compile|%d"
						switch (slot + k + round) % 4 {
						case 1:
							files, key = variant, "variant|%d"
						case 2:
							files, key = variant2, "variant2|%d"
						}
						reg, err := c09Compile(files)
						if err != nil {
							o.see(fmt.Sprintf(key, j), "compile error: "+err.Error())
							continue
						}
						o.see(fmt.Sprintf(key, j), c09Render(soyhtml.NewTofu(reg), c.Jobs[j].Template, datas[j], ij, msgs, -1))
					case 3:
						o.see("broken", c09CompileErr(broken))
					}
				}
			}(c.G + c.JSWriters + x)
		}
		ready.Wait()
		close(startCh)
		wg.Wait()
		if regBefore != deepDigest(shared) {
			r.Changed = append(r.Changed, fmt.Sprintf("registry (templates, syntax trees, slice backing arrays up to capacity) in round %d", round))
		}
	}

	after := []string{deepDigest(datas), deepDigest(ij), deepDigest(msgs)}
	for k, name := range []string{"data maps", "$ij map", "message bundle"} {
		if before[k] != after[k] {
			r.Changed = append(r.Changed, name)
		}
	}
	if c.Cold {
		if exp, err = c09Expectations(c, datas, ij, msgs); err != nil {
			r.SetupErr = "compile: " + err.Error()
			return r
		}
	}
	r.Solo = exp.solo
	for _, k := range exp.js {
		for _, v := range k {
			if v != "" {
				r.JSComparable++
			}
		}
	}

	// compare what every goroutine saw with the solo results
	want := func(key string) (string, bool) {
		f := strings.Split(key, "|")
		a := 0
		if len(f) > 1 {
			a, _ = strconv.Atoi(f[1])
		}
		switch f[0] {
		case "render":
			switch f[2] {
			case "0":
				return exp.solo[a], true
			case "1":
				return exp.soloF[a], true
			default:
				return exp.soloR[a], true
			}
		case "compile":
			return exp.solo[a], true
		case "variant":
			return exp.soloV[a], true
		case "variant2":
			return exp.soloW[a], true
		case "jsbad":
			return exp.jsBad[a], exp.jsBad[a] != ""
		case "js":
			v, _ := strconv.Atoi(f[2])
			return exp.js[a][v], exp.js[a][v] != ""
		case "broken":
			return exp.broken, exp.broken != ""
		}
		return "", false
	}
	describe := func(key string) string {
		f := strings.Split(key, "|")
		a := 0
		if len(f) > 1 {
			a, _ = strconv.Atoi(f[1])
		}
		switch f[0] {
		case "render":
			return fmt.Sprintf("render of %s (%s)", c.Jobs[a].Template, []string{"plain", "failing writer", "Tofu.Render"}[f[2][0]-'0'])
		case "compile":
			return fmt.Sprintf("independent bundle compiled concurrently, render of %s", c.Jobs[a].Template)
		case "variant", "variant2":
			return fmt.Sprintf("independent bundle with the same template names and other bodies (string literals with escapes), render of %s", c.Jobs[a].Template)
		case "jsbad":
			return "JavaScript of the file that soyjs rejects in its second template (outcome)"
		case "js":
			return fmt.Sprintf("JavaScript of file %d (%s)", a, []string{"soyjs.Write ES5", "soyjs.Write ES6, shared formatter", "Generator.WriteFile", "soyjs.Write ES5 into a writer that fails"}[f[2][0]-'0'])
		}
		return "compilation of the bundle with a syntax error (error text)"
	}
	for g, o := range obs {
		switch {
		case g < c.G:
			r.Renders += o.count
		case g < c.G+c.JSWriters:
			r.JSWrites += o.count
		default:
			r.Compiles += o.count
		}
		r.Diffs = append(r.Diffs, o.self...)
		keys := make([]string, 0, len(o.first))
		for k := range o.first {
			keys = append(keys, k)
		}
		sort.Strings(keys)
		nd := 0
		for _, k := range keys {
			if w, ok := want(k); ok && w != o.first[k] && nd < 2 {
				nd++
				r.Diffs = append(r.Diffs, fmt.Sprintf("goroutine %d, %s: alone %s, concurrently %s", g, describe(k), clip(w), clip(o.first[k])))
			}
		}
	}
	if len(r.Diffs) > 12 {
		r.Diffs = r.Diffs[:12]
	}
	return r
}

func clip(s string) string {
	if len(s) > 1200 {
		return s[:1200] + "..."
	}
	return s
}

// ---------------------------------------------------------------------------
// Informational probe, never a violation: Bundle.WatchFiles(true) replaces the
// registry behind a live Tofu from the watcher goroutine ("*reg = *registry",
// bundle.go, with the comment "this is not goroutine-safe, but that seems ok
// for a development aid").  That is outside C09's quantifier (one COMPILED
// bundle; file watching is excluded from the model boundary, DESIGN.md
// section 3), but it is the one place where robfig/soy itself writes to a
// registry that renders are reading, so the evidence records what the race
// detector says about it.

func c09WatchProbe(e *env) {
	dir, err := os.MkdirTemp(os.Getenv("VERIF_BUILD"), "c09w-")
	if err != nil {
		return
	}
	defer os.RemoveAll(dir)
	cmd := exec.Command(e.self, "worker", "c09watch", dir)
	cmd.Env = append(os.Environ(), "GORACE=halt_on_error=1 exitcode=66")
	var stderr, stdout bytes.Buffer
	cmd.Stderr, cmd.Stdout = &stderr, &stdout
	if err := cmd.Start(); err != nil {
		return
	}
	timer := time.AfterFunc(20*time.Second, func() { cmd.Process.Kill() })
	werr := cmd.Wait()
	timer.Stop()
	code := 0
	if ee, ok := werr.(*exec.ExitError); ok {
		code = ee.ExitCode()
	}
	switch {
	case code == 66 || strings.Contains(stderr.String(), "WARNING: DATA RACE"):
		e.res.Histogram["watch-probe:race-reported"]++
		e.res.Note("informational (outside the property: file watching is a development aid, not a compiled bundle): with Bundle.WatchFiles(true) a recompilation races with concurrent renders -- %s", raceSummary(raceReport(stderr.String())))
	case strings.Contains(stdout.String(), "END"):
		e.res.Histogram["watch-probe:no-race-observed"]++
		e.res.Note("informational: WatchFiles probe ran (%s) without a race report", strings.TrimSpace(strings.Replace(stdout.String(), "\n", " ", -1)))
	default:
		e.res.Histogram["watch-probe:not-run"]++
	}
}

func c09WatchWorker(args []string) {
	if len(args) < 1 {
		return
	}
	soy.Logger = log.New(io.Discard, "", 0)
	path := args[0] + "/w.soy"
	src := func(k int) string {
		return fmt.Sprintf("{namespace w}\n\n/** @param x */\n{template .t}\nv%d {$x}\n{/template}\n", k)
	}
	if os.WriteFile(path, []byte(src(0)), 0o644) != nil {
		return
	}
	tofu, err := soy.NewBundle().WatchFiles(true).AddTemplateFile(path).CompileToTofu()
	if err != nil {
		fmt.Println("watch: compile failed:", err)
		return
	}
	stop := make(chan struct{})
	var wg sync.WaitGroup
	renders := make([]int, 4)
	for g := 0; g < 4; g++ {
		wg.Add(1)
		go func(g int) {
			defer wg.Done()
			for {
				select {
				case <-stop:
					return
				default:
				}
				var buf bytes.Buffer
				tofu.NewRenderer("w.t").Execute(&buf, data.Map{"x": data.Int(g)})
				renders[g]++
			}
		}(g)
	}
	for k := 1; k <= 25; k++ {
		time.Sleep(8 * time.Millisecond)
		os.WriteFile(path, []byte(src(k)), 0o644)
	}
	time.Sleep(50 * time.Millisecond)
	close(stop)
	wg.Wait()
	var buf bytes.Buffer
	tofu.NewRenderer("w.t").Execute(&buf, data.Map{"x": data.Int(0)})
	fmt.Printf("renders %d, last output %q\nEND\n", renders[0]+renders[1]+renders[2]+renders[3], buf.String())
}
