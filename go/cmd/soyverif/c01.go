//go:build c01

package main

// C01 -- expressions evaluate exactly as the Soy language defines.
//
// End-to-end oracle: a typed expression tree is generated (c01gen.go), printed as Soy
// source with minimal or redundant parentheses and a random surface style, placed in one
// of the syntactic positions that take an expression, compiled with
// soy.NewBundle()...CompileToTofu() and rendered.  The expected output comes from the
// extracted Spec (coq/Spec/Expr.v, op spec_eval) evaluated on the TREE (never on the text)
// plus the html escaping of a print.  ORACLE: the compiler accepts; the output equals the
// Spec output, or the Spec gives no value and the render returns an error without text.
//
// Correspondences (Kind "mismatch"): the parser's tree for the generated text equals
// to_node(tree) (positions erased); the tree walker model (Interp.v) on to_node(tree)
// agrees with the Spec (the statement of eval_impl_spec, evaluated); the model rendering
// the compiled registry writes what robfig/soy writes; soyhtml.EvalExpr on closed
// expressions returns the Spec's value (kind included: Int 2 and Float 2 print alike).
//
// What no longer rests on the correspondence alone: for the text ast/node.go's String() writes
// (minimal parentheses, the printer's spacing) the chain string -> items (scanner model) -> tree
// (parser model) -> compiled tree -> value (walker model on the parser's own, positioned tree) is
// a theorem (C01_text_string_to_value).  Still by this oracle only: other spellings of the same
// tree (spacing, redundant parentheses, hex, escapes) and the 28 statement-level positions.

import (
	"encoding/json"
	"fmt"
	"os"
	"regexp"
	"sort"
	"strconv"
	"strings"
	"time"

	"github.com/robfig/soy"
	"github.com/robfig/soy/ast"
	"github.com/robfig/soy/data"
	"github.com/robfig/soy/parse"
	"github.com/robfig/soy/soyhtml"
	"github.com/robfig/soy/template"
	"soyverif/internal/hx"
)

func init() { props["C01"] = runC01 }

// ---------- syntactic positions ----------

type xctx struct {
	name string
	// source of the template body for expression text E
	body func(E string) string
	// extra templates of the file
	extra string
	// the Spec expression whose value decides the output, given the tree
	derived func(e *xe) *xe
	// how the output follows from the derived value
	mode string // print | truthy | items | dir1 | dir2 | data
	// the expression node inside the compiled template
	find func(body []ast.Node) ast.Node
	// the tree the parser must build for that node (default: derived)
	astOf func(e *xe) *xe
	// restriction on the intended kind of E (xkAny = none)
	want xkind
}

func firstOf[T ast.Node](body []ast.Node) (T, bool) {
	var zero T
	for _, n := range body {
		if t, ok := n.(T); ok {
			return t, true
		}
	}
	return zero, false
}

func findPrintArg(body []ast.Node) ast.Node {
	if p, ok := firstOf[*ast.PrintNode](body); ok {
		return p.Arg
	}
	return nil
}

func ident(e *xe) *xe { return e }

const xCallee = "\n/** @param? k */\n{template .p}\n{$k}\n{/template}\n"
const xCalleeQ = "\n/** @param? k */\n{template .q}\n{$k ?: 'nokey'}\n{/template}\n"

func xContexts() []xctx {
	lit := func(s string) *xe { return xStr(nil, s) }
	return []xctx{
		{name: "implicit-print", body: func(E string) string { return "{" + E + "}" }, derived: ident, mode: "print", find: findPrintArg, want: xkAny},
		{name: "print", body: func(E string) string { return "{print " + E + "}" }, derived: ident, mode: "print", find: findPrintArg, want: xkAny},
		{name: "print-double-brace", body: func(E string) string { return "{{" + E + "}}" }, derived: ident, mode: "print", find: findPrintArg, want: xkAny},
		{name: "parenthesis", body: func(E string) string { return "{(" + E + ")}" }, derived: ident, mode: "print", find: findPrintArg, want: xkAny},
		{name: "if", body: func(E string) string { return "{if " + E + "}T{else}F{/if}" }, derived: ident, mode: "truthy", want: xkAny,
			find: func(b []ast.Node) ast.Node {
				if n, ok := firstOf[*ast.IfNode](b); ok {
					return n.Conds[0].Cond
				}
				return nil
			}},
		{name: "elseif", body: func(E string) string { return "{if false}X{elseif " + E + "}T{else}F{/if}" }, derived: ident, mode: "truthy", want: xkAny,
			find: func(b []ast.Node) ast.Node {
				if n, ok := firstOf[*ast.IfNode](b); ok && len(n.Conds) > 1 {
					return n.Conds[1].Cond
				}
				return nil
			}},
		{name: "let", body: func(E string) string { return "{let $x: " + E + " /}{$x}" }, derived: ident, mode: "print", want: xkAny,
			find: func(b []ast.Node) ast.Node {
				if n, ok := firstOf[*ast.LetValueNode](b); ok {
					return n.Expr
				}
				return nil
			}},
		{name: "let-tight", body: func(E string) string { return "{let $x:" + E + "/}{$x}" }, derived: ident, mode: "print", want: xkAny,
			find: func(b []ast.Node) ast.Node {
				if n, ok := firstOf[*ast.LetValueNode](b); ok {
					return n.Expr
				}
				return nil
			}},
		{name: "param", body: func(E string) string { return "{call .p}{param k: " + E + " /}{/call}" }, extra: xCallee, derived: ident, mode: "print", want: xkAny,
			find: func(b []ast.Node) ast.Node {
				if n, ok := firstOf[*ast.CallNode](b); ok && len(n.Params) == 1 {
					if p, ok := n.Params[0].(*ast.CallParamValueNode); ok {
						return p.Value
					}
				}
				return nil
			}},
		{name: "param-value-attr", body: func(E string) string { return "{call .p}{param key=\"k\" value=\"" + E + "\" /}{/call}" }, extra: xCallee, derived: ident, mode: "print", want: xkAny,
			find: func(b []ast.Node) ast.Node {
				if n, ok := firstOf[*ast.CallNode](b); ok && len(n.Params) == 1 {
					if p, ok := n.Params[0].(*ast.CallParamValueNode); ok {
						return p.Value
					}
				}
				return nil
			}},
		{name: "case", body: func(E string) string { return "{switch 3}{case " + E + "}T{default}F{/switch}" }, mode: "truthy", want: xkAny,
			derived: func(e *xe) *xe { return xBin("eq", xIntLit(3), e) }, astOf: ident,
			find: func(b []ast.Node) ast.Node {
				if n, ok := firstOf[*ast.SwitchNode](b); ok && len(n.Cases) > 0 && len(n.Cases[0].Values) == 1 {
					return n.Cases[0].Values[0]
				}
				return nil
			}},
		{name: "case-second", body: func(E string) string { return "{switch 'ab'}{case 0, " + E + "}T{default}F{/switch}" }, mode: "truthy", want: xkAny,
			derived: func(e *xe) *xe { return xBin("eq", lit("ab"), e) }, astOf: ident,
			find: func(b []ast.Node) ast.Node {
				if n, ok := firstOf[*ast.SwitchNode](b); ok && len(n.Cases) > 0 && len(n.Cases[0].Values) == 2 {
					return n.Cases[0].Values[1]
				}
				return nil
			}},
		{name: "switch", body: func(E string) string { return "{switch " + E + "}{case 3}T{default}F{/switch}" }, mode: "truthy", want: xkAny,
			derived: func(e *xe) *xe { return xBin("eq", e, xIntLit(3)) }, astOf: ident,
			find: func(b []ast.Node) ast.Node {
				if n, ok := firstOf[*ast.SwitchNode](b); ok {
					return n.Value
				}
				return nil
			}},
		{name: "foreach", body: func(E string) string { return "{foreach $x in " + E + "}[{$x}]{ifempty}E{/foreach}" }, derived: ident, mode: "items", want: xkList,
			find: func(b []ast.Node) ast.Node {
				if n, ok := firstOf[*ast.ForNode](b); ok {
					return n.List
				}
				return nil
			}},
		{name: "directive-arg-first", body: func(E string) string { return "{'abcdefghijklmnopqrstuvwxyz'|truncate:" + E + "}" }, derived: ident, mode: "dir1", want: xkInt,
			find: func(b []ast.Node) ast.Node {
				if p, ok := firstOf[*ast.PrintNode](b); ok && len(p.Directives) == 1 && len(p.Directives[0].Args) == 1 {
					return p.Directives[0].Args[0]
				}
				return nil
			}},
		{name: "directive-arg-later", body: func(E string) string { return "{'abcdefghijklmnopqrstuvwxyz'|truncate:8," + E + "}" }, derived: ident, mode: "dir2", want: xkBool,
			find: func(b []ast.Node) ast.Node {
				if p, ok := firstOf[*ast.PrintNode](b); ok && len(p.Directives) == 1 && len(p.Directives[0].Args) == 2 {
					return p.Directives[0].Args[1]
				}
				return nil
			}},
		{name: "data-attr", body: func(E string) string { return "{call .q data=\"" + E + "\" /}" }, extra: xCalleeQ, derived: ident, mode: "data", want: xkMap,
			find: func(b []ast.Node) ast.Node {
				if n, ok := firstOf[*ast.CallNode](b); ok {
					return n.Data
				}
				return nil
			}},
		// positions inside an expression: the enclosing expression is printed
		{name: "map-value", body: func(E string) string { return "{['a': 1, 'k': " + E + "]}" }, mode: "print", find: findPrintArg, want: xkAny,
			derived: func(e *xe) *xe { return xMap([]string{"a", "k"}, []*xe{xIntLit(1), e}) }},
		{name: "list-item", body: func(E string) string { return "{[" + E + ", 1]}" }, mode: "print", find: findPrintArg, want: xkAny,
			derived: func(e *xe) *xe { return xList(e, xIntLit(1)) }},
		{name: "list-item-last", body: func(E string) string { return "{[0," + E + "]}" }, mode: "print", find: findPrintArg, want: xkAny,
			derived: func(e *xe) *xe { return xList(xIntLit(0), e) }},
		{name: "index", body: func(E string) string { return "{$l1[" + E + "]}" }, mode: "print", find: findPrintArg, want: xkInt,
			derived: func(e *xe) *xe { return xRef("l1", aExpr(false, e)) }},
		{name: "index-key", body: func(E string) string { return "{$m1[" + E + "]}" }, mode: "print", find: findPrintArg, want: xkStr,
			derived: func(e *xe) *xe { return xRef("m1", aExpr(false, e)) }},
		{name: "nullsafe-index", body: func(E string) string { return "{$n?[" + E + "]}" }, mode: "print", find: findPrintArg, want: xkAny,
			derived: func(e *xe) *xe { return xRef("n", aExpr(true, e)) }},
		{name: "nullsafe-index-list", body: func(E string) string { return "{$l2?[" + E + "]}" }, mode: "print", find: findPrintArg, want: xkInt,
			derived: func(e *xe) *xe { return xRef("l2", aExpr(true, e)) }},
		{name: "function-arg", body: func(E string) string { return "{isNonnull(" + E + ")}" }, mode: "print", find: findPrintArg, want: xkAny,
			derived: func(e *xe) *xe { return xCall("isNonnull", e) }},
		{name: "function-arg-later", body: func(E string) string { return "{max(2, " + E + ")}" }, mode: "print", find: findPrintArg, want: xkInt,
			derived: func(e *xe) *xe { return xCall("max", xIntLit(2), e) }},
		{name: "ternary-middle", body: func(E string) string { return "{$b1 ? " + E + " : 'else'}" }, mode: "print", find: findPrintArg, want: xkAny,
			derived: func(e *xe) *xe { return xTern(xRef("b1"), e, lit("else")) }},
		{name: "ternary-else", body: func(E string) string { return "{$b1 ? 'then' : " + E + "}" }, mode: "print", find: findPrintArg, want: xkAny,
			derived: func(e *xe) *xe { return xTern(xRef("b1"), lit("then"), e) }},
	}
}

// level at which E stands unparenthesised in the position
func (c *xctx) minLevel() int {
	switch c.name {
	case "ternary-middle", "ternary-else":
		return 0
	}
	return 0
}

// ---------- one case ----------

type xcase struct {
	tree          *xe // nil in a replay
	ctx           *xctx
	text          string // expression source
	src           string // file source
	treeS         string // the tree, Spec syntax
	derivedS      string // the Spec expression that decides the output
	astS          string // the tree the parser must build at the position
	closed        bool   // no data reference, no global
	emptyIdentity bool   // compares two possibly empty fresh lists
	ij            data.Map
	dataMap       data.Map
	globals       data.Map
	group         string
}

type c01Case struct {
	Group   string `json:"group"`
	Context string `json:"context"`
	Expr    string `json:"expr"`
	Tree    string `json:"tree"`
	Derived string `json:"derived"`
	Ast     string `json:"ast"`
	Closed  bool   `json:"closed"`
	Source  string `json:"source"`
	Data    string `json:"data"`
	Ij      string `json:"ij"`
	Globals string `json:"globals"`
}

var refRe = regexp.MustCompile(`\$([a-zA-Z_][a-zA-Z0-9_]*)`)

func xBuildSource(c *xctx, text string) string {
	body := c.body(text)
	used := map[string]bool{}
	for _, m := range refRe.FindAllStringSubmatch(body, -1) {
		if m[1] != "ij" && m[1] != "x" {
			used[m[1]] = true
		}
	}
	var names []string
	for k := range used {
		names = append(names, k)
	}
	sort.Strings(names)
	var doc strings.Builder
	doc.WriteString("/**\n")
	for _, k := range names {
		doc.WriteString(" * @param? " + k + "\n")
	}
	doc.WriteString(" */\n")
	return "{namespace t}\n" + doc.String() + "{template .m}\n" + body + "\n{/template}\n" + c.extra
}

var xGlobals = data.Map{"G_INT": data.Int(42), "G_FLOAT": data.Float(2.5), "G_STR": data.String("g<&>"), "app.G_BOOL": data.Bool(true), "G_NULL": data.Null{}}

func htmlEsc(s string) string {
	var b strings.Builder
	for i := 0; i < len(s); i++ {
		switch s[i] {
		case '&':
			b.WriteString("&amp;")
		case '<':
			b.WriteString("&lt;")
		case '>':
			b.WriteString("&gt;")
		case '"':
			b.WriteString("&#34;")
		case '\'':
			b.WriteString("&#39;")
		default:
			b.WriteByte(s[i])
		}
	}
	return b.String()
}

// specResult is the parsed answer of op spec_eval
type specResult struct {
	class  string // ok err outofmodel ...
	agree  int
	next   int64
	truthy bool
	str    string // valid when strOK
	strCls string // s undef oom bad
	items  []string
	itemCl []string
	isList bool
	value  string
}

func parseStrField(f string) (cls, s string) {
	switch {
	case f == "undef", f == "oom", f == "bad":
		return f, ""
	case strings.HasPrefix(f, "s"):
		return "s", hx.UnH(orDash(f[1:]))
	}
	return "bad", ""
}

func orDash(s string) string {
	if s == "" {
		return "-"
	}
	return s
}

func parseSpec(r []string) specResult {
	var sr specResult
	if len(r) == 0 {
		sr.class = "bad"
		return sr
	}
	if strings.HasPrefix(r[0], "!") {
		sr.class = "bad:" + r[0]
		return sr
	}
	sr.class = r[0]
	if len(r) > 1 {
		sr.agree = int(hx.UnI(r[1]))
	}
	if sr.class != "ok" || len(r) < 7 {
		return sr
	}
	sr.next = hx.UnI(r[2])
	sr.truthy = r[3] == "#1"
	sr.strCls, sr.str = parseStrField(r[4])
	k := int(hx.UnI(r[5]))
	i := 6
	if k >= 0 {
		sr.isList = true
		for j := 0; j < k && i < len(r); j++ {
			c, s := parseStrField(r[i])
			sr.itemCl = append(sr.itemCl, c)
			sr.items = append(sr.items, s)
			i++
		}
	}
	sr.value = strings.Join(r[i:], " ")
	return sr
}

func (c *xcase) report(e *env) c01Case {
	ids := newIDTable()
	return c01Case{Group: c.group, Context: c.ctx.name, Expr: c.text, Tree: c.treeS, Derived: c.derivedS, Ast: c.astS, Closed: c.closed, Source: c.src,
		Data: valueSexp(c.dataMap, ids), Ij: valueSexp(c.ij, ids), Globals: valueSexp(c.globals, ids)}
}

// the data map restricted to the declared params
func xDataFor(src string, d *xData) data.Map {
	m := data.Map{}
	for _, mm := range refRe.FindAllStringSubmatch(src, -1) {
		if v, ok := d.vals[mm[1]]; ok {
			m[mm[1]] = v
		}
	}
	return m
}

// known-finding triggers (syntactic, on the tree)
func xTriggers(c *xcase) string {
	return ""
}

type expectation struct {
	kind string // "out" | "error" | "skip"
	out  string
	why  string
}

func runC01(e *env) {
	e.res.Rule = "expression trees (every binary operator x 23 operand representatives squared, unary/elvis/ternary likewise; the pairwise table: the 13 binary operators and ?: on every ordered pair of the 8 operand kinds, neg/not/ternary condition on every kind, operands as atoms and as composites; every built-in function x argument kinds and wrong arities; every operator nested in every operand position of every operator, minimal and redundant parentheses; random deep typed trees with 3% ill-typed sub-expressions) placed in 28 syntactic positions (implicit print, print, {{..}}, parenthesis, if, elseif, let, param, value= attribute, case, switch, foreach, directive arguments, data= attribute, map value, list item, [ ], ?[ ], function argument, ternary branches) over random data (null, booleans, small and 53-bit ints, floats from 2^-40 to 2^62 incl. the exponent-form thresholds and values like 0.1, ASCII/Unicode/HTML-special strings, nested lists and maps, injected data, globals). Expected output: extracted Spec on the tree + html escaping. Plus: the model's float printer against strconv on ~3900 float64 values, the model's IEEE + - * / against Go's float64 arithmetic on 1200 operand pairs. Non-trivial = every case; distinct by source text + data."
	ctxs := xContexts()
	byName := map[string]*xctx{}
	for i := range ctxs {
		byName[ctxs[i].name] = &ctxs[i]
	}
	if e.replay != "" {
		c01Replay(e, byName)
		return
	}
	st := &xstyle{r: e.rng, redundant: 0, tight: 30}
	g := &xgen{r: e.rng, st: st, ill: 0, globals: xGlobals, noRand: true}

	var cases []*xcase
	add := func(group string, tree *xe, ctx *xctx, d *xData, redundant int) {
		st.redundant = redundant
		c := &xcase{tree: tree, ctx: ctx, ij: d.ij, group: group, globals: xGlobals}
		c.treeS = tree.sexp()
		c.derivedS = ctx.derived(tree).sexp()
		c.astS = c.derivedS
		if ctx.astOf != nil {
			c.astS = ctx.astOf(tree).sexp()
		}
		c.closed = !tree.uses("ref") && !tree.uses("ij") && !tree.uses("global")
		c.emptyIdentity = tree.comparesEmptyFresh()
		st.attr = strings.Contains(ctx.name, "-attr")
		c.text = tree.src(st, 0)
		if st.attr && strings.ContainsAny(c.text, "\\\"\n\r\t") {
			// not expressible inside a quoted attribute: use the unquoted form of the position
			st.attr = false
			ctx = map[string]*xctx{"data-attr": byName["print"], "param-value-attr": byName["param"]}[ctx.name]
			c.ctx = ctx
			c.derivedS = ctx.derived(tree).sexp()
			c.astS = c.derivedS
			c.text = tree.src(st, 0)
		}
		st.attr = false
		if ctx.name == "foreach" && strings.HasPrefix(c.text, "-") {
			// documented exclusion (DESIGN C01): after "in" -- lexed as an identifier -- a leading minus is read as the binary operator
			c.text = "(" + c.text + ")"
		}
		c.src = xBuildSource(ctx, c.text)
		c.dataMap = xDataFor(c.src, d)
		cases = append(cases, c)
	}
	anyCtx := func(k xkind) *xctx {
		for {
			c := &ctxs[e.rng.Intn(len(ctxs))]
			if c.want == xkAny || c.want == k {
				return c
			}
		}
	}
	printCtxs := []*xctx{byName["implicit-print"], byName["print"], byName["let"], byName["param"], byName["if"], byName["parenthesis"], byName["list-item"], byName["map-value"], byName["ternary-else"], byName["function-arg"]}

	d0 := xGenData(e.rng)
	// 1. operator x operand kinds: each cell in one print-like position, cycling
	for i, t := range g.operatorMatrix() {
		add("operator-matrix", t, printCtxs[i%len(printCtxs)], d0, 0)
	}
	// 2. functions x argument kinds
	for i, t := range g.functionMatrix() {
		add("function-matrix", t, printCtxs[i%3], d0, 0)
	}
	// 3. two-level nesting, minimal and redundant parentheses, in every position
	for rep := 0; rep < e.scale; rep++ {
		for i, t := range g.nestingMatrix() {
			add("nesting-minimal", t, anyCtx(xkAny), d0, 0)
			add("nesting-redundant", xClone(t), printCtxs[i%len(printCtxs)], d0, 40)
		}
	}
	// 3b. NaN, infinities and the negative zero under every operator that looks at a number
	for i, t := range g.specialFloats() {
		add("special-floats", t, printCtxs[i%len(printCtxs)], d0, 0)
	}
	// 3c. short-circuit and evaluation order made visible by operands without a value
	for i, t := range g.shortCircuit() {
		add("short-circuit", t, printCtxs[i%len(printCtxs)], d0, 0)
	}
	// 4. every position x every kind of expression (shallow)
	for rep := 0; rep < 40*e.scale; rep++ {
		for ci := range ctxs {
			k := ctxs[ci].want
			if k == xkAny {
				k = xkind(e.rng.Intn(7))
			}
			g.ill = 10
			add("position", g.gen(k, 2), &ctxs[ci], xGenData(e.rng), 10*(rep%2))
		}
	}
	// 5. random deep trees
	for i := 0; i < 3000*e.scale; i++ {
		g.ill = 3
		k := xkind(e.rng.Intn(7))
		c := anyCtx(k)
		if c.want != xkAny {
			k = c.want
		}
		add("deep", g.gen(k, 2+e.rng.Intn(4)), c, xGenData(e.rng), []int{0, 0, 15, 50}[e.rng.Intn(4)])
	}
	// 6. the pairwise table: every operator x every ordered pair of operand KINDS, operands as atoms and as composites
	// (generated last, so that the groups above draw the same random numbers as before the table existed)
	for rep := 0; rep < e.scale; rep++ {
		for i, t := range g.pairwiseTable() {
			add("pairwise", t, printCtxs[i%len(printCtxs)], d0, 0)
		}
	}
	c01Run(e, cases)
	c01Coverage(e, cases)
	c01FloatStrings(e)
	c01FloatArith(e)
	c01SkipNotes(e)
}

// c01Coverage asks the Spec for the kinds of the operands of every operator node of every generated tree and
// prints the operator x operand-kind matrix: once for the systematic groups, once for the random trees.
func c01Coverage(e *env, cases []*xcase) {
	reqs := make([]string, 0, len(cases))
	for _, c := range cases {
		reqs = append(reqs, strings.Replace(c.specReq(c.treeS, newIDTable()), "spec_eval", "spec_kinds", 1))
	}
	resp := e.m.Batch(reqs)
	sys, rnd, all := newCover(), newCover(), newCover()
	for i, c := range cases {
		r := resp[i]
		if len(r) > 0 && strings.HasPrefix(r[0], "!") {
			c01Fail(e, hx.Violation{Kind: "mismatch", What: "model runner failed on spec_kinds", Case: c.report(e), Observed: r[0]}, "")
			continue
		}
		all.add(r)
		switch c.group {
		case "operator-matrix", "pairwise":
			sys.add(r)
		case "deep", "position":
			rnd.add(r)
		}
	}
	sys.notes(e, "SYSTEMATIC groups (operator-matrix, pairwise)")
	rnd.notes(e, "RANDOM trees (groups deep, position)")
	reached, total, missing := all.binCells()
	e.res.Histogram["operator-x-kind-pair cells reached (14 binary operators x 8 x 8 value kinds)"] = reached
	e.res.Histogram["operator-x-kind-pair cells in the table"] = total
	rr, _, _ := rnd.binCells()
	e.res.Histogram["operator-x-kind-pair cells reached by the random trees alone"] = rr
	if len(missing) > 0 {
		// the table is built so that every cell is reached; a hole means the generator changed
		e.res.Note("operator x kind cells NOT reached: %s", strings.Join(missing, " "))
		c01Fail(e, hx.Violation{Kind: "mismatch", What: "the pairwise table no longer reaches every operator x operand-kind cell", Observed: strings.Join(missing, " ")}, "")
	}
	var fns []string
	for k := range all.fnArg {
		fns = append(fns, k)
	}
	e.res.Histogram["function x argument-kind combinations reached"] = len(fns)
	// per function and arity: how many of the 8^arity combinations of VALUE kinds were reached (X / O combinations not counted)
	per := map[string]map[string]bool{}
	for _, k := range fns {
		p := strings.Split(k, ":") // fn name kinds...
		if len(p) < 2 || strings.ContainsAny(strings.Join(p[2:], ""), "XO") {
			continue
		}
		key := p[1] + "/" + strconv.Itoa(len(p)-2)
		if per[key] == nil {
			per[key] = map[string]bool{}
		}
		per[key][strings.Join(p[2:], "")] = true
	}
	var keys []string
	for k := range per {
		keys = append(keys, k)
	}
	sort.Strings(keys)
	var parts []string
	for _, k := range keys {
		ar, _ := strconv.Atoi(k[strings.IndexByte(k, '/')+1:])
		total := 1
		for i := 0; i < ar; i++ {
			total *= 8
		}
		parts = append(parts, fmt.Sprintf("%s: %d of %d", k, len(per[k]), total))
	}
	e.res.Note("functions (name/number of arguments: argument-kind combinations reached of 8^n, kinds as the Spec evaluates the arguments): %s", strings.Join(parts, "; "))
}

// c01SkipNotes: how many generated cases the oracle had to skip, and why.
func c01SkipNotes(e *env) {
	h := e.res.Histogram
	cases := h["expect:error"] + h["expect:output"]
	skipped, numeric, printing := 0, 0, 0
	for k, v := range h {
		if strings.HasPrefix(k, "outside-domain:") {
			skipped += v
			cases += v
			if strings.Contains(k, "numeric-model") {
				numeric += v
			}
			if strings.Contains(k, "float-outside-printing-domain") {
				printing += v
			}
		}
	}
	if cases == 0 {
		return
	}
	pct := func(n int) string { return strconv.FormatFloat(100*float64(n)/float64(cases), 'f', 2, 64) + "%" }
	e.res.Note("skipped by the oracle: %d of %d expression cases (%s); of these outside the numeric model (int64 overflow, randomInt, round with digits, a float beyond the exponent range, a function on a value it cannot treat exactly): %d (%s), "+
		"float outside the printing domain: %d (%s). Cases with a float outside the OLD printing domain (|x| >= 10^6 or more than 9 fraction bits) among literals and data: %d, of which %d are checked against an expected output or error "+
		"(%d expected texts contain a float in exponent form). "+
		"HISTORY (quick tier, default seed): (a) commit e7d64ae -- printing modelled only for |x| < 10^6 with at most 9 fraction bits, float results only when exact, generator confined to |x| < 2^11 with 6 fraction bits: 291 of 15713 skipped (1.85%%): numeric model 246, printing domain 10, other 35; "+
		"(b) Num.fl_to_string for every finite float64, the same 15713 cases (VERIF_C01_NARROW_FLOATS=1, groups other than pairwise): 279 skipped (1.78%%), printing domain 0; with the widened float generator 345 of 17553 (1.97%%), numeric model 309; "+
		"(c) now: + - * / rounded as IEEE 754 prescribes (Num.fl_add_r ...), an inexact float result is no longer outside the model.",
		skipped, cases, pct(skipped), numeric, pct(numeric), printing, pct(printing),
		h["wide-float cases (a float literal or data value with |x| >= 10^6 or more than 9 fraction bits: outside the printing domain of the model before)"],
		h["wide-float cases checked (expected: error)"]+h["wide-float cases checked (expected: output)"], h["wide-float cases whose expected text has a float in exponent form"])
}

func globalsSexp(g data.Map) string { return valueSexp(g, newIDTable()) }

// the four sections of a spec_eval request for expression x of case c
func (c *xcase) specReq(x string, ids *idTable) string {
	return "spec_eval #1000000 " + valueSexp(c.globals, ids) + " ; " + valueSexp(c.dataMap, ids) + " ; " + valueSexp(c.ij, ids) + " ; " + x
}

func c01Run(e *env, cases []*xcase) {
	// model side first, batched
	reqs := make([]string, 0, 2*len(cases))
	for _, c := range cases {
		ids := newIDTable()
		reqs = append(reqs, c.specReq(c.derivedS, ids))
		ids2 := newIDTable()
		reqs = append(reqs, c.specReq(c.treeS, ids2))
	}
	resp := e.m.Batch(reqs)
	for i, c := range cases {
		c01One(e, c, parseSpec(resp[2*i]), parseSpec(resp[2*i+1]))
		if c01Abort {
			e.res.Note("run stopped after case %d: a render did not return", i)
			return
		}
	}
}

func c01One(e *env, c *xcase, sd, st specResult) {
	cons := map[string]bool{}
	if c.tree != nil {
		c.tree.constructs(cons)
	}
	key := c.src + "|" + valueSexp(c.dataMap, newIDTable())
	e.res.Count(key, true, "group:"+c.group)
	e.res.Histogram["position:"+c.ctx.name]++
	for k := range cons {
		e.res.Histogram[k]++
	}
	if os.Getenv("VERIF_TRACE") != "" {
		fmt.Fprintf(os.Stderr, "CASE %s %s %q\n", c.group, c.ctx.name, c.text)
	}
	rc := func() c01Case { return c.report(e) }

	// --- Spec vs tree walker on to_node(tree): the statement of eval_impl_spec, evaluated ---
	for _, s := range []specResult{sd, st} {
		if strings.HasPrefix(s.class, "bad") {
			c01Fail(e, hx.Violation{Kind: "mismatch", What: "model runner failed on spec_eval", Case: rc(), Observed: s.class}, "")
			return
		}
		if s.agree == 0 {
			c01Fail(e, hx.Violation{Kind: "mismatch", What: "Spec and tree-walker model disagree on to_node(tree) (eval_impl_spec)", Case: rc(), Observed: s.class + " " + s.value}, "")
		}
	}

	// --- compile ---
	b := soy.NewBundle().AddTemplateString("c01.soy", c.src).AddGlobalsMap(c.globals)
	reg, err := func() (reg *template.Registry, err error) {
		defer func() {
			if r := recover(); r != nil {
				err = fmt.Errorf("PANIC: %v", r)
			}
		}()
		return b.Compile()
	}()
	if err != nil {
		e.res.Histogram["compile-rejected"]++
		c01Fail(e, hx.Violation{Kind: "oracle", What: "a valid expression is rejected by the compiler in position " + c.ctx.name, Case: rc(), Observed: errStr(err)}, xCompileFinding(c))
		return
	}
	tofu := soyhtml.NewTofu(reg)

	// --- the parser's tree ---
	var tmpl *template.Template
	for i := range reg.Templates {
		if reg.Templates[i].Node.Name == "t.m" {
			tmpl = &reg.Templates[i]
		}
	}
	if tmpl != nil {
		if body := tmpl.Node.Body; body != nil {
			if n := c.ctx.find(body.Nodes); n != nil {
				ids := newIDTable()
				r := e.m.Call("to_node_check", valueSexp(c.globals, ids), ";", c.astS, ";", nodeSexp(n, ids))
				if len(r) == 0 || r[0] != "#1" {
					c01Fail(e, hx.Violation{Kind: "oracle", What: "the parser builds a different tree than the expression denotes (precedence, associativity or literal reading) in position " + c.ctx.name,
						Case: rc(), Expected: c.astS, Observed: nodeSexp(n, newIDTable())}, "")
				}
			} else {
				c01Fail(e, hx.Violation{Kind: "mismatch", What: "cannot locate the expression in the compiled template", Case: rc()}, "")
			}
		}
	}

	// --- render ---
	out, rerr, hung := renderWithin(tofu, "t.m", c.dataMap, c.ij, 5*time.Second)
	if hung {
		// the render goroutine is still running (and may be allocating): report and stop the run
		c01Fail(e, hx.Violation{Kind: "oracle", What: "Render does not return within 5 s", Case: rc()}, "")
		c01Abort = true
		return
	}
	if isPanicErr(rerr) {
		c01Fail(e, hx.Violation{Kind: "oracle", What: "panic escaped Render", Case: rc(), Observed: errStr(rerr)}, "")
		return
	}

	// --- expected output from the Spec ---
	ex := c.expect(e, sd)
	wide := c.tree != nil && (c.tree.hasWideFloat() || dataHasWideFloat(c.dataMap))
	if wide {
		e.res.Histogram["wide-float cases (a float literal or data value with |x| >= 10^6 or more than 9 fraction bits: outside the printing domain of the model before)"]++
	}
	if c.emptyIdentity {
		// ledger I12: the statement does not fix the identity of an empty list ([] == [] is true here, false in the reference implementations)
		ex = expectation{kind: "skip", why: "identity-of-empty-fresh-lists-unspecified"}
	}
	switch ex.kind {
	case "skip":
		e.res.Histogram["outside-domain:"+ex.why]++
		e.res.Histogram["skipped-in-group:"+c.group]++
	case "error":
		e.res.Histogram["expect:error"]++
		if wide {
			e.res.Histogram["wide-float cases checked (expected: error)"]++
		}
		if rerr == nil {
			c01Fail(e, hx.Violation{Kind: "oracle", What: "the language gives the expression no value (" + ex.why + ") but the render succeeds", Case: rc(), Expected: "error", Observed: hx.Q(out)}, xFinding(c, ex, out, rerr))
		} else if out != "" {
			c01Fail(e, hx.Violation{Kind: "oracle", What: "render error, but text was produced for the expression", Case: rc(), Expected: "error and no text", Observed: hx.Q(out)}, "")
		}
	case "out":
		e.res.Histogram["expect:output"]++
		if wide {
			e.res.Histogram["wide-float cases checked (expected: output)"]++
			if strings.Contains(ex.out, "e+") || strings.Contains(ex.out, "e-") {
				e.res.Histogram["wide-float cases whose expected text has a float in exponent form"]++
			}
		}
		if rerr != nil {
			c01Fail(e, hx.Violation{Kind: "oracle", What: "the render returns an error for an expression that has a value", Case: rc(), Expected: hx.Q(ex.out), Observed: "error: " + firstLine(errStr(rerr))}, xFinding(c, ex, out, rerr))
		} else if out != ex.out {
			c01Fail(e, hx.Violation{Kind: "oracle", What: "rendered text differs from the text the language defines", Case: rc(), Expected: hx.Q(ex.out), Observed: hx.Q(out)}, xFinding(c, ex, out, rerr))
		}
	}
	if e.res.Evaluations%997 == 1 {
		e.res.Sample(map[string]interface{}{"position": c.ctx.name, "expr": c.text, "tree": c.treeS, "spec": sd.class + " " + sd.value, "output": hx.Q(out), "error": firstLine(errStr(rerr))})
	}

	// --- model of the renderer on the compiled registry vs robfig/soy ---
	if ex.kind != "skip" {
		ids := newIDTable()
		rk := "c01"
		if r := e.m.Call("load_registry", rk, registrySexp(reg, ids)); len(r) == 0 || r[0] != "#1" {
			c01Fail(e, hx.Violation{Kind: "mismatch", What: "model cannot load the registry", Case: rc(), Observed: fmt.Sprint(r)}, "")
		} else {
			r := e.m.Call("render", rk, sx("t.m"), "#4000", "none", "none", "-", valueSexp(c.ij, ids), ";", valueSexp(c.dataMap, ids))
			if len(r) >= 5 {
				cls := strings.Split(r[0], ",")[0]
				var mo strings.Builder
				for _, f := range r[5:] {
					mo.WriteString(hx.UnH(f))
				}
				switch {
				case cls == "outofmodel":
					e.res.Histogram["render-model:outofmodel"]++
				case cls == "ok" && (rerr != nil || mo.String() != out), cls == "err" && (rerr == nil || mo.String() != out):
					c01Fail(e, hx.Violation{Kind: "mismatch", What: "renderer model and robfig/soy disagree", Case: rc(), Expected: cls + " " + hx.Q(mo.String()), Observed: hx.Q(out) + " " + firstLine(errStr(rerr))}, "")
				case cls != "ok" && cls != "err":
					c01Fail(e, hx.Violation{Kind: "mismatch", What: "renderer model outcome " + r[0], Case: rc()}, "")
				}
			} else {
				c01Fail(e, hx.Violation{Kind: "mismatch", What: "model render failed", Case: rc(), Observed: fmt.Sprint(r)}, "")
			}
		}
	}

	// --- closed expressions: the VALUE (kind included) through soyhtml.EvalExpr ---
	if c.closed && !c.emptyIdentity && st.class != "outofmodel" {
		node, perr := parse.Expr(c.text)
		if perr != nil {
			c01Fail(e, hx.Violation{Kind: "oracle", What: "parse.Expr rejects a valid expression", Case: rc(), Observed: errStr(perr)}, xCompileFinding(c))
		} else {
			v, verr := func() (v data.Value, err error) {
				defer func() {
					if r := recover(); r != nil {
						err = fmt.Errorf("PANIC: %v", r)
					}
				}()
				return soyhtml.EvalExpr(node)
			}()
			e.res.Histogram["evalexpr"]++
			// the tree-walker model on the parsed node (op eval_expr) against soyhtml.EvalExpr
			if mr := e.m.Call("eval_expr", "#300", nodeSexp(node, newIDTable())); len(mr) > 0 && !isPanicErr(verr) {
				switch mr[0] {
				case "ok":
					mv := canonIDs(strings.Join(mr[1:], " "), 1)
					if verr != nil || canonIDs(valueSexp(v, newIDTable()), 1) != mv {
						c01Fail(e, hx.Violation{Kind: "mismatch", What: "tree-walker model (eval_expr) and soyhtml.EvalExpr disagree", Case: rc(), Expected: mv, Observed: fmt.Sprint(valueSexp(v, newIDTable()), " ", firstLine(errStr(verr)))}, "")
					}
				case "err":
					if verr == nil {
						c01Fail(e, hx.Violation{Kind: "mismatch", What: "tree-walker model (eval_expr) reports an error, soyhtml.EvalExpr returns a value", Case: rc(), Observed: valueSexp(v, newIDTable())}, "")
					}
				case "outofmodel":
				default:
					c01Fail(e, hx.Violation{Kind: "mismatch", What: "tree-walker model (eval_expr) outcome " + mr[0], Case: rc()}, "")
				}
			}
			switch {
			case isPanicErr(verr) && st.class == "err":
				// EvalExpr's error path dereferences a nil template (ledger I7, property C06): an error all the same
				e.res.Histogram["evalexpr:error-path-panics(I7)"]++
			case isPanicErr(verr):
				c01Fail(e, hx.Violation{Kind: "oracle", What: "soyhtml.EvalExpr panics on an expression that has a value", Case: rc(), Expected: st.value, Observed: errStr(verr)}, "")
			case st.class == "err" && verr == nil:
				c01Fail(e, hx.Violation{Kind: "oracle", What: "EvalExpr returns a value where the language gives none", Case: rc(), Observed: valueSexp(v, newIDTable())}, "")
			case st.class == "ok" && verr != nil:
				c01Fail(e, hx.Violation{Kind: "oracle", What: "EvalExpr fails on an expression that has a value", Case: rc(), Expected: st.value, Observed: firstLine(errStr(verr))}, "")
			case st.class == "ok":
				got := canonIDs(valueSexp(v, newIDTable()), 1)
				want := canonIDs(st.value, 1)
				if got != want {
					c01Fail(e, hx.Violation{Kind: "oracle", What: "EvalExpr returns a different value than the language defines", Case: rc(), Expected: st.value, Observed: valueSexp(v, newIDTable())}, "")
				}
			}
		}
	}
}

var c01Abort bool

// renderWithin runs one render in a goroutine so that a render that never returns is reported, not waited for.
func renderWithin(tofu *soyhtml.Tofu, name string, d data.Map, ij data.Map, limit time.Duration) (out string, err error, hung bool) {
	type res struct {
		out string
		err error
	}
	ch := make(chan res, 1)
	go func() {
		o, e := render(tofu, name, d, ij)
		ch <- res{o, e}
	}()
	select {
	case r := <-ch:
		return r.out, r.err, false
	case <-time.After(limit):
		return "", nil, true
	}
}

func firstLine(s string) string {
	if i := strings.IndexByte(s, '\n'); i >= 0 {
		s = s[:i]
	}
	if len(s) > 200 {
		s = s[:200]
	}
	return s
}

// expect computes the output the language defines for the case from the Spec's answer on the derived expression.
func (c *xcase) expect(e *env, sd specResult) expectation {
	switch sd.class {
	case "outofmodel":
		return expectation{kind: "skip", why: "numeric-model(int64-overflow,randomInt,round-with-digits,float-exponent-range,int-beyond-2^53-as-float)"}
	case "err":
		return expectation{kind: "error", why: "Spec: no value"}
	case "ok":
	default:
		return expectation{kind: "skip", why: "spec-" + sd.class}
	}
	printed := func(cls, s string) expectation {
		switch cls {
		case "s":
			return expectation{kind: "out", out: htmlEsc(s)}
		case "undef":
			return expectation{kind: "error", why: "printing undefined"}
		}
		return expectation{kind: "skip", why: "float-outside-printing-domain"}
	}
	switch c.ctx.mode {
	case "print":
		return printed(sd.strCls, sd.str)
	case "truthy":
		if sd.truthy {
			return expectation{kind: "out", out: "T"}
		}
		return expectation{kind: "out", out: "F"}
	case "items":
		if !sd.isList {
			return expectation{kind: "error", why: "foreach over a non-list"}
		}
		if len(sd.items) == 0 {
			return expectation{kind: "out", out: "E"}
		}
		var b strings.Builder
		for i, s := range sd.items {
			switch sd.itemCl[i] {
			case "s":
				b.WriteString("[" + htmlEsc(s) + "]")
			case "undef":
				// text of earlier items may precede the error: the oracle only demands the error
				return expectation{kind: "skip", why: "undefined-list-item"}
			default:
				return expectation{kind: "skip", why: "float-outside-printing-domain"}
			}
		}
		return expectation{kind: "out", out: b.String()}
	case "dir1", "dir2":
		// the directive's own semantics is C16's subject: the expected text comes from the directive model
		arg := ""
		v, err := sexpToValue(sd.value, nil)
		if err != nil {
			return expectation{kind: "skip", why: "value-unreadable"}
		}
		switch x := v.(type) {
		case data.Int:
			arg = "#" + strconv.FormatInt(int64(x), 10)
		case data.Bool:
			arg = "F"
			if x {
				arg = "T"
			}
		default:
			return expectation{kind: "skip", why: "directive-argument-of-another-type"}
		}
		var r []string
		if c.ctx.mode == "dir1" {
			if x, ok := v.(data.Int); !ok || x < 0 || x > 1000 {
				return expectation{kind: "skip", why: "directive-argument-out-of-range"}
			}
			r = e.m.Call("print", "#0", hx.H("abcdefghijklmnopqrstuvwxyz"), "D"+hx.H("truncate"), arg)
		} else {
			if _, ok := v.(data.Bool); !ok {
				return expectation{kind: "skip", why: "directive-argument-of-another-type"}
			}
			r = e.m.Call("print", "#0", hx.H("abcdefghijklmnopqrstuvwxyz"), "D"+hx.H("truncate"), "#8", arg)
		}
		if len(r) == 0 || r[0] != "ok" {
			return expectation{kind: "skip", why: "directive-model-" + strings.Join(r, ",")}
		}
		var b strings.Builder
		for _, f := range r[1:] {
			b.WriteString(hx.UnH(f))
		}
		return expectation{kind: "out", out: b.String()}
	case "data":
		// the callee prints $k ?: 'nokey' of the passed map
		if !strings.HasPrefix(sd.value, "(vm ") {
			return expectation{kind: "error", why: "data= is not a map"}
		}
		ids := newIDTable()
		req := "spec_eval #" + strconv.FormatInt(sd.next, 10) + " (vm 0) ; (vm 999999 (" + sx("__d") + " " + sd.value + ")) ; none ; " +
			xElvis(xRef("__d", aKey(false, "k")), xStr(nil, "nokey")).sexp()
		_ = ids
		r2 := parseSpec(e.m.Call(strings.Fields(req)...))
		if r2.class != "ok" {
			return expectation{kind: "skip", why: "data-second-step-" + r2.class}
		}
		return printed(r2.strCls, r2.str)
	}
	return expectation{kind: "skip", why: "unknown-mode"}
}

// ---------- known findings (narrow, syntactic triggers) ----------

func xCompileFinding(c *xcase) string { return "" }

func xFinding(c *xcase, ex expectation, out string, rerr error) string { return "" }

// ---------- replay ----------

func c01Replay(e *env, byName map[string]*xctx) {
	bs, err := os.ReadFile(e.replay)
	if err != nil {
		c01Fail(e, hx.Violation{Kind: "mismatch", What: "cannot read the replay file: " + err.Error()}, "")
		return
	}
	var rp struct {
		Case c01Case `json:"case"`
	}
	if err := json.Unmarshal(bs, &rp); err != nil || rp.Case.Source == "" {
		c01Fail(e, hx.Violation{Kind: "mismatch", What: "replay file has no C01 case"}, "")
		return
	}
	k := rp.Case
	ctx, ok := byName[k.Context]
	if !ok {
		c01Fail(e, hx.Violation{Kind: "mismatch", What: "unknown position " + k.Context}, "")
		return
	}
	objs := map[int]data.Value{}
	toMap := func(s string) data.Map {
		v, err := sexpToValue(s, objs)
		if err != nil {
			return data.Map{}
		}
		m, _ := v.(data.Map)
		return m
	}
	c := &xcase{ctx: ctx, text: k.Expr, src: k.Source, treeS: k.Tree, derivedS: k.Derived, astS: k.Ast, closed: k.Closed,
		dataMap: toMap(k.Data), ij: toMap(k.Ij), globals: toMap(k.Globals), group: k.Group}
	c01Run(e, []*xcase{c})
}

// c01Fail records a failure and counts it by kind of failure, so that the evidence shows the whole distribution.
func c01Fail(e *env, v hx.Violation, known string) {
	tag := v.What
	if i := strings.Index(tag, " in position "); i >= 0 {
		tag = tag[:i]
	}
	if len(tag) > 70 {
		tag = tag[:70]
	}
	e.res.Histogram["fail:"+v.Kind+":"+tag]++
	e.res.Fail(v, known)
}

// floats outside the printing domain the model had before it covered every float64
func wideFloat(f float64) bool {
	if f == 0 || f != f {
		return false
	}
	a := f
	if a < 0 {
		a = -a
	}
	if a >= 1e6 {
		return true
	}
	x := a * 512
	return x != float64(int64(x))
}

func (e *xe) hasWideFloat() bool {
	if e.op == "float" && wideFloat(e.f) {
		return true
	}
	for _, a := range e.accs {
		if a.kind == 'x' && a.e.hasWideFloat() {
			return true
		}
	}
	for _, k := range e.kids {
		if k.hasWideFloat() {
			return true
		}
	}
	return false
}

func dataHasWideFloat(v data.Value) bool {
	switch x := v.(type) {
	case data.Float:
		return wideFloat(float64(x))
	case data.List:
		for _, y := range x {
			if dataHasWideFloat(y) {
				return true
			}
		}
	case data.Map:
		for _, y := range x {
			if dataHasWideFloat(y) {
				return true
			}
		}
	}
	return false
}
