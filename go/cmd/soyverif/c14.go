//go:build c14

package main

// C14 - generated JavaScript is well-formed and preserves every literal.
//
// For every accepted bundle (the structured program generator with all
// features, plus a literal-heavy stream of "echo" templates whose result is a
// known string) every file is translated by the real soyjs.Write under the
// ES5 and the ES6 formatter, with and without a message bundle, and
//   * the model's text (coq/Model/JsGen.v) must equal those bytes   (mismatch)
//   * node must compile every generated file, find one function per
//     template under its qualified name, and every echo template must return
//     exactly the original string                                      (oracle)

import (
	"fmt"
	"os"
	"strings"
	"time"
	"unicode"
	"unicode/utf8"

	"soyverif/internal/hx"
)

func init() { props["C14"] = runC14 }

const c14FindingAstral = "js-literal-astral-nonprint-5hex"
const c14FindingProto = "js-mapkey-proto"
const c14FindingReserved = "js-namespace-reserved-word"

var c14Reserved = map[string]bool{}

func init() {
	for _, w := range strings.Fields("break case catch class const continue debugger default delete do else enum export extends false finally for function if import in instanceof new null return super switch this throw true try typeof var void while with yield let static implements interface package private protected public await") {
		c14Reserved[w] = true
	}
}

// c14ReservedNamespace: some file's namespace starts with an ECMAScript reserved word.
func c14ReservedNamespace(b *c14Bundle) bool {
	for _, f := range b.Files {
		i := strings.Index(f.Text, "{namespace ")
		if i < 0 {
			continue
		}
		rest := f.Text[i+len("{namespace "):]
		j := strings.IndexAny(rest, ". }\t\n")
		if j > 0 && c14Reserved[rest[:j]] {
			return true
		}
	}
	return false
}

// j10Trigger14: the string contains a rune >= U+10000 for which unicode.IsPrint is false.
func c14AstralNonPrint(s string) bool {
	for _, r := range s {
		if r >= 0x10000 && !unicode.IsPrint(r) {
			return true
		}
	}
	return false
}

// ---------- the literal pool ----------

func c14Strings(e *env) []string {
	var l []string
	add := func(s ...string) { l = append(l, s...) }
	// every ASCII byte alone and embedded
	for c := 0; c < 128; c++ {
		add(string(rune(c)), "a"+string(rune(c))+"b")
	}
	var all strings.Builder
	for c := 0; c < 128; c++ {
		all.WriteByte(byte(c))
	}
	add(all.String())
	add("\u2028", "\u2029", "a\u2028b\u2029c", "\u2028\u2028", "x\u2029")
	add(`'`, `"`, `\`, `\\`, `\'`, `\"`, `'"`, `"'`, `\n`, "\\u2028", `\x41`, `\`+"\n", `a\`, `'+alert(1)+'`, `";alert(1);//`, `'';`, `\\'`, `it's "q" \ done`)
	add("</script>", "</SCRIPT>", "<script>", "<!--", "-->", "]]>", "<![CDATA[", "</", "<\\/script>", "x</script><script>alert(1)</script>")
	add("\U0001F600", "\U00010000", "a\U0001F600b", "\U0001F600\U0001F601", "\U0002A6D6", "\U000E0001", "\U000F0000", "\U0010FFFF", "a\U000F0000b", "\U00100000")
	add("\u0080", "\u0085", "\u00A0", "\u00AD", "\u200B", "\u200E", "\uFEFF", "\uFFFE", "\uFFFF", "\uD7FF", "\uE000", "\u0378", "\u00E9", "\u65E5\u672C\u8A9E", "\u0301", "\uFFFD")
	add("//", "/*", "*/", "/* c */", "// c", "a // b", "a /* b */ c", "http://x/y", "{", "}", "{}", "{$x}", "{{", "}}", "{literal}", "{/literal", "{sp}", "{\\n}", "${x}", "`", "`${1}`")
	add(" ", "  ", " a", "a ", " a ", "a  b", "\t", "a\tb", "a\n b", "a \nb", "\n", "\r\n", "a\r\nb", ",", "a,b", "a, b", ":", "a:b", "=", "a=b", "&", "&amp;", "<b>", "1 < 2 > 0", "%", "%s", "%!", "$", "$$", "$1", "$&")
	add("null", "true", "undefined", "0", "-1", "1e3", "NaN", "constructor", "__proto__", "toString", "hasOwnProperty", "length", "if", "class", "default", "")
	add(strings.Repeat("a", 65536), strings.Repeat("'\"\\\n\u2028</script>\U0001F600", 4096), strings.Repeat("\u00E9", 40000))
	// long strings of multi-byte characters at every byte alignment (a cut at a fixed byte offset must fall inside one)
	for off := 0; off < 4; off++ {
		pad := strings.Repeat("x", off)
		add(pad+strings.Repeat("\u00e9", 3000), pad+strings.Repeat("\u2028", 2500), pad+strings.Repeat("\U0001F600", 1500), pad+strings.Repeat("\u65e5'\u00e9\\\U0001F600", 700))
	}
	alphabet := []string{"'", "\"", "\\", "\n", "\r", "\t", "\x00", "\x01", "\x7f", "<", ">", "&", "=", "/", "*", "{", "}", " ", "a", "Z", "0", "\u2028", "\u2029", "\u00E9", "\u00AD", "\U0001F600", "</script>", "\u200B", ",", ":", "$", "`", ";", "(", ")", "+", "-", "%", "#", "|", "?"}
	n := 120 * e.scale
	for i := 0; i < n; i++ {
		var sb strings.Builder
		k := 1 + e.rng.Intn(12)
		for j := 0; j < k; j++ {
			sb.WriteString(alphabet[e.rng.Intn(len(alphabet))])
		}
		add(sb.String())
	}
	return l
}

// ---------- echo templates ----------

// c14EchoBody gives the template body that echoes s in the given context, or ok=false
// when s cannot be written there.  ctx: raw-literal raw-plain strlit strlit-concat mapkey
// mapkey-lookup css msg-literal msg-plain msg-tag global global-mapkey global-list param let-content
func c14EchoBody(ctx, s string, gname string) (body string, globals map[string]interface{}, ok bool) {
	body, globals, _, ok = c14EchoBodyW(ctx, s, gname)
	return
}

// c14EchoBodyW also returns the string the template denotes.
func c14EchoBodyW(ctx, s string, gname string) (body string, globals map[string]interface{}, want string, ok bool) {
	want = s
	switch ctx {
	case "raw-literal":
		if strings.Contains(s, "{/literal}") {
			return "", nil, "", false
		}
		return "{literal}" + s + "{/literal}", nil, want, true
	case "raw-plain":
		if strings.ContainsAny(s, "{}") || s == "" {
			return "", nil, "", false
		}
		return s, nil, want, true
	case "strlit":
		return "{" + c14SoyStr(s) + "}", nil, want, true
	case "strlit-concat":
		return "{'' + " + c14SoyStr(s) + " + ''}", nil, want, true
	case "mapkey":
		return "{let $m: [" + c14SoyStr(s) + ": 'v'] /}{foreach $k in keys($m)}{$k}{/foreach}", nil, want, true
	case "mapkey-lookup":
		// the value is reached only through the key: prints s when the emitted key denotes s
		return "{let $m: [" + c14SoyStr(s) + ": " + c14SoyStr(s) + ", 'zz': 'other'] /}{$m[" + c14SoyStr(s) + "]}", nil, want, true
	case "css":
		if strings.ContainsAny(s, "},") || strings.TrimSpace(s) != s || s == "" {
			return "", nil, "", false
		}
		return "{css " + s + "}", nil, want, true
	case "msg-literal":
		if strings.Contains(s, "{/literal}") {
			return "", nil, "", false
		}
		return `{msg desc="d"}{literal}` + s + "{/literal}{/msg}", nil, want, true
	case "msg-plain":
		if strings.ContainsAny(s, "{}") || s == "" {
			return "", nil, "", false
		}
		return `{msg desc="d"}` + s + "{/msg}", nil, want, true
	case "msg-tag":
		if strings.ContainsAny(s, "{}<>") {
			return "", nil, "", false
		}
		return `{msg desc="d"}<a title="` + s + `">{/msg}`, nil, `<a title="` + s + `">`, true
	case "msg-bundle":
		// the string is the translation; the source text is something else
		return `{msg desc="d"}source text ` + gname + `{/msg}`, nil, want, true
	case "global":
		return "{" + gname + "}", map[string]interface{}{gname: s}, want, true
	case "global-mapkey":
		return "{foreach $k in keys(" + gname + ")}{$k}{/foreach}", map[string]interface{}{gname: map[string]interface{}{s: 1}}, want, true
	case "global-list":
		return "{foreach $k in " + gname + "}{$k}{/foreach}", map[string]interface{}{gname: []interface{}{s}}, want, true
	case "let-content":
		if strings.Contains(s, "{/literal}") {
			return "", nil, "", false
		}
		return "{let $c}{literal}" + s + "{/literal}{/let}{$c}", nil, want, true
	case "switch-case":
		return "{switch " + c14SoyStr(s) + "}{case " + c14SoyStr(s) + "}{" + c14SoyStr(s) + "}{default}WRONG{/switch}", nil, want, true
	}
	return "", nil, "", false
}

var c14Contexts = []string{"raw-literal", "raw-plain", "strlit", "strlit-concat", "mapkey", "mapkey-lookup", "css", "msg-literal", "msg-plain", "msg-tag", "msg-bundle", "global", "global-mapkey", "global-list", "let-content", "switch-case"}

// c14SoyStr writes s as a Soy string literal; characters the lexer would not
// take raw are written with the escapes of the language.
func c14SoyStr(s string) string {
	var sb strings.Builder
	sb.WriteByte('\'')
	for _, r := range s {
		switch r {
		case '\'':
			sb.WriteString(`\'`)
		case '\\':
			sb.WriteString(`\\`)
		case '\n':
			sb.WriteString(`\n`)
		case '\r':
			sb.WriteString(`\r`)
		case '\t':
			sb.WriteString(`\t`)
		case '\b':
			sb.WriteString(`\b`)
		case '\f':
			sb.WriteString(`\f`)
		default:
			if r < 0x20 || r == 0x7f {
				fmt.Fprintf(&sb, `\u%04X`, r)
			} else {
				sb.WriteRune(r)
			}
		}
	}
	sb.WriteByte('\'')
	return sb.String()
}

// echoBundles packs echo templates, about perFile per bundle.
func c14EchoBundles(e *env, strs []string) []*c14Bundle {
	var out []*c14Bundle
	var cur *c14Bundle
	var sb strings.Builder
	n := 0
	flush := func() {
		if cur == nil {
			return
		}
		cur.Files = []srcFile{{"echo.soy", "{namespace echo.lit autoescape=\"false\"}\n\n" + sb.String()}}
		out = append(out, cur)
		cur = nil
		sb.Reset()
		n = 0
	}
	for si, s := range strs {
		for ci, ctx := range c14Contexts {
			if len(s) > 4096 && (ci+si)%6 != 0 {
				continue // long strings: a sixth of the contexts each, rotating, so that every context sees several long strings
			}
			if cur == nil {
				cur = &c14Bundle{Stream: "echo", Globals: map[string]interface{}{}}
			}
			// global names recur from bundle to bundle with other values (a name-keyed cache in the generator
			// would serve a stale literal); two consecutive strings, which may share a bundle, differ in parity
			gname := fmt.Sprintf("G_%d_%d", si%2, ci)
			body, gl, want, ok := c14EchoBodyW(ctx, s, gname)
			if !ok {
				continue
			}
			name := fmt.Sprintf("t%d_%d", si, ci)
			if ctx == "msg-bundle" {
				if cur.Trans == nil {
					cur.Trans = map[string][]c14Part{}
				}
				cur.Trans["echo.lit."+name] = []c14Part{{Kind: "raw", Text: s}}
			}
			sb.WriteString("/** */\n{template ." + name + "}\n" + body + "\n{/template}\n\n")
			for k, v := range gl {
				cur.Globals[k] = v
			}
			cur.Echo = append(cur.Echo, c14Echo{Template: "echo.lit." + name, Want: want, Context: ctx, UseMsgs: ctx == "msg-bundle"})
			n++
			if n >= 24 || len(s) > 4096 {
				flush()
			}
		}
	}
	flush()
	return out
}

// ---------- structured bundles ----------

func c14ProgBundles(e *env, n int) []*c14Bundle {
	var out []*c14Bundle
	for i := 0; i < n; i++ {
		o := progOpts{depth: 3, directives: true, nastyLits: i%2 == 0}
		files, entry, dataSets, feats := genBundle(e.rng, o)
		_ = entry
		_ = dataSets
		b := &c14Bundle{Stream: "prog", Files: files, Feats: feats}
		if i%3 == 0 {
			b.Translate = 1 + e.rng.Intn(1000000)
		}
		out = append(out, b)
	}
	return out
}

// hand-written bundles for constructs the generators reach rarely
func c14Corpus() []*c14Bundle {
	mk := func(name, body string) *c14Bundle {
		return &c14Bundle{Stream: "corpus:" + name, Files: []srcFile{{"corpus.soy", "{namespace corpus.c14}\n\n" + body}}}
	}
	return []*c14Bundle{
		mk("mapkey-quote", "/** */\n{template .t}\n{let $m: ['a\"b': 1] /}{$m['a\"b']}\n{/template}\n"),
		mk("mapkey-backslash", "/** */\n{template .t}\n{let $m: ['a\\\\': 1, 'c\\nd': 2] /}{length(keys($m))}\n{/template}\n"),
		mk("isfirst-outside-loop", "/** */\n{template .t}\n{if isFirst()}x{/if}\n{/template}\n"),
		mk("islast-outside-loop", "/** @param a */\n{template .t}\n{if isLast($a.b ?: 1)}x{/if}{index(1)}\n{/template}\n"),
		mk("loopfunc-non-variable", "/** @param l */\n{template .t}\n{foreach $x in $l}{if isLast(1)}x{/if}{index()}{$x}{/foreach}\n{/template}\n"),
		mk("float-literals", "/** @param a */\n{template .t}\n{2.0}{$a + 3.0}{1.5}{0.0}{-0.0}{1000000.0}{1e3}\n{/template}\n"),
		mk("range-no-args", "/** */\n{template .t}\n{foreach $i in range()}{$i}{/foreach}\n{/template}\n"),
		mk("range-four-args", "/** */\n{template .t}\n{for $i in range(1, 2, 3, 4)}{$i}{/for}\n{/template}\n"),
		mk("func-too-few-args", "/** @param a */\n{template .t}\n{length()}{$a}\n{/template}\n"),
		mk("func-extra-args", "/** @param a */\n{template .t}\n{min(1, 2, $a)}\n{/template}\n"),
		mk("round-two", "/** @param a */\n{template .t}\n{round($a, 2)}{round($a)}\n{/template}\n"),
		mk("unknown-function", "/** @param a */\n{template .t}\n{foo($a)}\n{/template}\n"),
		mk("unknown-directive", "/** @param a */\n{template .t}\n{$a|foo}\n{/template}\n"),
		mk("header-param-late", "{template .t}\nx{@param a: int}{$a}\n{/template}\n"),
		mk("header-params", "{template .t}\n{@param a: int}\n{@param? b: string}\n{$a}{$b}\n{/template}\n/** */\n{template .u}\n{@param? b: string}\n{$b}\n{/template}\n"),
		mk("all-optional", "/** @param? a\n @param? b */\n{template .t}\n{$a}{$b}\n{/template}\n/** @param? a\n @param b */\n{template .u}\n{$a}{$b}\n{/template}\n"),
		mk("log-debugger", "/** @param a */\n{template .t}\n{log}a {$a}{log}inner{/log}{/log}{debugger}\n{/template}\n"),
		mk("reserved-names", "/** @param class\n @param default */\n{template .t}\n{$class}{$default.if}{let $var: 1 /}{$var}{call .u}{param function: 1 /}{/call}\n{/template}\n/** @param function */\n{template .u}\n{$function}\n{/template}\n"),
		mk("plural", "/** @param n\n @param name */\n{template .t}\n{msg desc=\"d\"}{plural $n}{case 0}none for {$name}{case 1}one{default}{$n} items{/plural}{/msg}\n{/template}\n"),
		mk("css-expr", "/** @param a */\n{template .t}\n{css $a, suffix}{css $a ? 'x' : 'y', s-2}\n{/template}\n"),
		mk("nullsafe", "/** @param a */\n{template .t}\n{$a?.b?.c}{$a?[0]?['k']}{$a?[$a.i]}{-$a?.b}{not $a?.b}{$a?.b ?: 'd'}\n{/template}\n"),
		mk("negate-negative", "/** @param a */\n{template .t}\n{-(-5)}{- -5}{-(-$a)}{-(-0.5)}{1 - -1}\n{/template}\n"),
		{Stream: "corpus:negate-global", Files: []srcFile{{"corpus.soy", "{namespace corpus.c14}\n\n/** */\n{template .t}\n{-G_NEG}{-G_NEGF}{G_NEG - G_NEG}\n{/template}\n"}}, Globals: map[string]interface{}{"G_NEG": -5, "G_NEGF": -0.5}},
		{Stream: "corpus:filename-newline", Files: []srcFile{{"a\nb.soy", "{namespace corpus.c14}\n\n/** */\n{template .t}\nx\n{/template}\n"}}},
		{Stream: "corpus:filename-u2028", Files: []srcFile{{"a\u2028alert(1).soy", "{namespace corpus.c14}\n\n/** */\n{template .t}\nx\n{/template}\n"}}},
		{Stream: "corpus:namespace-reserved", Files: []srcFile{{"corpus.soy", "{namespace default.x}\n\n/** */\n{template .t}\nx\n{/template}\n"}}},
		{Stream: "corpus:namespace-reserved-js", Files: []srcFile{{"corpus.soy", "{namespace class.x}\n\n/** */\n{template .t}\nx\n{/template}\n"}}},
		{Stream: "corpus:template-reserved", Files: []srcFile{{"corpus.soy", "{namespace corpus.c14}\n\n/** */\n{template .default}\nx{call .class /}\n{/template}\n/** */\n{template .class}\ny\n{/template}\n"}}},
		mk("mapkey-proto", "/** */\n{template .t}\n{let $m: ['__proto__': 1, 'a': 2] /}{length(keys($m))}\n{/template}\n"),
		mk("ij", "/** */\n{template .t}\n{$ij.foo}{$ij?.bar.baz}\n{/template}\n"),
		mk("switch-two-defaults", "/** @param x */\n{template .t}\n{switch $x}{case 1}B{default}A{default}C{/switch}\n{/template}\n"),
		mk("switch-default-first", "/** @param x */\n{template .t}\n{switch $x}{default}A{case 1, 2}B{/switch}\n{/template}\n"),
		mk("int-member-length", "/** */\n{template .t}\n{length(5)}\n{/template}\n"),
		mk("int-member-negative", "/** */\n{template .t}\n{length(-5)}\n{/template}\n"),
		mk("int-member-strcontains", "/** */\n{template .t}\n{strContains(5, 'a')}\n{/template}\n"),
		mk("int-member-func", "/** */\n{template .t}\n{length(bidiGlobalDir())}{length(strContains('a', 'b'))}\n{/template}\n"),
		{Stream: "corpus:int-member-global", Files: []srcFile{{"corpus.soy", "{namespace corpus.c14}\n\n/** */\n{template .t}\n{length(G_NEG)}\n{/template}\n"}}, Globals: map[string]interface{}{"G_NEG": -5}},
		mk("member-of-nonint", "/** @param a */\n{template .t}\n{length(1.5)}{length(-$a)}{length(not $a)}{length(isNonnull($a))}{isNonnull(5)}{length(round($a, 2))}{strContains(round($a), 'x')}{length(null)}{length('s')}{length([1])}\n{/template}\n"),
		{Stream: "corpus:es6-import-collision", Files: []srcFile{
			{"a.soy", "{namespace a}\n\n/** */\n{template .b__c}\nx\n{/template}\n"},
			{"b.soy", "{namespace a__b}\n\n/** */\n{template .c}\ny\n{/template}\n"},
			{"c.soy", "{namespace corpus.c14}\n\n/** */\n{template .t}\n{call a.b__c /}{call a__b.c /}\n{/template}\n"}}},
		mk("switch-dup-case", "/** @param x */\n{template .t}\n{switch $x}{case 1}A{case 1}B{case 'a', 'a'}C{/switch}\n{/template}\n"),
	}
}

// ---------- the run ----------

func runC14(e *env) {
	e.res.Rule = "bundle = (files, globals, optional translations). Streams: prog (command grammar depth<=3 with every feature incl. those outside the cross-backend subset, half with hostile literals and map keys), echo (templates whose result is a known string: all ASCII bytes, U+2028/9, quotes, backslashes, </script>, astral and non-printable runes, 64 KB strings, random mixtures; in raw text, string literals, map keys, css names, message text and tags, globals, let content, switch cases), corpus. Each accepted bundle: every file through soyjs.Write x {ES5,ES6} x {no message bundle, bundle}; model text vs bytes; node compiles each file, looks up one function per template, calls the echo templates. Non-trivial = accepted and at least one file generated; distinct by sources+globals."
	if e.replay != "" {
		c14Replay(e)
		return
	}
	var bundles []*c14Bundle
	bundles = append(bundles, c14Corpus()...)
	bundles = append(bundles, c14ProgBundles(e, 150*e.scale)...)
	bundles = append(bundles, c14EchoBundles(e, c14Strings(e))...)
	c14Run(e, bundles)
}

func c14Replay(e *env) {
	b, err := c14LoadReplay(e.replay)
	if err != nil {
		e.res.Fail(hx.Violation{Kind: "obligation", What: "cannot read replay: " + err.Error(), Case: e.replay}, "")
		return
	}
	c14Run(e, []*c14Bundle{b})
}

func c14Run(e *env, bundles []*c14Bundle) {
	var units []*c14Unit
	tp := time.Now()
	const batch = 60
	type nodeJob struct {
		units []*c14Unit
		tag   string
		res   []jsNodeUnitRes
		err   error
		done  chan struct{}
	}
	var jobs []*nodeJob
	sem := make(chan struct{}, 2)
	launch := func(us []*c14Unit) {
		j := &nodeJob{units: us, tag: fmt.Sprintf("b%d", len(jobs)), done: make(chan struct{})}
		jobs = append(jobs, j)
		var nu []jsNodeUnit
		for _, u := range us {
			nu = append(nu, u.node)
		}
		go func() {
			sem <- struct{}{}
			j.res, j.err = jsRunNode(nu, j.tag, "C14")
			<-sem
			close(j.done)
		}()
	}
	sent := 0
	for _, b := range bundles {
		units = append(units, c14Prepare(e, b)...)
		for len(units)-sent >= batch {
			launch(units[sent : sent+batch])
			sent += batch
		}
	}
	if sent < len(units) {
		launch(units[sent:])
	}
	c14T["prepare-total"] = time.Since(tp)
	tn := time.Now()
	for _, j := range jobs {
		<-j.done
		c14NodeEval(e, j.units, j.tag, j.res, j.err)
	}

	// node, in batches; the batches run while the next bundles are prepared (two node processes at most), the
	// results are evaluated in order afterwards
	c14T["node"] = time.Since(tn)
	tg := time.Now()
	c14WfNegatives(e)
	c14T["negatives"] = time.Since(tg)
	if os.Getenv("C14_TIMING") != "" {
		fmt.Fprintln(os.Stderr, "C14 timing:", c14T)
	}
	e.res.Note("node %s compiled and ran the generated files with soyjs/lib/soyutils.js; no JavaScript grammar is formalised in Coq: syntactic validity rests on this run", "20")
	_ = os.Stderr
	_ = utf8.RuneError
}
