//go:build c20

package main

// C20, anchor "Render converts its argument before execution" (soyhtml/tofu.go):
// Tofu.Render(obj) must convert obj exactly as data.New(obj) does under the struct
// options IN FORCE AT THE TIME OF THE CALL (both settings of the options are part of
// the property's quantifier).  One Tofu is built first; the options are then switched
// back and forth between renders, and each Render is compared with
// data.New + Renderer.Execute on the same object.

import (
	"bytes"
	"fmt"
	"time"

	"github.com/robfig/soy/data"
	"soyverif/internal/hx"
)

type c20RenderInner struct {
	FooBar  int
	URLPath string
	When    time.Time
	hidden  int
}

type c20RenderObj struct {
	FirstName string
	ABTest    bool
	Inner     c20RenderInner
	PtrInner  *c20RenderInner
	Items     []c20RenderInner
	ByName    map[string]c20RenderInner
	Stamp     time.Time
}

const c20RenderSrc = `{namespace c20r}

/**
 * @param? firstName
 * @param? FirstName
 * @param? aBTest
 * @param? ABTest
 * @param? inner
 * @param? Inner
 * @param? ptrInner
 * @param? PtrInner
 * @param? items
 * @param? Items
 * @param? byName
 * @param? ByName
 * @param? stamp
 * @param? Stamp
 */
{template .t}
{if isNonnull($firstName)}lc:{$firstName}{/if}{if isNonnull($FirstName)}UC:{$FirstName}{/if}|
{if isNonnull($aBTest)}lc:{$aBTest}{/if}{if isNonnull($ABTest)}UC:{$ABTest}{/if}|
{if isNonnull($inner)}lc:{$inner}{/if}{if isNonnull($Inner)}UC:{$Inner}{/if}|
{if isNonnull($ptrInner)}lc:{$ptrInner}{/if}{if isNonnull($PtrInner)}UC:{$PtrInner}{/if}|
{if isNonnull($items)}lc:{$items}{/if}{if isNonnull($Items)}UC:{$Items}{/if}|
{if isNonnull($byName)}lc:{$byName}{/if}{if isNonnull($ByName)}UC:{$ByName}{/if}|
{if isNonnull($stamp)}lc:{$stamp}{/if}{if isNonnull($Stamp)}UC:{$Stamp}{/if}
{/template}
`

func c20RenderPath(e *env, g *c20Gen) {
	saved := data.DefaultStructOptions
	defer func() { data.DefaultStructOptions = saved }()
	tofu, err := compile([]srcFile{{Name: "c20r.soy", Text: c20RenderSrc}})
	if err != nil {
		e.res.Fail(hx.Violation{Kind: "mismatch", What: "the C20 render-path template does not compile", Observed: err.Error()}, "")
		return
	}
	formats := []string{time.RFC3339, time.RFC1123, "2006-01-02", time.Kitchen}
	n := 60 * e.scale
	for i := 0; i < n; i++ {
		in := c20RenderInner{FooBar: int(g.randInt(32)), URLPath: g.randString(), When: g.randTime(), hidden: 7}
		obj := c20RenderObj{FirstName: g.randString(), ABTest: g.r.Bool(), Inner: in, Items: []c20RenderInner{in, in},
			ByName: map[string]c20RenderInner{g.randKey(): in}, Stamp: g.randTime()}
		if g.r.Bool() {
			obj.PtrInner = &in
		}
		// the configuration changes AFTER the Tofu was built and between renders
		opts := data.StructOptions{LowerCamel: g.r.Bool(), TimeFormat: formats[g.r.Intn(len(formats))]}
		data.DefaultStructOptions = opts
		var viaRender bytes.Buffer
		var in1 interface{} = obj
		if g.r.Bool() {
			in1 = &obj
		}
		err1 := tofu.Render(&viaRender, "c20r.t", in1)
		want, ok := data.New(in1).(data.Map)
		var viaExecute bytes.Buffer
		var err2 error
		if ok {
			err2 = tofu.NewRenderer("c20r.t").Execute(&viaExecute, want)
		}
		cs := map[string]interface{}{"kind": "render-path", "lower_camel": opts.LowerCamel, "time_format": opts.TimeFormat, "object": fmt.Sprintf("%+v", obj), "step": i}
		e.res.Count(fmt.Sprintf("render-path:%v:%s:%+v", opts.LowerCamel, opts.TimeFormat, obj), true, "render-path")
		if i == 0 {
			e.res.Sample(map[string]interface{}{"kind": "render-path", "options": fmt.Sprintf("%+v", opts), "output": hx.Q(viaRender.String())})
		}
		if !ok || (err1 == nil) != (err2 == nil) || viaRender.String() != viaExecute.String() {
			e.res.Fail(hx.Violation{Kind: "oracle", What: "Tofu.Render does not convert its argument as data.New does under the struct options in force (a Tofu built before the options were changed)", Case: cs,
				Expected: hx.Q(viaExecute.String()) + " " + errStr(err2), Observed: hx.Q(viaRender.String()) + " " + errStr(err1)}, "")
		}
	}
}
