//go:build c16

package main

// C16 — print directives (and the JavaScript helpers generated code calls for
// them) encode faithfully.
//
// Every case is `{$x|d1}` or `{$x|d1|d2}` compiled by the real compiler inside a
// namespace with autoescape="false" (so that only the directives act) and
// rendered by the real renderer.  Three independent comparisons per case:
//   correspondence  output bytes == the Coq model (op c16_chain);
//   oracle          the property's own predicate on the implementation's
//                   behaviour, computed WITHOUT the model: url.QueryUnescape,
//                   node evaluating the literal, json.Unmarshal,
//                   html.EscapeString, and the four truncate clauses;
//   spec validation the proved decoders of Spec/Codec.v agree with those
//                   independent decoders on the same outputs.
// JavaScript side: the same templates are generated with soyjs.Write, run in
// node with soyjs/lib/soyutils.js, and the outputs are pushed through the
// SAME proved decoders (extracted from Coq).  That part is a test of the JS
// helpers, not a proof about them.

import (
	"bytes"
	"encoding/hex"
	"encoding/json"
	"fmt"
	"html"
	"net/url"
	"os"
	"os/exec"
	"path/filepath"
	"strings"
	"unicode"
	"unicode/utf16"
	"unicode/utf8"

	"github.com/robfig/soy"
	"github.com/robfig/soy/data"
	"github.com/robfig/soy/soyhtml"
	"github.com/robfig/soy/soyjs"
	"soyverif/internal/hx"
)

func init() { props["C16"] = runC16 }

// ---------- directives and templates ----------

type c16Dir struct {
	Name  string
	NArgs int
	N     int
	E     bool
}

func (d c16Dir) String() string {
	switch d.NArgs {
	case 1:
		return fmt.Sprintf("%s:%d", d.Name, d.N)
	case 2:
		return fmt.Sprintf("%s:%d,%v", d.Name, d.N, d.E)
	}
	return d.Name
}

// effective ellipsis flag of truncate as called (one argument = default true)
func (d c16Dir) ellipsis() bool { return d.NArgs == 1 || d.E }

type c16Shape struct {
	Name  string
	NArgs int
}

var c16Shapes = []c16Shape{
	{"escapeUri", 0}, {"escapeJsString", 0}, {"json", 0}, {"changeNewlineToBr", 0}, {"escapeHtml", 0},
	{"noAutoescape", 0}, {"insertWordBreaks", 1}, {"truncate", 1}, {"truncate", 2},
}

func c16ShapeIx(d c16Dir) int {
	for i, s := range c16Shapes {
		if s.Name == d.Name && s.NArgs == d.NArgs {
			return i
		}
	}
	panic("no shape for " + d.String())
}

func c16TemplateName(ds []c16Dir) string {
	n := "t"
	for _, d := range ds {
		n += fmt.Sprintf("_%d", c16ShapeIx(d))
	}
	return n
}

// c16Source builds the one Soy file holding a template per chain shape.
func c16Source() string {
	var sb strings.Builder
	sb.WriteString("{namespace c16 autoescape=\"false\"}\n")
	emit := func(shapes []c16Shape) {
		name := "t"
		params := []string{"x"}
		chain := ""
		for i, s := range shapes {
			for j, t := range c16Shapes {
				if t == s {
					name += fmt.Sprintf("_%d", j)
				}
			}
			chain += "|" + s.Name
			if s.NArgs >= 1 {
				chain += fmt.Sprintf(":$n%d", i+1)
				params = append(params, fmt.Sprintf("n%d", i+1))
			}
			if s.NArgs == 2 {
				chain += fmt.Sprintf(",$e%d", i+1)
				params = append(params, fmt.Sprintf("e%d", i+1))
			}
		}
		sb.WriteString("\n/**\n")
		for _, p := range params {
			sb.WriteString(" * @param " + p + "\n")
		}
		sb.WriteString(" */\n{template ." + name + "}\n{$x" + chain + "}\n{/template}\n")
	}
	for _, s := range c16Shapes {
		emit([]c16Shape{s})
	}
	for _, s := range c16Shapes {
		for _, t := range c16Shapes {
			emit([]c16Shape{s, t})
		}
	}
	sb.WriteString(c16LoopSource())
	return sb.String()
}

func c16Data(x string, ds []c16Dir) data.Map {
	m := data.Map{"x": data.String(x)}
	for i, d := range ds {
		if d.NArgs >= 1 {
			m[fmt.Sprintf("n%d", i+1)] = data.Int(d.N)
		}
		if d.NArgs == 2 {
			m[fmt.Sprintf("e%d", i+1)] = data.Bool(d.E)
		}
	}
	return m
}

func c16JSData(x string, ds []c16Dir) map[string]interface{} {
	m := map[string]interface{}{"x": x}
	for i, d := range ds {
		if d.NArgs >= 1 {
			m[fmt.Sprintf("n%d", i+1)] = d.N
		}
		if d.NArgs == 2 {
			m[fmt.Sprintf("e%d", i+1)] = d.E
		}
	}
	return m
}

func c16ModelReq(x string, ds []c16Dir) string {
	f := []string{"c16_chain", hx.H(x)}
	for _, d := range ds {
		f = append(f, "D"+hx.H(d.Name))
		if d.NArgs >= 1 {
			f = append(f, hx.I(int64(d.N)))
		}
		if d.NArgs == 2 {
			if d.E {
				f = append(f, "T")
			} else {
				f = append(f, "F")
			}
		}
	}
	return strings.Join(f, " ")
}

// ---------- inputs ----------

type c16Input struct {
	S     string
	Class string
}

func c16Runes() []rune {
	return []rune{0x80, 0xA0 /* nbsp: not printable */, 0xAD /* soft hyphen */, 0xE9, 0x7FF, 0x800, 0x1680, 0x2028, 0x2029, 0x200B, 0x202E,
		0x20AC, 0x3000, 0xD7FF, 0xE000 /* private use */, 0xF000, 0xFEFF, 0xFFFD, 0xFFFE, 0xFFFF,
		0x10000, 0x1F600, 0x1D11E, 0x2FA1D, 0xE0001 /* tag, not printable */, 0xE0100, 0xF0000 /* plane 15 private use */, 0xFFFFF, 0x100000, 0x10FFFF}
}

func c16Inputs(e *env) []c16Input {
	var in []c16Input
	add := func(class string, ss ...string) {
		for _, s := range ss {
			in = append(in, c16Input{s, class})
		}
	}
	add("empty", "")
	for i := 0; i < 256; i++ {
		add("byte", string([]byte{byte(i)}))
	}
	for _, r := range c16Runes() {
		cl := "rune-bmp"
		if r >= 0x10000 {
			cl = "rune-astral"
		}
		add(cl, string(r), "a"+string(r)+"b", string(r)+string(r)+" "+string(r))
	}
	add("entity-like", "&lt;", "&amp;lt;", "&#39;", "&#x27;", "&quot;x&apos;", "a&lt;b", "&", "&;", "&amp", "AT&T")
	add("tag-like", "<b>", "</script>", "<a href=\"x\">y</a>", "<wbr>", "<br>", "a<br>b<wbr>c", "<script>alert('x')</script>", "<!-- c -->", "]]>", "a<b>c d&e 'f' \"g\"=h")
	add("newlines", "\n", "\r", "\r\n", "\n\r", "\r\r\n", "a\nb\r\nc\rd", "\n\n", "x\r\n\r\ny", "line1\nline2 <b>\r\n")
	add("words", "abcdefghij", "ab cd", "abcdefgh ijklmnopqrstuvwxyz", "  a  ", "aaaa<bbbb&cccc", "éééééééé", "日本語のテキストです", "😀😀😀😀😀", "a😀b😀c😀")
	add("js", "\\", "\\\\", "'", "\"", "\\'", "\\u0041", "\\x41", "a=b", "</", "\u2028x\u2029", "\x7f", "\\n", "${x}", "`", "\t\v\f\b\x00")
	add("uri", "a b", "a+b", "a%b > c", "%", "%41", "%zz", "~-_.", "!*'()", "/?#[]@:$&,;=", "ü ñ")
	add("invalid-utf8", "\x80", "\xbf\xbf\xbf", "\xc0\x80", "\xc2", "\xe2\x82", "\xe2\x28\xa1", "\xed\xa0\x80", "\xf0\x9f\x98", "\xf5\x80\x80\x80",
		"a\xffb", "\x80\x80abc", "ab\xe2\x82", "\xf4\x90\x80\x80", "\xe0\x9f\xbf", "é\x80", "\x80é")
	// every boundary of unicode.IsPrint
	in = append(in, c16PrintBoundaries(e)...)
	// long strings
	long := func(unit string, n int) string { return strings.Repeat(unit, n/len(unit)+1)[:n/len(unit)*len(unit)] }
	add("64KB", long("a", 65536), long("ab c<d>&", 65536), long("é", 65536), long("😀", 65536), long("x\r\n", 65536), long("\u00a0\u2028'", 65536))
	var rb strings.Builder
	for rb.Len() < 65536 {
		rb.WriteByte(byte(e.rng.Intn(256)))
	}
	add("64KB", rb.String())
	// random mixtures
	alpha := []string{"&", "<", ">", "\"", "'", ";", "#", "a", "Z", "3", " ", "\n", "\r", "\\", "=", "%", "+", "/", "\x00", "\x1f", "\x7f", "\x80", "\xc3",
		"é", "\u00a0", "\u2028", "\ufeff", "\ufffd", "😀", "\U000E0001", "\U000F0000", "&lt;", "<wbr>", "<br>"}
	for i := 0; i < 150*e.scale; i++ {
		n := 1 + e.rng.Intn(14)
		var sb strings.Builder
		for j := 0; j < n; j++ {
			if e.rng.Chance(85) {
				sb.WriteString(e.rng.Pick(alpha))
			} else {
				sb.WriteByte(byte(e.rng.Intn(256)))
			}
		}
		add("random", sb.String())
	}
	return in
}

func c16PrintBoundaries(e *env) []c16Input {
	var in []c16Input
	bs, err := os.ReadFile(e.tables)
	if err != nil {
		return nil
	}
	var t struct {
		Ranges [][2]int `json:"is_print_ranges"`
	}
	if json.Unmarshal(bs, &t) != nil {
		return nil
	}
	valid := func(r int) bool { return r >= 0x80 && r <= 0x10FFFF && !(r >= 0xD800 && r <= 0xDFFF) }
	seen := map[int]bool{}
	for _, rg := range t.Ranges {
		for _, r := range []int{rg[0] - 1, rg[0], rg[1], rg[1] + 1} {
			if valid(r) && !seen[r] {
				seen[r] = true
				in = append(in, c16Input{"a" + string(rune(r)) + "0", "isprint-boundary"})
			}
		}
	}
	return in
}

// ---------- running the implementation ----------

type c16Out struct {
	out string
	err error
}

type c16Go struct {
	tofu  *soyhtml.Tofu
	cache map[string]c16Out
}

func c16Key(x string, ds []c16Dir) string { return fmt.Sprint(ds) + "\x00" + x }

func (g *c16Go) run(x string, ds []c16Dir) c16Out {
	k := c16Key(x, ds)
	if o, ok := g.cache[k]; ok {
		return o
	}
	out, err := render(g.tofu, "c16."+c16TemplateName(ds), c16Data(x, ds), nil)
	o := c16Out{out, err}
	if len(x) < 4096 {
		g.cache[k] = o
	}
	return o
}

type c16Case struct {
	x     string
	class string
	ds    []c16Dir
}

func htmlEsc(s string) string { return strings.ReplaceAll(html.EscapeString(s), "\x00", "\uFFFD") }

func removeNewlines(s string) string {
	return strings.Map(func(r rune) rune {
		if r == '\n' || r == '\r' {
			return -1
		}
		return r
	}, s)
}

// strings.Map would mangle invalid UTF-8; byte version
func removeNewlinesB(s string) string {
	var b strings.Builder
	for i := 0; i < len(s); i++ {
		if s[i] != '\n' && s[i] != '\r' {
			b.WriteByte(s[i])
		}
	}
	return b.String()
}

func uriSafe(s string) bool {
	for i := 0; i < len(s); i++ {
		c := s[i]
		if !(c >= 'A' && c <= 'Z' || c >= 'a' && c <= 'z' || c >= '0' && c <= '9' || strings.IndexByte("-_.~+%", c) >= 0) {
			return false
		}
	}
	return true
}

var c16Entities = []string{"&amp;", "&lt;", "&gt;", "&#34;", "&#39;"}

// every & of s begins a whole character reference (none was split)
func refsWhole(s string) bool {
	for i := 0; i < len(s); i++ {
		if s[i] != '&' {
			continue
		}
		ok := false
		for _, en := range c16Entities {
			if strings.HasPrefix(s[i:], en) {
				ok = true
			}
		}
		if !ok {
			return false
		}
	}
	return true
}

// j10Trigger: the value contains a rune >= U+10000 that unicode.IsPrint rejects.
func j10Trigger(s string) bool {
	for _, r := range s {
		if r >= 0x10000 && !unicode.IsPrint(r) {
			return true
		}
	}
	return false
}

// truncateClauses checks the four clauses of the statement for one truncate
// application y -> out (limit in bytes).  errAllowed says whether an error is
// within the documented exceptions.
func truncateClauses(y string, d c16Dir, o c16Out) string {
	n := d.N
	if len(y) <= n {
		if o.err != nil {
			return "error although the value fits"
		}
		if o.out != y {
			return "value fits but was changed"
		}
		return ""
	}
	ell := d.ellipsis() && n > 3
	cut := n
	if ell {
		cut = n - 3
	}
	if o.err != nil {
		// documented exceptions: negative limit; only continuation bytes up to the cut
		if n < 0 {
			return ""
		}
		for i := 0; i <= cut && i < len(y); i++ {
			if utf8.RuneStart(y[i]) {
				return "error although a rune start exists at or before the limit"
			}
		}
		return ""
	}
	p := o.out
	if ell {
		if !strings.HasSuffix(p, "...") {
			return "ellipsis missing"
		}
		p = strings.TrimSuffix(p, "...")
	}
	if !strings.HasPrefix(y, p) {
		return "result is not a prefix of the value (plus ellipsis)"
	}
	if len(o.out) > n {
		return "result longer than the limit"
	}
	if len(p) >= len(y) || !utf8.RuneStart(y[len(p)]) {
		return "cut is not at a character boundary"
	}
	if utf8.ValidString(y) && !utf8.ValidString(o.out) {
		return "result is not valid UTF-8 although the value is"
	}
	return ""
}

// ---------- main ----------

func runC16(e *env) {
	e.res.Rule = "case = (string x, chain of one or two directives with arguments) rendered as {$x|d1[|d2]} under autoescape=false by the real compiler+renderer; x from: all 256 single bytes, BMP/astral runes (printable and not), every boundary of unicode.IsPrint, entity-like, tag-like, newline, URI and JS-special texts, invalid UTF-8, empty, 64 KB, random mixtures; arguments: truncate 0..len+2 x {default,true,false}, insertWordBreaks 1..8. Non-trivial = the output differs from x; distinct by (chain, x). Go side: model correspondence + independent oracle; JS side (labelled js:*): generated JS + soyutils.js in node, outputs pushed through the proved Coq decoders."
	src := c16Source()
	files := []srcFile{{"c16.soy", src}}
	tofu, err := compile(files)
	if err != nil {
		c16Fail(e, hx.Violation{Kind: "oracle", What: "C16 bundle does not compile", Case: files, Observed: errStr(err)}, "")
		return
	}
	g := &c16Go{tofu: tofu, cache: map[string]c16Out{}}
	inputs := c16Inputs(e)

	var cases []c16Case
	simple := []c16Dir{{Name: "escapeUri"}, {Name: "escapeJsString"}, {Name: "json"}, {Name: "changeNewlineToBr"}, {Name: "escapeHtml"}, {Name: "noAutoescape"}}
	for _, in := range inputs {
		x := in.S
		big := len(x) > 4096
		if in.Class == "isprint-boundary" {
			cases = append(cases, c16Case{x, in.Class, []c16Dir{{Name: "escapeJsString"}}}, c16Case{x, in.Class, []c16Dir{{Name: "json"}}})
			continue
		}
		for _, d := range simple {
			cases = append(cases, c16Case{x, in.Class, []c16Dir{d}})
		}
		for k := 1; k <= 8; k++ {
			if big && k != 1 && k != 5 {
				continue
			}
			cases = append(cases, c16Case{x, in.Class, []c16Dir{{Name: "insertWordBreaks", NArgs: 1, N: k}}})
		}
		var ns []int
		if len(x) <= 24 {
			for n := 0; n <= len(x)+2; n++ {
				ns = append(ns, n)
			}
		} else {
			ns = []int{0, 1, 2, 3, 4, 5, 6, 7, len(x) / 2, len(x)/2 + 1, len(x) - 4, len(x) - 3, len(x) - 2, len(x) - 1, len(x), len(x) + 1, len(x) + 2}
			if !big {
				for i := 0; i < 6; i++ {
					ns = append(ns, e.rng.Intn(len(x)+3))
				}
			}
		}
		for _, n := range ns {
			cases = append(cases,
				c16Case{x, in.Class, []c16Dir{{Name: "truncate", NArgs: 1, N: n}}},
				c16Case{x, in.Class, []c16Dir{{Name: "truncate", NArgs: 2, N: n, E: true}}},
				c16Case{x, in.Class, []c16Dir{{Name: "truncate", NArgs: 2, N: n, E: false}}})
		}
	}
	// chains of two: every ordered pair of directive instances on a fixed set of strings, plus random arguments
	inst := []c16Dir{{Name: "escapeUri"}, {Name: "escapeJsString"}, {Name: "json"}, {Name: "changeNewlineToBr"}, {Name: "escapeHtml"}, {Name: "noAutoescape"},
		{Name: "insertWordBreaks", NArgs: 1, N: 1}, {Name: "insertWordBreaks", NArgs: 1, N: 3}, {Name: "insertWordBreaks", NArgs: 1, N: 8},
		{Name: "truncate", NArgs: 1, N: 0}, {Name: "truncate", NArgs: 1, N: 2}, {Name: "truncate", NArgs: 1, N: 4}, {Name: "truncate", NArgs: 1, N: 5},
		{Name: "truncate", NArgs: 1, N: 7}, {Name: "truncate", NArgs: 2, N: 4, E: false}, {Name: "truncate", NArgs: 2, N: 9, E: true}, {Name: "truncate", NArgs: 2, N: 13, E: false}}
	chainStrs := []string{"", "a", "a b", "a<b>c d&e 'f' \"g\"=h", "&lt;", "<wbr>", "x\r\ny\nz\r", "é😀 \u00a0\u2028", "\U000F0000z", "a%b > c", "\\'\"", "abcdefghijklmnopqrstuvwxyz",
		"\x80\x80ab", "a\xffb", "😀😀😀😀", "\x00\x1f\x7f", "日本語 テキスト", "</script>", "a+b c", "ü&ñ<"}
	for i := 0; i < 20*e.scale; i++ {
		chainStrs = append(chainStrs, inputs[e.rng.Intn(len(inputs))].S)
	}
	for _, x := range chainStrs {
		if len(x) > 4096 {
			continue
		}
		for _, d1 := range inst {
			for _, d2 := range inst {
				cases = append(cases, c16Case{x, "chain", []c16Dir{d1, d2}})
			}
		}
	}
	for i := 0; i < 1500*e.scale; i++ {
		x := inputs[e.rng.Intn(len(inputs))].S
		if len(x) > 4096 {
			continue
		}
		rd := func() c16Dir {
			switch e.rng.Intn(9) {
			case 0, 1:
				d := c16Dir{Name: "truncate", NArgs: 1 + e.rng.Intn(2), N: e.rng.Intn(len(x)*3 + 6), E: e.rng.Bool()}
				return d
			case 2:
				return c16Dir{Name: "insertWordBreaks", NArgs: 1, N: 1 + e.rng.Intn(8)}
			default:
				return simple[e.rng.Intn(len(simple))]
			}
		}
		cases = append(cases, c16Case{x, "chain-random", []c16Dir{rd(), rd()}})
	}

	// ----- Go side -----
	type pend struct {
		c   c16Case
		y   string // input of the last directive
		o   c16Out
		req int
	}
	var ps []pend
	var reqs []string
	var jsLits []string  // escapeJsString outputs to evaluate in node
	var jsLitIx []int    // index into ps
	var decReqs []string // spec validation requests
	type decRef struct {
		p    int
		kind string
	}
	var decRefs []decRef
	for _, c := range cases {
		o := g.run(c.x, c.ds)
		y := c.x
		if len(c.ds) == 2 {
			o1 := g.run(c.x, c.ds[:1])
			if o1.err != nil {
				// the chain must fail as well; nothing further to check by the oracle
				if o.err == nil {
					c16Fail(e, hx.Violation{Kind: "oracle", What: "first directive of a chain fails alone but the chain renders",
						Case: c16CaseJSON(c, src), Observed: hx.Q(o.out)}, "")
				}
				y = ""
			} else {
				y = o1.out
			}
			if o1.err != nil {
				e.res.Count("go:"+c16Key(c.x, c.ds), false, "go:chain-first-fails")
				continue
			}
		}
		p := pend{c: c, y: y, o: o, req: len(reqs)}
		reqs = append(reqs, c16ModelReq(c.x, c.ds))
		ps = append(ps, p)
	}
	resp := e.m.Batch(reqs)

	for pi, p := range ps {
		c, o, y := p.c, p.o, p.y
		d := c.ds[len(c.ds)-1]
		cj := c16CaseJSON(c, src)
		class := "go:" + d.Name
		if len(c.ds) == 2 {
			class = "go:chain:" + c.ds[0].Name + "|" + d.Name
		}
		e.res.Count("go:"+c16Key(c.x, c.ds), o.err != nil || o.out != c.x, class)
		e.res.Histogram["input:"+c.class]++
		if pi%4001 == 0 {
			e.res.Sample(map[string]string{"side": "go", "x": hx.Q(trunc(c.x)), "chain": fmt.Sprint(c.ds), "output": hx.Q(trunc(o.out)), "error": firstLine(errStr(o.err))})
		}
		if isPanicErr(o.err) {
			c16Fail(e, hx.Violation{Kind: "oracle", What: "panic escaped Render", Case: cj, Observed: firstLine(errStr(o.err))}, "")
			continue
		}
		// ---- oracle (independent of the model) ----
		fail := func(what string, exp, obs string, key string) {
			c16Fail(e, hx.Violation{Kind: "oracle", What: what, Case: cj, Expected: hx.Q(trunc(exp)), Observed: hx.Q(trunc(obs))}, key)
		}
		if d.Name != "truncate" && o.err != nil {
			fail("directive "+d.Name+" fails on a string value", "", firstLine(errStr(o.err)), "")
			continue
		}
		switch d.Name {
		case "escapeUri":
			if !uriSafe(o.out) {
				fail("escapeUri output contains a byte outside A-Za-z0-9-_.~+%", "", o.out, "")
			} else if dec, err := url.QueryUnescape(o.out); err != nil || dec != y {
				fail("escapeUri output does not percent-decode to the value", y, o.out, "")
			}
			decRefs = append(decRefs, decRef{pi, "pct"})
			decReqs = append(decReqs, "pct_decode "+hx.H(o.out))
		case "escapeJsString":
			if strings.ContainsAny(o.out, "\n\r<>&") || strings.Contains(o.out, "\u2028") || strings.Contains(o.out, "\u2029") || rawQuote(o.out) {
				fail("escapeJsString output contains a raw quote, line terminator or < > &", "", o.out, "")
			} else if utf8.ValidString(y) && len(y) <= 4096 {
				jsLits = append(jsLits, "'"+o.out+"'", "\""+o.out+"\"")
				jsLitIx = append(jsLitIx, pi)
				decRefs = append(decRefs, decRef{pi, "js39"}, decRef{pi, "js34"})
				decReqs = append(decReqs, "js_read #39 "+hx.H(o.out), "js_read #34 "+hx.H(o.out))
			}
		case "json":
			var back string
			want := string([]rune(y)) // each invalid byte becomes U+FFFD: the encoder's documented collapse
			if err := json.Unmarshal([]byte(o.out), &back); err != nil || back != want {
				fail("json output does not parse back to the value", want, o.out, "")
			} else if strings.ContainsAny(o.out, "<>&") {
				fail("json output contains a raw < > &", "", o.out, "")
			}
			if utf8.ValidString(y) {
				decRefs = append(decRefs, decRef{pi, "json"})
				decReqs = append(decReqs, "json_parse_string "+hx.H(o.out))
			}
		case "changeNewlineToBr":
			if got, want := strings.ReplaceAll(o.out, "<br>", ""), htmlEsc(removeNewlinesB(y)); got != want {
				fail("changeNewlineToBr changed more than line breaks in the escaped text", want, o.out, "")
			} else if strings.ContainsAny(o.out, "\r\n") {
				fail("changeNewlineToBr left a newline", "", o.out, "")
			}
		case "insertWordBreaks":
			if got, want := strings.ReplaceAll(o.out, "<wbr>", ""), htmlEsc(y); got != want {
				fail("insertWordBreaks changed more than break opportunities in the escaped text", want, o.out, "")
			} else if !refsWhole(o.out) {
				fail("insertWordBreaks put a <wbr> inside a character reference", "", o.out, "")
			}
		case "escapeHtml":
			if o.out != htmlEsc(y) {
				fail("escapeHtml output is not the escaped text", htmlEsc(y), o.out, "")
			}
		case "noAutoescape":
			if o.out != y {
				fail("noAutoescape changed the value", y, o.out, "")
			}
		case "truncate":
			if msg := truncateClauses(y, d, o); msg != "" {
				fail("truncate: "+msg, "", o.out+" / "+firstLine(errStr(o.err)), "")
			}
		}
		// ---- correspondence ----
		r := resp[p.req]
		switch {
		case len(r) == 0 || strings.HasPrefix(r[0], "!") || r[0] == "crash" || r[0] == "fuel" || r[0] == "diverge":
			c16Fail(e, hx.Violation{Kind: "mismatch", What: "model gives no result for a C16 chain", Case: cj, Observed: fmt.Sprint(r)}, "")
		case r[0] == "err":
			if o.err == nil {
				c16Fail(e, hx.Violation{Kind: "mismatch", What: "model reports an error, implementation rendered", Case: cj, Observed: hx.Q(trunc(o.out))}, "")
			}
		case r[0] == "ok":
			mo := hx.UnH(r[1])
			if o.err != nil {
				c16Fail(e, hx.Violation{Kind: "mismatch", What: "implementation reports an error, model renders", Case: cj, Expected: hx.Q(trunc(mo)), Observed: firstLine(errStr(o.err))}, "")
			} else if mo != o.out {
				c16Fail(e, hx.Violation{Kind: "mismatch", What: "output differs from the model", Case: cj, Expected: hx.Q(trunc(mo)), Observed: hx.Q(trunc(o.out))}, "")
			}
		}
	}

	// ---- node: evaluate the escapeJsString literals ----
	nodeOK := true
	var evals []c16NodeRes
	if len(jsLits) > 0 {
		nr, err := c16Node(e, c16NodeIn{Evals: jsLits}, "lits")
		if err != nil {
			nodeOK = false
			c16Fail(e, hx.Violation{Kind: "mismatch", What: "node could not be run for the escapeJsString oracle", Case: "node", Observed: err.Error()}, "")
		} else {
			evals = nr.Evals
		}
	}
	nodeVal := map[string]string{} // "pi/quote" -> value or "!err"
	if nodeOK {
		for k, pi := range jsLitIx {
			p := ps[pi]
			for q := 0; q < 2; q++ {
				r := evals[2*k+q]
				val := "\x00!ERR " + r.Err
				if r.Err == "" {
					bs, _ := hex.DecodeString(r.Hex)
					val = string(bs)
				}
				nodeVal[fmt.Sprintf("%d/%d", pi, q)] = val
				if val != p.y {
					key := ""
					if j10Trigger(p.y) {
						key = "jsstr-astral-nonprint-5hex"
					}
					c16Fail(e, hx.Violation{Kind: "oracle", What: "escapeJsString output between " + []string{"single", "double"}[q] + " quotes does not evaluate (node) to the value",
						Case: c16CaseJSON(p.c, src), Expected: hx.Q(trunc(p.y)), Observed: hx.Q(trunc(val)) + " from literal body " + hx.Q(trunc(p.o.out))}, key)
				}
			}
		}
	}

	// ---- spec validation: the proved decoders vs the independent ones ----
	dresp := e.m.Batch(decReqs)
	for i, ref := range decRefs {
		p := ps[ref.p]
		r := dresp[i]
		got := "\x00!none"
		if len(r) == 2 && r[0] == "some" {
			got = hx.UnH(r[1])
		}
		var ind string
		switch ref.kind {
		case "pct":
			v, err := url.QueryUnescape(p.o.out)
			ind = v
			if err != nil {
				ind = "\x00!none"
			}
		case "json":
			var v string
			if err := json.Unmarshal([]byte(p.o.out), &v); err != nil {
				ind = "\x00!none"
			} else {
				ind = v
			}
		case "js39", "js34":
			if !nodeOK {
				continue
			}
			q := 0
			if ref.kind == "js34" {
				q = 1
			}
			ind = nodeVal[fmt.Sprintf("%d/%d", ref.p, q)]
			if strings.HasPrefix(ind, "\x00!ERR ") {
				ind = "\x00!none"
			}
			// the Spec decoder is deliberately stricter than node on one point only: the
			// 5-hex-digit escape Go writes for astral non-printables is read by both as
			// \uXXXX + digit, so they agree there too.
		}
		e.res.Count("spec:"+ref.kind+":"+p.o.out, true, "spec:"+ref.kind)
		if got != ind {
			c16Fail(e, hx.Violation{Kind: "mismatch", What: "Spec decoder (" + ref.kind + ") disagrees with the independent decoder on an implementation output",
				Case: map[string]string{"text": hx.Q(trunc(p.o.out))}, Expected: hx.Q(trunc(ind)), Observed: hx.Q(trunc(got))}, "")
		}
	}

	// ----- JavaScript side -----
	c16Loops(e, g, src, cases)
	c16AutoescapeOn(e, g, cases)
	c16JS(e, src, cases)
	// ----- json of every value (c16json.go) -----
	c16JSON(e)
	// ----- the soyutils.js helpers against their models, on code units (c16units.go) -----
	c16Units(e)
}

func rawQuote(s string) bool {
	// a quote or apostrophe not preceded by an odd number of backslashes
	bs := 0
	for i := 0; i < len(s); i++ {
		switch s[i] {
		case '\\':
			bs++
			continue
		case '\'', '"':
			if bs%2 == 0 {
				return true
			}
		}
		bs = 0
	}
	return false
}

func trunc(s string) string {
	if len(s) > 300 {
		return s[:300] + fmt.Sprintf("...(%d bytes)", len(s))
	}
	return s
}

func firstLine(s string) string {
	if i := strings.IndexByte(s, '\n'); i >= 0 {
		s = s[:i]
	}
	return trunc(s)
}

func c16CaseJSON(c c16Case, src string) map[string]interface{} {
	var tmpl strings.Builder
	tmpl.WriteString("{$x")
	for _, d := range c.ds {
		tmpl.WriteString("|" + d.String())
	}
	tmpl.WriteString("}")
	return map[string]interface{}{"kind": "directive-chain", "namespace_attr": "autoescape=\"false\"", "print": tmpl.String(),
		"x": hx.Q(trunc(c.x)), "x_hex": hx.H(trunc(c.x)), "x_len": len(c.x), "template": "c16." + c16TemplateName(c.ds)}
}

// ---------- node ----------

type c16NodeCall struct {
	F string                 `json:"f"`
	D map[string]interface{} `json:"d"`
}
type c16NodeIn struct {
	Utils string        `json:"utils,omitempty"`
	Code  []string      `json:"code,omitempty"`
	Evals []string      `json:"evals,omitempty"`
	Calls []c16NodeCall `json:"calls,omitempty"`
	Units []c16UnitReq  `json:"units,omitempty"`
}
type c16NodeRes struct {
	Hex string `json:"hex"`
	Err string `json:"err"`
	WF  bool   `json:"wf"`
	U16 int    `json:"u16"`
}
type c16NodeOut struct {
	Evals      []c16NodeRes `json:"evals"`
	Calls      []c16NodeRes `json:"calls"`
	LoadErrors []string     `json:"load_errors"`
	Units      []c16UnitRes `json:"units"`
}

func c16Node(e *env, in c16NodeIn, tag string) (*c16NodeOut, error) {
	dir := os.Getenv("VERIF_BUILD")
	if dir == "" {
		dir = os.TempDir()
	}
	dir = filepath.Join(dir, "logs")
	os.MkdirAll(dir, 0o755)
	inf := filepath.Join(dir, "C16.node-"+tag+".in.json")
	outf := filepath.Join(dir, "C16.node-"+tag+".out.json")
	// JSON encoding without HTML escaping and without touching the strings
	var buf bytes.Buffer
	enc := json.NewEncoder(&buf)
	enc.SetEscapeHTML(false)
	if err := enc.Encode(in); err != nil {
		return nil, err
	}
	if err := os.WriteFile(inf, buf.Bytes(), 0o644); err != nil {
		return nil, err
	}
	os.Remove(outf)
	vd := os.Getenv("VERIF_DIR")
	if vd == "" {
		vd = "/verif"
	}
	cmd := exec.Command("node", "--stack-size=8000", filepath.Join(vd, "js", "c16.js"), inf, outf)
	if outb, err := cmd.CombinedOutput(); err != nil {
		return nil, fmt.Errorf("%v: %s", err, trunc(string(outb)))
	}
	bs, err := os.ReadFile(outf)
	if err != nil {
		return nil, err
	}
	var out c16NodeOut
	if err := json.Unmarshal(bs, &out); err != nil {
		return nil, err
	}
	if len(out.Evals) != len(in.Evals) || len(out.Calls) != len(in.Calls) {
		return nil, fmt.Errorf("node returned %d/%d results for %d/%d requests", len(out.Evals), len(out.Calls), len(in.Evals), len(in.Calls))
	}
	return &out, nil
}

// ---------- JavaScript side ----------

func u16len(s string) int { return len(utf16.Encode([]rune(s))) }

func c16JS(e *env, src string, cases []c16Case) {
	reg, err := soy.NewBundle().AddTemplateString("c16.soy", src).Compile()
	if err != nil {
		c16Fail(e, hx.Violation{Kind: "oracle", What: "C16 bundle does not compile (registry)", Case: src, Observed: errStr(err)}, "")
		return
	}
	var code []string
	for _, sf := range reg.SoyFiles {
		var buf bytes.Buffer
		if err := soyjs.Write(&buf, sf, soyjs.Options{}); err != nil {
			c16Fail(e, hx.Violation{Kind: "oracle", What: "soyjs.Write fails on the C16 bundle", Case: src, Observed: errStr(err)}, "")
			return
		}
		code = append(code, buf.String())
	}
	repo := os.Getenv("VERIF_REPO")
	if repo == "" {
		repo = "/repo"
	}
	in := c16NodeIn{Utils: filepath.Join(repo, "soyjs", "lib", "soyutils.js"), Code: code}
	// a JS string cannot hold invalid UTF-8: only valid values go to the JS side
	type jcase struct {
		c      c16Case
		ix     int // call index of the chain
		ixHead int // call index of the first directive alone (chains), else -1
	}
	var js []jcase
	callIx := map[string]int{}
	call := func(x string, ds []c16Dir) int {
		k := c16Key(x, ds)
		if i, ok := callIx[k]; ok {
			return i
		}
		in.Calls = append(in.Calls, c16NodeCall{F: "c16." + c16TemplateName(ds), D: c16JSData(x, ds)})
		callIx[k] = len(in.Calls) - 1
		return len(in.Calls) - 1
	}
	for _, c := range cases {
		if !utf8.ValidString(c.x) {
			continue
		}
		j := jcase{c: c, ixHead: -1}
		j.ix = call(c.x, c.ds)
		if len(c.ds) == 2 {
			j.ixHead = call(c.x, c.ds[:1])
		}
		js = append(js, j)
	}
	nr, err := c16Node(e, in, "js")
	if err != nil {
		c16Fail(e, hx.Violation{Kind: "mismatch", What: "node could not be run for the JavaScript side", Case: "node", Observed: err.Error()}, "")
		return
	}
	if len(nr.LoadErrors) > 0 {
		c16Fail(e, hx.Violation{Kind: "oracle", What: "js: generated JavaScript or soyutils.js does not load in node", Case: src, Observed: strings.Join(nr.LoadErrors, "; ")}, "")
		return
	}
	val := func(i int) (string, string) {
		r := nr.Calls[i]
		if r.Err != "" {
			return "", r.Err
		}
		bs, _ := hex.DecodeString(r.Hex)
		return string(bs), ""
	}
	// requests to the proved decoders
	type chk struct {
		j    int
		kind string
		want string
	}
	var reqs []string
	var chks []chk
	for ji, j := range js {
		c := j.c
		d := c.ds[len(c.ds)-1]
		y := c.x
		if j.ixHead >= 0 {
			v, er := val(j.ixHead)
			if er != "" || !nr.Calls[j.ixHead].WF {
				// the first directive alone already fails (reported on its own case)
				continue
			}
			y = v
		}
		out, er := val(j.ix)
		class := "js:" + d.Name
		if len(c.ds) == 2 {
			class = "js:chain:" + c.ds[0].Name + "|" + d.Name
		}
		e.res.Count("js:"+c16Key(c.x, c.ds), er != "" || out != c.x, class)
		if ji%4001 == 7 {
			e.res.Sample(map[string]string{"side": "js (node, soyutils.js)", "x": hx.Q(trunc(c.x)), "chain": fmt.Sprint(c.ds), "output": hx.Q(trunc(out)), "error": er})
		}
		cj := c16CaseJSON(c, src)
		cj["side"] = "javascript (soyjs.Write + soyutils.js in node)"
		cj["directive_input"] = hx.Q(trunc(y))
		if er != "" {
			c16Fail(e, hx.Violation{Kind: "oracle", What: "js: generated code throws for a string value under " + d.Name, Case: cj, Observed: er}, "")
			continue
		}
		if !nr.Calls[j.ix].WF && wellFormedU(y) {
			c16Fail(e, hx.Violation{Kind: "oracle", What: "js: " + d.Name + " produced a lone surrogate (output is not well-formed UTF-16, hence not valid UTF-8)", Case: cj, Observed: hx.Q(trunc(out))},
				c16JSKnown(d, y, out, "lone"))
			continue
		}
		switch d.Name {
		case "escapeUri":
			chks = append(chks, chk{ji, "pct", y}, chk{ji, "urisafe", ""})
			reqs = append(reqs, "pct_decode "+hx.H(out), "uri_safe "+hx.H(stripJSMarks(out)))
		case "escapeJsString":
			chks = append(chks, chk{ji, "js39", y}, chk{ji, "js34", y})
			reqs = append(reqs, "js_read #39 "+hx.H(out), "js_read #34 "+hx.H(out))
		case "json":
			chks = append(chks, chk{ji, "json", y})
			reqs = append(reqs, "json_parse_string "+hx.H(out))
		case "changeNewlineToBr":
			// since repair b30db12 the generated JavaScript escapes the directive's input (as soyhtml does):
			// without the <br> tokens the output must decode back to the value without its line breaks
			chks = append(chks, chk{ji, "html", removeNewlinesB(y)})
			reqs = append(reqs, "html_decode "+hx.H(removeTokGo(out, "<br>")))
			// and the statement itself: nothing but line breaks changed IN THE ESCAPED TEXT (decoding alone would
			// accept an unescaped "<b>"), whatever directive precedes it in the chain
			if got, want := removeTokGo(out, "<br>"), c16JSEscHTML(removeNewlinesB(y)); got != want {
				c16Fail(e, hx.Violation{Kind: "oracle", What: "js: changeNewlineToBr output without <br> is not the escaped text of its input without line breaks", Case: cj,
					Expected: hx.Q(trunc(want)), Observed: hx.Q(trunc(out))}, c16JSKnown(d, y, out, "escaped"))
			}
		case "insertWordBreaks":
			chks = append(chks, chk{ji, "html", y})
			reqs = append(reqs, "html_decode "+hx.H(removeTokGo(out, "<wbr>")))
			if got, want := removeTokGo(out, "<wbr>"), c16JSEscHTML(y); got != want {
				c16Fail(e, hx.Violation{Kind: "oracle", What: "js: insertWordBreaks output without <wbr> is not the escaped text of its input", Case: cj,
					Expected: hx.Q(trunc(want)), Observed: hx.Q(trunc(out))}, c16JSKnown(d, y, out, "escaped"))
			}
		case "escapeHtml":
			chks = append(chks, chk{ji, "html", y})
			reqs = append(reqs, "html_decode "+hx.H(out))
		case "noAutoescape":
			if out != y {
				c16Fail(e, hx.Violation{Kind: "oracle", What: "js: noAutoescape changed the value", Case: cj, Expected: hx.Q(trunc(y)), Observed: hx.Q(trunc(out))}, "")
			}
		case "truncate":
			// JS counts UTF-16 code units (outside the statement, whose limit is in bytes for Go);
			// the clauses are checked in that unit
			if msg := truncateClausesJS(y, d, out); msg != "" {
				c16Fail(e, hx.Violation{Kind: "oracle", What: "js: truncate: " + msg, Case: cj, Observed: hx.Q(trunc(out))}, c16JSKnown(d, y, out, msg))
			}
		}
	}
	resp := e.m.Batch(reqs)
	for i, ck := range chks {
		j := js[ck.j]
		c := j.c
		d := c.ds[len(c.ds)-1]
		out, _ := val(j.ix)
		r := resp[i]
		cj := c16CaseJSON(c, src)
		cj["side"] = "javascript (soyjs.Write + soyutils.js in node)"
		cj["directive_input"] = hx.Q(trunc(ck.want))
		var got string
		switch ck.kind {
		case "urisafe":
			if len(r) != 1 || r[0] != "#1" {
				c16Fail(e, hx.Violation{Kind: "oracle", What: "js: escapeUri output contains a byte outside A-Za-z0-9-_.~+% (and the RFC 2396 marks ! * that encodeURIComponent leaves)", Case: cj, Observed: hx.Q(trunc(out))}, "")
			}
			continue
		case "br", "wbr", "html":
			got = "\x00!bad"
			if len(r) == 1 {
				got = hx.UnH(r[0])
			}
		default:
			got = "\x00!none"
			if len(r) == 2 && r[0] == "some" {
				got = hx.UnH(r[1])
			}
		}
		if ck.kind == "html" && strings.Contains(ck.want, "\x00") && !strings.Contains(ck.want, "&#0;") {
			// soy.$$escapeHtml writes NUL as &#0; (a browser reads that as U+FFFD, which is
			// what the Go side writes); the Spec decoder knows the five references only
			got = strings.ReplaceAll(got, "&#0;", "\x00")
		}
		if got != ck.want {
			c16Fail(e, hx.Violation{Kind: "oracle", What: "js: output of " + d.Name + " pushed through the proved decoder (" + ck.kind + ") does not give the value back",
				Case: cj, Expected: hx.Q(trunc(ck.want)), Observed: hx.Q(trunc(got)) + " from output " + hx.Q(trunc(out))}, c16JSKnown(d, ck.want, out, ck.kind))
		}
	}
	e.res.Note("JavaScript side: %d template calls evaluated in node %s with soyjs/lib/soyutils.js; their outputs were decoded by the extracted Coq decoders (pct_decode, js_read_literal, json_parse_string, html_decode, remove_tok). This tests the JS helpers; the theorems are about the Go directives.", len(in.Calls), "20")
}

// soy.$$escapeHtml on a string: the six units of soy.esc.$$MATCHER_FOR_ESCAPE_HTML_ (Proofs/CodecJsTie.v)
func c16JSEscHTML(s string) string {
	return strings.NewReplacer("\x00", "&#0;", "\"", "&quot;", "&", "&amp;", "'", "&#39;", "<", "&lt;", ">", "&gt;").Replace(s)
}

func wellFormedU(s string) bool { return utf8.ValidString(s) }

// encodeURIComponent leaves the RFC 2396 marks ! and * unescaped (soy.$$escapeUri
// then encodes ' ( )); they need no escaping in a query component either.
func stripJSMarks(s string) string {
	return strings.NewReplacer("!", "", "*", "").Replace(s)
}

// removeTokGo mirrors Spec remove_tok (single left-to-right pass).
func removeTokGo(s, tok string) string { return strings.ReplaceAll(s, tok, "") }

func truncateClausesJS(y string, d c16Dir, out string) string {
	n := d.N
	if u16len(y) <= n {
		if out != y {
			return "value fits but was changed"
		}
		return ""
	}
	ell := d.ellipsis() && n > 3
	p := out
	if ell {
		if !strings.HasSuffix(p, "...") {
			return "ellipsis missing"
		}
		p = strings.TrimSuffix(p, "...")
	}
	if !strings.HasPrefix(y, p) {
		return "result is not a prefix of the value (plus ellipsis)"
	}
	if u16len(out) > n {
		return "result longer than the limit (UTF-16 units)"
	}
	if len(p) < len(y) && !utf8.RuneStart(y[len(p)]) {
		return "cut is not at a character boundary"
	}
	return ""
}

// c16JSKnown maps a failing JS-side case to the key of a recorded finding when
// (and only when) its narrow trigger holds.
func c16JSKnown(d c16Dir, y, out, what string) string {
	return ""
}

// c16Fail records a failing case and keeps a per-message tally (the result
// file keeps only the first few violations of each kind).
func c16Fail(e *env, v hx.Violation, key string) {
	w := v.What
	if len(w) > 90 {
		w = w[:90]
	}
	e.res.Histogram["fail:"+w]++
	if os.Getenv("C16_DEBUG") != "" && e.res.Histogram["fail:"+w] <= 6 {
		bs, _ := json.Marshal(map[string]interface{}{"what": v.What, "case": v.Case, "exp": v.Expected, "obs": v.Observed, "key": key})
		fmt.Fprintln(os.Stderr, string(bs))
	}
	e.res.Fail(v, key)
}
