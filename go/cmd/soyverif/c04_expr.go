//go:build c04

package main

// The tie of coq/Model/MiniJS.v: random expressions of the common subset are
// given to the model (op minijs), which returns the JavaScript text the
// generator model writes for them (jprint (cgen e)), the value MiniJS gives it
// (js_eval) and the image of the Soy value (ceval); node evaluates the text in
// an environment that holds the same data, and must agree with js_eval.

import (
	"bytes"
	"encoding/hex"
	"encoding/json"
	"fmt"
	"os"
	"os/exec"
	"path/filepath"
	"strings"

	"soyverif/internal/hx"
)

type cexprGen struct {
	r       *hx.Rand
	intVars []string // Soy variables the statement generator binds to integers / strings (extra leaves)
	strVars []string
	loops   []string // variables of the enclosing loops: index($v) / isFirst($v) / isLast($v) may name them
}

// kinds: 0 int, 1 str, 2 bool, 3 any
func (g *cexprGen) expr(k, d int) string {
	if d <= 0 || g.r.Chance(25) {
		if k == 0 && len(g.intVars) > 0 && g.r.Chance(40) {
			return "(cvar " + sx(g.r.Pick(g.intVars)) + ")"
		}
		if k == 1 && len(g.strVars) > 0 && g.r.Chance(40) {
			return "(cvar " + sx(g.r.Pick(g.strVars)) + ")"
		}
		if len(g.loops) > 0 && (k == 0 || k == 2) && g.r.Chance(30) {
			if k == 0 {
				return "(cloop index " + sx(g.r.Pick(g.loops)) + ")"
			}
			return "(cloop " + g.r.Pick([]string{"isFirst", "isLast"}) + " " + sx(g.r.Pick(g.loops)) + ")"
		}
		switch k {
		case 0:
			return g.r.Pick([]string{"(cint 0)", "(cint 1)", "(cint 7)", "(cint -3)", "(cint 1000)", "(cint 9007199254740991)",
				"(cvar " + sx("x") + ")", "(cvar " + sx("a") + " (key 0 " + sx("b") + "))", "(cvar " + sx("a") + " (key 1 " + sx("b") + "))",
				"(cvar " + sx("a") + " (key 0 " + sx("l") + ") (idx 0 1))", "(cvar " + sx("l") + " (idx 0 0))", "(cvar " + sx("ij") + " (key 0 " + sx("n") + "))"})
		case 1:
			return g.r.Pick([]string{"(cstr " + sx("") + ")", "(cstr " + sx("a") + ")", "(cstr " + sx("it's </script> \"q\" \\  ") + ")", "(cstr " + sx("0") + ")",
				"(cvar " + sx("s") + ")", "(cvar " + sx("a") + " (key 0 " + sx("s") + "))"})
		case 2:
			return g.r.Pick([]string{"(cbool 0)", "(cbool 1)", "(cvar " + sx("f") + ")"})
		default:
			return g.r.Pick([]string{"(cnull)", "(cvar " + sx("u") + ")", "(cvar " + sx("u") + " (key 1 " + sx("k") + "))", "(cvar " + sx("a") + " (key 0 " + sx("n") + "))",
				"(cvar " + sx("a") + " (key 0 " + sx("missing") + "))", "(cvar " + sx("a") + " (key 0 " + sx("n") + ") (key 1 " + sx("z") + "))",
				"(cvar " + sx("l") + " (idx 0 9))", "(cvar " + sx("l") + " (idx 0 -1))", "(cvar " + sx("a") + ")", "(cvar " + sx("l") + ")",
				"(cvar " + sx("u") + " (key 0 " + sx("k") + "))", "(cvar " + sx("a") + " (idx 0 0))", "(cvar " + sx("l") + " (key 0 " + sx("k") + "))"})
		}
	}
	e := func(k2 int) string { return g.expr(k2, d-1) }
	if g.r.Chance(6) {
		k = g.r.Intn(4) // an operand of an unintended kind now and then
	}
	switch k {
	case 0:
		switch g.r.Intn(7) {
		case 0:
			return "(cbin add " + e(0) + " " + e(0) + ")"
		case 1:
			return "(cbin sub " + e(0) + " " + e(0) + ")"
		case 2:
			return "(cbin mul " + e(0) + " " + e(0) + ")"
		case 3:
			return "(cbin mod " + e(0) + " " + e(0) + ")"
		case 4:
			return "(cneg " + e(0) + ")"
		case 5:
			return "(ctern " + e(g.r.Intn(4)) + " " + e(0) + " " + e(0) + ")"
		default:
			return "(cbin elvis " + e(3) + " " + e(0) + ")"
		}
	case 1:
		switch g.r.Intn(4) {
		case 0:
			return "(cbin add " + e(1) + " " + e(1) + ")"
		case 1:
			return "(cbin add " + e(1) + " " + e(0) + ")"
		case 2:
			return "(cbin add " + e(0) + " " + e(1) + ")"
		default:
			return "(ctern " + e(2) + " " + e(1) + " " + e(1) + ")"
		}
	case 2:
		switch g.r.Intn(8) {
		case 0:
			return "(cbin " + g.r.Pick([]string{"lt", "lte", "gt", "gte"}) + " " + e(0) + " " + e(0) + ")"
		case 1:
			k2 := g.r.Intn(3)
			return "(cbin " + g.r.Pick([]string{"eq", "neq"}) + " " + e(k2) + " " + e(k2) + ")"
		case 2:
			return "(cbin " + g.r.Pick([]string{"eq", "neq"}) + " (cnull) " + e(3) + ")"
		case 3:
			return "(cnot " + e(g.r.Intn(4)) + ")"
		case 4:
			return "(cbin and " + e(2) + " " + e(2) + ")"
		case 5:
			return "(cbin or " + e(2) + " " + e(2) + ")"
		case 6:
			return "(cbin div " + e(0) + " " + e(0) + ")"
		default:
			return "(ctern " + e(2) + " " + e(2) + " " + e(2) + ")"
		}
	default:
		return "(cbin elvis " + e(3) + " " + e(3) + ")"
	}
}

// the environment of the tie: Soy values (sexp for the model) and the same data as JavaScript source
const c04ExprEnvSexp = "(env (x61 (vm 2 (x62 (vi 5)) (x6c (vl 3 (vi 10) (vi 20))) (x6e vnull) (x73 (vs x7a7a)))) (x65 (vl 0)) (x66 (vb 1)) (x6c (vl 4 (vi 3) (vi 4))) (x73 (vs x68692778)) (x78 (vi 4)))"

// the expression tie adds two loops in scope: $v (second of two rounds, frame counter 5) and $w (first of three, counter 7)
// with the renderer's hidden variables v.index / v.lastIndex / w.index / w.lastIndex
const c04ExprLoopEnvSexp = "(env (x61 (vm 2 (x62 (vi 5)) (x6c (vl 3 (vi 10) (vi 20))) (x6e vnull) (x73 (vs x7a7a)))) (x65 (vl 0)) (x66 (vb 1)) (x6c (vl 4 (vi 3) (vi 4))) (x73 (vs x68692778)) (x78 (vi 4))" +
	" (x76 (vi 20)) (x762e696e646578 (vi 1)) (x762e6c617374496e646578 (vi 1)) (x77 (vs x7a7a)) (x772e696e646578 (vi 0)) (x772e6c617374496e646578 (vi 2)))"
const c04ExprScopeSexp = "(scope (x78 x7833) (x73 x733132) (loop x76 5) (loop x77 7))"
const c04ExprIjSexp = "(ij (vm 5 (x6e (vi 6))))"
const c04ExprJSEnv = "var opt_data = {a: {b: 5, l: [10, 20], n: null, s: 'zz'}, e: [], f: true, l: [3, 4]}; var opt_ijData = {n: 6}; var x3 = 4; var s12 = \"hi'x\";" +
	" var v_5 = 20; var vIndex_5 = 1; var vLimit_5 = 2; var w_7 = 'zz'; var wIndex_7 = 0; var wLimit_7 = 3;"

func c04ExprTie(e *env, n int) {
	g := &cexprGen{r: e.rng, loops: []string{"v", "w"}}
	var reqs []string
	for i := 0; i < n; i++ {
		reqs = append(reqs, "minijs "+c04ExprIjSexp+" "+c04ExprScopeSexp+" "+c04ExprLoopEnvSexp+" "+g.expr(g.r.Intn(3), 4))
	}
	res := e.m.Batch(reqs)
	type item struct {
		req, text, cev, jcls, jval string
	}
	var items []item
	var evals []string
	for i, r := range res {
		if len(r) < 3 || strings.HasPrefix(r[0], "!") {
			e.res.Fail(hx.Violation{Kind: "mismatch", What: "model op minijs failed", Case: reqs[i], Observed: fmt.Sprint(r)}, "")
			continue
		}
		it := item{req: reqs[i], text: hx.UnH(r[0]), cev: r[1], jcls: r[2]}
		if len(r) > 3 {
			it.jval = hx.UnH(r[3])
		}
		if it.cev != "none" {
			it.cev = hx.UnH(it.cev)
		}
		items = append(items, it)
		evals = append(evals, "(function(){ "+c04ExprJSEnv+" return JSON.stringify([("+it.text+")], function(k, v) { return v === undefined ? '__undef__' : v; }); })()")
	}
	out, err := jsEvalNode(evals, "C04.expr")
	if err != nil {
		e.res.Fail(hx.Violation{Kind: "mismatch", What: "node could not be run for the MiniJS tie", Case: "node", Observed: err.Error()}, "")
		return
	}
	for i, it := range items {
		o := out[i]
		cls := "in-subset"
		if it.cev == "none" {
			cls = "outside-subset"
		}
		e.res.Count("expr:"+it.req, it.cev != "none", "minijs:"+cls+":"+it.jcls)
		cs := map[string]string{"expression": it.req, "javascript": it.text, "environment": c04ExprJSEnv}
		// (1) inside the subset MiniJS must give the image of the Soy value (the theorem, re-checked on the extracted code)
		if it.cev != "none" && (it.jcls != "ok" || it.jval != it.cev) {
			e.res.Fail(hx.Violation{Kind: "mismatch", What: "js_eval (cgen e) differs from to_js (ceval e) inside the subset", Case: cs, Expected: it.cev, Observed: it.jcls + " " + it.jval}, "")
		}
		// (2) MiniJS agrees with V8 wherever MiniJS defines a result
		switch it.jcls {
		case "ok":
			want := "[" + it.jval + "]"
			got, _ := hex.DecodeString(o.Hex)
			if o.Err != "" || string(got) != want {
				e.res.Fail(hx.Violation{Kind: "mismatch", What: "node evaluates the generated expression differently from MiniJS", Case: cs, Expected: want, Observed: string(got) + o.Err}, "")
			}
		case "err":
			if !strings.Contains(o.Err, "TypeError") {
				got, _ := hex.DecodeString(o.Hex)
				e.res.Fail(hx.Violation{Kind: "mismatch", What: "MiniJS reports a TypeError, node does not", Case: cs, Observed: string(got) + o.Err}, "")
			}
		}
	}
}

type jsEvalRes struct {
	Hex string `json:"hex"`
	Err string `json:"err"`
}

// jsEvalNode evaluates JavaScript expressions with js/c16.js (each in a fresh context).
func jsEvalNode(evals []string, tag string) ([]jsEvalRes, error) {
	dir := os.Getenv("VERIF_BUILD")
	if dir == "" {
		dir = os.TempDir()
	}
	dir = filepath.Join(dir, "logs")
	os.MkdirAll(dir, 0o755)
	inf := filepath.Join(dir, tag+".in.json")
	outf := filepath.Join(dir, tag+".out.json")
	var buf bytes.Buffer
	enc := json.NewEncoder(&buf)
	enc.SetEscapeHTML(false)
	if err := enc.Encode(map[string]interface{}{"evals": evals}); err != nil {
		return nil, err
	}
	if err := os.WriteFile(inf, buf.Bytes(), 0o644); err != nil {
		return nil, err
	}
	os.Remove(outf)
	vd := os.Getenv("VERIF_DIR")
	if vd == "" {
		vd = "/verif"
	}
	if outb, err := exec.Command("node", filepath.Join(vd, "js", "c16.js"), inf, outf).CombinedOutput(); err != nil {
		return nil, fmt.Errorf("%v: %s", err, firstLine04(string(outb)))
	}
	bs, err := os.ReadFile(outf)
	if err != nil {
		return nil, err
	}
	var out struct {
		Evals []jsEvalRes `json:"evals"`
	}
	if err := json.Unmarshal(bs, &out); err != nil {
		return nil, err
	}
	if len(out.Evals) != len(evals) {
		return nil, fmt.Errorf("node returned %d results for %d expressions", len(out.Evals), len(evals))
	}
	return out.Evals, nil
}

// c04EscapeTie ties the model of soy.$$escapeHtml (MiniJS.js_escape_html) to soyutils.js in node.
func c04EscapeTie(e *env) {
	var strs []string
	for c := 0; c < 128; c++ {
		strs = append(strs, string(rune(c)), "a"+string(rune(c))+"b")
	}
	strs = append(strs, "", "1<2 & it's \"q\"", "&amp;", "&&&", "<<>>", "é \U0001F600<", strings.Repeat("<&>\"'", 500))
	var reqs []string
	unit := jsNodeUnit{ID: 1, Mode: "es5", Files: []jsNodeFile{{Name: "esc", Code: "var tie = {}; tie.esc = function(d) { return soy.$$escapeHtml(d.s); };", Templates: []string{"tie.esc"}}}}
	for _, s := range strs {
		reqs = append(reqs, "js_escape_html "+hx.H(s))
		unit.Calls = append(unit.Calls, jsNodeCall{F: "tie.esc", D: map[string]interface{}{"s": s}})
	}
	model := e.m.Batch(reqs)
	res, err := jsRunNode([]jsNodeUnit{unit}, "esc", "C04")
	if err != nil || len(res) != 1 || len(res[0].Calls) != len(strs) {
		e.res.Fail(hx.Violation{Kind: "mismatch", What: "node could not be run for the escapeHtml tie", Case: "node", Observed: fmt.Sprint(err)}, "")
		return
	}
	for i, s := range strs {
		e.res.Count("esc:"+s, true, "minijs:escapeHtml")
		want := ""
		if len(model[i]) == 1 {
			want = hx.UnH(model[i][0])
		}
		got, _ := hex.DecodeString(res[0].Calls[i].Hex)
		if res[0].Calls[i].Err != "" || string(got) != want {
			e.res.Fail(hx.Violation{Kind: "mismatch", What: "soy.$$escapeHtml in node differs from the model js_escape_html", Case: hx.Q(s), Expected: hx.Q(want), Observed: hx.Q(string(got)) + res[0].Calls[i].Err}, "")
		}
	}
}
