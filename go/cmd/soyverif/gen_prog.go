package main

// Program generator shared by the template-level properties (untagged: always
// compiled).  It produces bundles from the Soy command grammar (several
// templates over several files/namespaces, soydoc or header params, optional
// params, aliases, all call forms, recursion on a decreasing int) together with
// data maps satisfying the declared params.  Expressions are typed by intended
// kind so that the valid stream is mostly well-typed; surface style (spaces,
// parentheses, print vs implicit print, soydoc vs header params) is randomised
// independently of structure.

import (
	"fmt"
	"os"
	"path/filepath"
	"regexp"
	"sort"
	"strings"

	"github.com/robfig/soy/data"
	"soyverif/internal/hx"
)

type kind int

const (
	kInt kind = iota
	kStr
	kBool
	kFloat
	kListInt // non-empty
	kListStr // non-empty
	kEList   // possibly empty list of ints
	kRec     // map {a:int, b:str, c:list<int>}
	kOptInt  // int or absent (optional param)
	kNull
)

var kindNames = map[kind]string{kInt: "int", kStr: "string", kBool: "bool", kFloat: "float", kListInt: "list<int>", kListStr: "list<string>", kEList: "list<int>", kRec: "map<string,?>", kOptInt: "int|null", kNull: "null"}

type gvar struct {
	name  string
	k     kind
	used  *bool
	param bool // a template parameter
}

type genv struct {
	vars  []gvar // innermost last
	loops []string
}

func (e genv) with(v gvar) genv {
	n := genv{vars: append(append([]gvar{}, e.vars...), v), loops: e.loops}
	return n
}
func (e genv) withLoop(v gvar) genv {
	n := e.with(v)
	n.loops = append(append([]string{}, e.loops...), v.name)
	return n
}
func (e genv) ofKind(k kind) []gvar {
	var r []gvar
	seen := map[string]bool{}
	for i := len(e.vars) - 1; i >= 0; i-- {
		v := e.vars[i]
		if seen[v.name] {
			continue // shadowed
		}
		seen[v.name] = true
		if v.k == k {
			r = append(r, v)
		}
	}
	return r
}

type gparam struct {
	name     string
	k        kind
	optional bool
}

type gtemplate struct {
	ns, file, short string
	params          []gparam
	header          bool // header params instead of soydoc
	autoescape      string
	body            string
	rec             bool // the recursive countdown template
}

func (t *gtemplate) full() string { return t.ns + "." + t.short }

type progOpts struct {
	depth      int
	noMsg      bool
	noLog      bool
	illTyped   int  // percent chance of replacing an expression by one of a random kind
	jsSafe     bool // stay inside the subset both backends define (C04)
	taint      bool
	directives bool
	nastyLits  bool // string literals and map keys with quotes, backslashes, line terminators, </script>, astral runes (C14)
	core       bool // C04 core subset: no floats, small integers, multiplication mostly by a small literal, range() only as a loop list
	useIj      bool // some expressions read $ij.n (int) and $ij.s (string)
	// hooks of the ill-typed/erroring stream (C06); nil = the valid stream, and
	// no PRNG draw is added, so the other properties' streams are unchanged
	exprHook  func(g *progGen, env genv, k kind, d int) (string, bool) // may replace any expression
	dirHook   func(g *progGen) (string, bool)                          // may replace a print's directive suffix
	spread    bool                                                     // C19: put (most) commands on lines of their own, so that line numbers discriminate
	allHeader bool                                                     // C19: every template declares its params in the header (no soydoc comment in the file)
	msgPO     bool                                                     // C11: messages come from progMsgHook (PO-representable shapes), and are frequent
	scope     bool                                                     // C02: small name pool (shadowing), scope probes, aliases, attribute-style params, more data="all"/data="$e"
	// options added for C09 (all off by default; none consumes randomness when off)
	ij          bool                  // some prints read the injected data: {$ij.s}, {$ij.n}
	customFunc  string                // name of a user-installed int -> int function to call now and then
	onTemplates func(ts []*gtemplate) // receives the generated templates (params of every template, not only the entry)
	// C07
	allParams      bool     // data sets supply optional params too
	totalCalls     bool     // every call passes every callee param (optional ones too); no data="$expr"
	headerDefaults bool     // header params may carry a default value ({@param x: int = 10}); they stay required
	dupShort       bool     // templates in different namespaces may share a short name
	aliases        bool     // files declare {alias other.ns}; calls across namespaces may use the alias
	maxTemplates   int      // > 0: bundles of 1..maxTemplates templates instead of 1..4
	shapes         bool     // print-directive chains of every length 0..8 (marker / cancelling / non-cancelling mixes), list literals of 0..8 items
	chainExtra     []string // user-installed non-cancelling directives usable in chains, e.g. "|bang"
	helperNames    bool     // C04: probes whose let names are a loop variable followed by the suffixes the JavaScript generator derives helper names with (consumes no randomness when off)
}

// progMsgHook, when set (by a property's tagged file) and progOpts.msgPO is on,
// generates the {msg} commands; the default generator below is used otherwise.
var progMsgHook func(g *progGen, env genv, d int) string

type progGen struct {
	topList bool // the expression being generated is the list of a foreach (core: range() allowed only there)
	r     *hx.Rand
	o     progOpts
	tmpls []*gtemplate
	cur   int // index of the template being generated
	ctr   int
	files []srcFile
	feats map[string]int
	alias map[string]map[string]bool // namespace of the caller's file -> namespaces it aliases (scope option)
}

func (g *progGen) feat(s string) { g.feats[s]++ }

// nl is a line break between commands when the spread option is on (a text run of white space
// containing a newline is dropped by the scanner, so the program is the same program).
func (g *progGen) nl() string {
	if !g.o.spread {
		return ""
	}
	if g.r.Chance(85) {
		return "\n"
	}
	return ""
}
func (g *progGen) pk(ks ...kind) kind { return ks[g.r.Intn(len(ks))] }

func (g *progGen) fresh(prefix string) string {
	g.ctr++
	return fmt.Sprintf("%s%d", prefix, g.ctr)
}

var strPool = []string{"a", "hello", "x y", "", "<b>", "a&b", "it's", "q\"q", "é", "日本", "line\nbreak", "tab\there", "back\\slash", "1", "0", "true", "</script>", "{", "}"}

var nastyPool = []string{"q\"q", "a'b", "back\\slash", "line\nbreak", "</script>", "\u2028", "\u2029", "\U0001F600", "\u00e9\u00ad", "\x01", "x\ty", "<!--", "]]>", "a\"b'c\\d\r\n", "\\", "'"}

// nastyKey is an extra map-literal entry with a hostile key (only with nastyLits).
func (g *progGen) nastyKey() string {
	if !g.o.nastyLits || !g.r.Chance(50) {
		return ""
	}
	return ", " + soyStr(g.r.Pick(nastyPool)) + ": " + g.intLit()
}

func (g *progGen) strLit() string {
	if g.o.nastyLits && g.r.Chance(40) {
		return soyStr(g.r.Pick(nastyPool))
	}
	s := g.r.Pick(strPool)
	for strings.ContainsAny(s, "{}") || (g.o.jsSafe && strings.ContainsAny(s, "\n")) {
		s = g.r.Pick(strPool)
	}
	return soyStr(s)
}

func (g *progGen) intLit() string {
	if g.o.core {
		if g.r.Chance(20) {
			return fmt.Sprint(g.r.Intn(1000))
		}
		return fmt.Sprint(g.r.Intn(10))
	}
	switch g.r.Intn(10) {
	case 0:
		return "0"
	case 1:
		return "1"
	case 2:
		return fmt.Sprint(g.r.Intn(1000))
	case 3:
		return fmt.Sprint(int64(1)<<40 + int64(g.r.Intn(1000)))
	default:
		return fmt.Sprint(g.r.Intn(10))
	}
}

func (g *progGen) floatLit() string {
	return g.r.Pick([]string{"0.5", "1.5", "2.25", "0.125", "3.0", "10.75", "100.5", "0.0"})
}

func (g *progGen) paren(s string) string {
	if g.o.core {
		return "(" + s + ")" // the operand kinds are the intended ones only if no operator regroups them
	}
	if g.r.Chance(25) {
		return "(" + s + ")"
	}
	return s
}

func (g *progGen) use(v gvar) string {
	if v.used != nil {
		*v.used = true
	}
	return "$" + v.name
}

// expr generates an expression of kind k.
func (g *progGen) expr(env genv, k kind, d int) string {
	top := g.topList
	g.topList = false
	if g.o.illTyped > 0 && g.r.Chance(g.o.illTyped) {
		k = kind(g.r.Intn(int(kNull) + 1))
	}
	if g.o.core && k == kFloat {
		k = kInt
	}
	if g.o.useIj && (k == kInt || k == kStr) && g.r.Chance(8) {
		g.feat("ij")
		if k == kInt {
			return g.r.Pick([]string{"$ij.n", "$ij?.n", "$ij['n']"})
		}
		return "$ij.s"
	}
	if g.o.exprHook != nil {
		if s, ok := g.o.exprHook(g, env, k, d); ok {
			return s
		}
	}
	vars := env.ofKind(k)
	if d <= 0 || g.r.Chance(30) {
		if len(vars) > 0 && g.r.Chance(70) {
			return g.use(vars[g.r.Intn(len(vars))])
		}
		switch k {
		case kInt:
			return g.intLit()
		case kStr:
			return g.strLit()
		case kBool:
			return g.r.Pick([]string{"true", "false"})
		case kFloat:
			return g.floatLit()
		case kListInt:
			if g.o.shapes {
				items := []string{g.intLit()}
				for n := g.r.Intn(8); n > 0; n-- {
					items = append(items, g.intLit())
				}
				return "[" + strings.Join(items, ", ") + "]"
			}
			return "[" + g.intLit() + ", " + g.intLit() + ", " + g.intLit() + "]"
		case kListStr:
			return "[" + g.strLit() + ", " + g.strLit() + "]"
		case kEList:
			if g.r.Bool() {
				return "[]"
			}
			return "[" + g.intLit() + "]"
		case kRec:
			return "['a': " + g.intLit() + ", 'b': " + g.strLit() + ", 'c': [" + g.intLit() + ", " + g.intLit() + "]" + g.nastyKey() + "]"
		case kOptInt:
			if g.r.Bool() {
				return "null"
			}
			return g.intLit()
		case kNull:
			return "null"
		}
	}
	e := func(k2 kind) string { return g.expr(env, k2, d-1) }
	switch k {
	case kInt:
		if g.o.customFunc != "" && g.r.Chance(12) {
			g.feat("custom-func")
			return g.o.customFunc + "(" + e(kInt) + ")"
		}
		if g.o.ij && g.r.Chance(8) {
			g.feat("ij")
			return "$ij.n"
		}
		switch g.r.Intn(16) {
		case 0, 1:
			g.feat("add")
			return g.paren(e(kInt) + " + " + e(kInt))
		case 2:
			g.feat("sub")
			return g.paren(e(kInt) + " - " + e(kInt))
		case 3:
			g.feat("mul")
			if g.o.core && !g.r.Chance(10) {
				return g.paren(g.atomInt(env, d) + " * " + fmt.Sprint(g.r.Intn(10)))
			}
			return g.paren(g.atomInt(env, d) + " * " + g.atomInt(env, d))
		case 4:
			g.feat("mod")
			return g.paren(g.atomInt(env, d) + " % " + fmt.Sprint(1+g.r.Intn(7)))
		case 5:
			g.feat("neg")
			return "-" + g.atomInt(env, d)
		case 6:
			g.feat("length")
			return "length(" + e(g.pk(kListInt, kListStr, kEList)) + ")"
		case 7:
			g.feat("rec.a")
			if rv := env.ofKind(kRec); len(rv) > 0 {
				v := rv[g.r.Intn(len(rv))]
				return g.use(v) + g.r.Pick([]string{".a", "['a']", "?.a"})
			}
			return g.intLit()
		case 8:
			g.feat("index")
			if lv := env.ofKind(kListInt); len(lv) > 0 {
				v := lv[g.r.Intn(len(lv))]
				return g.use(v) + g.r.Pick([]string{"[0]", ".0", "[1 - 1]", "?[0]", "?.0"})
			}
			return g.intLit()
		case 9:
			g.feat("ternary")
			return g.paren(e(kBool) + " ? " + e(kInt) + " : " + e(kInt))
		case 10:
			g.feat("elvis")
			return g.paren(e(kOptInt) + " ?: " + e(kInt))
		case 11:
			g.feat("minmax")
			return g.r.Pick([]string{"min", "max"}) + "(" + e(kInt) + ", " + e(kInt) + ")"
		case 12:
			g.feat("floor")
			if g.o.core {
				return g.r.Pick([]string{"floor", "ceiling", "round"}) + "(" + e(kInt) + ")"
			}
			return g.r.Pick([]string{"floor", "ceiling", "round"}) + "(" + e(kFloat) + ")"
		case 13:
			if len(env.loops) > 0 {
				g.feat("loopindex")
				return "index($" + env.loops[g.r.Intn(len(env.loops))] + ")"
			}
			return g.intLit()
		default:
			return g.intLit()
		}
	case kStr:
		if g.o.ij && g.r.Chance(10) {
			g.feat("ij")
			return g.r.Pick([]string{"$ij.s", "$ij.rec.b", "$ij?.s"})
		}
		switch g.r.Intn(8) {
		case 0, 1:
			g.feat("concat")
			return g.paren(e(kStr) + " + " + e(kStr))
		case 2:
			g.feat("concat-int")
			if g.r.Bool() {
				return g.paren(e(kStr) + " + " + g.atomInt(env, d))
			}
			return g.paren(g.atomInt(env, d) + " + " + e(kStr))
		case 3:
			if rv := env.ofKind(kRec); len(rv) > 0 {
				g.feat("rec.b")
				return g.use(rv[g.r.Intn(len(rv))]) + g.r.Pick([]string{".b", "['b']"})
			}
			return g.strLit()
		case 4:
			g.feat("ternary")
			return g.paren(e(kBool) + " ? " + e(kStr) + " : " + e(kStr))
		case 5:
			if lv := env.ofKind(kListStr); len(lv) > 0 {
				g.feat("index")
				return g.use(lv[g.r.Intn(len(lv))]) + "[0]"
			}
			return g.strLit()
		default:
			return g.strLit()
		}
	case kBool:
		switch g.r.Intn(14) {
		case 0:
			g.feat("lt")
			return g.paren(e(kInt) + " " + g.r.Pick([]string{"<", ">", "<=", ">="}) + " " + e(kInt))
		case 1:
			g.feat("eq")
			k2 := g.pk(kInt, kStr, kBool)
			return g.paren(e(k2) + " " + g.r.Pick([]string{"==", "!="}) + " " + e(k2))
		case 2:
			g.feat("not")
			return "not " + g.atomBool(env, d)
		case 3, 4:
			g.feat("and")
			return g.paren(e(kBool) + " and " + e(kBool))
		case 5, 6:
			g.feat("or")
			return g.paren(e(kBool) + " or " + e(kBool))
		case 7:
			g.feat("isNonnull")
			return "isNonnull(" + e(kOptInt) + ")"
		case 8:
			g.feat("strContains")
			return "strContains(" + e(kStr) + ", " + e(kStr) + ")"
		case 9:
			if len(env.loops) > 0 {
				g.feat("isFirst")
				return g.r.Pick([]string{"isFirst", "isLast"}) + "($" + env.loops[g.r.Intn(len(env.loops))] + ")"
			}
			return "true"
		case 10:
			if g.o.core {
				g.feat("lt")
				return g.paren(e(kInt) + " < " + e(kInt))
			}
			g.feat("lt-float")
			return g.paren(e(kFloat) + " < " + e(kFloat))
		case 11:
			if !g.o.jsSafe {
				g.feat("truthy-coercion")
				return g.paren(e(g.pk(kInt, kStr, kOptInt)) + " and " + e(kBool))
			}
			return "true"
		case 12:
			g.feat("ternary")
			return g.paren(e(kBool) + " ? " + e(kBool) + " : " + e(kBool))
		default:
			return g.r.Pick([]string{"true", "false"})
		}
	case kFloat:
		switch g.r.Intn(7) {
		case 0:
			g.feat("fadd")
			return g.paren(e(kFloat) + " + " + e(kFloat))
		case 1:
			g.feat("fsub")
			return g.paren(e(kFloat) + " - " + g.atomInt(env, d))
		case 2:
			g.feat("div")
			return g.paren(g.atomInt(env, d) + " / " + g.r.Pick([]string{"2", "4", "8", "1"}))
		case 3:
			g.feat("fmul")
			return g.paren(g.floatLit() + " * " + g.atomInt(env, d))
		default:
			return g.floatLit()
		}
	case kListInt:
		c5 := g.r.Intn(5)
		if g.o.core && !top && c5 < 2 {
			c5 = 4 // range() is a function only in the Go backend: in the core subset it appears as a loop list only
		}
		switch c5 {
		case 0:
			g.feat("range")
			return "range(" + fmt.Sprint(1+g.r.Intn(4)) + ")"
		case 1:
			g.feat("range3")
			return "range(" + g.r.Pick([]string{"0", "1", "2"}) + ", " + g.r.Pick([]string{"5", "6", "9"}) + ", " + g.r.Pick([]string{"1", "2", "3"}) + ")"
		case 2:
			if rv := env.ofKind(kRec); len(rv) > 0 {
				g.feat("rec.c")
				return g.use(rv[g.r.Intn(len(rv))]) + ".c"
			}
		}
		return "[" + e(kInt) + ", " + e(kInt) + "]"
	case kListStr:
		if rv := env.ofKind(kRec); len(rv) > 0 && g.r.Chance(40) {
			g.feat("keys")
			return "keys(" + g.use(rv[g.r.Intn(len(rv))]) + ")"
		}
		return "[" + e(kStr) + ", " + e(kStr) + "]"
	case kEList:
		if g.r.Bool() && (top || !g.o.core) {
			g.feat("range0")
			return "range((" + e(kInt) + ") % 3)"
		}
		return e(kListInt)
	case kRec:
		if rv := env.ofKind(kRec); len(rv) > 0 && g.r.Chance(50) {
			g.feat("augmentMap")
			return "augmentMap(" + g.use(rv[g.r.Intn(len(rv))]) + ", ['a': " + e(kInt) + "])"
		}
		return "['a': " + e(kInt) + ", 'b': " + e(kStr) + ", 'c': " + e(kListInt) + g.nastyKey() + "]"
	case kOptInt:
		if g.r.Bool() {
			return "null"
		}
		return e(kInt)
	}
	return "null"
}

func (g *progGen) atomInt(env genv, d int) string {
	vs := env.ofKind(kInt)
	if len(vs) > 0 && g.r.Chance(60) {
		return g.use(vs[g.r.Intn(len(vs))])
	}
	if g.r.Chance(30) {
		return "(" + g.expr(env, kInt, d-1) + ")"
	}
	return fmt.Sprint(g.r.Intn(9))
}

func (g *progGen) atomBool(env genv, d int) string {
	vs := env.ofKind(kBool)
	if len(vs) > 0 && g.r.Chance(60) {
		return g.use(vs[g.r.Intn(len(vs))])
	}
	return "(" + g.expr(env, kBool, d-1) + ")"
}

func (r0 *progGen) printable() []kind {
	if r0.o.core {
		return []kind{kInt, kStr, kBool, kStr, kInt, kStr}
	}
	return []kind{kInt, kStr, kBool, kFloat, kInt, kStr}
}

var rawTexts = []string{"text ", "a b", "<p>", "</p>", " - ", "x", "  two  spaces ", "&amp;", "\n", "line1\n  line2", "é", "\"q\"", "'", "1 < 2"}

// chain: a print-directive list of 0..8 entries.  The parser builds the list
// with append, so its spare capacity depends on the length; whether a backend
// appends to it depends on whether a directive cancels autoescaping and on the
// marker directives (id, noAutoescape) being filtered out.
func (g *progGen) chain() string {
	n := g.r.Intn(9)
	kind := g.r.Intn(4)
	nonc := append([]string{"|truncate:9", "|truncate:20,false", "|truncate:6,true", "|truncate:40"}, g.o.chainExtra...)
	markers := []string{"|id", "|noAutoescape"}
	canc := []string{"|escapeHtml", "|escapeUri", "|escapeJsString", "|json", "|changeNewlineToBr", "|insertWordBreaks:4"}
	var sb strings.Builder
	for i := 0; i < n; i++ {
		switch {
		case kind == 1 && g.r.Chance(30):
			sb.WriteString(g.r.Pick(markers))
		case kind == 2 && g.r.Chance(35), kind == 3:
			sb.WriteString(g.r.Pick(canc))
		default:
			sb.WriteString(g.r.Pick(nonc))
		}
	}
	g.feat(fmt.Sprintf("chain-len:%d", n))
	g.feat([]string{"chain:non-cancelling", "chain:with-markers", "chain:mixed", "chain:cancelling"}[kind])
	return sb.String()
}

func (g *progGen) directive() string {
	if g.o.shapes {
		return g.chain()
	}
	if !g.o.directives || !g.r.Chance(25) {
		return ""
	}
	if g.o.jsSafe {
		return g.r.Pick([]string{"|noAutoescape", "|id", "|escapeHtml"})
	}
	return g.r.Pick([]string{"|noAutoescape", "|id", "|escapeHtml", "|escapeUri", "|escapeJsString", "|truncate:5", "|truncate:8,false", "|insertWordBreaks:4", "|changeNewlineToBr", "|json"})
}

// block generates a command sequence; lets introduced here are used before the block ends.
func (g *progGen) block(env genv, d int, n int) string {
	var sb strings.Builder
	var pendingLets []gvar
	for i := 0; i < n; i++ {
		if g.o.msgPO && g.r.Chance(30) {
			sb.WriteString(g.msg(env, d))
			continue
		}
		if g.o.scope && d > 0 && g.r.Chance(18) {
			sb.WriteString(g.scopeProbe(env, d))
			continue
		}
		if g.o.helperNames && d > 0 && g.r.Chance(10) {
			sb.WriteString(g.helperNameProbe(env, d))
			continue
		}
		c := g.r.Intn(24)
		switch {
		case c < 4:
			g.feat("rawtext")
			sb.WriteString(g.r.Pick(rawTexts))
		case c < 9:
			g.feat("print")
			k := g.printable()[g.r.Intn(6)]
			ex := g.expr(env, k, d)
			dir := ""
			if k == kStr {
				dir = g.directive()
			}
			if g.o.dirHook != nil {
				if s, ok := g.o.dirHook(g); ok {
					dir = s
				}
			}
			if g.r.Chance(30) {
				sb.WriteString("{print " + ex + dir + "}")
			} else {
				sb.WriteString("{" + ex + dir + "}")
			}
		case c < 11 && d > 0:
			g.feat("if")
			sb.WriteString("{if " + g.expr(env, kBool, d-1) + "}" + g.nl() + g.block(env, d-1, 1+g.r.Intn(2)))
			for g.r.Chance(30) {
				g.feat("elseif")
				sb.WriteString("{elseif " + g.expr(env, kBool, d-1) + "}" + g.nl() + g.block(env, d-1, 1))
			}
			if g.r.Bool() {
				sb.WriteString("{else}" + g.nl() + g.block(env, d-1, 1))
			}
			sb.WriteString("{/if}")
		case c < 12 && d > 0:
			g.feat("switch")
			k := g.pk(kInt, kStr)
			sb.WriteString("{switch " + g.expr(env, k, d-1) + "}" + g.nl())
			for j := 0; j < 1+g.r.Intn(3); j++ {
				sb.WriteString("{case " + g.expr(env, k, 0))
				if g.o.scope && g.r.Chance(35) {
					// C02: up to four values per case (the case is taken iff the switch value equals one of them)
					g.feat("switch-multi-value")
					for m := 1 + g.r.Intn(3); m > 0; m-- {
						sb.WriteString(", " + g.expr(env, k, 0))
					}
				} else if g.r.Chance(30) {
					sb.WriteString(", " + g.expr(env, k, 0))
				}
				sb.WriteString("}" + g.nl() + g.block(env, d-1, 1))
			}
			if g.r.Bool() {
				sb.WriteString("{default}" + g.nl() + g.block(env, d-1, 1))
			}
			sb.WriteString("{/switch}")
		case c < 14 && d > 0:
			g.feat("foreach")
			k := g.pk(kListInt, kListStr, kEList)
			ek := kInt
			if k == kListStr {
				ek = kStr
			}
			v := gvar{name: g.r.Pick([]string{"i", "j", "item", "x"}) + g.fresh(""), k: ek}
			if g.r.Chance(20) {
				v.name = g.r.Pick([]string{"i", "x", "a"}) // shadowing
			}
			if g.o.scope && g.r.Chance(40) {
				v.name = g.r.Pick(scopeNames)
				g.noteShadow(env, v.name, "loop")
			}
			g.topList = true
			sb.WriteString("{foreach $" + v.name + " in " + g.expr(env, k, d-1) + "}" + g.nl())
			sb.WriteString(g.block(env.withLoop(v), d-1, 1+g.r.Intn(2)))
			if k == kEList || g.r.Chance(20) {
				g.feat("ifempty")
				sb.WriteString("{ifempty}" + g.nl() + g.block(env, d-1, 1))
			}
			sb.WriteString("{/foreach}")
		case c < 15 && d > 0:
			g.feat("for-range")
			v := gvar{name: "r" + g.fresh(""), k: kInt}
			args := g.r.Pick([]string{"3", "1, 4", "0, 6, 2", "0"})
			sb.WriteString("{for $" + v.name + " in range(" + args + ")}" + g.nl() + g.block(env.withLoop(v), d-1, 1) + "{/for}")
		case c < 17:
			g.feat("let")
			k := g.printable()[g.r.Intn(6)]
			if g.r.Chance(30) {
				k = g.pk(kListInt, kRec, kBool)
			}
			used := false
			v := gvar{name: g.r.Pick([]string{"v", "w", "x", "a"}) + g.fresh(""), k: k, used: &used}
			if g.r.Chance(15) {
				v.name = g.r.Pick([]string{"x", "a", "i"}) // shadow something
			}
			if g.o.scope && g.r.Chance(45) {
				v.name = g.r.Pick(scopeNames)
				if outer := env.visible(v.name); outer != nil && printableKind(outer.k) && g.r.Chance(60) {
					g.feat("use-then-shadow")
					sb.WriteString("{" + g.use(*outer) + "}") // the outer variable is used, then shadowed for the rest of the block
				}
				g.noteShadow(env, v.name, "let")
			}
			for _, pl := range pendingLets {
				if pl.name == v.name && !*pl.used {
					sb.WriteString("{if $" + pl.name + "}{/if}") // about to be shadowed for the rest of the block
					*pl.used = true
				}
			}
			sb.WriteString("{let $" + v.name + ": " + g.expr(env, k, d) + " /}")
			env = env.with(v)
			pendingLets = append(pendingLets, v)
		case c < 18 && d > 0:
			g.feat("let-content")
			used := false
			v := gvar{name: "c" + g.fresh(""), k: kStr, used: &used}
			sb.WriteString("{let $" + v.name + "}" + g.nl() + g.block(env, d-1, 1+g.r.Intn(2)) + "{/let}")
			env = env.with(v)
			pendingLets = append(pendingLets, v)
		case c < 20 && d > 0:
			sb.WriteString(g.call(env, d))
		case c < 21:
			g.feat("css")
			if g.r.Bool() {
				sb.WriteString("{css " + g.r.Pick([]string{"foo", "bar-baz", "a_b"}) + "}")
			} else {
				sb.WriteString("{css " + g.expr(env, kStr, 0) + ", " + g.r.Pick([]string{"foo", "bar"}) + "}")
			}
		case c < 22:
			g.feat("special")
			if g.o.scope && g.r.Chance(30) {
				// C02: {literal} bodies that the line-joining rule, the comment rule or the tag scanner would change
				// if they were applied: none is (the body reaches the output byte for byte)
				g.feat("literal")
				var lb strings.Builder
				for k, n := 0, 1+g.r.Intn(4); k < n; k++ {
					lb.WriteString(g.r.Pick([]string{"  \n  x", "a\n\nb", " // not a comment", "/* nor this */", "{$x}", "{sp}", "{{", "}}", "<b>\n</b>", "\t", " ", "{if}", "text"}))
				}
				sb.WriteString("{literal}" + lb.String() + "{/literal}")
			} else {
				sb.WriteString(g.r.Pick([]string{"{sp}", "{nil}", "{\\n}", "{\\r}", "{\\t}", "{lb}", "{rb}", "{literal}{$not a tag} {{x}}{/literal}", "{debugger}"}))
			}
		case c < 23 && !g.o.noMsg && d > 0:
			sb.WriteString(g.msg(env, d))
		case c < 24 && !g.o.noLog && d > 0:
			g.feat("log")
			sb.WriteString("{log}" + g.nl() + g.block(env, d-1, 1) + "{/log}")
		default:
			sb.WriteString(g.r.Pick(rawTexts))
		}
		sb.WriteString(g.nl())
	}
	for _, v := range pendingLets {
		if !*v.used {
			// the checker demands every let be used; the innermost binding of that name is this one or a later let
			vs := env.ofKind(v.k)
			ok := false
			for _, x := range vs {
				if x.name == v.name && x.used == v.used {
					ok = true
				}
			}
			if ok && (v.k == kInt || v.k == kStr || v.k == kBool || v.k == kFloat) {
				sb.WriteString("{$" + v.name + "}")
			} else if ok {
				sb.WriteString("{if $" + v.name + "}{/if}")
			} else {
				// shadowed by a later let of the same name: cannot be referenced any more
				sb.WriteString("")
			}
			*v.used = true
		}
	}
	return sb.String()
}

func (g *progGen) msg(env genv, d int) string {
	g.feat("msg")
	if g.o.msgPO && progMsgHook != nil {
		return progMsgHook(g, env, d)
	}
	var sb strings.Builder
	sb.WriteString("{msg desc=\"" + g.r.Pick([]string{"d", "a message", ""}) + "\"")
	if g.r.Chance(20) {
		sb.WriteString(" meaning=\"m" + fmt.Sprint(g.r.Intn(3)) + "\"")
	}
	sb.WriteString("}")
	if g.r.Chance(25) {
		g.feat("plural")
		sb.WriteString("{plural " + g.expr(env, kInt, 0) + "}")
		for _, cv := range []string{"0", "1", "2"}[:g.r.Intn(3)] {
			sb.WriteString("{case " + cv + "}" + g.msgBody(env, 1))
		}
		sb.WriteString("{default}" + g.msgBody(env, 1) + "{/plural}")
	} else {
		sb.WriteString(g.msgBody(env, 1+g.r.Intn(3)))
	}
	sb.WriteString("{/msg}")
	return sb.String()
}

func (g *progGen) msgBody(env genv, n int) string {
	var sb strings.Builder
	for i := 0; i < n; i++ {
		switch g.r.Intn(4) {
		case 0:
			sb.WriteString(g.r.Pick([]string{"Hello ", "you have ", " items", "x"}))
		case 1:
			sb.WriteString("{" + g.expr(env, g.pk(kInt, kStr), 0) + "}")
		case 2:
			if g.r.Bool() {
				sb.WriteString("<a href=\"x\">link</a>")
			} else {
				sb.WriteString("<a href=\"x\">{" + g.expr(env, kStr, 0) + "}</a>")
			}
		default:
			sb.WriteString(g.r.Pick([]string{"plain", "<br/>", "<b>bold</b>"}))
		}
	}
	return sb.String()
}

// call generates a call to a later template (or the recursive one).
func (g *progGen) call(env genv, d int) string {
	var cands []*gtemplate
	for j := g.cur + 1; j < len(g.tmpls); j++ {
		cands = append(cands, g.tmpls[j])
	}
	if len(cands) == 0 {
		return ""
	}
	callee := cands[g.r.Intn(len(cands))]
	caller := g.tmpls[g.cur]
	g.feat("call")
	// name form
	name := callee.full()
	if callee.ns == caller.ns && g.r.Chance(70) {
		name = "." + callee.short
		g.feat("call-relative")
	} else if g.o.aliases && callee.ns != caller.ns && g.r.Chance(50) {
		name = callee.ns[strings.LastIndex(callee.ns, ".")+1:] + "." + callee.short
		g.feat("call-aliased")
	}
	if g.o.scope {
		if name[0] != '.' {
			if g.alias[caller.ns][callee.ns] && g.r.Chance(70) {
				name = callee.ns[strings.LastIndex(callee.ns, ".")+1:] + "." + callee.short
				g.feat("call-aliased")
			} else {
				g.feat("call-fully-qualified")
			}
		}
		if callee.file != caller.file {
			g.feat("call-other-file")
		}
		if callee.ns != caller.ns {
			g.feat("call-other-namespace")
		}
	}
	// data="all" possible when every required callee param is a caller param of the same kind
	allOK := true
	for _, p := range callee.params {
		if p.optional {
			continue
		}
		found := false
		for _, q := range caller.params {
			if q.name == p.name && q.k == p.k && !q.optional {
				found = true
			}
		}
		if !found {
			allOK = false
		}
	}
	recOK := len(env.ofKind(kRec)) > 0
	for _, p := range callee.params {
		if !(p.name == "a" && p.k == kInt || p.name == "b" && p.k == kStr || p.name == "c" && p.k == kListInt || p.optional) {
			recOK = false
		}
	}
	var sb strings.Builder
	if g.o.scope && g.r.Chance(12) {
		g.feat("call-name-attr")
		sb.WriteString("{call name=\"" + name + "\"")
	} else {
		sb.WriteString("{call " + name)
	}
	passAll := false
	allP, exprP, overrideP := 50, 60, 25
	if g.o.scope {
		allP, exprP, overrideP = 75, 80, 50
	}
	switch {
	case allOK && g.r.Chance(allP):
		g.feat("call-data-all")
		sb.WriteString(" data=\"all\"")
		passAll = true
		if g.o.scope {
			for _, p := range callee.params {
				if v := env.visible(p.name); v != nil && !v.param {
					g.feat("call-data-all-under-shadow") // the callee must see the caller's PARAM, not this let/loop variable
					break
				}
			}
			if len(env.loops) > 0 {
				g.feat("call-data-all-in-loop")
			}
		}
		for _, p := range callee.params {
			for _, q := range env.vars {
				if q.name == p.name && q.used != nil && q.param {
					*q.used = true // forwarded by data="all" (only a PARAM is; a let of that name is not)
				}
			}
		}
	case recOK && !g.o.totalCalls && g.r.Chance(exprP):
		g.feat("call-data-expr")
		rv := env.ofKind(kRec)
		sb.WriteString(" data=\"" + g.use(rv[g.r.Intn(len(rv))]) + "\"")
		passAll = true
	case g.o.scope && recLitOK(callee) && g.r.Chance(50):
		g.feat("call-data-expr")
		g.feat("call-data-map-literal")
		sb.WriteString(" data=\"['a': " + g.atomInt(env, 0) + ", 'b': 'lit', 'c': [7, " + g.atomInt(env, 0) + "]]\"")
		passAll = true
	}
	var params []string
	for _, p := range callee.params {
		if g.o.totalCalls {
			covered := false
			for _, q := range caller.params {
				if q.name == p.name && q.k == p.k {
					covered = true
				}
			}
			if passAll && covered && !g.r.Chance(25) {
				continue
			}
		} else {
			// scope option: an explicit param hides the same key of the passed data WHATEVER its value -- also when the
			// value is undefined at run time (another optional param that is absent, a missing map key, a list index
			// out of range): the callee must then see the name undefined, not the passed data's value
			if g.o.scope && passAll && !callee.rec && g.r.Chance(14) {
				if ex := g.undefExpr(env, p); ex != "" {
					g.feat("param-overrides-data")
					g.feat("param-maybe-undefined-overrides-data")
					params = append(params, "{param "+p.name+": "+ex+" /}"+g.nl())
					continue
				}
			}
			if passAll && !g.r.Chance(overrideP) {
				continue
			}
			if p.optional && g.r.Chance(50) {
				if g.o.scope && !passAll && env.visible(p.name) != nil {
					g.feat("optional-not-passed-while-caller-binds-it") // the callee must see it undefined
				}
				continue
			}
		}
		if g.o.scope && passAll {
			g.feat("param-overrides-data")
		}
		k := p.k
		if callee.rec && p.name == "n" {
			params = append(params, "{param n: "+fmt.Sprint(g.r.Intn(4))+" /}")
			continue
		}
		if k == kStr && g.r.Chance(40) && d > 0 {
			g.feat("param-content")
			if g.o.scope && g.r.Chance(25) {
				g.feat("param-attr-syntax")
				params = append(params, "{param key=\""+p.name+"\"}"+g.nl()+g.block(env, d-1, 1)+"{/param}"+g.nl())
			} else {
				params = append(params, "{param "+p.name+"}"+g.nl()+g.block(env, d-1, 1)+"{/param}"+g.nl())
			}
		} else {
			ex := g.expr(env, k, d-1)
			if g.o.scope && g.r.Chance(25) && !strings.ContainsAny(ex, "\"\\\n") {
				g.feat("param-attr-syntax")
				params = append(params, "{param key=\""+p.name+"\" value=\""+ex+"\" /}"+g.nl())
			} else {
				params = append(params, "{param "+p.name+": "+ex+" /}"+g.nl())
			}
		}
	}
	if len(params) == 0 {
		sb.WriteString(" /}")
	} else {
		sb.WriteString("}" + g.nl() + strings.Join(params, "") + "{/call}")
	}
	return sb.String()
}

func (r *progGen) unusedFix(t *gtemplate, used map[string]*bool) string {
	var sb strings.Builder
	for _, p := range t.params {
		if !*used[p.name] {
			switch p.k {
			case kInt, kStr, kBool, kFloat:
				sb.WriteString("{$" + p.name + "}")
			case kOptInt:
				sb.WriteString("{$" + p.name + " ?: 0}")
			default:
				sb.WriteString("{if $" + p.name + "}y{/if}")
			}
		}
	}
	return sb.String()
}

// bundle generates a whole bundle and one data map for its entry template.
func genBundle(r *hx.Rand, o progOpts) (files []srcFile, entry string, dataSets []data.Map, feats map[string]int) {
	g := &progGen{r: r, o: o, feats: map[string]int{}}
	nT := 1 + r.Intn(4)
	if o.maxTemplates > 0 {
		nT = 1 + r.Intn(o.maxTemplates)
	}
	nss := []string{"ns.one", "ns.two.deep", "other"}[:1+r.Intn(3)]
	paramPool := []gparam{{"a", kInt, false}, {"b", kStr, false}, {"c", kListInt, false}, {"x", kInt, false}, {"s", kStr, false}, {"flag", kBool, false},
		{"f", kFloat, false}, {"rec", kRec, false}, {"opt", kOptInt, true}, {"names", kListStr, false}, {"el", kEList, false}, {"i", kInt, false}}
	if o.scope {
		paramPool = append(paramPool, gparam{"v", kOptInt, true}, gparam{"w", kOptInt, true})
		if r.Chance(50) {
			nT++
		}
	}
	recPool := []gparam{{"a", kInt, false}, {"b", kStr, false}, {"c", kListInt, false}, {"opt", kOptInt, true}, {"v", kOptInt, true}}
	for i := 0; i < nT; i++ {
		t := &gtemplate{short: fmt.Sprintf("t%d", i), header: r.Chance(30)}
		if o.allHeader {
			t.header = true
		}
		t.ns = nss[r.Intn(len(nss))]
		if i == 0 {
			t.ns = nss[0]
		}
		if o.dupShort && i > 0 && r.Chance(35) {
			// reuse the short name of an earlier template that lives in another namespace
			prev := g.tmpls[r.Intn(len(g.tmpls))]
			clash := prev.ns == t.ns
			for _, q := range g.tmpls {
				if q.ns == t.ns && q.short == prev.short {
					clash = true
				}
			}
			if !clash {
				t.short = prev.short
				g.feat("dup-short-name")
			}
		}
		t.file = t.ns
		if o.scope && r.Chance(30) {
			t.file = t.ns + "#2" // a second file of the same namespace
		}
		np := 1 + r.Intn(5)
		seen := map[string]bool{}
		pool := paramPool
		if o.scope && i > 0 && r.Chance(40) {
			pool = recPool // callable with data="$rec" / a map literal
		}
		for j := 0; j < np; j++ {
			p := pool[r.Intn(len(pool))]
			if o.core && p.k == kFloat {
				continue
			}
			if !seen[p.name] {
				seen[p.name] = true
				t.params = append(t.params, p)
			}
		}
		if r.Chance(25) {
			t.autoescape = r.Pick([]string{"true", "false", "contextual"})
		}
		g.tmpls = append(g.tmpls, t)
	}
	if r.Chance(35) {
		g.tmpls = append(g.tmpls, &gtemplate{short: "rec", ns: nss[0], file: nss[0], params: []gparam{{"n", kInt, false}}, rec: true,
			body: "{if $n > 0}{$n}{sp}{call .rec}{param n: $n - 1 /}{/call}{/if}"})
		if o.scope && r.Chance(50) {
			// the explicit param overrides the forwarded one at every level; the let and the loop variable named n must not reach the callee
			g.tmpls[len(g.tmpls)-1].body = "{if $n > 0}{$n}{sp}{let $m: $n - 1 /}{foreach $n in [5]}{call .rec data=\"all\"}{param n: $m /}{/call}{/foreach}{/if}"
			g.feats["recursion-data-all-override"]++
		}
		g.feats["recursion"]++
	}
	g.alias = map[string]map[string]bool{}
	if o.scope {
		for _, ns := range nss {
			g.alias[ns] = map[string]bool{}
			for _, other := range nss {
				if other != ns && strings.Contains(other, ".") && r.Chance(60) {
					g.alias[ns][other] = true
				}
			}
		}
	}
	for i, t := range g.tmpls {
		if t.rec {
			continue
		}
		g.cur = i
		env := genv{}
		used := map[string]*bool{}
		for _, p := range t.params {
			u := false
			used[p.name] = &u
			env = env.with(gvar{name: p.name, k: p.k, used: &u, param: true})
		}
		body := g.block(env, o.depth, 2+r.Intn(4))
		t.body = g.unusedFix(t, used) + body // at the start: a later {let} may shadow the param
	}
	// files: one per namespace
	nsAttr := map[string]string{}
	for _, ns := range nss {
		if r.Chance(25) {
			nsAttr[ns] = r.Pick([]string{"true", "false", "contextual"})
		}
	}
	type fileSpec struct{ ns, file string }
	var fileList []fileSpec
	for _, ns := range nss {
		fileList = append(fileList, fileSpec{ns, ns})
		if o.scope {
			fileList = append(fileList, fileSpec{ns, ns + "#2"})
		}
	}
	for fi, fs := range fileList {
		ns := fs.ns
		var sb strings.Builder
		sb.WriteString("{namespace " + ns + attrSrcG(nsAttr[ns]) + "}\n\n")
		if o.aliases {
			for _, other := range nss {
				if other != ns && strings.Contains(other, ".") {
					sb.WriteString("{alias " + other + "}\n")
				}
			}
		}
		for _, other := range nss {
			if g.alias[ns][other] {
				sb.WriteString("{alias " + other + "}\n")
			}
		}
		any := false
		for _, t := range g.tmpls {
			if t.ns != ns || t.file != fs.file {
				continue
			}
			any = true
			if t.header {
				sb.WriteString("{template ." + t.short + attrSrcG(t.autoescape) + "}\n")
				for _, p := range t.params {
					q := ""
					if p.optional {
						q = "?"
					}
					dflt := ""
					if o.headerDefaults && r.Chance(40) {
						switch p.k {
						case kInt, kOptInt:
							dflt = " = 10"
						case kStr:
							dflt = " = 'dflt'"
						case kBool:
							dflt = " = true"
						case kFloat:
							dflt = " = 0.5"
						case kListInt, kEList:
							dflt = " = [1, 2]"
						}
						if dflt != "" {
							g.feat("header-param-default")
						}
					}
					sb.WriteString("{@param" + q + " " + p.name + ": " + kindNames[p.k] + dflt + "}\n")
				}
			} else {
				sb.WriteString("/**\n")
				for _, p := range t.params {
					q := ""
					if p.optional {
						q = "?"
					}
					sb.WriteString(" * @param" + q + " " + p.name + "\n")
				}
				sb.WriteString(" */\n{template ." + t.short + attrSrcG(t.autoescape) + "}\n")
			}
			sb.WriteString(t.body + "\n{/template}\n\n")
		}
		if any {
			files = append(files, srcFile{fmt.Sprintf("file%d.soy", fi), sb.String()})
		}
	}
	entry = g.tmpls[0].full()
	if o.onTemplates != nil {
		o.onTemplates(g.tmpls)
	}
	for k := 0; k < 2; k++ {
		dataSets = append(dataSets, genData(r, g.tmpls[0].params, o))
	}
	return files, entry, dataSets, g.feats
}

func attrSrcG(a string) string {
	if a == "" {
		return ""
	}
	return ` autoescape="` + a + `"`
}

func genValue(r *hx.Rand, k kind, o progOpts) data.Value {
	switch k {
	case kInt:
		if o.core {
			return data.Int([]int64{0, 1, 2, 3, 7, -1, -5, 42, 100, 999}[r.Intn(10)])
		}
		return data.Int([]int64{0, 1, 2, 3, 7, -1, -5, 42, 1 << 33, (1 << 52) + 1}[r.Intn(10)])
	case kStr:
		s := strPool[r.Intn(len(strPool))]
		return data.String(s)
	case kBool:
		return data.Bool(r.Bool())
	case kFloat:
		return data.Float([]float64{0.5, 1.5, -2.25, 0, 3, 100.125, -0.5}[r.Intn(7)])
	case kListInt:
		n := 1 + r.Intn(3)
		l := make(data.List, n)
		for i := range l {
			l[i] = data.Int(r.Intn(10))
		}
		return l
	case kListStr:
		return data.List{data.String(strPool[r.Intn(len(strPool))]), data.String("z")}
	case kEList:
		if r.Bool() {
			return data.List{}
		}
		return data.List{data.Int(r.Intn(5)), data.Int(9)}
	case kRec:
		return data.Map{"a": data.Int(r.Intn(9)), "b": data.String(strPool[r.Intn(len(strPool))]), "c": data.List{data.Int(1), data.Int(r.Intn(9))}}
	case kOptInt:
		return data.Int(r.Intn(5))
	}
	return data.Null{}
}

func genData(r *hx.Rand, params []gparam, o progOpts) data.Map {
	m := data.Map{}
	for _, p := range params {
		if p.optional && !o.allParams && r.Chance(40) {
			continue
		}
		m[p.name] = genValue(r, p.k, o)
	}
	return m
}

// ---- scope option (C02) ----

// scopeNames is the small pool that let and loop variables are drawn from: it contains
// the parameter names, so that lets and loop variables shadow params and each other.
var scopeNames = []string{"a", "b", "x", "s", "i", "v", "w", "opt", "f", "n"}

func printableKind(k kind) bool { return k == kInt || k == kStr || k == kBool || k == kFloat }

// visible returns the innermost variable of that name.
func (e genv) visible(name string) *gvar {
	for i := len(e.vars) - 1; i >= 0; i-- {
		if e.vars[i].name == name {
			v := e.vars[i]
			return &v
		}
	}
	return nil
}

// undefExpr returns an expression that evaluates (or, for an optional param, may evaluate, depending on the data set)
// to undefined WITHOUT being an error: another optional param of the caller that no let or loop variable shadows, a key
// no generated map holds, an index beyond every generated list.  "" if nothing of the kind is in scope.
func (g *progGen) undefExpr(env genv, p gparam) string {
	var cands []string
	for _, v := range env.vars {
		vis := env.visible(v.name)
		if vis == nil || !vis.param || !v.param {
			continue
		}
		switch {
		case v.k == kOptInt && v.name != p.name:
			cands = append(cands, "$"+v.name, "$"+v.name)
		case v.k == kRec:
			cands = append(cands, "$"+v.name+".zz9", "$"+v.name+"['zz9']")
		case v.k == kListInt || v.k == kListStr || v.k == kEList:
			cands = append(cands, "$"+v.name+"[99]")
		}
	}
	if len(cands) == 0 {
		return ""
	}
	ex := cands[g.r.Intn(len(cands))]
	for _, v := range env.vars {
		if v.param && v.used != nil && strings.HasPrefix(ex, "$"+v.name) && (len(ex) == len(v.name)+1 || ex[len(v.name)+1] == '.' || ex[len(v.name)+1] == '[') {
			*v.used = true
		}
	}
	return ex
}

func recLitOK(callee *gtemplate) bool {
	for _, p := range callee.params {
		if !(p.name == "a" && p.k == kInt || p.name == "b" && p.k == kStr || p.name == "c" && p.k == kListInt || p.optional) {
			return false
		}
	}
	return true
}

func (g *progGen) noteShadow(env genv, name, by string) {
	if v := env.visible(name); v != nil {
		if v.param {
			g.feat(by + "-shadows-param")
		} else {
			g.feat(by + "-shadows-variable")
		}
	}
}

// scopeProbe emits a fragment whose output depends on where a binding is visible.
func (g *progGen) scopeProbe(env genv, d int) string {
	var pr []gvar
	for _, k := range []kind{kInt, kStr, kBool, kFloat} {
		pr = append(pr, env.ofKind(k)...)
	}
	otherExpr := func(v gvar) (kind, string) {
		k := g.pk(kInt, kStr)
		return k, g.expr(env, k, 0)
	}
	switch c := g.r.Intn(5); {
	case c == 0 && len(pr) > 0:
		// outer value, a block that shadows it, outer value again
		g.feat("probe-let-in-block")
		v := pr[g.r.Intn(len(pr))]
		k2, ex := otherExpr(v)
		inner := env.with(gvar{name: v.name, k: k2})
		cond := "true"
		if g.r.Chance(30) {
			cond = g.expr(env, kBool, 0)
		}
		return "[" + "{" + g.use(v) + "}{if " + cond + "}{let $" + v.name + ": " + ex + " /}{$" + v.name + "}" + g.block(inner, d-1, 1) + "{/if}{$" + v.name + "}]"
	case c == 1 && len(pr) > 0:
		// a loop variable shadows it in the body only
		g.feat("probe-loop-shadow")
		v := pr[g.r.Intn(len(pr))]
		inner := env.withLoop(gvar{name: v.name, k: kInt})
		return "[" + "{" + g.use(v) + "}{foreach $" + v.name + " in [" + g.intLit() + ", " + g.intLit() + "]}{$" + v.name + "}:{index($" + v.name + ")}" + g.block(inner, d-1, 1) + "{/foreach}{$" + v.name + "}]"
	case c == 2 && len(env.loops) > 0:
		// helpers of an OUTER loop variable inside an inner loop
		g.feat("probe-outer-loop-helpers")
		o := env.loops[g.r.Intn(len(env.loops))]
		q := "q" + g.fresh("")
		inner := env.withLoop(gvar{name: q, k: kInt})
		return "{foreach $" + q + " in [1, 2]}{index($" + o + ")}{isFirst($" + o + ") ? 'F' : ''}{isLast($" + o + ") ? 'L' : ''}/{index($" + q + ")}{isLast($" + q + ") ? 'l' : ''}" + g.block(inner, d-1, 1) + "{/foreach}"
	case c == 3:
		// let content, and a let whose value uses the outer variable of the same name
		if len(pr) > 0 {
			v := pr[g.r.Intn(len(pr))]
			if v.k == kInt || v.k == kStr {
				g.feat("probe-let-from-same-name")
				return "{if true}{let $" + v.name + ": " + g.use(v) + " + " + g.expr(env, v.k, 0) + " /}{$" + v.name + "}{/if}{$" + v.name + "}"
			}
		}
		fallthrough
	default:
		// a let that shadows a param, then a call: data="all" must forward the param
		g.feat("probe-let-then-call")
		caller := g.tmpls[g.cur]
		var cand []gparam
		for _, p := range caller.params {
			if printableKind(p.k) {
				cand = append(cand, p)
			}
		}
		if len(cand) == 0 {
			return g.call(env, d)
		}
		p := cand[g.r.Intn(len(cand))]
		k2, ex := otherExpr(gvar{})
		inner := env.with(gvar{name: p.name, k: k2})
		wrapL, wrapR := "{if true}", "{/if}"
		if g.r.Chance(40) {
			wrapL, wrapR = "{foreach $z"+g.fresh("")+" in [1, 2]}", "{/foreach}"
		}
		return wrapL + "{let $" + p.name + ": " + ex + " /}{$" + p.name + "}" + g.call(inner, d) + wrapR
	}
}

// ---- names at the boundary of the JavaScript generator's freshness invariant (option helperNames) ----

// helperSuffixes: what soyjs appends to a loop variable to name the loop's helper variables: a fixed list (the
// names Closure's and this generator's history used) joined with every capitalised literal that
// soyjs/scope.go and soyjs/exec.go of the tree under check concatenate between two operands (loopVar + "Limit" + n),
// so that a suffix introduced later is probed as well.
var helperSuffixCache []string

func helperSuffixes() []string {
	if helperSuffixCache != nil {
		return helperSuffixCache
	}
	set := map[string]bool{}
	for _, x := range []string{"List", "ListLen", "Len", "Limit", "Index", "Init", "Step", "Data"} {
		set[x] = true
	}
	repo := os.Getenv("VERIF_REPO")
	if repo == "" {
		repo = "/repo"
	}
	re := regexp.MustCompile(`\+\s*"([A-Z][A-Za-z]*)"\s*\+`)
	for _, f := range []string{"soyjs/scope.go", "soyjs/exec.go"} {
		if bs, err := os.ReadFile(filepath.Join(repo, f)); err == nil {
			for _, m := range re.FindAllStringSubmatch(string(bs), -1) {
				set[m[1]] = true
			}
		}
	}
	var out []string
	for x := range set {
		out = append(out, x)
	}
	sort.Strings(out)
	helperSuffixCache = out
	return out
}

// helperLike: a Soy name that reads like a helper of the loop over $v: v + suffix, now and then with a counter-like
// tail (_1, 1, _2 ...), or v with only such a tail (x_1, x1).
func (g *progGen) helperLike(v string) string {
	tail := func() string { return g.r.Pick([]string{"_1", "1", "_2", "2", "_1_1", "_11", "11", "_"}) }
	switch g.r.Intn(6) {
	case 0:
		return v + tail()
	case 1:
		return v + g.r.Pick(helperSuffixes()) + tail()
	default:
		return v + g.r.Pick(helperSuffixes())
	}
}

// helperNameProbe: lets named like the helper variables of a loop, live while the loop runs -- bound before it and used
// after it, and bound inside its body -- with the loop's own value, position and end marker printed in between; and the
// same for the buffer of a content parameter (param_N).  The variable is new, or one of a few plain names so that
// several loops over the same name and lets of the same helper-like name occur in one template.
func (g *progGen) helperNameProbe(env genv, d int) string {
	g.feat("probe-helper-names")
	v := g.r.Pick([]string{"x", "i", "item", "h"})
	if g.r.Chance(50) {
		v = "h" + g.fresh("")
	}
	if g.r.Chance(12) {
		// {let $param..} next to a call with a content parameter
		g.feat("probe-helper-param-buffer")
		nm := g.r.Pick([]string{"param", "param_1", "param1", "output", "output_"})
		k := g.pk(kInt, kStr)
		return "{let $" + nm + ": " + g.expr(env, k, 0) + " /}" + g.call(env.with(gvar{name: nm, k: k}), d) + "{$" + nm + "}"
	}
	outer, inner := g.helperLike(v), g.helperLike(v)
	ko, ki := g.pk(kInt, kStr), g.pk(kInt, kStr)
	var sb strings.Builder
	sb.WriteString("[")
	if g.r.Chance(25) {
		g.feat("probe-helper-let-content")
		ko = kStr
		sb.WriteString("{let $" + outer + "}" + g.block(env, 0, 1) + "{/let}")
	} else {
		sb.WriteString("{let $" + outer + ": " + g.expr(env, ko, 0) + " /}")
	}
	envO := env.with(gvar{name: outer, k: ko})
	loopEnv := envO.withLoop(gvar{name: v, k: kInt})
	isRange := g.r.Chance(30)
	if isRange {
		g.feat("probe-helper-range")
		sb.WriteString("{for $" + v + " in range(" + g.r.Pick([]string{"3", "1, 4", "0, 6, 2", "2"}) + ")}")
	} else {
		lk := g.pk(kListInt, kListInt, kEList)
		g.topList = true
		sb.WriteString("{foreach $" + v + " in " + g.expr(envO, lk, d-1) + "}")
	}
	first := g.r.Bool()
	if first {
		sb.WriteString("{let $" + inner + ": " + g.expr(loopEnv, ki, 0) + " /}")
	}
	sb.WriteString("{$" + v + "}:{index($" + v + ")}{isFirst($" + v + ") ? 'F' : ''}{isLast($" + v + ") ? 'L' : ''}")
	if !first {
		sb.WriteString("{let $" + inner + ": " + g.expr(loopEnv, ki, 0) + " /}")
	}
	bodyEnv := loopEnv.with(gvar{name: inner, k: ki})
	sb.WriteString("{$" + inner + "}")
	if inner != outer {
		sb.WriteString("{$" + outer + "}")
	}
	sb.WriteString(g.block(bodyEnv, d-1, 1))
	sb.WriteString("{$" + v + "}{isLast($" + v + ") ? '.' : ','}")
	if isRange {
		sb.WriteString("{/for}")
	} else {
		sb.WriteString("{/foreach}")
	}
	sb.WriteString("{$" + outer + "}]")
	return sb.String()
}
